package generator

// Injected by /verif's build-time overlay for the C13 explorer only (never present in a normal
// build): lets the harness reach the real, unexported HTTP endpoint constructors and the App's graph
// instance without starting a server (no listener, no websocket hub goroutine).

import (
	"net/http"

	"github.com/EliCDavis/polyform/generator/graph"
)

// VerifEndpoints returns the real parameter-value endpoint and the real producer endpoint of an App
// (graph instance initialised from App.Files). savePath != "" switches autosave on.
func VerifEndpoints(app *App, savePath string) (instance *graph.Instance, parameterValue http.Handler, producerValue http.Handler) {
	app.initGraphInstance()
	var saver *GraphSaver
	if savePath != "" {
		saver = &GraphSaver{app: app, savePath: savePath}
	}
	as := &AppServer{app: app, autosave: savePath != "", configPath: savePath}
	return app.graphInstance, parameterValueEndpoint(app.graphInstance, saver), http.HandlerFunc(as.ProducerEndpoint)
}

// VerifInstance returns the App's graph instance (initialised from App.Files and the registered types).
func VerifInstance(app *App) *graph.Instance {
	app.initGraphInstance()
	return app.graphInstance
}

// VerifSaver returns the real autosaver the server attaches to every editing endpoint.
func VerifSaver(app *App, savePath string) *GraphSaver {
	app.initGraphInstance()
	return &GraphSaver{app: app, savePath: savePath}
}
