#!/bin/bash
# bin/build-blk6-c09.sh <out> — scaled-constant build for C09 (DESIGN §3.6): the explorer of
# harness/cmd/c09 compiled against the tree under test with ONE constant changed through
# `go build -overlay`: marchingSectionSize 100 -> 6 in modeling/marching/canvas.go.
# Called by bin/build.sh (which prepared $WORKDIR/go.mod and exported MODFLAG).
set -euo pipefail
VERIF="$(cd "$(dirname "$0")/.." && pwd)"
. "$VERIF/bin/env.sh"
out="$1"
MODFLAG="${MODFLAG:--modfile=$WORKDIR/go.mod}"
src="$REPO/modeling/marching/canvas.go"
ovdir="$WORKDIR/overlay/blk6-c09"
mkdir -p "$ovdir"
patched="$ovdir/canvas.go"
pat='^\([[:space:]]*marchingSectionSize[[:space:]]*=[[:space:]]*\)100[[:space:]]*$'
n=$(grep -c "$pat" "$src" || true)
if [ "$n" != "1" ]; then
  echo "build-blk6-c09: expected exactly one 'marchingSectionSize = 100' in $src, found $n" >&2
  exit 3
fi
sed "s/$pat/\16/" "$src" > "$patched.tmp.$$"
mv "$patched.tmp.$$" "$patched"
# the substitution must have changed exactly one line
changed=$(diff "$src" "$patched" | grep -c '^>' || true)
if [ "$changed" != "1" ] || ! grep -q '^[[:space:]]*marchingSectionSize[[:space:]]*=[[:space:]]*6[[:space:]]*$' "$patched"; then
  echo "build-blk6-c09: substitution did not change exactly one line ($changed)" >&2
  exit 3
fi
printf '{"Replace": {"%s": "%s"}}\n' "$src" "$patched" > "$ovdir/overlay.json"
cd "$VERIF/harness"
go build -trimpath $MODFLAG -overlay "$ovdir/overlay.json" -o "$out" ./cmd/c09
