COMMON_ASSUME = [
    "bounded-exhaustive: nothing outside the enumerated scopes/bounds is claimed",
    "reference models in /verif/harness are the trusted base",
]


def twin_job(check_id, share=0.15):
    """Concurrent-twin scenarios (harness/ctwin) of a property: one job of the instrumented sched-twin binary."""
    return {"variant": "sched-twin", "id": check_id, "no_ulimit": True, "share": share,
            "env": {"GORACE": "log_path={WORK}/race/" + check_id.lower() + " halt_on_error=0 history_size=2"}}


TWIN_TECHNIQUE = " + stateless exploration of pairs of concurrent calls under the controlled scheduler (ThreadSanitizer per schedule)"


def twin_text(what):
    return (" Concurrent twins: " + what + " — every pair A || B in two goroutines (each call twice per goroutine) on the build-time "
            "instrumented code under the controlled scheduler: every interleaving at synchronisation operations up to preemption bound 2 "
            "(thorough 3), ThreadSanitizer attributed per schedule; each result must equal the result of the same call made alone.")
