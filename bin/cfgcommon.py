COMMON_ASSUME = [
    "bounded-exhaustive: nothing outside the enumerated scopes/bounds is claimed",
    "reference models in /verif/harness are the trusted base",
]
