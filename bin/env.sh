# sourced by the build scripts: offline go environment + the tree under test.
export GOFLAGS=-mod=mod GOPROXY=off GOSUMDB=off GOTOOLCHAIN=local
VERIF="${VERIF:-$(cd "$(dirname "${BASH_SOURCE[0]}")/.." && pwd)}"
REPO="${VERIF_REPO:-/repo}"
if [ "$REPO" = /repo ]; then
  WORKDIR="$VERIF/.work/main"
else
  WORKDIR="$VERIF/.work/alt-$(echo -n "$REPO" | md5sum | cut -c1-10)"
fi
export VERIF REPO WORKDIR
