#!/bin/bash
# bin/build-maprt.sh <out> <cXX> — build harness/cmd/<cXX>m with the runtime map-order seam (overlay of
# $GOROOT/src/runtime/map.go generated from the installed toolchain; nothing on disk is modified).
set -euo pipefail
out="$1"; prop="$2"
VERIF="$(cd "$(dirname "$0")/.." && pwd)"
. "$VERIF/bin/env.sh"
MODFLAG="-modfile=$WORKDIR/go.mod"
ovdir="$WORKDIR/overlay/maprt"
mkdir -p "$ovdir"
frag=$(python3 "$VERIF/tools/goroot-overlay/gen_map_overlay.py" "$ovdir")
echo "{\"Replace\": $frag}" > "$ovdir/overlay.json"
cd "$VERIF/harness"
go build -trimpath $MODFLAG -overlay "$ovdir/overlay.json" -o "$out" "./cmd/${prop}m"
