#!/bin/bash
# bin/build-maprt.sh <out> <cXX> — build harness/cmd/<cXX>m with the runtime map-order seam (overlay of
# $GOROOT/src/runtime/map.go generated from the installed toolchain; nothing on disk is modified).
set -euo pipefail
out="$1"; prop="$2"
VERIF="$(cd "$(dirname "$0")/.." && pwd)"
. "$VERIF/bin/env.sh"
MODFLAG="-modfile=$WORKDIR/go.mod"
ovdir="$WORKDIR/overlay/maprt"
mkdir -p "$ovdir"
frag=$(python3 "$VERIF/tools/goroot-overlay/gen_map_overlay.py" "$ovdir")
echo "{\"Replace\": $frag}" > "$ovdir/overlay.json"
# virtual file added to package generator (C12 drives the real autosaver): exported access only
python3 - "$ovdir/overlay.json" "$REPO/generator/zz_verif_export.go" "$VERIF/rt-overlay/generator/zz_verif_export.go" <<'PY'
import json, sys
p, k, v = sys.argv[1:]
d = json.load(open(p)); d["Replace"][k] = v; json.dump(d, open(p, "w"), indent=1)
PY
cd "$VERIF/harness"
go build -trimpath $MODFLAG -overlay "$ovdir/overlay.json" -o "$out" "./cmd/${prop}m"
