#!/bin/bash
# bin/build.sh <variant> — build one explorer binary from /repo's current working tree.
# variants: plain | sched (vinstr overlay + -race) | maprt (runtime map-order seam) | cut (loop budget overlay)
#           | blk6 (marchingSectionSize scaled to 6)
set -euo pipefail
VERIF="$(cd "$(dirname "$0")/.." && pwd)"
export GOFLAGS=-mod=mod GOPROXY=off GOSUMDB=off GOTOOLCHAIN=local
variant="${1:-plain}"
mkdir -p "$VERIF/.work/bin" "$VERIF/.work/overlay"
cd "$VERIF/harness"
cp /repo/go.sum go.sum 2>/dev/null || true
out="$VERIF/.work/bin/vcheck-$variant"
case "$variant" in
  plain)
    go build -o "$out" ./cmd/vcheck ;;
  *)
    if [ -x "$VERIF/bin/build-$variant.sh" ]; then
      "$VERIF/bin/build-$variant.sh" "$out"
    else
      echo "unknown variant $variant" >&2; exit 2
    fi ;;
esac
