#!/bin/bash
# bin/build.sh <variant> — build one explorer binary from the repository's current working tree
# (/repo, or $VERIF_REPO for scratch worktrees used when testing mutants).
# variants: plain-cXX (no overlay, main = harness/cmd/cXX), plus bin/build-<variant>.sh for overlay builds (sched, maprt, cut, blk6 ...).
# Prints nothing on success; the binary is $WORKDIR/bin/vcheck-<variant>.
set -euo pipefail
VERIF="$(cd "$(dirname "$0")/.." && pwd)"
. "$VERIF/bin/env.sh"
variant="${1:-plain}"
mkdir -p "$WORKDIR/bin" "$WORKDIR/overlay"
# per-tree module file: same requirements, replace directive pointing at the tree under test
sed "s#=> /repo#=> $REPO#" "$VERIF/harness/go.mod" > "$WORKDIR/go.mod.tmp.$$"
mv "$WORKDIR/go.mod.tmp.$$" "$WORKDIR/go.mod"
(cat "$REPO/go.sum" "$VERIF/harness/go.sum.extra" 2>/dev/null || true) | sort -u > "$WORKDIR/go.sum.tmp.$$"
mv "$WORKDIR/go.sum.tmp.$$" "$WORKDIR/go.sum"
export MODFLAG="-modfile=$WORKDIR/go.mod"
cd "$VERIF/harness"
out="$WORKDIR/bin/vcheck-$variant"
case "$variant" in
  plain-*)
    # one main per property (harness/cmd/cXX) so that a package under development cannot break the others
    go build -trimpath $MODFLAG -o "$out" "./cmd/${variant#plain-}" ;;
  *)
    kind="${variant%%-*}"; rest="${variant#*-}"
    if [ -x "$VERIF/bin/build-$variant.sh" ]; then
      "$VERIF/bin/build-$variant.sh" "$out"
    elif [ -x "$VERIF/bin/build-$kind.sh" ]; then
      # generic overlay builders: bin/build-<kind>.sh <out> <cXX>
      "$VERIF/bin/build-$kind.sh" "$out" "$rest"
    else
      echo "unknown variant $variant" >&2; exit 2
    fi ;;
esac
