#!/bin/bash
# setup_cmd: pre-build every explorer variant from files on disk only (offline), warming the go build cache.
set -uo pipefail
VERIF="$(cd "$(dirname "$0")/.." && pwd)"
export GOFLAGS=-mod=mod GOPROXY=off GOSUMDB=off GOTOOLCHAIN=local
rc=0
for v in $(python3 - <<PY
import sys; sys.path.insert(0, "$VERIF/bin")
from checkcfg import PROPS
vs=[]
for p in PROPS.values():
    for j in p["jobs"]:
        if j["variant"] not in vs: vs.append(j["variant"])
print(" ".join(vs))
PY
); do
  echo "setup: building variant $v" >&2
  "$VERIF/bin/build.sh" "$v" || { echo "setup: variant $v failed" >&2; rc=1; }
done
exit $rc
