# Property configuration for bin/check: jobs (which explorer binary / sub-check), evidence level,
# the distinct/non-trivial rule and the standing assumptions (DESIGN §5).
COMMON_ASSUME = [
    "bounded-exhaustive: nothing outside the enumerated scopes/bounds is claimed",
    "reference models in /verif/harness are the trusted base",
]

PROPS = {
    "C17": {
        "level": "model_checking",
        "technique": "bounded-exhaustive enumeration of basis/lattice families against textbook references (interpolation argument for the (bi)linear and polynomial forms)",
        "jobs": [{"variant": "plain", "id": "C17"}],
        "engine": "enum",
        "level_text": "Every member of explicitly stated finite families (quaternion tensor grid, all 26² lattice direction pairs plus a near-(anti)parallel ladder, all 16×16 matrix basis pairs, ~72k sparse integer matrices for det/inverse, TRS and mesh-transform grids, dyadic AABB lattices) is executed on the real code and compared with textbook references; exhaustive within the families, and by linearity/polynomial interpolation decisive for Add/Multiply/MulPosition/Rotate beyond them.",
        "level_note": "Trusted: the reference formulas in harness/props/c17 (Hamilton product, Leibniz determinant, Rodrigues). Assumes Rotate/Add/Multiply stay branch-free polynomial forms; values outside the grids are not claimed for Determinant/Inverse/RotationTo/AABB.",
        "rule": "every member of the stated finite families is executed; a case is non-trivial when its operands are non-zero; distinct by operand tuple",
        "assumptions": COMMON_ASSUME + ["Rotate stays a polynomial of degree 2 in q and 1 in v; Add/Multiply/MulPosition stay branch-free (bi)linear forms"],
    },
}

# Properties not claimed (each with a reason). Kept current as checks are added.
ALL = ["C%02d" % i for i in range(1, 21)]
NOT_APPLICABLE = [{"property_id": p, "reason": "check not built yet in this session (work in progress; DESIGN §4 describes the planned explorer)"} for p in ALL if p not in PROPS]

ENGINES = [
    {"name": "enum", "path": "harness/core + harness/props/*", "serves_properties": sorted(PROPS), "kind_free_text": "bounded-exhaustive enumeration of inputs/configurations on the real code against independent reference models, sharded over 16 processes"},
]
