# Property configuration for bin/check, assembled from bin/cfg/Cxx.py (one file per claimed property):
# jobs (explorer binary variant + sub-check id), evidence level, distinct/non-trivial rule, assumptions.
import glob, importlib.util, os, sys

_here = os.path.dirname(os.path.abspath(__file__))
sys.path.insert(0, _here)
PROPS = {}
for _f in sorted(glob.glob(os.path.join(_here, "cfg", "C*.py"))):
    _id = os.path.basename(_f)[:-3]
    _spec = importlib.util.spec_from_file_location("cfg_" + _id, _f)
    _m = importlib.util.module_from_spec(_spec)
    _spec.loader.exec_module(_m)
    PROPS[_id] = _m.CFG

ALL = ["C%02d" % i for i in range(1, 21)]
_REASONS = {}
NOT_APPLICABLE = [{"property_id": p, "reason": _REASONS.get(p, "check not built yet (work in progress; DESIGN.md §4 describes the planned explorer)")} for p in ALL if p not in PROPS]

def _serves(engine):
    return sorted(p for p, c in PROPS.items() if engine in c.get("engines", [c.get("engine", "enum")]))

ENGINES = [
    {"name": "enum", "path": "harness/core, harness/props/*", "serves_properties": _serves("enum"),
     "kind_free_text": "bounded-exhaustive enumeration of inputs/configurations on the real code against independent reference models, sharded over 16 processes"},
    {"name": "opseq", "path": "harness/opseq", "serves_properties": _serves("opseq"),
     "kind_free_text": "explicit-state / stateless search over operation histories whose transition function is the implementation itself"},
    {"name": "sched", "path": "rt/vsched, rt/vsync, tools/vinstr", "serves_properties": _serves("sched"),
     "kind_free_text": "controlled scheduler (preemption-bounded DFS over all interleavings) with the race detector kept meaningful; build-time instrumentation by overlay"},
    {"name": "mapord", "path": "tools/goroot-overlay", "serves_properties": _serves("mapord"),
     "kind_free_text": "Go map iteration order as an owned, enumerated environment choice (runtime overlay)"},
    {"name": "cut", "path": "harness/props/c14, rt/vbudget", "serves_properties": _serves("cut"),
     "kind_free_text": "every cut point of every file of a family, deterministic loop-budget hang detection"},
]
