#!/bin/bash
# bin/build-cut-c14.sh <out> — explorer binary of C14 (variant cut-c14).
# The reader packages of the tree under test are built through an overlay in which
# tools/looptick has put a vbudget.Tick() at the top of every loop body (deterministic hang
# detection, DESIGN §3.2/§3.5); the tick package is injected as a virtual package of the polyform
# module. Nothing is written to the repository tree.
set -euo pipefail
VERIF="$(cd "$(dirname "$0")/.." && pwd)"
. "$VERIF/bin/env.sh"
out="${1:?usage: build-cut-c14.sh <out>}"
: "${MODFLAG:=-modfile=$WORKDIR/go.mod}"
ov="$WORKDIR/overlay/c14"
mkdir -p "$WORKDIR/bin" "$WORKDIR/overlay"
# the instrumenter is std-only and lives outside any module
(cd "$VERIF/tools/looptick" && GOFLAGS= GO111MODULE=off go build -o "$WORKDIR/bin/looptick" .)
"$WORKDIR/bin/looptick" -repo "$REPO" -out "$ov" -rt "$VERIF/rt/vbudget/vbudget.go" \
  formats/ply formats/stl formats/spz formats/splat formats/pts 2> "$ov.log" || { cat "$ov.log" >&2; exit 1; }
cd "$VERIF/harness"
go build -trimpath $MODFLAG -overlay "$ov/overlay.json" -o "$out" ./cmd/c14
