from cfgcommon import COMMON_ASSUME, twin_job, twin_text, TWIN_TECHNIQUE

CFG = {
    "level": "model_checking",
    "engine": "opseq",
    "engines": ["opseq", "sched"],
    "technique": "explicit exploration of all operation histories up to a depth bound over pools of live mesh values (transition function = the implementation), immutability digest of every live value after every transition + differential-twin oracle" + TWIN_TECHNIQUE,
    "level_text": "Every history over a 60-operation alphabet (Mesh methods, meshops transformers, repeat, primitives constructors, the four format writers) is executed on the real code from four initial pools (two of them deliberately non-initial: values that already own spare slice capacity, values sharing package-level storage); after every transition every live value is re-read through the public accessors and must be bit-identical to its first reading, and an operation on bit-identical operands must return the same mesh in every history. Quick: full alphabet to depth 2 and extending/aliasing sub-alphabet x2 then full alphabet (depth 3); thorough: depth 3 / depth 4 (last step: extending + observing operations)." + twin_text("the 50-odd goroutine-free operations of the alphabet on one shared pair of mesh values (one of them owning spare capacity), each beside six partners (Append, Translate, WeldByFloat3Attribute, SetFloat3Attribute, obj.WriteMesh, RemoveUnusedIndices), plus every operation beside itself with the two operands exchanged; the digest covers the results and both shared operands afterwards") + " " + "Further operations in the alphabet: mirroring transforms (ApplyTRS mirrored in one and in three axes, Scale mirrored in y, repeat.Mesh with a mirrored copy) and 'identity' operations that hand the mesh over by pointer (gltf.WriteBinary / WriteText through PolyformModel.Mesh) — the value behind the pointer is compared afterwards.",
    "level_note": "Trusted: the public-accessor digest (meshlib.QuickHash). Depth-bounded: aliasing that needs more than 4 derivations, or meshes larger than the seeds (slice growth classes differ), is not covered. Operations producing ill-formed meshes are not carried further (C02's domain).",
    "jobs": [{"variant": "plain-c01", "id": "C01", "mem_kb": 8 * 1024 * 1024, "share": 0.85}, twin_job("C01T")],
    "budget": {"quick": 150, "thorough": 2400},
    "rule": "every history (pool, op sequence with operand choices) up to the depth bound is executed; non-trivial = history of length >= 2 (a derivation from a derived or previously used value); distinct by (pool, step list)",
    "assumptions": COMMON_ASSUME + ["history depth <= 4; seeds of 2-3 small meshes per pool; operation parameters fixed per alphabet entry"],
}
