# needs: (no fixes — the pinned tree satisfies C07 on the explored scope)
from cfgcommon import COMMON_ASSUME

CFG = {
"level": "model_checking",
"engine": "enum",
"technique": "bounded-exhaustive enumeration of small triangle meshes and of well-formed STL byte strings, executed on the real writer/reader and compared with an independent 80+4+50n container codec and a per-corner reference",
"jobs": [{"variant": "plain-c07", "id": "C07"}],
"budget": {"quick": 60, "thorough": 600},
"level_text": "(a) every triangle mesh with <=4 vertices and <=2 triangles (all index arrays: shared, repeated, degenerate, unreferenced vertices; every assignment of vertices to a 3-point palette plus one all-distinct float32-inexact assignment; 363,141 meshes; thorough adds every three-triangle mesh: all 3^9 index arrays over 3 vertices with every palette assignment and all 4^9 index arrays over 4 vertices with all-distinct and all-coincident positions) x {no normals, unit normals, non-unit normals} is written with stl.WriteMesh; the size law 84+50n, the count field, the float32 corner positions in order and the stored facet normal are checked by an independent record parser, then stl.ReadMesh must return the same n triangles in order with float32-rounded positions and the expected facet normal. (b) every well-formed STL byte string with n<=2 records over 4 normals x 4^3 vertex triples x attribute word {0,1,0xFFFF} (768 records; thorough 1500 incl. -0, a denormal, 3.5e37) x 3 headers (zero, text beginning with 'solid', bytes up to 0xFF) goes through stl.Read (field by field), stl.Write (count+records byte-identical) and stl.ReadMesh->stl.WriteMesh (positions bit-identical, normals as stated). Exhaustive within these bounds.",
"level_note": "Trusted: the container codec in harness/props/c07/refstl.go and the expected-triangle derivation from the replayable Spec. Meshes without a Position attribute and meshes whose corner normals cancel are run and reported, not alarmed. A mesh without stored normals may legitimately store either a zero or the geometric facet normal; both are accepted. More than 2 records per byte string / more than 2 (thorough: 3) triangles per mesh are not explored.",
"rule": "every member of the stated scopes is executed; a case is non-trivial when it has at least one triangle/record; distinct by (mesh spec, normal mode) resp. (header, record ids)",
"assumptions": COMMON_ASSUME + ["record layout behaviour depends on counts and orders, not magnitudes: <=2 (3) triangles over <=4 vertices exhibit every index pattern class"],
}
