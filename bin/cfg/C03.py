# needs: (filled in below once fixes exist)
from cfgcommon import COMMON_ASSUME

CFG = {
"level": "model_checking",
"engine": "enum",
"technique": "tbd",
"jobs": [{"variant": "plain-c03", "id": "C03"}],
"level_text": "tbd",
"level_note": "tbd",
"rule": "tbd",
"assumptions": COMMON_ASSUME,
"budget": {"quick": 60, "thorough": 900},
}
