# needs: fixes/C09-march-empty-surface.patch, fixes/C09-canonical-edge-interpolation.patch
from cfgcommon import COMMON_ASSUME, twin_job, twin_text, TWIN_TECHNIQUE

CFG = {
"level": "model_checking",
"engine": "enum",
"engines": ["enum", "sched"],
"technique": "bounded-exhaustive enumeration of analytic shapes x placements relative to the storage blocks x resolutions x cutoffs on the real marcher, judged by an independent surface oracle (directed-edge pairing, degenerate faces, signed volume, reference distance functions, reference lattice sampling); second build with only the block-edge constant scaled 100->6 through a go build overlay for dense block-boundary exploration" + TWIN_TECHNIQUE,
"jobs": [
    {"variant": "plain-c09", "id": "C09", "args": {"block": "100"}, "share": 0.6, "mem_kb": 8 * 1024 * 1024},
    {"variant": "blk6-c09", "id": "C09", "args": {"block": "6"}, "share": 0.4},
    twin_job("C09T", 0.1)],
"level_text": "Real block edge (100): every combination of the listed shapes (marching.Sphere/Box/Line, CombineFields unions, raw sdf fields with a declared domain, boxes whose faces sit on 3-decimal rounding ties) x placements (block interior; straddling one, two, three block faces at +100, at the 0/-1 boundary and at -100; fully negative; mixed) x sub-lattice offsets x cubes-per-unit {1,2,3} (quick {1,3}) x cutoff {0,-0.25} is marched through MarchingCanvas.AddField + March; far / fractional scope: the first four shapes at cubes-per-unit 0.5, 2.5 and 7 near the origin and at 1, 0.5, 2.5, 7 in blocks 1000 away in +x, 1000 away in all three negative axes and 30000 away in z (block keys and the 3-decimal vertex keys are computed from absolute coordinates); thorough adds all 256 sign configurations of one lattice cube placed inside a block, on the last cell of a block per axis and in all three axes, and across the 0/-1 boundary. Scaled block edge (6, overlay on the single constant marchingSectionSize): all 256 configurations x 27 cube positions {interior, last cell, -1|0} ^3 x 3 resolutions x 2 cutoffs, and every integer and half-integer lattice offset of each shape's centre over the 3x3x3 block neighbourhood -1..+1 (36^3 centres per shape, resolution and cutoff; quick: the 13^3 offsets adjacent to block faces and mid-block). Every result is compared with the reference: each directed edge matched by exactly one opposite edge, no repeated-vertex or zero-area triangle, signed volume > 0, every vertex within one cell of the reference isosurface (1-Lipschitz distance functions / trilinear lattice interpolant written in the harness), empty mesh (no crash) exactly when no lattice sample is below the threshold, surface present around the deepest sample of every part." + twin_text("MarchingCanvas.March and Field.March of three different fields on canvases of their own (block edge scaled to 6; explored without preemption - both orders - because one march has thousands of scheduling points of its own)"),
"level_note": "Trusted: reference distance functions, lattice sampler and edge-pairing oracle in harness/props/c09. Precondition (below-threshold region inside the interior of the declared domain) is decided exactly by the enumerator; cases failing it by an ulp are run as reported-only. The scaled build changes one constant of the code under test and is reported as its own job (bounds 'C09.block_edge'); its cases carry the equivalent block=100 placement. Parallel variants belong to C10.",
"rule": "one evaluation = one AddField+March judged by the whole oracle; non-trivial when the mesh is non-empty; distinct by the full case (shape parameters, centre, resolution, cutoff, block edge)",
"assumptions": COMMON_ASSUME + [
    "the block-boundary logic is parametric in marchingSectionSize (checked: the scaled binary's block storage is 6^3, the plain one's 100^3)",
    "shapes are a few cells to ~15 cells across; larger shapes repeat the same per-cell and per-block-face behaviour",
],
"budget": {"quick": 150, "thorough": 1500},  # internal deadlines (generous: the cores are shared); nominal work is ~15 s / ~6 min on 16 free cores
}
