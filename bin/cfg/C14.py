# needs: fixes/C14-ply-ascii-truncation.patch, fixes/C14-pts-truncation.patch
from cfgcommon import COMMON_ASSUME

CFG = {
"level": "fault_enumeration",
"technique": "cut-point enumeration: every strict prefix (every length of headers and binary data, every token boundary of text bodies) of every file of a family of small valid PLY/STL/SPZ/PTS/.splat files, each delivered through three legal io.Reader behaviours, decoded by the real readers; deterministic hang detection by a loop-iteration budget injected at build time (tools/looptick overlay + rt/vbudget)",
"jobs": [{"variant": "cut-c14", "id": "C14"}],
"engine": "cut",
"level_text": "The fault is truncation of the input at the io.Reader. For 24 (thorough: 41) valid files — PLY written by polyform (point cloud with normals+colours, indexed mesh with normals, corner-indexed mesh with texture coordinates) in ascii / little-endian / big-endian, three hand-encoded foreign PLY layouts (ascii with uchar colours, an unclaimed property and a quad — thorough: also with CRLF line ends; big-endian doubles with per-face texcoord lists; little-endian with 4-byte list counts, RGBA and a quad), binary STL with 0/1/2 triangles, reference-encoded gzip'd SPZ v1/v2 × SH degree 0/1, PTS with 3/4/7 columns, a 3-record .splat — every cut position is decoded under readers that return everything at once, one byte per Read, and the last bytes together with io.EOF. Oracle per decode: an error, or a value bit-identical to the decode of the complete file, or (.splat) exactly the floor(len/32) complete records; a runtime panic is a crash; more than 64*(len(file)+64) executed loop iterations in the reader packages is non-termination (no wall clock enters a verdict).",
"level_note": "Trusted: the reference encoders and layout parser in harness/props/c14, tools/looptick (one Tick per loop body, validated by re-parsing), Go's compress/gzip for producing the SPZ container. The complete file must first decode to the element counts and positions that were put into it (valid-file precondition), else its cuts are a harness error, not a verdict. Loops inside the standard library do not tick; a hang there is caught by a 20 s no-progress watchdog and reported as a harness error.",
"rule": "every (file, cut length, reader behaviour) triple of the stated family is executed; a case is non-trivial when the prefix is non-empty (0 < cut < len); distinct by (file id, cut, reader behaviour)",
"assumptions": COMMON_ASSUME + [
    "files of at most ~1 KB with at most 15 vertices / 5 faces / 12 points; larger counts are assumed to exercise the same read calls",
    "text bodies are cut at token boundaries only (a cut inside a number is a valid shorter number); mid-token cuts are run in the thorough tier and reported, never alarmed",
    "a panic carrying an error/string raised by an explicit library check counts as a reported failure",
],
"budget": {"quick": 60, "thorough": 300},
}
