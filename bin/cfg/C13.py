from cfgcommon import COMMON_ASSUME

CFG = {
    "level": "model_checking",
    "engine": "sched",
    "engines": ["sched", "mapord"],
    "technique": "stateless model checking of the real graph.Instance under a controlled scheduler: ALL interleavings of 2-3 client goroutines (unbounded preemptions) per client program, porcupine linearizability check of every complete call/return history, ThreadSanitizer attributed per schedule",
    "level_text": "The real generator/graph Instance (instrumented at build time: sync -> wrappers around the real primitives) is driven by every client program of 2 clients x <=2 operations and 3 clients x 1 operation over the 8-operation alphabet {UpdateParameter(a|b,1|2), ParameterData(a|b), Artifact(p1|p2)} (thorough: also 3 clients x <=2 and 2 clients x <=3 operations over 5 operations), on a graph whose producers depend on both parameters through shared and multi-level nodes and whose processors yield between reading their inputs (a torn snapshot is observable, an unprotected evaluation interleavable). For every program every interleaving is executed (unbounded: the schedule tree is exhausted); each complete history, with scheduler-step call/return times, is checked by porcupine against the sequential model 'two integers; artifact = render(state)'; no execution may deadlock, panic, or produce a ThreadSanitizer report. Go map iteration order is pinned through the runtime overlay so that schedules replay exactly.",
    "level_note": "Trusted: rt/vsched + rt/vsync (self-tested in every run), tools/vinstr rewriting, porcupine v1.3.0, ThreadSanitizer. Scheduling points sit before every acquiring/blocking synchronisation operation and at the harness Yield inside processors (release and spawn points are redundant for race-free code and are covered by the race detector). Not covered: more than 3 clients or 3 operations per client, the HTTP/websocket layer above Instance (the handlers call exactly these three methods), memory-model effects TSan does not report.",
    "jobs": [{"variant": "sched-c13", "id": "C13s", "env": {"GORACE": "log_path={WORK}/race/c13 halt_on_error=0 history_size=2"}, "no_ulimit": True}],
    "budget": {"quick": 90, "thorough": 1200},
    "rule": "every schedule (choice vector) of every client program; non-trivial = programs with at least one update and one observing call (others are not generated); distinct by (program, choice vector)",
    "assumptions": COMMON_ASSUME + ["map iteration order pinned to the default position (owned, not sampled); clients call Instance directly"],
}
