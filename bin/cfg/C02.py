# needs: (filled in below once fixes exist)
from cfgcommon import COMMON_ASSUME

CFG = {
"level": "model_checking",
"engine": "enum",
"engines": ["enum", "opseq"],
"technique": "bounded-exhaustive enumeration: generator parameter grids, every operation of the alphabet x every parameter variant x every member of S_mesh, and every ordered pair of operations; independent well-formedness predicate on public-accessor snapshots plus a primitive walk",
"jobs": [{"variant": "plain-c02", "id": "C02"}],
"level_text": "tbd",
"level_note": "tbd",
"rule": "tbd",
"assumptions": COMMON_ASSUME,
"budget": {"quick": 60, "thorough": 900},
}
