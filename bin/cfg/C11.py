from cfgcommon import COMMON_ASSUME

CFG = {
    "level": "model_checking",
    "engine": "opseq",
    "engines": ["opseq", "mapord"],
    "technique": "explicit exploration of all operation histories up to a depth bound on the real node graph (transition function = the implementation) against a reference evaluator + dirty-set model, each history re-executed under every single deviation of Go map iteration order (runtime overlay seam)",
    "level_text": "Every history over a 33-operation alphabet (reads of every node, parameter updates of parameter.Value, nodes.Value and parameter.File leaves incl. a rejected update and a value the processors fail on, re-wirings incl. to an equal twin producer, array-slot connect/disconnect) is executed on the real nodes.Struct graph (chain, diamond, shared sub-graph, fan-in with two scalar and an array input) from three starting states (fresh, warmed-up, empty array input); after every transition the value read must equal a from-scratch reference evaluation, the set of processors that ran must lie inside the reference's dirty set (each at most once, only inside the read's closure) and every node's version must move by exactly its execution count. Map iteration order - which the graph uses to enumerate dependencies - is an owned environment answer: every history is also executed with each single map iteration started at every alternative position. The graph also holds a parameter.File leaf (a parameter kind with a version counter of its own) with two nodes below it, and its processors fail (error, empty value) on one input value: a failed node has executed like any other. Quick: depth 4; thorough: depth 5 whose last level tries the read operations only (a last non-read operation has nothing after it to show its effect), deviations to depth 4, deviation pairs to depth 3.",
    "level_note": "Trusted: the reference evaluator / dirty-set model in harness/props/c11m and the one-line runtime/map.go overlay (iteration start taken from a table; orders the real runtime can produce). Not covered: histories deeper than the bound, graphs other than the harness graph, maps with more than 32 entries.",
    "jobs": [{"variant": "maprt-c11", "id": "C11m"}],
    "budget": {"quick": 120, "thorough": 1200},
    "rule": "every executable history (seed, op list) up to the depth bound, plus one execution per (history, map-iteration deviation); non-trivial = every complete history; distinct by (seed, op list)",
    "assumptions": COMMON_ASSUME + ["map iteration order is the only nondeterminism in the node graph; it is enumerated, not sampled"],
}
