from cfgcommon import COMMON_ASSUME, twin_job, twin_text, TWIN_TECHNIQUE

CFG = {
"level": "model_checking",
"technique": "bounded-exhaustive enumeration of basis/lattice families against textbook references (interpolation argument for the (bi)linear and polynomial forms)" + TWIN_TECHNIQUE,
"level_text_more": 'Almost-special matrices (columns / rows from 14 unit and non-unit vectors, every ordered triple, 2 translations, 3 bottom rows) under the determinant, inverse and product laws; the size-ladder rungs 4095..32769 also on 1,3,5,7,17,24,40,64 processors.',
"jobs": [{"variant": "plain-c17", "id": "C17", "share": 0.85}, twin_job("C17T")],
"engine": "enum",
"engines": ["enum", "sched"],
"level_text": "Every member of explicitly stated finite families (quaternion tensor grid, all 26² lattice direction pairs plus a near-(anti)parallel ladder, all 16×16 matrix basis pairs, ~72k sparse integer matrices for det/inverse, TRS and mesh-transform grids, dyadic AABB lattices) is executed on the real code and compared with textbook references; exhaustive within the families, and by linearity/polynomial interpolation decisive for Add/Multiply/MulPosition/Rotate beyond them. Magnitude ladder: determinant/inverse of 24 sparse and 6 affine matrices with all entries resp. the linear block scaled by sigma in {2^-60..2^60 (13 dyadic steps), 1e-6..1e6 (8 decimal steps)}, and rotation / TRS / MulPosition / mesh transforms over 6 rotations x 3 translations x 3 scales at the same magnitudes, with tolerances relative to the operands (never '1 +'). Size ladder: TransformArray / TransformInPlace / Mesh.ApplyTRS / Rotate / Translate / Scale on n points for n = 2^k-1, 2^k, 2^k+1, 3*2^(k-1)+3, k = 2..15 (thorough 17), every element compared with the point map." + twin_text("TransformArray / TransformInPlace / Mesh.ApplyTRS-Rotate-Translate-Scale, matrix inverse-multiply-add-determinant, box growth and closest point, RotationTo on three different transform triples and point sets"),
"level_note": "Trusted: the reference formulas in harness/props/c17 (Hamilton product, Leibniz determinant, Rodrigues). Assumes Rotate/Add/Multiply stay branch-free polynomial forms; values outside the grids are not claimed for Determinant/Inverse/RotationTo/AABB.",
"rule": "every member of the stated finite families is executed; a case is non-trivial when its operands are non-zero; distinct by operand tuple",
"assumptions": COMMON_ASSUME + ["Rotate stays a polynomial of degree 2 in q and 1 in v; Add/Multiply/MulPosition stay branch-free (bi)linear forms"],
    }
