# needs: fixes/C15-splat-rotation-clamp.patch
from cfgcommon import COMMON_ASSUME

CFG = {
"level": "model_checking",
"technique": "bounded-exhaustive enumeration of splat clouds / SPZ headers x byte patterns / PLY attribute subsets on the real codecs, against reference codecs written from the published layouts (independent .splat record reader, SPZ encoder + gzip container + dequantiser, binary PLY parser)",
"jobs": [{"variant": "plain-c15", "id": "C15"}],
"engine": "enum",
"level_text": "(a) .splat: every cloud of 0..3 splats over explicit field alphabets that contain the quantisation edges (rotation components -1,-0.5,0,0.5,1; opacity logits -10,0,10; FDC below / on both edges of / inside / above the displayable range; scales -3,0,2; float32-exact, -inexact, huge and subnormal positions) is written by splat.Write, its bytes are decoded by an independent record reader and by splat.Read, and every field is compared with the tolerance the property names. (b) SPZ: for every header in {version 1,2} x points 0..3 (thorough 0..4) x SH degree 0..3 x fractional bits {0,4,8,12,16,24} (thorough 0..24, flags 0/1) a reference encoder emits background fills in two gzip containers, all 256 values at every byte offset of every record, and all 4^3 combinations of {00,7F,80,FF} inside every 24-bit coordinate; spz.Read must return exactly the reference dequantisation of record i for splat i and arrays of the declared length. (c) PLY: ply.SplatPly.Write -> independent binary PLY parser and ply.ReadMesh for every subset of the optional splat attributes x f_rest counts x 0..3 (thorough 0..5) splats x two value families, bit-exact at float32.",
"level_note": "Trusted: the reference codecs in harness/props/c15 and compress/gzip, hash/crc32. SPZ opacity is compared as alpha/255, the dequantised value the loader documents (it deliberately omits the reference decoder's inverse sigmoid). Rotation components outside [-1,1], non-finite inputs and non-identity index buffers are outside the stated scope and not enumerated.",
"rule": "every member of the stated finite families is executed; a case is non-trivial when it holds at least one splat/point; distinct by the input cloud (.splat), the raw reference-encoded stream (SPZ) or the (count, attribute subset, f_rest count, value family) tuple (PLY)",
"assumptions": COMMON_ASSUME + [
    "field codecs are applied per component: products over a field's own components are complete, cross-field products are complete in the thorough tier and covered by two complementary sub-products in the quick tier",
    "SPZ opacity is judged in the [0,1] space the loader documents",
],
"budget": {"quick": 60, "thorough": 900},
}
