from cfgcommon import COMMON_ASSUME

CFG = {
    "level": "model_checking",
    "engine": "opseq",
    "engines": ["opseq", "mapord"],
    "technique": "explicit exploration of all edit histories up to a depth bound on the real graph.Instance from non-initial seeds, save/load/save differential oracle after every history, re-executed under every single deviation of Go map iteration order (runtime overlay seam); plus every shipped graph file through generator.App",
    "level_text": "Every history over a 43-operation editing alphabet (create 7 node types, connect/disconnect scalar ports and array slots, set parameter values incl. ones needing JSON escaping and binary file contents, names and descriptions, designate/re-designate producers, set/delete nested metadata, delete nodes nothing depends on) is executed through the public graph.Instance API from nine seeds (empty; an order-sensitive concat node with 0,1,2,9,10,11,12 array connections and a text producer; a diamond with four parameter types, two producers and metadata). After each history: S1 = save; load into a fresh instance; nodes, types, wiring incl. array slot order, parameter values/names/descriptions, producers, metadata and every producer's artifact bytes must be equal, and saving the reloaded graph must reproduce S1 byte for byte. The save/load/save pipeline is also executed with each single map iteration started at every alternative position: the file must not depend on it. The shipped examples/graphs/*.json are round-tripped through generator.App with the full registered type set under the same deviations. Quick: depth 3 (deviations to depth 1); thorough: depth 4 (deviations to depth 2), all deviations of the shipped graph.",
    "level_note": "Trusted: the public-accessor description in harness/props/c12m and the runtime/map.go overlay. Not covered: histories deeper than the bound, node types outside the harness factory (except through the shipped graph), image parameters (no deterministic PNG fixture in the alphabet), maps with more than 32 entries beyond the default order (the shipped graph's 90-node map is deviated in its start bucket/offset only up to B=2 alternatives).",
    "jobs": [{"variant": "maprt-c12", "id": "C12m"}],
    "budget": {"quick": 75, "thorough": 1200},
    "rule": "every executable history (seed, op list) up to the depth bound + one execution per (history, map-iteration deviation) + the shipped graphs; non-trivial = every complete history; distinct by (seed, op list)",
    "assumptions": COMMON_ASSUME + ["map iteration order is the only nondeterminism in save/load; it is enumerated, not sampled"],
}
