# needs: fixes/C19-roundedcone-containment.patch, fixes/C19-line3d-degenerate-segment.patch
from cfgcommon import COMMON_ASSUME

CFG = {
"level": "model_checking",
"technique": "bounded-exhaustive enumeration of a shape-parameter grid x every point of a 3-D lattice (sign, surface, exact distance against independent closed-form / Minkowski / union-of-balls references) x every pair of lattice points (Lipschitz bound); combinators against set logic; Translate(f,t)(p) against f(p-t)",
"jobs": [{"variant": "plain-c19", "id": "C19"}],
"engine": "enum",
"budget": {"quick": 45, "thorough": 600},
"level_text": "Every shape of an explicit parameter grid (sphere, box, rounded box, capsule, rounded cone, rounded cylinder, plane; centres on a quarter-step lattice, sizes/radii in {0.25,0.5,1,1.5,2,3}, segments a + d for every d of a 5^3 lattice incl. d = 0, all 9 radius pairs for the cone incl. one end sphere containing or internally touching the other) is built with the real constructors and evaluated on every point of a 9^3 (quick) / 13^3 (thorough) lattice over [-3,3]^3: sign against an independent membership test, |f| <= 2e-9*scale within 1e-9*scale of the surface, exact distance (1e-9*scale) for sphere/box/capsule/plane, and |f(p)-f(q)| <= |p-q| + 1e-12*scale on ALL point pairs (265 356 / 2 412 306 per shape). Union/Intersect/Subtract: all ordered pairs and triples (plus arity 1 and 4) of a 10-operand pool against the set operation of the operands' observed negative sets; Translate(f,t)(p) = f(p-t) for 7 library primitives (one per kind) + 5 closures x 27/125 lattice offsets. Exhaustive within these grids.",
"level_note": "Trusted: the reference models in harness/props/c19/refs.go (clamp distance, segment region analysis, ternary search over the convex union-of-balls margin, Minkowski cores). Parameter conventions are the code's: Box/RoundedBox bounds are full extents and RoundedBox = box (+) ball(roundness); RoundedCylinder is Quilez' formula (outer radius 2*radius, core half height bodyHeight, rounding topHeight); Plane's surface is (x-pos).n + height = 0 with unit n. Inadmissible parameters (2*radius < topHeight, non-unit normal) are run as reported-only scopes. Nothing is claimed off the lattice or outside the parameter grid. VarryingThicknessLine is not a listed primitive and is only covered through RoundedCone + Union.",
"rule": "evaluations = every (shape, lattice point) oracle evaluation + every (shape, point pair) Lipschitz comparison + every (combinator application, point) + every (translated field, offset, point); a (shape, point) case is non-trivial when the lattice straddles the shape and the point lies on the surface or has an axis neighbour on the other side of it; a (combinator, point) case is non-trivial when the result's membership differs from the first operand's; a translation is non-trivial when it changes the membership of at least one lattice point; distinct by (shape parameters | operator + operands | offset, point index)",
"assumptions": COMMON_ASSUME + [
    "the lattice is dyadic, so shape surfaces through lattice points are hit exactly; between lattice points nothing is claimed",
    "tolerances: sign band 1e-9*scale, exact distance 1e-9*scale, Lipschitz slack 1e-12*scale (scale = 1 + lattice extent + largest parameter)",
],
}
