# needs: fixes/C04-binary-face-uv-through-index.patch, fixes/C04-point-cloud-texcoord.patch, fixes/C04-point-cloud-indices.patch, fixes/C04-ascii-reader-precision.patch
# (the C08 fix fixes/C08-zero-faces-keep-vertices.patch touches the same package and is compatible)
from cfgcommon import COMMON_ASSUME

CFG = {
"level": "model_checking",
"technique": "bounded-exhaustive enumeration of meshes x writer configurations x encodings on the real writer and reader; oracle = the input mesh read as per-corner tuples through its index array, plus an independent specification-based PLY parser (harness/props/plyref) that recomputes body length / token counts / element counts from the header alone and attributes a difference to writer or reader",
"jobs": [{"variant": "plain-c04", "id": "C04"}],
"engine": "enum",
"level_text": "Every member of the stated scopes is written with the real writer and read back with the real reader in ascii, little- and big-endian: (A) all 256 subsets of the eight recognised attributes x all 16 subsets of four user-named scalars on a 2-point cloud, one triangle, two unwelded and two welded triangles, under ply.Write, MeshWriter{standard properties, unspecified off} and MeshWriter{no properties, unspecified on}; (B) every mesh of S_mesh(4,2) (all index arrays over <=4 vertices and <=2 primitives, point and triangle topology; quick: two position assignments, thorough: all 3^v+1) with the mixes Position / Position+TexCoord / everything, under three writers including custom Double/Int property writers; (C) custom Vector1..4PropertyWriter for eight subject attributes x {UChar,Int,Float,Double} x Position type x property order x unspecified on/off x value/pointer form on an identity cloud, a welded and a reversed triangle mesh; (D) four material layouts (TextureFile comment). Clauses: round trip per corner within the stored type's precision (float32, exact double, integer grid, 1/255), the three encodings agree, the header describes the body (independent parser).",
"level_note": "Trusted: harness/props/plyref (parser written from the PLY specification, never importing formats/ply) and the per-corner rendering through public accessors. Alarmed scope: meshes with a Position attribute, finite values, values stored in 8 bits inside [0,1]; meshes without Position and out-of-range colours are run and reported only. Unclaimed vector attributes (stored under writer-chosen names <attr>_k) are not compared. Materials are not compared.",
"rule": "one evaluation = one (mesh, writer configuration, encoding) round trip; a case is non-trivial when the mesh is inside the alarmed scope, has at least one attribute and at least one primitive corner; distinct by the full (mesh, writer configuration) description",
"assumptions": COMMON_ASSUME + [
    "offsets, strides and index remaps of the codec are functions of counts, orders and types, not of magnitudes: all distinct behaviours appear at <=4 vertices / <=2 primitives (small-scope hypothesis)",
    "negative numbers stored as int go through Go's implementation-defined float->uint32 conversion; verified on amd64 only",
],
"budget": {"quick": 60, "thorough": 900},
    }
