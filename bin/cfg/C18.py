# needs: fixes/C18-cube-welded-partial-uvs.patch
from cfgcommon import COMMON_ASSUME

CFG = {
"level": "model_checking",
"engine": "enum",
"technique": "bounded-exhaustive enumeration of the constructors' parameter grids (plus stateless exploration of pairs of concurrent constructor calls under the controlled scheduler, ThreadSanitizer per schedule); every mesh judged by an independent solid oracle (tolerance merge of coincident positions, directed-edge pairing, per-face outward test, closed-form volumes of the inscribed polyhedra, inscribedness, vertex normals)",
"engines": ["enum", "sched"],
"jobs": [{"variant": "plain-c18", "id": "C18", "share": 0.6},
         {"variant": "sched-twin", "id": "C18T", "env": {"GORACE": "log_path={WORK}/race/c18t halt_on_error=0 history_size=2"}, "no_ulimit": True, "share": 0.4}],
"level_text": "Every UVSphere / UVSphereUnwelded / Hemisphere.UV with rows 2..12 x cols 3..16 (thorough: 2..24 x 3..32), every capped Cylinder with 3..24 sides (thorough: 3..64) x 6 UV options, Cube.Welded / UnweldedQuads over {0.5,1,3}^3 x 9 UV options (none, default, empty, each single face), each x 3 radii / 3 heights (thorough: 5 / 4 incl. non-dyadic values), plus doubling ladders up to 64x128 and 128 sides (thorough: 128x256, 512 sides) is built by the real constructor and compared with the reference: closed + consistently oriented after merging coincident positions, every face facing away from an interior point, signed volume equal to the frustum-sum / prism / box closed form to 1e-9 relative, every vertex on the analytic surface, supplied normals on the outer side of every incident face, volumes strictly increasing towards the analytic volume along the ladder. Exhaustive inside these grids, nothing claimed outside. Concurrent twins (C18T): for every constructor three parameter choices (a larger solid first, with and without UV options) and five calls across constructors, every pair A || B in two goroutines (each call twice per goroutine) on the build-time instrumented code under the controlled scheduler: every interleaving at synchronisation operations up to preemption bound 2 (thorough 3), ThreadSanitizer attributed per schedule; each result must equal the result of the same call made alone.",
"level_note": "Trusted: the closed forms and the edge-pairing oracle in harness/props/c18. Hemisphere: the volume is accepted for either ring convention (uniform steps, or the as-built one whose last band spans two steps); Capped:false and hemisphere normals are outside the statement and only reported. Pipes (NoTop/NoBottom) are open by design and not enumerated.",
"rule": "one evaluation = one constructor call judged by the whole oracle; non-trivial when the constructor returned at least one face; distinct by (constructor, rows, cols, sides, radius, height, width, depth, UV option, capped)",
"assumptions": COMMON_ASSUME + ["vertex placement depends on the counts and scales linearly with radius/height, so the grids of counts x a few magnitudes decide the index patterns (pole fans, seam wrap, cap orientation)"],
"budget": {"quick": 45, "thorough": 600},
}
