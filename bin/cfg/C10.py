from cfgcommon import COMMON_ASSUME

_RACE = {"GORACE": "log_path={WORK}/race/c10 halt_on_error=0 history_size=2"}

CFG = {
    "level": "model_checking",
    "engine": "sched",
    "engines": ["sched", "enum"],
    "technique": "stateless model checking of the real goroutines under a controlled scheduler (all interleavings up to a preemption bound, ThreadSanitizer attributed per schedule) + exhaustive (count x pool size) configuration enumeration",
    "level_text": "Layer (i): each of the nine ...ParallelWithPoolSize entry points is run for every element count 0..40 (thorough 0..130) x every pool size 1..17 (1..33) against a visit table and the sequential twin. Layer (i) also runs the primitive scans on meshes with non-identity index buffers (the primitive handed out for index i against the sequential scan's) and sweeps a box across the block boundaries (126 centres: x 2.5..8.5 step 0.3 x 3 y x 2 z at block edge 6) through AddField / AddFieldParallel / AddFieldParallel2 + MarchParallel with 2-4 (thorough 1-8) workers against AddField + March. Layer (ii): the real code, instrumented at build time (sync -> wrappers around the real primitives, go statements, channel operations, runtime.NumCPU), runs under a hand-rolled controlled scheduler that enumerates every interleaving up to preemption bound 2 (3 in thorough for the small cases) of 2-3 workers for counts 0..4 (0..6) with a Yield inside the user callback, and of AddFieldParallel / AddFieldParallel2 / MarchParallel on fields spanning 1, 2 and 4 storage blocks and two attributes with 2 and 3 workers (block edge scaled to 6); the scheduler's hand-offs are hidden from ThreadSanitizer, so the race detector reports exactly the program's own missing happens-before edges on each explored schedule. Every execution is an execution of the implementation." + " " + "Layer (i) also: re-indexed scans (non-identity index buffers; every primitive handed out is retained and checked again after the scan), box fields swept across the block boundaries (126 centres x workers x three pipelines, whole and clipped by a smaller domain) and boxes spanning 3..27 storage blocks with the processors limited to the worker count, each against AddField + March.",
    "level_note": "Trusted: rt/vsched + rt/vsync (self-tested in every run: a racy toy must be reported, a locked toy silent, a lost update found at bound 1), tools/vinstr rewriting, ThreadSanitizer. Not covered: more than 3 workers, more than 2-3 preemptions, memory-model effects TSan does not report, marching schedules at the real block edge 100 (explored on the scaled constant).",
    "jobs": [
        {"variant": "sched-c10", "id": "C10i", "env": _RACE, "no_ulimit": True, "share": 0.15, "gomaxprocs": 4},
        {"variant": "sched-c10", "id": "C10s", "env": _RACE, "no_ulimit": True, "share": 0.85, "args": {"block": "6"}, "replay_priority": 1},
    ],
    "budget": {"quick": 150, "thorough": 1500},
    "rule": "C10i: every (entry point, element count, pool size) triple; non-trivial = count > 0 and pool > 1. C10s: every schedule (choice vector) of every scenario up to the preemption bound; distinct by (scenario, choice vector)",
    "assumptions": COMMON_ASSUME + [
        "schedules explored at scheduling points = sync operations, channel operations, spawn/join and a Yield in the user callback; data races between those points are left to ThreadSanitizer, which runs on every explored schedule",
        "map iteration order inside the canvas is not owned in this check (jobs are structurally symmetric, results compared as multisets)",
    ],
}
