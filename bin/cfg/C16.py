# needs: fixes/C16-octree-closest-element-id.patch, fixes/C16-tri-point-inside-edge-extension.patch, fixes/C16-triangle-hit-max-distance.patch
from cfgcommon import COMMON_ASSUME

CFG = {
"level": "model_checking",
"technique": "bounded-exhaustive enumeration of element sets x tree depths x query lattices on the real octree, against brute-force scans (element bounds predicates cross-checked with exact closed-box geometry; closest point against the scan over the elements' own closest points, exact point-primitive distance only as classifier); BVH: every axis-choice sequence of the builder through a build-time math/rand seam (go build -overlay), every input order, against the per-element minimum and the list scan",
"jobs": [
    {"variant": "plain-c16", "id": "C16", "share": 0.7},
    {"variant": "bvh-c16", "id": "C16B", "share": 0.3},
],
"engine": "enum",
"level_text": "Octree: every multiset of 1..3 (thorough 1..4) points of the lattice {0,1,2}^3 as point clouds; every multiset of 1..2 (thorough 1..3) of the 120 triangles and of the 55 segments with corners in a ten-point corner set (all sizes, axis-aligned, degenerate and coincident ones included), every poly-line of 2..3 (thorough 2..4) of those corners through the mesh API, thorough also every pair of the 351 full-lattice segments and of 364 triangles over cube corners / centre / face centres, plus six sets of 23..54 elements (automatic depth 2); each indexed at depths 0, 1, 2 and automatic and asked every query of {-1,-0.5,..,3}^3 (closest, contain, radii 0,0.5,1,1.5,4) and 27x44 rays (26 lattice directions plus the negative-zero twin of each of the 18 with a zero component) x ranges [0,inf),[0.5,2] (element list, traversal, traversal with a range-shortening callback). BVH: 1..5 lattice triangles (library Triangle elements and an exact reference Hittable), all input orders for <=3 elements, every sequence of the builder's axis draws, NewBVHTree and NewBVHFromMesh, the same 2376 rays; hit/no-hit and distance against the per-element minimum and HitList.Hit. Size ladder: point clouds and triangle soups of n = 2^k-1, 2^k, 2^k+1, 2^k+floor(2^k/3) elements for k = 2..10 (thorough 2..12) on a non-lattice low-discrepancy layout scaled into boxes of edge 0.1 and 10 (thorough also 1), indexed at automatic depth and depths 0..4 and asked 128 points (closest, contain, three radii) and 96 rays x 2 ranges (element list and traversal) against the brute-force scan with two-sided margins; triangle soups of the same sizes through NewBVHFromMesh under four axis scripts against HitList.Hit and the per-element minimum.",
"level_note": "Trusted: the exact lattice geometry in harness/props/c16/oracle.go (closed boxes, Ericson point-triangle distance), the reference triangle Hittable, and the overlay seam that answers the builder's math/rand draws. Zero-length segments / zero-area triangles have no defined closest point (NaN) and are a reported-only sub-scope for the closest query; the empty set (nil index) is reported only. Identities are compared as sets; touching contacts accept either answer from the per-element predicate; equidistant elements accept either identity.",
"rule": "every member of the stated families (size ladder included) is indexed at every depth and asked every query; a set is non-trivial when it has at least two elements; distinct by (kind, element list) for the octree and by (element kind, entry point, ordered triangle list, axis sequence) for the BVH",
"assumptions": COMMON_ASSUME + [
    "size ladder: off the lattice set comparisons are two-sided with a margin of 1e-9 x scale (an element inside the margin is a tie); the axis dimension of the BVH builder is covered by four scripts only at ladder sizes (exhaustive in the small scopes)",
    "corners on the dyadic lattice {0,1,2}^3, queries on the half-integer lattice: all box arithmetic is exact",
    "the BVH builder's only nondeterminism is math/rand in rendering/bvh.go (checked: a run that meets no choice point, or an unsupported draw, is reported as not exhaustive)",
],
"budget": {"quick": 300, "thorough": 1500},
}
