# needs: fixes/C20-supertriangle-relative-margin.patch
from cfgcommon import COMMON_ASSUME, twin_job, twin_text, TWIN_TECHNIQUE

CFG = {
"level": "model_checking",
"technique": "bounded-exhaustive enumeration of lattice point sets × insertion orders × exact similarity transforms, judged by exact integer orientation / in-circle / separating-axis predicates" + TWIN_TECHNIQUE,
"jobs": [{"variant": "plain-c20", "id": "C20", "args": {"demand_nonempty": "1"}, "share": 0.85}, twin_job("C20T")],
"engine": "enum",
"engines": ["enum", "sched"],
"level_text": "Every subset of size 3..6 (thorough: 3..8) of the 5×5 integer lattice is triangulated by the real triangulation.BowyerWatson; the general-position ones (no three collinear, no four cocircular, decided exactly) additionally in every insertion order up to size 4 (thorough: up to size 5 under every transform and size 6 under identity, 27/256 and offset (+1024,-1024)); each under 10 exact transforms: identity, scales 2^10, 2^-10, 2^-3, the two dyadic scales 27/256 and 27/1024 that straddle SuperTriangle's own height threshold, offsets (±1024, ±1024). The result mesh is judged by exact integer predicates on the lattice coordinates: Position[i] is bit-exactly input point i as (x, 0, y), indices in range, one winding, non-zero area, pairwise disjoint interiors (separating-axis test), empty circumcircles. Every general-position subset is also handed over with eight elements of spare capacity and as a prefix of a longer slice (canonical order and its reverse, two transforms). Structured families beyond the lattice: P_i=(i,i^2), i=1..n for 15 sizes n=6..48 (thorough ..64) plus the interior integer point that lies strictly inside the most circumcircles (one insertion invalidating up to n-3 triangles; the cavity sizes reached are recorded in the bounds), in ascending, descending and even-then-odd order with that point inserted last, first and in the middle, 4 transforms x 3 slice layouts, judged by the same exact predicates (coordinates < 2^12, int64 exact). Exhaustive within these bounds." + twin_text("BowyerWatson on three different point sets"),
"level_note": "Trusted: the integer predicates in harness/props/c20 (cross-checked in c20_test.go against rational circumcentres and exact rational polygon clipping). Degenerate subsets (collinear triple / cocircular quadruple) are executed and labelled but never alarmed. A triangulation of three or more points in general position has at least one triangle, so an empty result for a general-position input is alarmed (job arg demand_nonempty=1, on; the clauses that quantify over triangles would otherwise hold vacuously); hull coverage is likewise only reported ('ok-hull-covered' / 'ok-hull-not-covered'). Point sets outside the lattice family (other magnitudes, non-dyadic coordinates, more than 8 points, aspect ratios above 4) are not claimed.",
"rule": "one evaluation = one (ordered lattice point sequence, transform) triangulated and judged; non-trivial = general-position input whose result has at least one triangle; distinct by (ordered point sequence, transform)",
"assumptions": COMMON_ASSUME + [
    "positive scaling and translation by the enumerated dyadic constants are exact on these coordinates (verified per case) and preserve orientation / in-circle relations, so the predicates are evaluated on the lattice preimages once Position[i] has been verified bit-exactly",
    "the order in which triangles are emitted is not part of the contract (compared as a set)",
],
"budget": {"quick": 75, "thorough": 1200},
}
