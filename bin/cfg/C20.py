# needs: (no fixes — the check is clean on the pinned tree)
from cfgcommon import COMMON_ASSUME

CFG = {
"level": "model_checking",
"technique": "bounded-exhaustive enumeration of lattice point sets × insertion orders × exact similarity transforms, judged by exact integer orientation / in-circle / separating-axis predicates",
"jobs": [{"variant": "plain-c20", "id": "C20"}],
"engine": "enum",
"level_text": "Every subset of size 3..6 (thorough: 3..7) of the 5×5 integer lattice is triangulated by the real triangulation.BowyerWatson, the general-position ones (no three collinear, no four cocircular, decided exactly) additionally in every insertion order up to size 4 (thorough: 5), each under 8 exact transforms (identity, scale 2^10, 2^-10, 2^-3, offsets (±1024, ±1024)). The result mesh is judged by exact integer predicates on the lattice coordinates: Position[i] is bit-exactly input point i, indices in range, one winding, non-zero area, pairwise disjoint interiors (separating-axis test, cross-checked against exact rational clipping in the package tests), empty circumcircles. Exhaustive within these bounds.",
"level_note": "Trusted: the integer predicates in harness/props/c20 (cross-checked in c20_test.go against rational circumcentres and rational polygon clipping). Degenerate subsets are executed and labelled but never alarmed. An empty triangle list satisfies the statement vacuously and is reported as outcome label 'empty' (hull coverage is likewise only reported: 'ok-hull-covered' / 'ok-hull-not-covered'). Point sets outside the lattice family (other magnitudes, non-dyadic coordinates, more than 7 points) are not claimed.",
"rule": "one evaluation = one (ordered lattice point sequence, transform) triangulated and judged; non-trivial = general-position input whose result has at least one triangle; distinct by (ordered point sequence, transform)",
"assumptions": COMMON_ASSUME + [
    "positive power-of-two scaling and integer translation are exact on these coordinates and preserve orientation / in-circle relations, so the predicates may be evaluated on the lattice preimages once Position[i] is verified bit-exactly",
    "the order in which triangles are emitted is not part of the contract (compared as a set)",
],
"budget": {"quick": 60, "thorough": 900},
}
