# needs: fixes/C04-ascii-reader-precision.patch, fixes/C08-zero-faces-keep-vertices.patch
from cfgcommon import COMMON_ASSUME

CFG = {
"level": "model_checking",
"technique": "bounded-exhaustive enumeration of PLY header layouts and bodies produced by an independent reference encoder (harness/props/plyref, written from the format specification) in ascii / little-endian / big-endian; the real reader must load the mesh the file describes (vertex records in order, conventional groups as attributes, fan triangulation of quads, per-corner texture coordinates)",
"jobs": [{"variant": "plain-c08", "id": "C08"}],
"engine": "enum",
"level_text": "Each dimension of the grammar is exhausted and crossed where the reader couples them: every permutation of every set of complete property groups (x,y,z / nx,ny,nz / red,green,blue[,alpha] / s,t / two unknown scalars) with <=5 (thorough <=6) properties x every type in {uchar,int,float,double} per group x 3 encodings x {point cloud, one face}; all 14 properties in 16 orders (rotations, reverse, round-robin) x typings; both spellings of every type on vertex and list properties; comment/obj_info lines (8 texts incl. keyword look-alikes) at every header position alone and all at once x LF/CRLF; faces: count type {uchar,int,uint} x index type {int,uint} x vertex_indices/vertex_index x every sequence of <=2 (thorough <=3) faces from a menu of 3 triangles and 2 quads x texcoord list absent/after/before the indices x an unknown extra list x 0..4 vertices; vertex counts 0..3 with and without an (empty) face element; size ladder: files with n vertex records and files with n faces (triangles and quads mixed, non-identity corner orders, uchar / int / uint list counts, one variant with a texcoord list) for n = 2^k-1, 2^k, 2^k+1, 3*2^(k-1)+1, k=2..15 (thorough 2..17), double positions, float normals, 8-bit colours, an int scalar, unique records without a power-of-two period, all three encodings. Each evaluation first checks the reference encoder against the reference parser.",
"level_note": "Trusted: harness/props/plyref. Numbers: binary values are compared bit-exactly (float32 image, exact double and int, k/255 for uchar), ascii decimals at the stored type's precision (float32 for float, 1e-15 relative for double, exact int). Triangles are compared as a multiset up to corner rotation. Mixed scalar types inside one group (documented unsupported) are run and reported only. Alternative vocabularies (px/py/pz, r/g/b, diffuse_*), other element orders and additional elements are not enumerated (the statement does not name them).",
"rule": "one evaluation = one reference-encoded file loaded by ply.ReadMesh; non-trivial when the file has at least one vertex record and one vertex property; distinct by the file's bytes",
"assumptions": COMMON_ASSUME + [
    "the reader's offset bookkeeping depends on property order, types and counts only, so 0..4 vertices / 0..3 faces expose every distinct behaviour (small-scope hypothesis); size thresholds are probed only on the ladder (around powers of two up to 2^15, thorough 2^17) and on one layout",
],
"budget": {"quick": 60, "thorough": 900},
    }
