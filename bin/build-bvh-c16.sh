#!/bin/bash
# bin/build-bvh-c16.sh <out> — explorer for the BVH part of C16.
# The BVH builder picks its split axis with math/rand. The build overlays a copy of the *current*
# $REPO/rendering/bvh.go whose math/rand import is redirected to a virtual package of the polyform
# module (verifrt/c16choice, source in harness/props/c16/overlay), so every rand call of that file
# becomes a choice point the explorer enumerates. /repo itself is never touched.
# Called by bin/build.sh (VERIF, REPO, WORKDIR, MODFLAG exported).
set -euo pipefail
out="$1"
ov="$WORKDIR/overlay/c16bvh"
mkdir -p "$ov"
src="$REPO/rendering/bvh.go"
sed -E 's#^([[:space:]]*)"math/rand"#\1rand "github.com/EliCDavis/polyform/verifrt/c16choice"#' "$src" > "$ov/bvh.go"
cp "$VERIF/harness/props/c16/overlay/c16choice.go.txt" "$ov/choice.go"
if grep -q 'verifrt/c16choice' "$ov/bvh.go"; then
  cat > "$ov/overlay.json" <<JSON
{"Replace": {"$src": "$ov/bvh.go", "$REPO/verifrt/c16choice/choice.go": "$ov/choice.go"}}
JSON
else
  # the builder no longer imports math/rand (or imports it under another name): nothing to enumerate
  # with this seam; build with the choice package only — the explorer reports that no choice point was met
  echo "note: $src does not import \"math/rand\" plainly; axis seam not installed" >&2
  cat > "$ov/overlay.json" <<JSON
{"Replace": {"$REPO/verifrt/c16choice/choice.go": "$ov/choice.go"}}
JSON
fi
cd "$VERIF/harness"
go build -trimpath $MODFLAG -overlay "$ov/overlay.json" -o "$out" ./cmd/c16bvh
