#!/bin/bash
# bin/build-sched.sh <out> <cXX> — controlled-scheduler build: instrument the concurrent packages of the
# tree under test with tools/vinstr (overlay only, nothing in the repository is touched), inject the
# run-time packages as virtual packages, build harness/cmd/<cXX>s with -race.
# An optional third word selects extra overlays: blk6 (marchingSectionSize 100 -> 6).
set -euo pipefail
out="$1"; prop="$2"
VERIF="$(cd "$(dirname "$0")/.." && pwd)"
. "$VERIF/bin/env.sh"
MODFLAG="-modfile=$WORKDIR/go.mod"
case "$prop" in
  c10*) pkgs="modeling modeling/marching" ;;
  c13*) pkgs="generator/graph generator/sync generator" ;;
  twin) pkgs="modeling modeling/primitives modeling/meshops modeling/triangulation modeling/marching modeling/extrude trees rendering math/sdf math/geometry math/trs math/mat math/quaternion math/curves formats/ply formats/obj formats/stl formats/gltf formats/splat formats/spz formats/pts formats/txt" ;;
  selftest) pkgs="" ;;
  *) echo "build-sched: no package list for $prop" >&2; exit 2 ;;
esac
ovdir="$WORKDIR/overlay/sched-$prop"
rm -rf "$ovdir"; mkdir -p "$ovdir"
# the instrumenter itself (std only)
( cd "$VERIF/tools/vinstr" && go build -o "$WORKDIR/bin/vinstr" . )
( cd "$REPO" && "$WORKDIR/bin/vinstr" -repo "$REPO" -out "$ovdir" -rt "$VERIF/rt" -overlay "$ovdir/overlay.json" $pkgs )
case "$prop" in
  c10*|twin)
    # scaled-constant mode (DESIGN §3.6): schedules of the marching canvas are explored on block edge 6
    f="$ovdir/modeling/marching/canvas.go.txt"
    [ -f "$f" ] || cp "$REPO/modeling/marching/canvas.go" "$f"
    n=$(grep -cE '^\s*marchingSectionSize\s+= 100$' "$f" || true)
    if [ "$n" != 1 ]; then echo "build-sched: marchingSectionSize constant not found exactly once" >&2; exit 3; fi
    sed -i -E 's/^(\s*marchingSectionSize\s+)= 100$/\1= 6/' "$f"
    python3 - "$ovdir/overlay.json" "$REPO/modeling/marching/canvas.go" "$f" <<'PY'
import json, sys
p, k, v = sys.argv[1:]
d = json.load(open(p)); d["Replace"][k] = v; json.dump(d, open(p, "w"), indent=1)
PY
    ;;
esac
case "$prop" in
  c13*)
    # virtual file added to package generator: exported access to the real endpoint constructors
    python3 - "$ovdir/overlay.json" "$REPO/generator/zz_verif_export.go" "$VERIF/rt-overlay/generator/zz_verif_export.go" <<'PY'
import json, sys
p, k, v = sys.argv[1:]
d = json.load(open(p)); d["Replace"][k] = v; json.dump(d, open(p, "w"), indent=1)
PY
    # the node graph enumerates dependencies by ranging over maps: pin Go map iteration order
    # (runtime overlay, DESIGN §3.4) so that every schedule replays deterministically
    frag=$(python3 "$VERIF/tools/goroot-overlay/gen_map_overlay.py" "$ovdir/maprt")
    python3 - "$ovdir/overlay.json" "$frag" <<'PY'
import json, sys
p, frag = sys.argv[1:]
d = json.load(open(p)); d["Replace"].update(json.loads(frag)); json.dump(d, open(p, "w"), indent=1)
PY
    ;;
esac
cd "$VERIF/harness"
go build -trimpath $MODFLAG -race -overlay "$ovdir/overlay.json" -o "$out" "./cmd/${prop}s"
