// looptick — build-time instrumenter of the C14 cut explorer (DESIGN §3.2, last table row).
//
//	looptick -repo /repo -out $WORKDIR/overlay/c14 -rt /verif/rt/vbudget/vbudget.go formats/ply formats/stl ...
//
// For every non-test .go file of the listed package directories (relative to -repo) it finds
// every `for` / `for … range` statement with go/parser and puts a call
// `verif_vbudget.Tick()` at the very top of the loop body, adds the import of the virtual
// package github.com/EliCDavis/polyform/verifrt/vbudget, writes the rewritten copy below -out
// and emits -out/overlay.json for `go build -overlay`. The virtual package itself is mapped to
// the file given by -rt. The repository tree is only read, never written.
//
// The rewrite is driven by the syntax tree (so it covers whatever loops the current tree — or a
// mutant of it — contains) but applied as a splice at the token offsets the parser reports
// rather than by re-printing the tree: line numbers, comments and build constraints of the
// original file stay exactly as they are, so stack traces of the instrumented build name the real
// lines. Every rewritten file is re-parsed, and the number of Tick calls found must equal the
// number of loops, before it is accepted. Std-only.
package main

import (
	"encoding/json"
	"flag"
	"fmt"
	"go/ast"
	"go/parser"
	"go/token"
	"os"
	"path/filepath"
	"sort"
	"strings"
)

const (
	importPath = "github.com/EliCDavis/polyform/verifrt/vbudget"
	alias      = "verif_vbudget"
)

type splice struct {
	off  int
	text string
}

func instrument(path string, src []byte) ([]byte, int, error) {
	fset := token.NewFileSet()
	f, err := parser.ParseFile(fset, path, src, parser.ParseComments|parser.SkipObjectResolution)
	if err != nil {
		return nil, 0, err
	}
	var sp []splice
	loops := 0
	ast.Inspect(f, func(n ast.Node) bool {
		var body *ast.BlockStmt
		switch s := n.(type) {
		case *ast.ForStmt:
			body = s.Body
		case *ast.RangeStmt:
			body = s.Body
		}
		if body != nil {
			loops++
			sp = append(sp, splice{fset.Position(body.Lbrace).Offset + 1, alias + ".Tick();"})
		}
		return true
	})
	if loops == 0 {
		return nil, 0, nil
	}
	// the import goes right behind the package clause, on the same line
	sp = append(sp, splice{fset.Position(f.Name.End()).Offset, ";import " + alias + " \"" + importPath + "\";"})
	sort.Slice(sp, func(i, j int) bool { return sp[i].off < sp[j].off })
	var out []byte
	last := 0
	for _, s := range sp {
		out = append(out, src[last:s.off]...)
		out = append(out, s.text...)
		last = s.off
	}
	out = append(out, src[last:]...)

	// validate: parses, same number of lines, one Tick per loop
	fset2 := token.NewFileSet()
	f2, err := parser.ParseFile(fset2, path, out, parser.SkipObjectResolution)
	if err != nil {
		return nil, 0, fmt.Errorf("rewritten file does not parse: %w", err)
	}
	ticks, loops2 := 0, 0
	ast.Inspect(f2, func(n ast.Node) bool {
		var body *ast.BlockStmt
		switch s := n.(type) {
		case *ast.ForStmt:
			body = s.Body
		case *ast.RangeStmt:
			body = s.Body
		}
		if body != nil {
			loops2++
			if len(body.List) > 0 {
				if es, ok := body.List[0].(*ast.ExprStmt); ok {
					if call, ok := es.X.(*ast.CallExpr); ok {
						if sel, ok := call.Fun.(*ast.SelectorExpr); ok {
							if id, ok := sel.X.(*ast.Ident); ok && id.Name == alias && sel.Sel.Name == "Tick" {
								ticks++
							}
						}
					}
				}
			}
		}
		return true
	})
	if loops2 != loops || ticks != loops {
		return nil, 0, fmt.Errorf("validation failed: %d loops, %d after rewrite, %d ticks", loops, loops2, ticks)
	}
	if strings.Count(string(out), "\n") != strings.Count(string(src), "\n") {
		return nil, 0, fmt.Errorf("line count changed")
	}
	return out, loops, nil
}

func main() {
	repo := flag.String("repo", "/repo", "repository root")
	outDir := flag.String("out", "", "output directory for rewritten copies + overlay.json")
	rt := flag.String("rt", "", "source file of the vbudget run-time package")
	flag.Parse()
	if *outDir == "" || *rt == "" || flag.NArg() == 0 {
		fmt.Fprintln(os.Stderr, "usage: looptick -repo R -out D -rt vbudget.go pkgdir...")
		os.Exit(2)
	}
	repoAbs, _ := filepath.Abs(*repo)
	rtAbs, _ := filepath.Abs(*rt)
	if err := os.RemoveAll(*outDir); err != nil {
		fail(err)
	}
	replace := map[string]string{
		filepath.Join(repoAbs, "verifrt", "vbudget", "vbudget.go"): rtAbs,
	}
	totalLoops, files := 0, 0
	for _, dir := range flag.Args() {
		abs := filepath.Join(repoAbs, dir)
		ents, err := os.ReadDir(abs)
		if err != nil {
			fail(err)
		}
		for _, e := range ents {
			name := e.Name()
			if e.IsDir() || !strings.HasSuffix(name, ".go") || strings.HasSuffix(name, "_test.go") {
				continue
			}
			p := filepath.Join(abs, name)
			src, err := os.ReadFile(p)
			if err != nil {
				fail(err)
			}
			out, loops, err := instrument(p, src)
			if err != nil {
				fail(fmt.Errorf("%s: %w", p, err))
			}
			if loops == 0 {
				continue
			}
			dst := filepath.Join(*outDir, dir, name)
			if err := os.MkdirAll(filepath.Dir(dst), 0o755); err != nil {
				fail(err)
			}
			if err := os.WriteFile(dst, out, 0o644); err != nil {
				fail(err)
			}
			dstAbs, _ := filepath.Abs(dst)
			replace[p] = dstAbs
			totalLoops += loops
			files++
		}
	}
	b, _ := json.MarshalIndent(map[string]any{"Replace": replace}, "", " ")
	if err := os.MkdirAll(*outDir, 0o755); err != nil {
		fail(err)
	}
	if err := os.WriteFile(filepath.Join(*outDir, "overlay.json"), b, 0o644); err != nil {
		fail(err)
	}
	fmt.Fprintf(os.Stderr, "looptick: %d loops in %d files instrumented\n", totalLoops, files)
}

func fail(err error) {
	fmt.Fprintln(os.Stderr, "looptick:", err)
	os.Exit(1)
}
