#!/usr/bin/env python3
"""gen_map_overlay.py <out-dir> — generate an overlay copy of $GOROOT/src/runtime/map.go in which the start
position of every map iteration (mapiterinit's random word r) is an *owned environment answer*
(DESIGN §3.4): while runtime.verifMapOn is set, iteration number k starts at verifMapSeq[k] (0 when k is
beyond the table) instead of a random position, and the map's element count and bucket-bits are
logged so that the explorer knows which alternatives produce distinct orders.  Prints the overlay
JSON fragment {"<goroot>/src/runtime/map.go": "<out-dir>/map.go"}.  These are exactly orders the real
runtime can produce.  Fails loudly if the runtime source does not look as expected (other toolchain)."""
import json, os, subprocess, sys

out = sys.argv[1]
goroot = subprocess.check_output(["go", "env", "GOROOT"]).decode().strip()
src = os.path.join(goroot, "src", "runtime", "map.go")
s = open(src).read()
needle = "r := uintptr(rand())"
if s.count(needle) != 1 or "func mapiterinit(" not in s:
    sys.stderr.write("gen_map_overlay: runtime/map.go does not match the expected (go1.23 classic map) layout\n")
    sys.exit(3)
s = s.replace(needle, needle + '''
	if verifMapOn {
		r = 0
		if verifMapIdx < len(verifMapSeq) {
			r = uintptr(verifMapSeq[verifMapIdx])
			verifMapCnt[verifMapIdx] = int32(h.count)
			verifMapB[verifMapIdx] = h.B
		}
		verifMapIdx++
	}''')
# the per-map hash seed decides how keys spread over buckets; pin it while the seam is on so that maps
# with more than one bucket iterate reproducibly (as far as key hashes themselves are reproducible)
n0 = s.count("h.hash0 = uint32(rand())")
if n0 < 3:
    sys.stderr.write("gen_map_overlay: expected hash0 seeding sites not found\n")
    sys.exit(3)
s = s.replace("h.hash0 = uint32(rand())", "h.hash0 = verifHash0()")
s += '''
func verifHash0() uint32 {
	if verifMapOn {
		return 0x9e3779b9
	}
	return uint32(rand())
}

// ---- verification seam (injected by /verif/tools/goroot-overlay; never present in a normal build) ----

//go:linkname verifMapOn
var verifMapOn bool

//go:linkname verifMapIdx
var verifMapIdx int

//go:linkname verifMapSeq
var verifMapSeq [8192]uint8

//go:linkname verifMapCnt
var verifMapCnt [8192]int32

//go:linkname verifMapB
var verifMapB [8192]uint8
'''
os.makedirs(out, exist_ok=True)
dst = os.path.join(out, "map.go")
open(dst, "w").write(s)
print(json.dumps({src: dst}))
