// vinstr: type-aware source instrumenter producing a `go build -overlay` (DESIGN §3.2).
//
//	vinstr -repo /repo -out <dir> -rt /verif/rt -overlay <overlay.json> pkg/dir ...
//
// For every listed package directory of the repository it type-checks the non-test files
// (go/types, source importer) and rewrites: `import "sync"` → verifrt/vsync (same API, wraps the
// real primitives), `go f(a…)` → vsched.GoN(f, a…), channel send / receive / range / close →
// a vsched.ChanPoint before the operation, `runtime.NumCPU()` → vchoice.NumCPU(), `select` →
// vsched.Unsupported marker. The run-time packages under -rt are added to the overlay as virtual
// packages inside the polyform module path. Nothing in the repository is modified.
package main

import (
	"bytes"
	"encoding/json"
	"flag"
	"fmt"
	"go/ast"
	"go/build"
	"go/importer"
	"go/parser"
	"go/printer"
	"go/token"
	"go/types"
	"os"
	"path/filepath"
	"reflect"
	"regexp"
	"strconv"
	"strings"
)

const rtPath = "github.com/EliCDavis/polyform/verifrt/"

type fileCtx struct {
	fset    *token.FileSet
	info    *types.Info
	file    *ast.File
	changed bool
	needs   map[string]bool // rt packages to import
	notes   []string
}

func (c *fileCtx) need(pkg string) { c.needs[pkg] = true; c.changed = true }

func sel(pkg, name string) *ast.SelectorExpr {
	return &ast.SelectorExpr{X: ast.NewIdent(pkg), Sel: ast.NewIdent(name)}
}

func call(fun ast.Expr, args ...ast.Expr) *ast.CallExpr { return &ast.CallExpr{Fun: fun, Args: args} }

func (c *fileCtx) isChan(e ast.Expr) bool {
	t := c.info.TypeOf(e)
	if t == nil {
		return false
	}
	_, ok := t.Underlying().(*types.Chan)
	return ok
}

func (c *fileCtx) isPkgCall(e ast.Expr, pkgPath, name string) bool {
	ce, ok := e.(*ast.CallExpr)
	if !ok {
		return false
	}
	se, ok := ce.Fun.(*ast.SelectorExpr)
	if !ok || se.Sel.Name != name {
		return false
	}
	id, ok := se.X.(*ast.Ident)
	if !ok {
		return false
	}
	pn, ok := c.info.Uses[id].(*types.PkgName)
	return ok && pn.Imported().Path() == pkgPath
}

// collect receive expressions (<-ch) in evaluation order inside a statement, not descending into func literals
func (c *fileCtx) recvs(n ast.Node) []ast.Expr {
	var out []ast.Expr
	ast.Inspect(n, func(x ast.Node) bool {
		switch v := x.(type) {
		case *ast.FuncLit:
			return false
		case *ast.UnaryExpr:
			if v.Op == token.ARROW {
				out = append(out, v.X)
			}
		}
		return true
	})
	return out
}

func (c *fileCtx) point(kind string, ch ast.Expr) ast.Stmt {
	c.need("vsched")
	return &ast.ExprStmt{X: call(sel("vsched", "ChanPoint"), sel("vsched", kind), ch)}
}

// rewrite a statement list, inserting points before channel operations
func (c *fileCtx) rewriteList(list []ast.Stmt) []ast.Stmt {
	var out []ast.Stmt
	for _, s := range list {
		out = append(out, c.rewriteStmt(s)...)
	}
	return out
}

func (c *fileCtx) rewriteStmt(s ast.Stmt) []ast.Stmt {
	switch v := s.(type) {
	case *ast.LabeledStmt:
		r := c.rewriteStmt(v.Stmt)
		v.Stmt = r[len(r)-1]
		return append(r[:len(r)-1], v)
	case *ast.GoStmt:
		c.walkExprFuncLits(v.Call)
		n := len(v.Call.Args)
		if v.Call.Ellipsis != token.NoPos || n > 5 {
			c.notes = append(c.notes, fmt.Sprintf("%s: go statement with variadic/too many args left to a late-binding wrapper", c.fset.Position(v.Pos())))
			c.need("vsched")
			return []ast.Stmt{&ast.ExprStmt{X: call(sel("vsched", "Go0"), &ast.FuncLit{Type: &ast.FuncType{Params: &ast.FieldList{}}, Body: &ast.BlockStmt{List: []ast.Stmt{&ast.ExprStmt{X: v.Call}}}})}}
		}
		c.need("vsched")
		args := append([]ast.Expr{v.Call.Fun}, v.Call.Args...)
		return []ast.Stmt{&ast.ExprStmt{X: call(sel("vsched", "Go"+strconv.Itoa(n)), args...)}}
	case *ast.SendStmt:
		c.walkExprFuncLits(v.Value)
		pre := []ast.Stmt{}
		for _, r := range c.recvs(v.Value) {
			pre = append(pre, c.point("KRecv", r))
		}
		return append(append(pre, c.point("KSend", v.Chan)), v)
	case *ast.RangeStmt:
		v.Body.List = c.rewriteList(v.Body.List)
		if c.isChan(v.X) {
			// for k := range ch { body }  =>  for { point; k, ok := <-ch; if !ok {break}; body }
			c.need("vsched")
			okId := ast.NewIdent("__vok")
			var lhs ast.Expr = ast.NewIdent("_")
			tok := token.DEFINE
			if v.Key != nil {
				lhs = v.Key
				if v.Tok == token.ASSIGN {
					tok = token.ASSIGN
				}
			}
			var recvStmt ast.Stmt
			if tok == token.ASSIGN {
				// for k = range ch: declare ok separately, assign both
				c.notes = append(c.notes, fmt.Sprintf("%s: range with = over a channel is unsupported", c.fset.Position(v.Pos())))
				return []ast.Stmt{&ast.ExprStmt{X: call(sel("vsched", "Unsupported"), &ast.BasicLit{Kind: token.STRING, Value: strconv.Quote("range-assign over channel")})}, v}
			}
			recvStmt = &ast.AssignStmt{Lhs: []ast.Expr{lhs, okId}, Tok: token.DEFINE, Rhs: []ast.Expr{&ast.UnaryExpr{Op: token.ARROW, X: v.X}}}
			body := []ast.Stmt{
				c.point("KRecv", v.X),
				recvStmt,
				&ast.IfStmt{Cond: &ast.UnaryExpr{Op: token.NOT, X: okId}, Body: &ast.BlockStmt{List: []ast.Stmt{&ast.BranchStmt{Tok: token.BREAK}}}},
			}
			body = append(body, v.Body.List...)
			return []ast.Stmt{&ast.ForStmt{Body: &ast.BlockStmt{List: body}}}
		}
		return []ast.Stmt{v}
	case *ast.ForStmt:
		v.Body.List = c.rewriteList(v.Body.List)
		return []ast.Stmt{v}
	case *ast.BlockStmt:
		v.List = c.rewriteList(v.List)
		return []ast.Stmt{v}
	case *ast.IfStmt:
		v.Body.List = c.rewriteList(v.Body.List)
		if v.Else != nil {
			r := c.rewriteStmt(v.Else)
			v.Else = r[len(r)-1]
		}
		return []ast.Stmt{v}
	case *ast.SwitchStmt:
		for _, cc := range v.Body.List {
			cl := cc.(*ast.CaseClause)
			cl.Body = c.rewriteList(cl.Body)
		}
		return []ast.Stmt{v}
	case *ast.TypeSwitchStmt:
		for _, cc := range v.Body.List {
			cl := cc.(*ast.CaseClause)
			cl.Body = c.rewriteList(cl.Body)
		}
		return []ast.Stmt{v}
	case *ast.SelectStmt:
		c.need("vsched")
		c.notes = append(c.notes, fmt.Sprintf("%s: select is unsupported", c.fset.Position(v.Pos())))
		return []ast.Stmt{&ast.ExprStmt{X: call(sel("vsched", "Unsupported"), &ast.BasicLit{Kind: token.STRING, Value: strconv.Quote("select")})}, v}
	case *ast.ExprStmt:
		// close(ch)
		if ce, ok := v.X.(*ast.CallExpr); ok {
			if id, ok := ce.Fun.(*ast.Ident); ok && id.Name == "close" && len(ce.Args) == 1 {
				if _, isBuiltin := c.info.Uses[id].(*types.Builtin); isBuiltin {
					c.need("vsched")
					return []ast.Stmt{&ast.ExprStmt{X: call(sel("vsched", "Close"), ce.Args[0])}}
				}
			}
		}
	}
	// generic statement: func literals inside, then receives
	c.walkStmtFuncLits(s)
	var pre []ast.Stmt
	for _, r := range c.recvs(s) {
		pre = append(pre, c.point("KRecv", r))
	}
	return append(pre, s)
}

// descend into function literals nested in expressions of a statement
func (c *fileCtx) walkStmtFuncLits(s ast.Stmt) {
	ast.Inspect(s, func(x ast.Node) bool {
		if fl, ok := x.(*ast.FuncLit); ok {
			fl.Body.List = c.rewriteList(fl.Body.List)
			return false
		}
		return true
	})
}

func (c *fileCtx) walkExprFuncLits(e ast.Node) {
	ast.Inspect(e, func(x ast.Node) bool {
		if fl, ok := x.(*ast.FuncLit); ok {
			fl.Body.List = c.rewriteList(fl.Body.List)
			return false
		}
		return true
	})
}

// isAtomicCall: a call of a sync/atomic function or of a method of a sync/atomic type.
func (c *fileCtx) isAtomicCall(ce *ast.CallExpr) bool {
	se, ok := ce.Fun.(*ast.SelectorExpr)
	if !ok {
		return false
	}
	if id, ok := se.X.(*ast.Ident); ok {
		if pn, ok := c.info.Uses[id].(*types.PkgName); ok {
			return pn.Imported().Path() == "sync/atomic"
		}
	}
	if selInfo, ok := c.info.Selections[se]; ok && selInfo.Kind() == types.MethodVal {
		rt := selInfo.Recv()
		if p, ok := rt.(*types.Pointer); ok {
			rt = p.Elem()
		}
		if n, ok := rt.(*types.Named); ok && n.Obj().Pkg() != nil {
			return n.Obj().Pkg().Path() == "sync/atomic"
		}
	}
	return false
}

var exprType = reflect.TypeOf((*ast.Expr)(nil)).Elem()

// replaceExprs applies f bottom-up to every expression reachable from n (reflection over the AST:
// the standard library has no expression-rewriting visitor).
func replaceExprs(n ast.Node, f func(ast.Expr) ast.Expr) {
	seen := map[uintptr]bool{}
	var walk func(v reflect.Value)
	walk = func(v reflect.Value) {
		switch v.Kind() {
		case reflect.Interface:
			if !v.IsNil() {
				walk(v.Elem())
			}
		case reflect.Ptr:
			if v.IsNil() || seen[v.Pointer()] {
				return
			}
			seen[v.Pointer()] = true
			if v.Type().String() == "*ast.Object" || v.Type().String() == "*ast.Scope" {
				return
			}
			walk(v.Elem())
		case reflect.Struct:
			for i := 0; i < v.NumField(); i++ {
				fv := v.Field(i)
				if !fv.CanSet() {
					continue
				}
				walk(fv)
				if fv.Type() == exprType && !fv.IsNil() {
					if ne := f(fv.Interface().(ast.Expr)); ne != nil {
						fv.Set(reflect.ValueOf(ne))
					}
				}
			}
		case reflect.Slice:
			for i := 0; i < v.Len(); i++ {
				ev := v.Index(i)
				walk(ev)
				if ev.Type() == exprType && !ev.IsNil() {
					if ne := f(ev.Interface().(ast.Expr)); ne != nil {
						ev.Set(reflect.ValueOf(ne))
					}
				}
			}
		}
	}
	walk(reflect.ValueOf(n))
}

func (c *fileCtx) run() {
	// 1. sync import
	for _, im := range c.file.Imports {
		p, _ := strconv.Unquote(im.Path.Value)
		if p == "sync" {
			im.Path.Value = strconv.Quote(rtPath + "vsync")
			if im.Name == nil {
				im.Name = ast.NewIdent("sync")
			}
			c.changed = true
		}
	}
	// 2. runtime.NumCPU()
	ast.Inspect(c.file, func(x ast.Node) bool {
		if ce, ok := x.(*ast.CallExpr); ok && c.isPkgCall(ce, "runtime", "NumCPU") {
			ce.Fun = sel("vchoice", "NumCPU")
			c.need("vchoice")
		}
		return true
	})
	// 2b. sync/atomic operations become scheduling points: atomic.AddInt64(&x, 1) →
	// vsched.Atomic1(func() int64 { return atomic.AddInt64(&x, 1) }) (the wrapper parks the thread
	// first; the real atomic operation is kept, so the race detector still sees it)
	replaceExprs(c.file, func(e ast.Expr) ast.Expr {
		ce, ok := e.(*ast.CallExpr)
		if !ok || !c.isAtomicCall(ce) {
			return e
		}
		c.need("vsched")
		t := c.info.TypeOf(ce)
		if t == nil {
			return e
		}
		if tup, ok := t.(*types.Tuple); ok && tup.Len() == 0 {
			return call(sel("vsched", "Atomic0"), &ast.FuncLit{Type: &ast.FuncType{Params: &ast.FieldList{}}, Body: &ast.BlockStmt{List: []ast.Stmt{&ast.ExprStmt{X: ce}}}})
		}
		var te ast.Expr
		switch u := t.(type) {
		case *types.Basic:
			te = ast.NewIdent(u.Name())
		case *types.Interface:
			if u.Empty() {
				te = ast.NewIdent("any")
			}
		}
		if te == nil {
			c.notes = append(c.notes, fmt.Sprintf("%s: atomic operation with result type %s left without a scheduling point", c.fset.Position(ce.Pos()), t))
			return e
		}
		return call(sel("vsched", "Atomic1"), &ast.FuncLit{
			Type: &ast.FuncType{Params: &ast.FieldList{}, Results: &ast.FieldList{List: []*ast.Field{{Type: te}}}},
			Body: &ast.BlockStmt{List: []ast.Stmt{&ast.ReturnStmt{Results: []ast.Expr{ce}}}},
		})
	})
	// 3. statements
	for _, d := range c.file.Decls {
		if fd, ok := d.(*ast.FuncDecl); ok && fd.Body != nil {
			fd.Body.List = c.rewriteList(fd.Body.List)
		}
	}
	if !c.changed {
		return
	}
	// imports to add
	for pkg := range c.needs {
		spec := &ast.ImportSpec{Path: &ast.BasicLit{Kind: token.STRING, Value: strconv.Quote(rtPath + pkg)}}
		c.file.Imports = append(c.file.Imports, spec)
		var gd *ast.GenDecl
		if len(c.file.Decls) > 0 {
			if g, ok := c.file.Decls[0].(*ast.GenDecl); ok && g.Tok == token.IMPORT {
				gd = g
			}
		}
		if gd == nil {
			gd = &ast.GenDecl{Tok: token.IMPORT, TokPos: c.file.Name.End() + 1}
			c.file.Decls = append([]ast.Decl{gd}, c.file.Decls...)
		}
		gd.Specs = append(gd.Specs, spec)
		if !gd.Lparen.IsValid() {
			gd.Lparen = gd.Pos()
		}
	}
	// imports that became unused
	used := map[string]bool{}
	ast.Inspect(c.file, func(x ast.Node) bool {
		if se, ok := x.(*ast.SelectorExpr); ok {
			if id, ok := se.X.(*ast.Ident); ok {
				used[id.Name] = true
			}
		}
		return true
	})
	for _, im := range c.file.Imports {
		p, _ := strconv.Unquote(im.Path.Value)
		name := filepath.Base(p)
		if im.Name != nil {
			name = im.Name.Name
		}
		if name != "_" && name != "." && !used[name] && (p == "runtime" || p == "math/rand") {
			im.Name = ast.NewIdent("_")
		}
	}
}

// what the rewriter looks for: sync / sync/atomic imports, go statements, channel types and operations,
// select statements, runtime.NumCPU
var mentionsConcurrency = regexp.MustCompile(`"sync"|"sync/atomic"|\bgo\s+[\w(]|\bchan\b|<-|\bselect\s*\{|NumCPU`)

func main() {
	repo := flag.String("repo", "/repo", "repository root")
	out := flag.String("out", "", "output directory")
	rt := flag.String("rt", "", "directory holding the run-time packages (vsched, vsync, vchoice, ...) to inject as virtual packages")
	ovFile := flag.String("overlay", "", "overlay json to write (default stdout)")
	flag.Parse()
	overlay := map[string]string{}
	// one file set and one source importer for all packages: dependencies are type-checked once
	fset := token.NewFileSet()
	imp := importer.ForCompiler(fset, "source", nil)
	for _, rel := range flag.Args() {
		dir := filepath.Join(*repo, rel)
		ents, _ := os.ReadDir(dir)
		// a package none of whose files mentions anything this tool rewrites is left alone (and not type-checked)
		relevant := false
		for _, e := range ents {
			if !strings.HasSuffix(e.Name(), ".go") || strings.HasSuffix(e.Name(), "_test.go") {
				continue
			}
			if b, err := os.ReadFile(filepath.Join(dir, e.Name())); err == nil && mentionsConcurrency.Match(b) {
				relevant = true
				break
			}
		}
		if !relevant {
			continue
		}
		var files []*ast.File
		var names []string
		for _, e := range ents {
			if !strings.HasSuffix(e.Name(), ".go") || strings.HasSuffix(e.Name(), "_test.go") {
				continue
			}
			// honour build constraints (GOOS/GOARCH/tags of the host build), as the compiler will
			if ok, err := build.Default.MatchFile(dir, e.Name()); err != nil || !ok {
				continue
			}
			f, err := parser.ParseFile(fset, filepath.Join(dir, e.Name()), nil, parser.ParseComments)
			if err != nil {
				panic(err)
			}
			files = append(files, f)
			names = append(names, e.Name())
		}
		info := &types.Info{Types: map[ast.Expr]types.TypeAndValue{}, Uses: map[*ast.Ident]types.Object{}, Defs: map[*ast.Ident]types.Object{}, Selections: map[*ast.SelectorExpr]*types.Selection{}}
		conf := types.Config{Importer: imp, Error: func(err error) { fmt.Fprintln(os.Stderr, "typeerr:", err) }}
		if _, err := conf.Check(rel, fset, files, info); err != nil {
			fmt.Fprintln(os.Stderr, "vinstr: type check of", rel, "failed:", err)
			os.Exit(3)
		}
		for i, f := range files {
			c := &fileCtx{fset: fset, info: info, file: f, needs: map[string]bool{}}
			c.run()
			for _, n := range c.notes {
				fmt.Fprintln(os.Stderr, "note:", n)
			}
			if !c.changed {
				continue
			}
			var buf bytes.Buffer
			cfg := printer.Config{Mode: printer.UseSpaces | printer.TabIndent, Tabwidth: 8}
			if err := cfg.Fprint(&buf, fset, f); err != nil {
				panic(err)
			}
			dst := filepath.Join(*out, rel, names[i]+".txt")
			os.MkdirAll(filepath.Dir(dst), 0o755)
			os.WriteFile(dst, buf.Bytes(), 0o644)
			overlay[filepath.Join(dir, names[i])] = dst
			if os.Getenv("VINSTR_VERBOSE") != "" {
				fmt.Fprintln(os.Stderr, "instrumented", filepath.Join(rel, names[i]))
			}
		}
	}
	if *rt != "" {
		ents, _ := os.ReadDir(*rt)
		for _, e := range ents {
			if !e.IsDir() {
				continue
			}
			files, _ := os.ReadDir(filepath.Join(*rt, e.Name()))
			for _, f := range files {
				if strings.HasSuffix(f.Name(), ".go") && !strings.HasSuffix(f.Name(), "_test.go") {
					overlay[filepath.Join(*repo, "verifrt", e.Name(), f.Name())] = filepath.Join(*rt, e.Name(), f.Name())
				}
			}
		}
	}
	b, _ := json.MarshalIndent(map[string]any{"Replace": overlay}, "", " ")
	if *ovFile != "" {
		if err := os.WriteFile(*ovFile, b, 0o644); err != nil {
			panic(err)
		}
		return
	}
	fmt.Println(string(b))
}
