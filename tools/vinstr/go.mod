module vinstr

go 1.23
