// Package vchoice holds environment answers the harness owns (injected by overlay as
// github.com/EliCDavis/polyform/verifrt/vchoice).
package vchoice

var numCPU = 2

//go:norace
func NumCPU() int { return numCPU }

//go:norace
func SetNumCPU(n int) { numCPU = n }
