// Package vsync is a drop-in for the parts of package sync used by the code under test (injected by
// overlay as github.com/EliCDavis/polyform/verifrt/vsync; the instrumenter rewrites `import "sync"`).
// Every type wraps the REAL primitive, so ThreadSanitizer sees exactly the program's own
// happens-before edges, and announces each operation to the controlled scheduler first. The
// bookkeeping fields the scheduler reads to compute enabledness live in //go:norace code.
package vsync

import (
	"sync"

	"github.com/EliCDavis/polyform/verifrt/vsched"
)

type Locker = sync.Locker

// ---- Mutex ----

type Mutex struct {
	real sync.Mutex
	held bool
}

//go:norace
func (m *Mutex) VEnabled(k vsched.Kind) bool { return !m.held }

//go:norace
func (m *Mutex) setHeld(b bool) { m.held = b }

func (m *Mutex) Lock() {
	vsched.Point(vsched.KLock, m)
	m.setHeld(true)
	m.real.Lock()
}

func (m *Mutex) Unlock() {
	m.real.Unlock()
	m.setHeld(false)
	vsched.Point(vsched.KUnlock, m)
}

func (m *Mutex) TryLock() bool {
	vsched.Point(vsched.KYield, nil)
	ok := m.real.TryLock()
	if ok {
		m.setHeld(true)
	}
	return ok
}

// ---- RWMutex ----

type RWMutex struct {
	real    sync.RWMutex
	writer  bool
	readers int
}

type rlockReq struct{ m *RWMutex }

//go:norace
func (r rlockReq) VEnabled(k vsched.Kind) bool { return !r.m.writer }

//go:norace
func (m *RWMutex) VEnabled(k vsched.Kind) bool { return !m.writer && m.readers == 0 }

//go:norace
func (m *RWMutex) setW(b bool) { m.writer = b }

//go:norace
func (m *RWMutex) addR(d int) { m.readers += d }

func (m *RWMutex) Lock() {
	vsched.Point(vsched.KLock, m)
	m.setW(true)
	m.real.Lock()
}

func (m *RWMutex) Unlock() {
	m.real.Unlock()
	m.setW(false)
	vsched.Point(vsched.KUnlock, m)
}

func (m *RWMutex) RLock() {
	vsched.Point(vsched.KLock, rlockReq{m})
	m.addR(1)
	m.real.RLock()
}

func (m *RWMutex) RUnlock() {
	m.real.RUnlock()
	m.addR(-1)
	vsched.Point(vsched.KUnlock, m)
}

func (m *RWMutex) RLocker() sync.Locker { return rlocker{m} }

type rlocker struct{ m *RWMutex }

func (r rlocker) Lock()   { r.m.RLock() }
func (r rlocker) Unlock() { r.m.RUnlock() }

// ---- WaitGroup ----

type WaitGroup struct {
	real sync.WaitGroup
	n    int
}

//go:norace
func (w *WaitGroup) VEnabled(k vsched.Kind) bool { return w.n <= 0 }

//go:norace
func (w *WaitGroup) add(d int) { w.n += d }

func (w *WaitGroup) Add(d int) { w.add(d); w.real.Add(d) }

func (w *WaitGroup) Done() {
	w.add(-1)
	w.real.Done()
	vsched.Point(vsched.KWgDone, w)
}

func (w *WaitGroup) Wait() {
	vsched.Point(vsched.KWgWait, w)
	w.real.Wait()
}

// ---- Once ----

type Once struct {
	real    sync.Once
	running bool
}

//go:norace
func (o *Once) VEnabled(k vsched.Kind) bool { return !o.running }

//go:norace
func (o *Once) setRunning(b bool) { o.running = b }

func (o *Once) Do(f func()) {
	vsched.Point(vsched.KLock, o)
	o.setRunning(true)
	defer func() {
		o.setRunning(false)
		vsched.Point(vsched.KUnlock, o)
	}()
	o.real.Do(f)
}

// Pool and Map are passed through (no blocking behaviour to model).
type Pool = sync.Pool
type Map = sync.Map
