// Package vsched is a controlled (cooperative) scheduler for stateless exploration of goroutine
// interleavings (injected by overlay as github.com/EliCDavis/polyform/verifrt/vsched).
//
// Exactly one controlled goroutine runs at a time; each parks at every *point* (lock, unlock,
// WaitGroup wait/done, channel send/receive/close, spawn, harness Yield) until the scheduler picks
// it. The hand-off itself is executed inside runtime.RaceDisable()/RaceEnable() brackets in
// //go:norace functions over fixed-size bookkeeping, so ThreadSanitizer sees NO synchronisation
// from the scheduler, while the wrapped real primitives of the code under test still produce the
// program's own happens-before edges: the race detector stays meaningful on every explored schedule.
package vsched

import (
	"fmt"
	"reflect"
	"runtime"
	"sync"
)

type Kind int

const (
	KYield Kind = iota
	KLock
	KUnlock
	KWgWait
	KWgDone
	KSend
	KRecv
	KClose
	KSpawn
	KStart
	KAtomic
)

var kindNames = [...]string{"yield", "lock", "unlock", "wg.wait", "wg.done", "send", "recv", "close", "spawn", "start", "atomic"}

func (k Kind) String() string { return kindNames[k] }

const MaxThreads = 32

type thread struct {
	id     int
	wake   chan struct{}
	done   bool
	kind   Kind
	obj    any
	label  string
	panicV any
}

// Enabler is implemented by the vsync wrappers.
type Enabler interface{ VEnabled(k Kind) bool }

var (
	threads  [MaxThreads]*thread
	gids     [MaxThreads]int64
	nthreads int
	notify   = make(chan int, MaxThreads)
	started  = make(chan int, 1) // child-start notifications: separate from notify (else the scheduler loop steals them)
	active   bool
	closedCh [256]uintptr
	nclosed  int
	joinWG   sync.WaitGroup
	clock    int64
	unsupported string
)

//go:norace
func goid() int64 {
	var buf [64]byte
	n := runtime.Stack(buf[:], false)
	var id int64
	for i := 10; i < n; i++ { // "goroutine 123 ["
		c := buf[i]
		if c < '0' || c > '9' {
			break
		}
		id = id*10 + int64(c-'0')
	}
	return id
}

//go:norace
func self() *thread {
	g := goid()
	for i := 0; i < nthreads; i++ {
		if gids[i] == g {
			return threads[i]
		}
	}
	return nil
}

//go:norace
func Active() bool { return active }

// Now is a logical clock for call/return logs (steps of the scheduler), race-detector invisible.
//
//go:norace
func Now() int64 { clock++; return clock }

// Self returns the controlled thread id of the caller (-1 if uncontrolled).
//
//go:norace
func Self() int {
	if t := self(); t != nil {
		return t.id
	}
	return -1
}

//go:norace
func runThread(t *thread, f func()) {
	runtime.RaceDisable()
	gids[t.id] = goid()
	started <- t.id // parked at start
	<-t.wake
	runtime.RaceEnable()
	func() {
		defer func() {
			if r := recover(); r != nil {
				t.panicV = r
			}
		}()
		f()
	}()
	runtime.RaceDisable()
	t.done = true
	notify <- t.id
	runtime.RaceEnable()
	joinWG.Done()
}

// Go spawns a controlled thread (the instrumenter rewrites `go` statements to Go0..Go5).
//
//go:norace
func Go(f func()) {
	if !active || self() == nil {
		if captureFree {
			go func() {
				defer func() {
					if r := recover(); r != nil {
						freeMu.Lock()
						freePanics = append(freePanics, fmt.Sprint(r))
						freeMu.Unlock()
					}
				}()
				f()
			}()
			return
		}
		go f()
		return
	}
	if nthreads >= MaxThreads {
		panic("vsched: too many threads")
	}
	id := nthreads
	t := &thread{id: id, wake: make(chan struct{}, 1), kind: KStart}
	threads[id] = t
	nthreads++
	joinWG.Add(1)
	go runThread(t, f) // a real go statement: creates the program's own parent→child happens-before edge
	runtime.RaceDisable()
	<-started // the child is parked: the set of threads is always known to the scheduler
	runtime.RaceEnable()
	if !quietSpawn {
		Point(KSpawn, nil)
	}
}

// Release points (after Unlock / WaitGroup.Done) and spawn points are redundant for data-race-free
// code: a switch there is equivalent to a switch before the same thread's next synchronisation
// operation, and the code in between is covered by the race detector. Harnesses whose schedule
// space would otherwise explode switch them off (scheduling points then sit *before* every
// acquiring / blocking operation, as in CHESS).
var (
	skipRelease bool
	quietSpawn  bool
)

//go:norace
func SetReducedPoints(on bool) { skipRelease, quietSpawn = on, on }

// Free-running mode (no exploration active): goroutines spawned by instrumented code run
// uncontrolled; with CaptureFreePanics a panic inside one is recorded instead of killing the process.
var (
	captureFree bool
	freeMu      sync.Mutex
	freePanics  []string
)

func CaptureFreePanics(on bool) { captureFree = on }

func TakeFreePanics() []string {
	freeMu.Lock()
	defer freeMu.Unlock()
	p := freePanics
	freePanics = nil
	return p
}

// Point parks the calling thread until the scheduler picks it and its pending operation is enabled.
//
//go:norace
func Point(k Kind, obj any) {
	if !active {
		return
	}
	if skipRelease && (k == KUnlock || k == KWgDone) {
		return
	}
	t := self()
	if t == nil {
		return // uncontrolled goroutine (harness main)
	}
	t.kind = k
	t.obj = obj
	runtime.RaceDisable()
	notify <- t.id
	<-t.wake
	runtime.RaceEnable()
}

// Yield is a harness-placed scheduling point (inside user callbacks / node processors).
func Yield() { Point(KYield, nil) }

//go:norace
func chanKey(ch any) uintptr { return reflect.ValueOf(ch).Pointer() }

//go:norace
func markClosed(ch any) {
	if !active {
		return
	}
	if nclosed < len(closedCh) {
		closedCh[nclosed] = chanKey(ch)
		nclosed++
	}
}

//go:norace
func isClosed(ch any) bool {
	k := chanKey(ch)
	for i := 0; i < nclosed; i++ {
		if closedCh[i] == k {
			return true
		}
	}
	return false
}

//go:norace
func enabled(t *thread) bool {
	switch t.kind {
	case KLock, KWgWait:
		return t.obj.(Enabler).VEnabled(t.kind)
	case KRecv:
		v := reflect.ValueOf(t.obj)
		return v.Len() > 0 || isClosed(t.obj)
	case KSend:
		v := reflect.ValueOf(t.obj)
		if v.Cap() == 0 {
			unsupported = "unbuffered channel"
			return true
		}
		return v.Len() < v.Cap() || isClosed(t.obj)
	}
	return true
}

// ---- one execution ----

type PointRec struct {
	Enabled        []int // canonical order: the running thread first if still enabled, then ascending ids
	Chosen         int   // index into Enabled
	Running        int
	RunningEnabled bool
	Kind           Kind // pending operation of the chosen thread
}

type Exec struct {
	Points      []PointRec
	Deadlock    bool
	Blocked     []string // pending operations at a deadlock
	Panics      []string // panics raised inside controlled threads ("t<id>: value")
	Unsupported string
	Threads     int
}

// Choices returns the choice vector of the execution.
func (x Exec) Choices() []int {
	c := make([]int, len(x.Points))
	for i, p := range x.Points {
		c[i] = p.Chosen
	}
	return c
}

// Trace renders the schedule as "t0:spawn t1:lock …" (thread chosen at each point and its pending op).
func (x Exec) Trace() string {
	s := ""
	for i, p := range x.Points {
		if i > 0 {
			s += " "
		}
		s += fmt.Sprintf("t%d:%s", p.Enabled[p.Chosen], p.Kind)
	}
	return s
}

// ReplayDivergence is the panic value raised when a recorded prefix cannot be followed.
type ReplayDivergence struct{ Msg string }

// Run executes root under the scheduler following prefix, then choice 0 at every later point.
// maxPoints bounds the length of one execution (a longer one is reported via Unsupported).
//
//go:norace
func Run(root func(), prefix []int, maxPoints int) (x Exec) {
	nthreads = 0
	nclosed = 0
	unsupported = ""
	for len(notify) > 0 {
		<-notify
	}
	active = true
	t := &thread{id: 0, wake: make(chan struct{}, 1), kind: KStart}
	threads[0] = t
	nthreads = 1
	joinWG.Add(1)
	go runThread(t, root)
	runtime.RaceDisable()
	<-started
	running := -1
	for {
		var en []int
		runningEnabled := false
		if running >= 0 && !threads[running].done && enabled(threads[running]) {
			en = append(en, running)
			runningEnabled = true
		}
		alive := 0
		for i := 0; i < nthreads; i++ {
			if threads[i].done {
				continue
			}
			alive++
			if i != running && enabled(threads[i]) {
				en = append(en, i)
			}
		}
		if alive == 0 {
			break
		}
		if len(en) == 0 {
			x.Deadlock = true
			for i := 0; i < nthreads; i++ {
				if !threads[i].done {
					x.Blocked = append(x.Blocked, fmt.Sprintf("t%d:%s", i, threads[i].kind))
				}
			}
			break
		}
		if unsupported != "" || (maxPoints > 0 && len(x.Points) >= maxPoints) {
			if unsupported == "" {
				unsupported = fmt.Sprintf("execution longer than %d points", maxPoints)
			}
			x.Unsupported = unsupported
			// let everything run to completion free of control so the goroutines do not leak
			active = false
			for i := 0; i < nthreads; i++ {
				if !threads[i].done {
					threads[i].wake <- struct{}{}
				}
			}
			break
		}
		choice := 0
		if len(x.Points) < len(prefix) {
			choice = prefix[len(x.Points)]
			if choice >= len(en) {
				active = false
				runtime.RaceEnable()
				panic(ReplayDivergence{fmt.Sprintf("replay divergence at point %d: choice %d of %d enabled", len(x.Points), choice, len(en))})
			}
		}
		next := en[choice]
		x.Points = append(x.Points, PointRec{Enabled: en, Chosen: choice, Running: running, RunningEnabled: runningEnabled, Kind: threads[next].kind})
		running = next
		threads[next].wake <- struct{}{}
		<-notify // it parks again or finishes
	}
	runtime.RaceEnable()
	active = false
	x.Threads = nthreads
	if !x.Deadlock {
		joinWG.Wait() // a real, visible join: the harness may now read what the threads wrote
	} else {
		// deadlocked threads stay parked forever (leaked for this process); joinWG must be reset
		joinWG = sync.WaitGroup{}
	}
	for i := 0; i < nthreads; i++ {
		if threads[i].panicV != nil {
			x.Panics = append(x.Panics, fmt.Sprintf("t%d: %v", i, threads[i].panicV))
		}
	}
	return x
}

func runCatch(root func(), prefix []int, maxPoints int) (x Exec, diverged string) {
	defer func() {
		if r := recover(); r != nil {
			if d, ok := r.(ReplayDivergence); ok {
				diverged = d.Msg
				// the threads of the aborted execution run to completion free of control
				for i := 0; i < nthreads; i++ {
					if !threads[i].done {
						threads[i].wake <- struct{}{}
					}
				}
				joinWG.Wait()
				return
			}
			panic(r)
		}
	}()
	x = Run(root, prefix, maxPoints)
	return
}

// ---- exploration ----

type Stats struct {
	Execs, Deadlocks, MaxPoints, MaxThreads int
	Divergences                             int
	LastDivergence                          string
	Points                                  int64
	Truncated                               bool
}

// Options of Explore.
type Options struct {
	Bound     int // preemption bound; <0 = unbounded
	MaxPoints int // per execution
	// Shard/NShards: subtrees rooted at the second deviation from the default schedule are dealt
	// round-robin; executions with fewer deviations are run by every shard but Owned only by shard 0.
	Shard, NShards int
	// Stop is polled between executions (deadline).
	Stop func() bool
}

// Explore enumerates all executions with at most Bound preemptions (depth-first, default choice
// first). mk builds a fresh instance of the system and returns its root and the checker for that
// execution; owned tells the checker whether this shard is responsible for counting/reporting it.
func Explore(mk func() (root func(), check func(x Exec, owned bool)), o Options, st *Stats) {
	if o.NShards < 1 {
		o.NShards = 1
	}
	counter := 0
	var rec func(prefix []int, deviations int)
	rec = func(prefix []int, deviations int) {
		if st.Truncated || (o.Stop != nil && o.Stop()) {
			st.Truncated = true
			return
		}
		root, check := mk()
		x, diverged := runCatch(root, prefix, o.MaxPoints)
		if diverged != "" {
			// the same prefix no longer leads to the same enabled sets: the system keeps state between
			// executions or has nondeterminism the harness does not own. Reported, subtree skipped.
			st.Divergences++
			st.LastDivergence = diverged
			return
		}
		st.Execs++
		st.Points += int64(len(x.Points))
		if x.Deadlock {
			st.Deadlocks++
		}
		if len(x.Points) > st.MaxPoints {
			st.MaxPoints = len(x.Points)
		}
		if x.Threads > st.MaxThreads {
			st.MaxThreads = x.Threads
		}
		owned := deviations >= 2 || o.Shard == 0
		check(x, owned)
		pre := 0
		for i := 0; i < len(x.Points); i++ {
			p := x.Points[i]
			if i >= len(prefix) {
				cost := pre
				if p.RunningEnabled {
					cost++ // switching away from a runnable thread is a preemption
				}
				if o.Bound < 0 || cost <= o.Bound {
					for alt := 1; alt < len(p.Enabled); alt++ {
						if deviations+1 == 2 {
							counter++
							if counter%o.NShards != o.Shard {
								continue
							}
						}
						np := make([]int, i+1)
						for k := 0; k < i; k++ {
							np[k] = x.Points[k].Chosen
						}
						np[i] = alt
						rec(np, deviations+1)
						if st.Truncated {
							return
						}
					}
				}
			}
			if p.RunningEnabled && p.Chosen != 0 {
				pre++
			}
		}
	}
	rec(nil, 0)
}

// ---- entry points used by instrumenter-generated code ----

func ChanPoint(k Kind, ch any) { Point(k, ch) }

func Close(ch any) {
	markClosed(ch)
	reflect.ValueOf(ch).Close()
	Point(KClose, ch)
}

//go:norace
func Unsupported(what string) {
	if active {
		unsupported = what
	}
}

// Atomic0 / Atomic1 wrap a sync/atomic operation: the thread parks first (a check-then-act over two
// atomics is only wrong when another thread runs in between), then the real operation executes.
func Atomic0(f func()) {
	Point(KAtomic, nil)
	f()
}

func Atomic1[T any](f func() T) T {
	Point(KAtomic, nil)
	return f()
}

func Go0(f func())                                    { Go(f) }
func Go1[A any](f func(A), a A)                       { Go(func() { f(a) }) }
func Go2[A, B any](f func(A, B), a A, b B)            { Go(func() { f(a, b) }) }
func Go3[A, B, C any](f func(A, B, C), a A, b B, c C) { Go(func() { f(a, b, c) }) }
func Go4[A, B, C, D any](f func(A, B, C, D), a A, b B, c C, d D) {
	Go(func() { f(a, b, c, d) })
}
func Go5[A, B, C, D, E any](f func(A, B, C, D, E), a A, b B, c C, d D, e E) {
	Go(func() { f(a, b, c, d, e) })
}
