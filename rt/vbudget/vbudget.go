// Package vbudget is the run-time half of the deterministic hang detector of the C14 cut
// explorer. It is NOT part of polyform: the build script injects it as a virtual package
// (github.com/EliCDavis/polyform/verifrt/vbudget) through `go build -overlay`, together with
// rewritten copies of the reader packages in which tools/looptick has put a Tick() call at the
// top of every `for` body. With the overlay absent nothing refers to this package.
//
// A decode that executes more loop iterations than the budget the harness set for it is
// aborted with a sentinel panic: "does not terminate in time proportional to the input" becomes
// a property of the executed iteration count, never of the wall clock.
package vbudget

import "sync/atomic"

// Exceeded is the sentinel panic value raised by Tick when the budget is exhausted.
type Exceeded struct {
	Budget int64
}

func (e Exceeded) Error() string { return "vbudget: loop-iteration budget exceeded" }

var (
	count  atomic.Int64
	budget atomic.Int64 // 0 = unlimited (counting only)
)

// Tick is called at the top of every loop body of the instrumented packages.
func Tick() {
	n := count.Add(1)
	if b := budget.Load(); b > 0 && n > b {
		// disarm so that deferred library code that loops while unwinding cannot re-panic
		budget.Store(0)
		panic(Exceeded{Budget: b})
	}
}

// Start resets the counter and arms the budget (0 = count only).
func Start(b int64) {
	count.Store(0)
	budget.Store(b)
}

// Stop disarms the budget and returns the number of ticks since Start.
func Stop() int64 {
	budget.Store(0)
	return count.Load()
}

// Count returns the ticks since the last Start.
func Count() int64 { return count.Load() }
