// Package geolib holds the geometry oracles shared by C09 and C18: coincident-position merging,
// directed-edge pairing (closed, consistently oriented), degenerate-face detection, signed volume.
package geolib

import (
	"fmt"
	"math"

	"github.com/EliCDavis/polyform/modeling"
	"github.com/EliCDavis/vector/vector3"
)

type V3 = vector3.Float64

// Soup is a triangle list over a vertex table.
type Soup struct {
	P   []V3
	Tri [][3]int
}

// FromMesh reads positions and triangles through the public accessors.
func FromMesh(m modeling.Mesh) (Soup, error) {
	if m.Topology() != modeling.TriangleTopology {
		return Soup{}, fmt.Errorf("not a triangle mesh: %v", m.Topology())
	}
	var s Soup
	if m.HasFloat3Attribute(modeling.PositionAttribute) {
		it := m.Float3Attribute(modeling.PositionAttribute)
		s.P = make([]V3, it.Len())
		for i := range s.P {
			s.P[i] = it.At(i)
		}
	}
	idx := m.Indices()
	if idx.Len()%3 != 0 {
		return s, fmt.Errorf("index count %d is not a multiple of 3", idx.Len())
	}
	for i := 0; i+2 < idx.Len(); i += 3 {
		t := [3]int{idx.At(i), idx.At(i + 1), idx.At(i + 2)}
		for _, v := range t {
			if v < 0 || v >= len(s.P) {
				return s, fmt.Errorf("index %d out of range (%d vertices)", v, len(s.P))
			}
		}
		s.Tri = append(s.Tri, t)
	}
	return s, nil
}

// MergeCoincident relabels vertices so that positions equal after rounding to `decimals` decimal
// places share one id (exact match of the rounded key; union is by key so it is transitive).
// Returns the relabelled triangles and the number of merged classes.
func (s Soup) MergeCoincident(decimals int) (tri [][3]int, classes int, rep []int) {
	scale := math.Pow(10, float64(decimals))
	type key [3]int64
	ids := map[key]int{}
	rep = make([]int, len(s.P))
	for i, p := range s.P {
		k := key{int64(math.Round(p.X() * scale)), int64(math.Round(p.Y() * scale)), int64(math.Round(p.Z() * scale))}
		id, ok := ids[k]
		if !ok {
			id = len(ids)
			ids[k] = id
		}
		rep[i] = id
	}
	tri = make([][3]int, len(s.Tri))
	for i, t := range s.Tri {
		tri[i] = [3]int{rep[t[0]], rep[t[1]], rep[t[2]]}
	}
	return tri, len(ids), rep
}

// EdgeReport of a relabelled triangle list.
type EdgeReport struct {
	Triangles       int
	DegenerateIndex int // triangles with a repeated vertex id
	Open            [][2]int // directed edges with no opposite edge
	Duplicate       [][2]int // directed edges used by more than one triangle (non-manifold or flipped neighbour)
}

func (r EdgeReport) Closed() bool { return len(r.Open) == 0 && len(r.Duplicate) == 0 }

// Edges checks that every directed edge is matched by exactly one opposite directed edge.
// Triangles with a repeated vertex are counted separately and excluded from the pairing.
func Edges(tri [][3]int) EdgeReport {
	r := EdgeReport{Triangles: len(tri)}
	cnt := map[[2]int]int{}
	for _, t := range tri {
		if t[0] == t[1] || t[1] == t[2] || t[0] == t[2] {
			r.DegenerateIndex++
			continue
		}
		for k := 0; k < 3; k++ {
			cnt[[2]int{t[k], t[(k+1)%3]}]++
		}
	}
	for e, n := range cnt {
		if n > 1 {
			r.Duplicate = append(r.Duplicate, e)
		}
		if cnt[[2]int{e[1], e[0]}] != n || n != 1 {
			if cnt[[2]int{e[1], e[0]}] == 0 {
				r.Open = append(r.Open, e)
			}
		}
	}
	return r
}

// SignedVolume is the sum of signed tetrahedra against the origin (positive = outward CCW).
func (s Soup) SignedVolume() float64 {
	v := 0.
	for _, t := range s.Tri {
		a, b, c := s.P[t[0]], s.P[t[1]], s.P[t[2]]
		v += a.Dot(b.Cross(c)) / 6
	}
	return v
}

// ZeroArea counts triangles whose geometric area is ≤ eps.
func (s Soup) ZeroArea(eps float64) int {
	n := 0
	for _, t := range s.Tri {
		a, b, c := s.P[t[0]], s.P[t[1]], s.P[t[2]]
		if b.Sub(a).Cross(c.Sub(a)).Length()/2 <= eps {
			n++
		}
	}
	return n
}

// FaceNormal (unnormalised; length = 2·area).
func (s Soup) FaceNormal(i int) V3 {
	t := s.Tri[i]
	a, b, c := s.P[t[0]], s.P[t[1]], s.P[t[2]]
	return b.Sub(a).Cross(c.Sub(a))
}
