package core

import "sort"

// Check is one property's explorer. It must be deterministic given (tier, shard, nshards).
type Check struct {
	ID  string
	Run func(c *Ctx)
	// Replay re-executes exactly one recorded case (the "case" of a violation) and records the
	// violation again if it still fails.
	Replay func(c *Ctx)
}

var registry = map[string]Check{}

func Register(ch Check) { registry[ch.ID] = ch }
func Lookup(id string) (Check, bool) {
	ch, ok := registry[id]
	return ch, ok
}
func IDs() []string {
	var s []string
	for k := range registry {
		s = append(s, k)
	}
	sort.Strings(s)
	return s
}
