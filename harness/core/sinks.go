package core

import (
	"bufio"
	"bytes"
	"fmt"
	"io"
)

// SinkVariant: one kind / state of io.Writer a caller may hand to a writer entry point.  A writer is
// a function of the model, not of the destination: the bytes that arrive must be the same for each.
type SinkVariant struct {
	Name string
	// New returns the destination and a function that yields everything written to it (after flushing).
	New func() (io.Writer, func() []byte)
}

type plainWriter struct{ b *bytes.Buffer }

func (p plainWriter) Write(d []byte) (int, error) { return p.b.Write(d) }

// chunkWriter accepts everything but hands it on in pieces of at most n bytes (a socket with a small
// send buffer behind a conforming Write).
type chunkWriter struct {
	b *bytes.Buffer
	n int
}

func (c chunkWriter) Write(d []byte) (int, error) {
	for i := 0; i < len(d); i += c.n {
		c.b.Write(d[i:min(i+c.n, len(d))])
	}
	return len(d), nil
}

// SinkVariants: a fresh bytes.Buffer (the reference), buffers with spare capacity (grown beforehand,
// created over a roomy array, re-used after Reset following a larger write), a buffer that already
// holds other bytes, a wrapper exposing only Write, bufio.Writers (default and 16-byte), a writer
// that forwards in 7-byte pieces.
var SinkVariants = []SinkVariant{
	{"fresh bytes.Buffer", func() (io.Writer, func() []byte) { b := &bytes.Buffer{}; return b, b.Bytes }},
	{"bytes.Buffer grown by 4 MiB beforehand", func() (io.Writer, func() []byte) {
		b := &bytes.Buffer{}
		b.Grow(4 << 20)
		return b, b.Bytes
	}},
	{"bytes.NewBuffer over an empty slice of 1 MiB capacity", func() (io.Writer, func() []byte) {
		b := bytes.NewBuffer(make([]byte, 0, 1<<20))
		return b, b.Bytes
	}},
	{"bytes.Buffer re-used after Reset (held 2 MiB before)", func() (io.Writer, func() []byte) {
		b := &bytes.Buffer{}
		junk := make([]byte, 2<<20)
		for i := range junk {
			junk[i] = byte(i*7 + 3)
		}
		b.Write(junk)
		b.Reset()
		return b, b.Bytes
	}},
	{"bytes.Buffer that already holds 100 other bytes", func() (io.Writer, func() []byte) {
		b := &bytes.Buffer{}
		for i := 0; i < 100; i++ {
			b.WriteByte(byte(200 + i%50))
		}
		return b, func() []byte { return b.Bytes()[100:] }
	}},
	{"writer exposing only Write", func() (io.Writer, func() []byte) {
		b := &bytes.Buffer{}
		return plainWriter{b}, b.Bytes
	}},
	{"bufio.Writer (default size)", func() (io.Writer, func() []byte) {
		b := &bytes.Buffer{}
		w := bufio.NewWriter(b)
		return w, func() []byte { w.Flush(); return b.Bytes() }
	}},
	{"bufio.Writer (16 bytes)", func() (io.Writer, func() []byte) {
		b := &bytes.Buffer{}
		w := bufio.NewWriterSize(plainWriter{b}, 16)
		return w, func() []byte { w.Flush(); return b.Bytes() }
	}},
	{"writer forwarding in 7-byte pieces", func() (io.Writer, func() []byte) {
		b := &bytes.Buffer{}
		return chunkWriter{b, 7}, b.Bytes
	}},
}

// SinkAgreement writes the same model to every kind of destination and demands the bytes of the
// first (a fresh bytes.Buffer).  Returns "" or what differed.
func SinkAgreement(write func(w io.Writer) error) string {
	var ref []byte
	for i, sv := range SinkVariants {
		w, done := sv.New()
		var err error
		o := Guard(func() { err = write(w) })
		if o.Panicked {
			return fmt.Sprintf("writing to a %s panicked: %s", sv.Name, o.Msg)
		}
		got := done()
		if i == 0 {
			if err != nil {
				return "" // the model cannot be written at all: nothing to compare
			}
			ref = append([]byte{}, got...)
			continue
		}
		if err != nil {
			return fmt.Sprintf("writing to a %s failed: %v (a fresh bytes.Buffer took %d bytes)", sv.Name, err, len(ref))
		}
		if !bytes.Equal(got, ref) {
			at := 0
			for at < len(got) && at < len(ref) && got[at] == ref[at] {
				at++
			}
			return fmt.Sprintf("a %s received %d bytes, a fresh bytes.Buffer %d; first difference at byte %d", sv.Name, len(got), len(ref), at)
		}
	}
	return ""
}
