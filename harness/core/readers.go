package core

import (
	"bufio"
	"bytes"
	"io"
)

// ReaderVariant is one legal way of delivering the same bytes through io.Reader. Decoders must
// return the same result for all of them: the kind of reader (concrete type fast paths) and its
// behaviour (short reads, data returned together with io.EOF) are part of the input space.
type ReaderVariant struct {
	Name string
	New  func(b []byte) io.Reader
}

type onlyRead struct{ r io.Reader }

func (o onlyRead) Read(p []byte) (int, error) { return o.r.Read(p) }

type oneByte struct{ r io.Reader }

func (o oneByte) Read(p []byte) (int, error) {
	if len(p) == 0 {
		return 0, nil
	}
	return o.r.Read(p[:1])
}

type halfRead struct{ r io.Reader }

func (h halfRead) Read(p []byte) (int, error) { return h.r.Read(p[:(len(p)+1)/2]) }

// dataWithEOF returns the final bytes together with io.EOF in the same call (as compress/gzip.Reader,
// iotest.DataErrReader and some HTTP bodies do).
type dataWithEOF struct {
	b   []byte
	off int
}

func (d *dataWithEOF) Read(p []byte) (int, error) {
	if d.off >= len(d.b) {
		return 0, io.EOF
	}
	n := copy(p, d.b[d.off:])
	d.off += n
	if d.off >= len(d.b) {
		return n, io.EOF
	}
	return n, nil
}

var ReaderVariants = []ReaderVariant{
	{"bytes.Reader", func(b []byte) io.Reader { return bytes.NewReader(b) }},
	{"bufio.Reader", func(b []byte) io.Reader { return bufio.NewReader(bytes.NewReader(b)) }},
	{"bufio.Reader(16)", func(b []byte) io.Reader { return bufio.NewReaderSize(bytes.NewReader(b), 16) }},
	{"read-only-wrapper", func(b []byte) io.Reader { return onlyRead{bytes.NewReader(b)} }},
	{"one-byte-reads", func(b []byte) io.Reader { return oneByte{bytes.NewReader(b)} }},
	{"half-reads", func(b []byte) io.Reader { return halfRead{bytes.NewReader(b)} }},
	{"data-with-EOF", func(b []byte) io.Reader { return &dataWithEOF{b: b} }},
	{"bytes.Reader-behind-7-consumed-bytes", func(b []byte) io.Reader { return Positioned(b, 7) }},
	{"bytes.Reader-behind-64-consumed-bytes", func(b []byte) io.Reader { return Positioned(b, 64) }},
}

// Positioned: a seekable reader that has already been read up to where the data starts (a file
// inside a container, a stream behind a header): a decoder reads from the current position on.
func Positioned(data []byte, prefix int) io.Reader {
	junk := make([]byte, prefix)
	for i := range junk {
		junk[i] = byte(0xA5 ^ i)
	}
	r := bytes.NewReader(append(junk, data...))
	if _, err := r.Seek(int64(prefix), io.SeekStart); err != nil {
		panic(err)
	}
	return r
}
