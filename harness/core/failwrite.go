package core

import (
	"bytes"
	"errors"
	"fmt"
	"io"
)

// failingWriter accepts limit bytes, then errors (a disk that fills up, a connection that drops).
type failingWriter struct{ left int }

var errSink = errors.New("verif: sink refuses further bytes")

func (w *failingWriter) Write(p []byte) (int, error) {
	if len(p) <= w.left {
		w.left -= len(p)
		return len(p), nil
	}
	n := w.left
	w.left = 0
	return n, errSink
}

// AfterFailedWrite: a writer entry point is a function of the model it is handed — also right after
// an earlier call failed.  For every limit, item 0 is written to a sink that errors after `limit`
// bytes (whatever that call returns), then item 1 is written to a healthy buffer: the bytes must be
// those item 1 produced before any failure happened.  Returns "" or what differed.
func AfterFailedWrite(limits []int, write func(item int, w io.Writer) error) string {
	var ref bytes.Buffer
	if err := write(1, &ref); err != nil {
		return "" // the model cannot be written at all: nothing to compare
	}
	for _, lim := range limits {
		var msg string
		if o := Guard(func() { _ = write(0, &failingWriter{left: lim}) }); o.Crash() {
			return fmt.Sprintf("writing to a sink that errors after %d bytes crashed: %s", lim, o.Msg)
		}
		var got bytes.Buffer
		var err error
		if o := Guard(func() { err = write(1, &got) }); o.Panicked {
			msg = "panicked: " + o.Msg
		} else if err != nil {
			msg = "failed: " + err.Error()
		} else if !bytes.Equal(got.Bytes(), ref.Bytes()) {
			msg = fmt.Sprintf("produced %d bytes, before the failure the same model produced %d (or other content)", got.Len(), ref.Len())
		}
		if msg != "" {
			return fmt.Sprintf("after a write to a sink that errors after %d bytes, the next write of another model %s", lim, msg)
		}
	}
	return ""
}

// FailLimits: sink capacities around record and block sizes.
var FailLimits = []int{0, 1, 16, 31, 32, 33, 64, 100, 500, 4095, 4096, 4097, 20000}
