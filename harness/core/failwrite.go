package core

import (
	"bytes"
	"errors"
	"fmt"
	"io"
)

// failingWriter accepts limit bytes, then errors (a disk that fills up, a connection that drops).
type failingWriter struct{ left int }

var errSink = errors.New("verif: sink refuses further bytes")

func (w *failingWriter) Write(p []byte) (int, error) {
	if len(p) <= w.left {
		w.left -= len(p)
		return len(p), nil
	}
	n := w.left
	w.left = 0
	return n, errSink
}

// AfterFailedWrite: a writer entry point is a function of the model it is handed — also right after
// an earlier call failed.  For every limit, item 0 is written to a sink that errors after `limit`
// bytes (whatever that call returns), then item 1 is written to a healthy buffer: the bytes must be
// those item 1 produced before any failure happened.  Returns "" or what differed.
func AfterFailedWrite(limits []int, write func(item int, w io.Writer) error) string {
	var ref bytes.Buffer
	if err := write(1, &ref); err != nil {
		return "" // the model cannot be written at all: nothing to compare
	}
	for _, lim := range limits {
		var msg string
		if o := Guard(func() { _ = write(0, &failingWriter{left: lim}) }); o.Crash() {
			return fmt.Sprintf("writing to a sink that errors after %d bytes crashed: %s", lim, o.Msg)
		}
		var got bytes.Buffer
		var err error
		if o := Guard(func() { err = write(1, &got) }); o.Panicked {
			msg = "panicked: " + o.Msg
		} else if err != nil {
			msg = "failed: " + err.Error()
		} else if !bytes.Equal(got.Bytes(), ref.Bytes()) {
			msg = fmt.Sprintf("produced %d bytes, before the failure the same model produced %d (or other content)", got.Len(), ref.Len())
		}
		if msg != "" {
			return fmt.Sprintf("after a write to a sink that errors after %d bytes, the next write of another model %s", lim, msg)
		}
	}
	return ""
}

// FailLimits: sink capacities around record and block sizes.
var FailLimits = []int{0, 1, 16, 31, 32, 33, 64, 100, 500, 4095, 4096, 4097, 20000}

// AfterFailedRead: a reader entry point is a function of the bytes it is handed — also right after an
// earlier call failed half-way (a pooled table, a cached header, a scratch buffer left in the state
// the failure found it in).  For every bad input, the bad input is decoded (whatever that returns),
// then the good input is decoded: its digest must be the one it had before any failure happened.
// read returns a digest of everything the decode reported (and the error, which is part of it).
func AfterFailedRead(bad [][]byte, good []byte, read func(data []byte) (string, error)) string {
	var ref string
	var refErr error
	if o := Guard(func() { ref, refErr = read(good) }); o.Crash() || refErr != nil {
		return "" // the good input does not decode at all: nothing to compare
	}
	for i, b := range bad {
		if o := Guard(func() { _, _ = read(b) }); o.Crash() && !o.Panicked {
			return fmt.Sprintf("decoding bad input %d (%d bytes) crashed: %s", i, len(b), o.Msg)
		}
		var got string
		var err error
		msg := ""
		if o := Guard(func() { got, err = read(good) }); o.Panicked {
			msg = "panicked: " + o.Msg
		} else if err != nil {
			msg = "failed: " + err.Error()
		} else if got != ref {
			msg = "decoded to other data than before the failure"
		}
		if msg != "" {
			return fmt.Sprintf("after decoding bad input %d (%d of its bytes, then damage), the next decode of a good input %s", i, len(b), msg)
		}
	}
	return ""
}

// BadInputs: damaged forms of a well-formed input: cut at up to `cuts` positions spread over the
// whole input (every position when it is short), and — at the same positions — one byte replaced by
// a byte that belongs to no number and no keyword, the rest kept.
func BadInputs(data []byte, cuts int) (out [][]byte) {
	n := len(data)
	step := 1
	if n > cuts {
		step = n / cuts
	}
	for p := 0; p < n; p += step {
		out = append(out, append([]byte{}, data[:p]...))
		d := append([]byte{}, data...)
		d[p] = '@'
		out = append(out, d)
	}
	return out
}
