// Package core is the shared bookkeeping of every bounded-exhaustive check:
// sharding, coverage counters, distinct-case accounting, violation grouping,
// samples and the per-shard result file the driver merges into evidence.
package core

import (
	"encoding/binary"
	"encoding/json"
	"fmt"
	"hash/fnv"
	"os"
	"runtime"
	"runtime/debug"
	"sort"
	"strings"
	"time"
)

// Violation is one failed oracle clause on one case. (Site, Clause, Class)
// is the identity used to match known findings; Case must be enough to replay.
type Violation struct {
	Site   string `json:"site"`
	Clause string `json:"clause"`
	Class  string `json:"class"`
	Detail string `json:"detail"`
	Case   any    `json:"case"`
	// Procs > 0: the case ran (and replays) with the process limited to that many processors
	Procs int `json:"procs,omitempty"`
}

// WithProcs runs f with the process limited to n processors (runtime.GOMAXPROCS); violations raised
// inside carry n, and the replayer restores it. The processor count is part of the environment a
// library call runs in: code that splits its work by it behaves differently for each value.
func (c *Ctx) WithProcs(n int, f func()) {
	old := runtime.GOMAXPROCS(n)
	prev := c.procs
	c.procs = n
	defer func() {
		c.procs = prev
		runtime.GOMAXPROCS(old)
	}()
	f()
}

func (v Violation) Key() string { return v.Site + " | " + v.Clause + " | " + v.Class }

type VGroup struct {
	Site   string      `json:"site"`
	Clause string      `json:"clause"`
	Class  string      `json:"class"`
	Count  int64       `json:"count"`
	First  []Violation `json:"first"`
}

type Scope struct {
	Evaluations int64            `json:"evaluations"`
	Outcomes    map[string]int64 `json:"outcomes,omitempty"`
	Alarmed     bool             `json:"alarmed"`
	Note        string           `json:"note,omitempty"`
}

type Result struct {
	Property    string             `json:"property"`
	Tier        string             `json:"tier"`
	Shard       int                `json:"shard"`
	NShards     int                `json:"nshards"`
	Evaluations int64              `json:"evaluations"`
	States      int64              `json:"states"`
	Transitions int64              `json:"transitions"`
	Traces      int64              `json:"traces"`
	Distinct    int64              `json:"distinct_local"`
	Scopes      map[string]*Scope  `json:"scopes"`
	Violations  map[string]*VGroup `json:"violations"`
	Samples     []any              `json:"samples"`
	Caps        []string           `json:"caps"`
	Bounds      map[string]any     `json:"bounds"`
	Exhaustive  bool               `json:"exhaustive"`
	HarnessErr  []string           `json:"harness_errors"`
	WallS       float64            `json:"wall_s"`
}

type Ctx struct {
	Property string
	Tier     string
	Shard    int
	NShards  int
	Seed     int64
	Deadline time.Time
	Replay   json.RawMessage
	Args     map[string]string
	procs    int // processors the current case is limited to (0: the job's default)

	R        *Result
	hashes   map[uint64]struct{}
	sampleN  map[string]int
	start    time.Time
	counter  int64
	expired  bool
	tickSkip int
}

func NewCtx(prop, tier string, shard, n int, seed int64, budget time.Duration) *Ctx {
	c := &Ctx{Property: prop, Tier: tier, Shard: shard, NShards: n, Seed: seed, Args: map[string]string{}}
	c.start = time.Now()
	if budget > 0 {
		c.Deadline = c.start.Add(budget)
	}
	c.R = &Result{Property: prop, Tier: tier, Shard: shard, NShards: n, Scopes: map[string]*Scope{},
		Violations: map[string]*VGroup{}, Bounds: map[string]any{}, Exhaustive: true}
	c.hashes = map[uint64]struct{}{}
	c.sampleN = map[string]int{}
	return c
}

func (c *Ctx) Thorough() bool  { return c.Tier == "thorough" }
func (c *Ctx) Replaying() bool { return len(c.Replay) > 0 }

// Mine reports whether top-level enumeration index i belongs to this shard.
func (c *Ctx) Mine(i int) bool {
	if c.NShards <= 1 {
		return true
	}
	return i%c.NShards == c.Shard
}

// Next hands out a running index and says whether it is this shard's.
func (c *Ctx) Next() bool { i := c.counter; c.counter++; return c.Mine(int(i)) }

// Expired is the internal deadline: an expired run reports exhaustive:false and the cap.
// It is a budget for the harness, never an oracle.
func (c *Ctx) Expired() bool {
	if c.expired {
		return true
	}
	if c.Deadline.IsZero() {
		return false
	}
	c.tickSkip++
	if c.tickSkip&0xff != 0 {
		return false
	}
	if time.Now().After(c.Deadline) {
		c.expired = true
	}
	return c.expired
}

func (c *Ctx) Cap(format string, a ...any) {
	s := fmt.Sprintf(format, a...)
	for _, x := range c.R.Caps {
		if x == s {
			return
		}
	}
	c.R.Caps = append(c.R.Caps, s)
	c.R.Exhaustive = false
}

func (c *Ctx) HarnessError(format string, a ...any) {
	if len(c.R.HarnessErr) < 20 {
		c.R.HarnessErr = append(c.R.HarnessErr, fmt.Sprintf(format, a...))
	}
	c.R.Exhaustive = false
}

func (c *Ctx) scope(name string) *Scope {
	s := c.R.Scopes[name]
	if s == nil {
		s = &Scope{Outcomes: map[string]int64{}, Alarmed: true}
		c.R.Scopes[name] = s
	}
	return s
}

// Eval counts one executed case in a scope with its observed outcome label.
func (c *Ctx) Eval(scope, outcome string) {
	c.R.Evaluations++
	s := c.scope(scope)
	s.Evaluations++
	if outcome != "" {
		s.Outcomes[outcome]++
	}
}

// ReportedOnly marks a scope as run-and-reported (outside the alarmed scope).
func (c *Ctx) ReportedOnly(scope, note string) {
	s := c.scope(scope)
	s.Alarmed = false
	s.Note = note
}

func (c *Ctx) Note(scope, note string) { c.scope(scope).Note = note }

func Hash(parts ...any) uint64 {
	h := fnv.New64a()
	for _, p := range parts {
		switch v := p.(type) {
		case string:
			h.Write([]byte(v))
		case []byte:
			h.Write(v)
		case uint64:
			var b [8]byte
			binary.LittleEndian.PutUint64(b[:], v)
			h.Write(b[:])
		case int:
			var b [8]byte
			binary.LittleEndian.PutUint64(b[:], uint64(v))
			h.Write(b[:])
		default:
			fmt.Fprint(h, v)
		}
		h.Write([]byte{0xff})
	}
	return h.Sum64()
}

// Nontrivial registers a case that is non-trivial by the property's stated rule;
// distinctness is by the hash of the given key parts (exact union across shards
// is computed by the driver from the dumped hash files).
func (c *Ctx) Nontrivial(parts ...any) { c.hashes[Hash(parts...)] = struct{}{} }
func (c *Ctx) NontrivialHash(h uint64) { c.hashes[h] = struct{}{} }

func (c *Ctx) State()      { c.R.States++ }
func (c *Ctx) Transition() { c.R.Transitions++ }
func (c *Ctx) Trace()      { c.R.Traces++ }

// Sample keeps the first k cases of each scope, written out.
func (c *Ctx) Sample(scope string, v any) {
	if c.sampleN[scope] >= 2 {
		return
	}
	c.sampleN[scope]++
	v = JSONSafe(v)
	// a sample shows what a case looks like; a ladder case with 50 000 records is shown by its head
	if b, err := json.Marshal(v); err == nil && len(b) > 3000 {
		v = string(b[:3000]) + "… (truncated, " + fmt.Sprint(len(b)) + " bytes)"
	}
	c.R.Samples = append(c.R.Samples, map[string]any{"scope": scope, "case": v})
}

func (c *Ctx) Violate(v Violation) {
	k := v.Key()
	g := c.R.Violations[k]
	if g == nil {
		g = &VGroup{Site: v.Site, Clause: v.Clause, Class: v.Class}
		c.R.Violations[k] = g
	}
	g.Count++
	if len(g.First) < 3 {
		v.Case = JSONSafe(v.Case)
		v.Procs = c.procs
		if len(v.Detail) > 2000 {
			v.Detail = v.Detail[:2000] + "…"
		}
		g.First = append(g.First, v)
	}
}

func (c *Ctx) Bound(name string, v any) { c.R.Bounds[name] = v }

// Finish writes the shard result and the sorted distinct-hash dump.
func (c *Ctx) Finish(out string) error {
	c.R.WallS = time.Since(c.start).Seconds()
	c.R.Distinct = int64(len(c.hashes))
	if c.expired {
		c.Cap("internal deadline reached after %.0fs", c.R.WallS)
	}
	if out == "" {
		b, _ := json.MarshalIndent(c.R, "", " ")
		fmt.Println(string(b))
		return nil
	}
	hs := make([]uint64, 0, len(c.hashes))
	for h := range c.hashes {
		hs = append(hs, h)
	}
	sort.Slice(hs, func(i, j int) bool { return hs[i] < hs[j] })
	buf := make([]byte, 8*len(hs))
	for i, h := range hs {
		binary.LittleEndian.PutUint64(buf[8*i:], h)
	}
	if err := os.WriteFile(out+".hashes", buf, 0o644); err != nil {
		return err
	}
	b, err := json.Marshal(c.R)
	if err != nil {
		return err
	}
	return os.WriteFile(out, b, 0o644)
}

// Outcome of running library code under Guard.
type Outcome struct {
	Panicked bool
	Runtime  bool // runtime.Error (index out of range, nil deref, …): a crash
	Reported bool // panic(error|string) raised by an explicit library check: a reported failure
	Msg      string
	Stack    string
}

func (o Outcome) Crash() bool { return o.Panicked && o.Runtime }

// Guard runs f and classifies a panic. A runtime.Error is a crash; any other panic value is an
// explicit, reported failure (G1).
func Guard(f func()) (o Outcome) {
	defer func() {
		if r := recover(); r != nil {
			o.Panicked = true
			o.Msg = fmt.Sprint(r)
			if _, ok := r.(interface{ RuntimeError() }); ok {
				o.Runtime = true
				o.Stack = TrimStack(string(debug.Stack()))
			} else {
				o.Reported = true
			}
		}
	}()
	f()
	return
}

// TrimStack keeps the polyform frames of a stack trace (used for the violation site).
func TrimStack(s string) string {
	var out []string
	lines := strings.Split(s, "\n")
	for i := 0; i+1 < len(lines); i++ {
		if strings.Contains(lines[i], "EliCDavis/polyform") && strings.HasPrefix(lines[i+1], "\t") {
			loc := strings.TrimSpace(lines[i+1])
			if j := strings.Index(loc, " +0x"); j > 0 {
				loc = loc[:j]
			}
			fn := lines[i]
			if j := strings.LastIndex(fn, "("); j > 0 {
				fn = fn[:j]
			}
			fn = strings.TrimPrefix(fn, "github.com/EliCDavis/polyform/")
			_ = loc
			out = append(out, fn)
			if len(out) >= 4 {
				break
			}
		}
	}
	return strings.Join(out, " <- ")
}

// TopFrame returns the innermost polyform function of a trimmed stack (stable across line edits).
func TopFrame(trimmed string) string {
	if i := strings.Index(trimmed, " <- "); i >= 0 {
		return trimmed[:i]
	}
	return trimmed
}

// JSONSafe returns v if it marshals, else its %+v rendering (NaN/Inf are not JSON).
func JSONSafe(v any) any {
	if _, err := json.Marshal(v); err != nil {
		return fmt.Sprintf("%+v", v)
	}
	return v
}
