package core

import (
	"fmt"
	"os"
	"path/filepath"
)

// SaveOver runs save(path, 0), save(path, 1), … for the given sequence of item ids against one path
// in a fresh scratch directory (under /dev/shm when present) and returns what the path holds in the
// end.  A file-system entry point writes "the model", not "the model over whatever the path held
// before": the bytes must be those of an in-memory write of the last item.
func SaveOver(ext string, seq []int, save func(path string, item int) error) ([]byte, error) {
	base := ""
	if st, err := os.Stat("/dev/shm"); err == nil && st.IsDir() {
		base = "/dev/shm"
	}
	dir, err := os.MkdirTemp(base, "verif-saveover-*")
	if err != nil {
		return nil, fmt.Errorf("scratch dir: %w", err)
	}
	defer os.RemoveAll(dir)
	path := filepath.Join(dir, "model"+ext)
	for _, it := range seq {
		if err := save(path, it); err != nil {
			return nil, fmt.Errorf("save of item %d: %w", it, err)
		}
	}
	return os.ReadFile(path)
}

// SaveSequences: every sequence of 1..3 items over n.
func SaveSequences(n int) (out [][]int) {
	var rec func(seq []int)
	rec = func(seq []int) {
		if len(seq) > 0 {
			out = append(out, append([]int{}, seq...))
		}
		if len(seq) == 3 {
			return
		}
		for i := 0; i < n; i++ {
			rec(append(append([]int{}, seq...), i))
		}
	}
	rec(nil)
	return
}

// LoadAfterReplace: a Load(path) entry point is a function of the bytes the file holds now — not of
// what the same path held when it was loaded before.  For every ordered pair (a, b) of the given
// files: a is written to a path and loaded; the file is replaced by b — same path, and (when their
// sizes agree, as the menu arranges for some pairs) the same size — and its modification time is set
// back to what it was (cp -p, rsync -t, archive extraction, two exports within one tick of a coarse
// clock); the path is loaded again and must give what b gives at a path never seen before.
// load returns a digest of everything the decode reported.  Returns "" or what differed.
func LoadAfterReplace(ext string, files [][]byte, load func(path string) (string, error)) string {
	base := ""
	if st, err := os.Stat("/dev/shm"); err == nil && st.IsDir() {
		base = "/dev/shm"
	}
	dir, err := os.MkdirTemp(base, "verif-replace-*")
	if err != nil {
		return ""
	}
	defer os.RemoveAll(dir)
	ref := make([]string, len(files))
	for i, f := range files {
		p := filepath.Join(dir, fmt.Sprintf("fresh-%d%s", i, ext))
		if err := os.WriteFile(p, f, 0o644); err != nil {
			return ""
		}
		var d string
		var e error
		if o := Guard(func() { d, e = load(p) }); o.Panicked || e != nil {
			return "" // this file does not load at all: judged elsewhere
		}
		ref[i] = d
	}
	n := 0
	for i := range files {
		for j := range files {
			if i == j {
				continue
			}
			n++
			p := filepath.Join(dir, fmt.Sprintf("model-%d%s", n, ext))
			if err := os.WriteFile(p, files[i], 0o644); err != nil {
				return ""
			}
			st, err := os.Stat(p)
			if err != nil {
				return ""
			}
			Guard(func() { _, _ = load(p) })
			if err := os.WriteFile(p, files[j], 0o644); err != nil {
				return ""
			}
			_ = os.Chtimes(p, st.ModTime(), st.ModTime())
			var d string
			var e error
			o := Guard(func() { d, e = load(p) })
			switch {
			case o.Panicked:
				return fmt.Sprintf("file %d (%d bytes) loaded, replaced in place by file %d (%d bytes, same modification time), loaded again: panic: %s", i, len(files[i]), j, len(files[j]), o.Msg)
			case e != nil:
				return fmt.Sprintf("file %d (%d bytes) loaded, replaced in place by file %d (%d bytes, same modification time), loaded again: error: %v", i, len(files[i]), j, len(files[j]), e)
			case d != ref[j]:
				return fmt.Sprintf("file %d (%d bytes) loaded, replaced in place by file %d (%d bytes, same modification time), loaded again: the result is not what file %d gives at a fresh path", i, len(files[i]), j, len(files[j]), j)
			}
		}
	}
	return ""
}
