package core

import (
	"fmt"
	"os"
	"path/filepath"
)

// SaveOver runs save(path, 0), save(path, 1), … for the given sequence of item ids against one path
// in a fresh scratch directory (under /dev/shm when present) and returns what the path holds in the
// end.  A file-system entry point writes "the model", not "the model over whatever the path held
// before": the bytes must be those of an in-memory write of the last item.
func SaveOver(ext string, seq []int, save func(path string, item int) error) ([]byte, error) {
	base := ""
	if st, err := os.Stat("/dev/shm"); err == nil && st.IsDir() {
		base = "/dev/shm"
	}
	dir, err := os.MkdirTemp(base, "verif-saveover-*")
	if err != nil {
		return nil, fmt.Errorf("scratch dir: %w", err)
	}
	defer os.RemoveAll(dir)
	path := filepath.Join(dir, "model"+ext)
	for _, it := range seq {
		if err := save(path, it); err != nil {
			return nil, fmt.Errorf("save of item %d: %w", it, err)
		}
	}
	return os.ReadFile(path)
}

// SaveSequences: every sequence of 1..3 items over n.
func SaveSequences(n int) (out [][]int) {
	var rec func(seq []int)
	rec = func(seq []int) {
		if len(seq) > 0 {
			out = append(out, append([]int{}, seq...))
		}
		if len(seq) == 3 {
			return
		}
		for i := 0; i < n; i++ {
			rec(append(append([]int{}, seq...), i))
		}
	}
	rec(nil)
	return
}
