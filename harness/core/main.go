// Main runs one shard of one property's explorer (or replays one recorded case).
package core

import (
	"encoding/json"
	"flag"
	"fmt"
	"os"
	"runtime"
	"runtime/debug"
	"strings"
	"time"
)

func Main() {
	if len(os.Args) < 2 {
		fmt.Println("usage: vcheck <id> [-tier quick|thorough] [-shard i/n] [-out f] [-replay f] [-budget s] [-arg k=v]")
		fmt.Println("ids:", IDs())
		os.Exit(2)
	}
	id := os.Args[1]
	if id == "merge-hashes" {
		fmt.Println(MergeHashes(os.Args[2:]))
		return
	}
	fs := flag.NewFlagSet("vcheck", flag.ExitOnError)
	tier := fs.String("tier", "quick", "")
	shard := fs.String("shard", "0/1", "")
	out := fs.String("out", "", "")
	replay := fs.String("replay", "", "")
	budget := fs.Float64("budget", 0, "internal deadline in seconds (0 = none)")
	seed := fs.Int64("seed", 0, "")
	var args multi
	fs.Var(&args, "arg", "k=v")
	fs.Parse(os.Args[2:])
	ch, ok := Lookup(id)
	if !ok {
		fmt.Fprintln(os.Stderr, "unknown check", id, "known:", IDs())
		os.Exit(2)
	}
	var si, sn int
	fmt.Sscanf(*shard, "%d/%d", &si, &sn)
	if sn < 1 {
		sn = 1
	}
	c := NewCtx(id, *tier, si, sn, *seed, time.Duration(*budget*float64(time.Second)))
	for _, a := range args {
		if i := strings.Index(a, "="); i > 0 {
			c.Args[a[:i]] = a[i+1:]
		}
	}
	if *replay == "" && *budget > 0 && *out != "" {
		// Last resort against a library call that never returns (seen with changes that break a
		// termination argument): shortly before the driver would kill this worker — and lose every
		// violation it has already recorded — the results so far are written out. The stuck
		// goroutine sits in library code and does not touch the result any more.
		go func() {
			time.Sleep(time.Duration((*budget*1.5 + 60) * float64(time.Second)))
			c.Cap("a case did not return: results up to it written by the worker's watchdog %.0fs after the start", *budget*1.5+60)
			if err := c.Finish(*out); err != nil {
				fmt.Fprintln(os.Stderr, err)
			}
			os.Exit(0)
		}()
	}
	if *replay != "" {
		b, err := os.ReadFile(*replay)
		if err != nil {
			fmt.Fprintln(os.Stderr, err)
			os.Exit(2)
		}
		var doc struct {
			Case  json.RawMessage `json:"case"`
			Procs int             `json:"procs"`
		}
		if json.Unmarshal(b, &doc) != nil || len(doc.Case) == 0 {
			fmt.Fprintln(os.Stderr, "replay file has no case")
			os.Exit(2)
		}
		c.Replay = doc.Case
		if doc.Procs > 0 {
			runtime.GOMAXPROCS(doc.Procs)
		}
		if ch.Replay == nil {
			fmt.Fprintln(os.Stderr, "check has no replayer")
			os.Exit(2)
		}
		ch.Replay(c)
	} else {
		runGuarded(ch, c)
	}
	if err := c.Finish(*out); err != nil {
		fmt.Fprintln(os.Stderr, err)
		os.Exit(2)
	}
}

type multi []string

func (m *multi) String() string     { return strings.Join(*m, ",") }
func (m *multi) Set(s string) error { *m = append(*m, s); return nil }

// runGuarded is the safety net under every explorer: a panic that escapes it is attributed — to the
// library when library frames are on the stack (a crash on an input inside the explored scope; the
// driver reproduces it by re-running the deterministic shard), to the harness otherwise. Either way
// the shard still writes its (partial) result.
func runGuarded(ch Check, c *Ctx) {
	defer func() {
		r := recover()
		if r == nil {
			return
		}
		stack := TrimStack(string(debug.Stack()))
		var frames []string
		for _, f := range strings.Split(stack, " <- ") {
			if f != "" && !strings.HasPrefix(f, "verifrt/") {
				frames = append(frames, f)
			}
		}
		if len(frames) > 0 {
			c.Violate(Violation{Site: frames[0], Clause: "the library does not crash on an input inside the explored scope",
				Class: "uncaught-panic", Detail: fmt.Sprintf("%v @ %s", r, strings.Join(frames, " <- "))})
		} else {
			c.HarnessError("explorer panicked: %v", r)
		}
		c.Cap("explorer aborted by a panic")
	}()
	ch.Run(c)
}
