package core

import (
	"bufio"
	"encoding/binary"
	"io"
	"os"
)

// MergeHashes counts the distinct values over several sorted uint64 dumps (k-way merge).
func MergeHashes(files []string) int64 {
	type src struct {
		r   *bufio.Reader
		cur uint64
		ok  bool
	}
	var ss []*src
	next := func(s *src) {
		var b [8]byte
		if _, err := io.ReadFull(s.r, b[:]); err != nil {
			s.ok = false
			return
		}
		s.cur, s.ok = binary.LittleEndian.Uint64(b[:]), true
	}
	for _, f := range files {
		fh, err := os.Open(f)
		if err != nil {
			continue
		}
		defer fh.Close()
		s := &src{r: bufio.NewReaderSize(fh, 1<<20)}
		next(s)
		if s.ok {
			ss = append(ss, s)
		}
	}
	var n int64
	var last uint64
	first := true
	for len(ss) > 0 {
		mi := 0
		for i, s := range ss {
			if s.cur < ss[mi].cur {
				mi = i
			}
		}
		v := ss[mi].cur
		if first || v != last {
			n++
			last, first = v, false
		}
		next(ss[mi])
		if !ss[mi].ok {
			ss = append(ss[:mi], ss[mi+1:]...)
		}
	}
	return n
}
