package core

import "math"

// Float32Ladder returns the bit patterns of a fixed ladder of finite float32 values, simplest first,
// each followed by its negation: both zeros, ordinary decimals, the borders of the integer widths
// (2^24, 2^31, 2^32, 2^53, 2^63, 2^64), decimal powers 1e-45..3e38 and every binade 2^-149..2^127 at
// ×1, ×1.5, ×(1+ulp) and ×(2−ulp) (subnormals included).  The value dimension of the text and binary
// codecs is enumerated over this ladder: number formatting and parsing have value-dependent paths
// (exponent notation, integer fast paths, half/quantised encodings) that a handful of ordinary
// coordinates never reaches.
func Float32Ladder() []uint32 {
	seen := map[uint32]bool{}
	var out []uint32
	add := func(f float64) {
		g := float32(f)
		if math.IsInf(float64(g), 0) || math.IsNaN(float64(g)) {
			return
		}
		for _, b := range []uint32{math.Float32bits(g), math.Float32bits(-g)} {
			if !seen[b] {
				seen[b] = true
				out = append(out, b)
			}
		}
	}
	for _, f := range []float64{0, 1, 0.5, 0.1, 1.0 / 3, 2, 10, 100, 255, 256, 1000, 65535, 65536, 123456.789, 1e6, 16777215, 16777216, 16777218,
		2147483520, 2147483648, 4294967040, 4294967296, 9007199254740992, 9223371487098961920, 9223372036854775808, 9.3e18,
		18446742974197923840, 18446744073709551616, 1e19, 3e20, 1e30, math.MaxFloat32, 1.1754943508222875e-38, math.SmallestNonzeroFloat32} {
		add(f)
	}
	for k := -45; k <= 38; k++ {
		add(math.Pow(10, float64(k)))
		add(3 * math.Pow(10, float64(k)))
	}
	for e := -149; e <= 127; e++ {
		p := math.Ldexp(1, e)
		add(p)
		add(p * 1.5)
		add(p * (1 + 0x1p-23))
		add(p * (2 - 0x1p-23))
	}
	return out
}

// MagnitudeClass names the magnitude band of a float32 bit pattern (for violation classes).
func MagnitudeClass(b uint32) string {
	f := math.Abs(float64(math.Float32frombits(b)))
	switch {
	case f == 0:
		if b != 0 {
			return "negative-zero"
		}
		return "zero"
	case f < 1.1754943508222875e-38:
		return "subnormal"
	case f < 1e-4:
		return "tiny(<1e-4)"
	case f < 0x1p24:
		return "ordinary(<2^24)"
	case f < 0x1p31:
		return "2^24..2^31"
	case f < 0x1p63:
		return "2^31..2^63"
	case f < 0x1p64:
		return "2^63..2^64"
	default:
		return ">=2^64"
	}
}
