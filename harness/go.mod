module verif/harness

go 1.23

require (
	github.com/EliCDavis/polyform v0.0.0
	github.com/EliCDavis/vector v1.8.0
	github.com/anishathalye/porcupine v1.3.0
)

require (
	github.com/EliCDavis/bitlib v1.2.0 // indirect
	github.com/EliCDavis/iter v1.0.2 // indirect
	github.com/EliCDavis/jbtf v0.2.0 // indirect
	github.com/EliCDavis/sfm v1.2.0 // indirect
	github.com/fogleman/gg v1.3.0 // indirect
	github.com/golang/freetype v0.0.0-20170609003504-e2365dfdc4a0 // indirect
	github.com/gorilla/websocket v1.5.3 // indirect
	golang.org/x/image v0.18.0 // indirect
)

replace github.com/EliCDavis/polyform => /repo
