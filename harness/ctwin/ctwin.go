// Package ctwin: "concurrent twin" scenarios for families of calls whose result is a function of
// their arguments (generators, queries on an immutable index, codecs).  A property stated "for every
// parameter choice / input" is relied upon by callers in several goroutines at once; a change that
// routes such a call through package-level or otherwise shared mutable state (a re-used scratch
// buffer, a memo table, a lock released early) keeps every sequential test green.
//
// Each scenario runs two calls A ∥ B (each twice in its thread, so that state left by the first call
// is re-used by the second) on the real code under the controlled scheduler: every interleaving at
// the instrumented synchronisation operations up to the preemption bound, ThreadSanitizer attributed
// per schedule (the scheduler's hand-offs are hidden from it, so two calls that touch the same
// memory without synchronisation are reported on the very first schedule).  Oracle: every result
// equals the result of the same call made alone.
package ctwin

import (
	"encoding/json"
	"fmt"

	"github.com/EliCDavis/polyform/verifrt/vsched"

	"verif/harness/core"
	"verif/harness/schedlib"
)

// Thunk is one call with fixed arguments; Run returns a digest of everything the caller can observe.
type Thunk struct {
	Name string
	Run  func() uint64
}

// Family: calls of one entry point (or of entry points sharing an object) with different arguments.
type Family struct {
	Name   string
	Site   string
	Thunks []Thunk
	// Pairs, when non-nil, lists the pairs (i, j) of thunks to run side by side; nil = every i < j.
	Pairs [][2]int
	// Bounds, when non-nil, replaces the preemption bounds (calls with thousands of scheduling points
	// of their own are explored without preemption: both orders, ThreadSanitizer on each).
	Bounds []int
}

func (f Family) pairs() [][2]int {
	if f.Pairs != nil {
		return f.Pairs
	}
	var out [][2]int
	for i := range f.Thunks {
		for j := i + 1; j < len(f.Thunks); j++ {
			out = append(out, [2]int{i, j})
		}
	}
	return out
}

// Scn is the replay description of one scenario.
type Scn struct {
	Family string `json:"family"`
	I      int    `json:"i"`
	J      int    `json:"j"`
}

const Clause = "the result of a call equals the result of the same call made alone, whatever other calls run concurrently in other goroutines"

func scenario(f Family, i, j int, ref []uint64, bounds []int) schedlib.Scenario {
	a, b := f.Thunks[i], f.Thunks[j]
	return schedlib.Scenario{
		Name: fmt.Sprintf("%s: %s || %s", f.Name, a.Name, b.Name), Scope: f.Name, Bounds: bounds, MaxPoints: 20000,
		Case: Scn{f.Name, i, j}, Site: f.Site, Whole: true,
		Make: func() (func(), func(vsched.Exec) (string, *core.Violation)) {
			var got [2][2]uint64
			var done [2][2]bool
			body := func(t int, th Thunk) func() {
				return func() {
					for r := 0; r < 2; r++ {
						got[t][r] = th.Run()
						done[t][r] = true
					}
				}
			}
			root := func() {
				vsched.Go0(body(0, a))
				vsched.Go0(body(1, b))
			}
			oracle := func(x vsched.Exec) (string, *core.Violation) {
				want := [2]uint64{ref[i], ref[j]}
				names := [2]string{a.Name, b.Name}
				for t := 0; t < 2; t++ {
					for r := 0; r < 2; r++ {
						if !done[t][r] {
							return "incomplete", &core.Violation{Site: f.Site, Clause: "every call returns", Class: f.Name + "/incomplete", Detail: names[t]}
						}
						if got[t][r] != want[t] {
							return "interference", &core.Violation{Site: f.Site, Clause: Clause, Class: f.Name + "/interference",
								Detail: fmt.Sprintf("%s (call %d of its goroutine) running beside %s returned digest %x, alone it returns %x", names[t], r+1, names[1-t], got[t][r], want[t])}
						}
					}
				}
				return "equal", nil
			}
			return root, oracle
		},
	}
}

// references runs every thunk alone (outside the scheduler), twice; a thunk that does not reproduce
// its own result sequentially cannot be judged and is reported.
func references(c *core.Ctx, f Family) ([]uint64, bool) {
	ref := make([]uint64, len(f.Thunks))
	for i, t := range f.Thunks {
		var r1, r2 uint64
		o := core.Guard(func() { r1 = t.Run(); r2 = t.Run() })
		if o.Panicked {
			c.HarnessError("ctwin %s: %s panics when run alone: %s", f.Name, t.Name, o.Msg)
			return nil, false
		}
		if r1 != r2 {
			c.HarnessError("ctwin %s: %s does not reproduce its own result sequentially", f.Name, t.Name)
			return nil, false
		}
		ref[i] = r1
	}
	return ref, true
}

// Run explores every unordered pair of distinct thunks of every family.
func Run(c *core.Ctx, fams []Family) {
	rl := schedlib.NewRaceLog()
	c.Bound("race_detector_attribution", rl.On)
	if err := schedlib.SelfTest(rl); err != "" {
		c.HarnessError("scheduler self-test failed: %s", err)
		return
	}
	bounds := []int{0, 1, 2}
	if c.Thorough() {
		bounds = []int{0, 1, 2, 3}
	}
	idx := 0
	pairs := 0
	for _, f := range fams {
		var ref []uint64
		for _, pr := range f.pairs() {
			i, j := pr[0], pr[1]
			idx++
			pairs++
			if !c.Mine(idx) {
				continue
			}
			if c.Expired() {
				return
			}
			if ref == nil {
				var ok bool
				if ref, ok = references(c, f); !ok {
					return
				}
				rl.New() // whatever the sequential runs printed is not attributed to a schedule
			}
			bs := bounds
			if f.Bounds != nil {
				bs = f.Bounds
			}
			schedlib.Explore(c, rl, scenario(f, i, j, ref, bs))
		}
	}
	c.Bound("concurrent_twins", fmt.Sprintf("%d families, %d pairs of calls (each call twice per goroutine), preemption bounds %v", len(fams), pairs, bounds))
}

// Replay re-executes one recorded schedule.
func Replay(c *core.Ctx, fams []Family) {
	var rc struct {
		Scenario Scn   `json:"scenario"`
		Choices  []int `json:"choices"`
		Bound    int   `json:"bound"`
	}
	if err := json.Unmarshal(c.Replay, &rc); err != nil {
		c.HarnessError("bad case: %v", err)
		return
	}
	for _, f := range fams {
		if f.Name != rc.Scenario.Family {
			continue
		}
		if rc.Scenario.I >= len(f.Thunks) || rc.Scenario.J >= len(f.Thunks) {
			break
		}
		ref, ok := references(c, f)
		if !ok {
			return
		}
		rl := schedlib.NewRaceLog()
		rl.New()
		schedlib.Replay(c, rl, scenario(f, rc.Scenario.I, rc.Scenario.J, ref, nil), rc.Choices, rc.Bound)
		return
	}
	c.HarnessError("ctwin: unknown scenario %+v", rc.Scenario)
}
