// Package mapord makes Go map iteration order an owned, enumerated environment choice (DESIGN §3.4).
// It only works in binaries built with the runtime overlay of tools/goroot-overlay (variant maprt-*,
// or sched builds with the pin option); the linknamed variables live in package runtime.
package mapord

import (
	_ "unsafe"
)

//go:linkname verifMapOn runtime.verifMapOn
var verifMapOn bool

//go:linkname verifMapIdx runtime.verifMapIdx
var verifMapIdx int

//go:linkname verifMapSeq runtime.verifMapSeq
var verifMapSeq [8192]uint8

//go:linkname verifMapCnt runtime.verifMapCnt
var verifMapCnt [8192]int32

//go:linkname verifMapB runtime.verifMapB
var verifMapB [8192]uint8

const Table = 8192

// Deviation: iteration number At starts at seed Seed instead of 0.
type Deviation struct {
	At   int   `json:"at"`
	Seed uint8 `json:"seed"`
}

var lastSet []int

// Begin switches the seam on: iteration k starts at position 0 unless a deviation names k.
func Begin(devs []Deviation) {
	for _, i := range lastSet {
		verifMapSeq[i] = 0
	}
	lastSet = lastSet[:0]
	for _, d := range devs {
		if d.At >= 0 && d.At < Table {
			verifMapSeq[d.At] = d.Seed
			lastSet = append(lastSet, d.At)
		}
	}
	verifMapIdx = 0
	verifMapOn = true
}

// Iter describes one logged map iteration.
type Iter struct {
	Count int // elements in the map when the iteration started
	B     int // log2 of the number of buckets
}

// Alternatives returns the seeds (other than 0) that can produce a different order for this
// iteration: none for maps with fewer than 2 elements, else every (start bucket, in-bucket offset)
// pair — 8·2^B − 1 of them (explored for B ≤ 2).
func (it Iter) Alternatives() []uint8 {
	if it.Count < 2 {
		return nil
	}
	n := 8 << it.B
	if n > 32 {
		n = 32
	}
	out := make([]uint8, 0, n-1)
	for s := 1; s < n; s++ {
		out = append(out, uint8(s))
	}
	return out
}

// End switches the seam off and returns the iterations logged since Begin (capped at Table).
func End() (iters []Iter, overflow bool) {
	verifMapOn = false
	n := verifMapIdx
	if n > Table {
		n, overflow = Table, true
	}
	iters = make([]Iter, n)
	for i := 0; i < n; i++ {
		iters[i] = Iter{int(verifMapCnt[i]), int(verifMapB[i])}
	}
	return
}

// Pause / Resume suspend the seam around harness code that itself ranges over maps.
func Pause() int   { verifMapOn = false; return verifMapIdx }
func Resume()      { verifMapOn = true }
func Count() int   { return verifMapIdx }
func Active() bool { return verifMapOn }

// Pin keeps every iteration at position 0 for the rest of the process (used to make other
// explorers deterministic); nothing is logged beyond the table.
func Pin() {
	Begin(nil)
}

// CompactAlternatives is Alternatives for maps known to be freshly built without deletions (their
// n ≤ 8 elements occupy slots 0..n-1 of the single bucket): only in-bucket offsets 1..n-1 give a
// different order; larger offsets start on empty slots and wrap to the default order.
func (it Iter) CompactAlternatives() []uint8 {
	if it.B > 0 {
		return it.Alternatives()
	}
	if it.Count < 2 {
		return nil
	}
	out := make([]uint8, 0, it.Count-1)
	for s := 1; s < it.Count && s < 8; s++ {
		out = append(out, uint8(s))
	}
	return out
}
