// Package c11m: node outputs are never stale and nodes recompute only when an input changed
// (DESIGN §4 C11). Every history over an alphabet of parameter updates, reads of arbitrary nodes and
// re-wirings is executed on the real nodes.Struct / parameter.Value / nodes.Value code and compared,
// after every transition, with a from-scratch reference evaluation and a dirty-set model; each
// history is additionally executed under every single (thorough: also every pair of) deviation of
// Go map iteration order, which this build owns through the runtime overlay (DESIGN §3.4).
package c11m

import (
	"flag"
	"encoding/json"
	"fmt"
	"strings"

	"github.com/EliCDavis/polyform/generator/parameter"
	"github.com/EliCDavis/polyform/nodes"

	"verif/harness/core"
	"verif/harness/mapord"
)

func init() { core.Register(core.Check{ID: "C11m", Run: run, Replay: replay}) }

// ---- harness processors (each counts its executions) ----

var execs [16]int

type Un struct {
	ID int
	In nodes.NodeOutput[string]
}

// A processor fails (returns an error and the empty value) when its input mentions "boom": a failed
// node is a node like any other for the property — it has executed, and nothing below it may
// execute again until something changes.
func (d Un) Process() (string, error) {
	execs[d.ID]++
	in := nodes.TryGetOutputValue(d.In, "-")
	if strings.Contains(in, "boom") {
		return "", fmt.Errorf("u%d: cannot process %q", d.ID, in)
	}
	return fmt.Sprintf("u%d(%s)", d.ID, in), nil
}

// Len consumes a file parameter (parameter.File keeps a version counter of its own).
type Len struct {
	ID int
	In nodes.NodeOutput[[]byte]
}

func (d Len) Process() (string, error) {
	execs[d.ID]++
	return fmt.Sprintf("l%d(%s)", d.ID, nodes.TryGetOutputValue(d.In, nil)), nil
}

type Bin struct {
	ID   int
	X, Y nodes.NodeOutput[string]
}

func (d Bin) Process() (string, error) {
	execs[d.ID]++
	return fmt.Sprintf("b%d(%s,%s)", d.ID, nodes.TryGetOutputValue(d.X, "-"), nodes.TryGetOutputValue(d.Y, "-")), nil
}

type Arr struct {
	ID      int
	Values  []nodes.NodeOutput[string]
	Weights []nodes.NodeOutput[string] // a second array-valued input, after Values in the dependency order
	Extra   nodes.NodeOutput[string]
	Other   nodes.NodeOutput[string]
}

func (d Arr) Process() (string, error) {
	execs[d.ID]++
	var parts []string
	for _, v := range d.Values {
		parts = append(parts, nodes.TryGetOutputValue(v, "-"))
	}
	var ws []string
	for _, v := range d.Weights {
		ws = append(ws, nodes.TryGetOutputValue(v, "-"))
	}
	return fmt.Sprintf("a%d([%s],[%s],%s,%s)", d.ID, strings.Join(parts, ","), strings.Join(ws, ","), nodes.TryGetOutputValue(d.Extra, "-"), nodes.TryGetOutputValue(d.Other, "-")), nil
}

// Sum consumes a slice-typed parameter (its JSON decoding is not atomic: a message can fail after
// the first element).
type Sum struct {
	ID int
	In nodes.NodeOutput[[]int]
}

func (d Sum) Process() (string, error) {
	execs[d.ID]++
	t := 0
	for _, v := range nodes.TryGetOutputValue(d.In, nil) {
		t += v
	}
	return fmt.Sprintf("s%d(%d)", d.ID, t), nil
}

// ---- world: implementation + reference ----
//
//	p (parameter.Value)   q (nodes.Value)
//	A = Un(p)                         chain p → A → C
//	B = Bin(A, q)                     diamond A → {B, C} → D
//	C = Un(A)                         shared sub-graph A feeding B and C
//	D = Arr([B, C], Extra=q, Other=p) fan-in: two scalar inputs and an array input
//	E = Sum(r)                        r: slice-typed parameter.Value[[]int]
//	F = Un(<nothing>)                 a source node with no wired input (can be wired later)
const (
	P = iota
	Q
	R
	Q2 // a twin of q: a distinct nodes.Value with the same initial value (and version)
	FP // a parameter.File
	A
	B
	C
	D
	E
	F
	G // G = Len(file)
	H // H = Un(G): below the file consumer
	N
)

var nodeNames = [N]string{"p", "q", "r", "q2", "file", "A", "B", "C", "D", "E", "F", "G", "H"}

func isParam(n int) bool { return n == P || n == Q || n == R || n == Q2 || n == FP }

type src struct {
	port string
	from int
}

type world struct {
	p    *parameter.Value[string]
	q    *nodes.ValueNode[string]
	q2   *nodes.ValueNode[string]
	r    *parameter.Value[[]int]
	a, c *nodes.Struct[string, Un]
	f    *nodes.Struct[string, Un]
	b    *nodes.Struct[string, Bin]
	d    *nodes.Struct[string, Arr]
	e    *nodes.Struct[string, Sum]
	fp   *parameter.File
	g    *nodes.Struct[string, Len]
	h    *nodes.Struct[string, Un]
	// reference model
	pval    string // the value last applied to p (or what the command line / the default gave it)
	pver    [5]int
	wiring  [N][]src // ordered inputs of struct nodes (array entries in order)
	wver    [N]int   // bumped on every re-wiring of the node
	lastSig [N]string
	// the caller's message buffer: every world but the "fresh" one hands its update messages over in
	// one re-used buffer (a connection's receive buffer), same offset every time — a parameter that
	// decodes its message owns the decoded value, not the bytes it was decoded from
	reuse  bool
	msgbuf [64]byte
}

func (w *world) msg(s string) []byte {
	if !w.reuse || len(s) > len(w.msgbuf) {
		return []byte(s)
	}
	n := copy(w.msgbuf[:], s)
	return w.msgbuf[:n:n]
}

func (w *world) out(n int) nodes.NodeOutput[string] {
	switch n {
	case P:
		return w.p.Out()
	case Q:
		return w.q.Out()
	case Q2:
		return w.q2.Out()
	case A:
		return w.a.Out()
	case B:
		return w.b.Out()
	case C:
		return w.c.Out()
	case D:
		return w.d.Out()
	case E:
		return w.e.Out()
	case F:
		return w.f.Out()
	case G:
		return w.g.Out()
	case H:
		return w.h.Out()
	}
	panic("no such node")
}

func (w *world) node(n int) nodes.Node {
	switch n {
	case A:
		return w.a
	case B:
		return w.b
	case C:
		return w.c
	case D:
		return w.d
	case E:
		return w.e
	case F:
		return w.f
	case G:
		return w.g
	case H:
		return w.h
	}
	panic("no such struct node")
}

var structNodes = []int{A, B, C, D, E, F, G, H}

// build constructs the graph. seed selects a (deliberately non-initial) starting state.
func build(seed string) *world {
	w := &world{reuse: seed != "fresh"}
	w.p = &parameter.Value[string]{Name: "p", DefaultValue: "p0"}
	w.pval = "p0"
	if seed == "flag" {
		// the parameter is bound to a command line flag that was given a non-default value; nothing
		// has been applied to it yet
		w.p.CLI = &parameter.CliConfig[string]{FlagName: "p", Usage: "p"}
		fs := flag.NewFlagSet("c11", flag.ContinueOnError)
		w.p.InitializeForCLI(fs)
		if err := fs.Parse([]string{"-p", "pflag"}); err != nil {
			panic(err)
		}
		w.pval = "pflag"
	}
	w.q = nodes.Value("q0")
	w.q2 = nodes.Value("q0") // deep-equal to q until one of them is set
	w.r = &parameter.Value[[]int]{Name: "r", DefaultValue: []int{1, 2}}
	w.e = &nodes.Struct[string, Sum]{Data: Sum{ID: E, In: w.r.Out()}}
	w.f = &nodes.Struct[string, Un]{Data: Un{ID: F}}
	w.wiring[E] = []src{{"In", R}}
	w.wiring[F] = nil
	w.fp = &parameter.File{Name: "file", DefaultValue: []byte("f0")}
	w.g = &nodes.Struct[string, Len]{Data: Len{ID: G, In: w.fp.Out()}}
	w.h = &nodes.Struct[string, Un]{Data: Un{ID: H, In: w.g.Out()}}
	w.wiring[G] = []src{{"In", FP}}
	w.wiring[H] = []src{{"In", G}}
	w.a = &nodes.Struct[string, Un]{Data: Un{ID: A, In: w.p.Out()}}
	w.b = &nodes.Struct[string, Bin]{Data: Bin{ID: B, X: w.a.Out(), Y: w.q.Out()}}
	w.c = &nodes.Struct[string, Un]{Data: Un{ID: C, In: w.a.Out()}}
	vals := []nodes.NodeOutput[string]{w.b.Out(), w.c.Out()}
	w.wiring[D] = []src{{"V", B}, {"V", C}, {"W", Q2}, {"Extra", Q}, {"Other", P}}
	if seed == "empty-array" {
		vals = nil
		w.wiring[D] = []src{{"W", Q2}, {"Extra", Q}, {"Other", P}}
	}
	w.d = &nodes.Struct[string, Arr]{Data: Arr{ID: D, Values: vals, Weights: []nodes.NodeOutput[string]{w.q2.Out()}, Extra: w.q.Out(), Other: w.p.Out()}}
	w.wiring[A] = []src{{"In", P}}
	w.wiring[B] = []src{{"X", A}, {"Y", Q}}
	w.wiring[C] = []src{{"In", A}}
	return w
}

// eval: reference evaluation of the current graph from scratch.
func (w *world) eval(n int) string {
	get := func(port string) string {
		for _, s := range w.wiring[n] {
			if s.port == port {
				return w.eval(s.from)
			}
		}
		return "-"
	}
	switch n {
	case P:
		return w.pval // the value last applied (initially: the command line's, else the default)
	case Q:
		return w.q.Value()
	case Q2:
		return w.q2.Value()
	case A, C, F, H:
		in := get("In")
		if strings.Contains(in, "boom") {
			return ""
		}
		return fmt.Sprintf("u%d(%s)", n, in)
	case G:
		return fmt.Sprintf("l%d(%s)", n, w.fp.Value())
	case E:
		t := 0
		for _, s := range w.wiring[E] {
			if s.port == "In" {
				for _, v := range w.r.Value() {
					t += v
				}
			}
		}
		return fmt.Sprintf("s%d(%d)", n, t)
	case B:
		return fmt.Sprintf("b%d(%s,%s)", n, get("X"), get("Y"))
	case D:
		var parts []string
		for _, s := range w.wiring[D] {
			if s.port == "V" {
				parts = append(parts, w.eval(s.from))
			}
		}
		var ws []string
		for _, s := range w.wiring[D] {
			if s.port == "W" {
				ws = append(ws, w.eval(s.from))
			}
		}
		return fmt.Sprintf("a%d([%s],[%s],%s,%s)", n, strings.Join(parts, ","), strings.Join(ws, ","), get("Extra"), get("Other"))
	}
	panic("no such node")
}

// sig: everything node n transitively depends on — parameter update counts and wiring versions.
func (w *world) sig(n int) string {
	if isParam(n) {
		return fmt.Sprint("p", w.pver[n])
	}
	var sb strings.Builder
	fmt.Fprint(&sb, "w", w.wver[n], "[")
	for _, in := range w.wiring[n] {
		sb.WriteString(in.port)
		sb.WriteString(w.sig(in.from))
		sb.WriteString(",")
	}
	sb.WriteString("]")
	return sb.String()
}

// dirty: a parameter in n's current transitive closure, or wiring in it, changed since n last executed.
func (w *world) dirty(n int) bool { return w.lastSig[n] == "" || w.lastSig[n] != w.sig(n) }

// ---- operations ----

type Op struct {
	Kind string `json:"kind"` // set | read | wire | arradd | arrdel
	A    int    `json:"a"`
	B    int    `json:"b,omitempty"`
	S    string `json:"s,omitempty"`
}

func (o Op) String() string {
	switch o.Kind {
	case "set":
		return fmt.Sprintf("set(%s,%s)", nodeNames[o.A], o.S)
	case "setbad":
		return fmt.Sprintf("rejected-update(%s,%s)", nodeNames[o.A], o.S)
	case "read":
		return fmt.Sprintf("read(%s)", nodeNames[o.A])
	case "wire":
		return fmt.Sprintf("wire(%s.%s<-%s)", nodeNames[o.A], o.S, nodeNames[o.B])
	case "arradd":
		return fmt.Sprintf("connect(D.Values<-%s)", nodeNames[o.B])
	case "arrdel":
		return "disconnect(D.Values.0)"
	case "arradd2":
		return fmt.Sprintf("connect(D.Weights<-%s)", nodeNames[o.B])
	}
	return o.Kind
}

func alphabet() []Op {
	var o []Op
	for _, n := range []int{A, B, C, D, E, F, H} {
		o = append(o, Op{Kind: "read", A: n})
	}
	for _, p := range []int{P, Q} {
		for _, v := range []string{"1", "2"} {
			o = append(o, Op{Kind: "set", A: p, S: v})
		}
	}
	o = append(o,
		Op{Kind: "wire", A: B, S: "Y", B: P}, Op{Kind: "wire", A: B, S: "Y", B: Q}, // point an input at another producer
		Op{Kind: "wire", A: B, S: "X", B: Q},
		Op{Kind: "wire", A: C, S: "In", B: P}, Op{Kind: "wire", A: C, S: "In", B: A},
		Op{Kind: "wire", A: D, S: "Extra", B: P}, Op{Kind: "wire", A: D, S: "Other", B: A},
		Op{Kind: "arradd", A: D, B: A}, Op{Kind: "arradd", A: D, B: Q}, Op{Kind: "arrdel", A: D},
		Op{Kind: "set", A: R, S: "[3,4]"}, Op{Kind: "set", A: R, S: "[5,6,7]"},
		// a syntactically valid message that is rejected with a type error after its first element
		Op{Kind: "setbad", A: R, S: `[10,"x",30]`},
		Op{Kind: "wire", A: D, S: "Other", B: E}, Op{Kind: "wire", A: C, S: "In", B: F}, Op{Kind: "wire", A: F, S: "In", B: P},
		// re-wiring to a distinct producer that is (still) indistinguishable by value and version
		Op{Kind: "wire", A: B, S: "Y", B: Q2}, Op{Kind: "wire", A: D, S: "Extra", B: Q2}, Op{Kind: "set", A: Q2, S: "1"},
		// a file parameter (own version counter) and a value that makes the processors below p fail
		Op{Kind: "set", A: FP, S: "1"}, Op{Kind: "set", A: FP, S: "22"}, Op{Kind: "set", A: P, S: "boom"},
		// an update that equals the parameter's default, and the element of the second array input re-wired
		Op{Kind: "set", A: P, S: "0"}, Op{Kind: "arradd2", A: D, B: Q},
	)
	return o
}

type Case struct {
	Seed string             `json:"seed"`
	Ops  []Op               `json:"ops"`
	Devs []mapord.Deviation `json:"map_order_deviations,omitempty"`
}

func (cs Case) String() string {
	var parts []string
	for _, o := range cs.Ops {
		parts = append(parts, o.String())
	}
	s := "seed=" + cs.Seed + ": " + strings.Join(parts, "; ")
	if len(cs.Devs) > 0 {
		s += fmt.Sprintf(" [map iteration %v]", cs.Devs)
	}
	return s
}

type problem struct {
	site, clause, class, detail string
	step                        int
}

// apply executes one operation on implementation and reference, returning the oracle's findings.
// enabled=false means the operation is not applicable in this state (history pruned).
func apply(w *world, o Op, step int) (enabled bool, probs []problem) {
	var verBefore [N]int
	for _, n := range structNodes {
		verBefore[n] = w.node(n).Version()
	}
	execs = [16]int{}
	var exp [N]int
	var dirtyBefore [N]bool
	for _, n := range structNodes {
		dirtyBefore[n] = w.dirty(n)
	}
	switch o.Kind {
	case "set":
		switch o.A {
		case P:
			w.p.ApplyMessage(w.msg(fmt.Sprintf("%q", "p"+o.S)))
			w.pval = "p" + o.S
		case Q:
			w.q.Set("q" + o.S)
		case Q2:
			w.q2.Set("q" + o.S)
		case FP:
			if _, err := w.fp.ApplyMessage([]byte("f" + o.S)); err != nil {
				panic(err)
			}
		case R:
			if _, err := w.r.ApplyMessage(w.msg(o.S)); err != nil {
				panic(err)
			}
		}
		w.pver[o.A]++
	case "setbad":
		// the update is rejected (returns an error). Whether the parameter keeps its old value or not
		// is the parameter's business; what the property demands is that reads afterwards still agree
		// with a from-scratch evaluation of whatever the parameter now reports.
		before := fmt.Sprint(w.r.Value())
		if _, err := w.r.ApplyMessage(w.msg(o.S)); err == nil {
			return false, nil // not rejected: not the operation this entry stands for
		}
		if fmt.Sprint(w.r.Value()) != before {
			w.pver[R]++ // the value did change: for the reference the parameter changed
		}
	case "read":
		got := w.out(o.A).Value()
		want := w.eval(o.A)
		if got != want {
			probs = append(probs, problem{"nodes.Struct.Value", "reading a node output returns the value a from-scratch evaluation of the current graph returns", "stale-or-wrong-value",
				fmt.Sprintf("read(%s) returned %q, from-scratch evaluation gives %q", nodeNames[o.A], got, want), step})
		}
		w.expected(o.A, &exp)
	case "wire":
		w.node(o.A).SetInput(o.S, nodes.Output{NodeOutput: w.out(o.B)})
		found := false
		for i := range w.wiring[o.A] {
			if w.wiring[o.A][i].port == o.S {
				w.wiring[o.A][i].from = o.B
				found = true
			}
		}
		if !found { // a port that was not connected so far
			w.wiring[o.A] = append(w.wiring[o.A], src{o.S, o.B})
		}
		w.wver[o.A]++
	case "arradd":
		k := 0
		for _, s := range w.wiring[D] {
			if s.port == "V" {
				k++
			}
		}
		if k >= 3 {
			return false, nil
		}
		w.node(D).SetInput(fmt.Sprintf("Values.%d", k), nodes.Output{NodeOutput: w.out(o.B)})
		var nw []src
		for _, s := range w.wiring[D] {
			if s.port == "V" {
				nw = append(nw, s)
			}
		}
		nw = append(nw, src{"V", o.B})
		for _, s := range w.wiring[D] {
			if s.port != "V" {
				nw = append(nw, s)
			}
		}
		w.wiring[D] = nw
		w.wver[D]++
	case "arradd2":
		k, last := 0, -1
		for i, s := range w.wiring[D] {
			if s.port == "W" {
				k++
				last = i
			}
		}
		if k >= 2 {
			return false, nil
		}
		w.node(D).SetInput(fmt.Sprintf("Weights.%d", k), nodes.Output{NodeOutput: w.out(o.B)})
		nw := append([]src{}, w.wiring[D][:last+1]...)
		nw = append(nw, src{"W", o.B})
		nw = append(nw, w.wiring[D][last+1:]...)
		w.wiring[D] = nw
		w.wver[D]++
	case "arrdel":
		if len(w.wiring[D]) == 0 || w.wiring[D][0].port != "V" {
			return false, nil
		}
		w.node(D).SetInput("Values.0", nodes.Output{NodeOutput: nil})
		w.wiring[D] = append([]src{}, w.wiring[D][1:]...)
		w.wver[D]++
	}
	for _, n := range structNodes {
		switch {
		case execs[n] > 0 && !dirtyBefore[n]:
			probs = append(probs, problem{"nodes.Struct.Outdated", "a node re-executes only if a parameter it transitively depends on, or its own wiring, changed since it last executed", "spurious-execution",
				fmt.Sprintf("%s: node %s executed %d time(s) although nothing it depends on changed since its last execution", o, nodeNames[n], execs[n]), step})
		case execs[n] > 1:
			probs = append(probs, problem{"nodes.Struct.Value", "a node re-executes only if a parameter it transitively depends on, or its own wiring, changed since it last executed", "executed-twice-in-one-read",
				fmt.Sprintf("%s: node %s executed %d times during one read", o, nodeNames[n], execs[n]), step})
		case execs[n] > 0 && exp[n] == 0:
			probs = append(probs, problem{"nodes.Struct.Value", "a node re-executes only if a parameter it transitively depends on, or its own wiring, changed since it last executed", "execution-outside-the-read-closure",
				fmt.Sprintf("%s: node %s executed although it is not needed for this read", o, nodeNames[n]), step})
		}
		if d := w.node(n).Version() - verBefore[n]; d != execs[n] {
			probs = append(probs, problem{"nodes.Struct.process", "a node's version increases by exactly one per execution and never otherwise", "version-delta",
				fmt.Sprintf("%s: node %s executed %d time(s) but its version moved by %d", o, nodeNames[n], execs[n], d), step})
		}
		// the reference remembers what each node has seen at its last *actual* execution
		if execs[n] > 0 {
			w.lastSig[n] = w.sig(n)
		}
	}
	return true, probs
}

// expected: nodes that may execute on read(n): the dirty nodes reachable from n through dirty nodes.
func (w *world) expected(n int, exp *[N]int) {
	if isParam(n) || !w.dirty(n) {
		return
	}
	exp[n]++
	for _, in := range w.wiring[n] {
		w.expected(in.from, exp)
	}
}

var seeds = []string{"fresh", "warm", "empty-array", "flag"}

func start(seed string) *world {
	w := build(seed)
	if seed == "warm" {
		// non-initial start: everything has been evaluated once and then p was updated
		apply(w, Op{Kind: "read", A: D}, -1)
		apply(w, Op{Kind: "set", A: P, S: "1"}, -1)
		apply(w, Op{Kind: "read", A: C}, -1)
	}
	return w
}

// runHistory executes a history under the given map-order deviations. It returns the problems found,
// the logged map iterations and whether every operation was enabled.
func runHistory(cs Case) (probs []problem, iters []mapord.Iter, complete bool, overflow bool) {
	w := start(cs.Seed) // the seed prefix runs under the default order
	mapord.Begin(cs.Devs)
	complete = true
	for i, o := range cs.Ops {
		var en bool
		var ps []problem
		if g := core.Guard(func() { en, ps = apply(w, o, i) }); g.Panicked {
			// a crash (or an explicit panic) inside the node graph while reading / re-wiring
			en, ps = true, []problem{{"nodes." + core.TopFrame(g.Stack), "reading a node output returns the value a from-scratch evaluation of the current graph returns", "panic", fmt.Sprintf("%s panicked: %s", o, g.Msg), i}}
		}
		if !en {
			complete = false
			break
		}
		probs = append(probs, ps...)
		if len(probs) > 0 {
			break
		}
	}
	iters, overflow = mapord.End()
	return
}

type explorer struct {
	lastReadsOnly bool // the deepest level tries read operations only
	c             *core.Ctx
	alpha         []Op
	maxDevs       int
	devDepth      int // histories up to this depth are also run under deviations
}

func (e *explorer) report(cs Case, ps []problem) {
	for _, p := range ps {
		class := p.class
		if len(cs.Devs) > 0 {
			class += "/under-map-order-deviation"
		}
		e.c.Violate(core.Violation{Site: p.site, Clause: p.clause, Class: class, Detail: cs.String() + " — " + p.detail, Case: cs})
	}
}

// visit runs one complete history (default order, then every deviation) and reports.
func (e *explorer) visit(cs Case) (extendable bool) {
	ps, iters, complete, overflow := runHistory(cs)
	if !complete {
		return false
	}
	if overflow {
		e.c.Cap("map iteration log overflow (history with more than %d iterations)", mapord.Table)
	}
	e.c.Trace()
	e.c.Transition()
	outcome := "ok"
	if len(ps) > 0 {
		outcome = "violation"
		e.report(cs, ps)
	}
	scope := fmt.Sprintf("%s/depth%d", cs.Seed, len(cs.Ops))
	e.c.Eval(scope, outcome)
	e.c.NontrivialHash(core.Hash(cs.Seed, fmt.Sprint(cs.Ops)))
	if len(cs.Ops) >= 3 {
		e.c.Sample(scope, cs.String())
	}
	if len(ps) > 0 {
		return false
	}
	if e.maxDevs >= 1 && len(cs.Ops) <= e.devDepth {
		e.deviate(cs, iters, nil, 0)
	}
	return true
}

// deviate: every single deviation (and recursively pairs, in increasing iteration order).
func (e *explorer) deviate(cs Case, iters []mapord.Iter, have []mapord.Deviation, from int) {
	for k := from; k < len(iters); k++ {
		for _, seed := range iters[k].CompactAlternatives() {
			devs := append(append([]mapord.Deviation{}, have...), mapord.Deviation{At: k, Seed: seed})
			dc := Case{Seed: cs.Seed, Ops: cs.Ops, Devs: devs}
			ps, iters2, _, _ := runHistory(dc)
			e.c.Trace()
			e.c.Transition()
			outcome := "ok"
			if len(ps) > 0 {
				outcome = "violation"
				e.report(dc, ps)
			}
			e.c.Eval(fmt.Sprintf("%s/depth%d/deviations=%d", cs.Seed, len(cs.Ops), len(devs)), outcome)
			if len(devs) < e.maxDevs && len(ps) == 0 {
				e.deviate(cs, iters2, devs, k+1)
			}
		}
	}
}

func (e *explorer) dfs(cs Case, depth int) {
	if e.c.Expired() {
		return
	}
	if len(cs.Ops) == depth {
		return
	}
	for _, o := range e.alpha {
		// the deepest level of the thorough tier observes only: a history's last operation shows its
		// effect through the reads (and execution counts) that follow it, and nothing follows it
		if e.lastReadsOnly && len(cs.Ops) == depth-1 && o.Kind != "read" {
			continue
		}
		if len(cs.Ops) == 1 && !e.c.Next() {
			continue
		}
		next := Case{Seed: cs.Seed, Ops: append(append([]Op{}, cs.Ops...), o)}
		if len(next.Ops) >= 2 || e.c.Shard == 0 {
			if !e.visit(next) {
				continue
			}
		} else {
			// depth-1 histories are owned by shard 0; others only need to know whether they are enabled
			if _, _, complete, _ := runHistory(next); !complete {
				continue
			}
		}
		e.c.State()
		e.dfs(next, depth)
	}
}

func run(c *core.Ctx) {
	alpha := alphabet()
	depth, devDepth, maxDevs := 4, 4, 1
	if c.Thorough() {
		depth, devDepth, maxDevs = 5, 4, 1 // level 5: reads only
	}
	c.Bound("alphabet", len(alpha))
	c.Bound("history_depth", depth)
	c.Bound("map_order_single_deviations_up_to_depth", devDepth)
	for _, seed := range seeds {
		e := &explorer{c: c, alpha: alpha, maxDevs: maxDevs, devDepth: devDepth, lastReadsOnly: c.Thorough()}
		e.dfs(Case{Seed: seed}, depth)
	}
	if c.Thorough() {
		// pairs of deviations on the shorter histories
		c.Bound("map_order_deviation_pairs_up_to_depth", 3)
		for _, seed := range seeds {
			e := &explorer{c: c, alpha: alpha, maxDevs: 2, devDepth: 3}
			e.dfs(Case{Seed: seed}, 3)
		}
	}
}

func replay(c *core.Ctx) {
	var cs Case
	if err := json.Unmarshal(c.Replay, &cs); err != nil {
		c.HarnessError("bad case: %v", err)
		return
	}
	ps, _, complete, _ := runHistory(cs)
	if !complete {
		c.HarnessError("replay: history not executable to the end")
	}
	e := &explorer{c: c}
	e.report(cs, ps)
	c.Eval("replay", "done")
}
