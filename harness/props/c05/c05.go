// Package c05: OBJ write/read round trip preserves groups, corners and materials; load→save loses
// or invents no face (DESIGN §4 C05).
//
// Scope (a) writer→reader: lists of 1..3 named meshes drawn from S_mesh(3,2) × {P, PN, PT, PNT} ×
// every composition of the triangles into material ranges over {matA, matB, nil}.
// Scope (b) reader→writer→reference reader: every OBJ text "mtllib + fixed v/vt/vn preamble +
// every sequence of length ≤ L over a line alphabet of g / usemtl / f lines".
//
// The reference is an independent OBJ reader (refobj.go) and the expected per-corner values derived
// from the replayable mesh descriptions; polyform's reader is never used to judge polyform's writer
// alone, nor the other way round.
package c05

import (
	"bytes"
	"encoding/json"
	"fmt"
	"io"
	"math"
	"os"
	"path/filepath"
	"sort"
	"strings"

	"github.com/EliCDavis/polyform/formats/obj"
	"github.com/EliCDavis/polyform/modeling"

	"verif/harness/core"
	"verif/harness/meshlib"
)

func init() { core.Register(core.Check{ID: "C05", Run: run, Replay: replay}) }

// ---------------------------------------------------------------------------------------------
// case descriptions
// ---------------------------------------------------------------------------------------------

// MeshDesc is a replayable description of one named mesh of a list.
type MeshDesc struct {
	Name string       `json:"name"`
	Spec meshlib.Spec `json:"spec"` // Mix ∈ {P, PN, PT, PNT}
	// Mats: consecutive material ranges (triangle count, material id: 0 = nil, 1 = matA, 2 = matB);
	// empty = the mesh has no material ranges at all.
	Mats [][2]int `json:"mats,omitempty"`
}

type Case struct {
	Kind  string     `json:"kind"` // "list" | "text" | "value"
	Scope string     `json:"scope,omitempty"`
	List  []MeshDesc `json:"list,omitempty"`
	Alpha int        `json:"alpha,omitempty"` // size of the line alphabet (8 or 10)
	Seq   []int      `json:"seq,omitempty"`
	FS    bool       `json:"fs,omitempty"`    // through obj.Load on real files
	Bits  uint32     `json:"bits,omitempty"`  // kind "value": float32 bit pattern
	Slot  int        `json:"slot,omitempty"`  // kind "value": component slot (slotNames)
	Names []string   `json:"names,omitempty"` // kind "names": two mesh names, two material names
}

type checker struct {
	c   *core.Ctx
	dir string // scratch directory of the file-system sub-scope (created lazily)
	n   int    // cases seen (the reader-variant re-reads run on a fixed stride of them)
}

// readerVariants: every 16th writer→reader case (deterministic stride; the re-reads multiply the
// read cost by eight) is also read through the other io.Reader kinds and with CRLF line endings.
func (k *checker) readerVariants() bool {
	k.n++
	return k.n%16 == 0
}

func (k *checker) fail(site, clause, class, detail string, cs Case) {
	k.c.Violate(core.Violation{Site: site, Clause: clause, Class: class, Detail: detail, Case: cs})
}

const (
	clFailA  = "writing a list of named well-formed triangle meshes and reading it back neither crashes nor fails"
	clGroups = "reading back yields one group per mesh with the same name"
	clTris   = "each group has the same triangles in order"
	clPos    = "the same per-corner position (float32 precision)"
	clNrm    = "the same per-corner normal (float32 precision)"
	clUV     = "the same per-corner texture coordinate (float32 precision)"
	clMat    = "the same material on every triangle"

	clFailB   = "loading a valid triangulated OBJ and saving it again neither crashes nor fails"
	clFaces   = "loading a valid triangulated OBJ and saving it again loses or invents no face"
	clFaceGrp = "loading a valid triangulated OBJ and saving it again keeps every face in its group"
	clLayout  = "loading a valid triangulated OBJ loses or invents no face whether or not its last line ends in a newline, with LF or CRLF line endings, with or without blanks around its statements"
	clFaceMat = "a face keeps the material of the usemtl statement that precedes it inside its group"
)

var matNames = [3]string{"", "matA", "matB"}

func (d MeshDesc) build() obj.ObjMesh {
	m := d.Spec.Build()
	if len(d.Mats) > 0 {
		ms := make([]modeling.MeshMaterial, len(d.Mats))
		for i, r := range d.Mats {
			ms[i].PrimitiveCount = r[0]
			switch r[1] {
			case 1:
				ms[i].Material = &meshlib.MatA
			case 2:
				ms[i].Material = &meshlib.MatB
			}
		}
		m = m.SetMaterials(ms)
	}
	return obj.ObjMesh{Name: d.Name, Mesh: m}
}

func (d MeshDesc) has(attr string) bool {
	for _, a := range meshlib.Mixes[d.Spec.Mix] {
		if a == attr {
			return true
		}
	}
	return false
}

func (d MeshDesc) String() string {
	return fmt.Sprintf("%q{v=%d idx=%v pos=%v %s mats=%v}", d.Name, d.Spec.V, d.Spec.Idx, d.Spec.Pos, d.Spec.Mix, d.Mats)
}

// expected material of every triangle: "-" none, "nil" an explicit range without material, else the name
func (d MeshDesc) triMaterials() []string {
	out := make([]string, d.Spec.PrimCount())
	for i := range out {
		out[i] = "-"
	}
	t := 0
	for _, r := range d.Mats {
		for j := 0; j < r[0] && t < len(out); j++ {
			out[t] = matNames[r[1]]
			if r[1] == 0 {
				out[t] = "nil"
			}
			t++
		}
	}
	return out
}

// expected corner of triangle t, corner c — from the spec alone
func (d MeshDesc) corner(t, c int) Corner {
	vi := d.Spec.Idx[3*t+c]
	p := d.Spec.Position(vi)
	k := Corner{P: [3]float32{float32(p.X()), float32(p.Y()), float32(p.Z())}}
	if d.has(modeling.NormalAttribute) {
		a := meshlib.AttrValue(modeling.NormalAttribute, vi)
		k.N, k.HasN = [3]float32{float32(a[0]), float32(a[1]), float32(a[2])}, true
	}
	if d.has(modeling.TexCoordAttribute) {
		a := meshlib.AttrValue(modeling.TexCoordAttribute, vi)
		k.T, k.HasT = [2]float32{float32(a[0]), float32(a[1])}, true
	}
	return k
}

// within float32 precision of the expected (already float32) value
func f32near(got float64, want float32) bool {
	w := float64(want)
	return math.Abs(got-w) <= math.Abs(w)*0x1p-23+1e-40
}

// ---------------------------------------------------------------------------------------------
// scope (a): one list
// ---------------------------------------------------------------------------------------------

func listClass(list []MeshDesc, k int) string {
	var before []string
	for _, d := range list[:k] {
		before = append(before, d.Spec.Mix)
	}
	b := "nothing"
	if len(before) > 0 {
		b = strings.Join(before, "+")
	}
	return fmt.Sprintf("mesh %d of %d/%s after %s", k+1, len(list), list[k].Spec.Mix, b)
}

func (k *checker) listCase(scope string, list []MeshDesc) {
	cs := Case{Kind: "list", Scope: scope, List: list}
	c := k.c
	tris := 0
	for _, d := range list {
		tris += d.Spec.PrimCount()
	}
	what := fmt.Sprint(list)
	if tris > 0 {
		c.Nontrivial("list", what)
	}
	ms := make([]obj.ObjMesh, len(list))
	for i, d := range list {
		ms[i] = d.build()
	}

	var buf bytes.Buffer
	var err error
	o := core.Guard(func() {
		if len(list) == 1 && list[0].Name == "" {
			err = obj.WriteMesh(ms[0].Mesh, "", &buf)
		} else {
			err = obj.WriteMeshes(ms, "", &buf)
		}
	})
	if o.Panicked || err != nil {
		site, msg, lab := "obj.WriteMeshes", o.Msg, "write-failure"
		if o.Crash() {
			site, msg, lab = core.TopFrame(o.Stack), o.Msg+" @ "+o.Stack, "write-crash"
		} else if err != nil {
			msg = err.Error()
		}
		c.Eval(scope, lab)
		k.fail(site, clFailA, listClass(list, len(list)-1), msg+" "+what, cs)
		return
	}
	text := buf.String()

	// The independent reader judges the text first, so that a bad text is blamed on the writer.
	writerOK, writerWhy, writerAt := k.judgeText(list, text)

	var back []obj.ObjMesh
	o = core.Guard(func() { back, _, err = obj.ReadMesh(strings.NewReader(text)) })
	if o.Panicked || err != nil {
		site, msg, lab := "obj.ReadMesh", o.Msg, "read-failure"
		if o.Crash() {
			site, msg, lab = core.TopFrame(o.Stack), o.Msg+" @ "+o.Stack, "read-crash"
		} else if err != nil {
			msg = err.Error()
		}
		at := len(list) - 1
		if !writerOK {
			site, msg, at = "obj.WriteMeshes", "the written text is wrong ("+writerWhy+"); reading it: "+msg, writerAt
		}
		c.Eval(scope, lab)
		k.fail(site, clFailA, listClass(list, at), msg+" "+what+"\n"+text, cs)
		return
	}

	outcome := "ok"
	bad := func(clause string, at int, detail string) {
		if outcome == "ok" {
			outcome = "mismatch"
		}
		site := "obj.ReadMesh"
		if !writerOK {
			site = "obj.WriteMeshes"
			detail += " [reference reader on the text: " + writerWhy + "]"
		}
		k.fail(site, clause, listClass(list, at), detail+" "+what+"\n"+text, cs)
	}
	if k.readerVariants() {
		if why := readerAgreement(text, back); why != "" {
			outcome = "mismatch"
			k.fail("obj.ReadMesh", "the loaded meshes do not depend on how the io.Reader delivers the text (or on CRLF line endings)", listClass(list, len(list)-1)+"/reader-variant", why+" "+what, cs)
		}
	}

	// groups, ignoring groups/meshes without triangles (an OBJ group without faces carries nothing)
	var wantIdx []int
	for i, d := range list {
		if d.Spec.PrimCount() > 0 {
			wantIdx = append(wantIdx, i)
		}
	}
	var got []obj.ObjMesh
	for _, g := range back {
		if g.Mesh.Indices().Len() > 0 {
			got = append(got, g)
		}
	}
	if len(wantIdx) != len(list) && outcome == "ok" {
		if len(back) == len(list) {
			outcome = "ok/empty-group-kept"
		} else {
			outcome = "ok/empty-group-dropped"
		}
	}
	if len(got) != len(wantIdx) {
		bad(clGroups, len(list)-1, fmt.Sprintf("%d groups with triangles read back, %d meshes with triangles written", len(got), len(wantIdx)))
		c.Eval(scope, outcome)
		return
	}
	for gi, li := range wantIdx {
		d := list[li]
		g := got[gi]
		if g.Name != d.Name {
			bad(clGroups, li, fmt.Sprintf("group %d is named %q, mesh was named %q", gi, g.Name, d.Name))
			continue
		}
		snap := meshlib.Snapshot(g.Mesh)
		if cl, det := snap.WF(); cl != "" || snap.Topo != modeling.TriangleTopology {
			bad(clTris, li, fmt.Sprintf("group %q is not a well-formed triangle mesh: %s %s", g.Name, cl, det))
			continue
		}
		n := d.Spec.PrimCount()
		if len(snap.Idx) != 3*n {
			bad(clTris, li, fmt.Sprintf("group %q has %d triangles, mesh had %d", g.Name, len(snap.Idx)/3, n))
			continue
		}
		pos, hasP := snap.F3[modeling.PositionAttribute]
		nrm, hasN := snap.F3[modeling.NormalAttribute]
		uv, hasT := snap.F2[modeling.TexCoordAttribute]
		if !hasP {
			bad(clPos, li, fmt.Sprintf("group %q has no Position attribute", g.Name))
			continue
		}
		if hasN != d.has(modeling.NormalAttribute) {
			bad(clNrm, li, fmt.Sprintf("group %q: normals present=%v, mesh had normals=%v", g.Name, hasN, !hasN))
		}
		if hasT != d.has(modeling.TexCoordAttribute) {
			bad(clUV, li, fmt.Sprintf("group %q: texture coordinates present=%v, mesh had them=%v", g.Name, hasT, !hasT))
		}
		var badP, badN, badT bool
		for t := 0; t < n; t++ {
			for cc := 0; cc < 3; cc++ {
				w := d.corner(t, cc)
				vi := snap.Idx[3*t+cc]
				if p := pos[vi]; !badP && !(f32near(p.X(), w.P[0]) && f32near(p.Y(), w.P[1]) && f32near(p.Z(), w.P[2])) {
					badP = true
					bad(clPos, li, fmt.Sprintf("group %q triangle %d corner %d position %v, want %v", g.Name, t, cc, p, w.P))
				}
				if w.HasN && hasN && !badN {
					if p := nrm[vi]; !(f32near(p.X(), w.N[0]) && f32near(p.Y(), w.N[1]) && f32near(p.Z(), w.N[2])) {
						badN = true
						bad(clNrm, li, fmt.Sprintf("group %q triangle %d corner %d normal %v, want %v", g.Name, t, cc, p, w.N))
					}
				}
				if w.HasT && hasT && !badT {
					if p := uv[vi]; !(f32near(p.X(), w.T[0]) && f32near(p.Y(), w.T[1])) {
						badT = true
						bad(clUV, li, fmt.Sprintf("group %q triangle %d corner %d texture coordinate %v, want %v", g.Name, t, cc, p, w.T))
					}
				}
			}
		}
		// materials, expanded to one entry per triangle
		wantM := d.triMaterials()
		gotM := make([]string, n)
		for i := range gotM {
			gotM[i] = "-"
		}
		t, sum := 0, 0
		for _, r := range snap.Mats {
			sum += r.Count
			for j := 0; j < r.Count && t < n; j++ {
				if r.Ptr == nil {
					gotM[t] = "nil"
				} else {
					gotM[t] = r.Name
				}
				t++
			}
		}
		if len(snap.Mats) > 0 && sum != n {
			bad(clMat, li, fmt.Sprintf("group %q: material ranges cover %d triangles, the group has %d (ranges %v)", g.Name, sum, n, matRanges(snap.Mats)))
			continue
		}
		for t := range wantM {
			if !sameMaterial(wantM[t], gotM[t]) {
				bad(clMat, li, fmt.Sprintf("group %q triangle %d has material %q, want %q (per triangle: got %v want %v)", g.Name, t, gotM[t], wantM[t], gotM, wantM))
				break
			}
		}
	}
	c.Eval(scope, outcome)
	c.Sample(scope, map[string]any{"list": what, "text": text})
}

func matRanges(ms []meshlib.MatSnap) string {
	var s []string
	for _, m := range ms {
		s = append(s, fmt.Sprintf("%d×%q", m.Count, m.Name))
	}
	return strings.Join(s, ",")
}

var defaultMatName = strings.ReplaceAll(modeling.DefaultMaterial().Name, " ", "")

// sameMaterial: names must agree; a range without material ("nil") is the default material and may
// come back as nil, as no range, or under the default material's name.
func sameMaterial(want, got string) bool {
	if want == "nil" {
		return got == "nil" || got == "-" || strings.ReplaceAll(got, " ", "") == defaultMatName
	}
	return want == got
}

// judgeText reads the written text with the reference reader and compares it with the list:
// group names, face counts, per-corner values, and the material wherever the mesh states one.
func (k *checker) judgeText(list []MeshDesc, text string) (ok bool, why string, at int) {
	faces, err := refRead(text)
	if err != nil {
		// attribute to the mesh whose faces were being read: count faces parsed so far
		n := len(faces)
		for i, d := range list {
			if n < d.Spec.PrimCount() {
				return false, err.Error(), i
			}
			n -= d.Spec.PrimCount()
		}
		return false, err.Error(), len(list) - 1
	}
	i := 0
	for li, d := range list {
		wantM := d.triMaterials()
		for t := 0; t < d.Spec.PrimCount(); t++ {
			if i >= len(faces) {
				return false, fmt.Sprintf("text has %d faces, fewer than the meshes' triangles", len(faces)), li
			}
			f := faces[i]
			i++
			wantG := d.Name
			if wantG == "" {
				wantG = "default"
			}
			if f.Group != wantG {
				return false, fmt.Sprintf("face %d is in group %q, want %q", i, f.Group, wantG), li
			}
			for c := 0; c < 3; c++ {
				w := d.corner(t, c)
				if f.C[c] != w {
					return false, fmt.Sprintf("face %d corner %d is %+v, want %+v", i, c, f.C[c], w), li
				}
			}
			if wantM[t] != "-" && wantM[t] != "nil" && f.Mat != wantM[t] {
				return false, fmt.Sprintf("face %d has material %q, want %q", i, f.Mat, wantM[t]), li
			}
		}
	}
	if i != len(faces) {
		return false, fmt.Sprintf("text has %d faces, the meshes have %d triangles", len(faces), i), len(list) - 1
	}
	return true, "", 0
}

// ---------------------------------------------------------------------------------------------
// scope (a): enumeration
// ---------------------------------------------------------------------------------------------

var attrMixes = []string{"P", "PN", "PT", "PNT"}

// matOptions: no ranges at all, and every composition of p triangles into 1..p ranges with every
// assignment of {nil, matA, matB} to the ranges.
func matOptions(p int) [][][2]int {
	out := [][][2]int{nil}
	if p == 0 {
		return out
	}
	var comps [][]int
	var rec func(rest int, cur []int)
	rec = func(rest int, cur []int) {
		if rest == 0 {
			comps = append(comps, append([]int{}, cur...))
			return
		}
		for n := rest; n >= 1; n-- {
			rec(rest-n, append(cur, n))
		}
	}
	rec(p, nil)
	for _, comp := range comps {
		for _, as := range meshlib.Tuples(3, len(comp)) {
			var m [][2]int
			for i, n := range comp {
				m = append(m, [2]int{n, as[i]})
			}
			out = append(out, m)
		}
	}
	return out
}

type shape struct {
	v    int
	idx  []int
	mats [][2]int
}

// context shapes: different vertex counts (so the v/vt/vn bases diverge), triangle counts, index
// patterns and material layouts
var shapes = []shape{
	{3, []int{0, 1, 2}, nil},
	{3, []int{0, 1, 2, 2, 1, 0}, [][2]int{{1, 1}, {1, 2}}},
	{2, []int{0, 1, 1}, nil},
	{3, []int{}, nil}, // three unreferenced vertices, no triangle
	{3, []int{2, 0, 1}, [][2]int{{1, 1}}},
	{3, []int{0, 1, 2, 2, 1, 0}, [][2]int{{2, 0}}},
	{2, []int{1, 0, 0, 0, 1, 1}, [][2]int{{1, 2}, {1, 0}}},
	{1, []int{0, 0, 0}, [][2]int{{1, 2}}},
}

func menu(nShapes int) (out []MeshDesc) {
	for _, s := range shapes[:nShapes] {
		for _, mix := range attrMixes {
			out = append(out, MeshDesc{Spec: meshlib.Spec{Topo: "tri", V: s.v, Idx: s.idx, Mix: mix}, Mats: s.mats})
		}
	}
	return
}

var posNames = []string{"first", "part two", "third"}

func named(ds ...MeshDesc) []MeshDesc {
	out := make([]MeshDesc, len(ds))
	for i, d := range ds {
		d.Name = posNames[i]
		out[i] = d
	}
	return out
}

func (k *checker) runLists() bool {
	c := k.c
	base := 0
	stop := false
	// a1: single meshes — the whole of S_mesh(3,2), every palette assignment
	full := meshlib.EnumOpt{MaxV: 3, MaxP: 2, Topos: []string{"tri"}, Mixes: attrMixes, AllPos: true}
	n := meshlib.Enum(full, func(i int, s meshlib.Spec) bool {
		if !c.Mine(i) {
			return true
		}
		if c.Expired() {
			stop = true
			return false
		}
		for _, m := range matOptions(s.PrimCount()) {
			k.listCase("lists/one-mesh", []MeshDesc{{Name: "solo", Spec: s, Mats: m}})
			if s.Pos == nil {
				k.listCase("lists/one-mesh-unnamed", []MeshDesc{{Name: "", Spec: s, Mats: m}})
			}
		}
		return true
	})
	base += n
	if stop {
		return false
	}
	c.Bound("a.single", "every mesh of S_mesh(3,2) (triangles; every palette assignment + all-distinct) × {P,PN,PT,PNT} × every material composition over {nil,matA,matB}")

	// a2: pairs — focus mesh before and after every context mesh
	focus := meshlib.EnumOpt{MaxV: 3, MaxP: 2, Topos: []string{"tri"}, Mixes: attrMixes, AllPos: c.Thorough()}
	ctx := menu(4)
	n = meshlib.Enum(focus, func(i int, s meshlib.Spec) bool {
		if !c.Mine(base + i) {
			return true
		}
		if c.Expired() {
			stop = true
			return false
		}
		for _, m := range matOptions(s.PrimCount()) {
			f := MeshDesc{Spec: s, Mats: m}
			for _, x := range ctx {
				k.listCase("lists/two-meshes", named(f, x))
				k.listCase("lists/two-meshes", named(x, f))
			}
		}
		return true
	})
	base += n
	if stop {
		return false
	}
	c.Bound("a.pairs", fmt.Sprintf("focus mesh from S_mesh(3,2) (all palette assignments: %v) × 4 attribute sets × every material composition, before and after each of %d context meshes (4 shapes × 4 attribute sets)", c.Thorough(), len(ctx)))

	// a3: triples — every triple over the menu (all 4³ attribute-set combinations for every shape triple)
	mn := menu(len(shapes))
	for i := range mn {
		for j := range mn {
			mine := c.Mine(base)
			base++
			if !mine {
				continue
			}
			if c.Expired() {
				return false
			}
			for l := range mn {
				k.listCase("lists/three-meshes", named(mn[i], mn[j], mn[l]))
			}
		}
	}
	c.Bound("a.triples", fmt.Sprintf("every triple over a menu of %d meshes (%d shapes × 4 attribute sets)", len(mn), len(shapes)))

	// thorough: focus mesh in each position of a triple, the other two from the small menu
	if c.Thorough() {
		small := menu(2)
		red := meshlib.EnumOpt{MaxV: 3, MaxP: 2, Topos: []string{"tri"}, Mixes: attrMixes, AllPos: false}
		n = meshlib.Enum(red, func(i int, s meshlib.Spec) bool {
			if s.Pos != nil || !c.Mine(base+i) {
				return true
			}
			if c.Expired() {
				stop = true
				return false
			}
			for _, m := range matOptions(s.PrimCount()) {
				f := MeshDesc{Spec: s, Mats: m}
				for _, x := range small {
					for _, y := range small {
						k.listCase("lists/three-meshes-focus", named(f, x, y))
						k.listCase("lists/three-meshes-focus", named(x, f, y))
						k.listCase("lists/three-meshes-focus", named(x, y, f))
					}
				}
			}
			return true
		})
		base += n
		if stop {
			return false
		}
		c.Bound("a.triples_focus", fmt.Sprintf("focus mesh from S_mesh(3,2) (all-distinct positions) × 4 attribute sets × every material composition in each position of a triple, the others from a menu of %d", len(small)))
	}
	return true
}

// ---------------------------------------------------------------------------------------------
// scope (b): OBJ texts
// ---------------------------------------------------------------------------------------------

const mtlName = "scene.mtl"
const mtlText = "# materials of the generated scenes\nnewmtl m1\nKd 1 0 0\nNs 10\n\nnewmtl m2\nKd 0 0.5 1\nNs 20\n"

// every v, vt and vn differs from the others in every component that could be confused;
// 0.1 / 0.3 are not float32-representable
const preamble = "mtllib " + mtlName + "\n" +
	"v 0 0 0\nv 1 0 0.1\nv 0 1 0.25\nv 1 1 -2\nv 2 0.3 0\n" +
	"vt 0 0\nvt 1 0.1\nvt 0.25 1\n" +
	"vn 0 0 1\nvn 0 0.6 -0.8\n"

var alphabet = []string{
	"g a", "g b", "usemtl m1", "usemtl m2",
	"f 1 2 3", "f 2/1 4/2 3/3", "f 3//1 4//1 5//2", "f 1/1/1 2/2/1 5/3/2",
	// extended alphabet: a second face per syntax family that shares some corner tokens with the first
	"f 3 2 4", "f 2/2/2 1/1/1 5/1/2",
}

func lineKind(a int) byte { return alphabet[a][0] } // 'g', 'u', 'f'

func faceSyntax(a int) string {
	tok := strings.Fields(alphabet[a])[1]
	switch {
	case strings.Contains(tok, "//"):
		return "v//vn"
	case strings.Count(tok, "/") == 2:
		return "v/vt/vn"
	case strings.Count(tok, "/") == 1:
		return "v/vt"
	}
	return "v"
}

// mixesSyntax: two faces with different corner syntax and no g line between them.
func mixesSyntax(seq []int) bool {
	cur := ""
	for _, a := range seq {
		switch lineKind(a) {
		case 'g':
			cur = ""
		case 'f':
			s := faceSyntax(a)
			if cur != "" && cur != s {
				return true
			}
			cur = s
		}
	}
	return false
}

func seqText(seq []int) string {
	var b strings.Builder
	b.WriteString(preamble)
	for _, a := range seq {
		b.WriteString(alphabet[a])
		b.WriteByte('\n')
	}
	return b.String()
}

func seqString(seq []int) string {
	var s []string
	for _, a := range seq {
		s = append(s, alphabet[a])
	}
	return strings.Join(s, "; ")
}

// structural features of a text, for the violation class
func seqFeatures(seq []int) string {
	groups := map[int]int{}
	ng, nu := 0, 0
	for _, a := range seq {
		switch lineKind(a) {
		case 'g':
			ng++
			groups[a]++
		case 'u':
			nu++
		}
	}
	g := "no-g"
	switch {
	case ng == 1:
		g = "one-g"
	case ng > 1 && len(groups) == 1:
		g = "same-g-repeated"
	case ng > 1:
		g = "several-g"
	}
	u := "no-usemtl"
	if nu > 0 {
		u = "usemtl"
	}
	return g + "/" + u
}

func (k *checker) scratch() (string, error) {
	if k.dir != "" {
		return k.dir, nil
	}
	d, err := os.MkdirTemp("", "verif-c05-")
	if err == nil {
		k.dir = d
	}
	return d, err
}

func (k *checker) cleanup() {
	if k.dir != "" {
		os.RemoveAll(k.dir)
		k.dir = ""
	}
}

type groupKey struct{ group, face string }

func (k *checker) textCase(alpha int, seq []int, fs bool) {
	c := k.c
	cs := Case{Kind: "text", Alpha: alpha, Seq: append([]int{}, seq...), FS: fs}
	mixed := mixesSyntax(seq)
	scope := "texts/uniform-syntax-per-group"
	if mixed {
		scope = "texts/mixed-syntax-in-a-group"
	}
	if fs {
		scope += "/through-files"
	}
	nf := 0
	for _, a := range seq {
		if lineKind(a) == 'f' {
			nf++
		}
	}
	if nf > 0 {
		c.Nontrivial("text", fmt.Sprint(seq), fs)
	}
	text := seqText(seq)
	what := "[" + seqString(seq) + "]"
	feat := seqFeatures(seq)
	viol := func(site, clause, kind, detail string) {
		if !mixed {
			k.fail(site, clause, kind+"/"+feat, detail+" "+what, cs)
		}
	}

	want, rerr := refRead(text)
	if rerr != nil {
		c.HarnessError("reference reader rejects a generated text %s: %v", what, rerr)
		return
	}

	// load
	var meshes []obj.ObjMesh
	var libs []string
	var err error
	var o core.Outcome
	if fs {
		dir, derr := k.scratch()
		if derr != nil {
			c.HarnessError("scratch dir: %v", derr)
			return
		}
		if e := os.WriteFile(filepath.Join(dir, "scene.obj"), []byte(text), 0o644); e != nil {
			c.HarnessError("scratch file: %v", e)
			return
		}
		if e := os.WriteFile(filepath.Join(dir, mtlName), []byte(mtlText), 0o644); e != nil {
			c.HarnessError("scratch file: %v", e)
			return
		}
		o = core.Guard(func() { meshes, err = obj.Load(filepath.Join(dir, "scene.obj")) })
	} else {
		o = core.Guard(func() { meshes, libs, err = obj.ReadMesh(strings.NewReader(text)) })
	}
	if o.Panicked || err != nil {
		site, msg, lab := "obj.ReadMesh", o.Msg, "load-failure"
		if o.Crash() {
			site, msg, lab = core.TopFrame(o.Stack), o.Msg+" @ "+o.Stack, "load-crash"
		} else if err != nil {
			msg = err.Error()
		}
		c.Eval(scope, lab)
		viol(site, clFailB, "load", msg)
		return
	}
	if !fs && (len(libs) != 1 || libs[0] != mtlName) {
		c.Eval(scope, "mtllib-not-reported")
		viol("obj.ReadMesh", clFailB, "mtllib", fmt.Sprintf("material libraries reported: %v, the text names %q", libs, mtlName))
		return
	}

	// the same file in the other line layouts a valid OBJ comes in
	if !fs {
		if why, lay := layoutAgreement(text, meshes); why != "" {
			c.Eval(scope, "layout-mismatch")
			viol("obj.ReadMesh", clLayout, "layout/"+lay, why)
		}
	}

	// is what the loader returned something a writer can be blamed for?  (material ranges must fit)
	loadOK, loadWhy := true, ""
	for _, m := range meshes {
		n := m.Mesh.Indices().Len() / 3
		sum := 0
		for _, r := range m.Mesh.Materials() {
			sum += r.PrimitiveCount
		}
		if len(m.Mesh.Materials()) > 0 && sum != n {
			loadOK = false
			loadWhy = fmt.Sprintf("loaded group %q has %d triangles but material ranges covering %d", m.Name, n, sum)
			break
		}
	}

	if loadOK {
		// do the loaded meshes, read through their public accessors, hold the faces of the text?
		loaded, lerr := meshFaces(meshes)
		if lerr != "" {
			loadOK, loadWhy = false, lerr
		} else {
			a, b := map[groupKey]int{}, map[groupKey]int{}
			for _, f := range want {
				a[groupKey{f.Group, f.key()}]++
			}
			for _, f := range loaded {
				b[groupKey{f.Group, f.key()}]++
			}
			if len(loaded) != len(want) {
				loadOK, loadWhy = false, fmt.Sprintf("the loaded meshes hold %d triangles, the text has %d faces", len(loaded), len(want))
			} else {
				var keys []groupKey
				for x := range a {
					keys = append(keys, x)
				}
				sort.Slice(keys, func(i, j int) bool {
					return keys[i].group+"\x00"+keys[i].face < keys[j].group+"\x00"+keys[j].face
				})
				for _, x := range keys {
					if b[x] != a[x] {
						loadOK, loadWhy = false, fmt.Sprintf("the loaded meshes hold %d× face %s%s, the text has it %d×", b[x], x.group+":", x.face, a[x])
						break
					}
				}
				if loadOK {
					// materials stated inside the face's group must already be on the loaded triangles
					type mk struct {
						g groupKey
						m string
					}
					have := map[mk]int{}
					for _, f := range loaded {
						have[mk{groupKey{f.Group, f.key()}, f.Mat}]++
					}
					for _, f := range want {
						if !f.MatLocal {
							continue
						}
						x := mk{groupKey{f.Group, f.key()}, f.Mat}
						if have[x] == 0 {
							loadOK, loadWhy = false, fmt.Sprintf("no loaded triangle of group %q carries material %q for face %s", f.Group, f.Mat, f.key())
							break
						}
						have[x]--
					}
				}
			}
		}
	}

	// save
	var buf bytes.Buffer
	o = core.Guard(func() { err = obj.WriteMeshes(meshes, mtlName, &buf) })
	if o.Panicked || err != nil {
		site, msg, lab := "obj.WriteMeshes", o.Msg, "save-failure"
		if o.Crash() {
			site, msg, lab = core.TopFrame(o.Stack), o.Msg+" @ "+o.Stack, "save-crash"
		} else if err != nil {
			msg = err.Error()
		}
		if !loadOK {
			site, msg = "obj.ReadMesh", loadWhy+"; saving it: "+msg
		}
		c.Eval(scope, lab)
		viol(site, clFailB, "save", msg)
		return
	}
	saved := buf.String()
	site := "obj.WriteMeshes"
	if !loadOK {
		site = "obj.ReadMesh"
	}
	got, gerr := refRead(saved)
	if gerr != nil {
		c.Eval(scope, "saved-text-invalid")
		d := "the saved text is not a valid OBJ: " + gerr.Error()
		if !loadOK {
			d = loadWhy + "; " + d
		}
		viol(site, clFailB, "saved-text-invalid", d+"\n"+saved)
		return
	}

	// compare: all faces, then per group, then the locally stated materials
	outcome := "ok"
	count := func(fs []Face, perGroup bool) map[groupKey]int {
		m := map[groupKey]int{}
		for _, f := range fs {
			g := ""
			if perGroup {
				g = f.Group
			}
			m[groupKey{g, f.key()}]++
		}
		return m
	}
	synOf := map[string]string{}
	for _, f := range want {
		synOf[f.key()] = f.Syntax
	}
	for _, f := range got {
		if _, ok := synOf[f.key()]; !ok {
			synOf[f.key()] = "invented:" + f.Syntax
		}
	}
	diff := func(a, b map[groupKey]int) (lost, invented []string, syn []string) {
		seen := map[string]bool{}
		var keys []groupKey
		for x := range a {
			keys = append(keys, x)
		}
		for x := range b {
			if _, ok := a[x]; !ok {
				keys = append(keys, x)
			}
		}
		sort.Slice(keys, func(i, j int) bool {
			if keys[i].group != keys[j].group {
				return keys[i].group < keys[j].group
			}
			return keys[i].face < keys[j].face
		})
		for _, x := range keys {
			d := a[x] - b[x]
			if d == 0 {
				continue
			}
			if s := synOf[x.face]; !seen[s] {
				seen[s] = true
				syn = append(syn, s)
			}
			if d > 0 {
				lost = append(lost, fmt.Sprintf("%d× %s%s", d, x.group+":", x.face))
			} else {
				invented = append(invented, fmt.Sprintf("%d× %s%s", -d, x.group+":", x.face))
			}
		}
		sort.Strings(syn)
		return
	}
	kindOf := func(lost, inv []string) string {
		switch {
		case len(lost) > 0 && len(inv) > 0:
			return "lost+invented"
		case len(lost) > 0:
			return "lost"
		}
		return "invented"
	}
	if lost, inv, syn := diff(count(want, false), count(got, false)); len(lost)+len(inv) > 0 {
		outcome = "faces-" + kindOf(lost, inv)
		d := fmt.Sprintf("lost %v invented %v", lost, inv)
		if !loadOK {
			d = loadWhy + "; " + d
		}
		viol(site, clFaces, kindOf(lost, inv)+"/"+strings.Join(syn, ","), d+"\n"+saved)
	} else if lost, inv, syn := diff(count(want, true), count(got, true)); len(lost)+len(inv) > 0 {
		outcome = "faces-moved-between-groups"
		viol(site, clFaceGrp, "moved/"+strings.Join(syn, ","), fmt.Sprintf("missing %v extra %v", lost, inv)+"\n"+saved)
	} else {
		// material of faces whose usemtl was stated inside their group: the multiset of such
		// materials must be contained in what the saved text gives the same faces of the same group
		type mk struct {
			g groupKey
			m string
		}
		have := map[mk]int{}
		for _, f := range got {
			have[mk{groupKey{f.Group, f.key()}, f.Mat}]++
		}
		var wrong []string
		for _, f := range want {
			if !f.MatLocal {
				continue
			}
			x := mk{groupKey{f.Group, f.key()}, f.Mat}
			if have[x] == 0 {
				wrong = append(wrong, fmt.Sprintf("%s:%s[%s]", f.Group, f.Mat, f.Syntax))
				continue
			}
			have[x]--
		}
		if len(wrong) > 0 {
			outcome = "material-changed"
			sort.Strings(wrong)
			d := fmt.Sprintf("faces that no longer carry their material: %v", wrong)
			if !loadOK {
				d = loadWhy + "; " + d
			}
			viol(site, clFaceMat, "material", d+"\n"+saved)
		}
	}
	c.Eval(scope, outcome)
	c.Sample(scope, map[string]any{"lines": seqString(seq), "saved": saved})
}

// meshFaces renders loaded groups as face records through the public accessors.
func meshFaces(meshes []obj.ObjMesh) ([]Face, string) {
	var out []Face
	for _, m := range meshes {
		snap := meshlib.Snapshot(m.Mesh)
		if cl, det := snap.WF(); cl != "" || snap.Topo != modeling.TriangleTopology {
			return nil, fmt.Sprintf("loaded group %q is not a well-formed triangle mesh: %s: %s", m.Name, cl, det)
		}
		g := m.Name
		if g == "" {
			g = "default"
		}
		pos, hasP := snap.F3[modeling.PositionAttribute]
		nrm, hasN := snap.F3[modeling.NormalAttribute]
		uv, hasT := snap.F2[modeling.TexCoordAttribute]
		if !hasP && len(snap.Idx) > 0 {
			return nil, fmt.Sprintf("loaded group %q has no positions", m.Name)
		}
		var mats []string // material name per triangle, "" where no range covers it
		for _, r := range snap.Mats {
			for j := 0; j < r.Count; j++ {
				mats = append(mats, r.Name)
			}
		}
		for t := 0; t+2 < len(snap.Idx); t += 3 {
			f := Face{Group: g}
			if t/3 < len(mats) {
				f.Mat = mats[t/3]
			}
			for c := 0; c < 3; c++ {
				vi := snap.Idx[t+c]
				k := Corner{P: [3]float32{float32(pos[vi].X()), float32(pos[vi].Y()), float32(pos[vi].Z())}}
				if hasN {
					k.N, k.HasN = [3]float32{float32(nrm[vi].X()), float32(nrm[vi].Y()), float32(nrm[vi].Z())}, true
				}
				if hasT {
					k.T, k.HasT = [2]float32{float32(uv[vi].X()), float32(uv[vi].Y())}, true
				}
				f.C[c] = k
			}
			out = append(out, f)
		}
	}
	return out, ""
}

func (k *checker) runTexts(base int) bool {
	c := k.c
	c.ReportedOnly("texts/mixed-syntax-in-a-group", "faces of different corner syntax inside one group are legal OBJ but make the loader build attribute arrays of different lengths (DESIGN §4 C05); run and counted, never alarmed")
	c.ReportedOnly("texts/mixed-syntax-in-a-group/through-files", "as above, through obj.Load")
	// validity of the supplied material library, through the library's own .mtl parser
	if c.Mine(base) {
		mats, err := obj.ReadMaterials(strings.NewReader(mtlText))
		names := []string{}
		for _, m := range mats {
			names = append(names, m.Name)
		}
		if err != nil || fmt.Sprint(names) != "[m1 m2]" {
			c.HarnessError("the in-memory material library does not define m1 and m2: %v %v", names, err)
		}
	}
	base++
	depth8, depth10, depthFS := 6, 5, 4
	if c.Thorough() {
		depth8, depth10, depthFS = 7, 6, 5
	}
	// enumerate sequences; the top-level index is the first two letters (or the whole short sequence)
	walk := func(alpha, depth int, needExt, fs bool) bool {
		var rec func(seq []int, ext bool) bool
		rec = func(seq []int, ext bool) bool {
			if len(seq) > 0 && (!needExt || ext) {
				k.textCase(alpha, seq, fs)
			}
			if len(seq) == depth {
				return true
			}
			for a := 0; a < alpha; a++ {
				if len(seq) == 2 {
					if c.Expired() {
						return false
					}
				}
				if !rec(append(seq, a), ext || a >= 8) {
					return false
				}
			}
			return true
		}
		for a := 0; a < alpha; a++ {
			// length-1 sequence and all its extensions by second letter are sharded separately
			if c.Mine(base) && (!needExt || a >= 8) {
				k.textCase(alpha, []int{a}, fs)
			}
			base++
			for b := 0; b < alpha; b++ {
				mine := c.Mine(base)
				base++
				if !mine {
					continue
				}
				if depth >= 2 {
					if !rec([]int{a, b}, a >= 8 || b >= 8) {
						return false
					}
				}
			}
		}
		return true
	}
	if !walk(8, depth8, false, false) {
		return false
	}
	c.Bound("b.alphabet8_max_lines", depth8)
	if !walk(10, depth10, true, false) {
		return false
	}
	c.Bound("b.alphabet10_max_lines", depth10)
	ok := walk(8, depthFS, false, true)
	k.cleanup()
	if !ok {
		return false
	}
	c.Bound("b.through_files_max_lines", depthFS)
	c.Bound("b.alphabet", alphabet)
	return true
}

// ---------------------------------------------------------------------------------------------

func run(c *core.Ctx) {
	k := &checker{c: c}
	defer k.cleanup()
	if !k.runLists() {
		return
	}
	if !k.runValues(1 << 28) {
		return
	}
	if !k.runNames(1 << 29) {
		return
	}
	if !k.runFiles(1 << 30) {
		return
	}
	k.runTexts(1 << 20)
}

func replay(c *core.Ctx) {
	var cs Case
	if err := json.Unmarshal(c.Replay, &cs); err != nil {
		c.HarnessError("bad case: %v", err)
		return
	}
	k := &checker{c: c}
	defer k.cleanup()
	switch cs.Kind {
	case "list":
		k.listCase(cs.Scope, cs.List)
	case "text":
		k.textCase(cs.Alpha, cs.Seq, cs.FS)
	case "value":
		k.valueCase(cs.Bits, cs.Slot)
	case "names":
		if len(cs.Names) == 4 {
			k.nameCase([2]string{cs.Names[0], cs.Names[1]}, [2]string{cs.Names[2], cs.Names[3]})
		}
	case "files":
		k.filesCase(cs.Seq)
	case "after-failed-write":
		k.afterFailedWrite()
	case "after-failed-read":
		k.afterFailedRead()
	case "load-after-replace":
		k.loadAfterReplace()
	case "sinks":
		k.sinks()
	default:
		c.HarnessError("unknown case kind %q", cs.Kind)
	}
}

// readerAgreement re-reads the text through every other kind / behaviour of io.Reader, and once with
// CRLF line endings, and demands the same meshes (names, bit-exact public-accessor digests).
func readerAgreement(text string, ref []obj.ObjMesh) string {
	digest := func(ms []obj.ObjMesh) string {
		var sb strings.Builder
		for _, m := range ms {
			fmt.Fprintf(&sb, "%q:%x;", m.Name, meshlib.QuickHash(m.Mesh))
		}
		return sb.String()
	}
	want := digest(ref)
	try := func(name string, r io.Reader) string {
		var got []obj.ObjMesh
		var err error
		o := core.Guard(func() { got, _, err = obj.ReadMesh(r) })
		switch {
		case o.Panicked:
			return fmt.Sprintf("through %s the reader panicked: %s", name, o.Msg)
		case err != nil:
			return fmt.Sprintf("through %s the reader failed: %v", name, err)
		case digest(got) != want:
			return fmt.Sprintf("through %s the reader returned different meshes (%d groups vs %d)", name, len(got), len(ref))
		}
		return ""
	}
	for _, rv := range core.ReaderVariants[1:] {
		if why := try(rv.Name, rv.New([]byte(text))); why != "" {
			return why
		}
	}
	if why := try("bytes.Reader with CRLF line endings", strings.NewReader(strings.ReplaceAll(text, "\n", "\r\n"))); why != "" {
		return why
	}
	return ""
}
