package c05

import (
	"fmt"
	"strconv"
	"strings"
)

// Independent reference reader for the triangulated subset of Wavefront OBJ, written from the
// format definition: v / vt / vn tables are global and 1-based (negative = relative to the end of
// the table so far), "g" names the group of the following faces (no g yet, or g without a name =
// "default"), "usemtl" names the material of the following faces until the next usemtl, a face
// corner is v, v/vt, v//vn or v/vt/vn. Everything else (#, mtllib, o, s …) is ignored.
// It yields one record per face: group, material, corner syntax and the per-corner values.

type Corner struct {
	P          [3]float32
	T          [2]float32
	N          [3]float32
	HasT, HasN bool
}

type Face struct {
	Group string
	Mat   string // "" = no usemtl in force
	// MatLocal: the usemtl in force was stated after the g line that opened the face's group
	// (or there is no g line before the face at all).
	MatLocal bool
	Syntax   string // "v", "v/vt", "v//vn", "v/vt/vn" (of the first corner)
	C        [3]Corner
}

func refRead(txt string) ([]Face, error) {
	var vs, vns [][3]float32
	var vts [][2]float32
	var out []Face
	group, mat, matLocal := "default", "", true
	floats := func(f []string, n int) ([3]float32, error) {
		var r [3]float32
		if len(f) < n {
			return r, fmt.Errorf("needs %d numbers: %v", n, f)
		}
		for i := 0; i < n; i++ {
			x, err := strconv.ParseFloat(f[i], 32)
			if err != nil {
				return r, err
			}
			r[i] = float32(x)
		}
		return r, nil
	}
	resolve := func(s string, n int, what string) (int, error) {
		i, err := strconv.Atoi(s)
		if err != nil {
			return 0, fmt.Errorf("bad %s reference %q", what, s)
		}
		if i < 0 {
			i = n + 1 + i
		}
		if i < 1 || i > n {
			return 0, fmt.Errorf("%s reference %s outside the %d %s lines read so far", what, s, n, what)
		}
		return i - 1, nil
	}
	for ln, line := range strings.Split(txt, "\n") {
		f := strings.Fields(line)
		if len(f) == 0 {
			continue
		}
		var err error
		switch f[0] {
		case "v":
			var p [3]float32
			p, err = floats(f[1:], 3)
			vs = append(vs, p)
		case "vn":
			var p [3]float32
			p, err = floats(f[1:], 3)
			vns = append(vns, p)
		case "vt":
			var p [3]float32
			p, err = floats(f[1:], 2)
			vts = append(vts, [2]float32{p[0], p[1]})
		case "g":
			group = strings.Join(f[1:], " ")
			if group == "" {
				group = "default"
			}
			matLocal = false
		case "usemtl":
			mat, matLocal = strings.Join(f[1:], " "), true
		case "f":
			if len(f) != 4 {
				return out, fmt.Errorf("line %d: face with %d corners (only triangles are in scope)", ln+1, len(f)-1)
			}
			fc := Face{Group: group, Mat: mat, MatLocal: matLocal && mat != ""}
			for c := 0; c < 3 && err == nil; c++ {
				parts := strings.Split(f[1+c], "/")
				if len(parts) > 3 {
					err = fmt.Errorf("corner %q", f[1+c])
					break
				}
				var k Corner
				var i int
				if i, err = resolve(parts[0], len(vs), "v"); err != nil {
					break
				}
				k.P = vs[i]
				syn := "v"
				if len(parts) >= 2 && parts[1] != "" {
					if i, err = resolve(parts[1], len(vts), "vt"); err != nil {
						break
					}
					k.T, k.HasT = vts[i], true
					syn = "v/vt"
				}
				if len(parts) == 3 && parts[2] != "" {
					if i, err = resolve(parts[2], len(vns), "vn"); err != nil {
						break
					}
					k.N, k.HasN = vns[i], true
					if k.HasT {
						syn = "v/vt/vn"
					} else {
						syn = "v//vn"
					}
				}
				if c == 0 {
					fc.Syntax = syn
				}
				fc.C[c] = k
			}
			if err == nil {
				out = append(out, fc)
			}
		}
		if err != nil {
			return out, fmt.Errorf("line %d %q: %v", ln+1, line, err)
		}
	}
	return out, nil
}

// key renders the corner values of a face (bit-exact float32) for multiset comparison.
func (f Face) key() string {
	var b strings.Builder
	for _, c := range f.C {
		fmt.Fprintf(&b, "%v", c.P)
		if c.HasT {
			fmt.Fprintf(&b, "t%v", c.T)
		}
		if c.HasN {
			fmt.Fprintf(&b, "n%v", c.N)
		}
		b.WriteByte('|')
	}
	return b.String()
}
