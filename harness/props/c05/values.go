package c05

// Scope (a-values): the value dimension of the writer→reader round trip.  The mesh enumeration of
// scope (a) draws every coordinate from a handful of ordinary numbers; a text codec, however, has
// value-dependent paths of its own (number formatting, exponent handling, integer fast paths).  This
// scope sends a ladder of float32 values — every binade of the float32 range, subnormals, both zeros,
// values just above/below powers of two, decimal powers, the int32/int64/uint64 borders — through
// every component slot of a corner (position, normal, texture coordinate) of a mesh that is written
// after an ordinary one, and demands the same per-corner values back at float32 precision.

import (
	"bytes"
	"fmt"
	"math"
	"strconv"
	"strings"

	"github.com/EliCDavis/polyform/formats/obj"
	"github.com/EliCDavis/polyform/modeling"
	"github.com/EliCDavis/vector/vector2"
	"github.com/EliCDavis/vector/vector3"

	"verif/harness/core"
	"verif/harness/meshlib"
)

var slotNames = [...]string{"position.x", "position.y", "position.z", "normal.x", "normal.y", "normal.z", "uv.x", "uv.y", "every-component"}

func valueLadder() []uint32 { return core.Float32Ladder() }

func magnitudeClass(b uint32) string { return core.MagnitudeClass(b) }

// valueMesh: one triangle with ordinary, pairwise different values, the slot replaced by x.
func valueMesh(slot int, x float64) (m modeling.Mesh, pos, nrm [3][3]float64, uv [3][2]float64) {
	for i := 0; i < 3; i++ {
		p := meshlib.DistinctPos(i)
		pos[i] = [3]float64{p.X(), p.Y(), p.Z()}
		a := meshlib.AttrValue(modeling.NormalAttribute, i)
		nrm[i] = [3]float64{a[0], a[1], a[2]}
		t := meshlib.AttrValue(modeling.TexCoordAttribute, i)
		uv[i] = [2]float64{t[0], t[1]}
	}
	const v = 1 // the middle vertex: neither the first nor the last value of its block
	switch {
	case slot < 3:
		pos[v][slot] = x
	case slot < 6:
		nrm[v][slot-3] = x
	case slot < 8:
		uv[v][slot-6] = x
	default:
		pos[v] = [3]float64{x, x, x}
		nrm[v] = [3]float64{x, x, x}
		uv[v] = [2]float64{x, x}
	}
	ps, ns, ts := make([]vector3.Float64, 3), make([]vector3.Float64, 3), make([]vector2.Float64, 3)
	for i := 0; i < 3; i++ {
		ps[i] = vector3.New(pos[i][0], pos[i][1], pos[i][2])
		ns[i] = vector3.New(nrm[i][0], nrm[i][1], nrm[i][2])
		ts[i] = vector2.New(uv[i][0], uv[i][1])
	}
	m = modeling.NewTriangleMesh([]int{0, 1, 2}).
		SetFloat3Attribute(modeling.PositionAttribute, ps).
		SetFloat3Attribute(modeling.NormalAttribute, ns).
		SetFloat2Attribute(modeling.TexCoordAttribute, ts)
	return
}

const clValue = "the same per-corner position, normal and texture coordinate (float32 precision) for every float32 value of a coordinate"

func (k *checker) valueCase(bits uint32, slot int) {
	c := k.c
	cs := Case{Kind: "value", Bits: bits, Slot: slot}
	x := float64(math.Float32frombits(bits))
	scope := "values/" + slotNames[slot]
	class := "value/" + slotNames[slot] + "/" + magnitudeClass(bits)
	what := fmt.Sprintf("value %v (float32 bits %#08x) in %s of the second mesh's middle vertex", x, bits, slotNames[slot])
	c.Nontrivial("value", bits, slot)

	vm, pos, nrm, uv := valueMesh(slot, x)
	first := MeshDesc{Name: "first", Spec: meshlib.Spec{Topo: "tri", V: 3, Idx: []int{0, 1, 2}, Mix: "PNT"}}
	var buf bytes.Buffer
	var err error
	o := core.Guard(func() {
		err = obj.WriteMeshes([]obj.ObjMesh{first.build(), {Name: "val", Mesh: vm}}, "", &buf)
	})
	if o.Panicked || err != nil {
		msg := o.Msg
		if err != nil {
			msg = err.Error()
		}
		c.Eval(scope, "write-failure")
		k.fail("obj.WriteMeshes", clFailA, class, msg+" — "+what, cs)
		return
	}
	text := buf.String()

	// what the text itself says (independent tokeniser): the last three v / vn / vt lines belong to "val"
	var tv, tn, tt [][]float64
	textOK := true
	for _, ln := range strings.Split(text, "\n") {
		f := strings.Fields(ln)
		if len(f) == 0 {
			continue
		}
		var dst *[][]float64
		switch f[0] {
		case "v":
			dst = &tv
		case "vn":
			dst = &tn
		case "vt":
			dst = &tt
		default:
			continue
		}
		var row []float64
		for _, tok := range f[1:] {
			g, e := strconv.ParseFloat(tok, 64)
			if e != nil {
				textOK = false
			}
			row = append(row, g)
		}
		*dst = append(*dst, row)
	}
	textSays := func(rows [][]float64, want []float64, vi int) bool {
		if len(rows) < 3 {
			return false
		}
		r := rows[len(rows)-3+vi]
		if len(r) < len(want) {
			return false
		}
		for i, w := range want {
			if !f32near(r[i], float32(w)) {
				return false
			}
		}
		return true
	}
	for vi := 0; vi < 3 && textOK; vi++ {
		textOK = textSays(tv, pos[vi][:], vi) && textSays(tn, nrm[vi][:], vi) && textSays(tt, uv[vi][:], vi)
	}
	site := "obj.ReadMesh"
	if !textOK {
		site = "obj.WriteMeshes"
	}

	var back []obj.ObjMesh
	o = core.Guard(func() { back, _, err = obj.ReadMesh(strings.NewReader(text)) })
	if o.Panicked || err != nil {
		msg := o.Msg
		if err != nil {
			msg = err.Error()
		}
		c.Eval(scope, "read-failure")
		k.fail(site, clFailA, class, msg+" — "+what+"\n"+text, cs)
		return
	}
	var g *obj.ObjMesh
	for i := range back {
		if back[i].Name == "val" {
			g = &back[i]
		}
	}
	if g == nil {
		c.Eval(scope, "group-lost")
		k.fail(site, clGroups, class, "no group named \"val\" read back — "+what+"\n"+text, cs)
		return
	}
	snap := meshlib.Snapshot(g.Mesh)
	p3, hasP := snap.F3[modeling.PositionAttribute]
	n3, hasN := snap.F3[modeling.NormalAttribute]
	t2, hasT := snap.F2[modeling.TexCoordAttribute]
	if cl, det := snap.WF(); cl != "" || len(snap.Idx) != 3 || !hasP || !hasN || !hasT {
		c.Eval(scope, "shape-mismatch")
		k.fail(site, clTris, class, fmt.Sprintf("group \"val\" read back with %d indices, position=%v normal=%v uv=%v %s %s — %s\n%s", len(snap.Idx), hasP, hasN, hasT, cl, det, what, text), cs)
		return
	}
	outcome := "ok"
	for cc := 0; cc < 3; cc++ {
		vi := snap.Idx[cc]
		gp, gn, gt := p3[vi], n3[vi], t2[vi]
		switch {
		case !(f32near(gp.X(), float32(pos[cc][0])) && f32near(gp.Y(), float32(pos[cc][1])) && f32near(gp.Z(), float32(pos[cc][2]))):
			outcome = "mismatch"
			k.fail(site, clValue, class, fmt.Sprintf("corner %d position written %v, read back %v — %s\n%s", cc, pos[cc], gp, what, text), cs)
		case !(f32near(gn.X(), float32(nrm[cc][0])) && f32near(gn.Y(), float32(nrm[cc][1])) && f32near(gn.Z(), float32(nrm[cc][2]))):
			outcome = "mismatch"
			k.fail(site, clValue, class, fmt.Sprintf("corner %d normal written %v, read back %v — %s\n%s", cc, nrm[cc], gn, what, text), cs)
		case !(f32near(gt.X(), float32(uv[cc][0])) && f32near(gt.Y(), float32(uv[cc][1]))):
			outcome = "mismatch"
			k.fail(site, clValue, class, fmt.Sprintf("corner %d texture coordinate written %v, read back %v — %s\n%s", cc, uv[cc], gt, what, text), cs)
		}
		if outcome != "ok" {
			break
		}
	}
	c.Eval(scope, outcome+"/"+magnitudeClass(bits))
	if bits%997 == 0 {
		c.Sample(scope, map[string]any{"value": x, "text": text})
	}
}

func (k *checker) runValues(base int) bool {
	c := k.c
	lad := valueLadder()
	i := 0
	for _, b := range lad {
		for slot := range slotNames {
			i++
			if !c.Mine(base + i) {
				continue
			}
			if c.Expired() {
				return false
			}
			k.valueCase(b, slot)
		}
	}
	c.Bound("a.values", fmt.Sprintf("%d float32 values (both signs; both zeros, subnormals, every binade 2^-149..2^127 at x1, x1.5, x(1+ulp), x(2-ulp), decimal powers 1e-45..3e38, the 2^24/2^31/2^32/2^53/2^63/2^64 borders) x %d component slots of a corner of the second of two meshes", len(lad), len(slotNames)))
	return true
}

// layoutAgreement re-reads a text in the other line layouts a valid OBJ file comes in — without the
// final newline, with CRLF line endings, both — and demands the meshes of the plain reading.
func layoutAgreement(text string, ref []obj.ObjMesh) (why, layout string) {
	digest := func(ms []obj.ObjMesh) string {
		var sb strings.Builder
		for _, m := range ms {
			fmt.Fprintf(&sb, "%q:%x;", m.Name, meshlib.QuickHash(m.Mesh))
		}
		return sb.String()
	}
	want := digest(ref)
	crlf := strings.ReplaceAll(text, "\n", "\r\n")
	for _, v := range []struct{ name, text string }{
		{"no-final-newline", strings.TrimSuffix(text, "\n")},
		{"crlf", crlf},
		{"crlf-no-final-newline", strings.TrimSuffix(crlf, "\r\n")},
	} {
		var got []obj.ObjMesh
		var err error
		o := core.Guard(func() { got, _, err = obj.ReadMesh(strings.NewReader(v.text)) })
		switch {
		case o.Panicked:
			return fmt.Sprintf("the same text %s: the reader panicked: %s", v.name, o.Msg), v.name
		case err != nil:
			return fmt.Sprintf("the same text %s: the reader failed: %v", v.name, err), v.name
		case digest(got) != want:
			ng, nw := 0, 0
			for _, m := range got {
				ng += m.Mesh.Indices().Len() / 3
			}
			for _, m := range ref {
				nw += m.Mesh.Indices().Len() / 3
			}
			return fmt.Sprintf("the same text %s loads as %d groups / %d faces, the newline-terminated text as %d groups / %d faces", v.name, len(got), ng, len(ref), nw), v.name
		}
	}
	return "", ""
}
