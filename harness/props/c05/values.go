package c05

// Scope (a-values): the value dimension of the writer→reader round trip.  The mesh enumeration of
// scope (a) draws every coordinate from a handful of ordinary numbers; a text codec, however, has
// value-dependent paths of its own (number formatting, exponent handling, integer fast paths).  This
// scope sends a ladder of float32 values — every binade of the float32 range, subnormals, both zeros,
// values just above/below powers of two, decimal powers, the int32/int64/uint64 borders — through
// every component slot of a corner (position, normal, texture coordinate) of a mesh that is written
// after an ordinary one, and demands the same per-corner values back at float32 precision.

import (
	"bytes"
	"fmt"
	"io"
	"math"
	"path/filepath"
	"strconv"
	"strings"

	"github.com/EliCDavis/polyform/formats/obj"
	"github.com/EliCDavis/polyform/modeling"
	"github.com/EliCDavis/vector/vector2"
	"github.com/EliCDavis/vector/vector3"

	"verif/harness/core"
	"verif/harness/meshlib"
)

var slotNames = [...]string{"position.x", "position.y", "position.z", "normal.x", "normal.y", "normal.z", "uv.x", "uv.y", "every-component"}

func valueLadder() []uint32 { return core.Float32Ladder() }

func magnitudeClass(b uint32) string { return core.MagnitudeClass(b) }

// valueMesh: one triangle with ordinary, pairwise different values, the slot replaced by x.
func valueMesh(slot int, x float64) (m modeling.Mesh, pos, nrm [3][3]float64, uv [3][2]float64) {
	for i := 0; i < 3; i++ {
		p := meshlib.DistinctPos(i)
		pos[i] = [3]float64{p.X(), p.Y(), p.Z()}
		a := meshlib.AttrValue(modeling.NormalAttribute, i)
		nrm[i] = [3]float64{a[0], a[1], a[2]}
		t := meshlib.AttrValue(modeling.TexCoordAttribute, i)
		uv[i] = [2]float64{t[0], t[1]}
	}
	const v = 1 // the middle vertex: neither the first nor the last value of its block
	switch {
	case slot < 3:
		pos[v][slot] = x
	case slot < 6:
		nrm[v][slot-3] = x
	case slot < 8:
		uv[v][slot-6] = x
	default:
		pos[v] = [3]float64{x, x, x}
		nrm[v] = [3]float64{x, x, x}
		uv[v] = [2]float64{x, x}
	}
	ps, ns, ts := make([]vector3.Float64, 3), make([]vector3.Float64, 3), make([]vector2.Float64, 3)
	for i := 0; i < 3; i++ {
		ps[i] = vector3.New(pos[i][0], pos[i][1], pos[i][2])
		ns[i] = vector3.New(nrm[i][0], nrm[i][1], nrm[i][2])
		ts[i] = vector2.New(uv[i][0], uv[i][1])
	}
	m = modeling.NewTriangleMesh([]int{0, 1, 2}).
		SetFloat3Attribute(modeling.PositionAttribute, ps).
		SetFloat3Attribute(modeling.NormalAttribute, ns).
		SetFloat2Attribute(modeling.TexCoordAttribute, ts)
	return
}

const clValue = "the same per-corner position, normal and texture coordinate (float32 precision) for every float32 value of a coordinate"

func (k *checker) valueCase(bits uint32, slot int) {
	c := k.c
	cs := Case{Kind: "value", Bits: bits, Slot: slot}
	x := float64(math.Float32frombits(bits))
	scope := "values/" + slotNames[slot]
	class := "value/" + slotNames[slot] + "/" + magnitudeClass(bits)
	what := fmt.Sprintf("value %v (float32 bits %#08x) in %s of the second mesh's middle vertex", x, bits, slotNames[slot])
	c.Nontrivial("value", bits, slot)

	vm, pos, nrm, uv := valueMesh(slot, x)
	first := MeshDesc{Name: "first", Spec: meshlib.Spec{Topo: "tri", V: 3, Idx: []int{0, 1, 2}, Mix: "PNT"}}
	var buf bytes.Buffer
	var err error
	o := core.Guard(func() {
		err = obj.WriteMeshes([]obj.ObjMesh{first.build(), {Name: "val", Mesh: vm}}, "", &buf)
	})
	if o.Panicked || err != nil {
		msg := o.Msg
		if err != nil {
			msg = err.Error()
		}
		c.Eval(scope, "write-failure")
		k.fail("obj.WriteMeshes", clFailA, class, msg+" — "+what, cs)
		return
	}
	text := buf.String()

	// what the text itself says (independent tokeniser): the last three v / vn / vt lines belong to "val"
	var tv, tn, tt [][]float64
	textOK := true
	for _, ln := range strings.Split(text, "\n") {
		f := strings.Fields(ln)
		if len(f) == 0 {
			continue
		}
		var dst *[][]float64
		switch f[0] {
		case "v":
			dst = &tv
		case "vn":
			dst = &tn
		case "vt":
			dst = &tt
		default:
			continue
		}
		var row []float64
		for _, tok := range f[1:] {
			g, e := strconv.ParseFloat(tok, 64)
			if e != nil {
				textOK = false
			}
			row = append(row, g)
		}
		*dst = append(*dst, row)
	}
	textSays := func(rows [][]float64, want []float64, vi int) bool {
		if len(rows) < 3 {
			return false
		}
		r := rows[len(rows)-3+vi]
		if len(r) < len(want) {
			return false
		}
		for i, w := range want {
			if !f32near(r[i], float32(w)) {
				return false
			}
		}
		return true
	}
	for vi := 0; vi < 3 && textOK; vi++ {
		textOK = textSays(tv, pos[vi][:], vi) && textSays(tn, nrm[vi][:], vi) && textSays(tt, uv[vi][:], vi)
	}
	site := "obj.ReadMesh"
	if !textOK {
		site = "obj.WriteMeshes"
	}

	var back []obj.ObjMesh
	o = core.Guard(func() { back, _, err = obj.ReadMesh(strings.NewReader(text)) })
	if o.Panicked || err != nil {
		msg := o.Msg
		if err != nil {
			msg = err.Error()
		}
		c.Eval(scope, "read-failure")
		k.fail(site, clFailA, class, msg+" — "+what+"\n"+text, cs)
		return
	}
	var g *obj.ObjMesh
	for i := range back {
		if back[i].Name == "val" {
			g = &back[i]
		}
	}
	if g == nil {
		c.Eval(scope, "group-lost")
		k.fail(site, clGroups, class, "no group named \"val\" read back — "+what+"\n"+text, cs)
		return
	}
	snap := meshlib.Snapshot(g.Mesh)
	p3, hasP := snap.F3[modeling.PositionAttribute]
	n3, hasN := snap.F3[modeling.NormalAttribute]
	t2, hasT := snap.F2[modeling.TexCoordAttribute]
	if cl, det := snap.WF(); cl != "" || len(snap.Idx) != 3 || !hasP || !hasN || !hasT {
		c.Eval(scope, "shape-mismatch")
		k.fail(site, clTris, class, fmt.Sprintf("group \"val\" read back with %d indices, position=%v normal=%v uv=%v %s %s — %s\n%s", len(snap.Idx), hasP, hasN, hasT, cl, det, what, text), cs)
		return
	}
	outcome := "ok"
	for cc := 0; cc < 3; cc++ {
		vi := snap.Idx[cc]
		gp, gn, gt := p3[vi], n3[vi], t2[vi]
		switch {
		case !(f32near(gp.X(), float32(pos[cc][0])) && f32near(gp.Y(), float32(pos[cc][1])) && f32near(gp.Z(), float32(pos[cc][2]))):
			outcome = "mismatch"
			k.fail(site, clValue, class, fmt.Sprintf("corner %d position written %v, read back %v — %s\n%s", cc, pos[cc], gp, what, text), cs)
		case !(f32near(gn.X(), float32(nrm[cc][0])) && f32near(gn.Y(), float32(nrm[cc][1])) && f32near(gn.Z(), float32(nrm[cc][2]))):
			outcome = "mismatch"
			k.fail(site, clValue, class, fmt.Sprintf("corner %d normal written %v, read back %v — %s\n%s", cc, nrm[cc], gn, what, text), cs)
		case !(f32near(gt.X(), float32(uv[cc][0])) && f32near(gt.Y(), float32(uv[cc][1]))):
			outcome = "mismatch"
			k.fail(site, clValue, class, fmt.Sprintf("corner %d texture coordinate written %v, read back %v — %s\n%s", cc, uv[cc], gt, what, text), cs)
		}
		if outcome != "ok" {
			break
		}
	}
	c.Eval(scope, outcome+"/"+magnitudeClass(bits))
	if bits%997 == 0 {
		c.Sample(scope, map[string]any{"value": x, "text": text})
	}
}

func (k *checker) runValues(base int) bool {
	c := k.c
	lad := valueLadder()
	i := 0
	for _, b := range lad {
		for slot := range slotNames {
			i++
			if !c.Mine(base + i) {
				continue
			}
			if c.Expired() {
				return false
			}
			k.valueCase(b, slot)
		}
	}
	c.Bound("a.values", fmt.Sprintf("%d float32 values (both signs; both zeros, subnormals, every binade 2^-149..2^127 at x1, x1.5, x(1+ulp), x(2-ulp), decimal powers 1e-45..3e38, the 2^24/2^31/2^32/2^53/2^63/2^64 borders) x %d component slots of a corner of the second of two meshes", len(lad), len(slotNames)))
	return true
}

// layoutAgreement re-reads a text in the other line layouts a valid OBJ file comes in — without the
// final newline, with CRLF line endings, both, with every line indented by blanks or a tab and with
// trailing blanks — and demands the meshes of the plain reading.
func layoutAgreement(text string, ref []obj.ObjMesh) (why, layout string) {
	digest := func(ms []obj.ObjMesh) string {
		var sb strings.Builder
		for _, m := range ms {
			fmt.Fprintf(&sb, "%q:%x;", m.Name, meshlib.QuickHash(m.Mesh))
		}
		return sb.String()
	}
	want := digest(ref)
	crlf := strings.ReplaceAll(text, "\n", "\r\n")
	for _, v := range []struct{ name, text string }{
		{"no-final-newline", strings.TrimSuffix(text, "\n")},
		{"crlf", crlf},
		{"crlf-no-final-newline", strings.TrimSuffix(crlf, "\r\n")},
		{"indented-with-blanks", "  " + strings.ReplaceAll(strings.TrimSuffix(text, "\n"), "\n", "\n  ") + "\n"},
		{"indented-with-tabs-and-trailing-blanks", "\t" + strings.ReplaceAll(strings.TrimSuffix(text, "\n"), "\n", " \n\t") + " \n"},
	} {
		var got []obj.ObjMesh
		var err error
		o := core.Guard(func() { got, _, err = obj.ReadMesh(strings.NewReader(v.text)) })
		switch {
		case o.Panicked:
			return fmt.Sprintf("the same text %s: the reader panicked: %s", v.name, o.Msg), v.name
		case err != nil:
			return fmt.Sprintf("the same text %s: the reader failed: %v", v.name, err), v.name
		case digest(got) != want:
			ng, nw := 0, 0
			for _, m := range got {
				ng += m.Mesh.Indices().Len() / 3
			}
			for _, m := range ref {
				nw += m.Mesh.Indices().Len() / 3
			}
			return fmt.Sprintf("the same text %s loads as %d groups / %d faces, the newline-terminated text as %d groups / %d faces", v.name, len(got), ng, len(ref), nw), v.name
		}
	}
	return "", ""
}

// ---- names --------------------------------------------------------------------------------------
//
// Scope (a-names): group and material names are free text to the writer (it emits them verbatim) and
// must come back as they were: names containing '#', '/', '.', names that are OBJ keywords, digits,
// non-ASCII letters.  (Names with leading/trailing blanks or runs of blanks are outside the scope.)

var nameMenu = []string{"wheel#1", "#1", "a#b#c", "#", "x/y", "a.b", "ünï", "0", "-", "g", "usemtl", "v", "f", "vt", "mtllib", "o", "s", "paint#2"}

const clNames = "reading back yields one group per mesh with the same name, and the same material on every triangle, whatever characters the names are made of"

func (k *checker) nameCase(meshNames, matNames [2]string) {
	c := k.c
	cs := Case{Kind: "names", Names: []string{meshNames[0], meshNames[1], matNames[0], matNames[1]}}
	scope := "names"
	what := fmt.Sprintf("meshes %q, %q with materials %q, %q", meshNames[0], meshNames[1], matNames[0], matNames[1])
	c.Nontrivial("names", what)
	var ms []obj.ObjMesh
	mats := [2]*modeling.Material{{Name: matNames[0]}, {Name: matNames[1]}}
	for i := 0; i < 2; i++ {
		d := MeshDesc{Name: meshNames[i], Spec: meshlib.Spec{Topo: "tri", V: 3, Idx: []int{0, 1, 2}, Mix: "PNT"}}
		m := d.build()
		m.Mesh = m.Mesh.SetMaterials([]modeling.MeshMaterial{{PrimitiveCount: 1, Material: mats[i]}})
		ms = append(ms, m)
	}
	class := "names/" + nameClass(meshNames[0]+meshNames[1]+matNames[0]+matNames[1])
	var buf bytes.Buffer
	var err error
	o := core.Guard(func() { err = obj.WriteMeshes(ms, "", &buf) })
	if o.Panicked || err != nil {
		c.Eval(scope, "write-failure")
		k.fail("obj.WriteMeshes", clFailA, class, fmt.Sprint(o.Msg, err, " — ", what), cs)
		return
	}
	text := buf.String()
	var back []obj.ObjMesh
	o = core.Guard(func() { back, _, err = obj.ReadMesh(strings.NewReader(text)) })
	if o.Panicked || err != nil {
		c.Eval(scope, "read-failure")
		k.fail("obj.ReadMesh", clNames, class, fmt.Sprint("reading the written text failed: ", o.Msg, err, " — ", what, "\n", text), cs)
		return
	}
	outcome := "ok"
	if len(back) != 2 {
		outcome = "mismatch"
		k.fail("obj.ReadMesh", clNames, class, fmt.Sprintf("%d groups read back, 2 meshes written — %s\n%s", len(back), what, text), cs)
	} else {
		for i := 0; i < 2 && outcome == "ok"; i++ {
			mm := back[i].Mesh.Materials()
			switch {
			case back[i].Name != meshNames[i]:
				outcome = "mismatch"
				k.fail("obj.ReadMesh", clNames, class, fmt.Sprintf("group %d is named %q, mesh was named %q — %s\n%s", i, back[i].Name, meshNames[i], what, text), cs)
			case len(mm) != 1 || mm[0].Material == nil || mm[0].Material.Name != matNames[i] || mm[0].PrimitiveCount != 1:
				outcome = "mismatch"
				got := "none"
				if len(mm) > 0 && mm[0].Material != nil {
					got = fmt.Sprintf("%q x%d (%d ranges)", mm[0].Material.Name, mm[0].PrimitiveCount, len(mm))
				}
				k.fail("obj.ReadMesh", clNames, class, fmt.Sprintf("group %q carries material %s, the mesh had %q — %s\n%s", back[i].Name, got, matNames[i], what, text), cs)
			}
		}
		if outcome == "ok" && matNames[0] != matNames[1] && back[0].Mesh.Materials()[0].Material == back[1].Mesh.Materials()[0].Material {
			outcome = "mismatch"
			k.fail("obj.ReadMesh", clNames, class, fmt.Sprintf("two different materials came back as one — %s\n%s", what, text), cs)
		}
	}
	c.Eval(scope, outcome)
}

func nameClass(s string) string {
	switch {
	case strings.Contains(s, "#"):
		return "contains-hash"
	case strings.ContainsAny(s, "/.-"):
		return "punctuation"
	}
	for _, r := range s {
		if r > 127 {
			return "non-ascii"
		}
	}
	return "keyword-or-digit"
}

func (k *checker) runNames(base int) bool {
	c := k.c
	i := 0
	for _, a := range nameMenu {
		for _, b := range nameMenu {
			i++
			if !c.Mine(base + i) {
				continue
			}
			if c.Expired() {
				return false
			}
			if a != b {
				k.nameCase([2]string{a, b}, [2]string{"matA", "matB"})
				k.nameCase([2]string{"first", "second"}, [2]string{a, b})
			}
			k.nameCase([2]string{a, "other"}, [2]string{b, "matB"})
		}
	}
	c.Bound("a.names", fmt.Sprintf("every ordered pair of %d names (%q) as the two mesh names, as the two material names, and as one mesh name with one material name", len(nameMenu), nameMenu))
	return true
}

// ---- files: sequences of Save to one path -----------------------------------------------------------
//
// Scope (a-files): obj.Save writes "the mesh", not "the mesh over whatever the path held before".
// Every sequence of 1..3 saves of a three-mesh menu (6, 2 and 1 triangles; with two materials, one
// material, none) to the same path, followed by obj.Load: the loaded triangles are those of the mesh
// saved last.

var fileMenu = []MeshDesc{
	{Name: "", Spec: meshlib.Spec{Topo: "tri", V: 8, Idx: []int{0, 1, 2, 2, 1, 3, 4, 5, 6, 6, 5, 7, 0, 2, 4, 1, 3, 5}, Mix: "PNT"}, Mats: [][2]int{{4, 1}, {2, 2}}},
	{Name: "", Spec: meshlib.Spec{Topo: "tri", V: 4, Idx: []int{2, 1, 0, 1, 2, 3}, Mix: "PT"}, Mats: [][2]int{{2, 2}}},
	{Name: "", Spec: meshlib.Spec{Topo: "tri", V: 3, Idx: []int{0, 1, 2}, Mix: "P"}},
}

const clFiles = "writing a mesh to a file and loading the file yields the triangles of that mesh (whatever the path held before)"

func (k *checker) filesCase(seq []int) {
	c := k.c
	cs := Case{Kind: "files", Seq: append([]int{}, seq...)}
	scope := "files/save-sequences"
	class := fmt.Sprintf("files/saves=%d", len(seq))
	if len(seq) > 1 {
		if fileMenu[seq[len(seq)-1]].Spec.PrimCount() < fileMenu[seq[len(seq)-2]].Spec.PrimCount() {
			class += "/last-smaller-than-previous"
		} else {
			class += "/last-not-smaller"
		}
	}
	dir, derr := k.scratch()
	if derr != nil {
		c.HarnessError("scratch dir: %v", derr)
		return
	}
	path := filepath.Join(dir, fmt.Sprintf("seq-%d", k.n), "model.obj")
	k.n++
	c.Nontrivial("files", fmt.Sprint(seq))
	what := fmt.Sprintf("saves of meshes %v (triangles %v) to one path", seq, func() (t []int) {
		for _, i := range seq {
			t = append(t, fileMenu[i].Spec.PrimCount())
		}
		return
	}())
	var err error
	for _, i := range seq {
		m := fileMenu[i].build().Mesh
		o := core.Guard(func() { err = obj.Save(path, m) })
		if o.Panicked || err != nil {
			c.Eval(scope, "save-failure")
			k.fail("obj.Save", clFiles, class, fmt.Sprint("saving failed: ", o.Msg, err, " — ", what), cs)
			return
		}
	}
	last := fileMenu[seq[len(seq)-1]]
	var back []obj.ObjMesh
	o := core.Guard(func() { back, err = obj.Load(path) })
	if o.Panicked || err != nil {
		c.Eval(scope, "load-failure")
		k.fail("obj.Save", clFiles, class, fmt.Sprint("loading the file just saved failed: ", o.Msg, err, " — ", what), cs)
		return
	}
	var got [][3]vector3.Float64
	for _, g := range back {
		if !g.Mesh.HasFloat3Attribute(modeling.PositionAttribute) {
			continue
		}
		pos, idx := g.Mesh.Float3Attribute(modeling.PositionAttribute), g.Mesh.Indices()
		for t := 0; t+2 < idx.Len(); t += 3 {
			got = append(got, [3]vector3.Float64{pos.At(idx.At(t)), pos.At(idx.At(t + 1)), pos.At(idx.At(t + 2))})
		}
	}
	outcome := "ok"
	n := last.Spec.PrimCount()
	if len(got) != n {
		outcome = "mismatch"
		k.fail("obj.Save", clFiles, class, fmt.Sprintf("the mesh saved last has %d triangles, the file loads as %d — %s", n, len(got), what), cs)
	} else {
		for t := 0; t < n && outcome == "ok"; t++ {
			for cc := 0; cc < 3; cc++ {
				w := last.corner(t, cc)
				p := got[t][cc]
				if !(f32near(p.X(), w.P[0]) && f32near(p.Y(), w.P[1]) && f32near(p.Z(), w.P[2])) {
					outcome = "mismatch"
					k.fail("obj.Save", clFiles, class, fmt.Sprintf("triangle %d corner %d loads at %v, the mesh saved last has %v — %s", t, cc, p, w.P, what), cs)
					break
				}
			}
		}
	}
	c.Eval(scope, outcome)
}

func (k *checker) runFiles(base int) bool {
	c := k.c
	i := 0
	var rec func(seq []int)
	stop := false
	rec = func(seq []int) {
		if stop {
			return
		}
		if len(seq) > 0 {
			i++
			if c.Mine(base + i) {
				if c.Expired() {
					stop = true
					return
				}
				k.filesCase(seq)
			}
		}
		if len(seq) == 3 {
			return
		}
		for m := range fileMenu {
			rec(append(append([]int{}, seq...), m))
		}
	}
	rec(nil)
	if c.Mine(base + 100000) {
		k.afterFailedWrite()
	}
	if c.Mine(base + 100001) {
		k.afterFailedRead()
	}
	if c.Mine(base + 100002) {
		k.loadAfterReplace()
	}
	if c.Mine(base + 100003) {
		k.sinks()
	}
	c.Bound("a.files", "every sequence of 1..3 obj.Save calls over a menu of three meshes (6, 2, 1 triangles) to one path, then obj.Load")
	return !stop
}

// a write after a failed write (core.AfterFailedWrite): obj.WriteMeshes of one small mesh right after a
// list of three meshes with materials hit a sink that errors after 0 … 20000 bytes
func (k *checker) afterFailedWrite() {
	big := []obj.ObjMesh{fileMenu[0].build(), fileMenu[1].build(), fileMenu[0].build()}
	big[0].Name, big[1].Name, big[2].Name = "a", "b", "c"
	small := []obj.ObjMesh{fileMenu[2].build()}
	small[0].Name = "z"
	k.c.Nontrivial("after-failed-write")
	why := core.AfterFailedWrite(core.FailLimits, func(it int, w io.Writer) error {
		if it == 0 {
			return obj.WriteMeshes(big, "", w)
		}
		return obj.WriteMeshes(small, "", w)
	})
	if why != "" {
		k.c.Eval("files/after-failed-write", "mismatch")
		k.fail("obj.WriteMeshes", "writing a list of meshes yields the text of that list (also right after an earlier write failed)", "after-failed-write", why, Case{Kind: "after-failed-write"})
		return
	}
	k.c.Eval("files/after-failed-write", "ok")
}

// a read after a failed read (core.AfterFailedRead): obj.ReadMesh of a small good text right after the
// text of three meshes with materials, normals and texture coordinates was cut or damaged at every
// position; the good text re-uses the corner spellings of the damaged one (1, 1/1, 1/1/1, 1//1).
func (k *checker) afterFailedRead() {
	big := []obj.ObjMesh{fileMenu[0].build(), fileMenu[1].build(), fileMenu[0].build()}
	big[0].Name, big[1].Name, big[2].Name = "a", "b", "c"
	var bb bytes.Buffer
	if err := obj.WriteMeshes(big, "", &bb); err != nil {
		return
	}
	bad := core.BadInputs(bb.Bytes(), 4000)
	// hand-written damaged texts: the failure arrives after faces of the open group were read
	for _, syn := range []string{"1 2 3", "1/1 2/2 3/3", "1/1/1 2/2/2 3/3/3", "1//1 2//2 3//3"} {
		head := "v 5 5 5\nv 6 5 5\nv 5 6 5\nvt 0 0\nvt 1 0\nvt 0 1\nvn 0 0 1\nvn 0 1 0\nvn 1 0 0\ng open\nf " + syn + "\n"
		bad = append(bad, []byte(head+"v 1 oops 3\n"), []byte(head+"f 1/x 2 3\n"), []byte(head+"f 1 2 9999\n"), []byte(head+"vt a b\n"), []byte(head+"vn 1 2\n"))
	}
	goods := []string{
		"v 0 0 0\nv 1 0 0\nv 0 1 0\nv 0 0 1\nf 1 2 3\nf 1 3 4\n",
		"v 0 0 0\nv 1 0 0\nv 0 1 0\nvt 0 0\nvt 1 0\nvt 0 1\nvn 0 0 1\ng z\nf 1/1/1 2/2/1 3/3/1\n",
		"v 0 0 0\nv 1 0 0\nv 0 1 0\nvt 0.5 0.5\nvt 1 0\nvt 0 1\ng y\nf 1/1 2/2 3/3\n",
		"v 0 0 0\nv 1 0 0\nv 0 1 0\nvn 0 0 1\nvn 0 1 0\nvn 1 0 0\ng x\nf 1//1 2//2 3//3\n",
	}
	read := func(data []byte) (string, error) {
		ms, _, err := obj.ReadMesh(bytes.NewReader(data))
		if err != nil {
			return "", err
		}
		var sb strings.Builder
		for _, m := range ms {
			fmt.Fprintf(&sb, "%q:%x;", m.Name, meshlib.QuickHash(m.Mesh))
		}
		return sb.String(), nil
	}
	k.c.Nontrivial("after-failed-read")
	for _, g := range goods {
		if why := core.AfterFailedRead(bad, []byte(g), read); why != "" {
			k.c.Eval("files/after-failed-read", "mismatch")
			k.fail("obj.ReadMesh", "reading a text yields the meshes of that text (also right after an earlier read failed)", "after-failed-read", why, Case{Kind: "after-failed-read"})
			return
		}
	}
	k.c.Eval("files/after-failed-read", "ok")
}

// a load after the file was replaced (core.LoadAfterReplace): obj.Load of a path whose file was
// replaced in place by another text (two of the six have the same size), modification time put back.
func (k *checker) loadAfterReplace() {
	files := [][]byte{
		[]byte("v 0 0 0\nv 1 0 0\nv 0 1 0\nf 1 2 3\n"),
		[]byte("v 0 0 0\nv 2 0 0\nv 0 3 0\nf 1 2 3\n"),
		[]byte("v 0 0 0\nv 1 0 0\nv 0 1 0\nv 0 0 1\ng a\nf 1 2 3\ng b\nf 1 3 4\n"),
		[]byte("v 0 0 0\nv 1 0 0\nv 0 1 0\nvt 0 0\nvt 1 0\nvt 0 1\nvn 0 0 1\ng z\nf 1/1/1 2/2/1 3/3/1\n"),
		[]byte("v 5 5 5\nv 6 5 5\nv 5 6 5\nvt 0 0\nvt 1 0\nvt 0 1\nvn 0 1 0\ng z\nf 1/1/1 2/2/1 3/3/1\n"),
		[]byte("# nothing\n"),
	}
	k.c.Nontrivial("load-after-replace")
	why := core.LoadAfterReplace(".obj", files, func(path string) (string, error) {
		ms, err := obj.Load(path)
		if err != nil {
			return "", err
		}
		var sb strings.Builder
		for _, m := range ms {
			fmt.Fprintf(&sb, "%q:%x;", m.Name, meshlib.QuickHash(m.Mesh))
		}
		return sb.String(), nil
	})
	if why != "" {
		k.c.Eval("files/load-after-replace", "mismatch")
		k.fail("obj.Load", "loading a path yields the meshes of the text it holds now", "load-after-replace", why, Case{Kind: "load-after-replace"})
		return
	}
	k.c.Eval("files/load-after-replace", "ok")
}

// the same meshes to every kind of destination (core.SinkAgreement)
func (k *checker) sinks() {
	k.c.Nontrivial("destinations")
	lists := [][]obj.ObjMesh{
		{fileMenu[2].build()},
		{fileMenu[0].build(), fileMenu[1].build(), fileMenu[0].build()},
		{},
	}
	lists[1][0].Name, lists[1][1].Name, lists[1][2].Name = "a", "b", "c"
	var many []obj.ObjMesh
	for i := 0; i < 400; i++ {
		m := fileMenu[i%3].build()
		m.Name = fmt.Sprintf("g%d", i)
		many = append(many, m)
	}
	lists = append(lists, many)
	for _, l := range lists {
		if why := core.SinkAgreement(func(w io.Writer) error { return obj.WriteMeshes(l, "", w) }); why != "" {
			k.c.Eval("files/destinations", "mismatch")
			k.fail("obj.WriteMeshes", "writing a list of meshes yields the text of that list (whatever kind of io.Writer receives it)", "destinations", fmt.Sprintf("%d meshes: %s", len(l), why), Case{Kind: "sinks"})
			return
		}
	}
	k.c.Eval("files/destinations", "ok")
}
