package c16

// Lattice helpers shared with the BVH sub-package (props/c16/bvh).

func LatPoint(i int) V3                        { return latPoint(i) }
func CornerSet() []int                         { return append([]int{}, cornerSet...) }
func Degenerate(corners []int) bool            { return degenerate(corners) }
func SubsetsOf(points []int, size int) [][]int { return subsetsOf(points, size) }
func RayOrigins() [][3]float64                 { return rayOrig }
func RayDirs() [][3]float64                    { return rayDirs }
func RayRanges() [][2]float64                  { return rayRanges }
