// Package c16bvh: BVH part of C16 — BVHNode.Hit against an exhaustive scan (HitList.Hit and the
// per-element minimum) for every axis-choice sequence of the builder.
//
// The builder draws its split axis from math/rand; bin/build-bvh-c16.sh overlays rendering/bvh.go so
// that the draw is answered by verifrt/c16choice, and this explorer enumerates every answer sequence
// depth-first (the arity log of one execution tells which sequences remain).
package c16bvh

import (
	"encoding/json"
	"fmt"
	"math"

	"github.com/EliCDavis/polyform/math/geometry"
	"github.com/EliCDavis/polyform/modeling"
	"github.com/EliCDavis/polyform/rendering"
	choice "github.com/EliCDavis/polyform/verifrt/c16choice"
	"github.com/EliCDavis/vector/vector3"

	"verif/harness/core"
	"verif/harness/props/c16"
)

func init() { core.Register(core.Check{ID: "C16B", Run: run, Replay: replay}) }

type V3 = vector3.Float64

func v3(a [3]float64) V3 { return vector3.New(a[0], a[1], a[2]) }

// Case: element kind, ordered triangle list (lattice corner ids), axis script, entry point, one ray.
type Case struct {
	ElKind string      `json:"elements"` // "library-triangle" | "reference-triangle"
	Tris   [][]int     `json:"tris"`
	Script []int       `json:"script"`
	Whole  bool        `json:"whole_mesh"` // built by NewBVHFromMesh from one mesh instead of NewBVHTree over elements
	Origin [3]float64  `json:"origin"`
	Dir    [3]float64  `json:"dir"`
	Range  int         `json:"range"`
	Ladder *LadderCase `json:"ladder,omitempty"` // size-ladder case
	Reuse  bool        `json:"reuse,omitempty"`  // the caller's slice is re-used after the build (second build, refill)
}

// ---- reference element: a triangle with an exact, absolute-range hit test ----

type refTri struct {
	a, b, c V3
	box     geometry.AABB
}

func (t *refTri) BoundingBox(start, stop float64) *geometry.AABB { return &t.box }

// Möller–Trumbore; reports the hit when min <= t <= max (t measured from the ray origin).
func (t *refTri) Hit(r *rendering.TemporalRay, min, max float64, rec *rendering.HitRecord) bool {
	o, d := r.Origin(), r.Direction()
	e1, e2 := t.b.Sub(t.a), t.c.Sub(t.a)
	p := d.Cross(e2)
	det := e1.Dot(p)
	if math.Abs(det) < 1e-12 {
		return false
	}
	inv := 1 / det
	s := o.Sub(t.a)
	u := s.Dot(p) * inv
	if u < 0 || u > 1 {
		return false
	}
	q := s.Cross(e1)
	v := d.Dot(q) * inv
	if v < 0 || u+v > 1 {
		return false
	}
	tt := e2.Dot(q) * inv
	if tt < min || tt > max || tt <= 0 {
		return false
	}
	rec.Distance = tt
	rec.Point = r.At(tt)
	return true
}

func triMesh(tris [][]int) modeling.Mesh {
	var idx []int
	pos := make([]V3, 27)
	nrm := make([]V3, 27)
	for i := range pos {
		pos[i] = c16.LatPoint(i)
		nrm[i] = vector3.New(0., 1., 0.)
	}
	for _, t := range tris {
		idx = append(idx, t...)
	}
	return modeling.NewTriangleMesh(idx).
		SetFloat3Attribute(modeling.PositionAttribute, pos).
		SetFloat3Attribute(modeling.NormalAttribute, nrm)
}

func elements(kind string, tris [][]int) []rendering.Hittable {
	out := make([]rendering.Hittable, len(tris))
	for i, t := range tris {
		if kind == "reference-triangle" {
			a, b, c := c16.LatPoint(t[0]), c16.LatPoint(t[1]), c16.LatPoint(t[2])
			out[i] = &refTri{a, b, c, geometry.NewAABBFromPoints(a, b, c)}
		} else {
			// the library's own triangle element: the one-triangle hierarchy (box test + Triangle.Hit)
			choice.Reset(nil)
			out[i] = rendering.NewBVHFromMesh(triMesh([][]int{t}), nil)
		}
	}
	return out
}

type checker struct {
	c   *core.Ctx
	idx int
}

func (k *checker) mine() bool { k.idx++; return k.c.Mine(k.idx) }

const tol = 1e-9

type rayQ struct {
	o, d [3]float64
	ri   int
	tr   rendering.TemporalRay
}

var rays []rayQ

func init() {
	for _, o := range c16.RayOrigins() {
		for _, d := range c16.RayDirs() {
			for ri := range c16.RayRanges() {
				rays = append(rays, rayQ{o, d, ri, rendering.NewTemporalRay(v3(o), v3(d), 0)})
			}
		}
	}
}

type hitRes struct {
	hit  bool
	dist float64
}

func hitOf(h rendering.Hittable, r *rayQ) (res hitRes, o core.Outcome) {
	rg := c16.RayRanges()[r.ri]
	o = core.Guard(func() {
		rec := rendering.NewHitRecord()
		tr := r.tr
		if h.Hit(&tr, rg[0], rg[1], rec) {
			res = hitRes{true, rec.Distance}
		}
	})
	return
}

func agree(a, b hitRes) bool {
	if a.hit != b.hit {
		return false
	}
	return !a.hit || math.Abs(a.dist-b.dist) <= tol
}

const (
	clNearest = "the hierarchy reports a hit exactly when an exhaustive scan does, at the same (nearest) distance"
	clList    = "the exhaustive list scan reports the nearest of the per-element hits"
)

// order explores one ordered element list: the exhaustive scans once, then every axis-choice sequence.
// `only` restricts to one recorded (script, whole, ray).
func (k *checker) order(kind string, tris [][]int, only *Case) {
	c := k.c
	n := len(tris)
	els := elements(kind, tris)
	rangeClass := func(r *rayQ) string {
		if r.ri == 0 {
			return "range-from-0"
		}
		return "range-from-0.5"
	}
	sizeClass := fmt.Sprintf("%s/%d-elements", kind, min(n, 3))
	if n > 3 {
		sizeClass = kind + "/4+-elements"
	}
	sameRay := func(r *rayQ) bool {
		return only == nil || (only.Origin == r.o && only.Dir == r.d && only.Range == r.ri)
	}
	// per-element minimum and the library's list scan, per ray
	nearest := make([]hitRes, len(rays))
	// elemBroken[ray]: some element, asked alone, breaks the hit-test protocol the scans rely on
	// (a reported distance lies in [min,max]; lowering max below the reported distance removes the hit).
	// A disagreement on such a ray is the element's fault, not the hierarchy's or the list's.
	elemBroken := make([]string, len(rays))
	for ri := range rays {
		r := &rays[ri]
		if !sameRay(r) {
			continue
		}
		rg := c16.RayRanges()[r.ri]
		best := hitRes{}
		for ei, e := range els {
			h, _ := hitOf(e, r)
			if h.hit && (!best.hit || h.dist < best.dist) {
				best = h
			}
			if h.hit && elemBroken[ri] == "" {
				if h.dist < rg[0]-tol || h.dist > rg[1]+tol {
					elemBroken[ri] = fmt.Sprintf("element %d alone reports a hit at distance %.6g outside the range %v", ei, h.dist, rg)
				} else if h.dist-1e-6 > rg[0] {
					rec := rendering.NewHitRecord()
					tr := r.tr
					if e.Hit(&tr, rg[0], h.dist-1e-6, rec) {
						elemBroken[ri] = fmt.Sprintf("element %d alone hits at distance %.6g, and still reports a hit (at %.6g) when max is lowered to %.6g", ei, h.dist, rec.Distance, h.dist-1e-6)
					}
				}
			}
		}
		nearest[ri] = best
		if only == nil || only.Script == nil {
			l, o := hitOf(rendering.HitList(els), r)
			out := "ok"
			if o.Panicked || !agree(l, best) {
				out = "mismatch"
				site, class := "rendering.HitList.Hit", sizeClass+"/"+rangeClass(r)
				if elemBroken[ri] != "" {
					site, class = elemSite(kind), kind+"/element-hit-test-breaks-the-range-protocol/"+rangeClass(r)
				}
				c.Violate(core.Violation{Site: site, Clause: clList, Class: class,
					Detail: fmt.Sprintf("tris=%v ray origin=%v dir=%v range=%v: list scan %+v, nearest per-element hit %+v %s %s", tris, r.o, r.d, c16.RayRanges()[r.ri], l, best, o.Msg, elemBroken[ri]),
					Case:   Case{ElKind: kind, Tris: tris, Origin: r.o, Dir: r.d, Range: r.ri}})
			}
			c.Eval("hitlist/"+kind, out)
		}
	}
	if only != nil && only.Script == nil {
		return
	}
	// every axis-choice sequence, depth-first over the arity log
	entries := []bool{false}
	if kind == "library-triangle" {
		entries = []bool{false, true}
	}
	for _, whole := range entries {
		if only != nil && only.Whole != whole {
			continue
		}
		script := []int{}
		if only != nil {
			script = only.Script
		}
		for {
			choice.Reset(script)
			var root rendering.Hittable
			o := core.Guard(func() {
				if whole {
					root = rendering.NewBVHFromMesh(triMesh(tris), nil)
				} else {
					root = rendering.NewBVHTree(append([]rendering.Hittable{}, els...), 0, n, 0, 0)
				}
			})
			log := append([]int{}, choice.Log...)
			used := make([]int, len(log))
			for i := range used {
				if i < len(script) {
					used[i] = script[i]
				}
			}
			scope := "bvh/" + kind
			if whole {
				scope = "bvh/whole-mesh"
			}
			if o.Panicked {
				c.Eval(scope, "build-crash")
				site := "rendering.NewBVHTree"
				if o.Crash() {
					site = core.TopFrame(o.Stack)
				}
				c.Violate(core.Violation{Site: site, Clause: "the hierarchy can be built for every element list and axis sequence", Class: sizeClass,
					Detail: fmt.Sprintf("tris=%v script=%v: %s", tris, used, o.Msg), Case: Case{ElKind: kind, Tris: tris, Script: used, Whole: whole}})
			} else {
				c.Trace()
				if n >= 2 {
					c.Nontrivial(kind, whole, fmt.Sprint(tris), fmt.Sprint(used))
				}
				c.Sample(scope, map[string]any{"tris": tris, "axis_script": used})
				for ri := range rays {
					r := &rays[ri]
					if !sameRay(r) {
						continue
					}
					got, o := hitOf(root, r)
					out := "ok"
					if nearest[ri].hit {
						out = "ok-hit"
					}
					if o.Panicked || !agree(got, nearest[ri]) {
						out = "mismatch"
						cl := sizeClass + "/" + rangeClass(r)
						switch {
						case got.hit && !nearest[ri].hit:
							cl += "/spurious-hit"
						case !got.hit && nearest[ri].hit:
							cl += "/missed-hit"
						default:
							cl += "/not-the-nearest"
						}
						site := "rendering.BVHNode.Hit"
						if o.Crash() {
							site = core.TopFrame(o.Stack)
						} else if elemBroken[ri] != "" {
							site, cl = elemSite(kind), kind+"/element-hit-test-breaks-the-range-protocol/"+rangeClass(r)
						}
						c.Violate(core.Violation{Site: site, Clause: clNearest, Class: cl,
							Detail: fmt.Sprintf("tris=%v axis script=%v whole-mesh=%v ray origin=%v dir=%v range=%v: hierarchy %+v, exhaustive scan %+v %s %s", tris, used, whole, r.o, r.d, c16.RayRanges()[r.ri], got, nearest[ri], o.Msg, elemBroken[ri]),
							Case:   Case{ElKind: kind, Tris: tris, Script: used, Whole: whole, Origin: r.o, Dir: r.d, Range: r.ri}})
					}
					c.Eval(scope, out)
				}
				// the caller's slice after the build: a second hierarchy built from the same slice (the
				// builder sorts it in place, here along the opposite axes) and the slice refilled in
				// reverse must not reach the first hierarchy
				if !whole && n >= 3 && (only == nil || only.Reuse) {
					shared := append([]rendering.Hittable{}, els...)
					var first rendering.Hittable
					g := core.Guard(func() {
						choice.Reset(used)
						first = rendering.NewBVHTree(shared, 0, n, 0, 0)
						other := make([]int, 32)
						for i := range other {
							if len(used) > 0 {
								other[i] = 2 - used[i%len(used)]%3
							} else {
								other[i] = 2
							}
						}
						choice.Reset(other)
						_ = rendering.NewBVHTree(shared, 0, n, 0, 0)
						for i, j := 0, n-1; i < j; i, j = i+1, j-1 {
							shared[i], shared[j] = shared[j], shared[i]
						}
					})
					for ri := range rays {
						r := &rays[ri]
						if g.Panicked || elemBroken[ri] != "" || (only != nil && !sameRay(r)) {
							continue
						}
						got, o := hitOf(first, r)
						out := "ok"
						if o.Panicked || !agree(got, nearest[ri]) {
							out = "mismatch"
							c.Violate(core.Violation{Site: "rendering.NewBVHTree", Clause: clNearest, Class: sizeClass + "/callers-slice-reused-after-the-build",
								Detail: fmt.Sprintf("tris=%v axis script=%v, then a second hierarchy built from the same slice and the slice reversed; ray origin=%v dir=%v range=%v: first hierarchy %+v, exhaustive scan %+v %s", tris, used, r.o, r.d, c16.RayRanges()[r.ri], got, nearest[ri], o.Msg),
								Case:   Case{ElKind: kind, Tris: tris, Script: used, Origin: r.o, Dir: r.d, Range: r.ri, Reuse: true}})
						}
						c.Eval("bvh/callers-slice-reused", out)
					}
				}
			}
			if only != nil {
				break
			}
			// advance: last position that can still be incremented
			i := len(log) - 1
			for i >= 0 && used[i]+1 >= log[i] {
				i--
			}
			if i < 0 {
				break
			}
			script = append(append([]int{}, used[:i]...), used[i]+1)
		}
	}
	if len(choice.Unsupported) > 0 {
		c.Cap("the BVH builder draws from math/rand through %v, which the axis seam cannot enumerate", choice.Unsupported)
	}
}

func elemSite(kind string) string {
	if kind == "library-triangle" {
		return "rendering.rayIntersectsTri"
	}
	return "harness reference triangle"
}

func perms(n int) [][]int {
	var out [][]int
	var rec func(cur []int, used int)
	rec = func(cur []int, used int) {
		if len(cur) == n {
			out = append(out, append([]int{}, cur...))
			return
		}
		for i := 0; i < n; i++ {
			if used&(1<<i) == 0 {
				rec(append(cur, i), used|1<<i)
			}
		}
	}
	rec(nil, 0)
	return out
}

// pickEvery returns m members of a spread evenly by index.
func pickEvery(a [][]int, m int) [][]int {
	if m >= len(a) {
		return a
	}
	out := make([][]int, m)
	for i := range out {
		out[i] = a[i*len(a)/m]
	}
	return out
}

func run(c *core.Ctx) {
	k := &checker{c: c}
	var all [][]int
	for _, t := range c16.SubsetsOf(c16.CornerSet(), 3) {
		if !c16.Degenerate(t) {
			all = append(all, t)
		}
	}
	// family sizes per element count: all multisets/subsets of that many triangles out of the first m
	sizes := map[int]int{1: len(all), 2: 24, 3: 10, 4: 8, 5: 7}
	if c.Thorough() {
		sizes = map[int]int{1: len(all), 2: len(all), 3: 16, 4: 11, 5: 9}
	}
	c.Bound("triangles", fmt.Sprintf("%d non-degenerate triangles with corners in the ten-point corner set %v", len(all), c16.CornerSet()))
	c.Bound("family_sizes", fmt.Sprintf("k elements out of an evenly spread sub-family of m: %v", sizes))
	c.Bound("orders", "all k! input orders for k<=3, identity and reversed for k>=4")
	c.Bound("axis_sequences", "every answer sequence of the builder's axis draws (3 per node)")
	c.Bound("rays", fmt.Sprintf("%d (27 origins x 26 directions x ranges [0,inf), [0.5,2])", len(rays)))
	c.Bound("max_elements", 5)
	k.runLadder()
	if c.Expired() || c.Args["only"] == "ladder" {
		return
	}
	sawChoice := false
	for n := 1; n <= 5; n++ {
		fam := pickEvery(all, sizes[n])
		var rec func(cur []int, from int) bool
		rec = func(cur []int, from int) bool {
			if len(cur) == n {
				if !k.mine() {
					return true
				}
				if c.Expired() {
					return false
				}
				var orders [][]int
				if n <= 3 {
					orders = perms(n)
				} else {
					id, rev := make([]int, n), make([]int, n)
					for i := range id {
						id[i], rev[i] = i, n-1-i
					}
					orders = [][]int{id, rev}
				}
				seen := map[string]bool{}
				for _, p := range orders {
					tris := make([][]int, n)
					for i, j := range p {
						tris[i] = fam[cur[j]]
					}
					key := fmt.Sprint(tris)
					if seen[key] { // a multiset with repeated members has fewer distinct orders
						continue
					}
					seen[key] = true
					for _, kind := range []string{"library-triangle", "reference-triangle"} {
						k.order(kind, tris, nil)
						if len(choice.Log) > 0 {
							sawChoice = true
						}
					}
				}
				return true
			}
			start := from
			for i := start; i < len(fam); i++ {
				next := i + 1
				if n <= 2 {
					next = i // pairs may repeat a triangle (coincident elements)
				}
				if !rec(append(cur, i), next) {
					return false
				}
			}
			return true
		}
		if !rec(nil, 0) {
			return
		}
	}
	if !sawChoice && k.idx > 0 && c.R.Traces > 0 {
		c.Cap("no axis choice point was met: the builder does not draw from math/rand through the seam (deterministic builder or seam not installed)")
	}
}

func replay(c *core.Ctx) {
	var cs Case
	if err := json.Unmarshal(c.Replay, &cs); err != nil {
		c.HarnessError("bad case: %v", err)
		return
	}
	k := &checker{c: c}
	if cs.Ladder != nil {
		k.ladderSet(cs.Ladder.N, cs.Ladder.Scale, cs.Ladder)
		return
	}
	k.order(cs.ElKind, cs.Tris, &cs)
}
