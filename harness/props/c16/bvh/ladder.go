package c16bvh

import (
	"fmt"
	"math"

	"github.com/EliCDavis/polyform/modeling"
	"github.com/EliCDavis/polyform/rendering"
	choice "github.com/EliCDavis/polyform/verifrt/c16choice"
	"github.com/EliCDavis/vector/vector3"

	"verif/harness/core"
	"verif/harness/props/c16"
)

// Size ladder for the hierarchy: triangle soups of n = 2^k-1, 2^k, 2^k+1, 2^k+floor(2^k/3) triangles on
// the non-lattice layout of the octree ladder (scales 0.1 and 10), built by NewBVHFromMesh under four
// axis scripts (all x, all y, all z, and a non-periodic sequence — the axis dimension is enumerated
// exhaustively only in the small scopes), nearest hit against HitList.Hit and the per-element minimum.

// LadderCase: compact replay record.
type LadderCase struct {
	N      int     `json:"n"`
	Scale  float64 `json:"scale"`
	Script int     `json:"script"` // 0,1,2 = constant axis, 3 = non-periodic
	Ray    int     `json:"ray"`    // ray index * 2 + range index; -1 = the list scan
}

const ladderRays = 96

func ladderMesh(n int, s float64, from, to int) modeling.Mesh {
	var pos, nrm []V3
	for i := from; i < to; i++ {
		for _, v := range c16.LadderVerts("triangles", i, s) {
			pos = append(pos, vector3.New(v[0], v[1], v[2]))
			nrm = append(nrm, vector3.New(0., 1., 0.))
		}
	}
	idx := make([]int, len(pos))
	for i := range idx {
		idx[i] = i
	}
	return modeling.NewTriangleMesh(idx).
		SetFloat3Attribute(modeling.PositionAttribute, pos).
		SetFloat3Attribute(modeling.NormalAttribute, nrm)
}

func ladderScript(kind, nodes int) []int {
	sc := make([]int, nodes)
	for j := range sc {
		if kind < 3 {
			sc[j] = kind
		} else {
			x := float64(j+1) * 0.6180339887498949
			sc[j] = int(3 * (x - math.Floor(x)))
		}
	}
	return sc
}

func (k *checker) ladderSet(n int, s float64, only *LadderCase) {
	c := k.c
	tolD := 1e-9 * s
	scope := fmt.Sprintf("ladder/bvh/scale=%g", s)
	sizeCl := "n<=64"
	if n > 64 {
		sizeCl = "n>64"
	}
	violate := func(site, clause, what, detail string, script, ray int) {
		lc := LadderCase{N: n, Scale: s, Script: script, Ray: ray}
		c.Violate(core.Violation{Site: site, Clause: clause, Class: fmt.Sprintf("ladder/scale=%g/%s/%s", s, sizeCl, what),
			Detail: fmt.Sprintf("n=%d scale=%g axis script %d ray %d: %s", n, s, script, ray, detail), Case: Case{Ladder: &lc}})
	}
	// the elements (library triangles, one single-triangle hierarchy each) and the per-element minimum
	els := make([]rendering.Hittable, n)
	for i := range els {
		choice.Reset(nil)
		els[i] = rendering.NewBVHFromMesh(ladderMesh(n, s, i, i+1), nil)
	}
	type rayCase struct {
		tr       rendering.TemporalRay
		min, max float64
		nearest  hitRes
	}
	hit := func(h rendering.Hittable, r *rayCase) (res hitRes, o core.Outcome) {
		o = core.Guard(func() {
			rec := rendering.NewHitRecord()
			tr := r.tr
			if h.Hit(&tr, r.min, r.max, rec) {
				res = hitRes{true, rec.Distance}
			}
		})
		return
	}
	near := func(a, b hitRes) bool { return a.hit == b.hit && (!a.hit || math.Abs(a.dist-b.dist) <= tolD) }
	rcs := make([]*rayCase, ladderRays*2)
	for m := 0; m < ladderRays; m++ {
		o, d := c16.LadderRay(m, n, "triangles", s)
		for ri := 0; ri < 2; ri++ {
			qi := m*2 + ri
			if only != nil && only.Ray >= 0 && only.Ray != qi {
				continue
			}
			lo, hi := c16.LadderRange(ri, s)
			r := &rayCase{tr: rendering.NewTemporalRay(vector3.New(o[0], o[1], o[2]), vector3.New(d[0], d[1], d[2]), 0), min: lo, max: hi}
			for _, e := range els {
				if h, _ := hit(e, r); h.hit && (!r.nearest.hit || h.dist < r.nearest.dist) {
					r.nearest = h
				}
			}
			rcs[qi] = r
			if only == nil || only.Ray < 0 {
				l, o := hit(rendering.HitList(els), r)
				out := "ok"
				if o.Panicked || !near(l, r.nearest) {
					out = "mismatch"
					violate("rendering.HitList.Hit", clList, "list", fmt.Sprintf("list scan %+v, nearest per-element hit %+v %s", l, r.nearest, o.Msg), 0, -1)
				}
				c.Eval(scope+"/hitlist", out)
			}
		}
	}
	if only != nil && only.Ray < 0 {
		return
	}
	for script := 0; script < 4; script++ {
		if only != nil && only.Script != script {
			continue
		}
		if only != nil && only.Script == 4 {
			break
		}
		choice.Reset(ladderScript(script, 2*n+2))
		var root rendering.Hittable
		o := core.Guard(func() { root = rendering.NewBVHFromMesh(ladderMesh(n, s, 0, n), nil) })
		if o.Panicked {
			c.Eval(scope, "build-crash")
			site := "rendering.NewBVHTree"
			if o.Crash() {
				site = core.TopFrame(o.Stack)
			}
			violate(site, "the hierarchy can be built for every element list and axis sequence", "build", o.Msg, script, 0)
			continue
		}
		c.Trace()
		for qi, r := range rcs {
			if r == nil {
				continue
			}
			got, o := hit(root, r)
			out := "ok"
			if r.nearest.hit {
				out = "ok-hit"
			}
			if o.Panicked || !near(got, r.nearest) {
				out = "mismatch"
				what := "not-the-nearest"
				switch {
				case got.hit && !r.nearest.hit:
					what = "spurious-hit"
				case !got.hit && r.nearest.hit:
					what = "missed-hit"
				}
				site := "rendering.BVHNode.Hit"
				if o.Crash() {
					site = core.TopFrame(o.Stack)
				}
				violate(site, clNearest, what, fmt.Sprintf("hierarchy %+v, exhaustive scan %+v %s", got, r.nearest, o.Msg), script, qi)
			}
			c.Eval(scope, out)
		}
	}
	// NewBVHTree over the caller's own slice (the per-element hierarchies): after the build a second
	// hierarchy is built from the same slice (the builder sorts it in place, along other axes) and the
	// slice is refilled in reverse — the first hierarchy must not notice (script id 4)
	if only == nil || only.Script == 4 {
		shared := append([]rendering.Hittable{}, els...)
		var first rendering.Hittable
		o := core.Guard(func() {
			choice.Reset(ladderScript(3, 2*n+2))
			first = rendering.NewBVHTree(shared, 0, n, 0, 0)
			choice.Reset(ladderScript(0, 2*n+2))
			_ = rendering.NewBVHTree(shared, 0, n, 0, 0)
			for i, j := 0, n-1; i < j; i, j = i+1, j-1 {
				shared[i], shared[j] = shared[j], shared[i]
			}
		})
		if o.Panicked {
			c.Eval(scope+"/callers-slice-reused", "build-crash")
			violate("rendering.NewBVHTree", "the hierarchy can be built for every element list and axis sequence", "build", o.Msg, 4, 0)
			return
		}
		for qi, r := range rcs {
			if r == nil {
				continue
			}
			got, o := hit(first, r)
			out := "ok"
			if o.Panicked || !near(got, r.nearest) {
				out = "mismatch"
				violate("rendering.NewBVHTree", clNearest, "callers-slice-reused-after-the-build", fmt.Sprintf("first hierarchy %+v after a second build from the same slice and a refill, exhaustive scan %+v %s", got, r.nearest, o.Msg), 4, qi)
			}
			c.Eval(scope+"/callers-slice-reused", out)
		}
	}
}

func (k *checker) runLadder() {
	c := k.c
	maxK := 10
	if c.Thorough() {
		maxK = 12
	}
	sizes := c16.LadderSizes(maxK)
	c.Bound("ladder.sizes", fmt.Sprintf("2^k-1, 2^k, 2^k+1, 2^k+floor(2^k/3) for k=2..%d (largest %d triangles)", maxK, sizes[len(sizes)-1]))
	c.Bound("ladder.scales", []float64{0.1, 10})
	c.Bound("ladder.axis_scripts", "all-x, all-y, all-z, one non-periodic sequence (not exhaustive in the axis dimension)")
	c.Bound("ladder.rays", fmt.Sprintf("%d rays x ranges [0,inf), [0.1,0.7]*scale", ladderRays))
	for _, n := range sizes {
		for _, s := range []float64{0.1, 10} {
			if !k.mine() {
				continue
			}
			if c.Expired() {
				return
			}
			k.ladderSet(n, s, nil)
			c.Nontrivial("ladder", n, s)
			c.Sample("ladder/bvh", LadderCase{N: n, Scale: s})
		}
	}
}
