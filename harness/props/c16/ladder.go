package c16

import (
	"fmt"
	"math"

	"github.com/EliCDavis/polyform/math/geometry"
	"github.com/EliCDavis/polyform/modeling"
	"github.com/EliCDavis/polyform/trees"

	"verif/harness/core"
)

// Size ladder: n elements for n around every power of two, on a deterministic non-lattice layout
// (Kronecker low-discrepancy sequences — no period) scaled into a sub-unit and a multi-unit box, so
// that thresholds a change may introduce (leaf capacities, queue caps, depth limits, squared-vs-plain
// distance confusions that only bite below or above 1) are met. Depths automatic and 0..4.
//
// Off the lattice nothing is exact, so every set comparison is two-sided with a margin: an element
// that satisfies the predicate with margin must be reported, an element that fails it with margin
// must not be; anything in between is a tie. Closest: distance within 1e-9*scale of the scan over the
// elements' own closest points, identity any element within that tolerance of the minimum.

// LadderCase is the compact replay record: everything is regenerated from it.
type LadderCase struct {
	Kind  string  `json:"kind"` // points | triangles
	N     int     `json:"n"`
	Scale float64 `json:"scale"`
	Depth int     `json:"depth"`  // -1 = automatic
	QType string  `json:"qtype"`  // closest | contain | radius | ray | traverse | build
	QIdx  int     `json:"qindex"` // index into the query list of that type
}

// LadderSizes: 2^k-1, 2^k, 2^k+1 and 2^k+floor(2^k/3) for k = 2..maxK.
func LadderSizes(maxK int) []int { return ladderSizes(maxK) }

func ladderSizes(maxK int) []int {
	var out []int
	for k := 2; k <= maxK; k++ {
		p := 1 << k
		out = append(out, p-1, p, p+1, p+p/3)
	}
	return out
}

func frac(x float64) float64 { return x - math.Floor(x) }

const plastic = 1.2207440846057596 // root of x^4 = x + 1: 1/g, 1/g^2, 1/g^3 are rationally independent

var (
	r3a  = [3]float64{1 / plastic, 1 / (plastic * plastic), 1 / (plastic * plastic * plastic)}
	irrA = [3]float64{0.41421356237309515, 0.7320508075688772, 0.23606797749978958}
	irrB = [3]float64{0.6457513110645907, 0.3166247903553998, 0.605551275463989}
	irrQ = [3]float64{0.1231056256176606, 0.358898943540674, 0.7958315233127191}
)

const golden = 0.6180339887498949

func kron(i int, a [3]float64, off float64) [3]float64 {
	f := float64(i + 1)
	return [3]float64{frac(off + f*a[0]), frac(off + f*a[1]), frac(off + f*a[2])}
}

// LadderVerts: the vertices of element i (1 for points, 3 for triangles) at the given scale.
func LadderVerts(kind string, i int, s float64) [][3]float64 {
	u := kron(i, r3a, 0.5)
	a := [3]float64{s * u[0], s * u[1], s * u[2]}
	if kind == "points" {
		return [][3]float64{a}
	}
	t := frac(float64(i+1) * golden)
	size := s * (0.02 + 0.3*t*t) // mostly small, some spanning a third of the box
	e1, e2 := kron(i, irrA, 0.25), kron(i, irrB, 0.75)
	var b, c [3]float64
	for k := 0; k < 3; k++ {
		b[k] = a[k] + size*(e1[k]-0.5)
		c[k] = a[k] + size*(e2[k]-0.5)
	}
	return [][3]float64{a, b, c}
}

const (
	ladderNQ     = 128 // query points (96 spread over and around the box, 32 next to an element)
	ladderNRay   = 96
	ladderRanges = 2
)

var ladderRadii = []float64{0.03, 0.15, 0.6} // times the scale

func ladderQueryPoint(m, n int, kind string, s float64) [3]float64 {
	u := kron(m, irrQ, 0.125)
	if m < 96 {
		return [3]float64{s * (-0.3 + 1.6*u[0]), s * (-0.3 + 1.6*u[1]), s * (-0.3 + 1.6*u[2])}
	}
	j := int(frac(float64(m+1)*golden) * float64(n))
	vs := LadderVerts(kind, j, s)
	var a [3]float64 // the point itself / the triangle's centroid (strictly inside its bounds)
	for _, v := range vs {
		for k := 0; k < 3; k++ {
			a[k] += v[k] / float64(len(vs))
		}
	}
	return [3]float64{a[0] + s*1e-3*(u[0]-0.5), a[1] + s*1e-3*(u[1]-0.5), a[2] + s*1e-3*(u[2]-0.5)}
}

// LadderRay: origin around the box, aimed at the centroid of an element (three of four) or along a
// sequence direction; range index 0 = [0,inf), 1 = [0.1,0.7]*scale.
func LadderRay(m, n int, kind string, s float64) (o, d [3]float64) {
	u := kron(m+1000, irrQ, 0.375)
	o = [3]float64{s * (-0.3 + 1.6*u[0]), s * (-0.3 + 1.6*u[1]), s * (-0.3 + 1.6*u[2])}
	if m%4 == 3 {
		w := kron(m+5000, irrA, 0.625)
		return o, [3]float64{w[0] - 0.5, w[1] - 0.5, w[2] - 0.5}
	}
	j := int(frac(float64(m+1)*irrB[0]) * float64(n))
	var cen [3]float64
	vs := LadderVerts(kind, j, s)
	for _, v := range vs {
		for k := 0; k < 3; k++ {
			cen[k] += v[k] / float64(len(vs))
		}
	}
	return o, sub(cen, o)
}

func LadderRange(ri int, s float64) (float64, float64) {
	if ri == 0 {
		return 0, math.Inf(1)
	}
	return 0.1 * s, 0.7 * s
}

type bitset []uint64

func newBits(n int) bitset      { return make(bitset, (n+63)/64) }
func (b bitset) set(i int)      { b[i/64] |= 1 << uint(i%64) }
func (b bitset) has(i int) bool { return b[i/64]&(1<<uint(i%64)) != 0 }
func (b bitset) first() int {
	for w, x := range b {
		if x != 0 {
			for i := 0; i < 64; i++ {
				if x&(1<<uint(i)) != 0 {
					return w*64 + i
				}
			}
		}
	}
	return -1
}

type ladderSet struct {
	lc    LadderCase
	verts [][][3]float64
	boxes []box
	lib   []geometry.AABB
	els   []trees.Element
	mesh  modeling.Mesh
}

func newLadderSet(kind string, n int, s float64) *ladderSet {
	ls := &ladderSet{lc: LadderCase{Kind: kind, N: n, Scale: s}}
	var pos []V3
	for i := 0; i < n; i++ {
		vs := LadderVerts(kind, i, s)
		ls.verts = append(ls.verts, vs)
		b := box{lo: vs[0], hi: vs[0]}
		var pv []V3
		for _, v := range vs {
			for a := 0; a < 3; a++ {
				b.lo[a] = math.Min(b.lo[a], v[a])
				b.hi[a] = math.Max(b.hi[a], v[a])
			}
			pv = append(pv, v3(v[0], v[1], v[2]))
		}
		pos = append(pos, pv...)
		ls.boxes = append(ls.boxes, b)
		ls.lib = append(ls.lib, geometry.NewAABBFromPoints(pv...))
	}
	if kind == "points" {
		ls.mesh = modeling.NewPointCloud(nil, map[string][]V3{modeling.PositionAttribute: pos}, nil, nil, nil)
	} else {
		idx := make([]int, len(pos))
		for i := range idx {
			idx[i] = i
		}
		ls.mesh = modeling.NewTriangleMesh(idx).SetFloat3Attribute(modeling.PositionAttribute, pos)
	}
	ls.els = make([]trees.Element, ls.mesh.PrimitiveCount())
	ls.mesh.ScanPrimitives(func(i int, p modeling.Primitive) { ls.els[i] = p.Scope(modeling.PositionAttribute) })
	return ls
}

func (ls *ladderSet) exactDist(q [3]float64, i int) float64 {
	vs := ls.verts[i]
	if len(vs) == 1 {
		d := sub(q, vs[0])
		return math.Sqrt(dot(d, d))
	}
	return triDist(q, vs[0], vs[1], vs[2])
}

var ladderDepths = []int{autoDepth, 0, 1, 2, 3, 4}

// runLadderSet: all depths, all queries; `only` restricts to one recorded (depth, query).
func (k *checker) runLadderSet(ls *ladderSet, only *LadderCase) {
	c := k.c
	n, s, kind := ls.lc.N, ls.lc.Scale, ls.lc.Kind
	tolD := 1e-9 * s
	scope := fmt.Sprintf("ladder/%s/scale=%g", kind, s)
	sizeCl := "n<=64"
	if n > 64 {
		sizeCl = "n>64"
	}
	class := func(what string) string { return fmt.Sprintf("ladder/%s/scale=%g/%s/%s", kind, s, sizeCl, what) }
	wantQ := func(t string, i int) bool { return only == nil || (only.QType == t && only.QIdx == i) }
	violate := func(site, clause, what, detail string, depth int, qt string, qi int) {
		lc := ls.lc
		lc.Depth, lc.QType, lc.QIdx = depth, qt, qi
		c.Violate(core.Violation{Site: site, Clause: clause, Class: class(what), Detail: fmt.Sprintf("%s n=%d scale=%g depth=%d %s query #%d: %s", kind, n, s, depth, qt, qi, detail), Case: Case{Ladder: &lc}})
	}

	// ---- the scans (once per set) ----
	type pq struct {
		q           [3]float64
		dScan, dTru float64
		cYes, cNo   bitset
		rYes, rNo   []bitset
	}
	qs := make([]*pq, ladderNQ)
	for m := range qs {
		need := only == nil || ((only.QType == "closest" || only.QType == "contain") && only.QIdx == m) || (only.QType == "radius" && only.QIdx/len(ladderRadii) == m)
		if !need {
			continue
		}
		q := ladderQueryPoint(m, n, kind, s)
		qv := v3(q[0], q[1], q[2])
		p := &pq{q: q, dScan: math.Inf(1), dTru: math.Inf(1), cYes: newBits(n), cNo: newBits(n)}
		for range ladderRadii {
			p.rYes, p.rNo = append(p.rYes, newBits(n)), append(p.rNo, newBits(n))
		}
		for i := 0; i < n; i++ {
			p.dScan = math.Min(p.dScan, ls.els[i].ClosestPoint(qv).Distance(qv))
			p.dTru = math.Min(p.dTru, ls.exactDist(q, i))
			b := ls.boxes[i]
			in, out := true, false
			for a := 0; a < 3; a++ {
				if !(b.lo[a]+tolD <= q[a] && q[a] <= b.hi[a]-tolD) {
					in = false
				}
				if q[a] < b.lo[a]-tolD || q[a] > b.hi[a]+tolD {
					out = true
				}
			}
			if in {
				p.cYes.set(i)
			}
			if out {
				p.cNo.set(i)
			}
			d := math.Sqrt(b.dist2(q))
			for r, rad := range ladderRadii {
				if d <= rad*s-tolD {
					p.rYes[r].set(i)
				} else if d > rad*s+tolD {
					p.rNo[r].set(i)
				}
			}
		}
		qs[m] = p
	}
	type rq struct {
		ray     geometry.Ray
		min, mx float64
		yes, no bitset
	}
	rs := make([]*rq, ladderNRay*ladderRanges)
	for m := 0; m < ladderNRay; m++ {
		o, d := LadderRay(m, n, kind, s)
		ray := geometry.NewRay(v3(o[0], o[1], o[2]), v3(d[0], d[1], d[2]))
		for ri := 0; ri < ladderRanges; ri++ {
			qi := m*ladderRanges + ri
			if only != nil && !((only.QType == "ray" || only.QType == "traverse") && only.QIdx == qi) {
				continue
			}
			lo, hi := LadderRange(ri, s)
			r := &rq{ray: ray, min: lo, mx: hi, yes: newBits(n), no: newBits(n)}
			for i := 0; i < n; i++ {
				// the element's own bounds predicate, asked with a margin on both sides
				shr, grw := ls.lib[i], ls.lib[i]
				shr.Expand(-1e-10)
				grw.Expand(4e-9 * math.Max(1, s))
				if shr.IntersectsRayInRange(ray, lo+tolD, hi-tolD) {
					r.yes.set(i)
				} else if !grw.IntersectsRayInRange(ray, lo-tolD, hi+tolD) {
					r.no.set(i)
				}
			}
			rs[qi] = r
		}
	}

	setCheck := func(site, clause string, ids []int, yes, no bitset, depth int, qt string, qi int) string {
		got := newBits(n)
		for _, id := range ids {
			if id < 0 || id >= n {
				violate(site, clause, "id-out-of-range", fmt.Sprintf("returned id %d", id), depth, qt, qi)
				return "mismatch"
			}
			got.set(id)
		}
		miss, extra := newBits(n), newBits(n)
		bad := false
		for w := range got {
			miss[w], extra[w] = yes[w]&^got[w], got[w]&no[w]
			bad = bad || miss[w] != 0 || extra[w] != 0
		}
		if !bad {
			for _, w := range yes {
				if w != 0 {
					return "ok"
				}
			}
			return "ok-no-element-qualifies"
		}
		what, el := "missing-element", miss.first()
		if el < 0 {
			what, el = "extra-element", extra.first()
		}
		violate(site, clause, what, fmt.Sprintf("element %d (vertices %v): index reports %d elements", el, ls.verts[el], len(ids)), depth, qt, qi)
		return "mismatch"
	}

	for _, depth := range ladderDepths {
		if only != nil && only.Depth != depth {
			continue
		}
		var tree *trees.OctTree
		o := core.Guard(func() {
			if depth == autoDepth {
				tree = ls.mesh.OctTree()
			} else {
				tree = ls.mesh.OctTreeDepth(depth)
			}
		})
		if o.Panicked || tree == nil {
			c.Eval(scope, "build-failed")
			site := "trees.NewOctreeWithDepth"
			if o.Crash() {
				site = core.TopFrame(o.Stack)
			}
			violate(site, "an index can be built for every element set", "build", o.Msg, depth, "build", 0)
			continue
		}
		guard := func(site, qt string, qi int, f func()) bool {
			o := core.Guard(f)
			if o.Panicked {
				c.Eval(scope+"/"+qt, "crash")
				if o.Crash() {
					site = core.TopFrame(o.Stack)
				}
				violate(site, "queries do not crash", "crash/"+qt, o.Msg, depth, qt, qi)
			}
			return !o.Panicked
		}
		for m, p := range qs {
			if p == nil {
				continue
			}
			qv := v3(p.q[0], p.q[1], p.q[2])
			if wantQ("closest", m) {
				var id int
				var pt V3
				if guard("trees.OctTree.ClosestPoint", "closest", m, func() { id, pt = tree.ClosestPoint(qv) }) {
					out := "ok"
					dIdx := pt.Distance(qv)
					primOK := math.Abs(p.dScan-p.dTru) <= tolD
					switch {
					case !(math.Abs(dIdx-p.dScan) <= tolD):
						out = "mismatch"
						site, what := "trees.OctTree.ClosestPoint", "distance/elements-exact"
						if !primOK {
							site, what = "modeling.scopedTri.ClosestPoint", "distance/an-element's-own-closest-point-is-off-the-element"
						}
						violate(site, clClosest, what, fmt.Sprintf("q=%v index: id=%d point=%v dist=%.12g; scan dist=%.12g; exact geometry dist=%.12g", p.q, id, pt, dIdx, p.dScan, p.dTru), depth, "closest", m)
					case id < 0 || id >= n:
						out = "mismatch"
						violate("trees.OctTree.ClosestPoint", clClosId, "id-out-of-range", fmt.Sprintf("q=%v id=%d", p.q, id), depth, "closest", m)
					default:
						own := ls.els[id].ClosestPoint(qv)
						if !(own.Distance(qv) <= p.dScan+tolD) {
							out = "mismatch"
							violate("trees.OctTree.ClosestPoint", clClosId, "returned-id-is-not-a-nearest-element", fmt.Sprintf("q=%v index: id=%d whose own distance is %.12g; minimum %.12g", p.q, id, own.Distance(qv), p.dScan), depth, "closest", m)
						} else if !(own.Distance(pt) <= tolD) {
							out = "mismatch"
							violate("trees.OctTree.ClosestPoint", clClosPt, "returned-point-belongs-to-another-element", fmt.Sprintf("q=%v index: id=%d point=%v; element's own closest point %v", p.q, id, pt, own), depth, "closest", m)
						}
					}
					if out == "ok" && !primOK {
						out = "ok-primitive-differs-from-exact"
					}
					c.Eval(scope+"/closest", out)
				}
			}
			if wantQ("contain", m) {
				var ids []int
				if guard("trees.OctTree.ElementsContainingPoint", "contain", m, func() { ids = tree.ElementsContainingPoint(qv) }) {
					c.Eval(scope+"/contain", setCheck("trees.OctTree.ElementsContainingPoint", clContain, ids, p.cYes, p.cNo, depth, "contain", m))
				}
			}
			for r, rad := range ladderRadii {
				qi := m*len(ladderRadii) + r
				if !wantQ("radius", qi) {
					continue
				}
				var ids []int
				if guard("trees.OctTree.ElementsWithinRange", "radius", qi, func() { ids = tree.ElementsWithinRange(qv, rad*s) }) {
					c.Eval(scope+"/radius", setCheck("trees.OctTree.ElementsWithinRange", clRange, ids, p.rYes[r], p.rNo[r], depth, "radius", qi))
				}
			}
		}
		for qi, r := range rs {
			if r == nil {
				continue
			}
			if wantQ("ray", qi) {
				var ids []int
				if guard("trees.OctTree.ElementsIntersectingRay", "ray", qi, func() { ids = append([]int{}, tree.ElementsIntersectingRay(r.ray, r.min, r.mx)...) }) {
					c.Eval(scope+"/ray", setCheck("trees.OctTree.ElementsIntersectingRay", clRay, ids, r.yes, r.no, depth, "ray", qi))
				}
			}
			if wantQ("traverse", qi) {
				var ids []int
				if guard("trees.OctTree.TraverseIntersectingRay", "traverse", qi, func() {
					tree.TraverseIntersectingRay(r.ray, r.min, r.mx, func(i int, min, max *float64) { ids = append(ids, i) })
				}) {
					c.Eval(scope+"/traverse", setCheck("trees.OctTree.TraverseIntersectingRay", clTraverse, ids, r.yes, r.no, depth, "traverse", qi))
				}
			}
		}
	}
}

func (k *checker) runLadder() {
	c := k.c
	maxK := 10
	if c.Thorough() {
		maxK = 12
	}
	scales := []float64{0.1, 10}
	if c.Thorough() {
		scales = []float64{0.1, 1, 10}
	}
	sizes := ladderSizes(maxK)
	c.Bound("ladder.sizes", fmt.Sprintf("2^k-1, 2^k, 2^k+1, 2^k+floor(2^k/3) for k=2..%d (%d counts, largest %d)", maxK, len(sizes), sizes[len(sizes)-1]))
	c.Bound("ladder.scales", scales)
	c.Bound("ladder.depths", "auto,0,1,2,3,4")
	c.Bound("ladder.queries", fmt.Sprintf("%d points (closest, contain, radii %v x scale) and %d rays x %d ranges (element list and traversal) per index", ladderNQ, ladderRadii, ladderNRay, ladderRanges))
	for _, n := range sizes {
		for _, kind := range []string{"points", "triangles"} {
			for _, s := range scales {
				if !k.mine() {
					continue
				}
				if c.Expired() {
					return
				}
				ls := newLadderSet(kind, n, s)
				k.runLadderSet(ls, nil)
				if n == sizes[len(sizes)-1] {
					// the top rung also built and queried with the process limited to three processors
					c.WithProcs(3, func() { k.runLadderSet(newLadderSet(kind, n, s), nil) })
				}
				c.Nontrivial("ladder", kind, n, s)
				c.Sample("ladder/"+kind, ls.lc)
			}
		}
	}
}
