// Package c16: spatial index queries agree with exhaustive search (DESIGN §4 C16), octree part.
//
// Element sets (points, segments, poly-lines, triangles with corners on the lattice {0,1,2}^3) are
// indexed at depths {0,1,2,auto}; every query of a fixed lattice of points / radii / rays is answered
// by the index and by a brute-force scan over all elements.
//
//   - contain / radius / ray: the scan applies the element's own bounds predicate (the one the API
//     documents). That predicate is in turn compared with exact closed-box geometry computed from the
//     lattice corners (touching cases accept either answer).
//   - closest: the scan is over the same elements' own ClosestPoint — literally the property. An exact
//     point–primitive distance is computed only to classify a disagreement.
//
// The BVH part (needs a build-time seam for math/rand) lives in the sub-package c16/bvh.
package c16

import (
	"encoding/json"
	"fmt"
	"math"
	"math/bits"
	"strings"

	"github.com/EliCDavis/polyform/math/geometry"
	"github.com/EliCDavis/polyform/modeling"
	"github.com/EliCDavis/polyform/trees"

	"verif/harness/core"
)

func init() { core.Register(core.Check{ID: "C16", Run: run, Replay: replay}) }

const autoDepth = -1

// ElemSet: one element set. Kind "points" | "segments" | "strip" | "triangles".
// Elems lists the lattice corner ids of each element (for "strip": one list, the poly-line's vertices).
type ElemSet struct {
	Kind  string  `json:"kind"`
	Elems [][]int `json:"elems"`
}

// Query is one recorded query (replay).
type Query struct {
	Type   string     `json:"type"` // closest | contain | radius | ray | traverse | traverse-shrink
	Q      [3]float64 `json:"q,omitempty"`
	R      float64    `json:"r,omitempty"`
	Origin [3]float64 `json:"origin,omitempty"`
	Dir    [3]float64 `json:"dir,omitempty"`
	Range  int        `json:"range,omitempty"` // index into rayRanges
}

type Case struct {
	Set    ElemSet     `json:"set"`
	Depth  int         `json:"depth"` // -1 = automatic
	Query  Query       `json:"query"`
	Ladder *LadderCase `json:"ladder,omitempty"` // size-ladder case (everything regenerated from it)
}

// ---- fixed query lattices ----

var (
	qPoints   [][3]float64
	radii     = []float64{0, 0.5, 1, 1.5, 4}
	rayOrig   [][3]float64
	rayDirs   [][3]float64
	rayRanges = [][2]float64{{0, math.Inf(1)}, {0.5, 2}}
	shrinkTo  = 1.0 // the mutating traversal callback lowers *max to this value on its first call
)

func init() {
	for x := -1.; x <= 3; x += 0.5 {
		for y := -1.; y <= 3; y += 0.5 {
			for z := -1.; z <= 3; z += 0.5 {
				qPoints = append(qPoints, [3]float64{x, y, z})
			}
		}
	}
	ov := []float64{-1, 0.5, 2} // outside the lattice hull, strictly inside between lattice planes, on its boundary
	dv := []float64{-1, 0, 1}
	for _, x := range ov {
		for _, y := range ov {
			for _, z := range ov {
				rayOrig = append(rayOrig, [3]float64{x, y, z})
			}
		}
	}
	for _, x := range dv {
		for _, y := range dv {
			for _, z := range dv {
				if x != 0 || y != 0 || z != 0 {
					rayDirs = append(rayDirs, [3]float64{x, y, z})
				}
			}
		}
	}
	// the negative-zero twin of every direction with a zero component (what Flip()/Scale(-1) of an
	// axis-parallel direction produce): 1/-0 = -Inf where 1/+0 = +Inf, a different path through every
	// slab test although the ray is the same
	nz := math.Copysign(0, -1)
	for _, d := range append([][3]float64{}, rayDirs...) {
		t, has := d, false
		for a := 0; a < 3; a++ {
			if d[a] == 0 {
				t[a], has = nz, true
			}
		}
		if has {
			rayDirs = append(rayDirs, t)
		}
	}
}

// ---- building the real index and the real elements ----

func latTable() []V3 {
	t := make([]V3, 27)
	for i := range t {
		t[i] = latPoint(i)
	}
	return t
}

// corners returns the per-element corner lists (expands a strip into its segments).
func (s ElemSet) corners() [][]int {
	if s.Kind != "strip" {
		return s.Elems
	}
	var out [][]int
	for _, strip := range s.Elems {
		for i := 0; i+1 < len(strip); i++ {
			out = append(out, []int{strip[i], strip[i+1]})
		}
	}
	return out
}

type built struct {
	els  []trees.Element // the library's own primitives, in element order
	tree func(depth int) *trees.OctTree
}

func (s ElemSet) build() built {
	scope := func(m modeling.Mesh) []trees.Element {
		els := make([]trees.Element, m.PrimitiveCount())
		m.ScanPrimitives(func(i int, p modeling.Primitive) { els[i] = p.Scope(modeling.PositionAttribute) })
		return els
	}
	meshTree := func(m modeling.Mesh) func(int) *trees.OctTree {
		return func(d int) *trees.OctTree {
			if d == autoDepth {
				return m.OctTree()
			}
			return m.OctTreeDepth(d)
		}
	}
	switch s.Kind {
	case "points":
		// element k of a point mesh is vertex indices[k]: the whole lattice as vertex table, the set's
		// points selected (in the set's order) by the index buffer — never the identity
		idx := make([]int, len(s.Elems))
		for i, e := range s.Elems {
			idx[i] = e[0]
		}
		m := modeling.NewMesh(modeling.PointTopology, idx).SetFloat3Attribute(modeling.PositionAttribute, latTable())
		return built{scope(m), meshTree(m)}
	case "points-permuted":
		// as many vertices as elements, indexed in reverse: element k is vertex n-1-k (an index buffer of
		// the vertex table's own length that is not the identity)
		n := len(s.Elems)
		tab := make([]V3, n)
		idx := make([]int, n)
		for i, e := range s.Elems {
			tab[n-1-i] = latPoint(e[0])
			idx[i] = n - 1 - i
		}
		m := modeling.NewMesh(modeling.PointTopology, idx).SetFloat3Attribute(modeling.PositionAttribute, tab)
		return built{scope(m), meshTree(m)}
	case "points-identity":
		pts := make([]V3, len(s.Elems))
		for i, e := range s.Elems {
			pts[i] = latPoint(e[0])
		}
		m := modeling.NewPointCloud(nil, map[string][]V3{modeling.PositionAttribute: pts}, nil, nil, nil)
		return built{scope(m), meshTree(m)}
	case "triangles":
		var idx []int
		for _, e := range s.Elems {
			idx = append(idx, e...)
		}
		m := modeling.NewTriangleMesh(idx).SetFloat3Attribute(modeling.PositionAttribute, latTable())
		return built{scope(m), meshTree(m)}
	case "triangles-rest":
		// the indexed triangles live in a second float3 attribute; Position holds other triangles (the
		// lattice sheared and permuted: other planes, other bounds)
		var idx []int
		for _, e := range s.Elems {
			idx = append(idx, e...)
		}
		skew := make([]V3, 27)
		for i := range skew {
			p := latPoint(i)
			skew[i] = v3(p.Z()+3, p.X()+0.5*p.Y(), p.Y()-p.X())
		}
		m := modeling.NewTriangleMesh(idx).SetFloat3Attribute(modeling.PositionAttribute, skew).SetFloat3Attribute("RestPosition", latTable())
		els := make([]trees.Element, m.PrimitiveCount())
		m.ScanPrimitives(func(i int, p modeling.Primitive) { els[i] = p.Scope("RestPosition") })
		return built{els, func(d int) *trees.OctTree {
			if d == autoDepth {
				d = trees.OctreeDepthFromCount(m.PrimitiveCount())
			}
			return m.OctTreeWithAttributeAndDepth("RestPosition", d)
		}}
	case "fat-points":
		// elements of the caller's own making: trees.Element promises a bounding box, not a minimal one
		// (a margin for motion, a box shared with a coarser level of detail).  Point k sits at its
		// lattice point inside a box that is larger by a margin of its own.
		var els []trees.Element
		for i, e := range s.Elems {
			els = append(els, fatPoint{latPoint(e[0]), fatMargins[(i*3+e[0])%len(fatMargins)]})
		}
		return built{els, func(d int) *trees.OctTree {
			cp := append([]trees.Element{}, els...)
			if d == autoDepth {
				return trees.NewOctree(cp)
			}
			return trees.NewOctreeWithDepth(cp, d)
		}}
	case "strip":
		m := modeling.NewMesh(modeling.LineStripTopology, append([]int{}, s.Elems[0]...)).SetFloat3Attribute(modeling.PositionAttribute, latTable())
		return built{scope(m), meshTree(m)}
	case "segments":
		// arbitrary (disconnected) segment sets: one two-vertex poly-line per segment, the real
		// segment primitives collected into one element list for the generic constructor
		var els []trees.Element
		for _, e := range s.Elems {
			m := modeling.NewMesh(modeling.LineStripTopology, []int{e[0], e[1]}).SetFloat3Attribute(modeling.PositionAttribute, latTable())
			els = append(els, scope(m)...)
		}
		return built{els, func(d int) *trees.OctTree {
			cp := append([]trees.Element{}, els...)
			if d == autoDepth {
				return trees.NewOctree(cp)
			}
			return trees.NewOctreeWithDepth(cp, d)
		}}
	}
	panic("unknown kind " + s.Kind)
}

var fatMargins = []float64{0, 0.5, 1.25, 0.25, 2}

type fatPoint struct {
	p V3
	m float64
}

func (f fatPoint) BoundingBox() geometry.AABB {
	return geometry.NewAABB(f.p, v3(2*f.m, 2*f.m, 2*f.m))
}
func (f fatPoint) ClosestPoint(V3) V3 { return f.p }

// ---- per-set oracle tables (independent of the depth) ----

type setOracle struct {
	set     ElemSet
	corners [][]int
	boxes   []box
	b       built
	degen   bool // some element is degenerate: closest-point queries are reported only
	// per query point
	containLib, containYes, containMaybe []uint64
	rangeLib, rangeYes, rangeMaybe       [][]uint64 // [radius][q]
	distEl                               [][]float64
	// per ray (origin-major, then direction, then range)
	rayLib, rayYes, rayMaybe []uint64
	rayLibShrunk             []uint64 // elements whose bounds the ray crosses within [min, shrinkTo]
}

func rayIndex(o, d, r int) int { return (o*len(rayDirs)+d)*len(rayRanges) + r }

func newSetOracle(s ElemSet) *setOracle {
	so := &setOracle{set: s, corners: s.corners()}
	so.b = s.build()
	n := len(so.corners)
	for _, c := range so.corners {
		so.boxes = append(so.boxes, boxOf(c))
		if degenerate(c) {
			so.degen = true
		}
	}
	nq := len(qPoints)
	so.containLib, so.containYes, so.containMaybe = make([]uint64, nq), make([]uint64, nq), make([]uint64, nq)
	so.rangeLib, so.rangeYes, so.rangeMaybe = make([][]uint64, len(radii)), make([][]uint64, len(radii)), make([][]uint64, len(radii))
	for r := range radii {
		so.rangeLib[r], so.rangeYes[r], so.rangeMaybe[r] = make([]uint64, nq), make([]uint64, nq), make([]uint64, nq)
	}
	so.distEl = make([][]float64, nq)
	libBoxes := make([]geometry.AABB, n)
	for i, e := range so.b.els {
		libBoxes[i] = e.BoundingBox()
	}
	for qi, q := range qPoints {
		qv := v3(q[0], q[1], q[2])
		so.distEl[qi] = make([]float64, n)
		for i := 0; i < n; i++ {
			bit := uint64(1) << uint(i)
			if libBoxes[i].Contains(qv) {
				so.containLib[qi] |= bit
			}
			switch so.boxes[i].contains(q) {
			case yes:
				so.containYes[qi] |= bit
			case maybe:
				so.containMaybe[qi] |= bit
			}
			dl := libBoxes[i].ClosestPoint(qv).Distance(qv)
			for r, rad := range radii {
				if dl <= rad {
					so.rangeLib[r][qi] |= bit
				}
				switch so.boxes[i].within(q, rad) {
				case yes:
					so.rangeYes[r][qi] |= bit
				case maybe:
					so.rangeMaybe[r][qi] |= bit
				}
			}
			so.distEl[qi][i] = so.b.els[i].ClosestPoint(qv).Distance(qv)
		}
	}
	nr := len(rayOrig) * len(rayDirs) * len(rayRanges)
	so.rayLib, so.rayYes, so.rayMaybe, so.rayLibShrunk = make([]uint64, nr), make([]uint64, nr), make([]uint64, nr), make([]uint64, nr)
	for oi, o := range rayOrig {
		for di, d := range rayDirs {
			ray := geometry.NewRay(v3(o[0], o[1], o[2]), v3(d[0], d[1], d[2]))
			for ri, rg := range rayRanges {
				k := rayIndex(oi, di, ri)
				for i := 0; i < n; i++ {
					bit := uint64(1) << uint(i)
					if libBoxes[i].IntersectsRayInRange(ray, rg[0], rg[1]) {
						so.rayLib[k] |= bit
					}
					if libBoxes[i].IntersectsRayInRange(ray, rg[0], shrinkTo) {
						so.rayLibShrunk[k] |= bit
					}
					switch so.boxes[i].rayCross(o, d, rg[0], rg[1]) {
					case yes:
						so.rayYes[k] |= bit
					case maybe:
						so.rayMaybe[k] |= bit
					}
				}
			}
		}
	}
	return so
}

// ---- the checker ----

type checker struct {
	c   *core.Ctx
	idx int
}

func (k *checker) mine() bool { k.idx++; return k.c.Mine(k.idx) }

func maskList(m uint64) []int {
	var out []int
	for m != 0 {
		i := bits.TrailingZeros64(m)
		out = append(out, i)
		m &^= 1 << uint(i)
	}
	return out
}

// idsMask converts a returned id list into a set; reports out-of-range ids and duplicates.
func idsMask(ids []int, n int) (m uint64, bad bool, dup bool) {
	for _, id := range ids {
		if id < 0 || id >= n {
			bad = true
			continue
		}
		if m&(1<<uint(id)) != 0 {
			dup = true
		}
		m |= 1 << uint(id)
	}
	return
}

func depthClass(d int) string {
	switch d {
	case autoDepth:
		return "depth-auto"
	case 0:
		return "depth-0"
	}
	return "depth>0"
}

const (
	clContain  = "elements whose bounds contain the point are exactly those an exhaustive scan finds"
	clRange    = "elements within the radius are exactly those an exhaustive scan finds"
	clRay      = "elements whose bounds the ray crosses are exactly those an exhaustive scan finds"
	clTraverse = "the ray traversal visits exactly the elements an exhaustive scan finds"
	clShrink   = "a traversal whose callback shortens the range still visits every element crossing the shortened range and none outside the original"
	clClosest  = "closest point is at the distance an exhaustive scan over the elements' own closest points finds"
	clClosId   = "closest element identity is an element at the minimal distance (ties aside)"
	clClosPt   = "the returned point is the returned element's own closest point"
	clPred     = "the per-element bounds predicate equals exact closed-box geometry on the dyadic lattice (touching cases aside)"
)

func (k *checker) setMismatch(site, clause string, so *setOracle, depth int, q Query, got, want uint64, badID bool) {
	class := so.set.Kind
	switch {
	case badID:
		class += "/id-out-of-range"
	case want&^got != 0 && got&^want != 0:
		class += "/missing-and-extra"
	case want&^got != 0:
		class += "/missing-element"
	default:
		class += "/extra-element"
	}
	k.c.Violate(core.Violation{Site: site, Clause: clause, Class: class,
		Detail: fmt.Sprintf("set=%v depth=%d query=%+v index=%v scan=%v", so.set.Elems, depth, q, maskList(got), maskList(want)),
		Case:   Case{Set: so.set, Depth: depth, Query: q}})
}

// predicates: the library's per-element predicate against exact geometry (once per set).
func (k *checker) predicates(so *setOracle, only *Query) {
	c := k.c
	chk := func(scope, site string, lib, y, mb uint64, q Query) {
		if only != nil && fmt.Sprint(*only) != fmt.Sprint(q) {
			return
		}
		out := "ok"
		if mb != 0 {
			out = "ok-with-touching"
		}
		if d := (lib ^ y) &^ mb; d != 0 {
			out = "mismatch"
			i := maskList(d)[0]
			c.Violate(core.Violation{Site: site, Clause: clPred, Class: fmt.Sprintf("%s/%d-corner-element", so.set.Kind, len(so.corners[i])),
				Detail: fmt.Sprintf("element corners=%v box=%v query=%+v library=%v exact=%v", so.corners[i], so.boxes[i], q, lib&(1<<uint(i)) != 0, y&(1<<uint(i)) != 0),
				Case:   Case{Set: so.set, Depth: 0, Query: q}})
		}
		c.Eval(scope, out)
	}
	for qi, q := range qPoints {
		chk("predicate/contain", "geometry.AABB.Contains (element bounds)", so.containLib[qi], so.containYes[qi], so.containMaybe[qi], Query{Type: "pred-contain", Q: q})
		for r, rad := range radii {
			chk("predicate/radius", "geometry.AABB.ClosestPoint (element bounds)", so.rangeLib[r][qi], so.rangeYes[r][qi], so.rangeMaybe[r][qi], Query{Type: "pred-radius", Q: q, R: rad})
		}
	}
	for oi, o := range rayOrig {
		for di, d := range rayDirs {
			for ri := range rayRanges {
				kk := rayIndex(oi, di, ri)
				chk("predicate/ray", "geometry.AABB.IntersectsRayInRange (element bounds)", so.rayLib[kk], so.rayYes[kk], so.rayMaybe[kk], Query{Type: "pred-ray", Origin: o, Dir: d, Range: ri})
			}
		}
	}
}

// queries runs every query against one index; `only` restricts to a single recorded query (replay).
func (k *checker) queries(so *setOracle, depth int, only *Query) {
	c := k.c
	n := len(so.corners)
	kind := so.set.Kind
	var tree *trees.OctTree
	o := core.Guard(func() { tree = so.b.tree(depth) })
	if o.Panicked {
		c.Eval(kind+"/build", "crash")
		site := "trees.NewOctreeWithDepth"
		if o.Crash() {
			site = core.TopFrame(o.Stack)
		}
		c.Violate(core.Violation{Site: site, Clause: "an index can be built for every element set", Class: kind + "/" + depthClass(depth),
			Detail: fmt.Sprintf("set=%v depth=%d: %s", so.set.Elems, depth, o.Msg), Case: Case{Set: so.set, Depth: depth, Query: Query{Type: "build"}}})
		return
	}
	if tree == nil {
		c.Eval(kind+"/empty-set", "nil-tree")
		return
	}
	want := func(t string) bool {
		if kind == "fat-points" && t != "closest" {
			return false // bounds queries are answered by the elements' (deliberately loose) boxes: only the closest point is defined by the elements themselves
		}
		return only == nil || only.Type == t
	}
	same := func(q Query) bool { return only == nil || fmt.Sprint(*only) == fmt.Sprint(q) }
	guarded := func(scope string, q Query, f func()) bool {
		o := core.Guard(f)
		if !o.Panicked {
			return true
		}
		c.Eval(scope, "crash")
		site := "trees.OctTree"
		if o.Crash() {
			site = core.TopFrame(o.Stack)
		}
		c.Violate(core.Violation{Site: site, Clause: "queries do not crash", Class: kind + "/" + q.Type,
			Detail: fmt.Sprintf("set=%v depth=%d query=%+v: %s", so.set.Elems, depth, q, o.Msg), Case: Case{Set: so.set, Depth: depth, Query: q}})
		return false
	}
	lbl := func(ok, dup bool) string {
		if !ok {
			return "mismatch"
		}
		if dup {
			return "ok-with-duplicates"
		}
		return "ok"
	}
	closestScope := kind + "/closest"
	if so.degen {
		closestScope = kind + "/closest-degenerate-element"
	}
	for qi, q := range qPoints {
		qv := v3(q[0], q[1], q[2])
		if want("closest") && same(Query{Type: "closest", Q: q}) {
			k.closest(so, tree, depth, qi, closestScope)
		}
		if qq := (Query{Type: "contain", Q: q}); want("contain") && same(qq) {
			var ids []int
			if guarded(kind+"/contain", qq, func() { ids = tree.ElementsContainingPoint(qv) }) {
				got, bad, dup := idsMask(ids, n)
				ok := !bad && got == so.containLib[qi]
				if !ok {
					k.setMismatch("trees.OctTree.ElementsContainingPoint", clContain, so, depth, qq, got, so.containLib[qi], bad)
				}
				c.Eval(kind+"/contain", lbl(ok, dup))
			}
		}
		if want("radius") {
			for r, rad := range radii {
				qq := Query{Type: "radius", Q: q, R: rad}
				if !same(qq) {
					continue
				}
				var ids []int
				if guarded(kind+"/radius", qq, func() { ids = tree.ElementsWithinRange(qv, rad) }) {
					got, bad, dup := idsMask(ids, n)
					ok := !bad && got == so.rangeLib[r][qi]
					if !ok {
						k.setMismatch("trees.OctTree.ElementsWithinRange", clRange, so, depth, qq, got, so.rangeLib[r][qi], bad)
					}
					c.Eval(kind+"/radius", lbl(ok, dup))
				}
			}
		}
	}
	if !(want("ray") || want("traverse") || want("traverse-shrink")) {
		return
	}
	for oi, og := range rayOrig {
		for di, d := range rayDirs {
			ray := geometry.NewRay(v3(og[0], og[1], og[2]), v3(d[0], d[1], d[2]))
			for ri, rg := range rayRanges {
				kk := rayIndex(oi, di, ri)
				if qq := (Query{Type: "ray", Origin: og, Dir: d, Range: ri}); want("ray") && same(qq) {
					var ids []int
					if guarded(kind+"/ray", qq, func() { ids = append([]int{}, tree.ElementsIntersectingRay(ray, rg[0], rg[1])...) }) {
						got, bad, dup := idsMask(ids, n)
						ok := !bad && got == so.rayLib[kk]
						if !ok {
							k.setMismatch("trees.OctTree.ElementsIntersectingRay", clRay, so, depth, qq, got, so.rayLib[kk], bad)
						}
						c.Eval(kind+"/ray", lbl(ok, dup))
					}
				}
				if qq := (Query{Type: "traverse", Origin: og, Dir: d, Range: ri}); want("traverse") && same(qq) {
					var ids []int
					if guarded(kind+"/traverse", qq, func() {
						tree.TraverseIntersectingRay(ray, rg[0], rg[1], func(i int, min, max *float64) { ids = append(ids, i) })
					}) {
						got, bad, dup := idsMask(ids, n)
						ok := !bad && got == so.rayLib[kk]
						if !ok {
							k.setMismatch("trees.OctTree.TraverseIntersectingRay", clTraverse, so, depth, qq, got, so.rayLib[kk], bad)
						}
						c.Eval(kind+"/traverse", lbl(ok, dup))
					}
				}
				if qq := (Query{Type: "traverse-shrink", Origin: og, Dir: d, Range: ri}); want("traverse-shrink") && same(qq) && rg[0] < shrinkTo {
					var ids []int
					if guarded(kind+"/traverse-shrink", qq, func() {
						tree.TraverseIntersectingRay(ray, rg[0], rg[1], func(i int, min, max *float64) {
							ids = append(ids, i)
							if *max > shrinkTo {
								*max = shrinkTo
							}
						})
					}) {
						got, bad, dup := idsMask(ids, n)
						must, may := so.rayLibShrunk[kk]&so.rayLib[kk], so.rayLib[kk]
						ok := !bad && must&^got == 0 && got&^may == 0
						if !ok {
							w := must
							if got&^may != 0 {
								w = may
							}
							k.setMismatch("trees.OctTree.TraverseIntersectingRay", clShrink, so, depth, qq, got, w, bad)
						}
						c.Eval(kind+"/traverse-shrink", lbl(ok, dup))
					}
				}
			}
		}
	}
}

const tol = 1e-9

func (k *checker) closest(so *setOracle, tree *trees.OctTree, depth, qi int, scope string) {
	c := k.c
	q := qPoints[qi]
	qv := v3(q[0], q[1], q[2])
	qq := Query{Type: "closest", Q: q}
	cs := Case{Set: so.set, Depth: depth, Query: qq}
	n := len(so.corners)
	var id int
	var p V3
	o := core.Guard(func() { id, p = tree.ClosestPoint(qv) })
	if o.Panicked {
		c.Eval(scope, "crash")
		if !so.degen {
			site := "trees.OctTree.ClosestPoint"
			if o.Crash() {
				site = core.TopFrame(o.Stack)
			}
			c.Violate(core.Violation{Site: site, Clause: "queries do not crash", Class: so.set.Kind + "/closest",
				Detail: fmt.Sprintf("set=%v depth=%d q=%v: %s", so.set.Elems, depth, q, o.Msg), Case: cs})
		}
		return
	}
	dScan, dTrue := math.Inf(1), math.Inf(1)
	for i := 0; i < n; i++ {
		dScan = math.Min(dScan, so.distEl[qi][i])
		dTrue = math.Min(dTrue, elemDist(q, so.corners[i]))
	}
	dIdx := p.Distance(qv)
	if so.degen {
		// the primitive's own closest point is undefined (NaN) for zero-length / zero-area elements:
		// outside the property's well-formed element sets, run and counted only
		out := "agrees"
		if !(math.Abs(dIdx-dScan) <= tol) {
			out = "differs-or-nan"
		}
		c.Eval(scope, out)
		return
	}
	primExact := math.Abs(dScan-dTrue) <= tol
	out := "ok"
	if !primExact {
		out = "ok-primitive-differs-from-exact"
	}
	kind := so.set.Kind
	if !primExact {
		// every well-formed element's own closest point is the geometric one on the pinned tree (the
		// outcome below never occurred there); an element that answers with a point off itself makes
		// index and scan agree on a wrong answer
		site := "trees.Element.ClosestPoint"
		if strings.HasPrefix(kind, "triangles") {
			site = "modeling.scopedTri.ClosestPoint"
		}
		c.Violate(core.Violation{Site: site, Clause: "the closest point is the closest point of the element (exact geometry)", Class: kind + "/an-element's-own-closest-point-is-off-the-element",
			Detail: fmt.Sprintf("set=%v depth=%d q=%v: scan over the elements' own closest points %.6g, exact geometry %.6g; per-element %v", so.set.Elems, depth, q, dScan, dTrue, so.distEl[qi]), Case: cs})
	}
	distOK := math.Abs(dIdx-dScan) <= tol
	if !distOK {
		out = "mismatch"
		class, site := kind+"/elements-exact", "trees.OctTree.ClosestPoint"
		if !primExact {
			// the scan's own minimum is not the true distance: an element reports a closest point that is
			// not on the element, so the index's bound-based pruning and the scan part ways
			class = kind + "/an-element's-own-closest-point-is-off-the-element"
			if strings.HasPrefix(so.set.Kind, "triangles") {
				site = "modeling.scopedTri.ClosestPoint"
			}
		}
		c.Violate(core.Violation{Site: site, Clause: clClosest, Class: class,
			Detail: fmt.Sprintf("set=%v depth=%d q=%v index: id=%d point=%v dist=%.6g; scan dist=%.6g; exact geometry dist=%.6g; per-element %v", so.set.Elems, depth, q, id, p, dIdx, dScan, dTrue, so.distEl[qi]), Case: cs})
	}
	if id < 0 || id >= n {
		out = "mismatch"
		c.Violate(core.Violation{Site: "trees.OctTree.ClosestPoint", Clause: clClosId, Class: kind + "/id-out-of-range",
			Detail: fmt.Sprintf("set=%v depth=%d q=%v id=%d", so.set.Elems, depth, q, id), Case: cs})
	} else if distOK {
		if !(math.Abs(so.distEl[qi][id]-dScan) <= tol) {
			out = "mismatch"
			c.Violate(core.Violation{Site: "trees.OctTree.ClosestPoint", Clause: clClosId, Class: kind + "/returned-id-is-not-a-nearest-element",
				Detail: fmt.Sprintf("set=%v depth=%d q=%v index: id=%d point=%v; per-element distances %v (minimum %.6g)", so.set.Elems, depth, q, id, p, so.distEl[qi], dScan), Case: cs})
		} else if own := so.b.els[id].ClosestPoint(qv); !(own.Distance(p) <= tol) {
			out = "mismatch"
			c.Violate(core.Violation{Site: "trees.OctTree.ClosestPoint", Clause: clClosPt, Class: kind + "/returned-point-belongs-to-another-element",
				Detail: fmt.Sprintf("set=%v depth=%d q=%v index: id=%d point=%v; element's own closest point %v", so.set.Elems, depth, q, id, p, own), Case: cs})
		}
	}
	c.Eval(scope, out)
}

var depths = []int{0, 1, 2, autoDepth}

func (k *checker) runSet(s ElemSet) {
	c := k.c
	if len(s.corners()) == 0 {
		c.ReportedOnly(s.Kind+"/empty-set", "the constructors return a nil index for an empty element set; there is nothing to query")
		for _, d := range depths {
			out := "non-nil-tree"
			o := core.Guard(func() {
				if s.build().tree(d) == nil {
					out = "nil-tree"
				}
			})
			if o.Panicked {
				out = "construction-panics"
			}
			c.Eval(s.Kind+"/empty-set", out)
		}
		return
	}
	so := newSetOracle(s)
	if so.degen {
		c.ReportedOnly(s.Kind+"/closest-degenerate-element", "zero-length segments / zero-area triangles have no defined closest point (NaN from the primitive): outside the well-formed element sets, bounds queries are still checked")
	}
	if s.Kind != "fat-points" {
		k.predicates(so, nil)
	}
	for _, d := range depths {
		k.queries(so, d, nil)
	}
	nontrivial := len(so.corners) >= 2
	if nontrivial {
		c.Nontrivial(s.Kind, fmt.Sprint(s.Elems))
	}
	c.Sample("sets/"+s.Kind, s)
}

func run(c *core.Ctx) {
	k := &checker{c: c}
	c.Bound("depths", "0,1,2,auto")
	c.Bound("query_points", len(qPoints))
	c.Bound("radii", radii)
	c.Bound("rays", fmt.Sprintf("%d origins {-1,0.5,2}^3 x %d lattice directions (zero components as +0 and as -0) x ranges [0,inf) and [0.5,2]", len(rayOrig), len(rayDirs)))
	k.runLadder()
	if c.Expired() || c.Args["only"] == "ladder" {
		return
	}
	for _, fam := range families(c) {
		c.Bound("family."+fam.name, fam.desc)
		fam.each(func(s ElemSet) bool {
			if k.mine() {
				k.runSet(s)
			}
			return !c.Expired()
		})
		if c.Expired() {
			return
		}
	}
}

func replay(c *core.Ctx) {
	var cs Case
	if err := json.Unmarshal(c.Replay, &cs); err != nil {
		c.HarnessError("bad case: %v", err)
		return
	}
	k := &checker{c: c}
	if cs.Ladder != nil {
		k.runLadderSet(newLadderSet(cs.Ladder.Kind, cs.Ladder.N, cs.Ladder.Scale), cs.Ladder)
		return
	}
	so := newSetOracle(cs.Set)
	q := cs.Query
	switch q.Type {
	case "pred-contain", "pred-radius", "pred-ray":
		k.predicates(so, &q)
	case "build":
		k.queries(so, cs.Depth, &Query{Type: "none"})
	default:
		k.queries(so, cs.Depth, &q)
	}
}

// ---- families ----

type family struct {
	name, desc string
	each       func(yield func(ElemSet) bool)
}

// multisets enumerates all non-decreasing index tuples of length 1..maxK over [0,n).
func multisets(n, maxK int, yield func([]int) bool) bool {
	var rec func(cur []int, from, k int) bool
	rec = func(cur []int, from, k int) bool {
		if len(cur) == k {
			return yield(append([]int{}, cur...))
		}
		for i := from; i < n; i++ {
			if !rec(append(cur, i), i, k) {
				return false
			}
		}
		return true
	}
	for k := 1; k <= maxK; k++ {
		if !rec(nil, 0, k) {
			return false
		}
	}
	return true
}

// cornerSet: ten lattice points — two opposite unit corners, the centre and an outlier — whose
// triangles and segments come in all sizes: inside one octant, straddling the centre, spanning the cube,
// axis-aligned (flat boxes), degenerate (collinear triples).
var cornerSet = []int{
	0,       // (0,0,0)
	9, 3, 1, // (1,0,0) (0,1,0) (0,0,1)
	26,         // (2,2,2)
	17, 23, 25, // (1,2,2) (2,1,2) (2,2,1)
	13, // (1,1,1)
	18, // (2,0,0)
}

func subsetsOf(points []int, size int) [][]int {
	var out [][]int
	var rec func(cur []int, from int)
	rec = func(cur []int, from int) {
		if len(cur) == size {
			out = append(out, append([]int{}, cur...))
			return
		}
		for i := from; i < len(points); i++ {
			rec(append(cur, points[i]), i+1)
		}
	}
	rec(nil, 0)
	return out
}

// spread returns m members of a, evenly spread by index.
func spread(a [][]int, m int) [][]int {
	if m >= len(a) {
		return a
	}
	out := make([][]int, m)
	for i := range out {
		out[i] = a[i*len(a)/m]
	}
	return out
}

func allLattice() []int {
	l := make([]int, 27)
	for i := range l {
		l[i] = i
	}
	return l
}

func families(c *core.Ctx) []family {
	thorough := c.Thorough()
	var fams []family
	// empty sets (reported)
	fams = append(fams, family{"empty", "the empty point cloud / triangle mesh (reported only: nil index)", func(y func(ElemSet) bool) {
		_ = y(ElemSet{Kind: "points"}) && y(ElemSet{Kind: "triangles"})
	}})
	// points
	maxP := 3
	if thorough {
		maxP = 4
	}
	fams = append(fams, family{"points", fmt.Sprintf("every multiset of 1..%d points of the lattice {0,1,2}^3", maxP), func(y func(ElemSet) bool) {
		multisets(27, maxP, func(t []int) bool {
			s := ElemSet{Kind: "points"}
			for _, p := range t {
				s.Elems = append(s.Elems, []int{p})
			}
			return y(s)
		})
	}})
	fams = append(fams, family{"points-permuted", "every set of 2..3 distinct lattice points as a point mesh whose index buffer has the vertex table's length and reverses it", func(y func(ElemSet) bool) {
		multisets(27, 3, func(t []int) bool {
			if len(t) < 2 {
				return true
			}
			for i := 1; i < len(t); i++ {
				if t[i] == t[i-1] {
					return true
				}
			}
			s := ElemSet{Kind: "points-permuted"}
			for _, p := range t {
				s.Elems = append(s.Elems, []int{p})
			}
			return y(s)
		})
	}})
	fams = append(fams, family{"fat-points", fmt.Sprintf("every set of 2..%d distinct lattice points as caller-made elements whose bounding boxes exceed them by margins %v (closest-point queries only)", maxP, fatMargins), func(y func(ElemSet) bool) {
		multisets(27, maxP, func(t []int) bool {
			if len(t) < 2 {
				return true
			}
			for i := 1; i < len(t); i++ {
				if t[i] == t[i-1] {
					return true
				}
			}
			s := ElemSet{Kind: "fat-points"}
			for _, p := range t {
				s.Elems = append(s.Elems, []int{p})
			}
			return y(s)
		})
	}})
	// triangles over the ten-point corner set (120 triangles incl. degenerate ones)
	tris := subsetsOf(cornerSet, 3)
	fams = append(fams, family{"triangles", fmt.Sprintf("every multiset of 1..2 of the %d triangles with corners in the ten-point corner set %v (degenerate ones included)", len(tris), cornerSet), func(y func(ElemSet) bool) {
		multisets(len(tris), 2, func(t []int) bool {
			s := ElemSet{Kind: "triangles"}
			for _, i := range t {
				s.Elems = append(s.Elems, tris[i])
			}
			return y(s)
		})
	}})
	fams = append(fams, family{"triangles-rest", "every triangle of that set, and every 7th pair, indexed over a second float3 attribute (OctTreeWithAttributeAndDepth) while Position holds other triangles", func(y func(ElemSet) bool) {
		n := 0
		multisets(len(tris), 2, func(t []int) bool {
			n++
			if len(t) == 2 && n%7 != 0 {
				return true
			}
			s := ElemSet{Kind: "triangles-rest"}
			for _, i := range t {
				s.Elems = append(s.Elems, tris[i])
			}
			return y(s)
		})
	}})
	if thorough {
		sub := spread(tris, 40)
		fams = append(fams, family{"triangle-triples", fmt.Sprintf("every multiset of exactly 3 out of %d of those triangles (evenly spread by index)", len(sub)), func(y func(ElemSet) bool) {
			multisets(len(sub), 3, func(t []int) bool {
				if len(t) < 3 {
					return true
				}
				s := ElemSet{Kind: "triangles"}
				for _, i := range t {
					s.Elems = append(s.Elems, sub[i])
				}
				return y(s)
			})
		}})
	}
	// segments over the same corner set (45 proper + 10 zero-length)
	segs := subsetsOf(cornerSet, 2)
	for _, p := range cornerSet {
		segs = append(segs, []int{p, p})
	}
	maxS := 2
	if thorough {
		maxS = 3
	}
	fams = append(fams, family{"segments", fmt.Sprintf("every multiset of 1..%d of the %d segments with corners in the corner set (zero-length ones included)", maxS, len(segs)), func(y func(ElemSet) bool) {
		multisets(len(segs), maxS, func(t []int) bool {
			s := ElemSet{Kind: "segments"}
			for _, i := range t {
				s.Elems = append(s.Elems, segs[i])
			}
			return y(s)
		})
	}})
	// poly-lines through the mesh API
	maxV := 3
	if thorough {
		maxV = 4
	}
	fams = append(fams, family{"strips", fmt.Sprintf("every vertex sequence of length 2..%d over the corner set as a line strip (repeated vertices included)", maxV), func(y func(ElemSet) bool) {
		var rec func(cur []int, k int) bool
		rec = func(cur []int, k int) bool {
			if len(cur) == k {
				return y(ElemSet{Kind: "strip", Elems: [][]int{append([]int{}, cur...)}})
			}
			for _, p := range cornerSet {
				if !rec(append(cur, p), k) {
					return false
				}
			}
			return true
		}
		for k := 2; k <= maxV; k++ {
			if !rec(nil, k) {
				return
			}
		}
	}})
	if thorough {
		// pairs reaching over the whole lattice
		allSegs := subsetsOf(allLattice(), 2)
		cornerSegs := subsetsOf(cornerSet, 2)
		fams = append(fams, family{"segments-full-lattice", fmt.Sprintf("every pair of one of the %d proper segments of the full lattice with one of the %d proper corner-set segments", len(allSegs), len(cornerSegs)), func(y func(ElemSet) bool) {
			for i := range allSegs {
				for j := range cornerSegs {
					if !y(ElemSet{Kind: "segments", Elems: [][]int{allSegs[i], cornerSegs[j]}}) {
						return
					}
				}
			}
		}})
		fourteen := []int{0, 2, 6, 8, 18, 20, 24, 26, 13, 4, 10, 12, 14, 22} // cube corners, centre, five face centres
		t14 := subsetsOf(fourteen, 3)
		t14b := spread(t14, 60)
		fams = append(fams, family{"triangles-14", fmt.Sprintf("every pair of one of the %d triangles with corners in {cube corners, centre, five face centres} with one of %d of them (evenly spread by index)", len(t14), len(t14b)), func(y func(ElemSet) bool) {
			for i := range t14 {
				for j := range t14b {
					if !y(ElemSet{Kind: "triangles", Elems: [][]int{t14[i], t14b[j]}}) {
						return
					}
				}
			}
		}})
	}
	// large sets: the automatic depth becomes 2 only from 23 elements on
	fams = append(fams, family{"large", "sets of 23..54 elements (automatic depth 2): the whole lattice as a cloud, the lattice twice, a poly-line through all lattice points, fans of non-degenerate lattice triangles", func(y func(ElemSet) bool) {
		var once, twice ElemSet
		once.Kind, twice.Kind = "points", "points"
		for i := 0; i < 27; i++ {
			once.Elems = append(once.Elems, []int{i})
			twice.Elems = append(twice.Elems, []int{i}, []int{(i * 5) % 27})
		}
		strip := ElemSet{Kind: "strip", Elems: [][]int{nil}}
		for i := 0; i < 27; i++ {
			strip.Elems[0] = append(strip.Elems[0], (i*7)%27)
		}
		sets := []ElemSet{once, twice, strip}
		for _, step := range [][2]int{{4, 10}, {1, 3}, {9, 13}} {
			t := ElemSet{Kind: "triangles"}
			for i := 0; i < 27; i++ {
				tri := []int{i, (i + step[0]) % 27, (i + step[1]) % 27}
				if !degenerate(tri) {
					t.Elems = append(t.Elems, tri)
				}
			}
			sets = append(sets, t)
		}
		for _, s := range sets {
			if !y(s) {
				return
			}
		}
	}})
	return fams
}
