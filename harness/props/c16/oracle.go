package c16

import (
	"math"

	"github.com/EliCDavis/vector/vector3"
)

// Independent geometry on the dyadic lattice. Nothing in this file calls polyform.

type V3 = vector3.Float64

func v3(x, y, z float64) V3 { return vector3.New(x, y, z) }

// lattice {0,1,2}^3, index = 9x + 3y + z
func latPoint(i int) V3 { return v3(float64(i/9), float64(i/3%3), float64(i%3)) }

type tern int8

const (
	no tern = iota
	yes
	maybe // touching / tie: either answer is accepted from a per-element predicate
)

type box struct{ lo, hi [3]float64 }

func boxOf(corners []int) box {
	b := box{lo: [3]float64{math.Inf(1), math.Inf(1), math.Inf(1)}, hi: [3]float64{math.Inf(-1), math.Inf(-1), math.Inf(-1)}}
	for _, c := range corners {
		p := latPoint(c)
		for a, x := range [3]float64{p.X(), p.Y(), p.Z()} {
			b.lo[a] = math.Min(b.lo[a], x)
			b.hi[a] = math.Max(b.hi[a], x)
		}
	}
	return b
}

func arr(p V3) [3]float64 { return [3]float64{p.X(), p.Y(), p.Z()} }

// contains: closed-box membership; a point on a face of positive extent is a touching case.
func (b box) contains(q [3]float64) tern {
	r := yes
	for a := 0; a < 3; a++ {
		if q[a] < b.lo[a] || q[a] > b.hi[a] {
			return no
		}
		if b.lo[a] < b.hi[a] && (q[a] == b.lo[a] || q[a] == b.hi[a]) {
			r = maybe
		}
	}
	return r
}

// dist2: exact squared distance from q to the box (all operands dyadic).
func (b box) dist2(q [3]float64) float64 {
	d := 0.
	for a := 0; a < 3; a++ {
		e := 0.
		if q[a] < b.lo[a] {
			e = b.lo[a] - q[a]
		} else if q[a] > b.hi[a] {
			e = q[a] - b.hi[a]
		}
		d += e * e
	}
	return d
}

func (b box) within(q [3]float64, r float64) tern {
	d2 := b.dist2(q)
	switch {
	case d2 < r*r:
		return yes
	case d2 == r*r:
		return maybe
	}
	return no
}

// rayCross: does {o + t*u/|u| : tmin <= t <= tmax} meet the closed box? u is the unnormalised lattice
// direction (components in {-1,0,1}), so every slab parameter is an exact dyadic number in units of
// 1/|u|; the range ends are the only irrational quantities and never tie with them unless |u| = 1.
// Grazing contacts (running along a face of positive extent, touching an edge or corner, meeting the
// box exactly at a range end) are `maybe`.
func (b box) rayCross(o, u [3]float64, tmin, tmax float64) tern {
	l := math.Sqrt(u[0]*u[0] + u[1]*u[1] + u[2]*u[2])
	A, B := tmin/l, tmax/l
	rangeA, rangeB := A, B
	graze := false
	var t0, t1 [3]float64
	for a := 0; a < 3; a++ {
		if u[a] == 0 {
			if o[a] < b.lo[a] || o[a] > b.hi[a] {
				return no
			}
			if b.lo[a] < b.hi[a] && (o[a] == b.lo[a] || o[a] == b.hi[a]) {
				graze = true
			}
			t0[a], t1[a] = math.Inf(-1), math.Inf(1)
			continue
		}
		x0, x1 := (b.lo[a]-o[a])/u[a], (b.hi[a]-o[a])/u[a]
		if x1 < x0 {
			x0, x1 = x1, x0
		}
		t0[a], t1[a] = x0, x1
		A = math.Max(A, x0)
		B = math.Min(B, x1)
	}
	if A > B {
		return no
	}
	if graze {
		return maybe
	}
	if A < B {
		return yes
	}
	// zero-length contact: a genuine crossing only when the box is flat along a moving axis and the
	// contact lies strictly inside the range and strictly inside every other slab of positive extent
	flat := false
	for a := 0; a < 3; a++ {
		if u[a] != 0 && b.lo[a] == b.hi[a] {
			flat = true
		}
	}
	if !flat || !(rangeA < A && B < rangeB) {
		return maybe
	}
	for a := 0; a < 3; a++ {
		if u[a] != 0 && b.lo[a] < b.hi[a] && !(t0[a] < A && A < t1[a]) {
			return maybe
		}
	}
	return yes
}

// ---- exact primitive distances (used only to classify a closest-point disagreement) ----

func sub(a, b [3]float64) [3]float64 { return [3]float64{a[0] - b[0], a[1] - b[1], a[2] - b[2]} }
func dot(a, b [3]float64) float64    { return a[0]*b[0] + a[1]*b[1] + a[2]*b[2] }
func madd(a, d [3]float64, t float64) [3]float64 {
	return [3]float64{a[0] + t*d[0], a[1] + t*d[1], a[2] + t*d[2]}
}

func segDist(q, a, b [3]float64) float64 {
	ab := sub(b, a)
	den := dot(ab, ab)
	if den == 0 {
		d := sub(q, a)
		return math.Sqrt(dot(d, d))
	}
	t := math.Max(0, math.Min(1, dot(sub(q, a), ab)/den))
	d := sub(q, madd(a, ab, t))
	return math.Sqrt(dot(d, d))
}

// triDist: Ericson, Real-Time Collision Detection §5.1.5 (Voronoi regions of the triangle).
func triDist(p, a, b, c [3]float64) float64 {
	ab, ac, ap := sub(b, a), sub(c, a), sub(p, a)
	ret := func(x [3]float64) float64 { d := sub(p, x); return math.Sqrt(dot(d, d)) }
	d1, d2 := dot(ab, ap), dot(ac, ap)
	if d1 <= 0 && d2 <= 0 {
		return ret(a)
	}
	bp := sub(p, b)
	d3, d4 := dot(ab, bp), dot(ac, bp)
	if d3 >= 0 && d4 <= d3 {
		return ret(b)
	}
	vc := d1*d4 - d3*d2
	if vc <= 0 && d1 >= 0 && d3 <= 0 {
		return ret(madd(a, ab, d1/(d1-d3)))
	}
	cp := sub(p, c)
	d5, d6 := dot(ab, cp), dot(ac, cp)
	if d6 >= 0 && d5 <= d6 {
		return ret(c)
	}
	vb := d5*d2 - d1*d6
	if vb <= 0 && d2 >= 0 && d6 <= 0 {
		return ret(madd(a, ac, d2/(d2-d6)))
	}
	va := d3*d6 - d5*d4
	if va <= 0 && (d4-d3) >= 0 && (d5-d6) >= 0 {
		return ret(madd(b, sub(c, b), (d4-d3)/((d4-d3)+(d5-d6))))
	}
	den := 1 / (va + vb + vc)
	v, w := vb*den, vc*den
	return ret(madd(madd(a, ab, v), ac, w))
}

// elemDist: exact distance from q to the element with the given lattice corners (1, 2 or 3).
func elemDist(q [3]float64, corners []int) float64 {
	switch len(corners) {
	case 1:
		d := sub(q, arr(latPoint(corners[0])))
		return math.Sqrt(dot(d, d))
	case 2:
		return segDist(q, arr(latPoint(corners[0])), arr(latPoint(corners[1])))
	}
	return triDist(q, arr(latPoint(corners[0])), arr(latPoint(corners[1])), arr(latPoint(corners[2])))
}

// degenerate: zero-length segment or zero-area triangle (the primitive's own closest point is undefined).
func degenerate(corners []int) bool {
	switch len(corners) {
	case 2:
		return corners[0] == corners[1]
	case 3:
		a, b, c := arr(latPoint(corners[0])), arr(latPoint(corners[1])), arr(latPoint(corners[2]))
		ab, ac := sub(b, a), sub(c, a)
		cx := [3]float64{ab[1]*ac[2] - ab[2]*ac[1], ab[2]*ac[0] - ab[0]*ac[2], ab[0]*ac[1] - ab[1]*ac[0]}
		return dot(cx, cx) == 0
	}
	return false
}
