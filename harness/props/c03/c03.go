// Package c03: mesh operations do what they say and nothing else (DESIGN §4 C03, Appendix A).
//
// Every operation of the shared alphabet (package meshopslib) × every parameter variant × every
// member of S_mesh is executed on the real library and compared with an independent reference
// contract written on plain tables of per-vertex tuples read through the public accessors
// (contracts.go). Composition laws are checked in laws.go.
package c03

import (
	"encoding/json"
	"fmt"

	"github.com/EliCDavis/polyform/modeling"

	"verif/harness/core"
	"verif/harness/meshlib"
	ml "verif/harness/props/meshopslib"
)

func init() { core.Register(core.Check{ID: "C03", Run: run, Replay: replay}) }

// Case is the replay record.
type Case struct {
	Spec meshlib.Spec `json:"spec"`
	Op   string       `json:"op,omitempty"`
	P    ml.Params    `json:"p"`
	Law  string       `json:"law,omitempty"`
	// Op "weld-far": two triangles an exact power of two of rounding cells apart (weldfar.go)
	WeldFar *WeldFar `json:"weld_far,omitempty"`
}

const (
	clCompletes = "the operation completes on an input that satisfies its documented preconditions"
	clReadable  = "the result is a mesh whose per-corner content can be read (well-formed)"
)

type checker struct {
	c     *core.Ctx
	noted map[string]bool
}

func (k checker) reportedOnly(scope, note string) {
	if k.noted[scope] {
		return
	}
	k.noted[scope] = true
	k.c.ReportedOnly(scope, note)
}

// one runs one operation variant on one member of S_mesh and judges it against its contract.
func (k checker) one(s meshlib.Spec, skey string, sh ml.Shape, op ml.Op, p ml.Params) {
	scope := "op/" + op.Name
	alarmed := true
	if op.Outside != nil {
		if why := op.Outside(sh, p); why != "" {
			scope = "op-outside/" + op.Name
			alarmed = false
			k.reportedOnly(scope, "arguments outside the operation's documented precondition ("+why+"): run and reported, never alarmed")
		}
	}
	ct, have := contracts[op.Name]
	if !have {
		k.c.HarnessError("no contract for %s", op.Name)
		return
	}
	cs := Case{Spec: s, Op: op.Name, P: p}
	class := op.Site + ": " + sh.LayoutClass()
	in := s.Build()
	tin := tab(meshlib.Snapshot(in)) // before the call
	why := ct.pre(sh, p)

	var res []modeling.Mesh
	var err error
	o := core.Guard(func() { res, err = op.Apply(in, p) })
	label := "ok"
	fail := func(site, clause, detail string) {
		label = "mismatch"
		if alarmed {
			k.c.Violate(core.Violation{Site: site, Clause: clause, Class: class,
				Detail: fmt.Sprintf("%s(%s) on %s: %s", op.Name, p, trim(skey, 400), trim(detail, 1200)), Case: cs})
		}
	}
	switch {
	case o.Crash():
		if why == "" {
			fail(core.TopFrame(o.Stack), clCompletes, "crash: "+o.Msg+" @ "+o.Stack)
		}
		label = "crash"
	case o.Panicked || err != nil:
		msg := o.Msg
		if err != nil {
			msg = err.Error()
		}
		if why == "" {
			fail(op.Site, clCompletes, "reported failure: "+msg)
			label = "unexpected-failure"
		} else {
			label = "reported-failure(expected: " + why + ")"
		}
	case why != "":
		// the operation accepted an input our reading of its documentation excludes: nothing is demanded
		label = "completed-outside-precondition"
	default:
		outs := make([]table, len(res))
		okWF := true
		for i, m := range res {
			var sn meshlib.Snap
			so := core.Guard(func() { sn = meshlib.Snapshot(m) })
			if so.Panicked {
				fail(op.Site, clReadable, "result "+fmt.Sprint(i)+": snapshot failed: "+so.Msg)
				okWF = false
				break
			}
			if !op.Builder {
				if cl, d := sn.WF(); cl != "" {
					fail(op.Site, clReadable, fmt.Sprintf("result %d: %s: %s", i, cl, d))
					okWF = false
					break
				}
			}
			outs[i] = tab(sn)
		}
		if okWF {
			if clause, detail := ct.check(cx{sh: sh, p: p, in: tin, outs: outs}); clause != "" {
				if clause == skip {
					label = "not-compared(" + detail + ")"
				} else {
					fail(op.Site, clause, detail)
				}
			}
		}
	}
	k.c.Eval(scope, label)
	if alarmed && label == "ok" && len(s.Idx) > 0 {
		k.c.Nontrivial("op", skey, op.Name, p.String())
	}
	k.c.Sample(scope, cs)
}

func run(c *core.Ctx) {
	k := checker{c: c, noted: map[string]bool{}}
	th := c.Thorough()
	maxV := 3
	if th {
		maxV = 4
	}
	ops := ml.Alphabet
	c.Bound("operations", len(ops))
	mixes := []string{"all", "P"}
	if th {
		mixes = []string{"all", "P", "PN"}
	}
	opts := []meshlib.EnumOpt{{MaxV: maxV, MaxP: 2, Topos: []string{"tri", "point"}, Mixes: mixes, AllPos: true}}
	bound := fmt.Sprintf("MaxV=%d MaxP=2 topologies=tri,point all position assignments; mixes %v", maxV, mixes)
	if !th {
		// four vertices are the smallest count at which a welded triangle can refer to a vertex that is not
		// the first of its rounding class (and an unused representative precedes a used one)
		opts = append(opts, meshlib.EnumOpt{MinV: 4, MaxV: 4, MaxP: 1, Topos: []string{"tri", "point"}, Mixes: mixes, AllPos: true})
		bound += "; plus V=4 MaxP=1"
	}
	c.Bound("S_mesh", bound)
	stopped := false
	for _, opt := range opts {
		meshlib.Enum(opt, func(i int, s meshlib.Spec) bool {
			if !c.Next() {
				return true
			}
			if c.Expired() {
				stopped = true
				return false
			}
			sh := ml.ShapeOfSpec(s)
			skey := s.String()
			for _, op := range ops {
				for _, p := range op.Variants(sh, th) {
					k.one(s, skey, sh, op, p)
				}
			}
			k.laws(s, sh)
			return true
		})
		if stopped {
			return
		}
	}
	// size ladder: vertex / primitive counts around every power of two (thresholds a change may
	// introduce — a bucket table, a chunked loop, a 16-bit id — lie far above S_mesh)
	k.weldFar()
	k.indexEdits()
	k.afterPanic()
	k.ladder()
	if c.Expired() {
		return
	}
	// Append over every ordered pair of a smaller scope (both operands vary)
	var small []meshlib.Spec
	meshlib.Enum(meshlib.EnumOpt{MaxV: 2, MaxP: 1, Topos: []string{"tri", "point"}, Mixes: []string{"all", "P", "PN", "none", "T1"}, AllPos: false},
		func(i int, s meshlib.Spec) bool { small = append(small, s); return true })
	c.Bound("append_pairs", len(small)*len(small))
	app, _ := ml.ByName("Mesh.Append")
	for _, a := range small {
		if !c.Next() {
			continue
		}
		if c.Expired() {
			return
		}
		for i := range small {
			b := small[i]
			k.one(a, a.String(), ml.ShapeOfSpec(a), app, ml.Params{Other: &b, Mode: "pair"})
		}
	}
	// split over three primitives (the range cursor has to advance twice)
	split, _ := ml.ByName("meshops.SplitOnUniqueMaterials")
	c.Bound("split.S_mesh", "tri MaxV=3 primitives=3 mix all, all-distinct positions")
	for _, idx := range meshlib.Tuples(3, 9) {
		if !c.Next() {
			continue
		}
		if c.Expired() {
			return
		}
		if !th && (idx[0] != 0 || idx[1] > 1) {
			continue // quick: the index arrays starting 0,0 / 0,1 (1/4.5 of the space)
		}
		s := meshlib.Spec{Topo: "tri", V: 3, Idx: idx, Mix: "all"}
		sh := ml.ShapeOfSpec(s)
		for _, p := range split.Variants(sh, false) {
			k.one(s, s.String(), sh, split, p)
		}
	}
}

func replay(c *core.Ctx) {
	var cs Case
	if err := json.Unmarshal(c.Replay, &cs); err != nil {
		c.HarnessError("bad case: %v", err)
		return
	}
	k := checker{c: c, noted: map[string]bool{}}
	if cs.WeldFar != nil {
		k.weldFarCase(*cs.WeldFar)
		return
	}
	sh := ml.ShapeOfSpec(cs.Spec)
	if cs.Law != "" {
		k.law(cs.Spec, sh, cs.Law)
		return
	}
	op, ok := ml.ByName(cs.Op)
	if !ok {
		c.HarnessError("unknown operation %q", cs.Op)
		return
	}
	k.one(cs.Spec, cs.Spec.String(), sh, op, cs.P)
}

func (k checker) ladder() {
	c := k.c
	maxK := 10
	if c.Thorough() {
		maxK = 12
	}
	var sizes []int
	for kk := 3; kk <= maxK; kk++ {
		sizes = append(sizes, 1<<kk-1, 1<<kk, 1<<kk+1)
	}
	c.Bound("size_ladder", fmt.Sprintf("n = 2^k-1, 2^k, 2^k+1 primitives for k=3..%d (largest %d): welded strip (non-identity order, two material ranges, all attributes), palette strip (three weld classes), unwelded soup, reversed point cloud; every operation with its default parameter variants", maxK, sizes[len(sizes)-1]))
	for _, n := range sizes {
		for _, s := range ml.LadderSpecs(n) {
			if !c.Next() {
				continue
			}
			if c.Expired() {
				return
			}
			sh := ml.ShapeOfSpec(s)
			skey := fmt.Sprintf("ladder %s n=%d mix=%s pal=%v", s.Topo, n, s.Mix, s.Pos != nil)
			for _, op := range ml.Alphabet {
				for _, p := range op.Variants(sh, false) {
					k.one(s, skey, sh, op, p)
				}
			}
			if n == sizes[len(sizes)-1] {
				// the top rung also with the process limited to three processors (default two)
				c.WithProcs(3, func() {
					for _, op := range ml.Alphabet {
						for _, p := range op.Variants(sh, false) {
							k.one(s, skey, sh, op, p)
						}
					}
				})
			}
		}
	}
}

func trim(s string, n int) string {
	if len(s) > n {
		return s[:n] + "…"
	}
	return s
}
