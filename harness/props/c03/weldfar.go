package c03

// Scope "weld/cells-far-apart": WeldByFloat3Attribute merges the vertices that share a rounding
// cell — and only those.  Two triangles whose corresponding corners lie an exact power of two of
// cells apart (2^1 … 2^44, along one axis, along two, along all three, in both directions, at
// decimal precisions 0…3) share no cell: the weld returns both triangles, every corner where it was.
// A cell key that folds, packs or hashes the cell coordinates into fewer bits takes such corners for
// one vertex; the small meshes of the other scopes span a handful of cells.

import (
	"fmt"
	"math"

	"github.com/EliCDavis/polyform/modeling"
	"github.com/EliCDavis/vector/vector3"

	"verif/harness/core"
)

type WeldFar struct {
	// Mul > 0: the second triangle is (-1, +Mul) cells away along the axis pair Axes marks with -1 / +1
	// (the offset at which a key folded as (x*Mul + y) takes two cells for one)
	Mul  int64  `json:"mul,omitempty"`
	K    int    `json:"k"`    // the second triangle is 2^k cells away
	Axes [3]int `json:"axes"` // per axis: -1, 0, +1 times the offset
	Prec int    `json:"prec"` // decimal places of the weld
}

func weldFarMesh(wf WeldFar) (modeling.Mesh, [][3]vector3.Float64) {
	cellSize := math.Pow(10, -float64(wf.Prec))
	base := [][3]float64{{0, 0, 0}, {3, 0, 1}, {0, 2, 5}}
	off := math.Ldexp(1, wf.K)
	var pos []vector3.Float64
	var tris [][3]vector3.Float64
	for t := 0; t < 2; t++ {
		var tri [3]vector3.Float64
		for c, b := range base {
			var p [3]float64
			for a := 0; a < 3; a++ {
				d := float64(wf.Axes[a]) * off
				if wf.Mul > 0 {
					d = 0
					if wf.Axes[a] < 0 {
						d = -float64(wf.K)
					} else if wf.Axes[a] > 0 {
						d = float64(wf.K) * float64(wf.Mul)
					}
				}
				p[a] = (b[a] + float64(t)*d) * cellSize
			}
			tri[c] = vector3.New(p[0], p[1], p[2])
			pos = append(pos, tri[c])
		}
		tris = append(tris, tri)
	}
	m := modeling.NewTriangleMesh([]int{0, 1, 2, 3, 4, 5}).SetFloat3Attribute(modeling.PositionAttribute, pos)
	return m, tris
}

func (k checker) weldFarCase(wf WeldFar) {
	cs := Case{Op: "weld-far", WeldFar: &wf}
	m, tris := weldFarMesh(wf)
	class := fmt.Sprintf("cells-far-apart/precision-%d", wf.Prec)
	scope := "weld/cells-far-apart"
	var out modeling.Mesh
	o := core.Guard(func() { out = m.WeldByFloat3Attribute(modeling.PositionAttribute, wf.Prec) })
	fail := func(clause, detail string) {
		k.c.Eval(scope, "mismatch")
		k.c.Violate(core.Violation{Site: "modeling.Mesh.WeldByFloat3Attribute", Clause: clause, Class: class,
			Detail: fmt.Sprintf("two triangles %s cells apart along %v at precision %d: %s", wfDist(wf), wf.Axes, wf.Prec, detail), Case: cs})
	}
	if o.Panicked {
		fail(clCompletes, "panic: "+o.Msg)
		return
	}
	idx := out.Indices()
	if idx.Len() != 6 {
		fail(clDrops, fmt.Sprintf("the result has %d indices, both triangles (6 corners in 6 different rounding cells) were expected", idx.Len()))
		return
	}
	if !out.HasFloat3Attribute(modeling.PositionAttribute) {
		fail(clCorners, "the result has no positions")
		return
	}
	pa := out.Float3Attribute(modeling.PositionAttribute)
	for t := 0; t < 2; t++ {
		for c := 0; c < 3; c++ {
			vi := idx.At(3*t + c)
			if vi < 0 || vi >= pa.Len() {
				fail(clReadable, fmt.Sprintf("corner %d of triangle %d refers to vertex %d of %d", c, t, vi, pa.Len()))
				return
			}
			if got := pa.At(vi); got != tris[t][c] {
				fail(clCorners, fmt.Sprintf("corner %d of triangle %d sits at %v after the weld, it was at %v (another rounding cell)", c, t, got, tris[t][c]))
				return
			}
		}
	}
	k.c.Eval(scope, "ok")
	k.c.Nontrivial("weld-far", wf.K, fmt.Sprint(wf.Axes), wf.Prec)
}

func (k checker) weldFar() {
	n := 0
	for prec := 0; prec <= 3; prec++ {
		for kk := 1; kk <= 44; kk++ {
			for _, ax := range [][3]int{{1, 0, 0}, {0, 1, 0}, {0, 0, 1}, {1, 1, 0}, {1, 1, 1}, {-1, 0, 0}, {-1, 1, -1}, {0, -1, 1}} {
				n++
				if !k.c.Next() {
					continue
				}
				k.weldFarCase(WeldFar{K: kk, Axes: ax, Prec: prec})
			}
		}
	}
	// cells that a folded key confuses: (-j, +j*M) along two axes for the multipliers hash functions use
	muls := []int64{31, 33, 37, 131, 257, 1000, 1024, 65521, 65536, 65537, 1000003, 16777619, 2147483647, 0x9E3779B9}
	for prec := 0; prec <= 3; prec += 3 {
		for _, m := range muls {
			for _, j := range []int{1, 2, 7} {
				for _, ax := range [][3]int{{-1, 1, 0}, {0, -1, 1}, {-1, 0, 1}, {1, -1, 0}, {0, 1, -1}, {1, 0, -1}} {
					n++
					if !k.c.Next() {
						continue
					}
					k.weldFarCase(WeldFar{Mul: m, K: j, Axes: ax, Prec: prec})
				}
			}
		}
	}
	k.c.Bound("weld_cells_folded", fmt.Sprintf("two triangles (-j, +j*M) cells apart along every ordered axis pair, j in 1,2,7, M in %v, precisions 0 and 3", muls))
	k.c.Bound("weld_cells_far_apart", fmt.Sprintf("%d cases: two triangles 2^k cells apart, k = 1..44, 8 axis patterns, precisions 0..3", n))
}

func wfDist(wf WeldFar) string {
	if wf.Mul > 0 {
		return fmt.Sprintf("(-%d, +%d*%d)", wf.K, wf.K, wf.Mul)
	}
	return fmt.Sprintf("2^%d", wf.K)
}
