package c03

import (
	"fmt"
	"math"
	"sort"

	"github.com/EliCDavis/polyform/modeling"

	"verif/harness/meshlib"
	ml "verif/harness/props/meshopslib"
)

// ---------------------------------------------------------------------------------------------
// plain tables
// ---------------------------------------------------------------------------------------------

type val = [4]float64

type col struct {
	w    int
	data []val
}

// table is a mesh as plain data, read through the public accessors (via meshlib.Snapshot).
type table struct {
	topo modeling.Topology
	idx  []int
	mats []meshlib.MatSnap
	cols map[string]*col // key "name/width"
	keys []string        // sorted
	n    int             // reported attribute length
}

func key(name string, w int) string { return fmt.Sprintf("%s/%d", name, w) }

func tab(s meshlib.Snap) table {
	t := table{topo: s.Topo, idx: s.Idx, mats: s.Mats, cols: map[string]*col{}, n: s.ALen}
	for _, a := range s.Names[0] {
		c := &col{w: 1, data: make([]val, len(s.F1[a]))}
		for i, v := range s.F1[a] {
			c.data[i] = val{v}
		}
		t.cols[key(a, 1)] = c
	}
	for _, a := range s.Names[1] {
		c := &col{w: 2, data: make([]val, len(s.F2[a]))}
		for i, v := range s.F2[a] {
			c.data[i] = val{v.X(), v.Y()}
		}
		t.cols[key(a, 2)] = c
	}
	for _, a := range s.Names[2] {
		c := &col{w: 3, data: make([]val, len(s.F3[a]))}
		for i, v := range s.F3[a] {
			c.data[i] = val{v.X(), v.Y(), v.Z()}
		}
		t.cols[key(a, 3)] = c
	}
	for _, a := range s.Names[3] {
		c := &col{w: 4, data: make([]val, len(s.F4[a]))}
		for i, v := range s.F4[a] {
			c.data[i] = val{v.X(), v.Y(), v.Z(), v.W()}
		}
		t.cols[key(a, 4)] = c
	}
	for k := range t.cols {
		t.keys = append(t.keys, k)
	}
	sort.Strings(t.keys)
	return t
}

func (t table) size() int {
	if t.topo == modeling.TriangleTopology {
		return 3
	}
	return 1
}

// prims lists the vertex ids of every primitive (triangle / point topologies).
func (t table) prims() [][]int {
	sz := t.size()
	var out [][]int
	for p := 0; p+sz <= len(t.idx); p += sz {
		out = append(out, t.idx[p:p+sz])
	}
	return out
}

func bitsEq(a, b val) bool {
	for i := range a {
		if math.Float64bits(a[i]) != math.Float64bits(b[i]) {
			return false
		}
	}
	return true
}

func sameKeys(a, b table) bool {
	if len(a.keys) != len(b.keys) {
		return false
	}
	for i := range a.keys {
		if a.keys[i] != b.keys[i] {
			return false
		}
	}
	return true
}

// cornerEq: vertex va of a and vertex vb of b carry bit-identical tuples (same attribute set assumed).
func cornerEq(a table, va int, b table, vb int) bool {
	for _, k := range a.keys {
		cb, ok := b.cols[k]
		if !ok || !bitsEq(a.cols[k].data[va], cb.data[vb]) {
			return false
		}
	}
	return true
}

func primEq(a table, pa []int, b table, pb []int) bool {
	if len(pa) != len(pb) {
		return false
	}
	for i := range pa {
		if !cornerEq(a, pa[i], b, pb[i]) {
			return false
		}
	}
	return true
}

func (t table) corner(v int) string {
	s := "{"
	for _, k := range t.keys {
		c := t.cols[k]
		s += fmt.Sprintf("%s:%v ", k, c.data[v][:c.w])
	}
	return s + "}"
}

func (t table) prim(p []int) string {
	s := "["
	for _, v := range p {
		s += t.corner(v)
	}
	return s + "]"
}

const (
	clCorners = "keeps the per-corner attribute content of every surviving primitive exactly"
	clDrops   = "drops or reorders only what its contract names"
	clOthers  = "leaves indices, topology and every other attribute untouched"
	clMap     = "changes exactly the named attribute by the stated map"
	clLaw     = "composition law"
	skip      = "\x00skip"
)

// samePrims: the primitives pa of a are exactly the primitives pb of b, in order, corner tuples
// bit-identical. Attribute sets must agree as soon as there is a primitive to compare.
func samePrims(a table, pa [][]int, b table, pb [][]int) (string, string) {
	if len(pa) != len(pb) {
		return clDrops, fmt.Sprintf("expected %d primitives, got %d", len(pa), len(pb))
	}
	if len(pa) == 0 {
		return "", ""
	}
	if !sameKeys(a, b) {
		return clCorners, fmt.Sprintf("attribute sets differ: %v vs %v", a.keys, b.keys)
	}
	for i := range pa {
		if !primEq(a, pa[i], b, pb[i]) {
			return clCorners, fmt.Sprintf("primitive %d: expected %s got %s", i, a.prim(pa[i]), b.prim(pb[i]))
		}
	}
	return "", ""
}

func matsEq(a, b []meshlib.MatSnap) bool {
	if len(a) != len(b) {
		return false
	}
	for i := range a {
		// ranges are compared by content (count, material name, nil-ness), not by pointer identity
		if a[i].Count != b[i].Count || a[i].Name != b[i].Name || (a[i].Ptr == nil) != (b[i].Ptr == nil) {
			return false
		}
	}
	return true
}

func intsEq(a, b []int) bool {
	if len(a) != len(b) {
		return false
	}
	for i := range a {
		if a[i] != b[i] {
			return false
		}
	}
	return true
}

// colsSame: every attribute array of a except the named keys is present in b bit-identically, and b
// has no attribute a lacks except the named keys.
func colsSame(a, b table, except ...string) string {
	ex := map[string]bool{}
	for _, e := range except {
		ex[e] = true
	}
	for _, k := range a.keys {
		if ex[k] {
			continue
		}
		cb, ok := b.cols[k]
		if !ok {
			return "attribute " + k + " disappeared"
		}
		ca := a.cols[k]
		if len(ca.data) != len(cb.data) {
			return fmt.Sprintf("attribute %s changed length %d -> %d", k, len(ca.data), len(cb.data))
		}
		for i := range ca.data {
			if !bitsEq(ca.data[i], cb.data[i]) {
				return fmt.Sprintf("attribute %s[%d] changed %v -> %v", k, i, ca.data[i][:ca.w], cb.data[i][:ca.w])
			}
		}
	}
	for _, k := range b.keys {
		if _, ok := a.cols[k]; !ok && !ex[k] {
			return "attribute " + k + " appeared"
		}
	}
	return ""
}

// restSame: topology, indices, materials and every attribute except the named ones are untouched.
func restSame(a, b table, except ...string) (string, string) {
	if a.topo != b.topo {
		return clOthers, fmt.Sprintf("topology %v -> %v", a.topo, b.topo)
	}
	if !intsEq(a.idx, b.idx) {
		return clOthers, fmt.Sprintf("indices %v -> %v", a.idx, b.idx)
	}
	if !matsEq(a.mats, b.mats) {
		return clOthers, fmt.Sprintf("materials %+v -> %+v", a.mats, b.mats)
	}
	if d := colsSame(a, b, except...); d != "" {
		return clOthers, d
	}
	return "", ""
}

func approx(got, want val, w int) bool {
	// a linear map of a vector carries a rounding error proportional to the vector's largest
	// component, in every component (a rotation moves a coordinate of 2e10 out of the way and leaves
	// 4e-6 of rounding in a component of 6e3 — in the reference's formula as much as in the library's)
	big := 0.0
	for i := 0; i < w; i++ {
		big = math.Max(big, math.Abs(want[i]))
	}
	for i := 0; i < w; i++ {
		if math.IsNaN(got[i]) || math.IsNaN(want[i]) || math.IsInf(want[i], 0) {
			return false
		}
		if math.Abs(got[i]-want[i]) > 1e-9*(1+math.Abs(want[i]))+1e-14*big {
			return false
		}
	}
	return true
}

// mapped: column k of out equals f applied vertex-wise to the input (tolerance 1e-9·scale).
func mapped(in, out table, k string, f func(i int, v val) (val, bool)) (string, string) {
	ci, ok := in.cols[k]
	if !ok {
		return skip, "input lacks " + k
	}
	co, ok := out.cols[k]
	if !ok {
		if len(ci.data) == 0 {
			return "", ""
		}
		return clMap, "attribute " + k + " missing from the result"
	}
	if len(ci.data) != len(co.data) {
		return clMap, fmt.Sprintf("attribute %s has %d entries, expected %d", k, len(co.data), len(ci.data))
	}
	for i := range ci.data {
		want, cmp := f(i, ci.data[i])
		if !cmp {
			continue
		}
		if !approx(co.data[i], want, ci.w) {
			return clMap, fmt.Sprintf("%s[%d] = %v, expected %v (input %v)", k, i, co.data[i][:ci.w], want[:ci.w], ci.data[i][:ci.w])
		}
	}
	return "", ""
}

// ---------------------------------------------------------------------------------------------
// small vector algebra (independent of the library)
// ---------------------------------------------------------------------------------------------

func sub(a, b val) val         { return val{a[0] - b[0], a[1] - b[1], a[2] - b[2]} }
func add(a, b val) val         { return val{a[0] + b[0], a[1] + b[1], a[2] + b[2]} }
func mul(a, b val) val         { return val{a[0] * b[0], a[1] * b[1], a[2] * b[2]} }
func scl(a val, s float64) val { return val{a[0] * s, a[1] * s, a[2] * s} }
func dot(a, b val) float64     { return a[0]*b[0] + a[1]*b[1] + a[2]*b[2] }
func cross(a, b val) val {
	return val{a[1]*b[2] - a[2]*b[1], a[2]*b[0] - a[0]*b[2], a[0]*b[1] - a[1]*b[0]}
}
func norm(a val) float64   { return math.Sqrt(dot(a, a)) }
func v3of(a []float64) val { return val{a[0], a[1], a[2]} }

// rotate v by the unit quaternion q = (x,y,z,w): v + 2w(u×v) + 2u×(u×v)
func rot(q []float64, v val) val {
	u := val{q[0], q[1], q[2]}
	t := scl(cross(u, v), 2)
	return add(add(v, scl(t, q[3])), cross(u, t))
}

// trs: scale, then rotate, then translate (t(3) q(4) s(3))
func applyTRS(t []float64, v val) val {
	return add(rot(t[3:7], mul(v, v3of(t[7:10]))), v3of(t[0:3]))
}

func area(a, b, c val) float64 { return norm(cross(sub(b, a), sub(c, a))) / 2 }

// ---------------------------------------------------------------------------------------------
// contracts
// ---------------------------------------------------------------------------------------------

type cx struct {
	sh   ml.Shape
	p    ml.Params
	in   table
	outs []table
}

type contract struct {
	// pre returns "" when the input satisfies the operation's documented preconditions, else the reason
	// a reported failure is the expected outcome.
	pre func(sh ml.Shape, p ml.Params) string
	// check returns ("","") when the contract holds, (skip, why) when nothing can be demanded, else
	// (clause, detail).
	check func(c cx) (string, string)
}

var contracts = map[string]contract{}

func reg(c contract, names ...string) {
	for _, n := range names {
		contracts[n] = c
	}
}

func need(attrs ...string) func(ml.Shape, ml.Params) string {
	return func(sh ml.Shape, p ml.Params) string {
		for _, a := range attrs {
			if !sh.Has(a) {
				return "no " + a + " attribute"
			}
		}
		return ""
	}
}

func and(fs ...func(ml.Shape, ml.Params) string) func(ml.Shape, ml.Params) string {
	return func(sh ml.Shape, p ml.Params) string {
		for _, f := range fs {
			if w := f(sh, p); w != "" {
				return w
			}
		}
		return ""
	}
}

func needTri(sh ml.Shape, _ ml.Params) string {
	if sh.Topo != "tri" {
		return "not a triangle mesh"
	}
	return ""
}

func needPoint(sh ml.Shape, _ ml.Params) string {
	if sh.Topo != "point" {
		return "not a point cloud"
	}
	return ""
}

func none(ml.Shape, ml.Params) string { return "" }

// attrOr resolves the empty attribute name of transformer forms to their documented fallback.
func attrOr(a, fallback string) string {
	if a == "" {
		return fallback
	}
	return a
}

func needAttr(fallback string) func(ml.Shape, ml.Params) string {
	return func(sh ml.Shape, p ml.Params) string {
		a := attrOr(p.Attr, fallback)
		if !sh.Has(a) {
			return "no " + a + " attribute"
		}
		return ""
	}
}

func one(c cx) (table, string, string) {
	if len(c.outs) != 1 {
		return table{}, clDrops, fmt.Sprintf("expected one result mesh, got %d", len(c.outs))
	}
	return c.outs[0], "", ""
}

// attrMap builds the contract "attribute k changes by f, everything else is untouched".
func attrMap(w int, fallback string, f func(c cx, i int, v val) (val, bool)) func(c cx) (string, string) {
	return func(c cx) (string, string) {
		out, cl, d := one(c)
		if cl != "" {
			return cl, d
		}
		k := key(attrOr(c.p.Attr, fallback), w)
		if cl, d := restSame(c.in, out, k); cl != "" {
			return cl, d
		}
		return mapped(c.in, out, k, func(i int, v val) (val, bool) { return f(c, i, v) })
	}
}

func identityIdx(idx []int) bool {
	for i, v := range idx {
		if v != i {
			return false
		}
	}
	return true
}

func allReferenced(t table) bool {
	seen := map[int]bool{}
	for _, i := range t.idx {
		seen[i] = true
	}
	return len(seen) == t.n
}

func init() {
	P3, N3 := key(ml.P, 3), key(ml.Nr, 3)
	_ = N3

	// ---- layout / connectivity ----
	reg(contract{pre: none, check: func(c cx) (string, string) {
		out, cl, d := one(c)
		if cl != "" {
			return cl, d
		}
		if cl, d := samePrims(c.in, c.in.prims(), out, out.prims()); cl != "" {
			return cl, d
		}
		if !identityIdx(out.idx) {
			return clDrops, fmt.Sprintf("unwelded indices are not 0..n-1: %v", out.idx)
		}
		if len(out.keys) > 0 && out.n != len(out.idx) {
			return clDrops, fmt.Sprintf("unwelded mesh has %d vertices for %d corners", out.n, len(out.idx))
		}
		if out.topo != c.in.topo || !matsEq(c.in.mats, out.mats) {
			return clOthers, "topology or materials changed"
		}
		return "", ""
	}}, "meshops.Unweld", "meshops.UnweldTransformer")

	reg(contract{pre: none, check: func(c cx) (string, string) {
		out, cl, d := one(c)
		if cl != "" {
			return cl, d
		}
		if cl, d := samePrims(c.in, c.in.prims(), out, out.prims()); cl != "" {
			return cl, d
		}
		if !allReferenced(out) {
			return clDrops, fmt.Sprintf("an unreferenced vertex remains: %d vertices, indices %v", out.n, out.idx)
		}
		if out.topo != c.in.topo || !matsEq(c.in.mats, out.mats) {
			return clOthers, "topology or materials changed"
		}
		return "", ""
	}}, "meshops.RemovedUnreferencedVertices", "meshops.RemovedUnreferencedVerticesTransformer")

	reg(contract{pre: and(needTri, needAttr(ml.P)), check: func(c cx) (string, string) {
		out, cl, d := one(c)
		if cl != "" {
			return cl, d
		}
		pos := c.in.cols[key(attrOr(c.p.Attr, ml.P), 3)]
		var keep [][]int
		for _, p := range c.in.prims() {
			a := area(pos.data[p[0]], pos.data[p[1]], pos.data[p[2]])
			if math.Abs(a-c.p.F) <= 1e-9*(1+a) && a != 0 {
				return skip, "area within rounding of the threshold"
			}
			if !math.IsNaN(a) && a > c.p.F {
				keep = append(keep, p)
			}
		}
		if cl, d := samePrims(c.in, keep, out, out.prims()); cl != "" {
			return cl, d
		}
		if out.topo != c.in.topo {
			return clOthers, "topology changed"
		}
		return "", ""
	}}, "meshops.RemoveNullFaces3D", "meshops.RemoveNullFaces3DTransformer")

	flipped := func(in, out table) (string, string) {
		pi, po := in.prims(), out.prims()
		if len(pi) != len(po) {
			return clDrops, fmt.Sprintf("expected %d primitives, got %d", len(pi), len(po))
		}
		if len(pi) > 0 && !sameKeys(in, out) {
			return clCorners, "attribute sets differ"
		}
		for i := range pi {
			a, b := pi[i], po[i]
			// any odd permutation reverses the winding
			ok := primEq(in, []int{a[1], a[0], a[2]}, out, b) || primEq(in, []int{a[0], a[2], a[1]}, out, b) || primEq(in, []int{a[2], a[1], a[0]}, out, b)
			if !ok {
				return clCorners, fmt.Sprintf("primitive %d is not the input primitive with reversed winding: in %s out %s", i, in.prim(a), out.prim(b))
			}
		}
		return "", ""
	}
	reg(contract{pre: needTri, check: func(c cx) (string, string) {
		out, cl, d := one(c)
		if cl != "" {
			return cl, d
		}
		if cl, d := flipped(c.in, out); cl != "" {
			return cl, d
		}
		if d := colsSame(c.in, out); d != "" {
			return clOthers, d
		}
		if out.topo != c.in.topo || !matsEq(c.in.mats, out.mats) {
			return clOthers, "topology or materials changed"
		}
		return "", ""
	}}, "meshops.FlipTriangleWinding", "meshops.FlipTriangleWindingTransformer")

	reg(contract{pre: needTri, check: func(c cx) (string, string) {
		out, cl, d := one(c)
		if cl != "" {
			return cl, d
		}
		if cl, d := flipped(c.in, out); cl != "" {
			return cl, d
		}
		if !allReferenced(out) {
			return clDrops, "an unreferenced vertex remains"
		}
		return "", ""
	}}, "Mesh.Transform(unweld,flip,removeUnreferenced)")

	reg(contract{pre: none, check: func(c cx) (string, string) {
		out, cl, d := one(c)
		if cl != "" {
			return cl, d
		}
		if out.topo != modeling.PointTopology {
			return clDrops, "result is not a point cloud"
		}
		if d := colsSame(c.in, out); d != "" {
			return clCorners, d
		}
		if c.in.topo == modeling.PointTopology {
			if !intsEq(c.in.idx, out.idx) {
				return clDrops, fmt.Sprintf("indices of a point cloud changed %v -> %v", c.in.idx, out.idx)
			}
			return "", ""
		}
		srt := append([]int{}, out.idx...)
		sort.Ints(srt)
		if len(srt) != c.in.n || !identityIdx(srt) {
			return clDrops, fmt.Sprintf("point cloud over %d vertices has indices %v", c.in.n, out.idx)
		}
		return "", ""
	}}, "Mesh.ToPointCloud")

	reg(contract{pre: func(sh ml.Shape, p ml.Params) string {
		if sh.Topo != p.Other.Topo {
			return "topologies differ"
		}
		return ""
	}, check: func(c cx) (string, string) {
		out, cl, d := one(c)
		if cl != "" {
			return cl, d
		}
		other := tab(meshlib.Snapshot(c.p.Other.Build()))
		pa, pb, po := c.in.prims(), other.prims(), out.prims()
		if len(po) != len(pa)+len(pb) {
			return clDrops, fmt.Sprintf("expected %d+%d primitives, got %d", len(pa), len(pb), len(po))
		}
		union := map[string]int{}
		for _, k := range c.in.keys {
			union[k] = c.in.cols[k].w
		}
		for _, k := range other.keys {
			union[k] = other.cols[k].w
		}
		var ukeys []string
		for k := range union {
			ukeys = append(ukeys, k)
		}
		sort.Strings(ukeys)
		if len(po) > 0 {
			for _, k := range ukeys {
				if _, ok := out.cols[k]; !ok {
					return clCorners, "attribute " + k + " missing from the appended mesh"
				}
			}
			for _, k := range out.keys {
				if _, ok := union[k]; !ok {
					return clOthers, "attribute " + k + " appeared"
				}
			}
		}
		cmp := func(src table, sp []int, op []int, which string, i int) (string, string) {
			for j := range sp {
				for _, k := range ukeys {
					want := val{}
					if cs, ok := src.cols[k]; ok {
						want = cs.data[sp[j]]
					}
					if !bitsEq(out.cols[k].data[op[j]], want) {
						return clCorners, fmt.Sprintf("%s primitive %d corner %d attribute %s = %v, expected %v", which, i, j, k, out.cols[k].data[op[j]], want)
					}
				}
			}
			return "", ""
		}
		for i, p := range pa {
			if cl, d := cmp(c.in, p, po[i], "receiver", i); cl != "" {
				return cl, d
			}
		}
		for i, p := range pb {
			if cl, d := cmp(other, p, po[len(pa)+i], "appended", i); cl != "" {
				return cl, d
			}
		}
		if out.topo != c.in.topo {
			return clOthers, "topology changed"
		}
		if !matsEq(append(append([]meshlib.MatSnap{}, c.in.mats...), other.mats...), out.mats) {
			return clOthers, fmt.Sprintf("materials are not the concatenation: %+v + %+v -> %+v", c.in.mats, other.mats, out.mats)
		}
		return "", ""
	}}, "Mesh.Append")

	reg(contract{pre: func(sh ml.Shape, p ml.Params) string {
		if len(p.TRS) > 0 && !sh.Has(ml.P) {
			return "no Position attribute"
		}
		return ""
	}, check: func(c cx) (string, string) {
		out, cl, d := one(c)
		if cl != "" {
			return cl, d
		}
		pi, po := c.in.prims(), out.prims()
		if len(po) != len(pi)*len(c.p.TRS) {
			return clDrops, fmt.Sprintf("expected %d×%d primitives, got %d", len(c.p.TRS), len(pi), len(po))
		}
		if out.topo != c.in.topo {
			return clOthers, "topology changed"
		}
		if len(po) > 0 && !sameKeys(c.in, out) {
			return clCorners, fmt.Sprintf("attribute sets differ: %v vs %v", c.in.keys, out.keys)
		}
		for ti, t := range c.p.TRS {
			for i, p := range pi {
				q := po[ti*len(pi)+i]
				for j := range p {
					for _, k := range c.in.keys {
						want, got := c.in.cols[k].data[p[j]], out.cols[k].data[q[j]]
						if k == P3 {
							if !approx(got, applyTRS(t, want), 3) {
								return clMap, fmt.Sprintf("copy %d primitive %d corner %d position %v, expected %v", ti, i, j, got, applyTRS(t, want))
							}
						} else if !bitsEq(got, want) {
							return clCorners, fmt.Sprintf("copy %d primitive %d corner %d attribute %s = %v, expected %v", ti, i, j, k, got, want)
						}
					}
				}
			}
		}
		var mats []meshlib.MatSnap
		for range c.p.TRS {
			mats = append(mats, c.in.mats...)
		}
		if !matsEq(mats, out.mats) {
			return clOthers, fmt.Sprintf("materials are not repeated per copy: %+v -> %+v", c.in.mats, out.mats)
		}
		return "", ""
	}}, "repeat.Mesh")

	reg(contract{pre: func(sh ml.Shape, p ml.Params) string {
		if len(p.Mats) >= 2 && sh.Topo != "tri" {
			return "not a triangle mesh"
		}
		return ""
	}, check: func(c cx) (string, string) {
		if len(c.p.Mats) < 2 {
			out, cl, d := one(c)
			if cl != "" {
				return cl, d
			}
			if cl, d := samePrims(c.in, c.in.prims(), out, out.prims()); cl != "" {
				return cl, d
			}
			return "", ""
		}
		// expected: per material id the primitives of its ranges, in order
		pi := c.in.prims()
		want := map[string][][]int{}
		cur := 0
		for r, n := range c.p.Mats {
			name := ml.MaterialKey(c.p.MatIDs[r])
			for j := 0; j < n && cur < len(pi); j++ {
				want[name] = append(want[name], pi[cur])
				cur++
			}
		}
		seen := map[string]bool{}
		for oi, out := range c.outs {
			po := out.prims()
			if len(out.mats) != 1 {
				return clDrops, fmt.Sprintf("result %d carries %d material ranges, expected one", oi, len(out.mats))
			}
			name := ml.KeyOf(out.mats[0].Ptr)
			if len(po) == 0 {
				continue
			}
			if seen[name] {
				return clDrops, fmt.Sprintf("material %s appears in two result meshes", name)
			}
			seen[name] = true
			if cl, d := samePrims(c.in, want[name], out, po); cl != "" {
				return cl, fmt.Sprintf("mesh of material %s: %s", name, d)
			}
			if out.mats[0].Count != len(po) {
				return clDrops, fmt.Sprintf("mesh of material %s: range counts %d primitives, mesh has %d", name, out.mats[0].Count, len(po))
			}
			if out.topo != c.in.topo {
				return clOthers, "topology changed"
			}
		}
		for name, ps := range want {
			if len(ps) > 0 && !seen[name] {
				return clDrops, fmt.Sprintf("the %d primitives of material %s are in no result mesh", len(ps), name)
			}
		}
		return "", ""
	}}, "meshops.SplitOnUniqueMaterials")

	filter := func(w int) contract {
		return contract{pre: needAttr(""), check: func(c cx) (string, string) {
			out, cl, d := one(c)
			if cl != "" {
				return cl, d
			}
			pred := ml.Pred(c.p)
			a := c.in.cols[key(c.p.Attr, w)]
			pi, po := c.in.prims(), out.prims()
			if out.topo != c.in.topo {
				return clOthers, "topology changed"
			}
			if len(po) > 0 && !sameKeys(c.in, out) {
				return clCorners, fmt.Sprintf("attribute sets differ: %v vs %v", c.in.keys, out.keys)
			}
			j := 0
			for i, p := range pi {
				pass := 0
				for _, v := range p {
					if pred(a.data[v][0]) {
						pass++
					}
				}
				matches := j < len(po) && primEq(c.in, p, out, po[j])
				switch {
				case pass == len(p): // every corner passes: must survive
					if !matches {
						got := "nothing"
						if j < len(po) {
							got = out.prim(po[j])
						}
						return clCorners, fmt.Sprintf("primitive %d %s passes the filter and must survive unchanged at position %d; found %s", i, c.in.prim(p), j, got)
					}
					j++
				case pass == 0: // no corner passes: must be dropped
				default: // some corners pass: either, the contract does not say
					if matches {
						j++
					}
				}
			}
			if j != len(po) {
				return clDrops, fmt.Sprintf("result primitive %d %s is not a surviving input primitive in order", j, out.prim(po[j]))
			}
			return "", ""
		}}
	}
	reg(filter(1), "meshops.FilterFloat1", "meshops.FilterFloat1Transformer")
	reg(filter(2), "meshops.FilterFloat2", "meshops.FilterFloat2Transformer")
	reg(filter(3), "meshops.FilterFloat3", "meshops.FilterFloat3Transformer")
	reg(filter(4), "meshops.FilterFloat4", "meshops.FilterFloat4Transformer")

	reg(contract{pre: and(needPoint, needAttr(ml.P)), check: func(c cx) (string, string) {
		out, cl, d := one(c)
		if cl != "" {
			return cl, d
		}
		a := c.in.cols[key(attrOr(c.p.Attr, ml.P), 3)]
		lo, hi := val{}, val{}
		for i := 0; i < 3; i++ {
			lo[i], hi[i] = c.p.Box[i]-c.p.Box[3+i]/2, c.p.Box[i]+c.p.Box[3+i]/2
		}
		var keep [][]int
		for _, p := range c.in.prims() {
			v := a.data[p[0]]
			inside := true
			for i := 0; i < 3; i++ {
				if math.Abs(v[i]-lo[i]) < 1e-6 || math.Abs(v[i]-hi[i]) < 1e-6 {
					return skip, "point on the face of the box"
				}
				if v[i] < lo[i] || v[i] > hi[i] {
					inside = false
				}
			}
			if inside {
				keep = append(keep, p)
			}
		}
		if out.topo != modeling.PointTopology {
			return clOthers, "topology changed"
		}
		return samePrims(c.in, keep, out, out.prims())
	}}, "meshops.CropFloat3Attribute", "meshops.CropAttribute3DTransformer")

	// slice: the two results are the triangles entirely on either side of the plane x = 0.5
	sliceSides := func(c cx) (neg, pos [][]int, straddle bool) {
		a := c.in.cols[P3]
		for _, p := range c.in.prims() {
			n := 0
			for _, v := range p {
				if a.data[v][0] < 0.5 {
					n++
				}
			}
			switch n {
			case 3:
				neg = append(neg, p)
			case 0:
				pos = append(pos, p)
			default:
				straddle = true
			}
		}
		return
	}
	reg(contract{pre: and(needTri, need(ml.P)), check: func(c cx) (string, string) {
		if len(c.outs) != 2 {
			return clDrops, "expected two result meshes"
		}
		neg, pos, straddle := sliceSides(c)
		if straddle {
			return skip, "a triangle straddles the plane (cutting is not specified)"
		}
		a, b := c.outs[0], c.outs[1]
		cl1, d1 := samePrims(c.in, neg, a, a.prims())
		cl2, _ := samePrims(c.in, pos, b, b.prims())
		if cl1 == "" && cl2 == "" {
			return "", ""
		}
		cl3, _ := samePrims(c.in, pos, a, a.prims())
		cl4, _ := samePrims(c.in, neg, b, b.prims())
		if cl3 == "" && cl4 == "" {
			return "", ""
		}
		return clDrops, "the results are not the triangles on either side of the plane: " + d1
	}}, "meshops.SliceByPlaneWithAttribute")
	reg(contract{pre: and(needTri, need(ml.P)), check: func(c cx) (string, string) {
		out, cl, d := one(c)
		if cl != "" {
			return cl, d
		}
		neg, pos, straddle := sliceSides(c)
		if straddle {
			return skip, "a triangle straddles the plane (cutting is not specified)"
		}
		if cl, _ := samePrims(c.in, neg, out, out.prims()); cl == "" {
			return "", ""
		}
		if cl, _ := samePrims(c.in, pos, out, out.prims()); cl == "" {
			return "", ""
		}
		return clDrops, "the result is not the set of triangles on one side of the plane"
	}}, "meshops.SliceByPlaneTransformer")

	// ---- weld ----
	reg(contract{pre: and(needTri, needAttr("")), check: func(c cx) (string, string) {
		out, cl, d := one(c)
		if cl != "" {
			return cl, d
		}
		k := key(c.p.Attr, 3)
		scale := math.Pow(10, float64(c.p.N))
		type cell [3]int64
		tie := false
		cellOf := func(v val) cell {
			var r cell
			for i := 0; i < 3; i++ {
				x := v[i] * scale
				if f := math.Abs(x - math.Floor(x) - 0.5); f < 1e-6 {
					tie = true
				}
				r[i] = int64(math.Floor(x + 0.5))
				if x < 0 { // round half away from zero
					r[i] = -int64(math.Floor(-x + 0.5))
				}
			}
			return r
		}
		a := c.in.cols[k]
		cells := make([]cell, len(a.data))
		for i, v := range a.data {
			cells[i] = cellOf(v)
		}
		if tie {
			return skip, "a coordinate lies on a rounding tie"
		}
		var want [][3]cell
		for _, p := range c.in.prims() {
			x, y, z := cells[p[0]], cells[p[1]], cells[p[2]]
			if x != y && y != z && x != z {
				want = append(want, [3]cell{x, y, z})
			}
		}
		po := out.prims()
		if len(po) != len(want) {
			return clDrops, fmt.Sprintf("expected the %d triangles with three distinct rounding cells, got %d", len(want), len(po))
		}
		if out.topo != c.in.topo {
			return clOthers, "topology changed"
		}
		if len(po) == 0 {
			return "", ""
		}
		if !sameKeys(c.in, out) {
			return clCorners, fmt.Sprintf("attribute sets differ: %v vs %v", c.in.keys, out.keys)
		}
		oa := out.cols[k]
		for i, p := range po {
			for j, v := range p {
				if cellOf(oa.data[v]) != want[i][j] {
					return clCorners, fmt.Sprintf("triangle %d corner %d lies in rounding cell %v, expected %v", i, j, cellOf(oa.data[v]), want[i][j])
				}
				found := false
				for iv := range cells {
					if cells[iv] == want[i][j] && cornerEq(out, v, c.in, iv) {
						found = true
						break
					}
				}
				if !found {
					return clCorners, fmt.Sprintf("triangle %d corner %d carries %s, which is the tuple of no input vertex of its rounding cell", i, j, out.corner(v))
				}
			}
		}
		seen := map[cell]bool{}
		for _, v := range oa.data {
			cv := cellOf(v)
			if seen[cv] {
				return clDrops, fmt.Sprintf("two result vertices share rounding cell %v (not welded)", cv)
			}
			seen[cv] = true
		}
		if !allReferenced(out) {
			return clDrops, "an unreferenced vertex remains"
		}
		return "", ""
	}}, "Mesh.WeldByFloat3Attribute")

	// ---- one attribute transformed ----
	reg(contract{pre: need(ml.P), check: attrMap(3, ml.P, func(c cx, i int, v val) (val, bool) { return add(v, v3of(c.p.V)), true })}, "Mesh.Translate")
	reg(contract{pre: need(ml.P), check: attrMap(3, ml.P, func(c cx, i int, v val) (val, bool) { return mul(v, v3of(c.p.V)), true })}, "Mesh.Scale")
	reg(contract{pre: need(ml.P), check: attrMap(3, ml.P, func(c cx, i int, v val) (val, bool) { return rot(c.p.Q, v), true })}, "Mesh.Rotate")
	reg(contract{pre: need(ml.P), check: attrMap(3, ml.P, func(c cx, i int, v val) (val, bool) { return applyTRS(c.p.TRS[0], v), true })}, "Mesh.ApplyTRS")
	reg(contract{pre: needAttr(ml.P), check: attrMap(3, ml.P, func(c cx, i int, v val) (val, bool) { return add(v, v3of(c.p.V)), true })},
		"meshops.TranslateAttribute3D", "meshops.TranslateAttribute3DTransformer")
	reg(contract{pre: needAttr(ml.P), check: attrMap(3, ml.P, func(c cx, i int, v val) (val, bool) { return rot(c.p.Q, v), true })},
		"meshops.RotateAttribute3D", "meshops.RotateAttribute3DTransformer")
	reg(contract{pre: needAttr(ml.P), check: attrMap(3, ml.P, func(c cx, i int, v val) (val, bool) {
		o := v3of(c.p.O)
		return add(o, mul(sub(v, o), v3of(c.p.V))), true
	})}, "meshops.ScaleAttribute3D", "meshops.ScaleAttribute3DTransformer")
	reg(contract{pre: needAttr(ml.UV), check: attrMap(2, ml.UV, func(c cx, i int, v val) (val, bool) {
		return val{c.p.O[0] + (v[0]-c.p.O[0])*c.p.V[0], c.p.O[1] + (v[1]-c.p.O[1])*c.p.V[1]}, true
	})}, "meshops.ScaleAttribute2D", "meshops.ScaleAttribute2DTransformer")
	reg(contract{pre: func(sh ml.Shape, p ml.Params) string {
		return need(attrOr(p.Attr, ml.P), attrOr(p.Attr2, ml.Nr))(sh, p)
	}, check: attrMap(3, ml.P, func(c cx, i int, v val) (val, bool) {
		n := c.in.cols[key(attrOr(c.p.Attr2, ml.Nr), 3)].data[i]
		return add(v, scl(n, c.p.F)), true
	})}, "meshops.ScaleAttributeAlongNormal", "meshops.ScaleAttributeAlongNormalTransformer")

	reg(contract{pre: needAttr(ml.P), check: func(c cx) (string, string) {
		a := c.in.cols[key(attrOr(c.p.Attr, ml.P), 3)]
		lo, hi := val{math.Inf(1), math.Inf(1), math.Inf(1)}, val{math.Inf(-1), math.Inf(-1), math.Inf(-1)}
		for _, v := range a.data {
			for i := 0; i < 3; i++ {
				lo[i], hi[i] = math.Min(lo[i], v[i]), math.Max(hi[i], v[i])
			}
		}
		ce := scl(add(lo, hi), 0.5)
		return attrMap(3, ml.P, func(c cx, i int, v val) (val, bool) { return sub(v, ce), true })(c)
	}}, "meshops.CenterFloat3Attribute", "meshops.CenterAttribute3DTransformer")

	normalize := func(w int, fallback string) contract {
		return contract{pre: needAttr(fallback), check: func(c cx) (string, string) {
			a := c.in.cols[key(attrOr(c.p.Attr, fallback), w)]
			mx := 0.
			for _, v := range a.data {
				l := 0.
				for i := 0; i < w; i++ {
					l += v[i] * v[i]
				}
				mx = math.Max(mx, math.Sqrt(l))
			}
			return attrMap(w, fallback, func(c cx, i int, v val) (val, bool) {
				if mx == 0 {
					return v, false // division by zero: not compared
				}
				return val{v[0] / mx, v[1] / mx, v[2] / mx}, true
			})(c)
		}}
	}
	reg(normalize(3, ml.P), "meshops.NormalizeAttribute3D", "meshops.NormalizeAttribute3DTransformer")
	reg(normalize(2, ml.UV), "meshops.NormalizeAttribute2D", "meshops.NormalizeAttribute2DTransformer")

	// ---- normals ----
	// candidates of a smooth vertex normal under the three standard face weightings
	// (area = raw cross product, uniform = unit face normal, angle = unit normal × corner angle)
	smoothCandidates := func(c cx, coincide func(a, b val) bool) [][3]val {
		pos := c.in.cols[P3]
		sums := make([][3]val, len(pos.data))
		for _, p := range c.in.prims() {
			A, B, C := pos.data[p[0]], pos.data[p[1]], pos.data[p[2]]
			n := cross(sub(B, A), sub(C, A))
			l := norm(n)
			if l == 0 || math.IsNaN(l) {
				continue
			}
			unit := scl(n, 1/l)
			corner := [3]val{A, B, C}
			for j := range p {
				e1, e2 := sub(corner[(j+1)%3], corner[j]), sub(corner[(j+2)%3], corner[j])
				ang := math.Acos(math.Max(-1, math.Min(1, dot(e1, e2)/(norm(e1)*norm(e2)))))
				for v := range pos.data {
					if (coincide == nil && v == p[j]) || (coincide != nil && coincide(pos.data[v], corner[j])) {
						sums[v][0] = add(sums[v][0], n)
						sums[v][1] = add(sums[v][1], unit)
						sums[v][2] = add(sums[v][2], scl(unit, ang))
					}
				}
			}
		}
		return sums
	}
	smooth := func(coincide func(c cx) func(a, b val) bool) func(c cx) (string, string) {
		return func(c cx) (string, string) {
			out, cl, d := one(c)
			if cl != "" {
				return cl, d
			}
			if cl, d := restSame(c.in, out, N3); cl != "" {
				return cl, d
			}
			var co func(a, b val) bool
			if coincide != nil {
				if c.p.F == 0 {
					return skip, "weld distance 0: whether a vertex lies within distance 0 of itself is decided by rounding in the spatial index"
				}
				co = coincide(c)
			}
			sums := smoothCandidates(c, co)
			on, ok := out.cols[N3]
			if !ok {
				if c.in.n == 0 {
					return "", ""
				}
				return clMap, "no Normal attribute on the result"
			}
			if len(on.data) != c.in.n {
				return clMap, fmt.Sprintf("Normal has %d entries for %d vertices", len(on.data), c.in.n)
			}
			for v, got := range on.data {
				okAny, ambiguous := false, false
				for _, s := range sums[v] {
					l := norm(s)
					switch {
					case l == 0:
						// no incident face, or the faces cancel exactly: the normal stays zero
						if norm(got) < 1e-9 {
							okAny = true
						}
					case l < 1e-9:
						// the faces cancel up to rounding: the direction of the residue is noise
						ambiguous = true
					default:
						if approx(got, scl(s, 1/l), 3) {
							okAny = true
						}
					}
				}
				if !ambiguous && !okAny {
					return clMap, fmt.Sprintf("Normal[%d] = %v is not the normalised sum of the incident face normals (area-weighted %v)", v, got[:3], sums[v][0][:3])
				}
			}
			return "", ""
		}
	}
	reg(contract{pre: and(needTri, need(ml.P)), check: smooth(nil)}, "meshops.SmoothNormals", "meshops.SmoothNormalsTransformer")
	reg(contract{pre: func(sh ml.Shape, p ml.Params) string {
		if p.F < 0 {
			return "negative weld distance"
		}
		return and(needTri, need(ml.P))(sh, p)
	}, check: smooth(func(c cx) func(a, b val) bool {
		d := c.p.F
		return func(a, b val) bool { return norm(sub(a, b)) <= d }
	})}, "meshops.SmoothNormalsImplicitWeld", "meshops.SmoothNormalsImplicitWeldTransformer")

	reg(contract{pre: and(needTri, need(ml.P)), check: func(c cx) (string, string) {
		out, cl, d := one(c)
		if cl != "" {
			return cl, d
		}
		if cl, d := restSame(c.in, out, N3); cl != "" {
			return cl, d
		}
		on, ok := out.cols[N3]
		if !ok {
			if c.in.n == 0 {
				return "", ""
			}
			return clMap, "no Normal attribute on the result"
		}
		if len(on.data) != c.in.n {
			return clMap, fmt.Sprintf("Normal has %d entries for %d vertices", len(on.data), c.in.n)
		}
		pos := c.in.cols[P3]
		for v, got := range on.data {
			incident, degenerate, match := 0, false, false
			for _, p := range c.in.prims() {
				if p[0] != v && p[1] != v && p[2] != v {
					continue
				}
				incident++
				n := cross(sub(pos.data[p[1]], pos.data[p[0]]), sub(pos.data[p[2]], pos.data[p[0]]))
				l := norm(n)
				if l == 0 {
					degenerate = true
					continue
				}
				if approx(got, scl(n, 1/l), 3) {
					match = true
				}
			}
			if incident == 0 || match || degenerate {
				continue // unreferenced vertices and vertices of zero-area faces are not compared
			}
			return clMap, fmt.Sprintf("Normal[%d] = %v is the unit normal of no incident face", v, got[:3])
		}
		return "", ""
	}}, "meshops.FlatNormals", "meshops.FlatNormalsTransformer")

	// ---- Laplacian ----
	laplacian := func(axis bool) func(c cx) (string, string) {
		return func(c cx) (string, string) {
			out, cl, d := one(c)
			if cl != "" {
				return cl, d
			}
			k := key(attrOr(c.p.Attr, ml.P), 3)
			if cl, d := restSame(c.in, out, k); cl != "" {
				return cl, d
			}
			a := c.in.cols[k]
			mask := val{1, 1, 1}
			if axis {
				ax := v3of(c.p.O)
				nz := 0
				for i := 0; i < 3; i++ {
					if ax[i] != 0 {
						nz++
					}
				}
				if nz != 1 {
					return skip, "axis not aligned with a coordinate axis (projection is not specified)"
				}
				l := norm(ax)
				mask = val{math.Abs(ax[0]) / l, math.Abs(ax[1]) / l, math.Abs(ax[2]) / l}
			}
			// Two readings the name leaves open, each accepted: (1) whether a triangle that repeats a
			// vertex makes that vertex its own neighbour, (2) whether a sweep updates in place
			// (Gauss-Seidel) or simultaneously (Jacobi).
			first := ""
			firstDetail := ""
			for _, selfLinks := range []bool{true, false} {
				nb := make([]map[int]bool, len(a.data))
				for _, p := range c.in.prims() {
					for j := 0; j < 3; j++ {
						x, y := p[j], p[(j+1)%3]
						if x == y && !selfLinks {
							continue
						}
						if nb[x] == nil {
							nb[x] = map[int]bool{}
						}
						if nb[y] == nil {
							nb[y] = map[int]bool{}
						}
						nb[x][y], nb[y][x] = true, true
					}
				}
				step := func(cur []val, v int, from []val) val {
					var sum val
					for n := 0; n < len(from); n++ { // ascending order: deterministic sums
						if nb[v][n] {
							sum = add(sum, from[n])
						}
					}
					mean := scl(sum, 1/float64(len(nb[v])))
					return add(cur[v], mul(scl(sub(mean, cur[v]), c.p.F), mask))
				}
				seq := append([]val{}, a.data...)
				jac := append([]val{}, a.data...)
				for it := 0; it < c.p.N; it++ {
					for v := range seq {
						if len(nb[v]) > 0 {
							seq[v] = step(seq, v, seq)
						}
					}
					prev := append([]val{}, jac...)
					for v := range jac {
						if len(nb[v]) > 0 {
							jac[v] = step(prev, v, prev)
						}
					}
				}
				for _, want := range [][]val{seq, jac} {
					cl, d := mapped(c.in, out, k, func(i int, v val) (val, bool) { return want[i], len(nb[i]) > 0 })
					if cl == "" {
						return "", ""
					}
					if first == "" {
						first, firstDetail = cl, d
					}
				}
			}
			return first, firstDetail + " (sequential in-place sweep, self-links counted; the other readings do not match either)"
		}
	}
	reg(contract{pre: and(needTri, needAttr(ml.P)), check: laplacian(false)}, "meshops.LaplacianSmooth", "meshops.LaplacianSmoothTransformer")
	reg(contract{pre: and(needTri, needAttr(ml.P)), check: laplacian(true)}, "meshops.LaplacianSmoothAlongAxis")

	// ---- colour maps: only "that attribute, same length, nothing else" is demanded ----
	colour := func(pre func(ml.Shape, ml.Params) string) contract {
		return contract{pre: pre, check: func(c cx) (string, string) {
			out, cl, d := one(c)
			if cl != "" {
				return cl, d
			}
			k := key(attrOr(c.p.Attr, modeling.ColorAttribute), 3)
			if cl, d := restSame(c.in, out, k); cl != "" {
				return cl, d
			}
			ci, ok := c.in.cols[k]
			if !ok {
				return "", "" // skip-on-missing: untouched mesh
			}
			co, ok := out.cols[k]
			if !ok || len(co.data) != len(ci.data) {
				return clMap, "attribute " + k + " lost or resized"
			}
			return "", ""
		}}
	}
	reg(colour(needAttr(modeling.ColorAttribute)), "meshops.VertexColorSpace", "meshops.ColorGradingLut", "meshops.ColorGradingLutTransformer")
	reg(colour(func(sh ml.Shape, p ml.Params) string {
		if p.Mode == "skip-missing" {
			return ""
		}
		return needAttr(modeling.ColorAttribute)(sh, p)
	}), "meshops.VertexColorSpaceTransformer")

	// ---- Mesh setters / modifiers ----
	modify := func(w int) contract {
		return contract{pre: needAttr(""), check: func(c cx) (string, string) {
			out, cl, d := one(c)
			if cl != "" {
				return cl, d
			}
			k := key(c.p.Attr, w)
			if cl, d := restSame(c.in, out, k); cl != "" {
				return cl, d
			}
			ci, co := c.in.cols[k], out.cols[k]
			if co == nil {
				if len(ci.data) == 0 {
					return "", ""
				}
				return clMap, "attribute lost"
			}
			if len(ci.data) != len(co.data) {
				return clMap, "attribute resized"
			}
			for i, v := range ci.data {
				var want val
				for j := 0; j < w; j++ {
					want[j] = ml.ModifyF(i, v[j])
				}
				if !bitsEq(co.data[i], want) {
					return clMap, fmt.Sprintf("%s[%d] = %v, expected f(%d, %v) = %v", k, i, co.data[i][:w], i, v[:w], want[:w])
				}
			}
			return "", ""
		}}
	}
	reg(modify(3), "Mesh.ModifyFloat3Attribute")
	reg(modify(2), "Mesh.ModifyFloat2Attribute")
	reg(modify(1), "Mesh.ModifyFloat1Attribute")
	m3p := modify(3)
	m3p.pre = func(sh ml.Shape, p ml.Params) string {
		if p.N < 1 {
			return "pool size < 1"
		}
		return needAttr("")(sh, p)
	}
	reg(m3p, "Mesh.ModifyFloat3AttributeParallelWithPoolSize")

	setAttr := func(w int) contract {
		return contract{pre: none, check: func(c cx) (string, string) {
			out, cl, d := one(c)
			if cl != "" {
				return cl, d
			}
			k := key(c.p.Attr, w)
			if cl, d := restSame(c.in, out, k); cl != "" {
				return cl, d
			}
			co := out.cols[k]
			if c.p.Len == 0 {
				if co != nil && len(co.data) != 0 {
					return clMap, "attribute set to empty data still has entries"
				}
				return "", ""
			}
			if co == nil || len(co.data) != c.p.Len {
				return clMap, "attribute does not hold the data handed in"
			}
			for i := range co.data {
				want := ml.SetData(c.p.Attr, i)
				for j := w; j < 4; j++ {
					want[j] = 0
				}
				if !bitsEq(co.data[i], want) {
					return clMap, fmt.Sprintf("%s[%d] = %v, expected %v", k, i, co.data[i][:w], want[:w])
				}
			}
			return "", ""
		}}
	}
	reg(setAttr(3), "Mesh.SetFloat3Attribute")
	reg(setAttr(2), "Mesh.SetFloat2Attribute")
	reg(setAttr(1), "Mesh.SetFloat1Attribute")
	reg(setAttr(4), "Mesh.SetFloat4Attribute")

	reg(contract{pre: none, check: func(c cx) (string, string) {
		out, cl, d := one(c)
		if cl != "" {
			return cl, d
		}
		if out.topo != c.in.topo || !matsEq(c.in.mats, out.mats) {
			return clOthers, "topology or materials changed"
		}
		if d := colsSame(c.in, out); d != "" {
			return clOthers, d
		}
		if !intsEq(out.idx, c.p.Idx) {
			return clMap, fmt.Sprintf("indices are %v, expected %v", out.idx, c.p.Idx)
		}
		return "", ""
	}}, "Mesh.SetIndices")

	reg(contract{pre: none, check: func(c cx) (string, string) {
		out, cl, d := one(c)
		if cl != "" {
			return cl, d
		}
		k := key(c.p.Attr, 3)
		if cl, d := restSame(c.in, out, k); cl != "" {
			return cl, d
		}
		src := tab(meshlib.Snapshot(c.p.Other.Build()))
		cs, co := src.cols[k], out.cols[k]
		if cs == nil || len(cs.data) == 0 {
			if co != nil && len(co.data) > 0 {
				return clMap, "copied a missing attribute yet the result has data"
			}
			return "", ""
		}
		if co == nil || len(co.data) != len(cs.data) {
			return clMap, "copied attribute has the wrong length"
		}
		for i := range cs.data {
			if !bitsEq(cs.data[i], co.data[i]) {
				return clMap, fmt.Sprintf("%s[%d] = %v, expected the source's %v", k, i, co.data[i][:3], cs.data[i][:3])
			}
		}
		return "", ""
	}}, "Mesh.CopyFloat3Attribute")

	matsOnly := func(want func(c cx) []meshlib.MatSnap) func(c cx) (string, string) {
		return func(c cx) (string, string) {
			out, cl, d := one(c)
			if cl != "" {
				return cl, d
			}
			if out.topo != c.in.topo || !intsEq(c.in.idx, out.idx) {
				return clOthers, "topology or indices changed"
			}
			if d := colsSame(c.in, out); d != "" {
				return clOthers, d
			}
			w := want(c)
			if len(w) != len(out.mats) {
				return clMap, fmt.Sprintf("materials %+v, expected %+v", out.mats, w)
			}
			for i := range w {
				if w[i].Count != out.mats[i].Count || w[i].Name != out.mats[i].Name {
					return clMap, fmt.Sprintf("materials %+v, expected %+v", out.mats, w)
				}
			}
			return "", ""
		}
	}
	reg(contract{pre: none, check: matsOnly(func(c cx) []meshlib.MatSnap {
		return []meshlib.MatSnap{{Count: len(c.in.prims()), Name: ml.MaterialName(c.p.MatIDs[0])}}
	})}, "Mesh.SetMaterial")
	reg(contract{pre: none, check: matsOnly(func(c cx) []meshlib.MatSnap {
		var w []meshlib.MatSnap
		for i, n := range c.p.Mats {
			w = append(w, meshlib.MatSnap{Count: n, Name: ml.MaterialName(c.p.MatIDs[i])})
		}
		return w
	})}, "Mesh.SetMaterials")

	reg(contract{pre: none, check: func(c cx) (string, string) {
		out, cl, d := one(c)
		if cl != "" {
			return cl, d
		}
		if out.topo != c.in.topo || !intsEq(c.in.idx, out.idx) || !matsEq(c.in.mats, out.mats) {
			return clOthers, "topology, indices or materials changed"
		}
		if len(out.keys) != 0 {
			return clMap, fmt.Sprintf("attributes remain: %v", out.keys)
		}
		return "", ""
	}}, "Mesh.ClearAttributeData")
}
