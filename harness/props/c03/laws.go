package c03

import (
	"fmt"

	"github.com/EliCDavis/polyform/modeling"
	"github.com/EliCDavis/polyform/modeling/meshops"
	"github.com/EliCDavis/vector/vector3"

	"verif/harness/core"
	"verif/harness/meshlib"
	ml "verif/harness/props/meshopslib"
)

// lawNames in a fixed order. Each law builds its operands freshly and compares two library results
// with each other (the single-operation contracts anchor each side to the reference model).
var lawNames = []string{
	"weld∘unweld ≡ weld",
	"flip∘flip ≡ id",
	"unweld∘unweld ≡ unweld",
	"removeUnreferenced∘removeUnreferenced ≡ removeUnreferenced",
	"removeUnreferenced∘unweld ≡ unweld",
	"removeNullFaces∘removeNullFaces ≡ removeNullFaces",
	"weld∘weld ≡ weld",
	"toPointCloud∘toPointCloud ≡ toPointCloud",
	"translate(a)∘translate(b) ≈ translate(a+b)",
	"base.Append(a) is what it was after base.Append(b) (base = unweld(m), base = m.Append(m))",
	"smoothNormals∘scale(σ) ≡ smoothNormals (normals do not depend on the unit of length)",
	"flatNormals∘scale(σ) ≡ flatNormals (normals do not depend on the unit of length)",
	"smoothNormalsImplicitWeld(σd)∘scale(σ) ≡ smoothNormalsImplicitWeld(d)",
}

// scaling factors of the unit-of-length laws: powers of two only — scaling by them is exact, so every
// intermediate of the scaled computation is the scaled intermediate and even exactly cancelling face
// normals (two faces of opposite winding) cancel at every scale; a decimal factor would turn such a
// zero sum into rounding noise of arbitrary direction
var lawSigmas = []float64{0x1p-30, 0x1p-20, 0x1p-10, 0x1p-5, 0x1p10, 0x1p20, 0x1p30}

// normalsAgree compares the Normal attribute of two results (NaN matches NaN: a degenerate face has
// no normal at either scale).
func normalsAgree(a, b modeling.Mesh, what string) (string, string) {
	if a.HasFloat3Attribute(modeling.NormalAttribute) != b.HasFloat3Attribute(modeling.NormalAttribute) {
		return clLaw, what + ": one result has normals, the other has none"
	}
	if !a.HasFloat3Attribute(modeling.NormalAttribute) {
		return "", ""
	}
	x, y := a.Float3Attribute(modeling.NormalAttribute), b.Float3Attribute(modeling.NormalAttribute)
	if x.Len() != y.Len() {
		return clLaw, fmt.Sprintf("%s: %d vs %d normals", what, x.Len(), y.Len())
	}
	for i := 0; i < x.Len(); i++ {
		p, q := x.At(i), y.At(i)
		pn, qn := p.ContainsNaN(), q.ContainsNaN()
		if pn != qn || (!pn && p.Sub(q).Length() > 1e-9) {
			return clLaw, fmt.Sprintf("%s: normal %d is %v at unit scale and %v on the scaled mesh", what, i, p, q)
		}
	}
	return "", ""
}

func (k checker) laws(s meshlib.Spec, sh ml.Shape) {
	for _, l := range lawNames {
		k.law(s, sh, l)
	}
}

func snapOf(m modeling.Mesh) table { return tab(meshlib.Snapshot(m)) }

// rotEq: primitive pb of b is a cyclic rotation of primitive pa of a.
func rotEq(a table, pa []int, b table, pb []int) bool {
	if len(pa) != 3 {
		return primEq(a, pa, b, pb)
	}
	for r := 0; r < 3; r++ {
		if primEq(a, []int{pa[r], pa[(r+1)%3], pa[(r+2)%3]}, b, pb) {
			return true
		}
	}
	return false
}

func (k checker) law(s meshlib.Spec, sh ml.Shape, name string) {
	tri := sh.Topo == "tri"
	hasP := sh.Has(ml.P)
	var site string
	var f func() (string, string)
	same := func(x, y table) (string, string) {
		if cl, d := samePrims(x, x.prims(), y, y.prims()); cl != "" {
			return clLaw, d
		}
		return "", ""
	}
	switch name {
	case "weld∘unweld ≡ weld":
		if !tri || !hasP {
			return
		}
		site = "modeling.Mesh.WeldByFloat3Attribute"
		f = func() (string, string) {
			a := snapOf(meshops.Unweld(s.Build()).WeldByFloat3Attribute(ml.P, 3))
			b := snapOf(s.Build().WeldByFloat3Attribute(ml.P, 3))
			pa, pb := a.prims(), b.prims()
			if len(pa) != len(pb) {
				return clLaw, fmt.Sprintf("%d vs %d triangles", len(pa), len(pb))
			}
			// same triangles; each corner may carry the tuple of any vertex of its rounding cell, so only
			// the welded attribute is compared (to the rounding the weld uses)
			ka := key(ml.P, 3)
			for i := range pa {
				for j := range pa[i] {
					x, y := a.cols[ka].data[pa[i][j]], b.cols[ka].data[pb[i][j]]
					for c := 0; c < 3; c++ {
						if d := x[c] - y[c]; d > 1e-3 || d < -1e-3 {
							return clLaw, fmt.Sprintf("triangle %d corner %d at %v vs %v", i, j, x[:3], y[:3])
						}
					}
				}
			}
			if a.n != b.n {
				return clLaw, fmt.Sprintf("%d vs %d vertices", a.n, b.n)
			}
			return "", ""
		}
	case "flip∘flip ≡ id":
		if !tri {
			return
		}
		site = "meshops.FlipTriangleWinding"
		f = func() (string, string) {
			a := snapOf(meshops.FlipTriangleWinding(meshops.FlipTriangleWinding(s.Build())))
			b := snapOf(s.Build())
			pa, pb := a.prims(), b.prims()
			if len(pa) != len(pb) {
				return clLaw, "primitive count changed"
			}
			for i := range pa {
				if !rotEq(b, pb[i], a, pa[i]) {
					return clLaw, fmt.Sprintf("triangle %d: %s vs %s", i, a.prim(pa[i]), b.prim(pb[i]))
				}
			}
			if d := colsSame(b, a); d != "" {
				return clLaw, d
			}
			return "", ""
		}
	case "unweld∘unweld ≡ unweld":
		site = "meshops.Unweld"
		f = func() (string, string) {
			a := snapOf(meshops.Unweld(meshops.Unweld(s.Build())))
			b := snapOf(meshops.Unweld(s.Build()))
			if !intsEq(a.idx, b.idx) {
				return clLaw, "indices differ"
			}
			if d := colsSame(b, a); d != "" {
				return clLaw, d
			}
			return "", ""
		}
	case "removeUnreferenced∘removeUnreferenced ≡ removeUnreferenced":
		site = "meshops.RemovedUnreferencedVertices"
		f = func() (string, string) {
			a := snapOf(meshops.RemovedUnreferencedVertices(meshops.RemovedUnreferencedVertices(s.Build())))
			b := snapOf(meshops.RemovedUnreferencedVertices(s.Build()))
			if !intsEq(a.idx, b.idx) {
				return clLaw, "indices differ"
			}
			if d := colsSame(b, a); d != "" {
				return clLaw, d
			}
			return "", ""
		}
	case "removeUnreferenced∘unweld ≡ unweld":
		site = "meshops.RemovedUnreferencedVertices"
		f = func() (string, string) {
			a := snapOf(meshops.RemovedUnreferencedVertices(meshops.Unweld(s.Build())))
			b := snapOf(meshops.Unweld(s.Build()))
			if cl, d := same(b, a); cl != "" {
				return cl, d
			}
			if a.n != b.n {
				return clLaw, fmt.Sprintf("%d vs %d vertices", a.n, b.n)
			}
			return "", ""
		}
	case "removeNullFaces∘removeNullFaces ≡ removeNullFaces":
		if !tri || !hasP {
			return
		}
		site = "meshops.RemoveNullFaces3D"
		f = func() (string, string) {
			once := meshops.RemoveNullFaces3D(s.Build(), ml.P, 0)
			b := snapOf(once)
			if len(b.prims()) == 0 {
				return "", "" // nothing left: the second application has no position attribute to look at
			}
			a := snapOf(meshops.RemoveNullFaces3D(meshops.RemoveNullFaces3D(s.Build(), ml.P, 0), ml.P, 0))
			return same(b, a)
		}
	case "weld∘weld ≡ weld":
		if !tri || !hasP {
			return
		}
		site = "modeling.Mesh.WeldByFloat3Attribute"
		f = func() (string, string) {
			a := snapOf(s.Build().WeldByFloat3Attribute(ml.P, 3).WeldByFloat3Attribute(ml.P, 3))
			b := snapOf(s.Build().WeldByFloat3Attribute(ml.P, 3))
			if cl, d := same(b, a); cl != "" {
				return cl, d
			}
			if a.n != b.n {
				return clLaw, fmt.Sprintf("%d vs %d vertices", a.n, b.n)
			}
			return "", ""
		}
	case "toPointCloud∘toPointCloud ≡ toPointCloud":
		site = "modeling.Mesh.ToPointCloud"
		f = func() (string, string) {
			a := snapOf(s.Build().ToPointCloud().ToPointCloud())
			b := snapOf(s.Build().ToPointCloud())
			if a.topo != b.topo || !intsEq(a.idx, b.idx) {
				return clLaw, "topology or indices differ"
			}
			if d := colsSame(b, a); d != "" {
				return clLaw, d
			}
			return "", ""
		}
	case "translate(a)∘translate(b) ≈ translate(a+b)":
		if !hasP {
			return
		}
		site = "modeling.Mesh.Translate"
		f = func() (string, string) {
			a := snapOf(s.Build().Translate(vector3.New(1., 2., 3.)).Translate(vector3.New(0.5, -0.25, 0.)))
			b := snapOf(s.Build().Translate(vector3.New(1.5, 1.75, 3.)))
			if cl, d := restSame(b, a, key(ml.P, 3)); cl != "" {
				return clLaw, d
			}
			if cl, d := mapped(b, a, key(ml.P, 3), func(i int, v val) (val, bool) { return v, true }); cl != "" {
				return clLaw, d
			}
			return "", ""
		}
	case "base.Append(a) is what it was after base.Append(b) (base = unweld(m), base = m.Append(m))":
		// the single-operation contract judges one Append; a value that has been appended to once must
		// stay what the contract said it was when the same base is appended to again (bases that own
		// spare capacity: results of Unweld, of an earlier Append, of a weld)
		site = "modeling.Mesh.Append"
		f = func() (string, string) {
			bases := []func() modeling.Mesh{
				func() modeling.Mesh { return s.Build().Append(s.Build()) },
				func() modeling.Mesh { return s.Build() },
			}
			if tri {
				bases = append(bases, func() modeling.Mesh { return meshops.Unweld(s.Build()) })
				if hasP {
					bases = append(bases, func() modeling.Mesh { return s.Build().WeldByFloat3Attribute(ml.P, 3) })
				}
			}
			opA := ml.AppendOperands[2]
			if sh.Topo == "point" {
				opA = ml.AppendOperands[4]
			}
			for bi, mk := range bases {
				base := mk()
				first := base.Append(opA.Build())
				before := meshlib.Snapshot(first).Hash()
				// the same base appended to again, with an operand of the same size and other values
				second := opA.Build()
				if second.HasFloat3Attribute(ml.P) {
					second = second.Translate(vector3.New(7., -7., 7.5))
				}
				_ = base.Append(second)
				_ = base.Append(s.Build())
				if after := meshlib.Snapshot(first).Hash(); after != before {
					return clLaw, fmt.Sprintf("base %d: the first result of base.Append changed when the same base was appended to again: %s", bi, meshlib.Snapshot(first).Diff(meshlib.Snapshot(mk().Append(opA.Build()))))
				}
			}
			return "", ""
		}
	case "smoothNormals∘scale(σ) ≡ smoothNormals (normals do not depend on the unit of length)",
		"flatNormals∘scale(σ) ≡ flatNormals (normals do not depend on the unit of length)",
		"smoothNormalsImplicitWeld(σd)∘scale(σ) ≡ smoothNormalsImplicitWeld(d)":
		if !tri || !hasP {
			return
		}
		var op func(m modeling.Mesh, sigma float64) modeling.Mesh
		switch {
		case name[0:4] == "flat":
			site = "meshops.FlatNormals"
			op = func(m modeling.Mesh, _ float64) modeling.Mesh { return meshops.FlatNormals(m) }
		case len(name) > 25 && name[:25] == "smoothNormalsImplicitWeld":
			site = "meshops.SmoothNormalsImplicitWeld"
			op = func(m modeling.Mesh, sigma float64) modeling.Mesh {
				return meshops.SmoothNormalsImplicitWeld(m, 0.25*sigma)
			}
		default:
			site = "meshops.SmoothNormals"
			op = func(m modeling.Mesh, _ float64) modeling.Mesh { return meshops.SmoothNormals(m) }
		}
		f = func() (string, string) {
			base := op(s.Build(), 1)
			for _, sg := range lawSigmas {
				scaled := op(s.Build().Scale(vector3.New(sg, sg, sg)), sg)
				if cl, d := normalsAgree(base, scaled, fmt.Sprintf("σ=%g", sg)); cl != "" {
					return cl, d
				}
			}
			return "", ""
		}
	default:
		k.c.HarnessError("unknown law %q", name)
		return
	}
	scope := "law/" + name
	var clause, detail string
	o := core.Guard(func() { clause, detail = f() })
	label := "ok"
	cs := Case{Spec: s, Law: name}
	switch {
	case o.Panicked:
		label = "failed"
		k.c.Violate(core.Violation{Site: site, Clause: clLaw + ": " + name, Class: sh.LayoutClass(),
			Detail: fmt.Sprintf("%s on %s: operation failed: %s %s", name, s, o.Msg, o.Stack), Case: cs})
	case clause != "":
		label = "mismatch"
		k.c.Violate(core.Violation{Site: site, Clause: clLaw + ": " + name, Class: sh.LayoutClass(),
			Detail: fmt.Sprintf("%s on %s: %s", name, s, detail), Case: cs})
	}
	k.c.Eval(scope, label)
	if label == "ok" && len(s.Idx) > 0 {
		k.c.Nontrivial("law", s.String(), name)
	}
	k.c.Sample(scope, cs)
}
