package c03

// Scope "after-a-mesh-of-the-same-shape": an operation is a function of the mesh it is handed,
// whatever it was handed before.  Every operation runs on a 64-triangle strip M and right afterwards
// on M', which has M's topology, vertex count, attribute set and index count and differs from M in
// two neighbouring indices only: (a, b) -> (a+d1, b+d2) for d1 in ±1, ±2 and every d2 in -64..64 that
// keeps the mesh well-formed, at two places of the index array.  M' is judged by its contract as
// every other input is.  A table remembered from the earlier call under a key that summarises the
// index array (its length, a sum, a polynomial hash with a small base) is handed to the wrong mesh
// for one of these edits.

import (
	"fmt"

	"verif/harness/core"

	"verif/harness/meshlib"
	ml "verif/harness/props/meshopslib"
)

func editStrip() meshlib.Spec {
	s := meshlib.Spec{Topo: "tri", V: 66, Mix: "P"}
	for i := 0; i < 64; i++ {
		if i%2 == 0 {
			s.Idx = append(s.Idx, i, i+1, i+2)
		} else {
			s.Idx = append(s.Idx, i+1, i, i+2)
		}
	}
	return s
}

func (k checker) indexEdits() {
	base := editStrip()
	shb := ml.ShapeOfSpec(base)
	bkey := base.String()
	n := 0
	for _, at := range []int{0, 121} {
		for _, d1 := range []int{1, -1, 2, -2} {
			for d2 := -64; d2 <= 64; d2++ {
				if d2 == 0 {
					continue
				}
				s := base
				s.Idx = append([]int{}, base.Idx...)
				s.Idx[at] += d1
				s.Idx[at+1] += d2
				if s.Idx[at] < 0 || s.Idx[at] >= s.V || s.Idx[at+1] < 0 || s.Idx[at+1] >= s.V {
					continue
				}
				t := at / 3 * 3
				if s.Idx[t] == s.Idx[t+1] || s.Idx[t+1] == s.Idx[t+2] || s.Idx[t] == s.Idx[t+2] {
					continue
				}
				t2 := (at + 1) / 3 * 3
				if s.Idx[t2] == s.Idx[t2+1] || s.Idx[t2+1] == s.Idx[t2+2] || s.Idx[t2] == s.Idx[t2+2] {
					continue
				}
				n++
				if !k.c.Next() {
					continue
				}
				if k.c.Expired() {
					return
				}
				sh := ml.ShapeOfSpec(s)
				skey := s.String()
				for _, op := range ml.Alphabet {
					vs := op.Variants(sh, false)
					if len(vs) > 2 {
						vs = vs[:2]
					}
					for _, p := range vs {
						k.one(base, bkey, shb, op, p)
						k.one(s, skey, sh, op, p)
					}
				}
			}
		}
	}
	k.c.Bound("index_edit_pairs", fmt.Sprintf("%d meshes: a 64-triangle strip with two neighbouring indices moved by (±1|±2, -64..64) at index 0 and 121; every operation (first two parameter variants) on the strip, then on the edited strip", n))
}

// Scope "after-a-call-that-panicked": servers recover from a panicking request and go on.  Every
// operation is first handed a mesh that is not well-formed (an index past the last vertex; whatever it
// does with it — an error, a panic, a result — is ignored), then a well-formed mesh of the same size,
// which is judged by its contract as every other input is.
func (k checker) afterPanic() {
	good := editStrip()
	shg := ml.ShapeOfSpec(good)
	gkey := good.String()
	bad := good
	bad.Idx = append([]int{}, good.Idx...)
	bad.Idx[100] = good.V + 5
	n := 0
	for _, op := range ml.Alphabet {
		vs := op.Variants(shg, false)
		if len(vs) > 2 {
			vs = vs[:2]
		}
		for _, p := range vs {
			n++
			if !k.c.Next() {
				continue
			}
			core.Guard(func() { _, _ = op.Apply(bad.Build(), p) })
			k.one(good, gkey, shg, op, p)
			// and a smaller mesh that fits into whatever table the failed call left behind (with the
			// parameter variants of its own shape)
			small := meshlib.Spec{Topo: "tri", V: 6, Idx: []int{3, 4, 5}, Mix: "P"}
			shs := ml.ShapeOfSpec(small)
			for i, ps := range op.Variants(shs, false) {
				if i >= 2 {
					break
				}
				core.Guard(func() { _, _ = op.Apply(bad.Build(), p) })
				k.one(small, small.String(), shs, op, ps)
			}
		}
	}
	k.c.Bound("after_a_call_that_panicked", fmt.Sprintf("%d operation variants: the operation on a 64-triangle strip with one index out of range (outcome ignored), then on the well-formed strip and on a one-triangle mesh with unreferenced vertices", n))
}
