package c07

// Scope (d): the value dimension.  The meshes of scope (a) and the records of scope (b) draw their
// numbers from a handful of values; this scope passes every rung of the float32 ladder
// (core.Float32Ladder: both zeros, subnormals, every binade, the integer-width borders, decimal
// powers) through every float slot of a record (Read→Write, ReadMesh→WriteMesh) and through every
// position component of a mesh (WriteMesh→independent parser→ReadMesh), exact and — for the mesh
// direction — also a float32-inexact neighbour that must be *rounded* (not truncated) to float32.

import (
	"bytes"
	"fmt"
	"io"
	"math"

	"github.com/EliCDavis/polyform/formats/stl"
	"github.com/EliCDavis/polyform/modeling"
	"github.com/EliCDavis/vector/vector3"

	"verif/harness/core"
	"verif/harness/meshlib"
)

var f32Ladder = core.Float32Ladder()

func rung(i int) float32 { return math.Float32frombits(f32Ladder[i%len(f32Ladder)]) }

// valueBytesCase: a file of two records, an ordinary one and one whose slots hold consecutive rungs
// starting at r — where = "vertices": the nine vertex floats (stored unit normal, whole pipeline);
// where = "normal": the three normal floats (Read→Write only: ReadMesh would have to normalise
// 1e38, which the statement does not define).
func (k checker) valueBytesCase(r int, where string) {
	cs := Case{Kind: "value-bytes", N: r, NMode: where}
	ord := rec{n: [3]float32{0, 0, 1}, v: [3][3]float32{{0.1, -2.5, 7.25}, {1, 0, 0}, {0, 1, 0}}, a: 1}
	val := rec{n: [3]float32{0, 0.6, -0.8}, v: [3][3]float32{{0, 0, 0}, {1, 0, 0}, {0, 1, 0.5}}, a: 0xFFFF}
	if where == "normal" {
		val.n = [3]float32{rung(r), rung(r + 1), rung(r + 2)}
	} else {
		for i := 0; i < 9; i++ {
			val.v[i/3][i%3] = rung(r + i)
		}
	}
	class := "values/" + where + "/" + core.MagnitudeClass(f32Ladder[r%len(f32Ladder)])
	k.c.Nontrivial("value-bytes", r, where)
	k.bytesRecs(cs, 0, []rec{ord, val}, "bytes/values-in-"+where, class, where != "normal")
}

// valueMeshCase: two welded triangles whose positions are consecutive rungs starting at r (inexact:
// each multiplied by 1+2^-25 in float64, a value float32 cannot hold), stored unit normals.
func (k checker) valueMeshCase(r int, inexact bool) {
	cs := Case{Kind: "value-mesh", N: r, Big: inexact}
	scope := "mesh/values-exact"
	if inexact {
		scope = "mesh/values-float32-inexact"
	}
	class := scope[5:] + "/" + core.MagnitudeClass(f32Ladder[r%len(f32Ladder)])
	k.c.Nontrivial("value-mesh", r, inexact)
	idx := []int{0, 1, 2, 2, 1, 3}
	pos := make([]vector3.Float64, 4)
	nrm := make([]vector3.Float64, 4)
	for i := range pos {
		var p [3]float64
		for c := 0; c < 3; c++ {
			p[c] = float64(rung(r + 3*i + c))
			if inexact {
				p[c] *= 1 + 0x1p-25
			}
		}
		pos[i] = vector3.New(p[0], p[1], p[2])
		nrm[i] = normalFor("unit", i)
	}
	what := fmt.Sprintf("positions %v (rungs %d.., inexact=%v)", pos, r, inexact)
	m := modeling.NewTriangleMesh(append([]int{}, idx...)).
		SetFloat3Attribute(modeling.PositionAttribute, pos).
		SetFloat3Attribute(modeling.NormalAttribute, nrm)
	const n = 2
	var wantP [n][3][3]float32
	var wantN [n]vector3.Float64
	for t := 0; t < n; t++ {
		var sum vector3.Float64
		for c := 0; c < 3; c++ {
			wantP[t][c] = f32(pos[idx[3*t+c]])
			sum = sum.Add(nrm[idx[3*t+c]])
		}
		wantN[t] = sum.Scale(1. / 3).Normalized()
	}
	outcome := "ok"
	bad := func(site, clause, detail string) {
		if outcome == "ok" {
			outcome = "mismatch"
		}
		k.fail(site, clause, class, detail, cs)
	}
	var buf bytes.Buffer
	var werr error
	o := core.Guard(func() { werr = stl.WriteMesh(&buf, m) })
	switch {
	case o.Crash():
		k.c.Eval(scope, "write-crash")
		k.fail(core.TopFrame(o.Stack), clCrash, class, o.Msg+" @ "+o.Stack, cs)
		return
	case o.Reported || werr != nil:
		k.c.Eval(scope, "write-error")
		k.fail("stl.WriteMesh", clSize, class, fmt.Sprintf("writer refused a well-formed triangle mesh: %s %v (%s)", o.Msg, werr, what), cs)
		return
	}
	b := buf.Bytes()
	if len(b) != 84+50*n {
		bad("stl.WriteMesh", clSize, fmt.Sprintf("%d triangles gave %d bytes, want %d (%s)", n, len(b), 84+50*n, what))
	}
	fileOK := true
	f, perr := parseSTL(b)
	switch {
	case perr != nil:
		fileOK = false
		bad("stl.WriteMesh", clRecords, fmt.Sprintf("independent parser: %v (%s)", perr, what))
	case len(f.recs) != n:
		fileOK = false
		bad("stl.WriteMesh", clRecords, fmt.Sprintf("count field says %d, mesh has %d triangles (%s)", len(f.recs), n, what))
	default:
	recs:
		for t := 0; t < n; t++ {
			for c := 0; c < 3; c++ {
				if !sameBits3(f.recs[t].v[c], wantP[t][c]) {
					fileOK = false
					bad("stl.WriteMesh", clRecords, fmt.Sprintf("record %d corner %d holds %v, want %v (%s)", t, c, f.recs[t].v[c], wantP[t][c], what))
					break recs
				}
			}
			if !near3(f.recs[t].n, wantN[t], 1e-6) {
				fileOK = false
				bad("stl.WriteMesh", clFileNrm, fmt.Sprintf("record %d stores normal %v, want %v (%s)", t, f.recs[t].n, wantN[t], what))
				break
			}
		}
	}
	var back *modeling.Mesh
	var rerr error
	o = core.Guard(func() { back, rerr = stl.ReadMesh(bytes.NewReader(b)) })
	readSite := "stl.ReadMesh"
	if !fileOK {
		readSite = "stl.WriteMesh"
	}
	switch {
	case o.Crash():
		outcome = "read-crash"
		k.fail(core.TopFrame(o.Stack), clCrash, class, o.Msg+" @ "+o.Stack, cs)
	case o.Reported || rerr != nil || back == nil:
		bad(readSite, clRead, fmt.Sprintf("the writer's own output is rejected: %s %v (%s)", o.Msg, rerr, what))
	default:
		k.compareRead(*back, n, func(t, c int) [3]float32 { return wantP[t][c] },
			func(t int) (vector3.Float64, string) { return wantN[t], "value" }, true, readSite, what, bad)
	}
	k.c.Eval(scope, outcome)
	if r%503 == 0 {
		k.c.Sample(scope, map[string]any{"positions": fmt.Sprint(pos), "bytes": len(b)})
	}
}

func (k checker) runValues(base int) {
	c := k.c
	for r := range f32Ladder {
		mine := c.Mine(base + r)
		if !mine {
			continue
		}
		if c.Expired() {
			return
		}
		k.valueBytesCase(r, "vertices")
		k.valueBytesCase(r, "normal")
		k.valueMeshCase(r, false)
		k.valueMeshCase(r, true)
	}
	for i, seq := range core.SaveSequences(3) {
		if c.Mine(base + len(f32Ladder) + i) {
			k.saveOver(seq)
		}
	}
	if c.Mine(base + len(f32Ladder) + 100) {
		k.afterFailedWrite()
	}
	if c.Mine(base + len(f32Ladder) + 101) {
		k.afterFailedRead()
	}
	if c.Mine(base + len(f32Ladder) + 103) {
		k.sinks()
	}
	c.Bound("e.destinations", fmt.Sprintf("stl.WriteMesh of meshes of 0, 1, 3, 100 and 5000 triangles (with and without normals) to %d kinds of io.Writer; same bytes demanded", len(core.SinkVariants)))
	if c.Mine(base + len(f32Ladder) + 102) {
		k.loadAfterReplace()
	}
	c.Bound("e.after_failed_read", "stl.ReadMesh of three good files right after every cut / single-byte damage of a 40-record file (400 positions) and three count fields that promise more records than the file holds")
	c.Bound("e.load_after_replace", "stl.Load of a path whose file was replaced in place (six files, three of equal size; every ordered pair; modification time put back)")
	c.Bound("e.save_sequences", "every sequence of 1..3 stl.Save calls over meshes of 5, 2 and 0 triangles to one path; the file must equal the in-memory write of the last")
	c.Bound("d.value_ladder", fmt.Sprintf("%d float32 values, each in every float slot of a record (vertices: whole pipeline; normal: Read->Write) and in every position component of a two-triangle mesh (exact and x(1+2^-25), which must round)", len(f32Ladder)))
}

// ---- stl.Save over an existing file ---------------------------------------------------------------

const clSave = "writing a mesh to a file yields exactly the 84 + 50*n bytes of that mesh (whatever the path held before)"

func (k checker) saveOver(seq []int) {
	cs := Case{Kind: "save-over", Recs: seq}
	sizes := []int{5, 2, 0}
	mesh := func(it int) modeling.Mesh {
		n := sizes[it]
		if n == 0 {
			return modeling.EmptyMesh(modeling.TriangleTopology)
		}
		idx := make([]int, 0, 3*n)
		pos := make([]vector3.Float64, n+2)
		for i := range pos {
			pos[i] = vector3.New(float64(i)+0.5*float64(it), float64(i*i), -float64(i))
		}
		for f := 0; f < n; f++ {
			idx = append(idx, f+2, f, f+1)
		}
		return modeling.NewTriangleMesh(idx).SetFloat3Attribute(modeling.PositionAttribute, pos)
	}
	scope := "files/save-sequences"
	k.c.Nontrivial("save-over", fmt.Sprint(seq))
	var got []byte
	var err error
	o := core.Guard(func() {
		got, err = core.SaveOver(".stl", seq, func(path string, it int) error { return stl.Save(path, mesh(it)) })
	})
	class := fmt.Sprintf("saves=%d", len(seq))
	if o.Panicked || err != nil {
		k.c.Eval(scope, "save-failure")
		k.fail("stl.Save", clSave, class, fmt.Sprintf("saves %v: %s %v", seq, o.Msg, err), cs)
		return
	}
	var want bytes.Buffer
	if err := stl.WriteMesh(&want, mesh(seq[len(seq)-1])); err != nil {
		k.c.HarnessError("in-memory write failed: %v", err)
		return
	}
	if !bytes.Equal(got, want.Bytes()) {
		k.c.Eval(scope, "mismatch")
		k.fail("stl.Save", clSave, class, fmt.Sprintf("after saving meshes of %v triangles to one path the file holds %d bytes, the last mesh alone writes %d", func() (t []int) {
			for _, i := range seq {
				t = append(t, sizes[i])
			}
			return
		}(), len(got), want.Len()), cs)
		return
	}
	k.c.Eval(scope, "ok")
}

// ---- a write after a failed write ---------------------------------------------------------------

func (k checker) afterFailedWrite() {
	cs := Case{Kind: "after-failed-write"}
	mesh := func(it int) modeling.Mesh {
		n := []int{400, 3}[it]
		idx := make([]int, 0, 3*n)
		pos := make([]vector3.Float64, n+2)
		for i := range pos {
			pos[i] = vector3.New(float64(i)+0.5*float64(it), float64(i*i), -float64(i))
		}
		for f := 0; f < n; f++ {
			idx = append(idx, f+2, f, f+1)
		}
		return modeling.NewTriangleMesh(idx).SetFloat3Attribute(modeling.PositionAttribute, pos)
	}
	k.c.Nontrivial("after-failed-write")
	why := core.AfterFailedWrite(core.FailLimits, func(it int, w io.Writer) error { return stl.WriteMesh(w, mesh(it)) })
	if why != "" {
		k.c.Eval("files/after-failed-write", "mismatch")
		k.fail("stl.WriteMesh", "writing a mesh yields exactly the 84 + 50*n bytes of that mesh (also right after an earlier write failed)", "after-failed-write", why, cs)
		return
	}
	k.c.Eval("files/after-failed-write", "ok")
}

// ---- a read after a failed read; a load after the file was replaced -------------------------------

func histFile(h, n, salt int) []byte {
	rs := make([]rec, n)
	al := recordAlphabet(false)
	for i := range rs {
		rs[i] = al[(i*7+salt)%len(al)]
	}
	return encodeSTL(headers[h%len(headers)], rs)
}

func stlDigest(data []byte) (string, error) {
	m, err := stl.ReadMesh(bytes.NewReader(data))
	if err != nil || m == nil {
		return "", err
	}
	return fmt.Sprintf("%x", meshlib.QuickHash(*m)), nil
}

func (k checker) afterFailedRead() {
	cs := Case{Kind: "after-failed-read"}
	k.c.Nontrivial("after-failed-read")
	bad := core.BadInputs(histFile(0, 40, 1), 400)
	// count fields that promise more records than the file holds, or an absurd number
	for _, n := range []uint32{41, 100, 4096} {
		d := histFile(1, 40, 2)
		d[80], d[81], d[82], d[83] = byte(n), byte(n>>8), byte(n>>16), byte(n>>24)
		bad = append(bad, d)
	}
	for _, good := range [][]byte{histFile(0, 3, 3), histFile(2, 0, 0), histFile(1, 50, 4)} {
		if why := core.AfterFailedRead(bad, good, stlDigest); why != "" {
			k.c.Eval("files/after-failed-read", "mismatch")
			k.fail("stl.ReadMesh", "reading a well-formed STL file yields its n records (also right after an earlier read failed)", "after-failed-read", why, cs)
			return
		}
	}
	k.c.Eval("files/after-failed-read", "ok")
}

func (k checker) loadAfterReplace() {
	cs := Case{Kind: "load-after-replace"}
	k.c.Nontrivial("load-after-replace")
	files := [][]byte{histFile(0, 7, 1), histFile(0, 7, 5), histFile(1, 7, 9), histFile(2, 12, 2), histFile(0, 0, 0), histFile(1, 3, 3)}
	why := core.LoadAfterReplace(".stl", files, func(path string) (string, error) {
		m, err := stl.Load(path)
		if err != nil || m == nil {
			return "", err
		}
		return fmt.Sprintf("%x", meshlib.QuickHash(*m)), nil
	})
	if why != "" {
		k.c.Eval("files/load-after-replace", "mismatch")
		k.fail("stl.Load", "loading a path yields the triangles of the file it holds now", "load-after-replace", why, cs)
		return
	}
	k.c.Eval("files/load-after-replace", "ok")
}

// ---- the same mesh to every kind of destination ---------------------------------------------------

func (k checker) sinks() {
	cs := Case{Kind: "sinks"}
	k.c.Nontrivial("sinks")
	for _, n := range []int{0, 1, 3, 100, 5000} {
		for _, mode := range []string{"nonunit", "none"} {
			m := buildMesh(stripSpec(n), mode)
			if n == 0 {
				m = modeling.EmptyMesh(modeling.TriangleTopology)
			}
			if why := core.SinkAgreement(func(w io.Writer) error { return stl.WriteMesh(w, m) }); why != "" {
				k.c.Eval("files/destinations", "mismatch")
				k.fail("stl.WriteMesh", "writing a mesh yields exactly the 84 + 50*n bytes of that mesh (whatever kind of io.Writer receives them)", "destinations", fmt.Sprintf("%d triangles, normals %s: %s", n, mode, why), cs)
				return
			}
			k.c.Eval("files/destinations", "ok")
		}
	}
}
