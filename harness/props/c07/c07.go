// Package c07: binary STL round trip and size law (DESIGN §4 C07).
//
// Scope (a): every triangle mesh of S_mesh(4,2) with a Position attribute × normal mode
// {none, unit, non-unit} (alarmed), the same meshes with normals whose mean vanishes and meshes
// without a Position attribute (run, reported, never alarmed).
// Scope (b): every well-formed binary STL byte string with n ≤ 2 records over a small alphabet of
// float32 vectors × attribute word {0,1,0xFFFF} × three 80-byte headers.
//
// The reference is an independent encoder/parser of the 80+4+50·n layout written from the format
// definition (refstl.go); expected triangles are derived from the replayable Spec, never from the
// library's own accessors.
package c07

import (
	"io"
	"bytes"
	"encoding/json"
	"fmt"
	"math"
	"reflect"

	"github.com/EliCDavis/polyform/formats/stl"
	"github.com/EliCDavis/polyform/generator/artifact"
	"github.com/EliCDavis/polyform/modeling"
	"github.com/EliCDavis/polyform/nodes"
	"github.com/EliCDavis/vector/vector3"

	"verif/harness/core"
	"verif/harness/meshlib"
)

func init() { core.Register(core.Check{ID: "C07", Run: run, Replay: replay}) }

// Case is the replay record of one executed case.
type Case struct {
	Kind  string        `json:"kind"` // "mesh" | "bytes"
	Spec  *meshlib.Spec `json:"spec,omitempty"`
	NMode string        `json:"nmode,omitempty"`
	Hdr   int           `json:"hdr,omitempty"`
	Recs  []int         `json:"recs,omitempty"` // record ids into the record alphabet
	Big   bool          `json:"big,omitempty"`  // record alphabet of the thorough tier
	N     int           `json:"n,omitempty"`    // "ladder": a file of N records (ids follow a fixed pattern)
	// "export-history": a strip mesh of Hist[0] triangles with normals HistModes[0] is exported, then
	// one of Hist[1] triangles with HistModes[1], …; the last export is judged
	Hist      []int    `json:"hist,omitempty"`
	HistModes []string `json:"hist_modes,omitempty"`
}

type checker struct {
	c    *core.Ctx
	over *Case // set: violations carry this (history) case instead of the single call's
}

func (k checker) fail(site, clause, class, detail string, cs Case) {
	k.c.Violate(core.Violation{Site: site, Clause: clause, Class: class, Detail: detail, Case: cs})
}

// Oracle clauses, in the property's words.
const (
	clSize    = "writing n triangles yields exactly 84 + 50*n bytes"
	clRecords = "the file holds n and the float32 corner positions of the n triangles in order"
	clFileNrm = "the stored facet normal is the normalised mean of the corner normals (float32 precision)"
	clRead    = "reading the file back yields the same n triangles in order, positions rounded to float32"
	clReadNrm = "the facet normal read back equals the normalised mean of the corner normals, or the geometric normal when none is stored"
	clCrash   = "writing and reading a well-formed input does not crash"
	clRewrite = "reading a well-formed STL file and writing it again reproduces the triangle records"
	clReadBin = "reading a well-formed STL file yields its n records field by field"
	clRemesh  = "reading a well-formed STL file as a mesh and writing it again reproduces the corner positions exactly"
)

// ---------------------------------------------------------------------------------------------
// scope (a): meshes
// ---------------------------------------------------------------------------------------------

var nmodesAlarmed = []string{"none", "unit", "nonunit", "same-nonunit", "same-unit"}
var nmodesReported = []string{"zero", "cancel"}

// normalFor gives vertex i its normal in the given mode. "zero": all normals vanish (every facet
// mean is zero). "cancel": the first three vertices carry coplanar normals 120° apart whose sum is
// exactly zero, so the facet (0,1,2) (in any order) has a zero mean while others do not.
func normalFor(mode string, i int) vector3.Float64 {
	a := meshlib.AttrValue(modeling.NormalAttribute, i)
	v := vector3.New(a[0], -a[1], a[2]-3) // vertex-unique, mixed signs, float32-inexact
	switch mode {
	case "nonunit":
		return v
	case "unit":
		return v.Normalized()
	case "same-nonunit":
		return vector3.New(0.6, -0.8, 2.4) // every vertex carries the same normal (flat shading), not of unit length
	case "same-unit":
		return vector3.New(0.6, 0., -0.8)
	case "zero":
		return vector3.New(0., 0., 0.)
	case "cancel":
		switch i {
		case 0:
			return vector3.New(1., 0., 0.)
		case 1:
			return vector3.New(-0.5, 0.75, 0.)
		case 2:
			return vector3.New(-0.5, -0.75, 0.)
		}
		return vector3.New(0., 0., 1.)
	}
	panic("bad normal mode " + mode)
}

func buildMesh(s meshlib.Spec, mode string) modeling.Mesh {
	m := s.Build()
	if mode == "none" || mode == "" {
		return m
	}
	n := make([]vector3.Float64, s.V)
	for i := range n {
		n[i] = normalFor(mode, i)
	}
	return m.SetFloat3Attribute(modeling.NormalAttribute, n)
}

func indexClass(s meshlib.Spec) string {
	if len(s.Idx) == 0 {
		return "no-triangles"
	}
	ident := len(s.Idx) == s.V
	for i, x := range s.Idx {
		if x != i {
			ident = false
		}
	}
	if ident {
		return "identity-index"
	}
	return "non-identity-index"
}

func hasPosition(s meshlib.Spec) bool {
	for _, a := range meshlib.Mixes[s.Mix] {
		if a == modeling.PositionAttribute {
			return true
		}
	}
	return false
}

func f32(v vector3.Float64) [3]float32 {
	return [3]float32{float32(v.X()), float32(v.Y()), float32(v.Z())}
}

func (k checker) meshCase(s meshlib.Spec, mode string) {
	cs := Case{Kind: "mesh", Spec: &s, NMode: mode}
	n := s.PrimCount()
	class := indexClass(s) + "/normals-" + mode
	scope := "mesh/normals-" + mode
	if k.over != nil {
		cs = *k.over
		class = "after-other-exports/" + class
		scope = "export-history/normals-" + mode
	}
	alarmed := true
	switch {
	case !hasPosition(s):
		scope, alarmed = "mesh/no-position", false
	case mode == "zero" || mode == "cancel":
		scope, alarmed = "mesh/zero-mean-normals", false
	}
	viol := func(site, clause, detail string) {
		if alarmed {
			k.fail(site, clause, class, detail, cs)
		}
	}

	if n >= 1 {
		k.c.Nontrivial("mesh", s.String(), mode)
	}

	// expected triangles, derived from the spec alone
	type tri struct {
		p    [3][3]float32
		mean vector3.Float64 // mean of the corner normals (mode != none)
	}
	want := make([]tri, n)
	for t := 0; t < n; t++ {
		var sum vector3.Float64
		for c := 0; c < 3; c++ {
			vi := s.Idx[3*t+c]
			if hasPosition(s) {
				want[t].p[c] = f32(s.Position(vi))
			}
			if mode != "none" {
				sum = sum.Add(normalFor(mode, vi))
			}
		}
		want[t].mean = sum.Scale(1. / 3)
	}

	var buf bytes.Buffer
	var werr error
	o := core.Guard(func() { werr = stl.WriteMesh(&buf, buildMesh(s, mode)) })
	switch {
	case o.Crash():
		k.c.Eval(scope, "write-crash")
		viol(core.TopFrame(o.Stack), clCrash, o.Msg+" @ "+o.Stack)
		return
	case o.Reported:
		k.c.Eval(scope, "write-reported-failure")
		viol("stl.WriteMesh", clSize, "writer refused a well-formed triangle mesh: "+o.Msg)
		return
	case werr != nil:
		k.c.Eval(scope, "write-error")
		viol("stl.WriteMesh", clSize, "writer refused a well-formed triangle mesh: "+werr.Error())
		return
	}
	b := buf.Bytes()
	outcome := "ok"
	bad := func(site, clause, detail string) {
		if outcome == "ok" {
			outcome = "mismatch"
		}
		viol(site, clause, detail)
	}
	// the node-graph entry point (stl.ArtifactNode) writes the same bytes
	{
		var nb bytes.Buffer
		var nerr error
		g := core.Guard(func() {
			var art artifact.Artifact
			if art, nerr = (stl.ArtifactNodeData{In: nodes.Value(buildMesh(s, mode)).Out()}).Process(); nerr == nil {
				nerr = art.Write(&nb)
			}
		})
		if g.Panicked || nerr != nil || !bytes.Equal(nb.Bytes(), b) {
			bad("stl.ArtifactNodeData.Process", "the node-graph entry point writes the bytes stl.WriteMesh writes", fmt.Sprintf("artifact wrote %d bytes, stl.WriteMesh %d (or other content) %s %v (%s)", nb.Len(), len(b), g.Msg, nerr, s))
		}
	}

	if !hasPosition(s) {
		// outside the precondition: record what happens
		switch {
		case len(b) == 84+50*n:
			outcome = "size-law-holds"
		case len(b) == 84:
			outcome = "header-only-file"
		default:
			outcome = "other-size"
		}
		k.c.Eval(scope, outcome)
		k.c.Sample(scope, map[string]any{"spec": s.String(), "bytes": len(b), "triangles": n})
		return
	}

	// 1. size law
	if len(b) != 84+50*n {
		bad("stl.WriteMesh", clSize, fmt.Sprintf("%d triangles gave %d bytes, want %d (%s)", n, len(b), 84+50*n, s))
	}
	// 2. independent parser
	fileOK := true
	f, perr := parseSTL(b)
	if perr != nil {
		fileOK = false
		bad("stl.WriteMesh", clRecords, fmt.Sprintf("independent parser: %v (%s)", perr, s))
	} else if len(f.recs) != n {
		fileOK = false
		bad("stl.WriteMesh", clRecords, fmt.Sprintf("count field says %d, mesh has %d triangles (%s)", len(f.recs), n, s))
	} else {
		for t := 0; t < n && fileOK; t++ {
			for c := 0; c < 3; c++ {
				if !sameBits3(f.recs[t].v[c], want[t].p[c]) {
					fileOK = false
					bad("stl.WriteMesh", clRecords, fmt.Sprintf("record %d corner %d holds %v, want %v (%s)", t, c, f.recs[t].v[c], want[t].p[c], s))
					break
				}
			}
		}
		// facet normal stored in the file
		for t := 0; t < n && fileOK; t++ {
			got := f.recs[t].n
			if mode == "none" {
				// nothing stored in the mesh: a zero normal (reader derives it) or the geometric one
				if got == [3]float32{} {
					continue
				}
				if g, ok := geoNormal(want[t].p); ok && near3(got, g, 1e-5) {
					continue
				}
				bad("stl.WriteMesh", clFileNrm, fmt.Sprintf("mesh has no normals, record %d stores %v (%s)", t, got, s))
				break
			}
			if want[t].mean.Length() == 0 {
				continue // undefined (reported sub-scope)
			}
			if w := want[t].mean.Normalized(); !near3(got, w, 1e-6) {
				bad("stl.WriteMesh", clFileNrm, fmt.Sprintf("record %d stores normal %v, want %v (%s)", t, got, w, s))
				break
			}
		}
	}

	// 3. read back through the library
	var back *modeling.Mesh
	var rerr error
	o = core.Guard(func() { back, rerr = stl.ReadMesh(bytes.NewReader(b)) })
	readSite := "stl.ReadMesh"
	if !fileOK {
		readSite = "stl.WriteMesh" // the bytes were already wrong; do not blame the reader
	}
	switch {
	case o.Crash():
		outcome = "read-crash"
		viol(core.TopFrame(o.Stack), clCrash, o.Msg+" @ "+o.Stack)
	case o.Reported || rerr != nil || back == nil:
		msg := o.Msg
		if rerr != nil {
			msg = rerr.Error()
		}
		bad(readSite, clRead, fmt.Sprintf("the writer's own output is rejected: %s (%s)", msg, s))
	default:
		k.compareRead(*back, n, func(t, c int) [3]float32 { return want[t].p[c] },
			func(t int) (vector3.Float64, string) {
				if mode == "none" {
					return vector3.Float64{}, "geometric"
				}
				if want[t].mean.Length() == 0 {
					return vector3.Float64{}, "skip"
				}
				return want[t].mean.Normalized(), "value"
			}, mode != "none" && n > 0, readSite, s.String(), bad)
	}

	if !alarmed && outcome == "ok" && perr == nil {
		for _, r := range f.recs {
			if r.n[0] != r.n[0] || r.n[1] != r.n[1] || r.n[2] != r.n[2] {
				outcome = "nan-normal-stored"
			}
		}
	}
	k.c.Eval(scope, outcome)
	k.c.Sample(scope, map[string]any{"spec": s.String(), "normals": mode, "bytes": len(b), "triangles": n})
}

// compareRead checks a mesh returned by stl.ReadMesh against the expected triangle list.
// wantN(t) returns the expected facet normal and how to judge it: "value" (compare), "geometric"
// (compare with the geometric normal of the float32 triangle), "skip".
func (k checker) compareRead(back modeling.Mesh, n int, wantP func(t, c int) [3]float32,
	wantN func(t int) (vector3.Float64, string), mustCarryNormals bool, site, what string,
	bad func(site, clause, detail string)) {

	snap := meshlib.Snapshot(back)
	if snap.Topo != modeling.TriangleTopology {
		bad(site, clRead, fmt.Sprintf("result topology %v (%s)", snap.Topo, what))
		return
	}
	if cl, d := snap.WF(); cl != "" {
		bad(site, clRead, fmt.Sprintf("result is not a well-formed mesh: %s: %s (%s)", cl, d, what))
		return
	}
	if len(snap.Idx) != 3*n {
		bad(site, clRead, fmt.Sprintf("result has %d triangles, want %d (%s)", len(snap.Idx)/3, n, what))
		return
	}
	if n == 0 {
		return
	}
	pos, ok := snap.F3[modeling.PositionAttribute]
	if !ok {
		bad(site, clRead, fmt.Sprintf("result has no Position attribute (%s)", what))
		return
	}
	for t := 0; t < n; t++ {
		for c := 0; c < 3; c++ {
			g := pos[snap.Idx[3*t+c]]
			w := wantP(t, c)
			if math.Float64bits(g.X()) != math.Float64bits(float64(w[0])) ||
				math.Float64bits(g.Y()) != math.Float64bits(float64(w[1])) ||
				math.Float64bits(g.Z()) != math.Float64bits(float64(w[2])) {
				bad(site, clRead, fmt.Sprintf("triangle %d corner %d reads %v, want %v (%s)", t, c, g, w, what))
				return
			}
		}
	}
	nrm, has := snap.F3[modeling.NormalAttribute]
	if !has {
		if mustCarryNormals {
			// every facet of the input has a (defined) normal, so the read-back must expose one
			for t := 0; t < n; t++ {
				if _, how := wantN(t); how == "value" {
					bad(site, clReadNrm, fmt.Sprintf("result carries no normals although normals were stored (%s)", what))
					return
				}
			}
		}
		return
	}
	for t := 0; t < n; t++ {
		w, how := wantN(t)
		if how == "skip" {
			continue
		}
		if how == "geometric" {
			g, ok := geoNormal([3][3]float32{wantP(t, 0), wantP(t, 1), wantP(t, 2)})
			if !ok {
				continue // degenerate facet: no geometric normal exists
			}
			w = g
		}
		for c := 0; c < 3; c++ {
			g := nrm[snap.Idx[3*t+c]]
			if !(g.Sub(w).Length() <= 1e-6) {
				bad(site, clReadNrm, fmt.Sprintf("triangle %d corner %d reads normal %v, want %v [%s] (%s)", t, c, g, w, how, what))
				return
			}
		}
	}
}

func sameBits3(a, b [3]float32) bool {
	for i := range a {
		if math.Float32bits(a[i]) != math.Float32bits(b[i]) {
			return false
		}
	}
	return true
}

func near3(got [3]float32, want vector3.Float64, tol float64) bool {
	d := vector3.New(float64(got[0]), float64(got[1]), float64(got[2])).Sub(want).Length()
	return d <= tol // false for NaN
}

// geoNormal is the unit normal (b−a)×(c−a) of a float32 triangle; ok=false when it is degenerate.
func geoNormal(p [3][3]float32) (vector3.Float64, bool) {
	v := func(i int) vector3.Float64 {
		return vector3.New(float64(p[i][0]), float64(p[i][1]), float64(p[i][2]))
	}
	e1, e2 := v(1).Sub(v(0)), v(2).Sub(v(0))
	cx := vector3.New(e1.Y()*e2.Z()-e1.Z()*e2.Y(), e1.Z()*e2.X()-e1.X()*e2.Z(), e1.X()*e2.Y()-e1.Y()*e2.X())
	l := cx.Length()
	if !(l > 1e-12*(1+e1.Length()*e2.Length())) {
		return vector3.Float64{}, false
	}
	return cx.Scale(1 / l), true
}

// ---------------------------------------------------------------------------------------------
// run
// ---------------------------------------------------------------------------------------------

func run(c *core.Ctx) {
	k := checker{c: c}
	c.ReportedOnly("mesh/no-position", "meshes without a Position attribute are outside the property's precondition (the writer emits a header-only file); run and counted, never alarmed")
	c.ReportedOnly("mesh/zero-mean-normals", "facets whose corner normals cancel have no normalised mean; run and counted, never alarmed")

	// (a) every triangle mesh of S_mesh(4,2) with positions × normal modes
	optA := meshlib.EnumOpt{MaxV: 4, MaxP: 2, Topos: []string{"tri"}, Mixes: []string{"P"}, AllPos: true}
	c.Bound("a.S_mesh", "v<=4, p<=2, triangle topology, every index array, every palette assignment + all-distinct")
	c.Bound("a.normal_modes", append(append([]string{}, nmodesAlarmed...), nmodesReported...))
	base := 0
	stopped := false
	nA := meshlib.Enum(optA, func(i int, s meshlib.Spec) bool {
		if !c.Mine(i) {
			return true
		}
		if c.Expired() {
			stopped = true
			return false
		}
		for _, m := range nmodesAlarmed {
			k.meshCase(s, m)
		}
		for _, m := range nmodesReported {
			k.meshCase(s, m)
		}
		return true
	})
	base += nA
	if stopped {
		return
	}
	c.Bound("a.meshes", nA)
	// thorough: three triangles — all 3^9 index arrays over 3 vertices with every palette assignment,
	// all 4^9 index arrays over 4 vertices with the all-distinct and the all-coincident assignment
	if c.Thorough() {
		for _, optT := range []meshlib.EnumOpt{
			{MaxV: 3, MinV: 3, MaxP: 3, Topos: []string{"tri"}, Mixes: []string{"P"}, AllPos: true},
			{MaxV: 4, MinV: 4, MaxP: 3, Topos: []string{"tri"}, Mixes: []string{"P"}, AllPos: false},
		} {
			nT := meshlib.Enum(optT, func(i int, s meshlib.Spec) bool {
				if s.PrimCount() != 3 || !c.Mine(base+i) {
					return true
				}
				if c.Expired() {
					stopped = true
					return false
				}
				for _, m := range nmodesAlarmed {
					k.meshCase(s, m)
				}
				return true
			})
			base += nT
			if stopped {
				return
			}
		}
		c.Bound("a.meshes_three_triangles", "v=3 p=3 every palette assignment; v=4 p=3 all-distinct and all-coincident positions")
	}
	// meshes without Position (reported only): the attribute-free empty mesh and normals-only meshes
	optN := meshlib.EnumOpt{MaxV: 3, MaxP: 2, Topos: []string{"tri"}, Mixes: []string{"none", "N"}, AllPos: false}
	nN := meshlib.Enum(optN, func(i int, s meshlib.Spec) bool {
		if c.Mine(base + i) {
			k.meshCase(s, "none")
		}
		return true
	})
	base += nN

	// (b) byte strings
	big := c.Thorough()
	recs := recordAlphabet(big)
	c.Bound("b.record_alphabet", len(recs))
	c.Bound("b.max_records", 2)
	c.Bound("b.headers", len(headers))
	for h := range headers {
		if c.Mine(base) {
			k.bytesCase(h, nil, big)
		}
		base++
	}
	for h := range headers {
		for r := range recs {
			if c.Mine(base) {
				k.bytesCase(h, []int{r}, big)
			}
			base++
		}
	}
	for h := range headers {
		for r1 := range recs {
			mine := c.Mine(base)
			base++
			if !mine {
				continue
			}
			if c.Expired() {
				return
			}
			for r2 := range recs {
				k.bytesCase(h, []int{r1, r2}, big)
			}
		}
	}

	// (c) size ladder: record counts around every power of two (where buffer, chunk and width
	// thresholds live): 2^k-1, 2^k, 2^k+1 and one count in between
	maxK := 15
	if big {
		maxK = 17
	}
	var ladder []int
	for kk := 2; kk <= maxK; kk++ {
		ladder = append(ladder, 1<<kk-1, 1<<kk, 1<<kk+1, 1<<kk+1<<(kk-1)+3)
	}
	c.Bound("c.size_ladder_max_records", ladder[len(ladder)-1])
	for _, n := range ladder {
		if c.Mine(base) {
			k.ladderCase(0, n, big)
			if n >= 1<<(maxK-1) {
				// the top rungs also with the process limited to three processors (default two)
				c.WithProcs(3, func() { k.ladderCase(0, n, big) })
			}
		}
		base++
	}

	// (c') export histories: the writer is a function of the mesh it is handed, whatever was exported
	// before — every ordered pair over a menu of sizes (below, at and above block sizes a writer may
	// stage records in) x {with normals, without}, the second export judged by the whole oracle
	hsizes := []int{1, 100, 300, 4096, 4106, 5000, 8195}
	hmodes := []string{"nonunit", "none"}
	nh := 0
	for _, na := range hsizes {
		for _, ma := range hmodes {
			for _, nb := range hsizes {
				for _, mb := range hmodes {
					if na == nb && ma == mb {
						continue
					}
					nh++
					if c.Mine(base) && !c.Expired() {
						k.exportHistory([]int{na, nb}, []string{ma, mb})
					}
					base++
				}
			}
		}
	}
	c.Bound("c.export_histories", fmt.Sprintf("%d ordered pairs over strip meshes of %v triangles x normals %v; the second export is judged", nh, hsizes, hmodes))

	// (d) value ladder: every float32 magnitude band through every float slot of a record and every
	// position component of a mesh
	k.runValues(base)
}

// ---------------------------------------------------------------------------------------------
// scope (b): byte strings
// ---------------------------------------------------------------------------------------------

// ladderIDs is the record pattern of a size-ladder file: consecutive records differ, and the pattern
// does not repeat with a power-of-two period (so a chunk boundary cannot hide behind equal records).
func ladderIDs(n, alphabet int) []int {
	ids := make([]int, n)
	for i := range ids {
		ids[i] = (i*7 + i/alphabet + 3) % alphabet
	}
	return ids
}

func (k checker) ladderCase(h, n int, big bool) {
	k.bytesCaseAs(Case{Kind: "ladder", Hdr: h, N: n, Big: big}, h, ladderIDs(n, len(recordAlphabet(big))), big)
}

func (k checker) bytesCase(h int, ids []int, big bool) {
	k.bytesCaseAs(Case{Kind: "bytes", Hdr: h, Recs: ids, Big: big}, h, ids, big)
}

func (k checker) bytesCaseAs(cs Case, h int, ids []int, big bool) {
	alpha := recordAlphabet(big)
	rs := make([]rec, len(ids))
	for i, id := range ids {
		rs[i] = alpha[id]
	}
	k.bytesRecs(cs, h, rs, fmt.Sprintf("bytes/n=%d", len(ids)), fmt.Sprintf("n=%d/header-%s", len(ids), headerNames[h]), true)
	if len(ids) >= 1 {
		k.c.Nontrivial("bytes", h, fmt.Sprint(ids), big)
	}
}

// bytesRecs runs one well-formed file (header h, records rs) through Read→Write and, when meshPart,
// ReadMesh→WriteMesh.
func (k checker) bytesRecs(cs Case, h int, rs []rec, scope, class string, meshPart bool) {
	in := encodeSTL(headers[h], rs)
	what := fmt.Sprintf("header=%s records=%v", headerNames[h], rs)
	outcome := "ok"
	bad := func(site, clause, detail string) {
		if outcome == "ok" {
			outcome = "mismatch"
		}
		k.fail(site, clause, class, detail, cs)
	}

	// Read → field-by-field, then Write → same record area
	var bin *stl.Binary
	var err error
	o := core.Guard(func() { bin, err = stl.Read(bytes.NewReader(in)) })
	// the same bytes through every other kind / behaviour of io.Reader must decode identically
	for _, rv := range core.ReaderVariants[1:] {
		var b2 *stl.Binary
		var e2 error
		o2 := core.Guard(func() { b2, e2 = stl.Read(rv.New(in)) })
		same := o2.Panicked == o.Panicked && (e2 == nil) == (err == nil) && (b2 == nil) == (bin == nil) &&
			(b2 == nil || bin == nil || reflect.DeepEqual(b2.Triangles, bin.Triangles))
		if !same {
			n2 := -1
			if b2 != nil {
				n2 = len(b2.Triangles)
			}
			k.fail("stl.Read", "the decoded result does not depend on how the io.Reader delivers the bytes", class+"/reader="+rv.Name,
				fmt.Sprintf("through %s: panicked=%v err=%v records=%d; through bytes.Reader: panicked=%v err=%v (%s)", rv.Name, o2.Panicked, e2, n2, o.Panicked, err, trimWhat(what)), cs)
			outcome = "mismatch"
			break
		}
	}
	switch {
	case o.Crash():
		outcome = "crash"
		k.fail(core.TopFrame(o.Stack), clCrash, class, o.Msg+" @ "+o.Stack, cs)
	case o.Reported || err != nil || bin == nil:
		msg := o.Msg
		if err != nil {
			msg = err.Error()
		}
		bad("stl.Read", clReadBin, "a well-formed file is rejected: "+msg+" ("+what+")")
	default:
		readOK := true
		if len(bin.Triangles) != len(rs) {
			readOK = false
			bad("stl.Read", clReadBin, fmt.Sprintf("%d records read, file holds %d (%s)", len(bin.Triangles), len(rs), what))
		} else {
			for i, t := range bin.Triangles {
				got := rec{n: [3]float32{t.Normal.X, t.Normal.Y, t.Normal.Z}, a: t.Attribute,
					v: [3][3]float32{{t.Vertex1.X, t.Vertex1.Y, t.Vertex1.Z}, {t.Vertex2.X, t.Vertex2.Y, t.Vertex2.Z}, {t.Vertex3.X, t.Vertex3.Y, t.Vertex3.Z}}}
				if !got.same(rs[i]) {
					readOK = false
					bad("stl.Read", clReadBin, fmt.Sprintf("record %d read as %v, file holds %v (%s)", i, got, rs[i], what))
					break
				}
			}
		}
		var out bytes.Buffer
		var werr error
		o = core.Guard(func() { werr = stl.Write(&out, *bin) })
		site := "stl.Write"
		if !readOK {
			site = "stl.Read"
		}
		switch {
		case o.Crash():
			outcome = "crash"
			k.fail(core.TopFrame(o.Stack), clCrash, class, o.Msg+" @ "+o.Stack, cs)
		case o.Reported || werr != nil:
			bad(site, clRewrite, "re-writing failed: "+o.Msg+fmt.Sprint(werr)+" ("+what+")")
		default:
			ob := out.Bytes()
			if len(ob) < 84 || !bytes.Equal(ob[80:], in[80:]) {
				bad(site, clRewrite, fmt.Sprintf("count+records differ after read→write: got %d bytes %x, want %d bytes %x (%s)", len(ob), tail(ob), len(in), tail(in), what))
			}
		}
	}

	// ReadMesh → WriteMesh → same positions (and the normals ReadMesh exposes)
	var m *modeling.Mesh
	if meshPart {
		o = core.Guard(func() { m, err = stl.ReadMesh(bytes.NewReader(in)) })
	}
	switch {
	case !meshPart:
	case o.Crash():
		outcome = "crash"
		k.fail(core.TopFrame(o.Stack), clCrash, class, o.Msg+" @ "+o.Stack, cs)
	case o.Reported || err != nil || m == nil:
		msg := o.Msg
		if err != nil {
			msg = err.Error()
		}
		bad("stl.ReadMesh", clRead, "a well-formed file is rejected: "+msg+" ("+what+")")
	default:
		// the node-graph entry point (stl.ReadNode) reads the same bytes to the same mesh
		{
			var nm modeling.Mesh
			var nerr error
			g := core.Guard(func() { nm, nerr = stl.ReadNodeData{Data: nodes.Value(append([]byte{}, in...)).Out()}.Process() })
			if g.Panicked || nerr != nil || meshlib.QuickHash(nm) != meshlib.QuickHash(*m) {
				bad("stl.ReadNodeData.Process", "the node-graph entry point reads a file to the mesh stl.ReadMesh reads it to", fmt.Sprintf("node result differs from stl.ReadMesh's %s %v (%s)", g.Msg, nerr, trimWhat(what)))
			}
		}
		anyStored := false
		for _, r := range rs {
			if r.n != [3]float32{} {
				anyStored = true
			}
		}
		k.compareRead(*m, len(rs), func(t, c int) [3]float32 { return rs[t].v[c] },
			func(t int) (vector3.Float64, string) {
				if rs[t].n == [3]float32{} {
					return vector3.Float64{}, "geometric"
				}
				return vector3.New(float64(rs[t].n[0]), float64(rs[t].n[1]), float64(rs[t].n[2])), "value"
			}, anyStored, "stl.ReadMesh", what, bad)
		var out bytes.Buffer
		var werr error
		o = core.Guard(func() { werr = stl.WriteMesh(&out, *m) })
		switch {
		case o.Crash():
			outcome = "crash"
			k.fail(core.TopFrame(o.Stack), clCrash, class, o.Msg+" @ "+o.Stack, cs)
		case o.Reported || werr != nil:
			bad("stl.WriteMesh", clRemesh, "re-writing failed: "+o.Msg+fmt.Sprint(werr)+" ("+what+")")
		default:
			f, perr := parseSTL(out.Bytes())
			switch {
			case perr != nil:
				bad("stl.WriteMesh", clRemesh, fmt.Sprintf("independent parser: %v (%s)", perr, what))
			case len(f.recs) != len(rs):
				bad("stl.WriteMesh", clRemesh, fmt.Sprintf("%d records after ReadMesh→WriteMesh, want %d (%s)", len(f.recs), len(rs), what))
			default:
				for i := range rs {
					if !(sameBits3(f.recs[i].v[0], rs[i].v[0]) && sameBits3(f.recs[i].v[1], rs[i].v[1]) && sameBits3(f.recs[i].v[2], rs[i].v[2])) {
						bad("stl.WriteMesh", clRemesh, fmt.Sprintf("record %d positions %v, want %v (%s)", i, f.recs[i].v, rs[i].v, what))
						break
					}
				}
			}
		}
	}
	k.c.Eval(scope, outcome)
	k.c.Sample(scope, map[string]any{"header": headerNames[h], "records": fmt.Sprint(rs), "bytes": len(in)})
}

func trimWhat(s string) string {
	if len(s) > 300 {
		return s[:300] + "…"
	}
	return s
}

func tail(b []byte) []byte {
	if len(b) > 80 {
		return b[80:]
	}
	return b
}

// ---------------------------------------------------------------------------------------------
// replay
// ---------------------------------------------------------------------------------------------

func replay(c *core.Ctx) {
	var cs Case
	if err := json.Unmarshal(c.Replay, &cs); err != nil {
		c.HarnessError("bad case: %v", err)
		return
	}
	k := checker{c: c}
	switch cs.Kind {
	case "mesh":
		if cs.Spec == nil {
			c.HarnessError("mesh case without spec")
			return
		}
		k.meshCase(*cs.Spec, cs.NMode)
	case "bytes":
		k.bytesCase(cs.Hdr, cs.Recs, cs.Big)
	case "ladder":
		k.ladderCase(cs.Hdr, cs.N, cs.Big)
	case "export-history":
		k.exportHistory(cs.Hist, cs.HistModes)
	case "after-failed-write":
		k.afterFailedWrite()
	case "after-failed-read":
		k.afterFailedRead()
	case "sinks":
		k.sinks()
	case "load-after-replace":
		k.loadAfterReplace()
	case "save-over":
		k.saveOver(cs.Recs)
	case "value-bytes":
		k.valueBytesCase(cs.N, cs.NMode)
	case "value-mesh":
		k.valueMeshCase(cs.N, cs.Big)
	default:
		c.HarnessError("unknown case kind %q", cs.Kind)
	}
}

// stripSpec: n triangles (i, i+1, i+2) over n+2 vertices at pairwise distinct positions.
func stripSpec(n int) meshlib.Spec {
	s := meshlib.Spec{Topo: "tri", V: n + 2, Mix: "P"}
	for i := 0; i < n; i++ {
		if i%2 == 0 {
			s.Idx = append(s.Idx, i, i+1, i+2)
		} else {
			s.Idx = append(s.Idx, i+1, i, i+2)
		}
	}
	return s
}

func (k checker) exportHistory(sizes []int, modes []string) {
	cs := Case{Kind: "export-history", Hist: sizes, HistModes: modes}
	for i := 0; i+1 < len(sizes); i++ {
		m := buildMesh(stripSpec(sizes[i]), modes[i])
		core.Guard(func() { _ = stl.WriteMesh(io.Discard, m) })
	}
	last := len(sizes) - 1
	k.over = &cs
	k.meshCase(stripSpec(sizes[last]), modes[last])
}
