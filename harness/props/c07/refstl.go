package c07

import (
	"encoding/binary"
	"fmt"
	"math"
)

// Independent model of the binary STL container, written from the format definition:
//
//	UINT8[80]  header
//	UINT32     number of triangles (little endian)
//	foreach triangle (50 bytes):
//	  REAL32[3] normal, REAL32[3] vertex 1, REAL32[3] vertex 2, REAL32[3] vertex 3, UINT16 attribute byte count
type rec struct {
	n [3]float32
	v [3][3]float32
	a uint16
}

func (r rec) same(o rec) bool {
	return r.a == o.a && sameBits3(r.n, o.n) && sameBits3(r.v[0], o.v[0]) && sameBits3(r.v[1], o.v[1]) && sameBits3(r.v[2], o.v[2])
}

func (r rec) String() string { return fmt.Sprintf("{n%v v%v a%#x}", r.n, r.v, r.a) }

type stlFile struct {
	header [80]byte
	recs   []rec
}

func parseSTL(b []byte) (stlFile, error) {
	var f stlFile
	if len(b) < 84 {
		return f, fmt.Errorf("file of %d bytes is shorter than the 84-byte preamble", len(b))
	}
	copy(f.header[:], b[:80])
	n := int(b[80]) | int(b[81])<<8 | int(b[82])<<16 | int(b[83])<<24
	if len(b) != 84+50*n {
		return f, fmt.Errorf("count field %d needs %d bytes, file has %d", n, 84+50*n, len(b))
	}
	fl := func(off int) float32 {
		return math.Float32frombits(uint32(b[off]) | uint32(b[off+1])<<8 | uint32(b[off+2])<<16 | uint32(b[off+3])<<24)
	}
	for i := 0; i < n; i++ {
		o := 84 + 50*i
		var r rec
		for c := 0; c < 3; c++ {
			r.n[c] = fl(o + 4*c)
			for k := 0; k < 3; k++ {
				r.v[k][c] = fl(o + 12 + 12*k + 4*c)
			}
		}
		r.a = uint16(b[o+48]) | uint16(b[o+49])<<8
		f.recs = append(f.recs, r)
	}
	return f, nil
}

func encodeSTL(header [80]byte, rs []rec) []byte {
	b := make([]byte, 0, 84+50*len(rs))
	b = append(b, header[:]...)
	b = binary.LittleEndian.AppendUint32(b, uint32(len(rs)))
	for _, r := range rs {
		for _, vec := range [][3]float32{r.n, r.v[0], r.v[1], r.v[2]} {
			for _, x := range vec {
				b = binary.LittleEndian.AppendUint32(b, math.Float32bits(x))
			}
		}
		b = binary.LittleEndian.AppendUint16(b, r.a)
	}
	return b
}

// ---- alphabets of scope (b) ----

var headerNames = []string{"zero", "solid-text", "high-bytes"}

var headers = func() (h [3][80]byte) {
	copy(h[1][:], "solid ascii-looking header of a binary file; facet normal 0 0 0 outer loop endsolid")
	for i := range h[2] {
		h[2][i] = byte(0xB0 + i) // includes 0xFF
	}
	return
}()

var normalAlphabet = [][3]float32{
	{0, 0, 0},        // none stored
	{0, 0, 1},        // unit
	{1.2, 0, -1.6},   // not unit (length 2)
	{-0.1, 0.2, 0.3}, // float32-inexact, not unit
}

var pointAlphabet = [][3]float32{
	{0, 0, 0},
	{1, 0, 0},
	{0, 1, 0},
	{0.1, -2.5, 7.25},
}

// thorough tier: negative zero, a denormal and a large magnitude
var pointAlphabetBig = append(append([][3]float32{}, pointAlphabet...),
	[3]float32{float32(math.Copysign(0, -1)), 1e-40, -3.5e37})

var attrAlphabet = []uint16{0, 1, 0xFFFF}

var recCache [2][]rec

// recordAlphabet: every (normal, v1, v2, v3, attribute) over the alphabets, in a stable order.
func recordAlphabet(big bool) []rec {
	ci := 0
	pts := pointAlphabet
	if big {
		ci, pts = 1, pointAlphabetBig
	}
	if recCache[ci] != nil {
		return recCache[ci]
	}
	var out []rec
	for _, n := range normalAlphabet {
		for _, a := range pts {
			for _, b := range pts {
				for _, c := range pts {
					for _, at := range attrAlphabet {
						out = append(out, rec{n: n, v: [3][3]float32{a, b, c}, a: at})
					}
				}
			}
		}
	}
	recCache[ci] = out
	return out
}
