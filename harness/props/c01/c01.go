// Package c01: mesh values are immutable (DESIGN §4 C01).
//
// Explicit exploration of operation histories over a pool of live mesh values: after every
// transition every live value in the pool (inputs, siblings, ancestors, descendants) must still
// report, through the public accessors, exactly what it reported when it was first obtained
// (bit-exact digest), and the result of an operation must not depend on what else was derived
// before it (differential twin: same operation on equal operands ⇒ equal result).
package c01

import (
	"encoding/json"
	"fmt"
	"strings"

	"github.com/EliCDavis/polyform/modeling"

	"verif/harness/core"
	"verif/harness/meshlib"
)

func init() { core.Register(core.Check{ID: "C01", Run: run, Replay: replay}) }

// Step is one operation application: op name, operand pool indices.
type Step struct {
	Op string `json:"op"`
	I  int    `json:"i"`
	J  int    `json:"j,omitempty"`
}

type Case struct {
	Pool  string `json:"pool"`
	Steps []Step `json:"steps"`
}

func (c Case) String() string {
	var sb strings.Builder
	sb.WriteString("pool=" + c.Pool + ":")
	for k, s := range c.Steps {
		if k > 0 {
			sb.WriteString(";")
		}
		if opByName[s.Op].arity == 2 {
			fmt.Fprintf(&sb, " %s(m%d,m%d)", s.Op, s.I, s.J)
		} else if opByName[s.Op].arity == 1 {
			fmt.Fprintf(&sb, " %s(m%d)", s.Op, s.I)
		} else {
			fmt.Fprintf(&sb, " %s()", s.Op)
		}
	}
	return sb.String()
}

type memoEntry struct {
	h     uint64
	steps []Step
}

type explorer struct {
	c        *core.Ctx
	poolName string
	pool     []modeling.Mesh
	hashes   []uint64
	origin   []string // how each pool member was obtained
	steps    []Step
	memo     map[[4]uint64]memoEntry
	maxDepth int
	// alphabet per depth level (index = number of steps already taken)
	alpha func(level int) []*op
	stop  bool
}

// apply executes one op and returns the produced meshes (nil for observers / failures) and an
// outcome label.
func applyOp(o *op, pool []modeling.Mesh, i, j int) (res []modeling.Mesh, outcome string) {
	g := core.Guard(func() {
		var a, b modeling.Mesh
		if o.arity >= 1 {
			a = pool[i]
		}
		if o.arity == 2 {
			b = pool[j]
		}
		res = o.f(a, b)
	})
	switch {
	case g.Crash():
		return nil, "crash"
	case g.Reported:
		return nil, "reported-failure"
	case o.identity:
		return res, "observed-through-pointer"
	case o.observer:
		return nil, "observed"
	}
	return res, "derived"
}

// verifyPool re-reads every live value and compares with its first digest.
func (e *explorer) verifyPool(after string) bool {
	ok := true
	for k, m := range e.pool {
		var h uint64
		g := core.Guard(func() { h = meshlib.QuickHash(m) })
		if g.Panicked {
			h = ^uint64(0)
		}
		if h != e.hashes[k] {
			ok = false
			e.reportMutation(k, after)
		}
	}
	return ok
}

func (e *explorer) curCase() Case {
	return Case{Pool: e.poolName, Steps: append([]Step{}, e.steps...)}
}

func (e *explorer) reportMutation(k int, after string) {
	cs := e.curCase()
	last := e.steps[len(e.steps)-1]
	rel := relation(e, k, last)
	// a fresh replay gives the detailed before/after difference
	detail := fmt.Sprintf("%s: live value m%d (%s) changed after %s", cs.String(), k, e.origin[k], after)
	if d := diffOnReplay(cs, k); d != "" {
		detail += ": " + d
	}
	e.c.Violate(core.Violation{
		Site:   "modeling/" + opByName[last.Op].site,
		Clause: "a mesh value, once obtained, never changes",
		Class:  rel,
		Detail: detail,
		Case:   cs,
	})
}

// relation classifies which live value was disturbed relative to the operation's operands.
func relation(e *explorer, k int, last Step) string {
	o := opByName[last.Op]
	switch {
	case o.arity >= 1 && k == last.I:
		return "operand-changed"
	case o.arity == 2 && k == last.J:
		return "second-operand-changed"
	}
	return "other-live-value-changed(" + originKind(e.origin[k]) + ")"
}

func originKind(s string) string {
	if strings.HasPrefix(s, "seed") {
		return "seed"
	}
	if i := strings.Index(s, "("); i > 0 {
		return "result-of-" + s[:i]
	}
	return s
}

func (e *explorer) explore(level int) {
	if e.stop {
		return
	}
	if e.c.Expired() {
		e.stop = true
		return
	}
	n := len(e.pool)
	for _, o := range e.alpha(level) {
		imax, jmax := 1, 1
		if o.arity >= 1 {
			imax = n
		}
		if o.arity == 2 {
			jmax = n
		}
		for i := 0; i < imax; i++ {
			for j := 0; j < jmax; j++ {
				if level == 0 && !e.c.Next() {
					continue
				}
				e.step(o, i, j, level)
				if e.stop {
					return
				}
			}
		}
	}
}

func (e *explorer) step(o *op, i, j, level int) {
	e.steps = append(e.steps, Step{Op: o.name, I: i, J: j})
	res, outcome := applyOp(o, e.pool, i, j)
	e.c.Transition()
	after := fmt.Sprintf("%s", o.name)
	intact := e.verifyPool(after)
	if outcome == "observed-through-pointer" {
		// the value the pointer refers to after the call is the value it referred to before
		var h uint64
		g := core.Guard(func() { h = meshlib.QuickHash(res[0]) })
		if len(res) != 1 || g.Panicked || h != e.hashes[i] {
			cs := e.curCase()
			e.c.Violate(core.Violation{Site: "modeling/" + o.site, Clause: "a mesh value, once obtained, never changes",
				Class:  "value-changed-through-the-pointer-it-was-handed-by",
				Detail: cs.String() + ": after the call the mesh variable whose address was handed over holds a different value", Case: cs})
		}
		res, outcome = nil, "observed"
	}
	// differential twin: same op on equal operands must give an equal result, whatever happened before
	var rh uint64 = 1
	keep := res[:0:0]
	for _, r := range res {
		var h uint64
		var wf bool
		g := core.Guard(func() {
			s := meshlib.Snapshot(r)
			cl, _ := s.WF()
			wf = cl == ""
			h = meshlib.QuickHash(r)
		})
		if g.Panicked || !wf {
			outcome = "ill-formed-result" // C02's domain; not carried further (its behaviour is undefined)
			keep = nil
			rh = 0
			break
		}
		rh = rh*1099511628211 ^ h
		keep = append(keep, r)
	}
	if intact && outcome == "derived" && rh != 0 && o.deterministic {
		key := [4]uint64{opIndex[o.name], 0, 0, 0}
		if o.arity >= 1 {
			key[1] = e.hashes[i]
		}
		if o.arity == 2 {
			key[2] = e.hashes[j]
			key[3] = meshlib.MaterialSharing(e.pool[i], e.pool[j])
		}
		if prev, ok := e.memo[key]; ok {
			if prev.h != rh {
				// decide which of the two histories deviates from the operation on freshly rebuilt operands
				cs := e.curCase()
				culprit := cs
				if tw := twinResult(cs, len(cs.Steps)-1); tw == rh {
					culprit = Case{Pool: e.poolName, Steps: prev.steps}
				}
				e.c.Violate(core.Violation{
					Site:   "modeling/" + o.site,
					Clause: "two meshes derived from the same base never influence one another, whatever order they are derived in",
					Class:  "result-depends-on-earlier-derivations",
					Detail: culprit.String() + ": the same operation on bit-identical operands returned a different mesh than in another history (" + cs.String() + ")",
					Case:   culprit,
				})
				intact = false
			}
		} else {
			e.memo[key] = memoEntry{rh, append([]Step{}, e.steps...)}
		}
	}
	e.c.Eval(e.poolName+"/depth"+fmt.Sprint(level+1), outcome)
	e.c.Trace()
	if level+1 >= 2 {
		e.c.NontrivialHash(core.Hash(e.poolName, fmt.Sprint(e.steps)))
	}
	if len(e.steps) == e.maxDepth {
		e.c.Sample(e.poolName, e.curCase().String())
	}
	if intact && len(keep) > 0 && level+1 < e.maxDepth {
		base := len(e.pool)
		for k, r := range keep {
			e.pool = append(e.pool, r)
			e.hashes = append(e.hashes, meshlib.QuickHash(r))
			e.origin = append(e.origin, fmt.Sprintf("%s(…)#%d", o.name, k))
			e.c.State()
		}
		e.explore(level + 1)
		e.pool = e.pool[:base]
		e.hashes = e.hashes[:base]
		e.origin = e.origin[:base]
	}
	e.steps = e.steps[:len(e.steps)-1]
	if !intact {
		// a live value was disturbed: the objects in the pool are no longer the values the history
		// denotes. Rebuild them from scratch (fresh seeds, replay of the current prefix).
		e.rebuild()
	}
}

// rebuild replaces the pool by fresh objects obtained by replaying e.steps on fresh seeds.
func (e *explorer) rebuild() {
	e.pool, e.hashes, e.origin = e.pool[:0:0], e.hashes[:0:0], e.origin[:0:0]
	for k, m := range pools[e.poolName]() {
		e.pool = append(e.pool, m)
		e.hashes = append(e.hashes, meshlib.QuickHash(m))
		e.origin = append(e.origin, fmt.Sprintf("seed%d", k))
	}
	for _, s := range e.steps {
		o := opByName[s.Op]
		res, _ := applyOp(o, e.pool, s.I, s.J)
		for k, r := range res {
			e.pool = append(e.pool, r)
			e.hashes = append(e.hashes, meshlib.QuickHash(r))
			e.origin = append(e.origin, fmt.Sprintf("%s(…)#%d", o.name, k))
		}
	}
}

func newExplorer(c *core.Ctx, poolName string, depth int, alpha func(int) []*op) *explorer {
	e := &explorer{c: c, poolName: poolName, maxDepth: depth, alpha: alpha, memo: map[[4]uint64]memoEntry{}}
	for k, m := range pools[poolName]() {
		e.pool = append(e.pool, m)
		e.hashes = append(e.hashes, meshlib.QuickHash(m))
		e.origin = append(e.origin, fmt.Sprintf("seed%d", k))
		c.State()
	}
	return e
}

func run(c *core.Ctx) {
	full := func(int) []*op { return ops }
	ext := extending()
	extObs := append(append([]*op{}, ext...), observers()...)
	names := poolNames
	if c.Thorough() {
		c.Bound("depth_full_alphabet", 3)
		c.Bound("depth_extending_then_full", 4)
	} else {
		c.Bound("depth_full_alphabet", 2)
		c.Bound("depth_extending_then_full", 3)
	}
	c.Bound("alphabet", len(ops))
	c.Bound("extending_alphabet", len(ext))
	for _, pn := range names {
		if c.Thorough() {
			// full alphabet to depth 3
			newExplorer(c, pn, 3, full).explore(0)
			// depth 4: extending/aliasing sub-alphabet at the first three steps; the last step adds the
			// observing operations (writers, scans) — every other operation has already been applied
			// to every state the full alphabet reaches at depth 3
			newExplorer(c, pn, 4, func(l int) []*op {
				if l < 3 {
					return ext
				}
				return extObs
			}).explore(0)
		} else {
			newExplorer(c, pn, 2, full).explore(0)
			newExplorer(c, pn, 3, func(l int) []*op {
				if l < 2 {
					return ext
				}
				return ops
			}).explore(0)
		}
	}
}

// replayCase re-executes one history on fresh objects, returning the violation(s) again.
func replayCase(c *core.Ctx, cs Case) {
	if _, ok := pools[cs.Pool]; !ok {
		c.HarnessError("unknown pool %q", cs.Pool)
		return
	}
	e := newExplorer(c, cs.Pool, len(cs.Steps)+1, nil)
	// memo from the canonical first-execution of each step on a fresh pool (for the twin oracle)
	for k, s := range cs.Steps {
		o := opByName[s.Op]
		if o == nil || (o.arity >= 1 && s.I >= len(e.pool)) || (o.arity == 2 && s.J >= len(e.pool)) {
			c.HarnessError("replay diverged at step %d", k)
			return
		}
		e.steps = append(e.steps, s)
		res, outcome := applyOp(o, e.pool, s.I, s.J)
		c.Transition()
		e.verifyPool(o.name)
		if outcome == "derived" && o.deterministic {
			// twin: the same op on freshly rebuilt, bit-identical operands
			twin := twinResult(cs, k)
			var rh uint64 = 1
			for _, r := range res {
				rh = rh*1099511628211 ^ meshlib.QuickHash(r)
			}
			if twin != 0 && twin != rh {
				c.Violate(core.Violation{
					Site:   "modeling/" + o.site,
					Clause: "two meshes derived from the same base never influence one another, whatever order they are derived in",
					Class:  "result-depends-on-earlier-derivations",
					Detail: cs.String(),
					Case:   cs,
				})
			}
		}
		for i, r := range res {
			e.pool = append(e.pool, r)
			e.hashes = append(e.hashes, meshlib.QuickHash(r))
			e.origin = append(e.origin, fmt.Sprintf("%s(…)#%d", o.name, i))
		}
	}
	c.Eval("replay", "done")
}

// twinResult executes step k of the history on operands rebuilt by the *shortest* history that
// produces them (their own ancestry only), and returns the result digest (0 if not computable).
func twinResult(cs Case, k int) uint64 {
	// ancestry closure
	seeds := len(pools[cs.Pool]())
	need := map[int]bool{}
	producer := map[int]int{} // pool index -> step
	idx := seeds
	counts := make([]int, len(cs.Steps))
	// we need result counts: run the history once
	pool := pools[cs.Pool]()
	for si, s := range cs.Steps[:k] {
		res, _ := applyOp(opByName[s.Op], pool, s.I, s.J)
		counts[si] = len(res)
		for range res {
			producer[idx] = si
			idx++
		}
		pool = append(pool, res...)
	}
	var mark func(p int)
	mark = func(p int) {
		if p < seeds || need[producer[p]] {
			return
		}
		st := producer[p]
		need[st] = true
		o := opByName[cs.Steps[st].Op]
		if o.arity >= 1 {
			mark(cs.Steps[st].I)
		}
		if o.arity == 2 {
			mark(cs.Steps[st].J)
		}
	}
	s := cs.Steps[k]
	o := opByName[s.Op]
	if o.arity >= 1 {
		mark(s.I)
	}
	if o.arity == 2 {
		mark(s.J)
	}
	// rebuild with only the needed steps, remapping indices
	pool2 := pools[cs.Pool]()
	remap := map[int]int{}
	for i := 0; i < seeds; i++ {
		remap[i] = i
	}
	idx = seeds
	for si, st := range cs.Steps[:k] {
		if need[si] {
			oo := opByName[st.Op]
			res, _ := applyOp(oo, pool2, remap[st.I], remap[st.J])
			if len(res) != counts[si] {
				return 0
			}
			for r := range res {
				remap[idx+r] = len(pool2) + r
			}
			pool2 = append(pool2, res...)
		}
		idx += counts[si]
	}
	res, outcome := applyOp(o, pool2, remap[s.I], remap[s.J])
	if outcome != "derived" {
		return 0
	}
	var rh uint64 = 1
	for _, r := range res {
		rh = rh*1099511628211 ^ meshlib.QuickHash(r)
	}
	return rh
}

// diffOnReplay replays the history on fresh objects and names what changed in pool member k.
func diffOnReplay(cs Case, k int) string {
	pool := pools[cs.Pool]()
	var snaps []meshlib.Snap
	for _, m := range pool {
		snaps = append(snaps, meshlib.Snapshot(m))
	}
	out := ""
	for _, s := range cs.Steps {
		o := opByName[s.Op]
		if (o.arity >= 1 && s.I >= len(pool)) || (o.arity == 2 && s.J >= len(pool)) {
			return ""
		}
		res, _ := applyOp(o, pool, s.I, s.J)
		for _, r := range res {
			pool = append(pool, r)
			var sn meshlib.Snap
			core.Guard(func() { sn = meshlib.Snapshot(r) })
			snaps = append(snaps, sn)
		}
	}
	if k < len(pool) {
		core.Guard(func() { out = snaps[k].Diff(meshlib.Snapshot(pool[k])) })
	}
	return out
}

func replay(c *core.Ctx) {
	var cs Case
	if err := json.Unmarshal(c.Replay, &cs); err != nil {
		c.HarnessError("bad case: %v", err)
		return
	}
	replayCase(c, cs)
}
