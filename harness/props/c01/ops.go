package c01

import (
	"io"
	"math"

	"github.com/EliCDavis/polyform/formats/gltf"
	"github.com/EliCDavis/polyform/formats/obj"
	"github.com/EliCDavis/polyform/formats/ply"
	"github.com/EliCDavis/polyform/formats/stl"
	"github.com/EliCDavis/polyform/math/geometry"
	"github.com/EliCDavis/polyform/math/quaternion"
	"github.com/EliCDavis/polyform/math/trs"
	"github.com/EliCDavis/polyform/modeling"
	"github.com/EliCDavis/polyform/modeling/meshops"
	"github.com/EliCDavis/polyform/modeling/primitives"
	"github.com/EliCDavis/polyform/modeling/repeat"
	"github.com/EliCDavis/vector/vector2"
	"github.com/EliCDavis/vector/vector3"
	"github.com/EliCDavis/vector/vector4"
)

type M = modeling.Mesh

type op struct {
	name  string
	site  string // library entry point (violation site)
	arity int    // 0 = constructor, 1 = unary, 2 = binary (ordered pair)
	f     func(a, b M) []M
	// observer: returns nothing (writers, scans)
	observer bool
	// extending: member of the "extending / aliasing" sub-alphabet used at the inner levels of the
	// deepest exploration (operations that grow, re-use or share backing storage)
	extending bool
	// deterministic: result is a function of the operands' observable state (all of them, today)
	deterministic bool
	// identity: an observing operation that is handed a *pointer* to the value; it returns the value the
	// pointer refers to afterwards, which must be the value it referred to before
	identity bool
}

func v3(x, y, z float64) vector3.Float64 { return vector3.New(x, y, z) }

func one(m M) []M { return []M{m} }

const P = modeling.PositionAttribute
const N = modeling.NormalAttribute
const T = modeling.TexCoordAttribute

func freshV3(n int, k float64) []vector3.Float64 {
	d := make([]vector3.Float64, n)
	for i := range d {
		d[i] = v3(k+float64(i), k*0.5-float64(i), 0.1*float64(i)+k)
	}
	return d
}
func freshV2(n int, k float64) []vector2.Float64 {
	d := make([]vector2.Float64, n)
	for i := range d {
		d[i] = vector2.New(k+float64(i), k*0.5-float64(i))
	}
	return d
}
func freshV1(n int, k float64) []float64 {
	d := make([]float64, n)
	for i := range d {
		d[i] = k + float64(i)
	}
	return d
}
func freshV4(n int, k float64) []vector4.Float64 {
	d := make([]vector4.Float64, n)
	for i := range d {
		d[i] = vector4.New(k+float64(i), k*0.5-float64(i), 0.1*float64(i)+k, k)
	}
	return d
}

var rot = quaternion.FromTheta(math.Pi/2, v3(0, 1, 0))
var tr = trs.New(v3(1, 2, 3), rot, v3(2, 2, 0.5))

func u(name, site string, ext bool, f func(a M) M) *op {
	return &op{name: name, site: site, arity: 1, extending: ext, deterministic: true, f: func(a, _ M) []M { return one(f(a)) }}
}
func obs(name, site string, f func(a M)) *op {
	return &op{name: name, site: site, arity: 1, observer: true, f: func(a, _ M) []M { f(a); return nil }}
}

func nondet(o *op) *op { o.deterministic = false; return o }

func mat(name string) modeling.Material { return modeling.Material{Name: name} }

var ops = []*op{
	// ---- Mesh methods ----
	{name: "Append", site: "Mesh.Append", arity: 2, extending: true, deterministic: true, f: func(a, b M) []M { return one(a.Append(b)) }},
	u("Translate", "Mesh.Translate", true, func(a M) M { return a.Translate(v3(1, 2, 3)) }),
	u("Scale", "Mesh.Scale", false, func(a M) M { return a.Scale(v3(2, 2, 0.5)) }),
	u("Rotate", "Mesh.Rotate", false, func(a M) M { return a.Rotate(rot) }),
	u("ApplyTRS", "Mesh.ApplyTRS", false, func(a M) M { return a.ApplyTRS(tr) }),
	// mirroring transforms (an odd number of negative scale components reverses orientation)
	u("ApplyTRS(mirror x)", "Mesh.ApplyTRS", true, func(a M) M { return a.ApplyTRS(trs.New(v3(0, 0, 0), rot, v3(-1, 1, 1))) }),
	u("ApplyTRS(mirror xyz)", "Mesh.ApplyTRS", false, func(a M) M { return a.ApplyTRS(trs.Scale(v3(-1, -2, -0.5))) }),
	u("Scale(mirror y)", "Mesh.Scale", false, func(a M) M { return a.Scale(v3(1, -1, 1)) }),
	u("SetFloat3Attribute(Position)", "Mesh.SetFloat3Attribute", true, func(a M) M { return a.SetFloat3Attribute(P, freshV3(a.AttributeLength(), 7)) }),
	u("SetFloat3Attribute(New3)", "Mesh.SetFloat3Attribute", true, func(a M) M { return a.SetFloat3Attribute("New3", freshV3(a.AttributeLength(), 9)) }),
	u("SetFloat2Attribute(TexCoord)", "Mesh.SetFloat2Attribute", true, func(a M) M { return a.SetFloat2Attribute(T, freshV2(a.AttributeLength(), 3)) }),
	u("SetFloat1Attribute(New1)", "Mesh.SetFloat1Attribute", true, func(a M) M { return a.SetFloat1Attribute("New1", freshV1(a.AttributeLength(), 5)) }),
	u("SetFloat4Attribute(New4)", "Mesh.SetFloat4Attribute", true, func(a M) M { return a.SetFloat4Attribute("New4", freshV4(a.AttributeLength(), 2)) }),
	u("SetFloat3Attribute(Normal,empty)", "Mesh.SetFloat3Attribute", false, func(a M) M { return a.SetFloat3Attribute(N, nil) }),
	u("SetFloat3Data", "Mesh.SetFloat3Data", true, func(a M) M {
		return a.SetFloat3Data(map[string][]vector3.Float64{P: freshV3(a.AttributeLength(), 4)})
	}),
	u("SetFloat2Data", "Mesh.SetFloat2Data", false, func(a M) M {
		return a.SetFloat2Data(map[string][]vector2.Float64{T: freshV2(a.AttributeLength(), 4)})
	}),
	u("SetFloat1Data", "Mesh.SetFloat1Data", false, func(a M) M {
		return a.SetFloat1Data(map[string][]float64{"D1": freshV1(a.AttributeLength(), 4)})
	}),
	u("SetFloat4Data", "Mesh.SetFloat4Data", false, func(a M) M {
		return a.SetFloat4Data(map[string][]vector4.Float64{"D4": freshV4(a.AttributeLength(), 4)})
	}),
	{name: "CopyFloat3Attribute(Position)", site: "Mesh.CopyFloat3Attribute", arity: 2, extending: true, deterministic: true, f: func(a, b M) []M {
		if a.AttributeLength() != b.AttributeLength() {
			panic("harness: copy between meshes of different vertex counts is not a well-formed use")
		}
		return one(a.CopyFloat3Attribute(b, P))
	}},
	{name: "CopyFloat2Attribute(TexCoord)", site: "Mesh.CopyFloat2Attribute", arity: 2, deterministic: true, f: func(a, b M) []M {
		if a.AttributeLength() != b.AttributeLength() {
			panic("harness: copy between meshes of different vertex counts is not a well-formed use")
		}
		return one(a.CopyFloat2Attribute(b, T))
	}},
	u("ModifyFloat3Attribute", "Mesh.ModifyFloat3Attribute", true, func(a M) M {
		return a.ModifyFloat3Attribute(P, func(i int, v vector3.Float64) vector3.Float64 { return v.Scale(2).Add(v3(float64(i), 0, 0)) })
	}),
	u("ModifyFloat3AttributeParallel", "Mesh.ModifyFloat3AttributeParallel", true, func(a M) M {
		return a.ModifyFloat3AttributeParallelWithPoolSize(P, 2, func(i int, v vector3.Float64) vector3.Float64 { return v.Scale(2).Add(v3(float64(i), 0, 0)) })
	}),
	u("ModifyFloat2Attribute", "Mesh.ModifyFloat2Attribute", false, func(a M) M {
		return a.ModifyFloat2Attribute(T, func(i int, v vector2.Float64) vector2.Float64 { return v.Scale(2) })
	}),
	u("ModifyFloat2AttributeParallel", "Mesh.ModifyFloat2AttributeParallel", false, func(a M) M {
		return a.ModifyFloat2AttributeParallelWithPoolSize(T, 2, func(i int, v vector2.Float64) vector2.Float64 { return v.Scale(2) })
	}),
	u("ModifyFloat1Attribute", "Mesh.ModifyFloat1Attribute", false, func(a M) M {
		return a.ModifyFloat1Attribute("Mass", func(i int, v float64) float64 { return v*2 + float64(i) })
	}),
	u("ModifyFloat1AttributeParallel", "Mesh.ModifyFloat1AttributeParallel", false, func(a M) M {
		return a.ModifyFloat1AttributeParallelWithPoolSize("Mass", 2, func(i int, v float64) float64 { return v*2 + float64(i) })
	}),
	u("SetIndices(reversed)", "Mesh.SetIndices", true, func(a M) M {
		it := a.Indices()
		idx := make([]int, it.Len())
		for i := range idx {
			idx[i] = it.At(it.Len() - 1 - i)
		}
		return a.SetIndices(idx)
	}),
	// vertices without any primitive (a legitimate accumulator / a mesh all of whose faces were removed)
	u("SetIndices(none)", "Mesh.SetIndices", true, func(a M) M { return a.SetIndices(nil) }),
	u("SetMaterial", "Mesh.SetMaterial", false, func(a M) M { return a.SetMaterial(mat("mat C")) }),
	u("SetMaterials", "Mesh.SetMaterials", true, func(a M) M {
		n := a.PrimitiveCount()
		mc := mat("mat D")
		return a.SetMaterials([]modeling.MeshMaterial{{PrimitiveCount: n / 2, Material: &mc}, {PrimitiveCount: n - n/2, Material: nil}})
	}),
	u("WeldByFloat3Attribute", "Mesh.WeldByFloat3Attribute", true, func(a M) M { return a.WeldByFloat3Attribute(P, 3) }),
	u("ToPointCloud", "Mesh.ToPointCloud", true, func(a M) M { return a.ToPointCloud() }),
	u("ClearAttributeData", "Mesh.ClearAttributeData", false, func(a M) M { return a.ClearAttributeData() }),
	obs("ScanPrimitives", "Mesh.ScanPrimitives", func(a M) {
		a.ScanPrimitives(func(i int, p modeling.Primitive) { p.BoundingBox(P) })
	}),
	obs("ScanFloat3Attribute", "Mesh.ScanFloat3Attribute", func(a M) { a.ScanFloat3Attribute(P, func(int, vector3.Float64) {}) }),
	// ---- meshops ----
	u("Unweld", "meshops.Unweld", true, meshops.Unweld),
	u("RemovedUnreferencedVertices", "meshops.RemovedUnreferencedVertices", true, meshops.RemovedUnreferencedVertices),
	u("RemoveNullFaces3D", "meshops.RemoveNullFaces3D", true, func(a M) M { return meshops.RemoveNullFaces3D(a, P, 0.01) }),
	u("FlipTriangleWinding", "meshops.FlipTriangleWinding", true, meshops.FlipTriangleWinding),
	{name: "SplitOnUniqueMaterials", site: "meshops.SplitOnUniqueMaterials", arity: 1, deterministic: true, f: func(a, _ M) []M { return meshops.SplitOnUniqueMaterials(a) }},
	u("FilterFloat3", "meshops.FilterFloat3", false, func(a M) M {
		return meshops.FilterFloat3(a, P, func(v vector3.Float64) bool { return v.X() < 1.5 })
	}),
	u("FilterFloat1", "meshops.FilterFloat1", false, func(a M) M {
		return meshops.FilterFloat1(a, "Mass", func(v float64) bool { return v < 6 })
	}),
	u("CropFloat3Attribute", "meshops.CropFloat3Attribute", false, func(a M) M {
		return meshops.CropFloat3Attribute(a, P, geometry.NewAABB(v3(0, 0, 0), v3(3, 3, 3)))
	}),
	u("ScaleAttribute3D", "meshops.ScaleAttribute3D", true, func(a M) M { return meshops.ScaleAttribute3D(a, P, v3(0, 0, 0), v3(2, 3, 4)) }),
	u("TranslateAttribute3D", "meshops.TranslateAttribute3D", true, func(a M) M { return meshops.TranslateAttribute3D(a, P, v3(1, 1, 1)) }),
	u("RotateAttribute3D", "meshops.RotateAttribute3D", false, func(a M) M { return meshops.RotateAttribute3D(a, N, rot) }),
	u("CenterFloat3Attribute", "meshops.CenterFloat3Attribute", false, func(a M) M { return meshops.CenterFloat3Attribute(a, P) }),
	u("NormalizeAttribute3D", "meshops.NormalizeAttribute3D", false, func(a M) M { return meshops.NormalizeAttribute3D(a, N) }),
	u("NormalizeAttribute2D", "meshops.NormalizeAttribute2D", false, func(a M) M { return meshops.NormalizeAttribute2D(a, T) }),
	u("ScaleAttribute2D", "meshops.ScaleAttribute2D", false, func(a M) M {
		return meshops.ScaleAttribute2D(a, T, vector2.New(0., 0.), vector2.New(2., 3.))
	}),
	u("ScaleAttributeAlongNormal", "meshops.ScaleAttributeAlongNormal", false, func(a M) M { return meshops.ScaleAttributeAlongNormal(a, P, N, 0.5) }),
	u("SmoothNormals", "meshops.SmoothNormals", true, meshops.SmoothNormals),
	u("SmoothNormalsImplicitWeld", "meshops.SmoothNormalsImplicitWeld", false, func(a M) M { return meshops.SmoothNormalsImplicitWeld(a, 0.001) }),
	u("FlatNormals", "meshops.FlatNormals", true, meshops.FlatNormals),
	// neighbour sums are accumulated in map order: last-bit differences between runs are legitimate
	nondet(u("LaplacianSmooth", "meshops.LaplacianSmooth", true, func(a M) M { return meshops.LaplacianSmooth(a, P, 2, 0.5) })),
	{name: "SliceByPlane", site: "meshops.SliceByPlane", arity: 1, deterministic: true, f: func(a, _ M) []M {
		x, y := meshops.SliceByPlaneWithAttribute(a, geometry.NewPlaneFromPoints(v3(0.4, 0, 0), v3(0.4, 1, 0), v3(0.4, 0, 1)), P)
		return []M{x, y}
	}},
	// ---- repeat ----
	u("repeat.Mesh", "repeat.Mesh", true, func(a M) M {
		return repeat.Mesh(a, []trs.TRS{trs.Position(v3(1, 0, 0)), trs.Position(v3(0, 5, 0))})
	}),
	u("repeat.Mesh(1)", "repeat.Mesh", true, func(a M) M { return repeat.Mesh(a, []trs.TRS{trs.Position(v3(1, 0, 0))}) }),
	u("repeat.Mesh(mirrored copy)", "repeat.Mesh", true, func(a M) M {
		return repeat.Mesh(a, []trs.TRS{trs.Position(v3(1, 0, 0)), trs.Scale(v3(1, 1, -1))})
	}),
	// ---- primitives (constructors: values that may share package-level storage) ----
	{name: "primitives.UnitCube", site: "primitives.Cube.Welded", arity: 0, deterministic: true, f: func(_, _ M) []M { return one(primitives.UnitCube()) }},
	{name: "primitives.Cube.UnweldedQuads", site: "primitives.Cube.UnweldedQuads", arity: 0, deterministic: true, f: func(_, _ M) []M {
		return one(primitives.Cube{Height: 1, Width: 2, Depth: 3, UVs: primitives.DefaultCubeUVs()}.UnweldedQuads())
	}},
	{name: "primitives.Quad", site: "primitives.Quad.ToMesh", arity: 0, deterministic: true, f: func(_, _ M) []M {
		return one(primitives.Quad{Width: 1, Depth: 1}.ToMesh())
	}},
	// ---- writers (observing operations) ----
	obs("ply.Write(ascii)", "ply.Write", func(a M) { must(ply.Write(io.Discard, a, ply.ASCII)) }),
	obs("ply.Write(binary)", "ply.Write", func(a M) { must(ply.Write(io.Discard, a, ply.BinaryLittleEndian)) }),
	obs("obj.WriteMesh", "obj.WriteMesh", func(a M) { must(obj.WriteMesh(a, "", io.Discard)) }),
	obs("stl.WriteMesh", "stl.WriteMesh", func(a M) { must(stl.WriteMesh(io.Discard, a)) }),
	obs("gltf.WriteBinary", "gltf.WriteBinary", func(a M) {
		must(gltf.WriteBinary(gltf.PolyformScene{Models: []gltf.PolyformModel{{Name: "m", Mesh: &a}}}, io.Discard))
	}),
	// the glTF scene refers to its meshes by pointer: what the pointer refers to after the export
	{name: "gltf.WriteBinary(&m); m", site: "gltf.WriteBinary", arity: 1, deterministic: true, identity: true, observer: true, f: func(a, _ M) []M {
		must(gltf.WriteBinary(gltf.PolyformScene{Models: []gltf.PolyformModel{{Name: "m", Mesh: &a}}}, io.Discard))
		return one(a)
	}},
	{name: "gltf.WriteText(&m, &m); m", site: "gltf.WriteText", arity: 1, deterministic: true, identity: true, observer: true, f: func(a, _ M) []M {
		must(gltf.WriteText(gltf.PolyformScene{Models: []gltf.PolyformModel{{Name: "m", Mesh: &a}, {Name: "again", Mesh: &a}}}, io.Discard))
		return one(a)
	}},
}

func must(err error) {
	if err != nil {
		panic(err) // a returned error is a reported failure
	}
}

var opByName = map[string]*op{}
var opIndex = map[string]uint64{}

func init() {
	for i, o := range ops {
		if opByName[o.name] != nil {
			panic("duplicate op " + o.name)
		}
		opByName[o.name] = o
		opIndex[o.name] = uint64(i + 1)
	}
}

func extending() []*op {
	var out []*op
	for _, o := range ops {
		if o.extending {
			out = append(out, o)
		}
	}
	return out
}

func observers() []*op {
	var out []*op
	for _, o := range ops {
		if o.observer {
			out = append(out, o)
		}
	}
	return out
}

// ---- initial pools (several deliberately non-initial: values that already own spare capacity,
// values that share package-level storage) ----

func triA() M {
	mA := mat("mat A")
	return modeling.NewTriangleMesh([]int{0, 1, 2}).
		SetFloat3Attribute(P, []vector3.Float64{v3(0, 0, 0), v3(1, 0, 0), v3(0, 1, 0)}).
		SetFloat3Attribute(N, []vector3.Float64{v3(0, 0, 1), v3(0, 0, 1), v3(0, 0, 1)}).
		SetFloat2Attribute(T, []vector2.Float64{vector2.New(0., 0.), vector2.New(1., 0.), vector2.New(0., 1.)}).
		SetFloat1Attribute("Mass", []float64{1, 2, 3}).
		SetFloat4Attribute(modeling.JointAttribute, []vector4.Float64{vector4.New(1., 0., 0., 0.), vector4.New(0., 1., 0., 0.), vector4.New(0., 0., 1., 0.)}).
		SetMaterial(mA)
}

func triB() M {
	mB := mat("mat B")
	return modeling.NewTriangleMesh([]int{0, 1, 2, 2, 1, 3}).
		SetFloat3Attribute(P, []vector3.Float64{v3(5, 0, 0), v3(6, 0, 0), v3(5, 1, 0), v3(6, 1, 1)}).
		SetFloat3Attribute(N, []vector3.Float64{v3(0, 1, 0), v3(0, 1, 0), v3(1, 0, 0), v3(1, 0, 0)}).
		SetFloat2Attribute(T, []vector2.Float64{vector2.New(.5, 0.), vector2.New(1., .5), vector2.New(.5, 1.), vector2.New(.25, .25)}).
		SetFloat1Attribute("Mass", []float64{4, 5, 6, 7}).
		SetFloat4Attribute(modeling.JointAttribute, []vector4.Float64{vector4.New(1., 1., 0., 0.), vector4.New(0., 1., 1., 0.), vector4.New(0., 0., 1., 1.), vector4.New(2., 0., 0., 2.)}).
		SetMaterials([]modeling.MeshMaterial{{PrimitiveCount: 1, Material: &mB}, {PrimitiveCount: 1, Material: nil}})
}

func cloud(n int, k float64) M {
	return modeling.NewPointCloud(nil, map[string][]vector3.Float64{P: freshV3(n, k), N: freshV3(n, k+0.5)}, nil, map[string][]float64{"Mass": freshV1(n, k)}, nil)
}

var poolNames = []string{"tri+grown", "cubes", "clouds", "tri"}

var pools = map[string]func() []M{
	"tri": func() []M { return []M{triA(), triB()} },
	// G already owns spare capacity in its index / attribute / material slices
	"tri+grown": func() []M { a := triA(); return []M{a, triB(), a.Append(triA()).Append(triA())} },
	"clouds":    func() []M { p := cloud(3, 1); return []M{p, cloud(2, 10), p.Append(cloud(1, 20)).Append(cloud(1, 30))} },
	// two cubes: their index slice is one package-level variable
	"cubes": func() []M { return []M{primitives.UnitCube(), primitives.Cube{Height: 2, Width: 1, Depth: 1}.Welded()} },
}
