package c01

import (
	"strings"

	"verif/harness/meshlib"
)

// TwinOp is one operation of the C01 alphabet on two shared mesh values, for the concurrent-twin
// scenarios (props/twins): Run applies it and returns a digest of everything observable — the
// results and both operands afterwards.
type TwinOp struct {
	Name, Site string
	Run        func() uint64
	// Swapped is the same operation with the two shared operands exchanged (nil when the operation
	// rejects that operand order)
	Swapped func() uint64
}

// TwinOps: every deterministic operation of the alphabet that spawns no goroutines of its own (the
// …Parallel… family is C10's), applied to one shared pair (G, B) of the "tri+grown" pool — G owns
// spare capacity in all its slices, the operands are never rebuilt between calls.
func TwinOps() []TwinOp {
	pool := pools["tri+grown"]()
	a, b := pool[2], pool[1]
	var out []TwinOp
	for _, o := range ops {
		o := o
		if !o.deterministic || o.arity == 0 || strings.Contains(o.name, "Parallel") {
			continue
		}
		// operations that reject this operand pair (a guarded precondition of the harness, or a reported
		// failure of the library) have no result to compare
		rejected := false
		func() {
			defer func() {
				if recover() != nil {
					rejected = true
				}
			}()
			o.f(a, b)
		}()
		if rejected {
			continue
		}
		run := func(x, y M) func() uint64 {
			return func() uint64 {
				h := uint64(1469598103934665603)
				mix := func(v uint64) { h = (h ^ v) * 1099511628211 }
				for _, r := range o.f(x, y) {
					mix(meshlib.QuickHash(r))
				}
				mix(meshlib.QuickHash(a))
				mix(meshlib.QuickHash(b))
				return h
			}
		}
		t := TwinOp{Name: o.name, Site: o.site, Run: run(a, b)}
		func() {
			defer func() { recover() }()
			o.f(b, a)
			t.Swapped = run(b, a)
		}()
		out = append(out, t)
	}
	return out
}
