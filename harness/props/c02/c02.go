// Package c02: well-formedness is closed under generation and mesh operations (DESIGN §4 C02).
//
// Three bounded-exhaustive scopes, all executed on the real library:
//
//	(a) generators over full parameter grids (package c02gen holds the table),
//	(b) every operation of the shared alphabet (package meshopslib) × every parameter variant ×
//	    every mesh of S_mesh(n,2) × attribute mixes,
//	(c) every ordered pair of operations over S_mesh(3,2).
//
// Oracle (independent of the library): meshlib.Snap.WF on a public-accessor snapshot — one common
// attribute length, every index inside it, index count fits the topology — plus a walk over every
// primitive through the public primitive accessors. An operation may instead report failure
// (returned error or panic(error|string)); a runtime.Error panic is a crash and a violation.
package c02

import (
	"encoding/json"
	"fmt"
	"io"
	"log"

	"github.com/EliCDavis/polyform/modeling"
	"github.com/EliCDavis/polyform/modeling/primitives"

	"verif/harness/core"
	"verif/harness/meshlib"
	"verif/harness/props/c02gen"
	ml "verif/harness/props/meshopslib"
)

func init() { core.Register(core.Check{ID: "C02", Run: run, Replay: replay}) }

// OpCall is one step of an operation sequence.
type OpCall struct {
	Op string    `json:"op"`
	P  ml.Params `json:"p"`
}

// Case is the replay record.
type Case struct {
	Kind string        `json:"kind"` // "gen" | "ops"
	Gen  *c02gen.Case  `json:"gen,omitempty"`
	Spec *meshlib.Spec `json:"spec,omitempty"`
	Ops  []OpCall      `json:"ops,omitempty"`
	N    int           `json:"n,omitempty"` // "many-materials": number of triangles = number of materials
}

const (
	clCrash = "an operation returns a mesh or reports failure; it never crashes"
	clWalk  = "it never returns a mesh whose accessors would read out of range"
	clGenOK = "a generator returns a well-formed mesh for every parameterisation it accepts"
)

type checker struct {
	c       *core.Ctx
	replays bool
	noted   map[string]bool
}

// reportedOnly marks a scope once.
func (k checker) reportedOnly(scope, note string) {
	if k.noted[scope] {
		return
	}
	k.noted[scope] = true
	k.c.ReportedOnly(scope, note)
}

// wfOf checks one returned mesh: snapshot, WF predicate, primitive walk.
// It returns (label, site-if-crash, clause, detail).
func wfOf(m modeling.Mesh) (label, site, clause, detail string, snap meshlib.Snap) {
	var o core.Outcome
	o = core.Guard(func() { snap = meshlib.Snapshot(m) })
	if o.Crash() {
		return "accessor-crash", core.TopFrame(o.Stack), clWalk, "snapshot through public accessors: " + o.Msg + " @ " + o.Stack, snap
	}
	if o.Panicked {
		return "accessor-reported", "", "", o.Msg, snap
	}
	if cl, d := snap.WF(); cl != "" {
		return "ill-formed", "", cl, d, snap
	}
	var walked string
	o = core.Guard(func() { walked = ml.Walk(m) })
	if o.Crash() {
		return "walk-crash", core.TopFrame(o.Stack), clWalk, "walking the primitives: " + o.Msg + " @ " + o.Stack, snap
	}
	if o.Panicked {
		return "wf(walk reported: " + o.Msg + ")", "", "", "", snap
	}
	_ = walked
	return "wf", "", "", "", snap
}

// ---------------------------------------------------------------------------------------------
// (a) generators
// ---------------------------------------------------------------------------------------------

func (k checker) gen(g c02gen.Case) {
	scope := "gen/" + g.Gen
	if !g.Admissible {
		scope = "gen-inadmissible/" + g.Gen
		k.reportedOnly(scope, "parameterisations outside the generator's documented domain (counts 0..2, degenerate paths, empty surfaces): crashes and rejections are reported only; a mesh that is returned must be well-formed here too")
	}
	var out []modeling.Mesh
	o := core.Guard(func() { out = c02gen.Run(g) })
	cs := Case{Kind: "gen", Gen: &g}
	label := "wf"
	switch {
	case o.Crash():
		label = "crash"
		if g.Admissible {
			k.c.Violate(core.Violation{Site: core.TopFrame(o.Stack), Clause: clGenOK, Class: "generator " + g.Gen + ": crash",
				Detail: fmt.Sprintf("%+v: %s @ %s", g, o.Msg, o.Stack), Case: cs})
		}
	case o.Panicked:
		// an explicit rejection. For an admissible parameterisation the generator "accepts" nothing,
		// so the property is silent; it is reported as its own outcome label.
		label = "rejected"
	default:
		for i, m := range out {
			l, site, clause, detail, _ := wfOf(m)
			if l == "wf" || clause == "" {
				continue
			}
			label = l
			// A generator that returns a mesh has accepted its parameters: the returned mesh must be
			// well-formed inside and outside the documented domain alike (outside it, only crashes
			// and explicit rejections are tolerated).
			if site == "" {
				site = g.Site
			}
			class := "generator " + g.Gen
			if !g.Admissible {
				class += " (outside the documented domain: " + g.Why + ")"
			}
			k.c.Violate(core.Violation{Site: site, Clause: clause, Class: class,
				Detail: fmt.Sprintf("%+v mesh %d: %s", g, i, detail), Case: cs})
			break
		}
	}
	k.c.Eval(scope, label)
	if g.Admissible && label == "wf" {
		k.c.Nontrivial("gen", g.Gen, fmt.Sprint(g.I, g.F, g.B))
	}
	k.c.Sample(scope, g)
}

// ---------------------------------------------------------------------------------------------
// (b)/(c) operation sequences
// ---------------------------------------------------------------------------------------------

type step struct {
	op ml.Op
	p  ml.Params
}

// applyOne runs one operation on one well-formed mesh and judges the outcome.
// ok=false stops the sequence (failure reported, violation, or outside the alarmed scope).
func (k checker) applyOne(scope string, in modeling.Mesh, sh ml.Shape, st step, alarmed bool, cs Case) (outs []modeling.Mesh, snaps []meshlib.Snap, label string, ok bool) {
	var res []modeling.Mesh
	var err error
	o := core.Guard(func() { res, err = st.op.Apply(in, st.p) })
	class := st.op.Site + ": " + sh.LayoutClass()
	switch {
	case o.Crash():
		if alarmed {
			k.c.Violate(core.Violation{Site: core.TopFrame(o.Stack), Clause: clCrash, Class: class,
				Detail: fmt.Sprintf("%s(%s) on %s: %s @ %s", st.op.Name, st.p, describe(cs), o.Msg, o.Stack), Case: cs})
		}
		return nil, nil, "crash", false
	case o.Panicked:
		return nil, nil, "reported-failure(panic)", false
	case err != nil:
		return nil, nil, "reported-failure(error)", false
	}
	label = "wf"
	ok = true
	for i, m := range res {
		l, site, clause, detail, snap := wfOf(m)
		if clause != "" {
			label, ok = l, false
			if alarmed {
				cl := class
				if site == "" {
					site = st.op.Site
				} else {
					// a public accessor crashed on the returned mesh: the class is the layout of that mesh
					cl = "returned mesh: " + ml.ShapeOfSnap(snap).LayoutClass()
				}
				k.c.Violate(core.Violation{Site: site, Clause: clause, Class: cl,
					Detail: fmt.Sprintf("%s(%s) on %s, result %d: %s", st.op.Name, st.p, describe(cs), i, detail), Case: cs})
			}
			break
		}
		snaps = append(snaps, snap)
	}
	return res, snaps, label, ok
}

func describe(cs Case) string {
	if cs.Spec == nil {
		return ""
	}
	s := cs.Spec.String()
	if len(cs.Ops) > 1 {
		s += " after"
		for _, o := range cs.Ops[:len(cs.Ops)-1] {
			s += " " + o.Op + "(" + o.P.String() + ")"
		}
	}
	return s
}

// single runs one operation variant on one member of S_mesh.
func (k checker) single(s meshlib.Spec, skey string, sh ml.Shape, op ml.Op, vi int, p ml.Params) {
	scope := "ops/" + op.Name
	alarmed := true
	if op.Outside != nil {
		if why := op.Outside(sh, p); why != "" {
			scope = "ops-outside/" + op.Name
			alarmed = false
			k.reportedOnly(scope, "arguments inconsistent with the mesh handed to a low-level builder step or outside the operation's documented precondition ("+why+"): run and reported, never alarmed")
		}
	}
	cs := Case{Kind: "ops", Spec: &s, Ops: []OpCall{{op.Name, p}}}
	_, _, label, _ := k.applyOne(scope, s.Build(), sh, step{op, p}, alarmed, cs)
	k.c.Eval(scope, label)
	if alarmed && label == "wf" && len(s.Idx) > 0 {
		k.c.Nontrivial("op", skey, op.Name, vi) // input identity: mesh, operation, parameter variant
	}
	k.c.Sample(scope, cs)
}

// pair runs op1 (default variant) then every op2 (default variant) on each result of op1.
func (k checker) pairs(s meshlib.Spec, sh ml.Shape, op1 ml.Op, ops []ml.Op, thorough bool) {
	p1 := op1.Variants(sh, thorough)[0]
	if op1.Outside != nil && op1.Outside(sh, p1) != "" {
		return
	}
	scope := "pairs/" + op1.Name
	// probe op1 once to learn the shapes of its results (re-executed freshly for every op2 so that
	// no second operation ever sees a mesh another second operation has touched)
	cs1 := Case{Kind: "ops", Spec: &s, Ops: []OpCall{{op1.Name, p1}}}
	_, snaps, _, ok := k.applyOne(scope, s.Build(), sh, step{op1, p1}, false, cs1)
	if !ok {
		return // already judged (and alarmed if need be) by the single-operation scope
	}
	nontrivial := false
	for ri, sn := range snaps {
		sh2 := ml.ShapeOfSnap(sn)
		for _, op2 := range ops {
			p2 := op2.Variants(sh2, thorough)[0]
			if op2.Outside != nil && op2.Outside(sh2, p2) != "" {
				continue
			}
			var mid []modeling.Mesh
			o := core.Guard(func() { mid, _ = op1.Apply(s.Build(), p1) })
			if o.Panicked || ri >= len(mid) {
				k.c.HarnessError("pair prefix %s on %s did not reproduce", op1.Name, s)
				return
			}
			cs := Case{Kind: "ops", Spec: &s, Ops: []OpCall{{op1.Name, p1}, {op2.Name, p2}}}
			_, _, label, _ := k.applyOne(scope, mid[ri], sh2, step{op2, p2}, true, cs)
			k.c.Eval(scope, label)
			if label == "wf" && len(sn.Idx) > 0 {
				nontrivial = true
			}
			k.c.Sample(scope, cs)
		}
	}
	if nontrivial {
		k.c.Nontrivial("pair", s.String(), op1.Name)
	}
}

// ---------------------------------------------------------------------------------------------
// scopes
// ---------------------------------------------------------------------------------------------

func run(c *core.Ctx) {
	k := checker{c: c, noted: map[string]bool{}}
	th := c.Thorough()
	log.SetOutput(io.Discard) // the triangulation package logs through the standard logger

	// (a) generators
	gens := c02gen.Cases(th)
	c.Bound("generator_cases", len(gens))
	// Generator cases are dealt to the shards in runs of 64 consecutive cases, so that neighbouring
	// parameterisations of one generator (rows 8 and 9 at the same column count, n and n+1 sides) are
	// served by the same process; then each shard serves its cases again in descending order — once
	// with the same runs and once with the runs shifted by 32 — so that every generator is also asked
	// after the process has served the later (mostly larger) parameterisations: whatever a generator
	// keeps between calls (a cache, a pooled buffer, a lazily built table) was then filled by
	// another request.
	c.Bound("generator_case_passes", "runs of 64 consecutive cases per shard: ascending; descending; descending with the runs shifted by 32")
	for i, g := range gens {
		if !c.Mine(i / 64) {
			continue
		}
		if c.Expired() {
			return
		}
		k.gen(g)
	}
	for _, shift := range []int{0, 32} {
		for i := len(gens) - 1; i >= 0; i-- {
			if !c.Mine((i + shift) / 64) {
				continue
			}
			if c.Expired() {
				return
			}
			k.gen(gens[i])
		}
	}

	mcounts := []int{3, 255, 256, 257, 65536}
	if th {
		mcounts = append(mcounts, 65535, 65537)
	}
	for i, n := range mcounts {
		if c.Mine(i) && !c.Expired() {
			k.manyMaterials(n)
		}
	}
	c.Bound("many_materials", fmt.Sprintf("SplitOnUniqueMaterials on strips of %v triangles with a material each", mcounts))

	// (b) every operation × every variant × S_mesh
	maxV := 3
	if th {
		maxV = 4
	}
	ops := allOps()
	c.Bound("operations", len(ops))
	type sub struct {
		mixes            []string
		minV, maxV, maxP int
		topos            []string
	}
	// the mixes that carry every attribute width (all) or a position only (P) get the full vertex bound;
	// the remaining mixes (a second float3, position-less, attribute-less) one vertex less
	tp := []string{"tri", "point"}
	subs := []sub{{[]string{"all", "P"}, 0, maxV, 2, tp}, {[]string{"PN", "none", "N", "T1"}, 0, maxV - 1, 2, tp}}
	bound := fmt.Sprintf("topologies tri,point; MaxP=2; all position assignments; mixes all,P with MaxV=%d; mixes PN,none,N,T1 with MaxV=%d", maxV, maxV-1)
	if !th {
		// four vertices are the smallest count at which welding leaves an unused representative in front of a
		// used one and a surviving triangle can refer to a vertex that is not the first of its class, so the
		// quick tier adds the single-primitive meshes over exactly four vertices
		subs = append(subs, sub{[]string{"all", "P"}, 4, 4, 1, tp})
		bound += "; plus V=4 MaxP=1 for mixes all,P"
	}
	// "any topology": quads, separate line segments, line strips and line loops (index arrays of every
	// length that fits: 4p, 2p, and any length for strips and loops)
	subs = append(subs, sub{[]string{"all", "P"}, 0, 3, 2, []string{"line", "quad"}}, sub{[]string{"all", "P"}, 0, 3, 3, []string{"strip", "loop"}},
		sub{[]string{"none"}, 0, 0, 0, []string{"line", "quad", "strip", "loop"}})
	bound += "; topologies line,quad (MaxV=3 MaxP=2) and strip,loop (MaxV=3, index arrays of length 0..3) with mixes all,P, plus their attribute-less empty meshes"
	c.Bound("single.S_mesh", bound)
	stopped := false
	for _, sb := range subs {
		meshlib.Enum(meshlib.EnumOpt{MinV: sb.minV, MaxV: sb.maxV, MaxP: sb.maxP, Topos: sb.topos, Mixes: sb.mixes, AllPos: sb.topos[0] == "tri"},
			func(i int, s meshlib.Spec) bool {
				if !c.Next() {
					return true
				}
				if c.Expired() {
					stopped = true
					return false
				}
				sh := ml.ShapeOfSpec(s)
				skey := s.String()
				for _, op := range ops {
					for vi, p := range op.Variants(sh, th) {
						k.single(s, skey, sh, op, vi, p)
					}
				}
				return true
			})
		if stopped {
			return
		}
	}

	// size ladder: vertex / primitive counts around every power of two (thresholds a change may
	// introduce lie far above S_mesh): every operation, default parameter variants
	lk := 10
	if th {
		lk = 12
	}
	c.Bound("single.size_ladder", fmt.Sprintf("n = 2^k-1, 2^k, 2^k+1 primitives for k=3..%d: welded strip (non-identity order, two material ranges, all attributes), palette strip (three weld classes), unwelded soup, reversed point cloud", lk))
	for kk := 3; kk <= lk; kk++ {
		for _, n := range []int{1<<kk - 1, 1 << kk, 1<<kk + 1} {
			for _, s := range ml.LadderSpecs(n) {
				if !c.Next() {
					continue
				}
				if c.Expired() {
					return
				}
				sh := ml.ShapeOfSpec(s)
				skey := fmt.Sprintf("ladder %s n=%d mix=%s pal=%v", s.Topo, n, s.Mix, s.Pos != nil)
				for _, op := range ops {
					for vi, p := range op.Variants(sh, false) {
						k.single(s, skey, sh, op, vi, p)
					}
				}
			}
		}
	}

	// (c) ordered pairs of operations
	pv, pp := 2, 2
	mixes := []string{"all"}
	if th {
		pv = 3
		mixes = []string{"all", "P"}
	}
	c.Bound("pairs.S_mesh", fmt.Sprintf("MaxV=%d MaxP=%d topologies=tri,point all position assignments; mixes %v; default variant of each operation", pv, pp, mixes))
	meshlib.Enum(meshlib.EnumOpt{MaxV: pv, MaxP: pp, Topos: []string{"tri", "point"}, Mixes: mixes, AllPos: true},
		func(i int, s meshlib.Spec) bool {
			if !c.Next() {
				return true
			}
			if c.Expired() {
				return false
			}
			sh := ml.ShapeOfSpec(s)
			for _, op1 := range ops {
				k.pairs(s, sh, op1, ops, th)
			}
			return true
		})
}

// replay re-executes one recorded case through the same judging code.
func replay(c *core.Ctx) {
	var cs Case
	if err := json.Unmarshal(c.Replay, &cs); err != nil {
		c.HarnessError("bad case: %v", err)
		return
	}
	k := checker{c: c, replays: true, noted: map[string]bool{}}
	log.SetOutput(io.Discard)
	switch cs.Kind {
	case "many-materials":
		k.manyMaterials(cs.N)
	case "gen":
		k.gen(*cs.Gen)
	case "ops":
		s := *cs.Spec
		sh := ml.ShapeOfSpec(s)
		meshes := []modeling.Mesh{}
		for i, call := range cs.Ops {
			op, ok := opByName(call.Op)
			if !ok {
				c.HarnessError("unknown operation %q", call.Op)
				return
			}
			last := i == len(cs.Ops)-1
			if i == 0 {
				alarmed := last && !(op.Outside != nil && op.Outside(sh, call.P) != "")
				outs, _, _, ok := k.applyOne("replay", s.Build(), sh, step{op, call.P}, alarmed, cs)
				if !ok {
					return
				}
				meshes = outs
				continue
			}
			// later steps: each result of the prefix is rebuilt freshly (the prefix is re-run per result)
			for ri := range meshes {
				prefix, _ := opByName(cs.Ops[0].Op)
				mid, _ := prefix.Apply(s.Build(), cs.Ops[0].P)
				sh2 := ml.ShapeOfSnap(meshlib.Snapshot(mid[ri]))
				k.applyOne("replay", mid[ri], sh2, step{op, call.P}, true, cs)
			}
		}
	}
}

// ---------------------------------------------------------------------------------------------
// operations of this check only: generators and operations interleaved
// ---------------------------------------------------------------------------------------------

// A generator's output is handed to an operation and the generator is asked again afterwards: the
// second answer is "a mesh returned by a geometry generator" like the first (generators that hand out
// shared tables — the welded cube's index list — make an operation that writes into its operand
// visible here).
func extraOps() []ml.Op {
	gen := []func() modeling.Mesh{
		func() modeling.Mesh { return primitives.UnitCube() },
		func() modeling.Mesh { return primitives.Cube{Height: 2, Width: 3, Depth: 4}.Welded() },
		func() modeling.Mesh { return primitives.UVSphere(1, 3, 4) },
		func() modeling.Mesh {
			return primitives.Cylinder{Sides: 5, Height: 1, Radius: 0.5}.ToMesh()
		},
	}
	one := func(s ml.Shape, thorough bool) []ml.Params { return []ml.Params{{}} }
	return []ml.Op{
		{Name: "Mesh.Append(generated solid); generate again", Site: "modeling.Mesh.Append", Variants: one,
			Apply: func(m modeling.Mesh, p ml.Params) ([]modeling.Mesh, error) {
				var out []modeling.Mesh
				for _, g := range gen {
					operand := g()
					out = append(out, m.Append(operand), operand, g())
				}
				return out, nil
			}},
		{Name: "generated solid.Append(Mesh); generate again", Site: "modeling.Mesh.Append", Variants: one,
			Apply: func(m modeling.Mesh, p ml.Params) ([]modeling.Mesh, error) {
				var out []modeling.Mesh
				for _, g := range gen {
					out = append(out, g().Append(m), g())
				}
				return out, nil
			}},
	}
}

func allOps() []ml.Op {
	return append(append([]ml.Op{}, ml.Alphabet...), extraOps()...)
}

func opByName(name string) (ml.Op, bool) {
	if op, ok := ml.ByName(name); ok {
		return op, true
	}
	for _, op := range extraOps() {
		if op.Name == name {
			return op, true
		}
	}
	return ml.Op{}, false
}
