package c02

// Scope "many-materials": SplitOnUniqueMaterials on a mesh whose every triangle has a material of
// its own (a strip; the last four triangles with vertices of their own) — 3, 255, 256, 257, 65535, 65536 and 65537 materials.  Every returned mesh must be
// well-formed and the triangles must add up.  (Counts around the widths a per-vertex tag, a packed key
// or an id table may be stored in; the small scopes have at most three materials.)

import (
	"fmt"

	"github.com/EliCDavis/polyform/modeling"
	"github.com/EliCDavis/polyform/modeling/meshops"
	"github.com/EliCDavis/vector/vector3"

	"verif/harness/core"
)

func (k checker) manyMaterials(n int) {
	cs := Case{Kind: "many-materials", N: n}
	scope := "ops/SplitOnUniqueMaterials/many-materials"
	// a strip (neighbouring triangles share vertices); the last four triangles have vertices of their
	// own (the library's cost grows with materials x vertices, so the vertex count is kept near n)
	pos := make([]vector3.Float64, n+2+12)
	for i := range pos {
		pos[i] = vector3.New(float64(i), float64(i%2), 0.25*float64(i%5))
	}
	idx := make([]int, 0, 3*n)
	mats := make([]modeling.MeshMaterial, n)
	for t := 0; t < n; t++ {
		switch {
		case t >= n-4 && n > 8:
			b := n + 2 + 3*(t-(n-4))
			idx = append(idx, b, b+1, b+2)
		case t%2 == 0:
			idx = append(idx, t, t+1, t+2)
		default:
			idx = append(idx, t+1, t, t+2)
		}
		mats[t] = modeling.MeshMaterial{PrimitiveCount: 1, Material: &modeling.Material{Name: fmt.Sprintf("m%d", t)}}
	}
	m := modeling.NewTriangleMesh(idx).SetFloat3Attribute(modeling.PositionAttribute, pos).SetMaterials(mats)
	var out []modeling.Mesh
	o := core.Guard(func() { out = meshops.SplitOnUniqueMaterials(m) })
	fail := func(clause, detail string) {
		k.c.Eval(scope, "mismatch")
		k.c.Violate(core.Violation{Site: "meshops.SplitOnUniqueMaterials", Clause: clause, Class: "many-materials",
			Detail: fmt.Sprintf("%d triangles with a material each: %s", n, detail), Case: cs})
	}
	if o.Panicked {
		fail(clCrash, "panic: "+o.Msg)
		return
	}
	total := 0
	for i, r := range out {
		l, _, clause, detail, _ := wfOf(r)
		if l != "wf" && clause != "" {
			fail(clause, fmt.Sprintf("mesh %d of %d: %s", i, len(out), detail))
			return
		}
		total += r.PrimitiveCount()
	}
	if len(out) != n || total != n {
		fail(clWalk, fmt.Sprintf("%d meshes with %d triangles in all came back", len(out), total))
		return
	}
	k.c.Eval(scope, "ok")
	k.c.Nontrivial("many-materials", n)
}
