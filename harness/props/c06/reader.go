package c06

// Independent glTF 2.0 / GLB reader and structural validator. Written from the specification
// (Khronos glTF 2.0 §3.6 buffers/accessors, §4 GLB container, §3.12 extensions); it shares no code
// with formats/gltf: JSON is read into map[string]any, the payload comes from the GLB BIN chunk or a
// base64 data URI, accessors are decoded by hand.

import (
	"encoding/base64"
	"encoding/binary"
	"encoding/json"
	"fmt"
	"math"
	"sort"
	"strings"
)

// Problem is one violated rule; Site/Clause/Class become the violation identity.
type Problem struct {
	Site   string
	Clause string
	Class  string
	format string
	args   []any
}

// Detail renders the human-readable description (lazily: most problems of a large run are only counted).
func (p Problem) Detail() string { return fmt.Sprintf(p.format, p.args...) }

func problem(site, clause, class, format string, a ...any) Problem {
	return Problem{Site: site, Clause: clause, Class: class, format: format, args: a}
}

const (
	clContainer = "container and chunk lengths and padding agree with the payload"
	clIndexRef  = "every index reference is in range"
	clViewRange = "every buffer-view byte range lies inside its buffer"
	clAccRange  = "every accessor byte range lies inside its buffer view"
	clAlign     = "accessor offsets are aligned to the component size (4 for vertex attributes)"
	clMinMax    = "declared min/max equal the decoded min/max (after float32 conversion)"
	clIndexVal  = "every index is below the vertex count and is not the restart value"
	clAttrCount = "all attributes of a primitive have equal count"
	clExtDecl   = "extensions in use are declared (required ⊆ used)"
	clSchema    = "document is well-formed glTF 2.0 JSON"
)

type obj = map[string]any

func asObj(v any) obj { m, _ := v.(map[string]any); return m }
func asArr(v any) []any {
	a, _ := v.([]any)
	return a
}

// intOf reads a JSON number that must be a non-negative integer.
func intOf(v any) (int, bool) {
	f, ok := v.(float64)
	if !ok || f < 0 || f != math.Trunc(f) || f > 1e15 {
		return 0, false
	}
	return int(f), true
}

// Doc is a parsed asset.
type Doc struct {
	Root    obj
	Buffers [][]byte // payload of every buffer (nil when unavailable)
	GLB     bool

	accCache []accEntry
	layout   *layoutInfo
}

type accEntry struct {
	a   AccInfo
	why string
}

func (d *Doc) list(key string) []any { return asArr(d.Root[key]) }

var compSize = map[int]int{5120: 1, 5121: 1, 5122: 2, 5123: 2, 5125: 4, 5126: 4}
var typeComps = map[string]int{"SCALAR": 1, "VEC2": 2, "VEC3": 3, "VEC4": 4, "MAT2": 4, "MAT3": 9, "MAT4": 16}

const (
	glbMagic  = 0x46546C67
	chunkJSON = 0x4E4F534A
	chunkBIN  = 0x004E4942
)

// Parse splits the container and parses the JSON. A nil Doc means nothing further can be checked.
func Parse(data []byte, glb bool) (*Doc, []Problem) {
	var ps []Problem
	site := "gltf.WriteText"
	if glb {
		site = "gltf.Writer.WriteGLB"
	}
	bad := func(class, format string, a ...any) {
		ps = append(ps, problem(site, clContainer, class, format, a...))
	}
	var js, bin []byte
	haveBin := false
	if glb {
		if len(data) < 12 {
			bad("glb-header", "file of %d bytes has no 12-byte header", len(data))
			return nil, ps
		}
		if binary.LittleEndian.Uint32(data) != glbMagic {
			bad("glb-header", "magic %#x", binary.LittleEndian.Uint32(data))
			return nil, ps
		}
		if v := binary.LittleEndian.Uint32(data[4:]); v != 2 {
			bad("glb-header", "version %d", v)
		}
		if l := int(binary.LittleEndian.Uint32(data[8:])); l != len(data) {
			bad("glb-total-length", "header length %d, file has %d bytes", l, len(data))
		}
		off, ci := 12, 0
		for off < len(data) {
			if off+8 > len(data) {
				bad("glb-chunk-header", "chunk %d header truncated at byte %d of %d", ci, off, len(data))
				break
			}
			l := int(binary.LittleEndian.Uint32(data[off:]))
			t := binary.LittleEndian.Uint32(data[off+4:])
			if off%4 != 0 || l%4 != 0 {
				bad("glb-chunk-padding", "chunk %d starts at %d with length %d (must be multiples of 4)", ci, off, l)
			}
			if off+8+l > len(data) {
				bad("glb-chunk-length", "chunk %d of length %d at %d overruns the file (%d bytes)", ci, l, off, len(data))
				break
			}
			body := data[off+8 : off+8+l]
			switch {
			case ci == 0:
				if t != chunkJSON {
					bad("glb-chunk-type", "first chunk has type %#x, want JSON", t)
				}
				js = body
			case ci == 1 && t == chunkBIN:
				bin, haveBin = body, true
			case t == chunkJSON || t == chunkBIN:
				bad("glb-chunk-type", "chunk %d repeats type %#x", ci, t)
			}
			off += 8 + l
			ci++
		}
		if js == nil {
			bad("glb-chunk-type", "no JSON chunk")
			return nil, ps
		}
	} else {
		js = data
	}
	var root obj
	if err := json.Unmarshal(js, &root); err != nil {
		ps = append(ps, problem(site, clSchema, "json-syntax", "%s", err.Error()))
		return nil, ps
	}
	d := &Doc{Root: root, GLB: glb}
	if v, _ := asObj(root["asset"])["version"].(string); v != "2.0" {
		ps = append(ps, problem("gltf.Writer.ToGLTF", clSchema, "asset-version", "asset.version = %q", v))
	}
	for i, b := range d.list("buffers") {
		bo := asObj(b)
		bl, ok := intOf(bo["byteLength"])
		if !ok {
			bad("buffer-byteLength", "buffer %d has no valid byteLength", i)
		}
		var payload []byte
		uri, hasURI := bo["uri"].(string)
		switch {
		case hasURI:
			rest, found := "", false
			for _, p := range []string{"data:application/octet-stream;base64,", "data:application/gltf-buffer;base64,"} {
				if strings.HasPrefix(uri, p) {
					rest, found = uri[len(p):], true
				}
			}
			if !found {
				bad("buffer-uri", "buffer %d uri is not an embedded base64 payload: %.40q", i, uri)
				break
			}
			dec, err := base64.StdEncoding.DecodeString(rest)
			if err != nil {
				bad("buffer-uri", "buffer %d base64: %v", i, err)
				break
			}
			payload = dec
			if ok && len(dec) < bl {
				bad("buffer-byteLength", "buffer %d declares %d bytes, data URI carries %d", i, bl, len(dec))
			}
		case glb && i == 0:
			if !haveBin {
				if bl > 0 {
					bad("glb-bin-missing", "buffer 0 declares %d bytes but there is no BIN chunk", bl)
				}
				break
			}
			payload = bin
			if ok && (bl > len(bin) || len(bin)-bl > 3) {
				bad("buffer-byteLength", "buffer 0 declares %d bytes, BIN chunk has %d (may exceed by at most 3)", bl, len(bin))
			} else if ok {
				for _, x := range bin[bl:] {
					if x != 0 {
						bad("glb-chunk-padding", "BIN chunk padding byte %#x is not zero", x)
						break
					}
				}
			}
		default:
			bad("buffer-uri", "buffer %d has no payload (no uri; only buffer 0 of a GLB may omit it)", i)
		}
		d.Buffers = append(d.Buffers, payload)
	}
	if glb && haveBin && len(d.list("buffers")) == 0 && len(bin) > 0 {
		bad("glb-bin-unreferenced", "BIN chunk of %d bytes but no buffer", len(bin))
	}
	return d, ps
}

// AccInfo is the resolved geometry of one accessor.
type AccInfo struct {
	OK       bool // resolvable (indices, types and byte range are usable for decoding)
	Comp     int
	NComp    int
	Count    int
	View     int // -1 when absent (zero-initialised accessor)
	Abs      int // absolute byte offset in the buffer
	Stride   int
	Buffer   int
	ViewOff  int
	ViewLen  int
	AccOff   int
	HasMin   bool
	Min, Max []float64
}

func (d *Doc) accInfo(i int) (AccInfo, string) {
	if d.accCache == nil {
		n := len(d.list("accessors"))
		d.accCache = make([]accEntry, n)
		for j := 0; j < n; j++ {
			d.accCache[j].a, d.accCache[j].why = d.accInfoRaw(j)
		}
	}
	if i < 0 || i >= len(d.accCache) {
		return AccInfo{}, "accessor index out of range"
	}
	return d.accCache[i].a, d.accCache[i].why
}

func (d *Doc) accInfoRaw(i int) (a AccInfo, why string) {
	accs := d.list("accessors")
	ao := asObj(accs[i])
	ct, ok := intOf(ao["componentType"])
	cs := compSize[ct]
	if !ok || cs == 0 {
		return a, fmt.Sprintf("componentType %v", ao["componentType"])
	}
	ty, _ := ao["type"].(string)
	nc := typeComps[ty]
	if nc == 0 {
		return a, fmt.Sprintf("type %v", ao["type"])
	}
	cnt, ok := intOf(ao["count"])
	if !ok {
		return a, fmt.Sprintf("count %v", ao["count"])
	}
	a.Comp, a.NComp, a.Count, a.View = ct, nc, cnt, -1
	if ao["byteOffset"] != nil {
		if a.AccOff, ok = intOf(ao["byteOffset"]); !ok {
			return a, fmt.Sprintf("byteOffset %v", ao["byteOffset"])
		}
	}
	a.Stride = cs * nc
	if ao["bufferView"] != nil {
		bv, ok := intOf(ao["bufferView"])
		views := d.list("bufferViews")
		if !ok || bv >= len(views) {
			return a, fmt.Sprintf("bufferView %v of %d", ao["bufferView"], len(views))
		}
		vo := asObj(views[bv])
		a.View = bv
		if vo["byteOffset"] != nil {
			if a.ViewOff, ok = intOf(vo["byteOffset"]); !ok {
				return a, "view byteOffset"
			}
		}
		if a.ViewLen, ok = intOf(vo["byteLength"]); !ok {
			return a, "view byteLength"
		}
		if a.Buffer, ok = intOf(vo["buffer"]); !ok {
			return a, "view buffer"
		}
		if vo["byteStride"] != nil {
			if a.Stride, ok = intOf(vo["byteStride"]); !ok {
				return a, "view byteStride"
			}
		}
		a.Abs = a.ViewOff + a.AccOff
	}
	rd := func(k string) []float64 {
		arr := asArr(ao[k])
		if arr == nil {
			return nil
		}
		out := make([]float64, len(arr))
		for j, v := range arr {
			f, ok := v.(float64)
			if !ok {
				f = math.NaN()
			}
			out[j] = f
		}
		return out
	}
	a.Min, a.Max = rd("min"), rd("max")
	a.HasMin = ao["min"] != nil || ao["max"] != nil
	a.OK = true
	return a, ""
}

// span is the number of bytes the accessor touches from its first byte.
func (a AccInfo) span() int {
	if a.Count == 0 {
		return 0
	}
	return a.Stride*(a.Count-1) + compSize[a.Comp]*a.NComp
}

// Decode returns count×ncomp values (floats as float32 images, integers exactly; normalisation is
// not applied). ok=false when the bytes are not available.
func (d *Doc) Decode(i int) (vals []float64, a AccInfo, ok bool) {
	a, why := d.accInfo(i)
	if why != "" {
		return nil, a, false
	}
	n := a.Count * a.NComp
	if a.View < 0 {
		return make([]float64, n), a, true
	}
	if a.Buffer >= len(d.Buffers) || d.Buffers[a.Buffer] == nil {
		return nil, a, false
	}
	buf := d.Buffers[a.Buffer]
	if a.Stride < compSize[a.Comp]*a.NComp || a.Abs+a.span() > len(buf) {
		return nil, a, false
	}
	cs := compSize[a.Comp]
	vals = make([]float64, 0, n)
	for e := 0; e < a.Count; e++ {
		base := a.Abs + e*a.Stride
		for c := 0; c < a.NComp; c++ {
			o := base + c*cs
			var v float64
			switch a.Comp {
			case 5126:
				v = float64(math.Float32frombits(binary.LittleEndian.Uint32(buf[o:])))
			case 5125:
				v = float64(binary.LittleEndian.Uint32(buf[o:]))
			case 5123:
				v = float64(binary.LittleEndian.Uint16(buf[o:]))
			case 5122:
				v = float64(int16(binary.LittleEndian.Uint16(buf[o:])))
			case 5121:
				v = float64(buf[o])
			case 5120:
				v = float64(int8(buf[o]))
			}
			vals = append(vals, v)
		}
	}
	return vals, a, true
}

// role of accessors / views derived from who references them.
type roles struct {
	vertexAttr map[int]bool // accessor used in primitive.attributes
	indexAcc   map[int]bool // accessor used as primitive.indices
}

func (d *Doc) roles() roles {
	r := roles{map[int]bool{}, map[int]bool{}}
	for _, m := range d.list("meshes") {
		for _, p := range asArr(asObj(m)["primitives"]) {
			po := asObj(p)
			for _, ai := range asObj(po["attributes"]) {
				if n, ok := intOf(ai); ok {
					r.vertexAttr[n] = true
				}
			}
			if n, ok := intOf(po["indices"]); ok && po["indices"] != nil {
				r.indexAcc[n] = true
			}
		}
	}
	return r
}

type viewSpan struct{ idx, off, ln int }

// layoutInfo: per buffer the views in byte order, and the kind of every view from the accessors
// that use it (computed once per document).
type layoutInfo struct {
	byBuffer map[int][]viewSpan
	kind     map[int]string
}

func (d *Doc) layoutOf(r roles) *layoutInfo {
	if d.layout != nil {
		return d.layout
	}
	l := &layoutInfo{map[int][]viewSpan{}, map[int]string{}}
	for i, v := range d.list("bufferViews") {
		vo := asObj(v)
		b, _ := intOf(vo["buffer"])
		off, _ := intOf(vo["byteOffset"])
		ln, _ := intOf(vo["byteLength"])
		l.byBuffer[b] = append(l.byBuffer[b], viewSpan{i, off, ln})
	}
	for _, vs := range l.byBuffer {
		sort.Slice(vs, func(i, j int) bool {
			if vs[i].off != vs[j].off {
				return vs[i].off < vs[j].off
			}
			return vs[i].idx < vs[j].idx
		})
	}
	for ai := range d.list("accessors") {
		a, why := d.accInfo(ai)
		if why != "" || a.View < 0 {
			continue
		}
		k := fmt.Sprintf("%d-byte", compSize[a.Comp])
		switch {
		case r.indexAcc[ai]:
			k += " index"
		case r.vertexAttr[ai]:
			k += " vertex-attribute"
		default:
			k += " other"
		}
		if old, ok := l.kind[a.View]; ok && old != k {
			k = "mixed-use"
		}
		l.kind[a.View] = k
	}
	d.layout = l
	return l
}

const (
	classAfterOddIndexView = "view follows a 2-byte index view whose byte length is not a multiple of 4"
	classRunningOffset     = "views are not laid out back to back from offset 0 (running offset wrong)"
)

// alignClass explains *why* the bytes of the accessor's view start where they do: the deterministic
// input class of a misalignment. Views laid out back to back from offset 0 are the writer's design;
// the class then names the kinds of earlier views whose length is not a multiple of 4.
func (d *Doc) alignClass(acc AccInfo, r roles) (site, class string) {
	if acc.AccOff != 0 {
		return "gltf.Writer.accessors", "accessor byteOffset inside the view is itself misaligned or non-zero"
	}
	l := d.layoutOf(r)
	end := 0
	culprits := map[string]bool{}
	for _, v := range l.byBuffer[acc.Buffer] {
		if v.off != end {
			return "gltf.Writer.bytesWritten", classRunningOffset
		}
		if v.idx == acc.View {
			break
		}
		if v.ln%4 != 0 {
			k := l.kind[v.idx]
			if k == "" {
				k = "unreferenced"
			}
			culprits[k] = true
		}
		end = v.off + v.ln
	}
	if len(culprits) == 0 {
		return "gltf.Writer.bytesWritten", "offset not explained by the lengths of the preceding views"
	}
	var ks []string
	for k := range culprits {
		ks = append(ks, k)
	}
	sort.Strings(ks)
	if len(ks) == 1 && ks[0] == "2-byte index" {
		return "gltf.Writer.WriteIndices", classAfterOddIndexView
	}
	return "gltf.Writer.Write*", "view follows a view whose byte length is not a multiple of 4: " + strings.Join(ks, ", ")
}

// Validate applies the structural rules. It never panics on malformed documents.
func (d *Doc) Validate() []Problem {
	var ps []Problem
	add := func(site, clause, class, format string, a ...any) {
		ps = append(ps, problem(site, clause, class, format, a...))
	}
	nOf := func(k string) int { return len(d.list(k)) }
	// ref checks that v (when present) is an integer < n.
	ref := func(v any, present bool, n int, site, what string) (int, bool) {
		if !present {
			return 0, false
		}
		i, ok := intOf(v)
		if !ok || i >= n {
			add(site, clIndexRef, what, "%s = %v, but there are %d", what, v, n)
			return 0, false
		}
		return i, true
	}
	has := func(o obj, k string) bool { _, ok := o[k]; return ok }

	// ---- buffers / views ----
	views := d.list("bufferViews")
	for i, v := range views {
		vo := asObj(v)
		b, ok := ref(vo["buffer"], true, nOf("buffers"), "gltf.Writer.bufferViews", "bufferView.buffer")
		if !ok {
			continue
		}
		off := 0
		if has(vo, "byteOffset") {
			if off, ok = intOf(vo["byteOffset"]); !ok {
				add("gltf.Writer.bufferViews", clViewRange, "bufferView.byteOffset", "view %d byteOffset %v", i, vo["byteOffset"])
				continue
			}
		}
		ln, ok := intOf(vo["byteLength"])
		if !ok {
			add("gltf.Writer.bufferViews", clViewRange, "bufferView.byteLength", "view %d byteLength %v", i, vo["byteLength"])
			continue
		}
		bl, _ := intOf(asObj(d.list("buffers")[b])["byteLength"])
		if off+ln > bl {
			add("gltf.Writer.bytesWritten", clViewRange, "view-exceeds-buffer", "view %d covers [%d,%d) of a buffer of %d bytes", i, off, off+ln, bl)
		}
		if has(vo, "byteStride") {
			st, ok := intOf(vo["byteStride"])
			if !ok || st < 4 || st > 252 || st%4 != 0 {
				add("gltf.Writer.bufferViews", clAlign, "byteStride", "view %d byteStride %v", i, vo["byteStride"])
			}
		}
	}

	// ---- accessors ----
	r := d.roles()
	accs := d.list("accessors")
	for i := range accs {
		a, why := d.accInfo(i)
		if why != "" {
			cl, class := clSchema, "accessor-fields"
			if strings.HasPrefix(why, "bufferView") {
				cl, class = clIndexRef, "accessor.bufferView"
			}
			add("gltf.Writer.accessors", cl, class, "accessor %d: %s", i, why)
			continue
		}
		if a.View < 0 {
			continue
		}
		cs := compSize[a.Comp]
		elem := cs * a.NComp
		if a.Stride < elem {
			add("gltf.Writer.bufferViews", clAccRange, "stride-below-element", "accessor %d: stride %d < element size %d", i, a.Stride, elem)
			continue
		}
		if a.AccOff+a.span() > a.ViewLen {
			add("gltf.Writer.accessors", clAccRange, "accessor-exceeds-view", "accessor %d needs %d bytes at offset %d of view %d (%d bytes)", i, a.span(), a.AccOff, a.View, a.ViewLen)
		}
		need := cs
		if r.vertexAttr[i] && need < 4 {
			need = 4
		}
		misaligned := a.Abs%need != 0 || a.AccOff%cs != 0
		if r.vertexAttr[i] && a.Stride%4 != 0 {
			add("gltf.Writer.Write*", clAlign, "vertex-attribute stride not a multiple of 4", "accessor %d: stride %d", i, a.Stride)
		}
		if misaligned {
			site, class := d.alignClass(a, r)
			add(site, clAlign, class, "accessor %d (componentType %d, %s) starts at byte %d of buffer %d (view %d at %d + %d), needs alignment %d",
				i, a.Comp, map[bool]string{true: "vertex attribute", false: "non-attribute"}[r.vertexAttr[i]], a.Abs, a.Buffer, a.View, a.ViewOff, a.AccOff, need)
		}
		// declared min/max
		if a.HasMin {
			if len(a.Min) != a.NComp || len(a.Max) != a.NComp {
				add("gltf.Writer.Write*", clMinMax, "min/max length", "accessor %d: %d min and %d max entries for %d components", i, len(a.Min), len(a.Max), a.NComp)
			} else if vals, _, ok := d.Decode(i); ok && a.Count > 0 {
				for c := 0; c < a.NComp; c++ {
					lo, hi := math.Inf(1), math.Inf(-1)
					for k := c; k < len(vals); k += a.NComp {
						if math.IsNaN(vals[k]) {
							continue
						}
						lo, hi = math.Min(lo, vals[k]), math.Max(hi, vals[k])
					}
					dmin, dmax := a.Min[c], a.Max[c]
					if a.Comp == 5126 {
						dmin, dmax = float64(float32(dmin)), float64(float32(dmax))
					}
					if dmin != lo || dmax != hi {
						add("gltf.Writer.Write*", clMinMax, fmt.Sprintf("componentType %d %s", a.Comp, asObj(accs[i])["type"]),
							"accessor %d component %d: declared [%v, %v], decoded [%v, %v]", i, c, a.Min[c], a.Max[c], lo, hi)
						break
					}
				}
			}
		}
	}

	// ---- meshes ----
	for mi, m := range d.list("meshes") {
		prims := asArr(asObj(m)["primitives"])
		if len(prims) == 0 {
			add("gltf.Writer.AddMesh", clSchema, "mesh-without-primitives", "mesh %d", mi)
		}
		for pi, p := range prims {
			po := asObj(p)
			vcount := -1
			names := make([]string, 0, 4)
			for name := range asObj(po["attributes"]) {
				names = append(names, name)
			}
			sort.Strings(names)
			for _, name := range names {
				ai, ok := ref(asObj(po["attributes"])[name], true, len(accs), "gltf.Writer.AddMesh", "primitive.attributes")
				if !ok {
					continue
				}
				a, why := d.accInfo(ai)
				if why != "" {
					continue
				}
				if vcount == -1 {
					vcount = a.Count
				} else if vcount != a.Count {
					add("gltf.Writer.AddMesh", clAttrCount, "attribute-count", "mesh %d primitive %d: %s has count %d, another attribute %d", mi, pi, name, a.Count, vcount)
				}
			}
			if ii, ok := ref(po["indices"], has(po, "indices"), len(accs), "gltf.Writer.AddMesh", "primitive.indices"); ok {
				a, why := d.accInfo(ii)
				if why == "" {
					restart := map[int]float64{5121: 255, 5123: 65535, 5125: 4294967295}[a.Comp]
					if restart == 0 || a.NComp != 1 {
						add("gltf.Writer.WriteIndices", clIndexVal, "index-accessor-type", "mesh %d: index accessor %d has componentType %d with %d components", mi, ii, a.Comp, a.NComp)
					} else if vals, _, ok := d.Decode(ii); ok {
						for k, v := range vals {
							if v == restart {
								add("gltf.Writer.WriteIndices", clIndexVal, fmt.Sprintf("restart-value/componentType %d", a.Comp), "mesh %d: index[%d] = %v is the primitive-restart value", mi, k, v)
								break
							}
							if vcount >= 0 && int(v) >= vcount {
								add("gltf.Writer.WriteIndices", clIndexVal, fmt.Sprintf("index-out-of-range/componentType %d", a.Comp), "mesh %d: index[%d] = %v with %d vertices", mi, k, v, vcount)
								break
							}
						}
					}
				}
			}
			ref(po["material"], has(po, "material"), nOf("materials"), "gltf.Writer.AddMesh", "primitive.material")
		}
	}

	// ---- textures / materials ----
	for _, t := range d.list("textures") {
		to := asObj(t)
		ref(to["source"], has(to, "source"), nOf("images"), "gltf.Writer.AddTexture", "texture.source")
		ref(to["sampler"], has(to, "sampler"), nOf("samplers"), "gltf.Writer.AddTexture", "texture.sampler")
	}
	// every textureInfo anywhere below a material: an object under a key ending in "Texture" with an "index"
	var walkTex func(v any, key string)
	walkTex = func(v any, key string) {
		switch t := v.(type) {
		case map[string]any:
			if strings.HasSuffix(key, "Texture") {
				ref(t["index"], true, nOf("textures"), "gltf.Writer.AddTexture", "textureInfo.index")
			}
			for k, c := range t {
				if k != "extras" {
					walkTex(c, k)
				}
			}
		case []any:
			for _, c := range t {
				walkTex(c, "")
			}
		}
	}
	walkTex(d.Root["materials"], "")

	// ---- nodes / scenes ----
	nLights := len(asArr(asObj(asObj(d.Root["extensions"])["KHR_lights_punctual"])["lights"]))
	for _, n := range d.list("nodes") {
		no := asObj(n)
		ref(no["mesh"], has(no, "mesh"), nOf("meshes"), "gltf.Writer.AddScene", "node.mesh")
		ref(no["skin"], has(no, "skin"), nOf("skins"), "gltf.Writer.AddScene", "node.skin")
		ref(no["camera"], has(no, "camera"), nOf("cameras"), "gltf.Writer.AddScene", "node.camera")
		for _, c := range asArr(no["children"]) {
			ref(c, true, nOf("nodes"), "gltf.Writer.AddScene", "node.children")
		}
		ext := asObj(no["extensions"])
		if gi, ok := ext["EXT_mesh_gpu_instancing"]; ok {
			cnt := -1
			attrs := asObj(asObj(gi)["attributes"])
			names := make([]string, 0, 3)
			for k := range attrs {
				names = append(names, k)
			}
			sort.Strings(names)
			for _, name := range names {
				ai, ok := ref(attrs[name], true, len(accs), "gltf.Writer.AddScene", "EXT_mesh_gpu_instancing.attributes")
				if !ok {
					continue
				}
				if a, why := d.accInfo(ai); why == "" {
					if cnt == -1 {
						cnt = a.Count
					} else if cnt != a.Count {
						add("gltf.Writer.AddScene", clAttrCount, "instance-attribute-count", "instancing attribute %s has count %d, another %d", name, a.Count, cnt)
					}
				}
			}
		}
		if lp, ok := ext["KHR_lights_punctual"]; ok {
			ref(asObj(lp)["light"], true, nLights, "gltf.Writer.AddLight", "KHR_lights_punctual.light")
		}
	}
	for _, s := range d.list("scenes") {
		for _, n := range asArr(asObj(s)["nodes"]) {
			ref(n, true, nOf("nodes"), "gltf.Writer.ToGLTF", "scene.nodes")
		}
	}
	ref(d.Root["scene"], has(d.Root, "scene"), nOf("scenes"), "gltf.Writer.ToGLTF", "scene")

	// ---- extensions ----
	used := map[string]bool{}
	var walk func(v any)
	walk = func(v any) {
		switch t := v.(type) {
		case map[string]any:
			for k, c := range t {
				if k == "extras" {
					continue
				}
				if k == "extensions" {
					for e := range asObj(c) {
						used[e] = true
					}
				}
				walk(c)
			}
		case []any:
			for _, c := range t {
				walk(c)
			}
		}
	}
	walk(map[string]any(d.Root))
	declared := map[string]bool{}
	for _, e := range d.list("extensionsUsed") {
		if s, ok := e.(string); ok {
			declared[s] = true
		}
	}
	var un []string
	for e := range used {
		if !declared[e] {
			un = append(un, e)
		}
	}
	sort.Strings(un)
	for _, e := range un {
		add("gltf.Writer.extensionsUsed", clExtDecl, "undeclared "+e, "extension %s appears in the document but not in extensionsUsed %v", e, d.Root["extensionsUsed"])
	}
	for _, e := range d.list("extensionsRequired") {
		if s, _ := e.(string); !declared[s] {
			add("gltf.Writer.extensionsRequired", clExtDecl, "required-not-used", "extensionsRequired lists %v which is not in extensionsUsed", e)
		}
	}
	return ps
}
