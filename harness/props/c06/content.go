package c06

// Content oracle: what the document says about every model, compared with the reference values
// computed from the scene spec.

import (
	"fmt"
	"math"
	"sort"
	"strings"
)

const (
	clNode  = "every model with a non-empty mesh is exported as exactly one node of the scene, and nothing else is"
	clTRS   = "node transforms equal the model's"
	clInst  = "instance transforms equal the model's"
	clAttr  = "decoded accessors equal the float32/integer image of the model's attributes"
	clIdx   = "decoded indices equal the model's indices"
	clMat   = "every model references a material equal to its own value"
	clShare = "pointer-identical meshes, materials and textures are stored once"
	clLight = "lights equal the scene's"
)

// ---------------------------------------------------------------------------------------------
// canonical material: textures resolved to (image, sampler), glTF defaults filled in
// ---------------------------------------------------------------------------------------------

func deepCopy(v any) any {
	switch t := v.(type) {
	case map[string]any:
		o := make(map[string]any, len(t))
		for k, c := range t {
			o[k] = deepCopy(c)
		}
		return o
	case []any:
		o := make([]any, len(t))
		for i, c := range t {
			o[i] = deepCopy(c)
		}
		return o
	}
	return v
}

func setDefault(o obj, k string, v any) {
	if _, ok := o[k]; !ok {
		o[k] = v
	}
}

func dropEmpty(o obj, k string) {
	if m, ok := o[k].(map[string]any); ok && len(m) == 0 {
		delete(o, k)
	}
}

func f3(a, b, c float64) []any    { return []any{a, b, c} }
func f4(a, b, c, d float64) []any { return []any{a, b, c, d} }
func samplerObj(s [4]int) obj {
	return obj{"magFilter": float64(s[0]), "minFilter": float64(s[1]), "wrapS": float64(s[2]), "wrapT": float64(s[3])}
}
func colorF(c uint8) float64 { return float64(c) / 255 }
func isTexKey(k string) bool { return strings.HasSuffix(k, "Texture") }
func texInfo(tex obj, extra obj) obj {
	o := obj{"texCoord": 0., "texture": tex}
	for k, v := range extra {
		o[k] = v
	}
	return o
}

func (d *Doc) canonTexture(i int) any {
	ts := d.list("textures")
	if i < 0 || i >= len(ts) {
		return fmt.Sprintf("unresolvable texture %d", i)
	}
	t := deepCopy(asObj(ts[i])).(map[string]any)
	dropEmpty(t, "extensions")
	dropEmpty(t, "extras")
	if s, ok := intOf(t["source"]); ok && t["source"] != nil {
		delete(t, "source")
		if imgs := d.list("images"); s < len(imgs) {
			im := deepCopy(asObj(imgs[s])).(map[string]any)
			dropEmpty(im, "extensions")
			dropEmpty(im, "extras")
			t["image"] = im
		} else {
			t["image"] = fmt.Sprintf("unresolvable image %d", s)
		}
	}
	if s, ok := intOf(t["sampler"]); ok && t["sampler"] != nil {
		if sm := d.list("samplers"); s < len(sm) {
			so := deepCopy(asObj(sm[s])).(map[string]any)
			dropEmpty(so, "extensions")
			dropEmpty(so, "extras")
			setDefault(so, "wrapS", 10497.)
			setDefault(so, "wrapT", 10497.)
			t["sampler"] = so
		} else {
			t["sampler"] = fmt.Sprintf("unresolvable sampler %d", s)
		}
	}
	return t
}

// canonTextures replaces every textureInfo below v by its resolved form.
func (d *Doc) canonTextures(v any) {
	switch t := v.(type) {
	case map[string]any:
		for k, c := range t {
			if k == "extras" {
				continue
			}
			if co, ok := c.(map[string]any); ok && isTexKey(k) {
				if idx, ok := intOf(co["index"]); ok {
					delete(co, "index")
					co["texture"] = d.canonTexture(idx)
				}
				setDefault(co, "texCoord", 0.)
				dropEmpty(co, "extensions")
				dropEmpty(co, "extras")
				switch k {
				case "normalTexture":
					setDefault(co, "scale", 1.)
				case "occlusionTexture":
					setDefault(co, "strength", 1.)
				}
			}
			d.canonTextures(c)
		}
	case []any:
		for _, c := range t {
			d.canonTextures(c)
		}
	}
}

func (d *Doc) canonMaterial(i int) any {
	ms := d.list("materials")
	if i < 0 || i >= len(ms) {
		return fmt.Sprintf("unresolvable material %d", i)
	}
	m := deepCopy(asObj(ms[i])).(map[string]any)
	dropEmpty(m, "extensions")
	dropEmpty(m, "extras")
	setDefault(m, "alphaMode", "OPAQUE")
	setDefault(m, "doubleSided", false)
	setDefault(m, "emissiveFactor", f3(0, 0, 0))
	setDefault(m, "pbrMetallicRoughness", obj{})
	if pbr, ok := m["pbrMetallicRoughness"].(map[string]any); ok {
		setDefault(pbr, "baseColorFactor", f4(1, 1, 1, 1))
		setDefault(pbr, "metallicFactor", 1.)
		setDefault(pbr, "roughnessFactor", 1.)
		dropEmpty(pbr, "extensions")
		dropEmpty(pbr, "extras")
	}
	d.canonTextures(m)
	return m
}

func expTexture(key string) obj {
	td := texDefs[key]
	t := obj{"image": obj{"uri": td.uri}}
	if td.sampler != nil {
		t["sampler"] = samplerObj(*td.sampler)
	}
	return t
}

// KHR_texture_transform lives on the textureInfo (the reference), not on the texture object
func expTexInfoExtra(key string) obj {
	if texDefs[key].transform {
		return obj{"extensions": obj{"KHR_texture_transform": obj{"rotation": texRotation}}}
	}
	return nil
}

var expMatCache = func() map[string]obj {
	out := map[string]obj{}
	for id := range matDefs {
		out[id] = buildExpMaterial(id)
	}
	return out
}()

// expMaterial is the canonical form the model's own material must have (read-only).
func expMaterial(id string) obj { return expMatCache[id] }

func buildExpMaterial(id string) obj {
	md := matDefs[id]
	m := obj{
		"name":           "mat",
		"alphaMode":      "OPAQUE",
		"doubleSided":    false,
		"emissiveFactor": f3(0, 0, 0),
		"pbrMetallicRoughness": obj{
			"baseColorFactor":  f4(colorF(baseColor.R), colorF(baseColor.G), colorF(baseColor.B), colorF(baseColor.A)),
			"metallicFactor":   1.,
			"roughnessFactor":  roughness,
			"baseColorTexture": texInfo(expTexture(md.base), expTexInfoExtra(md.base)),
		},
	}
	if md.normal != "" {
		m["normalTexture"] = texInfo(expTexture(md.normal), obj{"scale": 1.})
	}
	if md.occl != "" {
		m["occlusionTexture"] = texInfo(expTexture(md.occl), obj{"strength": 1.})
	}
	if md.extras {
		m["extras"] = obj{"k": "v"}
	}
	if md.ext {
		m["extensions"] = obj{"KHR_materials_dispersion": obj{"dispersion": dispersion}}
	}
	return m
}

// firstDiff returns the path of the first difference (keys in sorted order) or "".
// Colour factors are computed values (8-bit colour → float, rounded by the writer): tolerance 1/255.
func firstDiff(path string, want, got any) string {
	switch w := want.(type) {
	case map[string]any:
		g, ok := got.(map[string]any)
		if !ok {
			return path + ": want object, got " + short(got)
		}
		keys := map[string]bool{}
		for k := range w {
			keys[k] = true
		}
		for k := range g {
			keys[k] = true
		}
		ks := make([]string, 0, len(keys))
		for k := range keys {
			ks = append(ks, k)
		}
		sort.Strings(ks)
		for _, k := range ks {
			wv, wok := w[k]
			gv, gok := g[k]
			if !wok {
				return path + "." + k + ": unexpected " + short(gv)
			}
			if !gok {
				return path + "." + k + ": missing"
			}
			if d := firstDiff(path+"."+k, wv, gv); d != "" {
				return d
			}
		}
		return ""
	case []any:
		g, ok := got.([]any)
		if !ok || len(g) != len(w) {
			return path + ": want " + short(want) + ", got " + short(got)
		}
		for i := range w {
			if d := firstDiff(fmt.Sprintf("%s[%d]", path, i), w[i], g[i]); d != "" {
				return d
			}
		}
		return ""
	case float64:
		g, ok := got.(float64)
		tol := 0.
		if strings.Contains(path, "olorFactor") || strings.HasSuffix(strings.TrimRight(path, "[0123]"), ".color") {
			tol = 1. / 255
		}
		if !ok || math.Abs(g-w) > tol || math.IsNaN(g) {
			return path + ": want " + short(want) + ", got " + short(got)
		}
		return ""
	default:
		if want != got {
			return path + ": want " + short(want) + ", got " + short(got)
		}
		return ""
	}
}

func short(v any) string {
	s := fmt.Sprintf("%v", v)
	if len(s) > 120 {
		s = s[:120] + "…"
	}
	return s
}

// diffPathOnly strips the values from a firstDiff result (used for the class).
func diffPathOnly(d string) string {
	if i := strings.Index(d, ":"); i >= 0 {
		tail := d[i+1:]
		switch {
		case strings.HasPrefix(tail, " missing"):
			return d[:i] + " missing"
		case strings.HasPrefix(tail, " unexpected"):
			return d[:i] + " unexpected"
		}
		return d[:i] + " differs"
	}
	return d
}

// ---------------------------------------------------------------------------------------------
// the content check
// ---------------------------------------------------------------------------------------------

func numArr(v any) ([]float64, bool) {
	a, ok := v.([]any)
	if !ok {
		return nil, false
	}
	out := make([]float64, len(a))
	for i, x := range a {
		f, ok := x.(float64)
		if !ok {
			return nil, false
		}
		out[i] = f
	}
	return out, true
}

func eqBits(a, b []float64) int {
	if len(a) != len(b) {
		return 0
	}
	for i := range a {
		if math.Float64bits(a[i]) != math.Float64bits(b[i]) {
			return i
		}
	}
	return -1
}

type modelObs struct {
	matIdx   int // -1 none
	accKey   string
	texIdx   map[string]int // slot -> texture index
	resolved bool
}

func (d *Doc) reachableNodes() map[int]bool {
	seen := map[int]bool{}
	scenes := d.list("scenes")
	si := 0
	if v, ok := intOf(d.Root["scene"]); ok {
		si = v
	}
	if si >= len(scenes) {
		return seen
	}
	nodes := d.list("nodes")
	var visit func(i int)
	visit = func(i int) {
		if i < 0 || i >= len(nodes) || seen[i] {
			return
		}
		seen[i] = true
		for _, c := range asArr(asObj(nodes[i])["children"]) {
			if ci, ok := intOf(c); ok {
				visit(ci)
			}
		}
	}
	for _, n := range asArr(asObj(scenes[si])["nodes"]) {
		if ni, ok := intOf(n); ok {
			visit(ni)
		}
	}
	return seen
}

// CheckContent compares the document with the scene spec.
func (d *Doc) CheckContent(cs Case) []Problem {
	var ps []Problem
	add := func(site, clause, class, format string, a ...any) {
		ps = append(ps, problem(site, clause, class, format, a...))
	}
	nodes := d.list("nodes")
	reach := d.reachableNodes()
	meshes := d.list("meshes")

	obs := make([]modelObs, len(cs.Models))
	nonEmpty := 0
	for k, ms := range cs.Models {
		obs[k].matIdx = -1
		md, _ := meshDefOf(ms.Mesh)
		name := modelNameOf(cs, k)
		var mine []int
		for ni, n := range nodes {
			if s, _ := asObj(n)["name"].(string); s == name {
				mine = append(mine, ni)
			}
		}
		if md.n == 0 {
			// an empty mesh has nothing to store: no node, or a node without a mesh
			for _, ni := range mine {
				if _, ok := asObj(nodes[ni])["mesh"]; ok {
					add("gltf.Writer.AddScene", clNode, "empty-mesh-model exported with a mesh", "model %d (%s): node %d carries a mesh", k, ms.Mesh, ni)
				}
			}
			continue
		}
		nonEmpty++
		if len(mine) != 1 || !reach[mine[0]] {
			add("gltf.Writer.AddScene", clNode, fmt.Sprintf("model#%d/%d nodes", k, len(mine)), "model %d (%s): %d nodes named %q, reachable from the scene: %v", k, ms.Mesh, len(mine), name, len(mine) == 1 && reach[mine[0]])
			continue
		}
		no := asObj(nodes[mine[0]])

		// ---- node transform ----
		d.checkNodeTRS(no, k, ms, add)

		// ---- instances ----
		d.checkInstances(no, k, ms, add)

		// ---- mesh ----
		mi, ok := intOf(no["mesh"])
		if !ok || no["mesh"] == nil || mi >= len(meshes) {
			add("gltf.Writer.AddScene", clNode, fmt.Sprintf("model#%d without mesh", k), "model %d: node %d has mesh %v", k, mine[0], no["mesh"])
			continue
		}
		prims := asArr(asObj(meshes[mi])["primitives"])
		if len(prims) != 1 {
			// the menu's meshes carry no per-range materials, so there is nothing to split on
			add("gltf.Writer.AddMesh", clAttr, fmt.Sprintf("%s/primitive-count", ms.Mesh), "model %d: mesh %d has %d primitives, the model is one mesh with one material", k, mi, len(prims))
			continue
		}
		po := asObj(prims[0])
		obs[k].resolved = true
		d.checkPrimitive(po, k, ms, md, add, &obs[k])

		// ---- material ----
		d.checkMaterial(po, k, ms, cs, add, obs)
	}

	// nothing else carries a mesh
	meshNodes := 0
	for ni := range nodes {
		if _, ok := asObj(nodes[ni])["mesh"]; ok && reach[ni] {
			meshNodes++
		}
	}
	if meshNodes != nonEmpty {
		add("gltf.Writer.AddScene", clNode, fmt.Sprintf("%d mesh nodes for %d models", meshNodes, nonEmpty), "scene reaches %d nodes with a mesh, the scene has %d models with a non-empty mesh", meshNodes, nonEmpty)
	}

	// ---- sharing ----
	for i := 0; i < len(cs.Models); i++ {
		for j := i + 1; j < len(cs.Models); j++ {
			if !obs[i].resolved || !obs[j].resolved {
				continue
			}
			if cs.Models[i].Mesh == cs.Models[j].Mesh && obs[i].accKey != obs[j].accKey {
				add("gltf.Writer.AddMesh", clShare, "mesh "+cs.Models[i].Mesh+" written twice", "models %d and %d share mesh pointer %s but reference accessors %s and %s", i, j, cs.Models[i].Mesh, obs[i].accKey, obs[j].accKey)
			}
			if cs.Models[i].Mat != "-" && cs.Models[i].Mat == cs.Models[j].Mat && obs[i].matIdx != obs[j].matIdx {
				add("gltf.Writer.AddMaterial", clShare, "material "+cs.Models[i].Mat+" written twice", "models %d and %d share material pointer %s but reference materials %d and %d", i, j, cs.Models[i].Mat, obs[i].matIdx, obs[j].matIdx)
			}
		}
	}
	// same texture pointer -> same texture index, over every slot of every model
	texSeen := map[string]int{}
	texWho := map[string]string{}
	for k := range cs.Models {
		if !obs[k].resolved {
			continue
		}
		slots := make([]string, 0, 3)
		for s := range obs[k].texIdx {
			slots = append(slots, s)
		}
		sort.Strings(slots)
		for _, s := range slots {
			key := slotTexKey(cs.Models[k].Mat, s)
			if key == "" {
				continue
			}
			idx := obs[k].texIdx[s]
			if prev, ok := texSeen[key]; ok && prev != idx {
				add("gltf.Writer.AddTexture", clShare, "texture "+key+" written twice", "texture pointer %s is texture %d for %s and texture %d for model %d %s", key, prev, texWho[key], idx, k, s)
			} else if !ok {
				texSeen[key] = idx
				texWho[key] = fmt.Sprintf("model %d %s", k, s)
			}
		}
	}

	// ---- lights ----
	d.checkLights(cs, reach, add)
	return ps
}

func slotTexKey(mat, slot string) string {
	md, ok := matDefs[mat]
	if !ok {
		return ""
	}
	switch slot {
	case "base":
		return md.base
	case "normal":
		return md.normal
	case "occlusion":
		return md.occl
	}
	return ""
}

type adder func(site, clause, class, format string, a ...any)

func (d *Doc) checkNodeTRS(no obj, k int, ms ModelSpec, add adder) {
	if m, ok := no["matrix"]; ok {
		// a matrix instead of TRS: compare with T·R·S (column-major), computed values → tolerance
		got, ok := numArr(m)
		want := composeTRS(k, ms.TRS)
		bad := !ok || len(got) != 16
		for i := 0; !bad && i < 16; i++ {
			if math.Abs(got[i]-want[i]) > 1e-9*(1+math.Abs(want[i])) {
				bad = true
			}
		}
		if bad {
			add("gltf.Writer.AddScene", clTRS, fmt.Sprintf("matrix/%s/model#%d", trsClass(ms.TRS), k), "model %d: matrix %v, want %v", k, m, want)
		}
		return
	}
	type comp struct {
		key  string
		has  bool
		want []float64
		def  []float64
	}
	t, r, s := modelT(k, ms.TRS), modelR(k, ms.TRS), modelS(k, ms.TRS)
	for _, c := range []comp{
		{"translation", hasT(ms.TRS), t[:], []float64{0, 0, 0}},
		{"rotation", hasR(ms.TRS), r[:], []float64{0, 0, 0, 1}},
		{"scale", hasS(ms.TRS), s[:], []float64{1, 1, 1}},
	} {
		want := c.def
		if c.has {
			want = c.want
		}
		got := c.def
		if v, ok := no[c.key]; ok {
			g, ok := numArr(v)
			if !ok {
				g = nil
			}
			got = g
		}
		if eqBits(want, got) != -1 {
			add("gltf.Writer.AddScene", clTRS, fmt.Sprintf("%s/%s/model#%d", c.key, trsClass(ms.TRS), k), "model %d: node %s = %v, model has %v", k, c.key, no[c.key], want)
		}
	}
}

// composeTRS returns T·R·S in column-major order for the model's transform components.
func composeTRS(k int, sel string) [16]float64 {
	t, q, s := [3]float64{}, [4]float64{0, 0, 0, 1}, [3]float64{1, 1, 1}
	if hasT(sel) {
		t = modelT(k, sel)
	}
	if hasR(sel) {
		q = modelR(k, sel)
	}
	if hasS(sel) {
		s = modelS(k, sel)
	}
	x, y, z, w := q[0], q[1], q[2], q[3]
	r := [3][3]float64{
		{1 - 2*(y*y+z*z), 2 * (x*y - z*w), 2 * (x*z + y*w)},
		{2 * (x*y + z*w), 1 - 2*(x*x+z*z), 2 * (y*z - x*w)},
		{2 * (x*z - y*w), 2 * (y*z + x*w), 1 - 2*(x*x+y*y)},
	}
	var m [16]float64
	for c := 0; c < 3; c++ {
		for rr := 0; rr < 3; rr++ {
			m[4*c+rr] = r[rr][c] * s[c]
		}
	}
	m[12], m[13], m[14], m[15] = t[0], t[1], t[2], 1
	return m
}

func (d *Doc) checkInstances(no obj, k int, ms ModelSpec, add adder) {
	ik := k // whose instance values the model carries
	if ms.SharedInst {
		ik = 0
	}
	gi, present := asObj(no["extensions"])["EXT_mesh_gpu_instancing"]
	class := func(what string) string { return fmt.Sprintf("%s/%d instances/model#%d", what, ms.Inst, k) }
	if ms.Inst == 0 {
		if present {
			for name, ai := range asObj(asObj(gi)["attributes"]) {
				if n, ok := intOf(ai); ok {
					if a, why := d.accInfo(n); why == "" && a.Count > 0 {
						add("gltf.Writer.AddScene", clInst, class("unexpected"), "model %d has no GPU instances but node declares %s with %d elements", k, name, a.Count)
						return
					}
				}
			}
		}
		return
	}
	if !present {
		add("gltf.Writer.AddScene", clInst, class("missing"), "model %d has %d GPU instances, node has no EXT_mesh_gpu_instancing", k, ms.Inst)
		return
	}
	attrs := asObj(asObj(gi)["attributes"])
	type spec struct {
		name string
		w    int
		val  func(j int) []float64
		def  []float64
	}
	for _, sp := range []spec{
		{"TRANSLATION", 3, func(j int) []float64 { v := instT(ik, j); return v[:] }, []float64{0, 0, 0}},
		{"ROTATION", 4, func(j int) []float64 { v := instR(ik, j); return v[:] }, []float64{0, 0, 0, 1}},
		{"SCALE", 3, func(j int) []float64 { v := instS(ik, j); return v[:] }, []float64{1, 1, 1}},
	} {
		want := make([]float64, 0, ms.Inst*sp.w)
		for j := 0; j < ms.Inst; j++ {
			for _, x := range sp.val(j) {
				want = append(want, float64(float32(x)))
			}
		}
		ai, ok := attrs[sp.name]
		if !ok {
			add("gltf.Writer.AddScene", clInst, class(sp.name+" missing"), "model %d: instancing attribute %s absent, instances are not the identity", k, sp.name)
			continue
		}
		n, ok := intOf(ai)
		vals, a, dok := d.Decode(n)
		if !ok || !dok {
			add("gltf.Writer.AddScene", clInst, class(sp.name+" undecodable"), "model %d: instancing attribute %s = %v cannot be decoded", k, sp.name, ai)
			continue
		}
		if a.Comp != 5126 || a.NComp != sp.w {
			add("gltf.Writer.AddScene", clInst, class(sp.name+" type"), "model %d: %s has componentType %d with %d components", k, sp.name, a.Comp, a.NComp)
			continue
		}
		if len(vals) != len(want) {
			add("gltf.Writer.AddScene", clInst, class(sp.name+" count"), "model %d: %s holds %d instances, the model has %d", k, sp.name, a.Count, ms.Inst)
			continue
		}
		if i := eqBits(want, vals); i != -1 {
			add("gltf.Writer.AddScene", clInst, class(sp.name+" values"), "model %d: %s component %d of instance %d is %v, model has %v", k, sp.name, i%sp.w, i/sp.w, vals[i], want[i])
		}
	}
}

func (d *Doc) checkPrimitive(po obj, k int, ms ModelSpec, md meshDef, add adder, ob *modelObs) {
	// mode
	mode := 4
	if v, ok := po["mode"]; ok {
		mode, _ = intOf(v)
	}
	wantMode := 4
	if md.point {
		wantMode = 0
	}
	if mode != wantMode {
		add("gltf.Writer.AddMesh", clIdx, fmt.Sprintf("%s/mode", ms.Mesh), "model %d: primitive mode %d, the mesh topology needs %d", k, mode, wantMode)
	}
	attrs := asObj(po["attributes"])
	var keyParts []string
	wantSem := map[string]bool{}
	for _, a := range md.attrs {
		sem := semantic(a)
		wantSem[sem] = true
		ai, ok := attrs[sem]
		if !ok {
			add("gltf.Writer.AddMesh", clAttr, fmt.Sprintf("%s/%s missing", ms.Mesh, sem), "model %d: attribute %s of mesh %s is not in the primitive", k, sem, ms.Mesh)
			continue
		}
		n, _ := intOf(ai)
		keyParts = append(keyParts, fmt.Sprintf("%s=%d", sem, n))
		vals, acc, ok := d.Decode(n)
		if !ok {
			add("gltf.Writer.AddMesh", clAttr, fmt.Sprintf("%s/%s undecodable", ms.Mesh, sem), "model %d: accessor %v of %s cannot be decoded", k, ai, sem)
			continue
		}
		var want []float64
		if isBig(md.id) {
			bigInit()
			want = bigExp[md.id][a]
		} else {
			want = expectedAttr(md, a)
		}
		wantComp := 5126
		if sem == "JOINTS_0" {
			wantComp = -1 // any unsigned integer type holds the integer image
		}
		if acc.NComp != attrWidth(a) || (wantComp == 5126 && acc.Comp != 5126) || (wantComp == -1 && acc.Comp != 5121 && acc.Comp != 5123) {
			add("gltf.Writer.AddMesh", clAttr, fmt.Sprintf("%s/%s type", ms.Mesh, sem), "model %d: %s has componentType %d with %d components", k, sem, acc.Comp, acc.NComp)
			continue
		}
		if len(vals) != len(want) {
			add("gltf.Writer.AddMesh", clAttr, fmt.Sprintf("%s/%s count/model#%d", ms.Mesh, sem, k), "model %d: %s holds %d elements, the mesh has %d vertices", k, sem, acc.Count, md.n)
			continue
		}
		if i := eqBits(want, vals); i != -1 {
			w := attrWidth(a)
			add("gltf.Writer.AddMesh", clAttr, fmt.Sprintf("%s/%s values/model#%d", ms.Mesh, sem, k), "model %d: %s vertex %d component %d decodes to %v, the model's float32/integer image is %v", k, sem, i/w, i%w, vals[i], want[i])
		}
	}
	var extra []string
	for sem := range attrs {
		if !wantSem[sem] {
			extra = append(extra, sem)
		}
	}
	sort.Strings(extra)
	for _, sem := range extra {
		add("gltf.Writer.AddMesh", clAttr, fmt.Sprintf("%s/%s unexpected", ms.Mesh, sem), "model %d: primitive carries %s which mesh %s does not have", k, sem, ms.Mesh)
	}
	// indices
	if _, ok := po["indices"]; !ok {
		// non-indexed geometry: vertices are consumed in order, so the model's index list must be the identity
		ident := len(md.idx) == md.n
		for i, v := range md.idx {
			if v != i {
				ident = false
			}
		}
		if !ident {
			add("gltf.Writer.AddMesh", clIdx, fmt.Sprintf("%s/no indices", ms.Mesh), "model %d: primitive has no indices but the model's indices are %v", k, md.idx)
		}
		keyParts = append(keyParts, "indices=none")
	} else {
		n, _ := intOf(po["indices"])
		keyParts = append(keyParts, fmt.Sprintf("indices=%d", n))
		vals, _, ok := d.Decode(n)
		if !ok {
			add("gltf.Writer.WriteIndices", clIdx, fmt.Sprintf("%s/undecodable", ms.Mesh), "model %d: index accessor %v cannot be decoded", k, po["indices"])
		} else {
			want := make([]float64, len(md.idx))
			for i, v := range md.idx {
				want[i] = float64(v)
			}
			if len(vals) != len(want) {
				add("gltf.Writer.WriteIndices", clIdx, fmt.Sprintf("%s/count/model#%d", ms.Mesh, k), "model %d: %d indices stored, the model has %d", k, len(vals), len(want))
			} else if i := eqBits(want, vals); i != -1 {
				add("gltf.Writer.WriteIndices", clIdx, fmt.Sprintf("%s/values/model#%d", ms.Mesh, k), "model %d: index %d decodes to %v, the model has %v", k, i, vals[i], want[i])
			}
		}
	}
	ob.accKey = strings.Join(keyParts, ",")
}

func (d *Doc) checkMaterial(po obj, k int, ms ModelSpec, cs Case, add adder, obs []modelObs) {
	ob := &obs[k]
	mv, has := po["material"]
	if ms.Mat == "-" {
		if has {
			add("gltf.Writer.AddMesh", clMat, "nil material/model#"+fmt.Sprint(k), "model %d has no material but its primitive references material %v", k, mv)
		}
		return
	}
	if !has {
		add("gltf.Writer.AddMesh", clMat, ms.Mat+"/no material reference", "model %d has material %s but its primitive references none", k, ms.Mat)
		return
	}
	mi, ok := intOf(mv)
	if !ok || mi >= len(d.list("materials")) {
		return // reported by the structural rules
	}
	ob.matIdx = mi
	// texture indices per slot, for the sharing rule
	ob.texIdx = map[string]int{}
	mo := asObj(d.list("materials")[mi])
	if ti, ok := intOf(asObj(asObj(mo["pbrMetallicRoughness"])["baseColorTexture"])["index"]); ok {
		ob.texIdx["base"] = ti
	}
	if ti, ok := intOf(asObj(mo["normalTexture"])["index"]); ok && mo["normalTexture"] != nil {
		ob.texIdx["normal"] = ti
	}
	if ti, ok := intOf(asObj(mo["occlusionTexture"])["index"]); ok && mo["occlusionTexture"] != nil {
		ob.texIdx["occlusion"] = ti
	}
	want := expMaterial(ms.Mat)
	got := d.canonMaterial(mi)
	if diff := firstDiff("material", want, got); diff != "" {
		// whose entry is it? an earlier model with another material value that was given the same index
		site := "gltf.Writer.AddMaterial"
		other := ""
		for j := 0; j < k; j++ {
			if oj := cs.Models[j]; oj.Mat != "-" && oj.Mat != ms.Mat && obs[j].resolved && obs[j].matIdx == mi {
				if firstDiff("material", expMaterial(oj.Mat), got) == "" {
					site, other = "gltf.PolyformMaterial.equal", oj.Mat
					break
				}
			}
		}
		class := ms.Mat + ": " + diffPathOnly(diff)
		if other != "" {
			_ = other
			class = "shares the entry of a model whose material has another value: " + diffPathOnly(diff)
		}
		add(site, clMat, class, "model %d (material %s) references material %d; %s", k, ms.Mat, mi, diff)
	}
}

func (d *Doc) checkLights(cs Case, reach map[int]bool, add adder) {
	lights := asArr(asObj(asObj(d.Root["extensions"])["KHR_lights_punctual"])["lights"])
	var lightNodes []obj
	for ni, n := range d.list("nodes") {
		if _, ok := asObj(asObj(n)["extensions"])["KHR_lights_punctual"]; ok && reach[ni] {
			lightNodes = append(lightNodes, asObj(n))
		}
	}
	if len(lights) != cs.Lights || len(lightNodes) != cs.Lights {
		add("gltf.Writer.AddLight", clLight, fmt.Sprintf("%d lights", cs.Lights), "scene has %d lights; document defines %d and places %d", cs.Lights, len(lights), len(lightNodes))
		return
	}
	for l := 0; l < cs.Lights; l++ {
		want := obj{"type": "point", "intensity": lightIntensity,
			"color": f3(colorF(lightColor.R), colorF(lightColor.G), colorF(lightColor.B))}
		got := deepCopy(asObj(lights[l])).(map[string]any)
		setDefault(got, "color", f3(1, 1, 1))
		setDefault(got, "intensity", 1.)
		if diff := firstDiff("light", want, got); diff != "" {
			add("gltf.KHR_LightsPunctual.ToExtension", clLight, "definition: "+diffPathOnly(diff), "light %d: %s", l, diff)
		}
		// the node that places light l
		found := false
		for _, n := range lightNodes {
			if li, ok := intOf(asObj(asObj(n["extensions"])["KHR_lights_punctual"])["light"]); ok && li == l {
				found = true
				got := []float64{0, 0, 0}
				if v, ok := n["translation"]; ok {
					got, _ = numArr(v)
				}
				if eqBits(lightPos[:], got) != -1 {
					add("gltf.Writer.AddLight", clLight, "position", "light %d placed at %v, scene has %v", l, n["translation"], lightPos)
				}
			}
		}
		if !found {
			add("gltf.Writer.AddLight", clLight, "unplaced", "no node references light %d", l)
		}
	}
}

// trsClass: the transform selector as it appears in violation classes (ladder rungs collapse).
func trsClass(sel string) string {
	if _, ok := ladderRung(sel); ok {
		return "value-ladder"
	}
	return sel
}
