// Package c06: glTF/GLB output is structurally loadable and carries exactly the scene data
// (DESIGN §4 C06). Every scene of a finite menu product is written with gltf.WriteText and
// gltf.WriteBinary, parsed by an independent reader (reader.go) that applies the structural rules of
// the specification, and compared with reference values computed from the scene spec (content.go).
package c06

import (
	"bytes"
	"encoding/json"
	"fmt"

	"github.com/EliCDavis/polyform/formats/gltf"
	"github.com/EliCDavis/polyform/generator/artifact"
	"github.com/EliCDavis/polyform/nodes"

	"verif/harness/core"
)

func init() { core.Register(core.Check{ID: "C06", Run: run, Replay: replay}) }

type checker struct{ c *core.Ctx }

// report records every problem of one case; the detail string is only kept while the group still
// stores examples.
func (k checker) report(ps []Problem, cs Case) {
	for _, p := range ps {
		v := core.Violation{Site: p.Site, Clause: p.Clause, Class: p.Class}
		if g := k.c.R.Violations[v.Key()]; g == nil || len(g.First) < 3 {
			v.Detail, v.Case = p.Detail(), cs
		}
		k.c.Violate(v)
	}
}

// execute runs one case on the real writer and returns the outcome label and the problems found.
func execute(cs Case) (string, []Problem) {
	scene := Build(cs)
	var buf bytes.Buffer
	var err error
	o := core.Guard(func() {
		if cs.GLB {
			err = gltf.WriteBinary(scene, &buf)
		} else {
			err = gltf.WriteText(scene, &buf)
		}
	})
	fn := "gltf.WriteText"
	if cs.GLB {
		fn = "gltf.WriteBinary"
	}
	if o.Crash() {
		site := core.TopFrame(o.Stack)
		if site == "" {
			site = fn
		}
		return "crash", []Problem{problem(site, "writing a scene does not crash", "runtime panic", "%s @ %s", o.Msg, o.Stack)}
	}
	if o.Panicked || err != nil {
		// an explicit refusal produces no file, so there is nothing the property constrains
		return "reported-failure", nil
	}
	d, ps := Parse(buf.Bytes(), cs.GLB)
	if d == nil {
		return "unparsable", ps
	}
	// the node-graph entry point (gltf.ArtifactNode: models only, GLB) writes the same document
	if cs.GLB && cs.Lights == 0 && len(cs.Models) > 0 {
		var nb bytes.Buffer
		var nerr error
		g := core.Guard(func() {
			sc2 := Build(cs)
			var outs []nodes.NodeOutput[gltf.PolyformModel]
			for _, m := range sc2.Models {
				outs = append(outs, nodes.Value(m).Out())
			}
			var art artifact.Artifact
			if art, nerr = (gltf.ArtifactNodeData{Models: outs}).Process(); nerr == nil {
				nerr = art.Write(&nb)
			}
		})
		if g.Panicked || nerr != nil || !bytes.Equal(normExt(nb.Bytes()), normExt(buf.Bytes())) {
			ps = append(ps, problem("gltf.ArtifactNodeData.Process", "the node-graph entry point writes the document gltf.WriteBinary writes", "artifact-node", "artifact wrote %d bytes, WriteBinary %d (or other content) %s %v", nb.Len(), buf.Len(), g.Msg, nerr))
		}
	}
	ps = append(ps, d.Validate()...)
	ps = append(ps, d.CheckContent(cs)...)
	if len(ps) == 0 {
		return "ok", nil
	}
	onlyAlign := true
	for _, p := range ps {
		if p.Clause != clAlign {
			onlyAlign = false
		}
	}
	if onlyAlign {
		return "misaligned-only", ps
	}
	return "mismatch", ps
}

func (k checker) one(scope string, cs Case) {
	out, ps := execute(cs)
	k.c.Eval(scope, out)
	k.report(ps, cs)
	nonEmpty := false
	for _, m := range cs.Models {
		if d, _ := meshDefOf(m.Mesh); d.n > 0 {
			nonEmpty = true
		}
	}
	if nonEmpty {
		k.c.Nontrivial(cs.key())
	}
	k.c.Sample(scope, cs)
}

// options is the product mesh × material × transform × instance count.
func options(meshes, mats, trss []string, insts []int) []ModelSpec {
	var out []ModelSpec
	for _, me := range meshes {
		for _, ma := range mats {
			for _, t := range trss {
				for _, in := range insts {
					out = append(out, ModelSpec{Mesh: me, Mat: ma, TRS: t, Inst: in})
				}
			}
		}
	}
	return out
}

func run(c *core.Ctx) {
	k := checker{c}
	lights := []int{0, 1}
	conts := []bool{false, true}
	// each (models, lights, container) triple is one unit of the shard counter
	each := func(scope string, models []ModelSpec) {
		for _, l := range lights {
			for _, glb := range conts {
				if !c.Next() {
					continue
				}
				k.one(scope, Case{Models: append([]ModelSpec{}, models...), Lights: l, GLB: glb})
			}
		}
	}

	full := options(smallMeshes, matMenu, trsMenu, []int{0, 1, 2})
	c.Bound("menu.meshes.small", smallMeshes)
	c.Bound("menu.meshes.big", bigMeshes)
	c.Bound("menu.materials", matMenu)
	c.Bound("menu.transforms", trsMenu)
	c.Bound("menu.instances", []int{0, 1, 2})
	c.Bound("menu.lights", lights)
	c.Bound("menu.containers", []string{"WriteText", "WriteBinary"})
	c.Bound("options_per_model.full", len(full))

	// ---- 0 and 1 model: full product, big meshes included ----
	each("models=0", nil)
	fullBig := options(bigMeshes, matMenu, trsMenu, []int{0, 1, 2})
	if !c.Thorough() {
		// quick: the large meshes with every material but only the extreme dressings
		fullBig = options(bigMeshes, matMenu, []string{"-", "TRS"}, []int{0, 2})
	}
	c.Bound("options_per_model.big_single", len(fullBig))
	for _, m := range full {
		each("models=1/small", []ModelSpec{m})
	}
	for _, m := range fullBig {
		each("models=1/big", []ModelSpec{m})
	}
	for _, glb := range []bool{false, true} {
		if c.Next() {
			k.uriSpelling(glb)
		}
	}
	c.Bound("uri_spelling", fmt.Sprintf("image URIs %q: the same three-model scene stores the same numbers of textures, images, samplers and materials for each", uriMenu))
	// instance lists that are slices of one array (same first element, other lengths), in both orders
	for _, ab := range [][2]int{{1, 3}, {3, 1}, {2, 4}, {4, 2}, {2, 2}, {1, 4}} {
		for _, meshes := range [][2]string{{"A", "Q"}, {"P", "A"}, {"A", "A"}} {
			each("models=2/instance-lists-share-an-array", []ModelSpec{{Mesh: meshes[0], Mat: "-", TRS: "-", Inst: ab[0], SharedInst: true}, {Mesh: meshes[1], Mat: "M", TRS: "T", Inst: ab[1], SharedInst: true}})
		}
	}
	// names outside ASCII: one and two small models, every material, both containers
	for _, m := range options([]string{"A", "P", "E"}, []string{"-", "M", "Mx"}, []string{"-", "TRS"}, []int{0, 1}) {
		for _, l := range lights {
			for _, glb := range conts {
				if !c.Next() {
					continue
				}
				k.one("models=1/utf8-names", Case{Models: []ModelSpec{m}, Lights: l, GLB: glb, UTF8: true})
				k.one("models=2/utf8-names", Case{Models: []ModelSpec{m, {Mesh: "Q", Mat: "M", TRS: "-", Inst: 0}}, Lights: l, GLB: glb, UTF8: true})
			}
		}
	}
	for _, glb := range conts {
		if c.Next() {
			k.sinks(glb)
		}
	}
	c.Bound("destinations", fmt.Sprintf("three scenes to %d kinds of io.Writer per container; same bytes demanded", len(core.SinkVariants)))
	// one mesh whose payload exceeds 32 MiB (both containers)
	each("models=1/huge", []ModelSpec{{Mesh: "H", Mat: "-", TRS: "-", Inst: 0}})
	c.Bound("menu.meshes.huge", fmt.Sprintf("H: %d positions (%d bytes of payload)", hugeN, hugeN*12))
	// value ladder: every float32 magnitude band through every component of POSITION (and its declared
	// min/max), NORMAL and TEXCOORD_0 of a welded two-triangle mesh and of a point cloud
	for r := range f32Ladder {
		each("models=1/value-ladder", []ModelSpec{{Mesh: fmt.Sprintf("V%d", r), Mat: "-", TRS: "-"}})
		if r%3 == 0 {
			each("models=1/value-ladder", []ModelSpec{{Mesh: fmt.Sprintf("W%d", r), Mat: "M", TRS: "T"}})
		}
	}
	// a float3 attribute with NaN components (the normal of a degenerate triangle), alone and followed by
	// an ordinary model whose views come after it
	for _, ms := range [][]ModelSpec{{{Mesh: "Qn", Mat: "-", TRS: "-"}}, {{Mesh: "Qn", Mat: "M", TRS: "T"}, {Mesh: "A", Mat: "-", TRS: "-"}}, {{Mesh: "O", Mat: "-", TRS: "-"}, {Mesh: "Qn", Mat: "-", TRS: "-", Inst: 1}}} {
		each("models/nan-normal", ms)
	}
	for _, glb := range conts {
		for _, seq := range core.SaveSequences(len(saveScenes)) {
			if c.Next() {
				k.saveOver(seq, glb)
			}
		}
	}
	for _, glb := range conts {
		if c.Next() {
			k.afterFailedWrite(glb)
		}
	}
	c.Bound("files.save_sequences", "every sequence of 1..3 SaveText / SaveBinary calls over three scenes (two models with materials, textures and a light; one plain triangle; the empty scene) to one path; the file must equal the in-memory write of the last")
	for r := range f32Ladder {
		each("models=1/transform-ladder", []ModelSpec{{Mesh: "A", Mat: "-", TRS: fmt.Sprintf("L%d", r)}})
	}
	c.Bound("menu.transforms.value_ladder", fmt.Sprintf("node translation, scale and one rotation component over %d float32 values (tiny, huge, both zeros)", len(f32Ladder)))
	c.Bound("menu.meshes.value_ladder", fmt.Sprintf("%d float32 values (both zeros, subnormals, every binade, integer-width borders, decimal powers) through every attribute component of a 4-vertex mesh", len(f32Ladder)))
	c.Bound("models=1", "complete")

	// ---- 2 models, small meshes: the full product (quick: node transform and instance count are
	// varied one at a time plus the two joint extremes instead of all 15 combinations) ----
	if !c.Thorough() {
		full = nil
		for _, me := range smallMeshes {
			for _, ma := range matMenu {
				for _, t := range trsMenu {
					full = append(full, ModelSpec{Mesh: me, Mat: ma, TRS: t, Inst: 0})
				}
				for _, t := range []string{"-", "TRS"} {
					full = append(full, ModelSpec{Mesh: me, Mat: ma, TRS: t, Inst: 1}, ModelSpec{Mesh: me, Mat: ma, TRS: t, Inst: 2})
				}
			}
		}
	}
	c.Bound("options_per_model.pair", len(full))
	done2 := true
	for _, a := range full {
		if c.Expired() {
			done2 = false
			break
		}
		for _, b := range full {
			each("models=2/small", []ModelSpec{a, b})
		}
	}
	if done2 {
		c.Bound("models=2/small", fmt.Sprintf("complete: %d² ordered pairs × 2 lights × 2 containers", len(full)))
	}

	// ---- 2 models with at least one large mesh: reduced partner menu ----
	bigOpt := options(bigMeshes, []string{"-", "M"}, []string{"-"}, []int{0, 1})
	partner := options([]string{"A", "O", "P", "E"}, []string{"-", "M", "Mn"}, []string{"-"}, []int{0, 1})
	if c.Thorough() {
		bigOpt = options(bigMeshes, []string{"-", "M", "Mn"}, []string{"-"}, []int{0, 1})
		partner = options([]string{"A", "Q", "O", "P", "E"}, []string{"-", "M", "M'", "Mn"}, []string{"-", "TRS"}, []int{0, 1})
	}
	c.Bound("options_per_model.big_pair", len(bigOpt))
	c.Bound("options_per_model.big_partner", len(partner))
	doneB := true
	for _, a := range bigOpt {
		if c.Expired() {
			doneB = false
			break
		}
		for _, b := range partner {
			each("models=2/big", []ModelSpec{a, b})
			each("models=2/big", []ModelSpec{b, a})
		}
		for _, b := range bigOpt {
			each("models=2/big", []ModelSpec{a, b})
		}
	}
	if doneB {
		c.Bound("models=2/big", "complete: (big,partner), (partner,big), (big,big) × 2 lights × 2 containers")
	}

	// ---- 3 models (thorough): reduced per-model menu, full product of it ----
	if c.Thorough() {
		var red []ModelSpec
		for _, me := range smallMeshes {
			for _, ma := range matMenu {
				red = append(red, ModelSpec{Mesh: me, Mat: ma, TRS: "-", Inst: 0}, ModelSpec{Mesh: me, Mat: ma, TRS: "TRS", Inst: 1})
			}
		}
		c.Bound("options_per_model.three", len(red))
		done3 := true
	outer:
		for _, a := range red {
			for _, b := range red {
				if c.Expired() {
					done3 = false
					break outer
				}
				for _, m3 := range red {
					each("models=3/reduced", []ModelSpec{a, b, m3})
				}
			}
		}
		if done3 {
			c.Bound("models=3/reduced", fmt.Sprintf("complete: %d³ ordered triples × 2 lights × 2 containers", len(red)))
		}
	}
	c.Bound("max_models", map[bool]int{false: 2, true: 3}[c.Thorough()])
}

// replay re-executes one recorded scene and records whatever it violates.
func replay(c *core.Ctx) {
	var cs Case
	if err := json.Unmarshal(c.Replay, &cs); err != nil {
		c.HarnessError("bad case: %v", err)
		return
	}
	if len(cs.SaveSeq) == 1 && cs.SaveSeq[0] == -3 {
		checker{c}.sinks(cs.GLB)
		return
	}
	if len(cs.SaveSeq) == 1 && cs.SaveSeq[0] == -2 {
		checker{c}.uriSpelling(cs.GLB)
		return
	}
	if len(cs.SaveSeq) == 1 && cs.SaveSeq[0] == -1 {
		checker{c}.afterFailedWrite(cs.GLB)
		return
	}
	if len(cs.SaveSeq) > 0 {
		checker{c}.saveOver(cs.SaveSeq, cs.GLB)
		return
	}
	for _, m := range cs.Models {
		if _, ok := meshDefOf(m.Mesh); !ok {
			c.HarnessError("unknown mesh %q", m.Mesh)
			return
		}
		if _, ok := matDefs[m.Mat]; !ok && m.Mat != "-" {
			c.HarnessError("unknown material %q", m.Mat)
			return
		}
	}
	checker{c}.one("replay", cs)
}
