package c06

// Self-test of the independent reader: a document produced by the real writer for an aligned scene
// is clean, and every rule fires (with the expected clause / class) when that document is tampered
// with. Guards the oracle against vacuity and checks that different misalignment causes are
// classified differently.

import (
	"bytes"
	"encoding/binary"
	"encoding/json"
	"strings"
	"testing"

	"github.com/EliCDavis/polyform/formats/gltf"
)

// aligned scene: every index view has a byte length that is a multiple of 4
var cleanCase = Case{Models: []ModelSpec{{Mesh: "Q", Mat: "M", TRS: "TRS", Inst: 2}, {Mesh: "P", Mat: "-", TRS: "R", Inst: 1}, {Mesh: "Q", Mat: "Me", TRS: "-", Inst: 0}}, Lights: 1, GLB: true}

func write(t *testing.T, cs Case) []byte {
	t.Helper()
	var buf bytes.Buffer
	var err error
	if cs.GLB {
		err = gltf.WriteBinary(Build(cs), &buf)
	} else {
		err = gltf.WriteText(Build(cs), &buf)
	}
	if err != nil {
		t.Fatal(err)
	}
	return buf.Bytes()
}

func all(d *Doc, ps []Problem, cs Case) []Problem {
	ps = append(ps, d.Validate()...)
	return append(ps, d.CheckContent(cs)...)
}

func TestCleanSceneBothContainers(t *testing.T) {
	for _, glb := range []bool{false, true} {
		cs := cleanCase
		cs.GLB = glb
		d, ps := Parse(write(t, cs), glb)
		if d == nil {
			t.Fatalf("glb=%v unparsable: %+v", glb, ps)
		}
		for _, p := range all(d, ps, cs) {
			t.Errorf("glb=%v: unexpected problem %s | %s | %s: %s", glb, p.Site, p.Clause, p.Class, p.Detail())
		}
	}
}

// tamper parses a clean GLB, lets f edit JSON root and payload, and returns all problems.
func tamper(t *testing.T, f func(root obj, bin []byte)) []Problem {
	t.Helper()
	d, ps := Parse(write(t, cleanCase), true)
	if d == nil || len(ps) != 0 {
		t.Fatalf("baseline not clean: %+v", ps)
	}
	bin := append([]byte{}, d.Buffers[0]...)
	f(d.Root, bin)
	// round-trip the JSON so that edits use the same value types as a parsed document
	js, err := json.Marshal(d.Root)
	if err != nil {
		t.Fatal(err)
	}
	var root obj
	if err := json.Unmarshal(js, &root); err != nil {
		t.Fatal(err)
	}
	d2 := &Doc{Root: root, Buffers: [][]byte{bin}, GLB: true}
	return all(d2, nil, cleanCase)
}

func expect(t *testing.T, name string, ps []Problem, clause, classPart string) {
	t.Helper()
	for _, p := range ps {
		if p.Clause == clause && strings.Contains(p.Class, classPart) {
			return
		}
	}
	var got []string
	for _, p := range ps {
		got = append(got, p.Clause+" | "+p.Class)
	}
	t.Errorf("%s: no problem with clause %q and class containing %q; got %v", name, clause, classPart, got)
}

func TestEveryRuleFires(t *testing.T) {
	list := func(r obj, k string, i int) obj { return asObj(asArr(r[k])[i]) }
	expect(t, "view offset shifted", tamper(t, func(r obj, _ []byte) { list(r, "bufferViews", 1)["byteOffset"] = 50. }), clAlign, classRunningOffset)
	expect(t, "buffer too short", tamper(t, func(r obj, _ []byte) {
		b := list(r, "buffers", 0)
		b["byteLength"] = b["byteLength"].(float64) - 4
	}), clViewRange, "view-exceeds-buffer")
	expect(t, "accessor count", tamper(t, func(r obj, _ []byte) { list(r, "accessors", 0)["count"] = 5. }), clAccRange, "accessor-exceeds-view")
	expect(t, "accessor count", tamper(t, func(r obj, _ []byte) { list(r, "accessors", 0)["count"] = 3. }), clAttrCount, "attribute-count")
	expect(t, "accessor byteOffset", tamper(t, func(r obj, _ []byte) {
		a := list(r, "accessors", 0)
		a["byteOffset"], a["count"] = 2., 3.
	}), clAlign, "accessor byteOffset")
	expect(t, "min", tamper(t, func(r obj, _ []byte) {
		a := list(r, "accessors", 0)
		a["min"].([]any)[1] = a["min"].([]any)[1].(float64) - 1
	}), clMinMax, "5126 VEC3")
	expect(t, "payload float", tamper(t, func(r obj, bin []byte) { bin[2] ^= 0x40 }), clAttr, "values")
	// the index accessor of mesh 0 is accessor 3 (three attributes first)
	expect(t, "index value", tamper(t, func(r obj, bin []byte) {
		v := list(r, "bufferViews", 3)
		binary.LittleEndian.PutUint16(bin[int(v["byteOffset"].(float64)):], 4)
	}), clIndexVal, "index-out-of-range")
	expect(t, "restart value", tamper(t, func(r obj, bin []byte) {
		v := list(r, "bufferViews", 3)
		binary.LittleEndian.PutUint16(bin[int(v["byteOffset"].(float64)):], 65535)
	}), clIndexVal, "restart-value")
	expect(t, "index content", tamper(t, func(r obj, bin []byte) {
		v := list(r, "bufferViews", 3)
		binary.LittleEndian.PutUint16(bin[int(v["byteOffset"].(float64)):], 3)
	}), clIdx, "values")
	expect(t, "attribute ref", tamper(t, func(r obj, _ []byte) {
		asObj(asObj(asArr(list(r, "meshes", 0)["primitives"])[0])["attributes"])["POSITION"] = 99.
	}), clIndexRef, "primitive.attributes")
	expect(t, "material ref", tamper(t, func(r obj, _ []byte) { asObj(asArr(list(r, "meshes", 0)["primitives"])[0])["material"] = 7. }), clIndexRef, "primitive.material")
	expect(t, "node mesh ref", tamper(t, func(r obj, _ []byte) { list(r, "nodes", 0)["mesh"] = 9. }), clIndexRef, "node.mesh")
	expect(t, "scene node ref", tamper(t, func(r obj, _ []byte) { list(r, "scenes", 0)["nodes"] = []any{0., 1., 2., 3., 17.} }), clIndexRef, "scene.nodes")
	expect(t, "texture ref", tamper(t, func(r obj, _ []byte) {
		asObj(asObj(list(r, "materials", 0)["pbrMetallicRoughness"])["baseColorTexture"])["index"] = 4.
	}), clIndexRef, "textureInfo.index")
	expect(t, "image ref", tamper(t, func(r obj, _ []byte) { list(r, "textures", 0)["source"] = 3. }), clIndexRef, "texture.source")
	expect(t, "sampler ref", tamper(t, func(r obj, _ []byte) { list(r, "textures", 0)["sampler"] = 3. }), clIndexRef, "texture.sampler")
	expect(t, "view buffer ref", tamper(t, func(r obj, _ []byte) { list(r, "bufferViews", 0)["buffer"] = 1. }), clIndexRef, "bufferView.buffer")
	expect(t, "accessor view ref", tamper(t, func(r obj, _ []byte) { list(r, "accessors", 0)["bufferView"] = 77. }), clIndexRef, "accessor.bufferView")
	expect(t, "light ref", tamper(t, func(r obj, _ []byte) {
		n := asArr(r["nodes"])
		asObj(asObj(asObj(n[len(n)-1])["extensions"])["KHR_lights_punctual"])["light"] = 1.
	}), clIndexRef, "KHR_lights_punctual.light")
	expect(t, "extensionsUsed dropped", tamper(t, func(r obj, _ []byte) { r["extensionsUsed"] = []any{"KHR_lights_punctual", "KHR_materials_dispersion"} }), clExtDecl, "undeclared EXT_mesh_gpu_instancing")
	expect(t, "required not used", tamper(t, func(r obj, _ []byte) { r["extensionsRequired"] = []any{"KHR_draco_mesh_compression"} }), clExtDecl, "required-not-used")
	expect(t, "node translation", tamper(t, func(r obj, _ []byte) { list(r, "nodes", 0)["translation"].([]any)[2] = 0. }), clTRS, "translation")
	expect(t, "node rotation order", tamper(t, func(r obj, _ []byte) {
		q := list(r, "nodes", 0)["rotation"].([]any)
		q[0], q[3] = q[3], q[0]
	}), clTRS, "rotation")
	expect(t, "instance count", tamper(t, func(r obj, _ []byte) {
		gi := asObj(asObj(list(r, "nodes", 0)["extensions"])["EXT_mesh_gpu_instancing"])
		ai := int(asObj(gi["attributes"])["SCALE"].(float64))
		list(r, "accessors", ai)["count"] = 1.
	}), clInst, "SCALE count")
	expect(t, "instance attr count", tamper(t, func(r obj, _ []byte) {
		gi := asObj(asObj(list(r, "nodes", 0)["extensions"])["EXT_mesh_gpu_instancing"])
		ai := int(asObj(gi["attributes"])["SCALE"].(float64))
		list(r, "accessors", ai)["count"] = 1.
	}), clAttrCount, "instance-attribute-count")
	expect(t, "material value", tamper(t, func(r obj, _ []byte) { delete(list(r, "materials", 1), "extensions") }), clMat, "material.extensions missing")
	expect(t, "material sampler", tamper(t, func(r obj, _ []byte) { list(r, "samplers", 0)["wrapS"] = 10497. }), clMat, "sampler.wrapS")
	expect(t, "mesh written twice", tamper(t, func(r obj, _ []byte) {
		// third model shares mesh Q with the first: point its primitive at other accessors
		asObj(asArr(list(r, "meshes", 2)["primitives"])[0])["indices"] = 0.
	}), clShare, "mesh Q written twice")
	expect(t, "node dropped", tamper(t, func(r obj, _ []byte) { list(r, "scenes", 0)["nodes"] = []any{0., 2., 3.} }), clNode, "model#1")
	expect(t, "light moved", tamper(t, func(r obj, _ []byte) {
		n := asArr(r["nodes"])
		asObj(n[len(n)-1])["translation"] = []any{0., 0., 0.}
	}), clLight, "position")
	expect(t, "mode", tamper(t, func(r obj, _ []byte) { delete(asObj(asArr(list(r, "meshes", 1)["primitives"])[0]), "mode") }), clIdx, "P/mode")
}

func glbProblems(t *testing.T, f func(b []byte) []byte) []Problem {
	t.Helper()
	_, ps := Parse(f(write(t, cleanCase)), true)
	return ps
}

func TestContainerRules(t *testing.T) {
	expect(t, "total length", glbProblems(t, func(b []byte) []byte { binary.LittleEndian.PutUint32(b[8:], uint32(len(b)+4)); return b }), clContainer, "glb-total-length")
	expect(t, "truncated", glbProblems(t, func(b []byte) []byte { return b[:len(b)-4] }), clContainer, "glb-")
	expect(t, "json chunk length", glbProblems(t, func(b []byte) []byte {
		binary.LittleEndian.PutUint32(b[12:], binary.LittleEndian.Uint32(b[12:])-1)
		return b
	}), clContainer, "glb-chunk-padding")
	expect(t, "magic", glbProblems(t, func(b []byte) []byte { b[0] = 'x'; return b }), clContainer, "glb-header")
	expect(t, "bin chunk type", glbProblems(t, func(b []byte) []byte {
		jl := int(binary.LittleEndian.Uint32(b[12:]))
		b[20+jl+4] = 'X'
		return b
	}), clContainer, "glb-bin-missing")
	// text container: payload shorter than declared
	cs := cleanCase
	cs.GLB = false
	txt := string(write(t, cs))
	i := strings.Index(txt, "base64,")
	short := txt[:i+7] + txt[i+7+8:]
	_, ps := Parse([]byte(short), false)
	expect(t, "base64 short", ps, clContainer, "buffer-byteLength")
}

// Two different causes of a misaligned float view must land in different classes.
func TestMisalignmentClasses(t *testing.T) {
	// the writer's own layout: 3 uint16 indices (6 bytes) followed by the next mesh's positions
	cs := Case{Models: []ModelSpec{{Mesh: "A", Mat: "-", TRS: "-", Inst: 0}, {Mesh: "A'", Mat: "-", TRS: "-", Inst: 0}}, GLB: true}
	d, ps := Parse(write(t, cs), true)
	ps = all(d, ps, cs)
	for _, p := range ps {
		if p.Clause != clAlign || p.Class != classAfterOddIndexView || p.Site != "gltf.Writer.WriteIndices" {
			t.Errorf("unexpected problem %s | %s | %s: %s", p.Site, p.Clause, p.Class, p.Detail())
		}
	}
	if len(ps) == 0 {
		t.Skip("writer pads index views on this tree: the known finding is gone")
	}
	// same scene, but the culprit is made a 1-byte index view of 3 bytes: another class
	d, _ = Parse(write(t, cs), true)
	views := d.list("bufferViews")
	asObj(d.list("accessors")[2])["componentType"] = 5121.
	asObj(views[2])["byteLength"] = 3.
	for i := 3; i < len(views); i++ {
		v := asObj(views[i])
		v["byteOffset"] = v["byteOffset"].(float64) - 3
	}
	found := false
	for _, p := range d.Validate() {
		if p.Clause == clAlign {
			if p.Class == classAfterOddIndexView {
				t.Errorf("1-byte index culprit classified as the known finding")
			}
			if strings.Contains(p.Class, "1-byte index") {
				found = true
			}
		}
	}
	if !found {
		t.Errorf("no misalignment attributed to the 1-byte index view")
	}
}
