package c06

// Scope "uri-spelling": how often a texture, its image and its sampler are stored must not depend on
// which characters the image URI is made of.  A scene of three models — two materials that are
// different objects holding value-equal textures behind different pointers, and a third model that
// re-uses the first material — is written once per URI of a menu (plain, with a blank, with non-ASCII
// letters, with characters that are reserved in URIs, already percent-encoded).  Demanded: the
// numbers of textures / images / samplers / materials are those of the plain URI; every material's
// base-colour texture resolves to an image whose URI is the given one (literally or
// percent-encoded: glTF asks writers to encode, so both are right); the pointer-shared material is
// stored once.  What the writer does with value-equal textures behind different pointers (merge or
// keep apart) is its own choice — but the same choice for every spelling.

import (
	"bytes"
	"encoding/json"
	"fmt"
	"net/url"

	"github.com/EliCDavis/polyform/formats/gltf"

	"verif/harness/core"
)

var uriMenu = []string{"t.png", "wood floor.png", "holz/böden.png", "a%20b.png", "q&x=1,(2).png", "dir with blank/t.png", "\"quoted\".png"}

type uriCounts struct{ textures, images, samplers, materials int }

func uriScene(uri string) gltf.PolyformScene {
	mk := func() *gltf.PolyformTexture {
		return &gltf.PolyformTexture{URI: uri, Sampler: &gltf.Sampler{MagFilter: 9729, MinFilter: 9987, WrapS: 33071, WrapT: 33648}}
	}
	mat := func(t *gltf.PolyformTexture) *gltf.PolyformMaterial {
		r := roughness
		return &gltf.PolyformMaterial{Name: "mat", PbrMetallicRoughness: &gltf.PolyformPbrMetallicRoughness{BaseColorFactor: baseColor, RoughnessFactor: &r, BaseColorTexture: t}}
	}
	m1, m2 := mat(mk()), mat(mk())
	m2.Name = "other" // not mergeable with m1: only the textures are value-equal
	d, _ := meshDefOf("A")
	mesh := buildMesh(d)
	return gltf.PolyformScene{Models: []gltf.PolyformModel{
		{Name: "m0", Mesh: mesh, Material: m1},
		{Name: "m1", Mesh: mesh, Material: m2},
		{Name: "m2", Mesh: mesh, Material: m1},
	}}
}

func uriMeasure(uri string, glb bool) (uc uriCounts, why string) {
	var buf bytes.Buffer
	var err error
	o := core.Guard(func() {
		if glb {
			err = gltf.WriteBinary(uriScene(uri), &buf)
		} else {
			err = gltf.WriteText(uriScene(uri), &buf)
		}
	})
	if o.Panicked || err != nil {
		return uc, fmt.Sprintf("writing failed: %s %v", o.Msg, err)
	}
	js := buf.Bytes()
	if glb {
		if len(js) < 20 {
			return uc, "binary container too short"
		}
		n := int(js[12]) | int(js[13])<<8 | int(js[14])<<16 | int(js[15])<<24
		if 20+n > len(js) {
			return uc, "binary container: JSON chunk length exceeds the file"
		}
		js = js[20 : 20+n]
	}
	var doc struct {
		Textures  []struct{ Source, Sampler *int }
		Images    []struct{ URI string }
		Samplers  []json.RawMessage
		Materials []struct {
			Name string
			Pbr  struct {
				BaseColorTexture *struct{ Index int }
			} `json:"pbrMetallicRoughness"`
		}
		Meshes []struct {
			Primitives []struct{ Material *int }
		}
	}
	if e := json.Unmarshal(js, &doc); e != nil {
		return uc, "the document is not JSON: " + e.Error()
	}
	uc = uriCounts{len(doc.Textures), len(doc.Images), len(doc.Samplers), len(doc.Materials)}
	for i, m := range doc.Materials {
		if m.Pbr.BaseColorTexture == nil {
			return uc, fmt.Sprintf("material %d has no base colour texture", i)
		}
		ti := m.Pbr.BaseColorTexture.Index
		if ti < 0 || ti >= len(doc.Textures) || doc.Textures[ti].Source == nil || *doc.Textures[ti].Source < 0 || *doc.Textures[ti].Source >= len(doc.Images) {
			return uc, fmt.Sprintf("material %d: texture %d does not resolve to an image", i, ti)
		}
		got := doc.Images[*doc.Textures[ti].Source].URI
		dec, derr := url.PathUnescape(got)
		if got != uri && !(derr == nil && dec == uri) {
			return uc, fmt.Sprintf("material %d resolves to image URI %q, the texture was given %q", i, got, uri)
		}
	}
	return uc, ""
}

func (k checker) uriSpelling(glb bool) {
	cs := Case{GLB: glb, SaveSeq: []int{-2}}
	scope := "uri-spelling"
	k.c.Nontrivial("uri-spelling", glb)
	ref, why := uriMeasure(uriMenu[0], glb)
	if why != "" {
		k.c.Eval(scope, "reference-failed")
		return
	}
	for _, u := range uriMenu[1:] {
		got, why := uriMeasure(u, glb)
		if why == "" && got != ref {
			why = fmt.Sprintf("stored %d textures / %d images / %d samplers / %d materials; with the URI %q the same scene stores %d / %d / %d / %d", got.textures, got.images, got.samplers, got.materials, uriMenu[0], ref.textures, ref.images, ref.samplers, ref.materials)
		}
		if why != "" {
			k.c.Eval(scope, "mismatch")
			k.c.Violate(core.Violation{Site: "gltf.Writer.AddTexture", Clause: "textures shared between models are stored once and referenced consistently (whatever characters the image URI is made of)", Class: "uri-spelling",
				Detail: fmt.Sprintf("image URI %q: %s", u, why), Case: cs})
			return
		}
		k.c.Eval(scope, "ok")
	}
}
