package c06

// The scene menu of DESIGN §4 C06: replayable scene specs, the builder that turns a spec into a
// fresh gltf.PolyformScene (fresh pointers per scene, so "same pointer" means "same within this
// scene"), and the expected values of the reference model (computed from the spec by the formulas
// below, never read back from the library's structures).

import (
	"fmt"
	"image/color"
	"math"
	"strconv"
	"sync"

	"github.com/EliCDavis/polyform/formats/gltf"
	"github.com/EliCDavis/polyform/math/quaternion"
	"github.com/EliCDavis/polyform/math/trs"
	"github.com/EliCDavis/polyform/modeling"
	"github.com/EliCDavis/vector/vector2"
	"github.com/EliCDavis/vector/vector3"
	"github.com/EliCDavis/vector/vector4"

	"verif/harness/core"
)

type ModelSpec struct {
	Mesh string `json:"mesh"`
	Mat  string `json:"mat"`
	TRS  string `json:"trs"`
	Inst int    `json:"inst"`
	// SharedInst: the model's instance list is a prefix (of length Inst) of one array that every such
	// model of the scene slices — same first element, different lengths
	SharedInst bool `json:"shared_inst,omitempty"`
}

type Case struct {
	Models []ModelSpec `json:"models"`
	Lights int         `json:"lights"`
	GLB    bool        `json:"glb"`
	// SaveSeq: a sequence of SaveText / SaveBinary calls of saveScenes[i] to one path (saveover.go)
	SaveSeq []int `json:"save_seq,omitempty"`
	// UTF8: model names carry non-ASCII letters
	UTF8 bool `json:"utf8,omitempty"`
}

func (cs Case) key() string {
	s := fmt.Sprintf("L%d/glb=%v", cs.Lights, cs.GLB)
	if cs.UTF8 {
		s += "/utf8"
	}
	for _, m := range cs.Models {
		s += fmt.Sprintf("|%s,%s,%s,%d", m.Mesh, m.Mat, m.TRS, m.Inst)
		if m.SharedInst {
			s += "s"
		}
	}
	return s
}

// ---------------------------------------------------------------------------------------------
// meshes
// ---------------------------------------------------------------------------------------------

type meshDef struct {
	id    string
	seed  int // value seed: A and A' share it (equal by value, different pointer)
	point bool
	n     int
	idx   []int
	attrs []string // polyform attribute names
}

var (
	triA  = []int{0, 1, 2}                   // 3 indices: 6 bytes as uint16 (not a multiple of 4)
	quadQ = []int{0, 1, 2, 2, 1, 3}          // 6 indices: 12 bytes
	oddO  = []int{4, 0, 1, 1, 2, 3, 3, 4, 0} // 9 indices: 18 bytes, not the identity order
	pntP  = []int{2, 0, 3, 1}                // 4 points: 8 bytes, not the identity order
)

func bigIdx(n int) []int { return []int{0, 1, n - 1, n - 1, n - 2, 2} }

var meshMenu = map[string]meshDef{
	"A":  {id: "A", seed: 1, n: 3, idx: triA, attrs: []string{modeling.PositionAttribute, modeling.TexCoordAttribute}},
	"A'": {id: "A'", seed: 1, n: 3, idx: triA, attrs: []string{modeling.PositionAttribute, modeling.TexCoordAttribute}},
	"Q":  {id: "Q", seed: 2, n: 4, idx: quadQ, attrs: []string{modeling.PositionAttribute, modeling.NormalAttribute, modeling.ColorAttribute}},
	"O":  {id: "O", seed: 3, n: 5, idx: oddO, attrs: []string{modeling.PositionAttribute, modeling.JointAttribute, modeling.WeightAttribute}},
	"P":  {id: "P", seed: 4, point: true, n: 4, idx: pntP, attrs: []string{modeling.PositionAttribute, modeling.ColorAttribute}},
	"E":  {id: "E", seed: 5, n: 0},
	"Qn": {id: "Qn", seed: nanSeed, n: 4, idx: quadQ, attrs: []string{modeling.PositionAttribute, modeling.NormalAttribute, modeling.ColorAttribute}},
	// index-width threshold: the last vertex is referenced, so a 16-bit index of a 65 536/65 537-vertex
	// mesh would be the restart value / wrap around
	"B65535": {id: "B65535", seed: 6, n: 65535, idx: bigIdx(65535), attrs: []string{modeling.PositionAttribute, modeling.TexCoordAttribute}},
	"B65536": {id: "B65536", seed: 7, n: 65536, idx: bigIdx(65536), attrs: []string{modeling.PositionAttribute, modeling.TexCoordAttribute}},
	"B65537": {id: "B65537", seed: 8, n: 65537, idx: bigIdx(65537), attrs: []string{modeling.PositionAttribute, modeling.TexCoordAttribute}},
	// payload threshold: 2 796 203 positions are 33 554 436 bytes — the first count whose binary payload
	// exceeds 32 MiB (a writer that stages, encodes or copies the payload in blocks shows there)
	"H": {id: "H", seed: 9, n: hugeN, idx: bigIdx(hugeN), attrs: []string{modeling.PositionAttribute}},
}

const hugeN = 2796203

// meshDefOf resolves a mesh id: a menu entry, or a value-ladder mesh "V<r>" — a welded two-triangle
// mesh (and "W<r>", a point cloud) whose Position, Normal and TexCoord components are consecutive
// rungs of the float32 ladder starting at rung r (scene.go: attrVal).
func meshDefOf(id string) (meshDef, bool) {
	if d, ok := meshMenu[id]; ok {
		return d, true
	}
	if len(id) > 1 && (id[0] == 'V' || id[0] == 'W') {
		r, err := strconv.Atoi(id[1:])
		if err != nil || r < 0 {
			return meshDef{}, false
		}
		d := meshDef{id: id, seed: ladderSeed + r, n: 4, idx: quadQ, attrs: []string{modeling.PositionAttribute, modeling.NormalAttribute, modeling.TexCoordAttribute}}
		if id[0] == 'W' {
			d.point, d.idx, d.attrs = true, pntP, []string{modeling.PositionAttribute, modeling.TexCoordAttribute}
		}
		return d, true
	}
	return meshDef{}, false
}

const ladderSeed = 1 << 20

// nanSeed: mesh "Qn", the quad Q whose last vertex carries a normal with NaN components
const nanSeed = 77

var f32Ladder = core.Float32Ladder()

var smallMeshes = []string{"A", "A'", "Q", "O", "P", "E"}
var bigMeshes = []string{"B65535", "B65536", "B65537"}

func isBig(id string) bool { return len(id) > 1 && id[0] == 'B' }

func attrWidth(a string) int {
	switch a {
	case modeling.TexCoordAttribute:
		return 2
	case modeling.JointAttribute, modeling.WeightAttribute:
		return 4
	}
	return 3
}

// semantic is the glTF attribute semantic of a polyform attribute (glTF 2.0 §3.7.2.1).
func semantic(a string) string {
	switch a {
	case modeling.PositionAttribute:
		return "POSITION"
	case modeling.NormalAttribute:
		return "NORMAL"
	case modeling.TexCoordAttribute:
		return "TEXCOORD_0"
	case modeling.ColorAttribute:
		return "COLOR_0"
	case modeling.JointAttribute:
		return "JOINTS_0"
	case modeling.WeightAttribute:
		return "WEIGHTS_0"
	}
	return a
}

// attrVal: vertex-unique, float32-inexact, both signs, never ±0. Joints are small integers.
func attrVal(seed int, attr string, i, c int) float64 {
	h := 0
	for _, ch := range attr {
		h += int(ch)
	}
	if attr == modeling.JointAttribute {
		return float64((i*4 + c*7 + seed + h) % 200)
	}
	if seed == nanSeed && attr == modeling.NormalAttribute && i == 3 {
		return math.NaN() // the normal of a degenerate triangle: Normalized() of the zero vector
	}
	if seed >= ladderSeed {
		return float64(math.Float32frombits(f32Ladder[(seed-ladderSeed+4*i+c+h)%len(f32Ladder)]))
	}
	v := float64(h%5) + float64(seed)*0.37 + float64(i)*1.5 + float64(c)*0.25 + 0.1
	if (i+c+h)%2 == 1 {
		v = -v
	}
	return v
}

func buildMesh(d meshDef) *modeling.Mesh {
	if d.n == 0 {
		m := modeling.EmptyMesh(modeling.TriangleTopology)
		return &m
	}
	topo := modeling.TriangleTopology
	if d.point {
		topo = modeling.PointTopology
	}
	m := modeling.NewMesh(topo, append([]int{}, d.idx...))
	for _, a := range d.attrs {
		switch attrWidth(a) {
		case 2:
			data := make([]vector2.Float64, d.n)
			for i := range data {
				data[i] = vector2.New(attrVal(d.seed, a, i, 0), attrVal(d.seed, a, i, 1))
			}
			m = m.SetFloat2Attribute(a, data)
		case 3:
			data := make([]vector3.Float64, d.n)
			for i := range data {
				data[i] = vector3.New(attrVal(d.seed, a, i, 0), attrVal(d.seed, a, i, 1), attrVal(d.seed, a, i, 2))
			}
			m = m.SetFloat3Attribute(a, data)
		case 4:
			data := make([]vector4.Float64, d.n)
			for i := range data {
				data[i] = vector4.New(attrVal(d.seed, a, i, 0), attrVal(d.seed, a, i, 1), attrVal(d.seed, a, i, 2), attrVal(d.seed, a, i, 3))
			}
			m = m.SetFloat4Attribute(a, data)
		}
	}
	return &m
}

// expectedAttr is the float32 / uint8 image of one attribute, flattened.
func expectedAttr(d meshDef, a string) []float64 {
	w := attrWidth(a)
	out := make([]float64, d.n*w)
	for i := 0; i < d.n; i++ {
		for c := 0; c < w; c++ {
			v := attrVal(d.seed, a, i, c)
			if a == modeling.JointAttribute {
				out[i*w+c] = float64(uint8(v))
			} else {
				out[i*w+c] = float64(float32(v))
			}
		}
	}
	return out
}

// the three large meshes and their expected images are built once per process (the writer only
// reads them; the expected images come from the formula, so an in-place modification by the
// library would surface as a content mismatch in a later scene)
var bigOnce sync.Once
var bigPtr = map[string]*modeling.Mesh{}
var bigExp = map[string]map[string][]float64{}

func bigInit() {
	bigOnce.Do(func() {
		for _, id := range bigMeshes {
			d := meshMenu[id]
			bigPtr[id] = buildMesh(d)
			bigExp[id] = map[string][]float64{}
			for _, a := range d.attrs {
				bigExp[id][a] = expectedAttr(d, a)
			}
		}
	})
}

// ---------------------------------------------------------------------------------------------
// materials and textures
// ---------------------------------------------------------------------------------------------

// material menu: "-" is nil; every other entry is M or differs from M in exactly one respect.
var matMenu = []string{"-", "M", "M'", "Mt", "Ms", "Mu", "Mn", "Mo", "Mx", "Me"}

// what each material id carries: texture pointer keys per slot, extras, extension
type matDef struct {
	base, normal, occl string // texture keys ("" = none)
	extras, ext        bool
}

var matDefs = map[string]matDef{
	"M":  {base: "T"},
	"M'": {base: "T"},               // equal by value, other material pointer, same texture pointer (T again)
	"Mt": {base: "T'"},              // texture equal by value behind another pointer (and another sampler pointer)
	"Ms": {base: "Ts"},              // same URI, different sampler
	"Mu": {base: "Tu"},              // same URI and sampler values, plus a texture extension (KHR_texture_transform)
	"Mn": {base: "T", normal: "T"},  // differs only in the normal texture (the texture pointer T once more)
	"Mo": {base: "T", occl: "To"},   // differs only in the occlusion texture
	"Mx": {base: "T", extras: true}, // differs only in extras
	"Me": {base: "T", ext: true},    // differs only in an extension
}

type texDef struct {
	uri       string
	sampler   *[4]int // mag, min, wrapS, wrapT
	transform bool    // carries KHR_texture_transform {rotation: texRotation}
}

const texRotation = 0.75

var texDefs = map[string]texDef{
	"T":  {"t.png", &[4]int{9729, 9987, 33071, 33648}, false},
	"T'": {"t.png", &[4]int{9729, 9987, 33071, 33648}, false},
	"Ts": {"t.png", &[4]int{9728, 9729, 10497, 33071}, false},
	"Tu": {"t.png", &[4]int{9729, 9987, 33071, 33648}, true},
	"To": {"o.png", nil, false},
}

var baseColor = color.RGBA{255, 100, 80, 255}

const roughness = 0.5
const dispersion = 0.25

type pools struct {
	mesh map[string]*modeling.Mesh
	mat  map[string]*gltf.PolyformMaterial
	tex  map[string]*gltf.PolyformTexture
}

func (p *pools) texture(key string) *gltf.PolyformTexture {
	if t, ok := p.tex[key]; ok {
		return t
	}
	d := texDefs[key]
	t := &gltf.PolyformTexture{URI: d.uri}
	if d.sampler != nil {
		t.Sampler = &gltf.Sampler{
			MagFilter: gltf.SamplerMagFilter(d.sampler[0]), MinFilter: gltf.SamplerMinFilter(d.sampler[1]),
			WrapS: gltf.SamplerWrap(d.sampler[2]), WrapT: gltf.SamplerWrap(d.sampler[3]),
		}
	}
	if d.transform {
		r := texRotation
		t.Extensions = []gltf.TextureExtension{gltf.PolyformTextureTransform{Rotation: &r}}
	}
	p.tex[key] = t
	return t
}

func (p *pools) material(id string) *gltf.PolyformMaterial {
	if id == "-" {
		return nil
	}
	if m, ok := p.mat[id]; ok {
		return m
	}
	d := matDefs[id]
	r := roughness
	m := &gltf.PolyformMaterial{
		Name: "mat",
		PbrMetallicRoughness: &gltf.PolyformPbrMetallicRoughness{
			BaseColorFactor:  baseColor,
			RoughnessFactor:  &r,
			BaseColorTexture: p.texture(d.base),
		},
	}
	if d.normal != "" {
		m.NormalTexture = &gltf.PolyformNormal{PolyformTexture: p.texture(d.normal)}
	}
	if d.occl != "" {
		m.OcclusionTexture = &gltf.PolyformOcclusion{PolyformTexture: p.texture(d.occl)}
	}
	if d.extras {
		m.Extras = map[string]any{"k": "v"}
	}
	if d.ext {
		m.Extensions = []gltf.MaterialExtension{gltf.PolyformDispersion{Dispersion: dispersion}}
	}
	p.mat[id] = m
	return m
}

func (p *pools) meshPtr(id string) *modeling.Mesh {
	if m, ok := p.mesh[id]; ok {
		return m
	}
	var m *modeling.Mesh
	if isBig(id) {
		bigInit()
		m = bigPtr[id]
	} else {
		d, _ := meshDefOf(id)
		m = buildMesh(d)
	}
	p.mesh[id] = m
	return m
}

// ---------------------------------------------------------------------------------------------
// transforms
// ---------------------------------------------------------------------------------------------

var trsMenu = []string{"-", "T", "R", "S", "TRS"}

// unit quaternions with four distinct components (2²+4²+5²+6² = 9²), (x, y, z, w)
var quats = [3][4]float64{
	{2. / 9, 4. / 9, 5. / 9, 6. / 9},
	{6. / 9, -5. / 9, 4. / 9, 2. / 9},
	{-4. / 9, 2. / 9, 6. / 9, 5. / 9},
}

// A transform selector "L<r>" sets all three components from the float32 ladder starting at rung r
// (translation and scale components are consecutive rungs; the rotation carries one ladder value
// clamped into [-1,1] beside the components of a fixed unit quaternion — the writer is to pass the
// model's numbers through, whatever they are).
func ladderRung(sel string) (int, bool) {
	if len(sel) > 1 && sel[0] == 'L' {
		if r, err := strconv.Atoi(sel[1:]); err == nil && r >= 0 {
			return r, true
		}
	}
	return 0, false
}

func lad(r int) float64 { return float64(math.Float32frombits(f32Ladder[r%len(f32Ladder)])) }

func modelT(k int, sel string) [3]float64 {
	if r, ok := ladderRung(sel); ok {
		return [3]float64{lad(r), lad(r + 1), lad(r + 2)}
	}
	return [3]float64{1.5 + float64(k), -2.25, 3.1 + 0.5*float64(k)}
}
func modelR(k int, sel string) [4]float64 {
	if r, ok := ladderRung(sel); ok {
		q := quats[r%3]
		q[r%4] = math.Max(-1, math.Min(1, lad(r+7)))
		return q
	}
	return quats[k%3]
}
func modelS(k int, sel string) [3]float64 {
	if r, ok := ladderRung(sel); ok {
		return [3]float64{lad(r + 3), lad(r + 4), lad(r + 5)}
	}
	return [3]float64{2 + float64(k), 0.5, 1.25}
}

func instT(k, j int) [3]float64 { return [3]float64{float64(k) + 0.1, float64(j) + 0.2, -0.3} }
func instR(k, j int) [4]float64 { return quats[(k+j+1)%3] }
func instS(k, j int) [3]float64 { return [3]float64{1 + 0.5*float64(j), 2.1, 0.7 + float64(k)} }

func hasT(t string) bool { _, l := ladderRung(t); return l || t == "T" || t == "TRS" }
func hasR(t string) bool { _, l := ladderRung(t); return l || t == "R" || t == "TRS" }
func hasS(t string) bool { _, l := ladderRung(t); return l || t == "S" || t == "TRS" }

func v3(a [3]float64) vector3.Float64 { return vector3.New(a[0], a[1], a[2]) }
func q4(a [4]float64) quaternion.Quaternion {
	return quaternion.New(vector3.New(a[0], a[1], a[2]), a[3])
}

// lights
var lightPos = [3]float64{4.5, 5.25, -6.1}
var lightColor = color.RGBA{255, 128, 0, 255}

const lightIntensity = 2.5

func modelName(k int) string { return fmt.Sprintf("m%d", k) }

// modelNameOf: the name of model k of a case; cases marked UTF8 carry letters outside ASCII (two-,
// three- and four-byte UTF-8 sequences) — lengths in bytes and in characters differ.
func modelNameOf(cs Case, k int) string {
	if cs.UTF8 {
		return fmt.Sprintf("modèle-木-𝄞-%d", k)
	}
	return modelName(k)
}

// Build creates the library input for a case: fresh meshes, materials, textures and samplers.
func Build(cs Case) gltf.PolyformScene {
	p := &pools{map[string]*modeling.Mesh{}, map[string]*gltf.PolyformMaterial{}, map[string]*gltf.PolyformTexture{}}
	var sc gltf.PolyformScene
	var sharedInst []trs.TRS
	for k, ms := range cs.Models {
		m := gltf.PolyformModel{Name: modelNameOf(cs, k), Mesh: p.meshPtr(ms.Mesh), Material: p.material(ms.Mat)}
		if hasT(ms.TRS) {
			t := v3(modelT(k, ms.TRS))
			m.Translation = &t
		}
		if hasR(ms.TRS) {
			r := q4(modelR(k, ms.TRS))
			m.Rotation = &r
		}
		if hasS(ms.TRS) {
			s := v3(modelS(k, ms.TRS))
			m.Scale = &s
		}
		if ms.SharedInst {
			if sharedInst == nil {
				for j := 0; j < 4; j++ {
					sharedInst = append(sharedInst, trs.New(v3(instT(0, j)), q4(instR(0, j)), v3(instS(0, j))))
				}
			}
			m.GpuInstances = sharedInst[:ms.Inst]
		} else {
			for j := 0; j < ms.Inst; j++ {
				m.GpuInstances = append(m.GpuInstances, trs.New(v3(instT(k, j)), q4(instR(k, j)), v3(instS(k, j))))
			}
		}
		sc.Models = append(sc.Models, m)
	}
	for l := 0; l < cs.Lights; l++ {
		in := lightIntensity
		sc.Lights = append(sc.Lights, gltf.KHR_LightsPunctual{
			Type: gltf.KHR_LightsPunctualType_Point, Position: v3(lightPos), Color: lightColor, Intensity: &in,
		})
	}
	return sc
}
