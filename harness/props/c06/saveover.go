package c06

import (
	"bytes"
	"fmt"
	"io"
	"sort"
	"strings"

	"github.com/EliCDavis/polyform/formats/gltf"

	"verif/harness/core"
)

// gltf.SaveText / SaveBinary over an existing file: every sequence of 1..3 saves of three scenes of
// different sizes to one path; the file must equal the in-memory write of the last.

const clSave = "saving a scene to a file yields exactly the document of that scene (whatever the path held before)"

var saveScenes = []Case{
	{Models: []ModelSpec{{Mesh: "O", Mat: "M", TRS: "TRS"}, {Mesh: "Q", Mat: "Mt", TRS: "T"}}, Lights: 1},
	{Models: []ModelSpec{{Mesh: "A", Mat: "-", TRS: "-"}}},
	{},
}

func (k checker) saveOver(seq []int, glb bool) {
	cs := Case{GLB: glb, SaveSeq: append([]int{}, seq...)}
	name, ext := "SaveText", ".gltf"
	if glb {
		name, ext = "SaveBinary", ".glb"
	}
	scope := "files/save-sequences/" + name
	k.c.Nontrivial("save-over", fmt.Sprint(seq), glb)
	scene := func(it int) gltf.PolyformScene { return Build(saveScenes[it]) }
	var got []byte
	var err error
	o := core.Guard(func() {
		got, err = core.SaveOver(ext, seq, func(path string, it int) error {
			if glb {
				return gltf.SaveBinary(path, scene(it))
			}
			return gltf.SaveText(path, scene(it))
		})
	})
	class := fmt.Sprintf("save-over/%s/saves=%d", name, len(seq))
	fail := func(detail string) {
		k.c.Violate(core.Violation{Site: "gltf." + name, Clause: clSave, Class: class, Detail: detail, Case: cs})
	}
	if o.Panicked || err != nil {
		k.c.Eval(scope, "save-failure")
		fail(fmt.Sprintf("saves %v: %s %v", seq, o.Msg, err))
		return
	}
	var want bytes.Buffer
	if glb {
		err = gltf.WriteBinary(scene(seq[len(seq)-1]), &want)
	} else {
		err = gltf.WriteText(scene(seq[len(seq)-1]), &want)
	}
	if err != nil {
		k.c.HarnessError("in-memory write failed: %v", err)
		return
	}
	if !bytes.Equal(normExt(got), normExt(want.Bytes())) {
		k.c.Eval(scope, "mismatch")
		fail(fmt.Sprintf("after the saves %v to one path the file holds %d bytes, the last scene alone writes %d (or other content)", seq, len(got), want.Len()))
		return
	}
	k.c.Eval(scope, "ok")
}

// a write after a failed write (core.AfterFailedWrite), per container
func (k checker) afterFailedWrite(glb bool) {
	cs := Case{GLB: glb, SaveSeq: []int{-1}}
	name := "WriteText"
	if glb {
		name = "WriteBinary"
	}
	k.c.Nontrivial("after-failed-write", glb)
	big := Case{Models: []ModelSpec{{Mesh: "O", Mat: "M", TRS: "TRS"}, {Mesh: "Q", Mat: "Mt", TRS: "T"}, {Mesh: "P", Mat: "Ms", TRS: "S", Inst: 2}}, Lights: 1}
	small := Case{Models: []ModelSpec{{Mesh: "A", Mat: "-", TRS: "-"}}}
	why := core.AfterFailedWrite(core.FailLimits, func(it int, w io.Writer) error {
		sc := Build(small)
		if it == 0 {
			sc = Build(big)
		}
		// (the small scene uses no extension, so its document is the same bytes on every write)
		if glb {
			return gltf.WriteBinary(sc, w)
		}
		return gltf.WriteText(sc, w)
	})
	// a scene the writer rejects after it has written its first model (a later model without a mesh),
	// then the small scene again
	if why == "" {
		write := func(sc gltf.PolyformScene, w io.Writer) error {
			if glb {
				return gltf.WriteBinary(sc, w)
			}
			return gltf.WriteText(sc, w)
		}
		var ref bytes.Buffer
		if err := write(Build(small), &ref); err == nil {
			for _, badAt := range []int{1, 2, 0} {
				rej := Build(big)
				rej.Models[badAt].Mesh = nil
				var sink bytes.Buffer
				rerr := error(nil)
				if g := core.Guard(func() { rerr = write(rej, &sink) }); g.Crash() {
					why = fmt.Sprintf("writing a scene whose model %d has no mesh crashed: %s", badAt, g.Msg)
					break
				}
				var got bytes.Buffer
				gerr := error(nil)
				g := core.Guard(func() { gerr = write(Build(small), &got) })
				if g.Panicked || gerr != nil || !bytes.Equal(normExt(got.Bytes()), normExt(ref.Bytes())) {
					why = fmt.Sprintf("after a scene whose model %d has no mesh (writer answered: %v), the next export of another scene produced %d bytes, before it the same scene produced %d (or other content) %s %v", badAt, rerr, got.Len(), ref.Len(), g.Msg, gerr)
					break
				}
			}
		}
	}
	scope := "files/after-failed-write/" + name
	if why != "" {
		k.c.Eval(scope, "mismatch")
		k.c.Violate(core.Violation{Site: "gltf." + name, Clause: "writing a scene yields exactly the document of that scene (also right after an earlier write failed)", Class: "after-failed-write/" + name, Detail: why, Case: cs})
		return
	}
	k.c.Eval(scope, "ok")
}

// normExt sorts the entries of the extensionsUsed / extensionsRequired arrays inside a document (text
// or GLB: the arrays are plain text either way and sorting keeps every length).  The writer collects
// extension names in a map, so their order differs from one write to the next; glTF gives that order
// no meaning, and two documents that differ only there are the same document.
func normExt(doc []byte) []byte {
	out := append([]byte{}, doc...)
	for _, key := range []string{`"extensionsUsed":[`, `"extensionsRequired":[`} {
		i := bytes.Index(out, []byte(key))
		if i < 0 {
			continue
		}
		start := i + len(key)
		end := bytes.IndexByte(out[start:], ']')
		if end < 0 {
			continue
		}
		items := strings.Split(string(out[start:start+end]), ",")
		sort.Strings(items)
		copy(out[start:], strings.Join(items, ","))
	}
	return out
}

// the same scene to every kind of destination (core.SinkAgreement), per container
func (k checker) sinks(glb bool) {
	cs := Case{GLB: glb, SaveSeq: []int{-3}}
	k.c.Nontrivial("destinations", glb)
	scenes := []Case{
		{Models: []ModelSpec{{Mesh: "A", Mat: "-", TRS: "-"}}},
		{Models: []ModelSpec{{Mesh: "O", Mat: "M", TRS: "TRS"}, {Mesh: "Q", Mat: "-", TRS: "T"}, {Mesh: "P", Mat: "M", TRS: "S"}}}, // at most one extension in use: the writer lists extension names in map order
		{Models: []ModelSpec{{Mesh: "B65537", Mat: "-", TRS: "-"}}},
	}
	name := "gltf.WriteText"
	if glb {
		name = "gltf.WriteBinary"
	}
	for i, sc := range scenes {
		why := core.SinkAgreement(func(w io.Writer) error {
			if glb {
				return gltf.WriteBinary(Build(sc), w)
			}
			return gltf.WriteText(Build(sc), w)
		})
		if why != "" {
			k.c.Eval("files/destinations", "mismatch")
			k.c.Violate(core.Violation{Site: name, Clause: "writing a scene yields the document of that scene (whatever kind of io.Writer receives it)", Class: "destinations", Detail: fmt.Sprintf("scene %d: %s", i, why), Case: cs})
			return
		}
		k.c.Eval("files/destinations", "ok")
	}
}
