// Package c10s: C10 layer (ii) — every interleaving (up to a preemption bound) of the parallel mesh
// scans/modifiers and of the parallel marching-canvas entry points, under the controlled scheduler
// with ThreadSanitizer kept meaningful (DESIGN §3.3, §4 C10). Built with the vinstr overlay, -race,
// and marchingSectionSize scaled to 6 (§3.6) so that a field spanning several blocks is cheap.
package c10s

import (
	"encoding/json"
	"fmt"
	"math"
	"sort"
	"strings"

	"github.com/EliCDavis/polyform/math/geometry"
	"github.com/EliCDavis/polyform/math/sample"
	"github.com/EliCDavis/polyform/math/sdf"
	"github.com/EliCDavis/polyform/modeling"
	"github.com/EliCDavis/polyform/modeling/marching"
	"github.com/EliCDavis/polyform/verifrt/vchoice"
	"github.com/EliCDavis/polyform/verifrt/vsched"
	"github.com/EliCDavis/vector/vector2"
	"github.com/EliCDavis/vector/vector3"

	"verif/harness/core"
	"verif/harness/schedlib"
)

func init() { core.Register(core.Check{ID: "C10s", Run: run, Replay: replay}) }

// Scn identifies one scenario (JSON-able, replayable).
type Scn struct {
	Kind    string `json:"kind"` // mesh entry name, or canvas entry name
	N       int    `json:"n,omitempty"`
	Pool    int    `json:"pool,omitempty"`
	Workers int    `json:"workers,omitempty"`
	Field   string `json:"field,omitempty"`
}

func (s Scn) name() string {
	if s.Field != "" {
		return fmt.Sprintf("%s/workers=%d/field=%s", s.Kind, s.Workers, s.Field)
	}
	return fmt.Sprintf("%s/n=%d/pool=%d", s.Kind, s.N, s.Pool)
}

var meshEntries = []string{
	"ScanPrimitivesParallel/point", "ScanPrimitivesParallel/triangle",
	"ScanFloat3AttributeParallel", "ScanFloat2AttributeParallel", "ScanFloat1AttributeParallel",
	"ModifyFloat3AttributeParallel", "ModifyFloat2AttributeParallel", "ModifyFloat1AttributeParallel",
}

var canvasEntries = []string{"AddFieldParallel", "AddFieldParallel2", "MarchParallel"}

func scenarios(c *core.Ctx) (out []schedlib.Scenario) {
	maxN := 4
	if c.Thorough() {
		maxN = 6
	}
	for _, e := range meshEntries {
		for n := 0; n <= maxN; n++ {
			for _, pool := range []int{2, 3} {
				s := Scn{Kind: e, N: n, Pool: pool}
				b := []int{0, 1, 2}
				if c.Thorough() && n <= 4 {
					b = []int{0, 1, 2, 3}
				}
				out = append(out, meshScenario(s, b))
			}
		}
	}
	for _, e := range canvasEntries {
		for _, w := range []int{2, 3} {
			for _, f := range fieldNames {
				s := Scn{Kind: e, Workers: w, Field: f}
				b := []int{0, 1}
				if w == 2 && (c.Thorough() || blocksOf[f] <= 2) {
					b = []int{0, 1, 2}
				}
				if c.Thorough() && w == 2 && blocksOf[f] <= 2 {
					b = []int{0, 1, 2, 3}
				}
				out = append(out, canvasScenario(s, b))
			}
		}
	}
	return out
}

func run(c *core.Ctx) {
	rl := schedlib.NewRaceLog()
	c.Bound("race_detector_attribution", rl.On)
	c.Bound("marching_block_edge", c.Args["block"])
	if err := schedlib.SelfTest(rl); err != "" {
		c.HarnessError("scheduler self-test failed: %s", err)
		return
	}
	for _, sc := range scenarios(c) {
		if c.Expired() {
			return
		}
		schedlib.Explore(c, rl, sc)
	}
}

func replay(c *core.Ctx) {
	var rc struct {
		Scenario Scn   `json:"scenario"`
		Choices  []int `json:"choices"`
		Bound    int   `json:"bound"`
	}
	if err := json.Unmarshal(c.Replay, &rc); err != nil {
		c.HarnessError("bad case: %v", err)
		return
	}
	rl := schedlib.NewRaceLog()
	var sc schedlib.Scenario
	if rc.Scenario.Field != "" {
		sc = canvasScenario(rc.Scenario, nil)
	} else {
		sc = meshScenario(rc.Scenario, nil)
	}
	schedlib.Replay(c, rl, sc, rc.Choices, rc.Bound)
}

// ---------------------------------------------------------------------------------------------
// mesh scans / modifiers
// ---------------------------------------------------------------------------------------------

func meshData(n int) ([]vector3.Float64, []vector2.Float64, []float64) {
	v3 := make([]vector3.Float64, n)
	v2 := make([]vector2.Float64, n)
	v1 := make([]float64, n)
	for i := range v3 {
		v3[i] = vector3.New(float64(i)+0.25, 1, 2)
		v2[i] = vector2.New(float64(i)+0.25, 1)
		v1[i] = float64(i) + 0.25
	}
	return v3, v2, v1
}

func meshScenario(s Scn, bounds []int) schedlib.Scenario {
	site := "modeling.Mesh." + strings.Split(s.Kind, "/")[0] + "WithPoolSize"
	return schedlib.Scenario{
		Name: s.name(), Bounds: bounds, MaxPoints: 400, Case: s, Site: site,
		Make: func() (func(), func(vsched.Exec) (string, *core.Violation)) {
			n, pool := s.N, s.Pool
			// per-index cells: the callback writes only its own cell, so it is race free by construction
			visits := make([]int, n+1)
			seen := make([]float64, n+1)
			extra := 0 // visits with an index outside [0,n) (written by whichever worker; benign if never)
			var out modeling.Mesh
			var want []float64
			visit := func(i int, x float64) {
				vsched.Yield()
				if i < 0 || i >= n {
					extra++
					return
				}
				visits[i]++
				seen[i] = x
			}
			var root func()
			v3, v2, v1 := meshData(n)
			switch s.Kind {
			case "ScanPrimitivesParallel/point":
				m := modeling.EmptyPointcloud()
				if n > 0 {
					m = modeling.NewPointCloud(nil, map[string][]vector3.Float64{"Position": v3}, nil, nil, nil)
				}
				root = func() {
					m.ScanPrimitivesParallelWithPoolSize(pool, func(i int, p modeling.Primitive) {
						visit(i, p.BoundingBox("Position").Center().X())
					})
				}
				want = v1
			case "ScanPrimitivesParallel/triangle":
				tv, _, _ := meshData(3*n + 1)
				idx := make([]int, 3*n)
				for i := range idx {
					idx[i] = i
				}
				m := modeling.NewTriangleMesh(idx).SetFloat3Attribute("Position", tv)
				root = func() {
					m.ScanPrimitivesParallelWithPoolSize(pool, func(i int, p modeling.Primitive) {
						visit(i, p.BoundingBox("Position").Center().X())
					})
				}
				want = make([]float64, n)
				for i := range want {
					want[i] = float64(3*i) + 1.25
				}
			default:
				if n == 0 {
					root = func() {}
					break
				}
				m := modeling.NewPointCloud(nil, map[string][]vector3.Float64{"Position": v3}, map[string][]vector2.Float64{"uv": v2}, map[string][]float64{"w": v1}, nil)
				want = v1
				switch s.Kind {
				case "ScanFloat3AttributeParallel":
					root = func() {
						m.ScanFloat3AttributeParallelWithPoolSize("Position", pool, func(i int, v vector3.Float64) { visit(i, v.X()) })
					}
				case "ScanFloat2AttributeParallel":
					root = func() {
						m.ScanFloat2AttributeParallelWithPoolSize("uv", pool, func(i int, v vector2.Float64) { visit(i, v.X()) })
					}
				case "ScanFloat1AttributeParallel":
					root = func() {
						m.ScanFloat1AttributeParallelWithPoolSize("w", pool, func(i int, v float64) { visit(i, v) })
					}
				case "ModifyFloat3AttributeParallel":
					root = func() {
						out = m.ModifyFloat3AttributeParallelWithPoolSize("Position", pool, func(i int, v vector3.Float64) vector3.Float64 {
							visit(i, v.X())
							return v.Scale(2)
						})
					}
				case "ModifyFloat2AttributeParallel":
					root = func() {
						out = m.ModifyFloat2AttributeParallelWithPoolSize("uv", pool, func(i int, v vector2.Float64) vector2.Float64 {
							visit(i, v.X())
							return v.Scale(2)
						})
					}
				case "ModifyFloat1AttributeParallel":
					root = func() {
						out = m.ModifyFloat1AttributeParallelWithPoolSize("w", pool, func(i int, v float64) float64 {
							visit(i, v)
							return v * 2
						})
					}
				}
			}
			// observe at the moment the entry point returns (inside the calling thread): a variant that
			// returns before its workers are done is then seen with missing visits (and as a race)
			call := root
			var visitsAtReturn []int
			extraAtReturn := 0
			root = func() {
				call()
				visitsAtReturn = append([]int{}, visits...)
				extraAtReturn = extra
			}
			oracle := func(x vsched.Exec) (string, *core.Violation) {
				fail := func(clause, detail string) (string, *core.Violation) {
					return "mismatch", &core.Violation{Site: site, Clause: clause, Class: partitionClass(n, pool), Detail: s.name() + ": " + detail}
				}
				visits, extra := visitsAtReturn, extraAtReturn
				if len(visits) != n+1 {
					return fail("every element is visited exactly once with its own index", "the entry point did not return")
				}
				if extra > 0 {
					return fail("every element is visited exactly once with its own index", "callback received an index outside the element range")
				}
				for i := 0; i < n; i++ {
					if visits[i] != 1 {
						return fail("every element is visited exactly once with its own index", fmt.Sprintf("element %d visited %d times (visits=%v)", i, visits[i], visits[:n]))
					}
					if seen[i] != want[i] {
						return fail("every element is visited exactly once with its own index", fmt.Sprintf("element %d received value %v, its own is %v", i, seen[i], want[i]))
					}
				}
				if strings.HasPrefix(s.Kind, "Modify") && n > 0 {
					var got []float64
					switch s.Kind {
					case "ModifyFloat3AttributeParallel":
						it := out.Float3Attribute("Position")
						for i := 0; i < it.Len(); i++ {
							got = append(got, it.At(i).X())
						}
					case "ModifyFloat2AttributeParallel":
						it := out.Float2Attribute("uv")
						for i := 0; i < it.Len(); i++ {
							got = append(got, it.At(i).X())
						}
					case "ModifyFloat1AttributeParallel":
						it := out.Float1Attribute("w")
						for i := 0; i < it.Len(); i++ {
							got = append(got, it.At(i))
						}
					}
					if len(got) != n {
						return fail("the output values are identical to the sequential counterpart's", fmt.Sprintf("result has %d elements, want %d", len(got), n))
					}
					for i := range got {
						if got[i] != 2*want[i] {
							return fail("the output values are identical to the sequential counterpart's", fmt.Sprintf("element %d is %v, sequential result %v", i, got[i], 2*want[i]))
						}
					}
				}
				return "ok", nil
			}
			return root, oracle
		},
	}
}

func partitionClass(n, pool int) string {
	switch {
	case n < pool:
		return "fewer-elements-than-workers"
	case n%pool == 0:
		return "count-divisible-by-pool"
	}
	return "count-not-divisible-by-pool"
}

// ---------------------------------------------------------------------------------------------
// marching canvas
// ---------------------------------------------------------------------------------------------

var fieldNames = []string{"one-block", "two-blocks-x", "four-blocks-xy", "two-attributes"}
var blocksOf = map[string]int{"one-block": 1, "two-blocks-x": 2, "four-blocks-xy": 4, "two-attributes": 2}

// fields are axis-asymmetric boxes (a coordinate swap is visible), sized for block edge 6, 1 cube/unit.
func field(name string) marching.Field {
	box := func(pos, size vector3.Float64) sample.Vec3ToFloat { return sdf.Box(pos, size) }
	// the canvas pads the domain by one cell on each side: a domain [1,4] occupies cells 0..5 (one block of edge 6)
	mk := func(pos, size vector3.Float64, extra map[string]sample.Vec3ToFloat) marching.Field {
		dom := geometry.NewAABB(pos, vector3.New(3., 3., 3.))
		f := map[string]sample.Vec3ToFloat{modeling.PositionAttribute: box(pos, size)}
		for k, v := range extra {
			f[k] = v
		}
		return marching.Field{Domain: dom, Float1Functions: f}
	}
	switch name {
	case "one-block":
		return mk(vector3.New(2.5, 2.5, 2.5), vector3.New(2.6, 2.2, 1.8), nil)
	case "two-blocks-x":
		return mk(vector3.New(5.5, 2.5, 2.5), vector3.New(2.6, 2.2, 1.8), nil)
	case "four-blocks-xy":
		return mk(vector3.New(5.5, 5.5, 2.5), vector3.New(2.6, 2.2, 1.8), nil)
	case "two-attributes":
		return mk(vector3.New(5.5, 2.5, 2.5), vector3.New(2.6, 2.2, 1.8), map[string]sample.Vec3ToFloat{
			"Second": box(vector3.New(5.5, 2.5, 2.5), vector3.New(1.8, 2.6, 2.2)),
		})
	}
	panic("unknown field " + name)
}

// triKey canonicalises a triangle mesh to a sorted multiset of triangles (vertices rounded to 1e-6,
// each triangle rotated so that its smallest vertex comes first: orientation is preserved).
func triKey(m modeling.Mesh, attr string) (string, int) {
	if m.Topology() != modeling.TriangleTopology || !m.HasFloat3Attribute(attr) {
		return fmt.Sprintf("topology=%v hasAttr=%v prims=%d", m.Topology(), m.HasFloat3Attribute(attr), m.Indices().Len()/3), 0
	}
	pos := m.Float3Attribute(attr)
	idx := m.Indices()
	var tris []string
	for i := 0; i+2 < idx.Len(); i += 3 {
		var v [3][3]int64
		for k := 0; k < 3; k++ {
			p := pos.At(idx.At(i + k))
			v[k] = [3]int64{int64(math.Round(p.X() * 1e6)), int64(math.Round(p.Y() * 1e6)), int64(math.Round(p.Z() * 1e6))}
		}
		best := 0
		for k := 1; k < 3; k++ {
			if less(v[k], v[best]) {
				best = k
			}
		}
		tris = append(tris, fmt.Sprint(v[best], v[(best+1)%3], v[(best+2)%3]))
	}
	sort.Strings(tris)
	return strings.Join(tris, ";"), len(tris)
}

func less(a, b [3]int64) bool {
	for i := 0; i < 3; i++ {
		if a[i] != b[i] {
			return a[i] < b[i]
		}
	}
	return false
}

// attrsOf lists the attributes whose accumulated samples are observable through the public API:
// only Position — MarchOnAttribute on any other attribute fails in the sequential and the parallel
// variant alike (its scale step is hard-wired to Position), so a second attribute only serves to
// put more jobs than blocks on the queues.
func attrsOf(f marching.Field) []string {
	return []string{modeling.PositionAttribute}
}

type refKeys struct {
	keys  map[string]string
	count map[string]int
}

var refCache = map[string]refKeys{}

// reference: the sequential counterpart on a fresh canvas (computed once per field, outside any exploration).
func reference(fname string) refKeys {
	if r, ok := refCache[fname]; ok {
		return r
	}
	f := field(fname)
	cv := marching.NewMarchingCanvas(1)
	cv.AddField(f)
	r := refKeys{keys: map[string]string{}, count: map[string]int{}}
	for _, a := range attrsOf(f) {
		r.keys[a], r.count[a] = triKey(cv.MarchOnAttribute(a, 0), a)
	}
	refCache[fname] = r
	return r
}

func canvasScenario(s Scn, bounds []int) schedlib.Scenario {
	site := "marching.MarchingCanvas." + s.Kind
	return schedlib.Scenario{
		Name: s.name(), Bounds: bounds, MaxPoints: 2000, Case: s, Site: site,
		Make: func() (func(), func(vsched.Exec) (string, *core.Violation)) {
			ref := reference(s.Field)
			f := field(s.Field)
			vchoice.SetNumCPU(s.Workers)
			cv := marching.NewMarchingCanvas(1)
			var marched modeling.Mesh
			var root func()
			// the accumulated canvas is observed (marched sequentially) by the calling thread right after
			// the entry point returns: a variant returning before its workers finished is seen incomplete
			obsKey, obsN, obsErr := map[string]string{}, map[string]int{}, ""
			observe := func() {
				for _, a := range attrsOf(f) {
					g := core.Guard(func() { obsKey[a], obsN[a] = triKey(cv.MarchOnAttribute(a, 0), a) })
					if g.Panicked {
						obsErr = fmt.Sprintf("marching attribute %s after the parallel accumulation failed: %s", a, g.Msg)
					}
				}
			}
			switch s.Kind {
			case "AddFieldParallel":
				root = func() { cv.AddFieldParallel(f); observe() }
			case "AddFieldParallel2":
				root = func() { cv.AddFieldParallel2(f); observe() }
			case "MarchParallel":
				cv.AddField(f) // sequential accumulation; the parallel march is what is explored
				root = func() { marched = cv.MarchOnAttributeParallel(modeling.PositionAttribute, 0) }
			}
			oracle := func(x vsched.Exec) (string, *core.Violation) {
				class := fmt.Sprintf("blocks=%d/attributes=%d", blocksOf[s.Field], len(f.Float1Functions))
				fail := func(detail string) (string, *core.Violation) {
					return "mismatch", &core.Violation{Site: site, Clause: "the parallel variant produces the same triangle multiset as its sequential counterpart", Class: class, Detail: s.name() + ": " + detail}
				}
				if s.Kind == "MarchParallel" {
					k, n := triKey(marched, modeling.PositionAttribute)
					if k != ref.keys[modeling.PositionAttribute] {
						return fail(fmt.Sprintf("parallel march has %d triangles, sequential %d (or differing vertices)", n, ref.count[modeling.PositionAttribute]))
					}
					return "ok", nil
				}
				if obsErr != "" {
					return fail(obsErr)
				}
				for _, a := range attrsOf(f) {
					k, ok := obsKey[a]
					if !ok {
						return fail("the entry point did not return")
					}
					if k != ref.keys[a] {
						return fail(fmt.Sprintf("attribute %s: canvas filled in parallel marches to %d triangles, sequentially filled canvas to %d (or differing vertices)", a, obsN[a], ref.count[a]))
					}
				}
				return "ok", nil
			}
			return root, oracle
		},
	}
}
