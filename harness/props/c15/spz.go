package c15

import (
	"bytes"
	"compress/gzip"
	"encoding/binary"
	"encoding/hex"
	"fmt"
	"hash/crc32"
	"math"

	"github.com/EliCDavis/polyform/formats/spz"
	"github.com/EliCDavis/polyform/modeling"
	"github.com/EliCDavis/polyform/nodes"

	"verif/harness/core"
	"verif/harness/meshlib"
)

// Part (b): SPZ. Reference encoder written from the published layout (nianticlabs/spz, as quoted in
// the repository's loader):
//
//	gzip( header | positions | alphas | colors | scales | rotations | sh )
//	header  = u32 magic 0x5053474e, u32 version, u32 numPoints, u8 shDegree, u8 fractionalBits, u8 flags, u8 reserved
//	positions: version 1 -> 3 x IEEE half per point; version 2 -> 3 x 24-bit little-endian two's-complement
//	           fixed point with `fractionalBits` fractional bits
//	alphas 1 B, colors 3 B, scales 3 B, rotations 3 B (xyz, w reconstructed), sh = shDim x 3 B per point
//	           (coefficient-major, colour channel fastest), shDim = 0,3,8,15 for degree 0..3
//
// Dequantisation (the formulas the loader documents): colour (b/255-0.5)/0.15, scale b/16-10,
// rotation b/127.5-1 with w = sqrt(max(0,1-|xyz|^2)), sh (b-128)/128, alpha b/255 (the repository keeps
// opacity in [0,1]; the comment in readAlphas documents that it deliberately does not apply the inverse
// sigmoid of the reference decoder).

// SpzFile is one reference-encoded stream: a header plus one flat byte record per point.
// Record layout (harness-internal): position bytes (9 for v2, 6 for v1), alpha, colour[3], scale[3],
// rotation[3], sh[shDim*3].
type SpzFile struct {
	Version   int      `json:"version"`
	Deg       int      `json:"deg"`
	FB        int      `json:"fb"`
	Flags     int      `json:"flags"`
	Container string   `json:"container"`      // "stored" (hand-written gzip, stored deflate block) | "deflate" (compress/gzip) | "members" (three stored gzip members)
	Recs      []string `json:"recs,omitempty"` // hex of each record (small scopes)
	Family    string   `json:"family"`
	Gen       string   `json:"gen,omitempty"`    // generated records instead of Recs: "ladder" | "half-all"
	N         int      `json:"n,omitempty"`      // number of generated records
	Reader    int      `json:"reader,omitempty"` // io.Reader behaviour handed to spz.Read
}

var shDims = []int{0, 3, 8, 15}

func posLen(version int) int {
	if version == 1 {
		return 6
	}
	return 9
}
func recLen(version, deg int) int { return posLen(version) + 10 + 3*shDims[deg] }

// byte position kinds inside a record, for classification and reporting
func kindOf(version, deg, off int) string {
	pl := posLen(version)
	switch {
	case off < pl && version == 2:
		return fmt.Sprintf("coord-%c-byte%d", "xyz"[off/3], off%3)
	case off < pl:
		return fmt.Sprintf("half-%c-byte%d", "xyz"[off/2], off%2)
	case off == pl:
		return "alpha"
	case off < pl+4:
		return "colour"
	case off < pl+7:
		return "scale"
	case off < pl+10:
		return "rotation"
	}
	return fmt.Sprintf("sh-slot%d", off-pl-10)
}

// refEncodeSpz: the raw (uncompressed) stream.
func refEncodeSpz(f SpzFile, recs [][]byte) []byte {
	raw := make([]byte, 16, 16+len(recs)*recLen(f.Version, f.Deg))
	binary.LittleEndian.PutUint32(raw[0:], 0x5053474e)
	binary.LittleEndian.PutUint32(raw[4:], uint32(f.Version))
	binary.LittleEndian.PutUint32(raw[8:], uint32(len(recs)))
	raw[12], raw[13], raw[14], raw[15] = byte(f.Deg), byte(f.FB), byte(f.Flags), 0
	pl := posLen(f.Version)
	for _, span := range [][2]int{{0, pl}, {pl, pl + 1}, {pl + 1, pl + 4}, {pl + 4, pl + 7}, {pl + 7, pl + 10}, {pl + 10, recLen(f.Version, f.Deg)}} {
		for _, r := range recs {
			raw = append(raw, r[span[0]:span[1]]...)
		}
	}
	return raw
}

// gzipStored wraps data in a minimal gzip member whose deflate stream consists of stored blocks
// (RFC 1952 / 1951; a stored block holds at most 65535 bytes).
func gzipStored(data []byte) []byte {
	out := make([]byte, 0, len(data)+len(data)/65535*5+32)
	out = append(out, 0x1f, 0x8b, 8, 0, 0, 0, 0, 0, 0, 0xff)
	for rest := data; ; {
		l := len(rest)
		final := byte(1)
		if l > 65535 {
			l, final = 65535, 0
		}
		out = append(out, final, byte(l), byte(l>>8), ^byte(l), ^byte(l>>8))
		out = append(out, rest[:l]...)
		rest = rest[l:]
		if final == 1 {
			break
		}
	}
	var t [8]byte
	binary.LittleEndian.PutUint32(t[0:], crc32.ChecksumIEEE(data))
	binary.LittleEndian.PutUint32(t[4:], uint32(len(data)))
	return append(out, t[:]...)
}

var gzw *gzip.Writer

func gzipDeflate(data []byte) []byte {
	var b bytes.Buffer
	if gzw == nil {
		gzw = gzip.NewWriter(&b)
	} else {
		gzw.Reset(&b)
	}
	gzw.Write(data)
	gzw.Close()
	return b.Bytes()
}

// refHalf: IEEE 754 binary16 -> float64.
func refHalf(h uint16) float64 {
	s := 1.0
	if h&0x8000 != 0 {
		s = -1
	}
	e := int(h>>10) & 0x1f
	m := float64(h & 0x3ff)
	switch e {
	case 0:
		return s * math.Ldexp(m, -24)
	case 31:
		if m != 0 {
			return math.NaN()
		}
		return math.Inf(int(s))
	}
	return s * math.Ldexp(1024+m, e-25)
}

type spzWant struct {
	pos, col, scale [3]float64
	alpha           float64
	rot             [4]float64
	sh              [][3]float64
}

// refDequant: the reference dequantisation of one record.
func refDequant(f SpzFile, r []byte) (w spzWant) {
	pl := posLen(f.Version)
	for c := 0; c < 3; c++ {
		if f.Version == 1 {
			w.pos[c] = refHalf(uint16(r[2*c]) | uint16(r[2*c+1])<<8)
		} else {
			v := int64(r[3*c]) | int64(r[3*c+1])<<8 | int64(r[3*c+2])<<16
			if v >= 1<<23 {
				v -= 1 << 24
			}
			w.pos[c] = math.Ldexp(float64(v), -f.FB)
		}
		w.col[c] = (float64(r[pl+1+c])/255 - 0.5) / 0.15
		w.scale[c] = float64(r[pl+4+c])/16 - 10
		w.rot[c] = float64(r[pl+7+c])/127.5 - 1
	}
	w.alpha = float64(r[pl]) / 255
	w.rot[3] = math.Sqrt(math.Max(0, 1-(w.rot[0]*w.rot[0]+w.rot[1]*w.rot[1]+w.rot[2]*w.rot[2])))
	for d := 0; d < shDims[f.Deg]; d++ {
		var t [3]float64
		for c := 0; c < 3; c++ {
			t[c] = (float64(r[pl+10+3*d+c]) - 128) / 128
		}
		w.sh = append(w.sh, t)
	}
	return
}

var spzSites = map[string]string{
	"position": "spz.Header.readPositions", "alpha": "spz.Header.readAlphas", "colour": "spz.Header.readColors",
	"scale": "spz.Header.readScale", "rotation": "spz.Header.readRotations", "sh": "spz.Header.readSh",
}

func (k *checker) spzCase(f SpzFile, scope string) {
	c := k.c
	cs := Case{Kind: "spz", Spz: &f}
	var recs [][]byte
	switch f.Gen {
	case "ladder":
		recs = ladderRecs(f.Version, f.Deg, f.N)
	case "half-all":
		recs = halfAllRecs(f.Deg)
	default:
		recs = make([][]byte, len(f.Recs))
		for i, h := range f.Recs {
			b, err := hex.DecodeString(h)
			if err != nil || len(b) != recLen(f.Version, f.Deg) {
				c.HarnessError("bad spz record in case: %v len=%d", err, len(b))
				return
			}
			recs[i] = b
		}
	}
	n := len(recs)
	raw := refEncodeSpz(f, recs)
	var data []byte
	if f.Container == "deflate" {
		data = gzipDeflate(raw)
	} else if f.Container == "members" {
		// a gzip file is a series of members (RFC 1952): header | first half of the body | the rest
		h := 16
		if h > len(raw) {
			h = len(raw)
		}
		mid := h + (len(raw)-h)/2
		data = append(append(gzipStored(raw[:h]), gzipStored(raw[h:mid])...), gzipStored(raw[mid:])...)
	} else {
		data = gzipStored(raw)
	}
	var cloud *spz.Cloud
	var err error
	o := core.Guard(func() { cloud, err = spz.Read(shaped(data, f.Reader)) })
	hclass := fmt.Sprintf("v%d/sh-degree-0", f.Version)
	if f.Deg > 0 {
		hclass = fmt.Sprintf("v%d/sh-degree>0", f.Version)
	}
	if f.Gen != "" {
		hclass += "/" + f.Gen
	}
	if f.Reader != rdAll {
		hclass += "/" + modeName(f.Reader)
	}
	if o.Panicked || err != nil || cloud == nil {
		c.Eval(scope, "decode-failed")
		site := "spz.Read"
		if o.Crash() {
			site = core.TopFrame(o.Stack)
		}
		k.fail(site, "a stream built to the published layout decodes", hclass, fmt.Sprint(o.Msg, " ", err), cs)
		return
	}
	outcome := "ok"
	defer func() { c.Eval(scope, outcome) }()
	// the node-graph entry point decodes the same stream to the same cloud
	if f.Reader == rdAll {
		var nm modeling.Mesh
		var nerr error
		if g := core.Guard(func() { nm, nerr = spz.ReadNodeData{Data: nodes.Value(append([]byte{}, data...)).Out()}.Process() }); g.Panicked || nerr != nil || meshlib.QuickHash(nm) != meshlib.QuickHash(cloud.Mesh) {
			outcome = "mismatch"
			k.fail("spz.ReadNodeData.Process", "the node-graph entry point decodes a stream to the cloud spz.Read decodes it to", hclass, fmt.Sprint("node result differs from spz.Read's ", g.Msg, " ", nerr), cs)
		}
	}
	if n > 0 {
		c.Nontrivial("spz", raw, f.Container, f.Reader)
	}
	c.Sample(scope, map[string]any{"file": f, "gzip_bytes": len(data)})
	bad := func(field, class, detail string) {
		outcome = "mismatch"
		site := spzSites[field]
		if site == "" {
			site = "spz.Read"
		}
		if field == "position" && f.Version == 1 {
			site = "spz.Header.readPositionsFloat16"
		}
		clause := "splat i equals the dequantised values of record i (" + field + ")"
		if field == "length" {
			clause = "all attribute arrays have the declared length"
		}
		if field == "header" {
			clause = "the decoded header is the encoded header"
		}
		k.fail(site, clause, class, detail, cs)
	}
	h := cloud.Header
	if h.Magic != 0x5053474e || int(h.Version) != f.Version || int(h.NumPoints) != n || int(h.ShDegree) != f.Deg || int(h.FractionalBits) != f.FB || int(h.Flags) != f.Flags || h.Reserved != 0 {
		bad("header", hclass, fmt.Sprintf("got %+v", h))
	}
	m := cloud.Mesh
	if m.AttributeLength() != n || m.PrimitiveCount() != n {
		bad("length", hclass, fmt.Sprintf("declared %d points, mesh has %d attributes / %d primitives", n, m.AttributeLength(), m.PrimitiveCount()))
		return
	}
	if n == 0 {
		return
	}
	dim := shDims[f.Deg]
	// every array that exists has the declared length; the documented ones exist
	lens := map[string]int{}
	o = core.Guard(func() {
		for _, a := range m.Float1Attributes() {
			lens["1:"+a] = m.Float1Attribute(a).Len()
		}
		for _, a := range m.Float2Attributes() {
			lens["2:"+a] = m.Float2Attribute(a).Len()
		}
		for _, a := range m.Float3Attributes() {
			lens["3:"+a] = m.Float3Attribute(a).Len()
		}
		for _, a := range m.Float4Attributes() {
			lens["4:"+a] = m.Float4Attribute(a).Len()
		}
	})
	need := []string{"3:" + modeling.PositionAttribute, "3:" + modeling.ScaleAttribute, "3:" + modeling.FDCAttribute, "1:" + modeling.OpacityAttribute, "4:" + modeling.RotationAttribute}
	for d := 0; d < dim; d++ {
		need = append(need, fmt.Sprintf("3:SH_%d", d))
	}
	for _, a := range need {
		if l, ok := lens[a]; !ok || l != n {
			bad("length", hclass, fmt.Sprintf("attribute %s: present=%v length=%d, declared %d points", a, ok, l, n))
			return
		}
	}
	for a, l := range lens {
		if l != n {
			bad("length", hclass, fmt.Sprintf("attribute %s has length %d, declared %d points", a, l, n))
			return
		}
	}
	pos := m.Float3Attribute(modeling.PositionAttribute)
	op := m.Float1Attribute(modeling.OpacityAttribute)
	col := m.Float3Attribute(modeling.FDCAttribute)
	sc := m.Float3Attribute(modeling.ScaleAttribute)
	rot := m.Float4Attribute(modeling.RotationAttribute)
	const rel = 1e-12
	reported := 0
	for i, r := range recs {
		if outcome != "ok" {
			if reported++; reported > 4 { // a few records per case are enough for the report
				break
			}
		}
		w := refDequant(f, r)
		// class: which record (first / later) — offsets into planar arrays only matter from the second on
		rc := "record0"
		if i > 0 {
			rc = "record>0"
		}
		cl := hclass + "/" + rc
		p, cc, s, q := pos.At(i), col.At(i), sc.At(i), rot.At(i)
		if !same(p.X(), w.pos[0], rel) || !same(p.Y(), w.pos[1], rel) || !same(p.Z(), w.pos[2], rel) {
			bad("position", cl, fmt.Sprintf("record %d of %d bytes=%x got=%v want=%v", i, n, r[:posLen(f.Version)], p, w.pos))
		}
		if !same(op.At(i), w.alpha, rel) {
			bad("alpha", cl, fmt.Sprintf("record %d of %d byte=%d got=%v want=%v", i, n, r[posLen(f.Version)], op.At(i), w.alpha))
		}
		if !same(cc.X(), w.col[0], rel) || !same(cc.Y(), w.col[1], rel) || !same(cc.Z(), w.col[2], rel) {
			bad("colour", cl, fmt.Sprintf("record %d of %d got=%v want=%v", i, n, cc, w.col))
		}
		if !same(s.X(), w.scale[0], rel) || !same(s.Y(), w.scale[1], rel) || !same(s.Z(), w.scale[2], rel) {
			bad("scale", cl, fmt.Sprintf("record %d of %d got=%v want=%v", i, n, s, w.scale))
		}
		if !same(q.X(), w.rot[0], rel) || !same(q.Y(), w.rot[1], rel) || !same(q.Z(), w.rot[2], rel) || !same(q.W(), w.rot[3], 1e-9) {
			bad("rotation", cl, fmt.Sprintf("record %d of %d got=%v want=%v", i, n, q, w.rot))
		}
		for d := 0; d < dim; d++ {
			a := m.Float3Attribute(fmt.Sprintf("SH_%d", d)).At(i)
			if !same(a.X(), w.sh[d][0], rel) || !same(a.Y(), w.sh[d][1], rel) || !same(a.Z(), w.sh[d][2], rel) {
				bad("sh", cl, fmt.Sprintf("record %d of %d coefficient %d got=%v want=%v", i, n, d, a, w.sh[d]))
				break
			}
		}
	}
}

// baseByte is the fixed background fill: different for every (pattern, record, offset) so that a
// read from the wrong record or the wrong slot is visible.
func baseByte(p, i, off int) byte { return byte(29 + 37*p + 101*i + 53*off) }

func baseRecs(p, version, deg, n int) [][]byte {
	recs := make([][]byte, n)
	for i := range recs {
		recs[i] = make([]byte, recLen(version, deg))
		for off := range recs[i] {
			recs[i][off] = baseByte(p, i, off)
		}
	}
	return recs
}

func hexRecs(recs [][]byte) []string {
	out := make([]string, len(recs))
	for i, r := range recs {
		out[i] = hex.EncodeToString(r)
	}
	return out
}

func (k *checker) runSpz() {
	c := k.c
	maxN, fbs, flagsSet, nBase := 3, []int{0, 4, 8, 12, 16, 24}, []int{0}, 4
	if c.Thorough() {
		maxN = 4
		fbs = nil
		for b := 0; b <= 24; b++ {
			fbs = append(fbs, b)
		}
		flagsSet = []int{0, 1}
		nBase = 8
	}
	c.Bound("spz.versions", []int{1, 2})
	c.Bound("spz.points", fmt.Sprintf("0..%d", maxN))
	c.Bound("spz.sh_degree", "0..3")
	c.Bound("spz.fractional_bits", fbs)
	c.Bound("spz.flags", flagsSet)
	c.Bound("spz.byte_patterns", fmt.Sprintf("%d background fills x {stored, deflate, three-gzip-members} container; all 256 values at every byte offset of every record; all 4^3 combinations of {00,7F,80,FF} in every 24-bit coordinate of every record", nBase))
	boundary := []byte{0x00, 0x7F, 0x80, 0xFF}
	for _, version := range []int{1, 2} {
		for n := 0; n <= maxN; n++ {
			for deg := 0; deg <= 3; deg++ {
				for _, fb := range fbs {
					for _, flags := range flagsSet {
						f := SpzFile{Version: version, Deg: deg, FB: fb, Flags: flags}
						scope := fmt.Sprintf("spz/v%d", version)
						// background fills, both containers
						if k.mine() {
							for p := 0; p < nBase; p++ {
								for _, cont := range []string{"stored", "deflate", "members"} {
									for mode := range readerModes {
										g := f
										g.Container, g.Family, g.Recs, g.Reader = cont, "fill", hexRecs(baseRecs(p, version, deg, n)), mode
										k.spzCase(g, scope+"/fill")
									}
								}
								if n == 0 {
									break
								}
							}
						}
						// 256 values at every byte offset of every record
						for r := 0; r < n; r++ {
							if !k.mine() {
								continue
							}
							if c.Expired() {
								return
							}
							recs := baseRecs(0, version, deg, n)
							for off := 0; off < recLen(version, deg); off++ {
								keep := recs[r][off]
								for v := 0; v < 256; v++ {
									recs[r][off] = byte(v)
									g := f
									g.Container, g.Family, g.Recs, g.Reader = "stored", "sweep", hexRecs(recs), (v+off)%4
									k.spzCase(g, scope+"/sweep")
								}
								recs[r][off] = keep
							}
							// boundary bytes inside one 24-bit coordinate
							if version == 2 {
								for axis := 0; axis < 3; axis++ {
									keep := [3]byte{recs[r][3*axis], recs[r][3*axis+1], recs[r][3*axis+2]}
									for _, b0 := range boundary {
										for _, b1 := range boundary {
											for _, b2 := range boundary {
												recs[r][3*axis], recs[r][3*axis+1], recs[r][3*axis+2] = b0, b1, b2
												g := f
												g.Container, g.Family, g.Recs, g.Reader = "stored", "coord-boundary", hexRecs(recs), int(b0>>6+b1>>7+b2&1)%4
												k.spzCase(g, scope+"/coord-boundary")
											}
										}
									}
									recs[r][3*axis], recs[r][3*axis+1], recs[r][3*axis+2] = keep[0], keep[1], keep[2]
								}
							}
						}
					}
				}
			}
		}
	}
}
