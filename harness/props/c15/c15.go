// Package c15: gaussian-splat codecs keep every splat's fields within one quantisation step
// (DESIGN §4 C15). Three bounded-exhaustive families, each executed on the real code and compared
// with reference codecs written here from the published layouts:
//
//	(a) .splat   splat.Write -> splat.Read over clouds of 0..3 splats, fields from edge alphabets
//	(b) SPZ      reference *encoder* (+ gzip container) -> spz.Read, every header x byte pattern
//	(c) PLY      ply.SplatPly.Write -> ply.ReadMesh, every attribute subset x count
package c15

import (
	"encoding/json"
	"math"

	"verif/harness/core"
)

func init() { core.Register(core.Check{ID: "C15", Run: run, Replay: replay}) }

// Case is the replay record of one executed case (exactly one of the three parts is set).
type Case struct {
	Kind   string    `json:"kind"`             // "splat" | "splat-ladder" | "spz" | "ply"
	Reader int       `json:"reader,omitempty"` // io.Reader behaviour of the read side (readerModes)
	N      int       `json:"n,omitempty"`      // splat-ladder: number of generated splats
	Splat  []SplatIn `json:"splat,omitempty"`
	Spz    *SpzFile  `json:"spz,omitempty"`
	Ply    *PlyCase  `json:"ply,omitempty"`
}

type checker struct {
	c   *core.Ctx
	idx int
}

// mine hands out the running top-level index (identical in every shard).
func (k *checker) mine() bool { k.idx++; return k.c.Mine(k.idx) }

func (k *checker) fail(site, clause, class, detail string, cs Case) {
	k.c.Violate(core.Violation{Site: site, Clause: clause, Class: class, Detail: detail, Case: cs})
}

func run(c *core.Ctx) {
	k := &checker{c: c}
	k.runSplat()
	if c.Expired() {
		return
	}
	k.runSplatValues()
	k.runAfterFailedWrite()
	k.runLoadAfterReplace()
	k.runAfterFailedRead()
	k.runSinks()
	if c.Expired() {
		return
	}
	k.runPly()
	if c.Expired() {
		return
	}
	k.runPlyValues()
	if c.Expired() {
		return
	}
	k.runSpz()
	if c.Expired() {
		return
	}
	k.runLadder()
}

func replay(c *core.Ctx) {
	var cs Case
	if err := json.Unmarshal(c.Replay, &cs); err != nil {
		c.HarnessError("bad case: %v", err)
		return
	}
	k := &checker{c: c}
	switch cs.Kind {
	case "splat":
		k.splatCase(cs.Splat, "replay", cs)
	case "after-failed-write":
		k.idx = -1 << 30
		k.runAfterFailedWriteReplay()
	case "load-after-replace":
		k.idx = -1 << 30
		k.runLoadAfterReplaceReplay()
	case "after-failed-read":
		k.idx = -1 << 30
		k.runAfterFailedReadReplay()
	case "sinks":
		k.idx = -1 << 30
		k.runSinksReplay()
	case "splat-ladder":
		k.splatCase(ladderCloud(cs.N), "replay", cs)
	case "spz":
		if cs.Spz != nil {
			k.spzCase(*cs.Spz, "replay")
		}
	case "ply":
		if cs.Ply != nil {
			k.plyCase(*cs.Ply, "replay")
		}
	default:
		c.HarnessError("unknown case kind %q", cs.Kind)
	}
}

// ---- small numeric helpers shared by the three parts ----

// same: equal as values of a decoder output (NaN equals NaN, infinities by sign) up to a relative
// tolerance that lets an algebraically equivalent refactor pass (x*scale vs x/b).
func same(got, want, rel float64) bool {
	if math.IsNaN(want) || math.IsNaN(got) {
		return math.IsNaN(want) && math.IsNaN(got)
	}
	if math.IsInf(want, 0) || math.IsInf(got, 0) {
		return got == want
	}
	return math.Abs(got-want) <= rel*math.Max(1, math.Abs(want))
}

func f32(x float64) float64 { return float64(float32(x)) }
