package c15

// TwinSpzStreams: three different reference-encoded SPZ streams (version 2 with harmonics, version 1,
// version 2 without) for the concurrent-twin scenarios (props/twins).
func TwinSpzStreams() [][]byte {
	mk := func(p, version, deg, n int) []byte {
		f := SpzFile{Version: version, Deg: deg, FB: 12}
		return gzipDeflate(refEncodeSpz(f, baseRecs(p, version, deg, n)))
	}
	return [][]byte{mk(1, 2, 3, 40), mk(2, 1, 1, 25), mk(3, 2, 0, 60)}
}
