package c15

import (
	"bytes"
	"encoding/binary"
	"fmt"
	"math"
	"strconv"
	"strings"

	"github.com/EliCDavis/polyform/formats/ply"
	"github.com/EliCDavis/polyform/modeling"
	"github.com/EliCDavis/vector/vector3"
	"github.com/EliCDavis/vector/vector4"

	"verif/harness/core"
)

// Part (c): the PLY splat export (ply.SplatPly) read back by ply.ReadMesh.
// Property names are those of the published 3D-gaussian-splatting PLY layout:
// x y z | nx ny nz | f_dc_0..2 | f_rest_0..44 | opacity | scale_0..2 | rot_0..3, all float32.

// PlyCase: N splats, which optional attributes are present, how many f_rest_* harmonics, value family.
type PlyCase struct {
	N      int `json:"n"`
	Mask   int `json:"mask"`             // bit0 Normal, bit1 FDC, bit2 Scale, bit3 Rotation, bit4 Opacity
	Rest   int `json:"rest"`             // number of f_rest_k attributes (k = 0..Rest-1)
	Family int `json:"family"`           // value family (2 = non-periodic ladder values)
	Reader int `json:"reader,omitempty"` // io.Reader behaviour handed to ply.ReadMesh
}

type plyAttr struct {
	name  string
	dim   int
	props []string
}

func plyAttrs(pc PlyCase) []plyAttr {
	a := []plyAttr{{modeling.PositionAttribute, 3, []string{"x", "y", "z"}}}
	opt := []plyAttr{
		{modeling.NormalAttribute, 3, []string{"nx", "ny", "nz"}},
		{modeling.FDCAttribute, 3, []string{"f_dc_0", "f_dc_1", "f_dc_2"}},
		{modeling.ScaleAttribute, 3, []string{"scale_0", "scale_1", "scale_2"}},
		{modeling.RotationAttribute, 4, []string{"rot_0", "rot_1", "rot_2", "rot_3"}},
		{modeling.OpacityAttribute, 1, []string{"opacity"}},
	}
	for b, o := range opt {
		if pc.Mask&(1<<b) != 0 {
			a = append(a, o)
		}
	}
	for r := 0; r < pc.Rest; r++ {
		nm := fmt.Sprintf("f_rest_%d", r)
		a = append(a, plyAttr{nm, 1, []string{nm}})
	}
	return a
}

var plyLadder = core.Float32Ladder()

// plyValue: vertex-unique, attribute-unique, mostly float32-inexact values (so a swapped column,
// a swapped vertex or a lost digit is visible).
func plyValue(family, attr, comp, i int) float64 {
	if family >= 1000 {
		// float32 value ladder: rung (family-1000) + a position-dependent shift, so that every rung
		// passes through every column as the family runs over the ladder
		return float64(math.Float32frombits(plyLadder[(family-1000+5*attr+comp+17*i)%len(plyLadder)]))
	}
	switch family {
	case 0:
		v := 0.1 + 0.37*float64(attr) + 1.13*float64(comp) + 7.77*float64(i)
		if (attr+comp+i)%3 == 1 {
			v = -v
		}
		return v
	case 1:
		// magnitudes: tiny, large, exact integers, thirds
		base := []float64{1e-7, 123456.789, 3, -1.0 / 3, 65504.5, -2e-3}[(attr+2*comp+i)%6]
		return base * (1 + float64(attr)/64 + float64(comp)/8 + float64(i)/4)
	case 2:
		// size ladder: an irrational rotation per (attribute, component) — no period in i
		return (lds(i, irr[(attr*4+comp)%len(irr)]) - 0.5 + float64(attr%7)) * 37.3
	}
	return 0
}

// buildPlyCloud returns the cloud and, per attribute, the float32-rounded values (vertex-major, flat).
func buildPlyCloud(pc PlyCase) (modeling.Mesh, map[string][]float64) {
	want := map[string][]float64{}
	v1 := map[string][]float64{}
	v3 := map[string][]vector3.Float64{}
	v4 := map[string][]vector4.Float64{}
	for ai, a := range plyAttrs(pc) {
		flat := make([]float64, 0, pc.N*a.dim)
		var row [4]float64
		for i := 0; i < pc.N; i++ {
			for cI := 0; cI < a.dim; cI++ {
				row[cI] = plyValue(pc.Family, ai, cI, i)
				flat = append(flat, f32(row[cI]))
			}
			switch a.dim {
			case 1:
				v1[a.name] = append(v1[a.name], row[0])
			case 3:
				v3[a.name] = append(v3[a.name], vector3.New(row[0], row[1], row[2]))
			case 4:
				v4[a.name] = append(v4[a.name], vector4.New(row[0], row[1], row[2], row[3]))
			}
		}
		want[a.name] = flat
	}
	return modeling.NewPointCloud(v4, v3, nil, v1, nil), want
}

// refParsePly: independent reader of a binary_little_endian PLY with one float-only vertex element.
// Returns property name -> column of values.
func refParsePly(data []byte) (map[string][]float64, int, error) {
	end := bytes.Index(data, []byte("end_header\n"))
	if end < 0 {
		return nil, 0, fmt.Errorf("no end_header")
	}
	lines := strings.Split(string(data[:end]), "\n")
	if len(lines) < 2 || strings.TrimSpace(lines[0]) != "ply" {
		return nil, 0, fmt.Errorf("no ply magic")
	}
	n := -1
	var props []string
	format := ""
	inVertex := false
	for _, l := range lines[1:] {
		f := strings.Fields(l)
		if len(f) == 0 {
			continue
		}
		switch f[0] {
		case "format":
			format = f[1]
		case "comment", "obj_info":
		case "element":
			inVertex = f[1] == "vertex"
			if inVertex {
				v, err := strconv.Atoi(f[2])
				if err != nil {
					return nil, 0, err
				}
				n = v
			} else {
				return nil, 0, fmt.Errorf("unexpected element %q in a splat PLY", f[1])
			}
		case "property":
			if !inVertex {
				return nil, 0, fmt.Errorf("property outside vertex element")
			}
			if len(f) != 3 || (f[1] != "float" && f[1] != "float32") {
				return nil, 0, fmt.Errorf("splat property %q is not a float scalar", l)
			}
			props = append(props, f[2])
		default:
			return nil, 0, fmt.Errorf("unknown header line %q", l)
		}
	}
	if format != "binary_little_endian" {
		return nil, 0, fmt.Errorf("format %q", format)
	}
	if n < 0 {
		return nil, 0, fmt.Errorf("no vertex element")
	}
	body := data[end+len("end_header\n"):]
	if len(body) != 4*n*len(props) {
		return nil, 0, fmt.Errorf("body has %d bytes, header declares %d vertices x %d float properties", len(body), n, len(props))
	}
	cols := map[string][]float64{}
	for pi, p := range props {
		if _, dup := cols[p]; dup {
			return nil, 0, fmt.Errorf("duplicate property %q", p)
		}
		col := make([]float64, n)
		for i := 0; i < n; i++ {
			col[i] = float64(math.Float32frombits(binary.LittleEndian.Uint32(body[4*(i*len(props)+pi):])))
		}
		cols[p] = col
	}
	return cols, n, nil
}

func (k *checker) plyCase(pc PlyCase, scope string) {
	c := k.c
	cs := Case{Kind: "ply", Ply: &pc}
	class := fmt.Sprintf("n=%d/rest=%d", min(pc.N, 2), pc.Rest)
	if pc.N > 5 {
		class = fmt.Sprintf("ladder/rest=%d", pc.Rest)
	}
	if pc.Reader != rdAll {
		class += "/" + modeName(pc.Reader)
	}
	mesh, want := buildPlyCloud(pc)
	var buf bytes.Buffer
	var werr error
	o := core.Guard(func() { werr = ply.SplatPly{Mesh: mesh}.Write(&buf) })
	if o.Panicked || werr != nil {
		c.Eval(scope, "write-failed")
		site := "ply.SplatPly.Write"
		if o.Crash() {
			site = core.TopFrame(o.Stack)
		}
		k.fail(site, "exporting a splat cloud succeeds", class, fmt.Sprint(o.Msg, " ", werr), cs)
		return
	}
	data := append([]byte{}, buf.Bytes()...)
	outcome := "ok"
	defer func() { c.Eval(scope, outcome) }()
	if pc.N > 0 {
		c.Nontrivial("ply", pc.N, pc.Mask, pc.Rest, pc.Family, pc.Reader)
	}
	c.Sample(scope, map[string]any{"case": pc, "bytes": len(data)})
	const clause = "the PLY splat export preserves every splat attribute at float32 precision"
	attrs := plyAttrs(pc)

	// the writer, judged by the independent parser
	writerBad := false
	cols, n, perr := refParsePly(data)
	if perr != nil {
		outcome, writerBad = "mismatch", true
		k.fail("ply.SplatPly.Write", "the export is a well-formed binary PLY with one float vertex element", class, perr.Error(), cs)
	} else {
		if n != pc.N {
			outcome, writerBad = "mismatch", true
			k.fail("ply.SplatPly.Write", clause, class+"/count", fmt.Sprintf("header declares %d vertices, cloud has %d", n, pc.N), cs)
		}
		for _, a := range attrs {
			if pc.N == 0 || writerBad {
				break
			}
			for cI, p := range a.props {
				col, ok := cols[p]
				if !ok {
					outcome, writerBad = "mismatch", true
					k.fail("ply.SplatPly.Write", clause, class+"/missing-property", fmt.Sprintf("attribute %s: property %q not written", a.name, p), cs)
					break
				}
				for i := 0; i < pc.N; i++ {
					if col[i] != want[a.name][i*a.dim+cI] {
						outcome, writerBad = "mismatch", true
						k.fail("ply.SplatPly.Write", clause, class+"/value", fmt.Sprintf("attribute %s property %q vertex %d: file holds %v, want %v", a.name, p, i, col[i], want[a.name][i*a.dim+cI]), cs)
						break
					}
				}
			}
		}
	}

	// the reader
	var back *modeling.Mesh
	var rerr error
	o = core.Guard(func() { back, rerr = ply.ReadMesh(shaped(data, pc.Reader)) })
	if o.Panicked || rerr != nil || back == nil {
		outcome = "mismatch"
		site := "ply.ReadMesh"
		if o.Crash() {
			site = core.TopFrame(o.Stack)
		}
		if !writerBad {
			k.fail(site, "the exported PLY reads back", class, fmt.Sprint(o.Msg, " ", rerr), cs)
		}
		return
	}
	if writerBad {
		return
	}
	if back.AttributeLength() != pc.N || back.PrimitiveCount() != pc.N {
		outcome = "mismatch"
		k.fail("ply.ReadMesh", clause, class+"/count", fmt.Sprintf("read back %d attributes / %d primitives, want %d", back.AttributeLength(), back.PrimitiveCount(), pc.N), cs)
		return
	}
	if pc.N == 0 {
		return
	}
	for _, a := range attrs {
		var got []float64
		o = core.Guard(func() {
			switch a.dim {
			case 1:
				it := back.Float1Attribute(a.name)
				for i := 0; i < it.Len(); i++ {
					got = append(got, it.At(i))
				}
			case 3:
				it := back.Float3Attribute(a.name)
				for i := 0; i < it.Len(); i++ {
					v := it.At(i)
					got = append(got, v.X(), v.Y(), v.Z())
				}
			case 4:
				it := back.Float4Attribute(a.name)
				for i := 0; i < it.Len(); i++ {
					v := it.At(i)
					got = append(got, v.X(), v.Y(), v.Z(), v.W())
				}
			}
		})
		if o.Panicked {
			outcome = "mismatch"
			k.fail("ply.ReadMesh", clause, class+"/missing-attribute", fmt.Sprintf("attribute %s (%d components) not read back: %s", a.name, a.dim, o.Msg), cs)
			continue
		}
		w := want[a.name]
		if len(got) != len(w) {
			outcome = "mismatch"
			k.fail("ply.ReadMesh", clause, class+"/count", fmt.Sprintf("attribute %s: read back %d values, want %d", a.name, len(got), len(w)), cs)
			continue
		}
		for j := range w {
			if got[j] != w[j] {
				outcome = "mismatch"
				k.fail("ply.ReadMesh", clause, class+"/value", fmt.Sprintf("attribute %s vertex %d component %d: got %v want %v (reader: %s)", a.name, j/a.dim, j%a.dim, got[j], w[j], modeName(pc.Reader)), cs)
				break
			}
		}
	}
}

func (k *checker) runPlyValues() {
	c := k.c
	for r := range plyLadder {
		if !k.mine() {
			continue
		}
		k.plyCase(PlyCase{N: 3, Mask: 31, Rest: 3, Family: 1000 + r, Reader: r % len(readerModes)}, "ply/value-ladder")
	}
	c.Bound("ply.value_ladder", fmt.Sprintf("%d float32 values through every column of a 3-splat cloud with all attributes and 3 f_rest harmonics", len(plyLadder)))
}

func (k *checker) runPly() {
	c := k.c
	maxN, rests, fams := 3, []int{0, 1, 9, 24, 45}, []int{0, 1}
	if c.Thorough() {
		maxN = 5
		rests = nil
		for r := 0; r <= 45; r++ {
			rests = append(rests, r)
		}
	}
	c.Bound("ply.points", fmt.Sprintf("0..%d", maxN))
	c.Bound("ply.f_rest_counts", rests)
	c.Bound("ply.attribute_subsets", "all 32 subsets of {Normal, FDC, Scale, Rotation, Opacity} (Position always present)")
	c.Bound("ply.value_families", len(fams))
	for n := 0; n <= maxN; n++ {
		for mask := 0; mask < 32; mask++ {
			if !k.mine() {
				continue
			}
			for _, rest := range rests {
				for _, fam := range fams {
					for mode := range readerModes {
						k.plyCase(PlyCase{N: n, Mask: mask, Rest: rest, Family: fam, Reader: mode}, fmt.Sprintf("ply/n=%d", min(n, 2)))
					}
				}
			}
		}
	}
}
