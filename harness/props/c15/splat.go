package c15

import (
	"bytes"
	"encoding/binary"
	"fmt"
	"math"

	"github.com/EliCDavis/polyform/formats/splat"
	"github.com/EliCDavis/polyform/generator/artifact"
	"github.com/EliCDavis/polyform/modeling"
	"github.com/EliCDavis/polyform/nodes"
	"github.com/EliCDavis/vector/vector3"
	"github.com/EliCDavis/vector/vector4"

	"verif/harness/core"
)

// Part (a): .splat write -> read.
//
// Layout (antimatter15/splat convert.py, the layout the repository cites): 32 bytes per splat,
// little endian: 3 x f32 position, 3 x f32 exp(scale), 4 x u8 rgba = clip((0.5 + SH_C0*f_dc, sigmoid(opacity))*255),
// 4 x u8 rotation = clip(q*128 + 128).

const shC0 = 0.28209479177387814

// SplatIn is one input splat (all finite).
type SplatIn struct {
	Pos   [3]float64 `json:"pos"`
	Scale [3]float64 `json:"scale"`
	FDC   [3]float64 `json:"fdc"`
	Op    float64    `json:"op"`
	Rot   [4]float64 `json:"rot"`
}

var (
	rotA   = []float64{-1, -0.5, 0, 0.5, 1}
	opA    = []float64{-10, 0, 10}
	fdcA   = []float64{-3, -0.5 / shC0, 0.25, 0.5 / shC0, 3} // below, lower edge, inside, upper edge, above the displayable range
	scaleA = []float64{-3, 0, 2}
	// float32-exact and float32-inexact coordinates, large, tiny (float32 subnormal) and negative
	posA = [][3]float64{{0, 0, 0}, {1, -2.5, 0.1}, {16777217, 1e-3, -1e10}, {3e38, 1e-40, -1. / 3}}
)

func sigmoid(x float64) float64 { return 1 / (1 + math.Exp(-x)) }

// refDecodeSplat is the independent reader of one 32-byte record.
func refDecodeSplat(b []byte) (s SplatIn) {
	for c := 0; c < 3; c++ {
		s.Pos[c] = float64(math.Float32frombits(binary.LittleEndian.Uint32(b[4*c:])))
		s.Scale[c] = math.Log(float64(math.Float32frombits(binary.LittleEndian.Uint32(b[12+4*c:]))))
		s.FDC[c] = (float64(b[24+c])/255 - 0.5) / shC0
	}
	a := float64(b[27]) / 255
	s.Op = math.Log(a / (1 - a)) // -Inf for byte 0, +Inf for byte 255: exact in sigmoid space
	for c := 0; c < 4; c++ {
		s.Rot[c] = (float64(b[28+c]) - 128) / 128
	}
	return
}

// splatFieldErrors lists the fields of `out` that are further from `in` than the property allows.
func splatFieldErrors(in, out SplatIn) (bad []string) {
	const eps = 1e-9
	for c := 0; c < 3; c++ {
		if out.Pos[c] != f32(in.Pos[c]) {
			bad = append(bad, fmt.Sprintf("position[%d] in=%v out=%v want=%v", c, in.Pos[c], out.Pos[c], f32(in.Pos[c])))
		}
		// float32 rounding of exp(s) is a relative error of 2^-24, i.e. an absolute error of 2^-24 after log
		if !(math.Abs(out.Scale[c]-in.Scale[c]) <= 1.0/(1<<23)) {
			bad = append(bad, fmt.Sprintf("scale[%d] in=%v out=%v", c, in.Scale[c], out.Scale[c]))
		}
		cin := math.Min(1, math.Max(0, in.FDC[c]*shC0+0.5))
		cout := out.FDC[c]*shC0 + 0.5
		if !(math.Abs(cin-cout) <= 1.0/255+eps) {
			bad = append(bad, fmt.Sprintf("colour[%d] in=%v (display %v) out=%v (display %v)", c, in.FDC[c], cin, out.FDC[c], cout))
		}
	}
	if !(math.Abs(sigmoid(in.Op)-sigmoid(out.Op)) <= 1.0/255+eps) {
		bad = append(bad, fmt.Sprintf("opacity in=%v (alpha %v) out=%v (alpha %v)", in.Op, sigmoid(in.Op), out.Op, sigmoid(out.Op)))
	}
	for c := 0; c < 4; c++ {
		if !(math.Abs(in.Rot[c]-out.Rot[c]) <= 1.0/128+eps) {
			bad = append(bad, fmt.Sprintf("rotation[%d] in=%v out=%v", c, in.Rot[c], out.Rot[c]))
		}
	}
	return
}

func fieldOf(msg string) string {
	for i := 0; i < len(msg); i++ {
		if msg[i] == '[' || msg[i] == ' ' {
			return msg[:i]
		}
	}
	return msg
}

// splatEdgeClass names the quantisation edge a failing input sits on (deterministic input class).
func splatEdgeClass(field string, in SplatIn) string {
	switch field {
	case "rotation":
		for _, r := range in.Rot {
			if r*128+128 > 255 {
				return "rotation/component-at-upper-edge"
			}
		}
		return "rotation/interior"
	case "colour":
		for _, f := range in.FDC {
			if f*shC0+0.5 > 1 || f*shC0+0.5 < 0 {
				return "colour/outside-displayable-range"
			}
		}
		return "colour/inside-displayable-range"
	}
	return field
}

func buildSplatMesh(in []SplatIn) modeling.Mesh {
	n := len(in)
	pos := make([]vector3.Float64, n)
	sc := make([]vector3.Float64, n)
	fdc := make([]vector3.Float64, n)
	op := make([]float64, n)
	rot := make([]vector4.Float64, n)
	for i, s := range in {
		pos[i] = vector3.New(s.Pos[0], s.Pos[1], s.Pos[2])
		sc[i] = vector3.New(s.Scale[0], s.Scale[1], s.Scale[2])
		fdc[i] = vector3.New(s.FDC[0], s.FDC[1], s.FDC[2])
		op[i] = s.Op
		rot[i] = vector4.New(s.Rot[0], s.Rot[1], s.Rot[2], s.Rot[3])
	}
	return modeling.NewPointCloud(
		map[string][]vector4.Float64{modeling.RotationAttribute: rot},
		map[string][]vector3.Float64{modeling.PositionAttribute: pos, modeling.ScaleAttribute: sc, modeling.FDCAttribute: fdc},
		nil,
		map[string][]float64{modeling.OpacityAttribute: op},
		nil)
}

// splatCase runs one cloud through splat.Write and splat.Read.
// cs is the replay record (Kind "splat" carries the cloud, "splat-ladder" only its size); cs.Reader
// selects the io.Reader behaviour of the read side.
func (k *checker) splatCase(in []SplatIn, scope string, cs Case) {
	c := k.c
	n := len(in)
	if cs.Kind == "" {
		cs = Case{Kind: "splat", Splat: in, Reader: cs.Reader}
	}
	mode := cs.Reader
	const clauseCount = "same number of splats in order"
	var buf bytes.Buffer
	var werr, rerr error
	var back modeling.Mesh
	o := core.Guard(func() { werr = splat.Write(&buf, buildSplatMesh(in)) })
	if o.Panicked || werr != nil {
		c.Eval(scope, "write-failed")
		site := "splat.Write"
		if o.Crash() {
			site = core.TopFrame(o.Stack)
		}
		k.fail(site, "writing a finite splat cloud succeeds", fmt.Sprintf("n=%d", min(n, 2)), fmt.Sprint(o.Msg, werr), cs)
		return
	}
	written := append([]byte{}, buf.Bytes()...)
	// the node-graph entry point (splat.ArtifactNode) writes the same bytes
	if mode == 0 {
		var nb bytes.Buffer
		var nerr error
		g := core.Guard(func() {
			var art artifact.Artifact
			if art, nerr = (splat.ArtifactNodeData{In: nodes.Value(buildSplatMesh(in)).Out()}).Process(); nerr == nil {
				nerr = art.Write(&nb)
			}
		})
		if g.Panicked || nerr != nil || !bytes.Equal(nb.Bytes(), written) {
			k.fail("splat.ArtifactNodeData.Process", "the node-graph entry point writes the bytes splat.Write writes", fmt.Sprintf("n=%d", min(n, 2)), fmt.Sprint("artifact bytes differ from splat.Write's ", g.Msg, " ", nerr), cs)
		}
	}
	o = core.Guard(func() { back, rerr = splat.Read(shaped(written, mode)) })
	if o.Panicked || rerr != nil {
		c.Eval(scope, "read-failed")
		site := "splat.Read"
		if o.Crash() {
			site = core.TopFrame(o.Stack)
		}
		k.fail(site, "reading back a written splat cloud succeeds", fmt.Sprintf("n=%d/%s", min(n, 2), modeName(mode)), fmt.Sprint(o.Msg, rerr), cs)
		return
	}
	outcome := "ok"
	defer func() { c.Eval(scope, outcome) }()
	if cs.Kind == "splat-ladder" {
		c.Nontrivial("splat-ladder", n, mode)
		c.Sample(scope, map[string]any{"case": cs, "bytes": len(written)})
	} else {
		if n > 0 {
			c.Nontrivial("splat", fmt.Sprint(in), mode)
		}
		c.Sample(scope, map[string]any{"splats": in, "reader": modeName(mode), "bytes": len(written)})
	}
	reported := 0 // at most a few records per case are written out

	// the writer, judged by the independent reader
	if len(written) != 32*n {
		outcome = "mismatch"
		k.fail("splat.Write", clauseCount, "file-length", fmt.Sprintf("n=%d wrote %d bytes, want %d", n, len(written), 32*n), cs)
		return
	}
	ref := make([]SplatIn, n)
	writerBad := false
	for i := range in {
		ref[i] = refDecodeSplat(written[32*i:])
		for _, msg := range splatFieldErrors(in[i], ref[i]) {
			outcome, writerBad = "mismatch", true
			if reported++; reported > 4 {
				break
			}
			f := fieldOf(msg)
			k.fail("splat.Write", splatClause(f), splatEdgeClass(f, in[i]), fmt.Sprintf("record %d of %d (bytes decoded by the reference reader): %s", i, n, msg), cs)
		}
	}
	// the reader
	if back.AttributeLength() != n || back.PrimitiveCount() != n {
		outcome = "mismatch"
		k.fail("splat.Read", clauseCount, "count/"+sizeClass(n)+"/"+modeName(mode), fmt.Sprintf("n=%d read back %d attributes / %d primitives (reader: %s)", n, back.AttributeLength(), back.PrimitiveCount(), modeName(mode)), cs)
		return
	}
	if n == 0 {
		return
	}
	var out []SplatIn
	o = core.Guard(func() { out = readSplatMesh(back, n) })
	if o.Panicked {
		outcome = "mismatch"
		k.fail("splat.Read", "all attribute arrays are present with the number of splats", "missing-attribute", o.Msg, cs)
		return
	}
	for i := range in {
		if reported > 4 {
			break
		}
		if bad := splatFieldErrors(in[i], out[i]); len(bad) > 0 && !writerBad {
			// bytes were fine, so the reader is at fault
			outcome = "mismatch"
			reported++
			f := fieldOf(bad[0])
			k.fail("splat.Read", splatClause(f), splatEdgeClass(f, in[i])+"/"+sizeClass(n), fmt.Sprintf("record %d of %d (reader: %s): %s (reference reader gives %+v)", i, n, modeName(mode), bad[0], ref[i]), cs)
		}
		if !sameSplat(out[i], ref[i]) {
			outcome = "mismatch"
			reported++
			k.fail("splat.Read", "splat i read back is the dequantisation of record i", fmt.Sprintf("record-%d/%s/%s", min(i, 1), sizeClass(n), modeName(mode)), fmt.Sprintf("record %d of %d (reader: %s): read %+v, reference reader gives %+v", i, n, modeName(mode), out[i], ref[i]), cs)
		}
	}
}

// sizeClass separates the small scopes from the size ladder in violation classes.
func sizeClass(n int) string {
	if n <= 5 {
		return "small"
	}
	return "ladder"
}

func splatClause(field string) string {
	switch field {
	case "position":
		return "positions are float32-exact"
	case "scale":
		return "scales equal up to float32 rounding of exp/log"
	case "colour":
		return "colour within one 8-bit step (clamped to the displayable range)"
	case "opacity":
		return "opacity within one 8-bit step (sigmoid space)"
	case "rotation":
		return "rotation within one 8-bit step"
	}
	return field
}

func sameSplat(a, b SplatIn) bool {
	ok := same(a.Op, b.Op, 1e-9)
	for c := 0; c < 3; c++ {
		ok = ok && same(a.Pos[c], b.Pos[c], 0) && same(a.Scale[c], b.Scale[c], 1e-12) && same(a.FDC[c], b.FDC[c], 1e-12)
	}
	for c := 0; c < 4; c++ {
		ok = ok && same(a.Rot[c], b.Rot[c], 1e-12)
	}
	return ok
}

func readSplatMesh(m modeling.Mesh, n int) []SplatIn {
	pos := m.Float3Attribute(modeling.PositionAttribute)
	sc := m.Float3Attribute(modeling.ScaleAttribute)
	fdc := m.Float3Attribute(modeling.FDCAttribute)
	op := m.Float1Attribute(modeling.OpacityAttribute)
	rot := m.Float4Attribute(modeling.RotationAttribute)
	if pos.Len() != n || sc.Len() != n || fdc.Len() != n || op.Len() != n || rot.Len() != n {
		panic(fmt.Sprintf("attribute lengths %d %d %d %d %d, want %d", pos.Len(), sc.Len(), fdc.Len(), op.Len(), rot.Len(), n))
	}
	out := make([]SplatIn, n)
	for i := range out {
		p, s, f, r := pos.At(i), sc.At(i), fdc.At(i), rot.At(i)
		out[i] = SplatIn{Pos: [3]float64{p.X(), p.Y(), p.Z()}, Scale: [3]float64{s.X(), s.Y(), s.Z()}, FDC: [3]float64{f.X(), f.Y(), f.Z()},
			Op: op.At(i), Rot: [4]float64{r.X(), r.Y(), r.Z(), r.W()}}
	}
	return out
}

// alphabetSplat is member j of the reduced per-splat alphabet used for clouds of 2 and 3 splats:
// every member differs from every other in every field (so a permuted or re-used record is visible)
// and the members walk through all quantisation edges.
func alphabetSplat(j int) SplatIn {
	var s SplatIn
	fj := float64(j)
	s.Pos = [3]float64{fj + 0.1, -0.5 * fj, fj*fj + 0.25}
	for c := 0; c < 3; c++ {
		s.Scale[c] = scaleA[(j+c)%3] + 0.01*fj
		s.FDC[c] = fdcA[(2*j+c)%5] + 0.001*fj
	}
	s.Op = opA[j%3] + 0.01*fj
	for c := 0; c < 4; c++ {
		s.Rot[c] = rotA[(j+c)%5]
	}
	return s
}

func (k *checker) runSplat() {
	c := k.c
	// n = 0
	if k.mine() {
		k.splatCase(nil, "splat/n=0", Case{})
	}
	// n = 1: products of the field alphabets
	nr := 625
	rot := func(r int) [4]float64 {
		return [4]float64{rotA[r%5], rotA[r/5%5], rotA[r/25%5], rotA[r/125%5]}
	}
	tri := func(a []float64, i int) [3]float64 {
		n := len(a)
		return [3]float64{a[i%n], a[i/n%n], a[i/(n*n)%n]}
	}
	diag := func(a []float64, i int) [3]float64 {
		n := len(a)
		return [3]float64{a[i%n], a[(i+1)%n], a[(i+2)%n]}
	}
	if c.Thorough() {
		// full product: rotation 5^4 x opacity 3 x colour 5^3 x scale 3^3 x position 4
		for r := 0; r < nr; r++ {
			if !k.mine() {
				continue
			}
			if c.Expired() {
				return
			}
			for o := range opA {
				for f := 0; f < 125; f++ {
					for s := 0; s < 27; s++ {
						for p := range posA {
							k.splatCase([]SplatIn{{Pos: posA[p], Scale: tri(scaleA, s), FDC: tri(fdcA, f), Op: opA[o], Rot: rot(r)}}, "splat/n=1", Case{Reader: (r + o + f + s + p) % 4})
						}
					}
				}
			}
		}
		c.Bound("splat.n1", "full product rotation 5^4 x opacity 3 x colour 5^3 x scale 3^3 x position 4")
	} else {
		// two sub-products that together contain every value of every field with every value of its own
		// other components: (rotation 5^4 x opacity 3 x colour-diagonals 5 x scale-diagonals 3) and
		// (colour 5^3 x scale 3^3 x opacity 3 x rotation-diagonals); positions cycle.
		for r := 0; r < nr; r++ {
			if !k.mine() {
				continue
			}
			for o := range opA {
				for f := 0; f < 5; f++ {
					for s := 0; s < 3; s++ {
						k.splatCase([]SplatIn{{Pos: posA[(r+o+f+s)%len(posA)], Scale: diag(scaleA, s), FDC: diag(fdcA, f), Op: opA[o], Rot: rot(r)}}, "splat/n=1", Case{Reader: (r + o + f + s) % 4})
					}
				}
			}
		}
		for f := 0; f < 125; f++ {
			if !k.mine() {
				continue
			}
			for s := 0; s < 27; s++ {
				for o := range opA {
					r := (f + s + o) % 5
					k.splatCase([]SplatIn{{Pos: posA[(f+s+o)%len(posA)], Scale: tri(scaleA, s), FDC: tri(fdcA, f), Op: opA[o],
						Rot: [4]float64{rotA[r], rotA[(r+1)%5], rotA[(r+2)%5], rotA[(r+3)%5]}}}, "splat/n=1", Case{Reader: (f + s + o) % 4})
				}
			}
		}
		c.Bound("splat.n1", "rotation 5^4 x opacity 3 x colour-diagonal 5 x scale-diagonal 3, plus colour 5^3 x scale 3^3 x opacity 3 x rotation-diagonal")
	}
	// n = 2, 3: every ordered tuple over the reduced alphabet
	ka := 10
	if c.Thorough() {
		ka = 25
	}
	c.Bound("splat.alphabet_n2_n3", ka)
	for a := 0; a < ka; a++ {
		for b := 0; b < ka; b++ {
			if !k.mine() {
				continue
			}
			if c.Expired() {
				return
			}
			// clouds of two and three splats: every reader behaviour
			for mode := range readerModes {
				k.splatCase([]SplatIn{alphabetSplat(a), alphabetSplat(b)}, "splat/n=2", Case{Reader: mode})
				for d := 0; d < ka; d++ {
					k.splatCase([]SplatIn{alphabetSplat(a), alphabetSplat(b), alphabetSplat(d)}, "splat/n=3", Case{Reader: mode})
				}
			}
		}
	}
	c.Bound("splat.max_splats", 3)
}
