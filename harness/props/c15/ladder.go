package c15

import (
	"fmt"
	"math"
)

// Size ladder: counts around every power of two, to meet thresholds a change may *introduce*
// (block sizes, chunked decoding, buffer growth) that the small scopes cannot reach.

// ladderSizes: 2^k-1, 2^k, 2^k+1 and 2^k+floor(2^k/3) for k = 2..maxK.
func ladderSizes(maxK int) []int {
	var out []int
	for k := 2; k <= maxK; k++ {
		p := 1 << k
		out = append(out, p-1, p, p+1, p+p/3)
	}
	return out
}

// lds: Kronecker sequence frac((i+1)*alpha) — no period, in particular no power-of-two period.
func lds(i int, alpha float64) float64 {
	x := float64(i+1) * alpha
	return x - math.Floor(x)
}

var irr = []float64{
	0.6180339887498949, 0.41421356237309515, 0.7320508075688772, 0.23606797749978958, 0.6457513110645907,
	0.3166247903553998, 0.605551275463989, 0.1231056256176606, 0.358898943540674, 0.7958315233127191,
	0.5677643628300215, 0.0827625302982193, 0.4031242374328485, 0.5574385243020004, 0.8556546004010439,
	0.2801098892805183, 0.6811457478686078, 0.8102496759066544,
}

// ladderSplat: the i-th splat of the ladder clouds; every field follows its own irrational rotation.
func ladderSplat(i int) SplatIn {
	var s SplatIn
	for c := 0; c < 3; c++ {
		s.Pos[c] = (lds(i, irr[c]) - 0.5) * 200
		s.Scale[c] = lds(i, irr[3+c])*7 - 4
		s.FDC[c] = lds(i, irr[6+c])*8 - 4
	}
	s.Op = lds(i, irr[9])*24 - 12
	for c := 0; c < 4; c++ {
		s.Rot[c] = lds(i, irr[10+c])*2 - 1
	}
	if i%97 == 13 { // sprinkle the upper rotation edge through the cloud
		s.Rot[i%4] = 1
	}
	return s
}

func ladderCloud(n int) []SplatIn {
	in := make([]SplatIn, n)
	for i := range in {
		in[i] = ladderSplat(i)
	}
	return in
}

// ladderByte: byte `off` of SPZ record i.
func ladderByte(i, off int) byte { return byte(256 * lds(i*67+off, irr[0])) }

func ladderRecs(version, deg, n int) [][]byte {
	l := recLen(version, deg)
	flat := make([]byte, n*l)
	recs := make([][]byte, n)
	for i := range recs {
		recs[i] = flat[i*l : (i+1)*l]
		for off := range recs[i] {
			recs[i][off] = ladderByte(i, off)
		}
	}
	return recs
}

// halfAllRecs: 65536 version-1 records whose x, y, z half-floats run through every 16-bit pattern
// (x ascending, y descending, z in a multiplicative shuffle).
func halfAllRecs(deg int) [][]byte {
	recs := ladderRecs(1, deg, 65536)
	for i, r := range recs {
		for c, h := range [3]uint16{uint16(i), uint16(65535 - i), uint16(i * 40503)} {
			r[2*c], r[2*c+1] = byte(h), byte(h>>8)
		}
	}
	return recs
}

func (k *checker) runLadder() {
	c := k.c
	maxK := 14
	if c.Thorough() {
		maxK = 16
	}
	sizes := ladderSizes(maxK)
	c.Bound("ladder.sizes", fmt.Sprintf("2^k-1, 2^k, 2^k+1, 2^k+floor(2^k/3) for k=2..%d (%d counts, largest %d)", maxK, len(sizes), sizes[len(sizes)-1]))
	c.Bound("ladder.readers", readerModes)
	c.Bound("ladder.spz", "versions 1,2 x SH degree 0,3 x fractional bits 12; stored-block gzip for every reader behaviour, deflate gzip all-at-once; plus all 65536 half-float patterns in every position component (version 1)")
	c.Bound("ladder.ply", "all attributes + 45 harmonics, and position/FDC/scale/rotation/opacity without harmonics")
	for _, n := range sizes {
		if c.Expired() {
			return
		}
		top := n >= 1<<(maxK-1)
		if k.mine() {
			in := ladderCloud(n)
			for mode := range readerModes {
				k.splatCase(in, "ladder/splat", Case{Kind: "splat-ladder", N: n, Reader: mode})
			}
			if top { // the top rungs also with the process limited to three processors (default two)
				c.WithProcs(3, func() { k.splatCase(in, "ladder/splat", Case{Kind: "splat-ladder", N: n, Reader: rdAll}) })
			}
		}
		for _, version := range []int{1, 2} {
			for _, deg := range []int{0, 3} {
				if !k.mine() {
					continue
				}
				for mode := range readerModes {
					k.spzCase(SpzFile{Version: version, Deg: deg, FB: 12, Container: "stored", Family: "ladder", Gen: "ladder", N: n, Reader: mode}, "ladder/spz")
				}
				k.spzCase(SpzFile{Version: version, Deg: deg, FB: 12, Container: "deflate", Family: "ladder", Gen: "ladder", N: n, Reader: rdAll}, "ladder/spz")
				if top {
					c.WithProcs(3, func() {
						k.spzCase(SpzFile{Version: version, Deg: deg, FB: 12, Container: "deflate", Family: "ladder", Gen: "ladder", N: n, Reader: rdAll}, "ladder/spz")
					})
				}
			}
		}
		for _, cfg := range [][2]int{{31, 45}, {30, 0}} {
			if !k.mine() {
				continue
			}
			for mode := range readerModes {
				k.plyCase(PlyCase{N: n, Mask: cfg[0], Rest: cfg[1], Family: 2, Reader: mode}, "ladder/ply")
			}
		}
	}
	// every binary16 pattern
	for _, deg := range []int{0, 1} {
		for mode := range readerModes {
			if k.mine() {
				k.spzCase(SpzFile{Version: 1, Deg: deg, FB: 0, Container: "stored", Family: "half-all", Gen: "half-all", N: 65536, Reader: mode}, "spz/v1/all-half-patterns")
			}
		}
	}
}
