package c15

import (
	"bytes"
	"io"

	"verif/harness/core"
)

// Four legal io.Reader behaviours every read side must tolerate with an identical result.
const (
	rdAll     = iota // everything available at once (bytes.Reader)
	rdByte           // one byte per Read
	rdHalf           // at most half of the requested bytes per Read
	rdDataEOF        // the final chunk is returned together with io.EOF in the same call
	rdBehind7        // a bytes.Reader that has already been read up to offset 7, where the data starts
	rdBehind64       // the same behind 64 bytes (a multiple of the .splat record size)
)

var readerModes = []string{"all-at-once", "one-byte-per-read", "half-reads", "final-chunk-with-eof", "positioned-behind-7-consumed-bytes", "positioned-behind-64-consumed-bytes"}

type shapedReader struct {
	data []byte
	pos  int
	mode int
}

func (r *shapedReader) Read(p []byte) (int, error) {
	if len(p) == 0 {
		return 0, nil
	}
	rest := len(r.data) - r.pos
	if rest == 0 {
		return 0, io.EOF
	}
	n := len(p)
	switch r.mode {
	case rdByte:
		n = 1
	case rdHalf:
		n = (len(p) + 1) / 2
	}
	if n > rest {
		n = rest
	}
	copy(p, r.data[r.pos:r.pos+n])
	r.pos += n
	if r.mode == rdDataEOF && r.pos == len(r.data) {
		return n, io.EOF
	}
	return n, nil
}

func shaped(data []byte, mode int) io.Reader {
	switch mode {
	case rdAll:
		return bytes.NewReader(data)
	case rdBehind7:
		return core.Positioned(data, 7)
	case rdBehind64:
		return core.Positioned(data, 64)
	}
	return &shapedReader{data: data, mode: mode}
}

func modeName(m int) string {
	if m >= 0 && m < len(readerModes) {
		return readerModes[m]
	}
	return "?"
}
