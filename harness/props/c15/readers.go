package c15

import (
	"bytes"
	"io"
)

// Four legal io.Reader behaviours every read side must tolerate with an identical result.
const (
	rdAll     = iota // everything available at once (bytes.Reader)
	rdByte           // one byte per Read
	rdHalf           // at most half of the requested bytes per Read
	rdDataEOF        // the final chunk is returned together with io.EOF in the same call
)

var readerModes = []string{"all-at-once", "one-byte-per-read", "half-reads", "final-chunk-with-eof"}

type shapedReader struct {
	data []byte
	pos  int
	mode int
}

func (r *shapedReader) Read(p []byte) (int, error) {
	if len(p) == 0 {
		return 0, nil
	}
	rest := len(r.data) - r.pos
	if rest == 0 {
		return 0, io.EOF
	}
	n := len(p)
	switch r.mode {
	case rdByte:
		n = 1
	case rdHalf:
		n = (len(p) + 1) / 2
	}
	if n > rest {
		n = rest
	}
	copy(p, r.data[r.pos:r.pos+n])
	r.pos += n
	if r.mode == rdDataEOF && r.pos == len(r.data) {
		return n, io.EOF
	}
	return n, nil
}

func shaped(data []byte, mode int) io.Reader {
	if mode == rdAll {
		return bytes.NewReader(data)
	}
	return &shapedReader{data: data, mode: mode}
}

func modeName(m int) string {
	if m >= 0 && m < len(readerModes) {
		return readerModes[m]
	}
	return "?"
}
