package c15

// Value ladders of part (a): the field alphabets of the small scopes hold three to five ordinary
// values per field; the .splat writer, however, passes every field through a value-dependent map
// (float32 narrowing, exp, sigmoid, clamp, 8-bit quantisation).  Here every field in turn runs
// through a ladder of finite values reaching the ends of its domain — positions over the whole
// float32 ladder, opacities and colours over the whole finite float64 range (their maps saturate),
// scales over the range whose exp is a normal float32, rotation components over [-1,1] — while the
// other fields keep ordinary values; the ladder splat is the second of two.

import (
	"bytes"
	"fmt"
	"io"
	"math"

	"github.com/EliCDavis/polyform/formats/splat"
	"github.com/EliCDavis/polyform/formats/spz"

	"verif/harness/core"
	"verif/harness/meshlib"
)

func plusMinus(vs ...float64) []float64 {
	var out []float64
	for _, v := range vs {
		out = append(out, v, -v) // -0 for v == 0
	}
	return out
}

var (
	opLadder  = plusMinus(0, 1e-300, 1e-10, 1e-3, 0.5, 1, 2, 5.5, 10, 17, 20, 36, 37, 40, 100, 500, 700, 709, 709.7, 709.8, 710, 745, 746, 1000, 1e6, 1e100, 1e300, math.MaxFloat64)
	fdcLadder = plusMinus(0, 1e-300, 1e-10, 1e-3, 0.5, 1, 1.7, 0.5/shC0, 0.5/shC0*(1+1e-15), 0.5/shC0*(1-1e-15), 2, 10, 1e3, 1e10, 1e100, 1e300, math.MaxFloat64)
	scLadder  = append(plusMinus(0, 1e-300, 1e-10, 1e-3, 1, 10, 20, 50, 80, 87), 88, 88.5, 88.72)
	rotLadder = plusMinus(0, 1e-300, 1e-10, 1.0/256, 1.0/128, 0.5, 127.0/128, 1-0x1p-53, 1)
)

func (k *checker) runSplatValues() {
	c := k.c
	base := alphabetSplat(3)
	base.Rot = [4]float64{0.5, -0.5, 0.5, -0.5}
	first := alphabetSplat(1)
	n := 0
	run := func(field string, s SplatIn) {
		n++
		if !k.mine() {
			return
		}
		k.splatCase([]SplatIn{first, s}, "splat/values/"+field, Case{Reader: n % len(readerModes)})
	}
	lad := core.Float32Ladder()
	for _, b := range lad {
		v := float64(math.Float32frombits(b))
		for comp := 0; comp < 3; comp++ {
			s := base
			s.Pos[comp] = v
			run("position", s)
		}
	}
	for comp := 0; comp < 3; comp++ {
		for _, v := range scLadder {
			s := base
			s.Scale[comp] = v
			run("scale", s)
		}
		for _, v := range fdcLadder {
			s := base
			s.FDC[comp] = v
			run("colour", s)
		}
	}
	for _, v := range opLadder {
		s := base
		s.Op = v
		run("opacity", s)
	}
	for comp := 0; comp < 4; comp++ {
		for _, v := range rotLadder {
			s := base
			s.Rot[comp] = v
			run("rotation", s)
		}
	}
	c.Bound("splat.value_ladders", fmt.Sprintf("position: %d float32 values x 3 components; scale %v; colour (f_dc) %v; opacity %v; rotation component %v — each in the second of two splats, the other fields ordinary", len(lad), scLadder, fdcLadder, opLadder, rotLadder))
}

// a write after a failed write (core.AfterFailedWrite): splat.Write of a 3-splat cloud right after a
// 200-splat cloud hit a sink that errors after 0 … 20000 bytes
func (k *checker) runAfterFailedWrite() {
	if !k.mine() {
		return
	}
	k.runAfterFailedWriteReplay()
}

func (k *checker) runAfterFailedWriteReplay() {
	big, small := ladderCloud(200), ladderCloud(3)
	k.c.Nontrivial("after-failed-write")
	why := core.AfterFailedWrite(core.FailLimits, func(it int, w io.Writer) error {
		if it == 0 {
			return splat.Write(w, buildSplatMesh(big))
		}
		return splat.Write(w, buildSplatMesh(small))
	})
	if why != "" {
		k.c.Eval("splat/after-failed-write", "mismatch")
		k.fail("splat.Write", "writing a cloud yields its own records (also right after an earlier write failed)", "after-failed-write", why, Case{Kind: "after-failed-write"})
		return
	}
	k.c.Eval("splat/after-failed-write", "ok")
}

// a load after the file was replaced (core.LoadAfterReplace): spz.Load of a path whose file was
// replaced by another stream — of the same size (stored gzip blocks, same point count) or another —
// with the modification time put back.
func (k *checker) runLoadAfterReplace() {
	if !k.mine() {
		return
	}
	k.runLoadAfterReplaceReplay()
}

func (k *checker) runLoadAfterReplaceReplay() {
	mk := func(p, version, deg, n int, stored bool) []byte {
		f := SpzFile{Version: version, Deg: deg, FB: 12}
		raw := refEncodeSpz(f, baseRecs(p, version, deg, n))
		if stored {
			return gzipStored(raw)
		}
		return gzipDeflate(raw)
	}
	files := [][]byte{mk(1, 2, 1, 5, true), mk(2, 2, 1, 5, true), mk(3, 2, 0, 9, true), mk(4, 2, 0, 9, true), mk(5, 1, 2, 7, false), mk(6, 2, 3, 4, false)}
	k.c.Nontrivial("load-after-replace")
	why := core.LoadAfterReplace(".spz", files, func(path string) (string, error) {
		cl, err := spz.Load(path)
		if err != nil || cl == nil {
			return "", err
		}
		return fmt.Sprintf("%+v|%x", cl.Header, meshlib.QuickHash(cl.Mesh)), nil
	})
	if why != "" {
		k.c.Eval("spz/load-after-replace", "mismatch")
		k.fail("spz.Load", "loading a path yields the cloud the file holds now", "load-after-replace", why, Case{Kind: "load-after-replace"})
		return
	}
	k.c.Eval("spz/load-after-replace", "ok")
}

// a read after a failed read (core.AfterFailedRead): splat.Read and spz.Read of good streams right
// after every cut / single-byte damage of a larger one (spz: damage inside the gzip container and,
// separately, inside the payload of a stored container).
func (k *checker) runAfterFailedRead() {
	if !k.mine() {
		return
	}
	k.runAfterFailedReadReplay()
}

func (k *checker) runAfterFailedReadReplay() {
	k.c.Nontrivial("after-failed-read")
	enc := func(n int) []byte {
		var b bytes.Buffer
		if err := splat.Write(&b, buildSplatMesh(ladderCloud(n))); err != nil {
			return nil
		}
		return b.Bytes()
	}
	readSplat := func(data []byte) (string, error) {
		m, err := splat.Read(bytes.NewReader(data))
		if err != nil {
			return "", err
		}
		return fmt.Sprintf("%x", meshlib.QuickHash(m)), nil
	}
	for _, good := range [][]byte{enc(3), enc(64)} {
		if why := core.AfterFailedRead(core.BadInputs(enc(40), 300), good, readSplat); why != "" {
			k.c.Eval("splat/after-failed-read", "mismatch")
			k.fail("splat.Read", "reading a stream yields its own records (also right after an earlier read failed)", "after-failed-read", why, Case{Kind: "after-failed-read"})
			return
		}
	}
	k.c.Eval("splat/after-failed-read", "ok")
	mk := func(p, version, deg, n int, stored bool) []byte {
		raw := refEncodeSpz(SpzFile{Version: version, Deg: deg, FB: 12}, baseRecs(p, version, deg, n))
		if stored {
			return gzipStored(raw)
		}
		return gzipDeflate(raw)
	}
	readSpz := func(data []byte) (string, error) {
		var cl *spz.Cloud
		var err error
		if o := core.Guard(func() { cl, err = spz.Read(bytes.NewReader(data)) }); o.Panicked {
			return "", fmt.Errorf("panic: %s", o.Msg)
		}
		if err != nil || cl == nil {
			return "", err
		}
		return fmt.Sprintf("%+v|%x", cl.Header, meshlib.QuickHash(cl.Mesh)), nil
	}
	bad := append(core.BadInputs(mk(1, 2, 3, 30, true), 400), core.BadInputs(mk(2, 2, 1, 30, false), 200)...)
	for _, good := range [][]byte{mk(3, 2, 1, 5, false), mk(4, 1, 0, 9, true), mk(5, 2, 3, 40, false)} {
		if why := core.AfterFailedRead(bad, good, readSpz); why != "" {
			k.c.Eval("spz/after-failed-read", "mismatch")
			k.fail("spz.Read", "reading a stream yields its own splats (also right after an earlier read failed)", "after-failed-read", why, Case{Kind: "after-failed-read"})
			return
		}
	}
	k.c.Eval("spz/after-failed-read", "ok")
}

// the same cloud to every kind of destination (core.SinkAgreement)
func (k *checker) runSinks() {
	if !k.mine() {
		return
	}
	k.runSinksReplay()
}

func (k *checker) runSinksReplay() {
	k.c.Nontrivial("destinations")
	for _, n := range []int{0, 1, 3, 64, 2047, 2048, 2049, 5000} {
		m := buildSplatMesh(ladderCloud(n))
		if why := core.SinkAgreement(func(w io.Writer) error { return splat.Write(w, m) }); why != "" {
			k.c.Eval("splat/destinations", "mismatch")
			k.fail("splat.Write", "writing a cloud yields its own records (whatever kind of io.Writer receives them)", "destinations", fmt.Sprintf("%d splats: %s", n, why), Case{Kind: "sinks"})
			return
		}
	}
	k.c.Eval("splat/destinations", "ok")
}
