package c19

// Scope "varying-line": sdf.VarryingThicknessLine is the union of the rounded cones between
// consecutive points — a composition of a listed primitive and a listed operator, reached through
// an entry point of its own.  Two demands: (1) negative exactly on the union of the cones'
// interiors (harness reference cones, the operands' own observed sign as in the combinator scope);
// (2) a field is a value: after another line (shorter, as long, longer) has been built — and
// evaluated — the first field returns bit for bit what it returned before.

import (
	"fmt"
	"math"

	"github.com/EliCDavis/polyform/math/sample"
	"github.com/EliCDavis/polyform/math/sdf"
	"github.com/EliCDavis/vector/vector3"

	"verif/harness/core"
)

type vlPoint struct {
	P P3
	R float64
}

// vlMenu: polylines of 2..7 points through the lattice cube, radii 0.25..1, every cone admissible
// (no end sphere contains the other).
func vlMenu() [][]vlPoint {
	pts := []vlPoint{
		{P3{-2, -2, -2}, 0.5}, {P3{-1, -1, 0}, 0.75}, {P3{0, 0, 0}, 0.5}, {P3{1, 0.5, 0}, 0.25},
		{P3{2, 0.5, 1}, 0.5}, {P3{2, 2, 2}, 1}, {P3{0, 2.5, 1}, 0.5}, {P3{-2, 2, 0}, 0.25},
		{P3{-2.5, 0, 1}, 0.5}, {P3{0, -2, 2}, 0.75},
	}
	var out [][]vlPoint
	for n := 2; n <= 7; n++ {
		for s := 0; s < len(pts); s += 3 {
			var l []vlPoint
			for i := 0; i < n; i++ {
				l = append(l, pts[(s+i)%len(pts)])
			}
			out = append(out, l)
		}
	}
	// a far-away partner (nothing of it near the lattice) of every length 2..20
	for n := 2; n <= 20; n++ {
		var l []vlPoint
		for i := 0; i < n; i++ {
			l = append(l, vlPoint{P3{100 + float64(i), 50, -30 + 0.5*float64(i)}, 0.25 + 0.125*float64(i%3)})
		}
		out = append(out, l)
	}
	return out
}

func vlBuild(l []vlPoint) sample.Vec3ToFloat {
	lp := make([]sdf.LinePoint, len(l))
	for i, p := range l {
		lp[i] = sdf.LinePoint{Point: v3(p.P), Radius: p.R}
	}
	return sdf.VarryingThicknessLine(lp)
}

func (k checker) varyingLine(a, b int, L *lattice) {
	menu := vlMenu()
	la, lb := menu[a], menu[b]
	cs := Case{Kind: "vline", Args: []int{a, b}, Lat: L.vals}
	scope := "varying-line"
	class := fmt.Sprintf("%d-points-then-%d-points", len(la), len(lb))
	var fa sample.Vec3ToFloat
	var before []float64
	o := core.Guard(func() { fa = vlBuild(la) })
	if !o.Panicked {
		before, o = evalField(fa, L)
	}
	if o.Panicked {
		k.c.Eval(scope, "panic")
		cs.Class = class + "/panic"
		k.c.Violate(core.Violation{Site: "sdf.VarryingThicknessLine", Clause: clSetOp, Class: cs.Class, Detail: fmt.Sprintf("line %v panicked: %s", la, o.Msg), Case: cs})
		return
	}
	// (1) union of the cones
	refs := make([]ref, 0, len(la)-1)
	for i := 1; i < len(la); i++ {
		refs = append(refs, refRoundedCone(la[i-1].P, la[i].P, la[i-1].R, la[i].R))
	}
	var nOK, nBad int64
	first := -1
	for i := 0; i < L.n; i++ {
		band := 1e-9 * (1 + L.mag(i))
		m := math.Inf(1)
		for _, r := range refs {
			m = math.Min(m, r.margin(L.at(i)))
		}
		if math.Abs(m) <= band {
			continue
		}
		if fin(before[i]) && (before[i] < 0) == (m < 0) {
			nOK++
			if m < 0 {
				k.c.NontrivialHash(core.Hash("vline", a, i))
			}
		} else {
			nBad++
			if first < 0 {
				first = i
			}
		}
	}
	k.evalN(scope+"/sign", "ok", nOK)
	k.evalN(scope+"/sign", "mismatch", nBad)
	if nBad > 0 {
		cs.Class = class + "/sign"
		k.c.Violate(core.Violation{Site: "sdf.VarryingThicknessLine", Clause: clSetOp, Class: cs.Class,
			Detail: fmt.Sprintf("line %v: %d lattice points are on the wrong side of the union of its cones; first p=%v f=%.17g", la, nBad, L.at(first), before[first]), Case: cs})
		return
	}
	// (2) the field after another line was built and used
	var after []float64
	o = core.Guard(func() {
		fb := vlBuild(lb)
		_ = fb(vector3.New(0.25, 0.5, 0.75))
	})
	if !o.Panicked {
		after, o = evalField(fa, L)
	}
	if o.Panicked {
		return // the partner's own problem: reported when it is the first line
	}
	for i := range before {
		if math.Float64bits(before[i]) != math.Float64bits(after[i]) {
			k.c.Eval(scope+"/value-after-other-construction", "mismatch")
			cs.Class = class + "/changed"
			k.c.Violate(core.Violation{Site: "sdf.VarryingThicknessLine", Clause: clSign, Class: cs.Class,
				Detail: fmt.Sprintf("line %v returned %.17g at p=%v; after line %v had been built it returns %.17g there", la, before[i], L.at(i), lb, after[i]), Case: cs})
			return
		}
	}
	k.c.Eval(scope+"/value-after-other-construction", "ok")
}
