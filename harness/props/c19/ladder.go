package c19

// Radial ladder sub-scope (far field).  The lattice of the main scope only covers [-3,3]³, so a
// far-field shortcut (e.g. "beyond some shell return the distance to a bounding sphere") is invisible
// to it.  Here every shape is sampled along 46 fixed rays from its centre on a geometric ladder of
// radii from 0.25× to 256× the shape's size (ratio < 1.02, 352 samples per ray) and checked for
//   sign        = membership from the independent reference            (every sample)
//   distance    = reference distance for sphere/box/capsule/plane      (every sample)
//   Lipschitz   along each ray (consecutive samples; an interval whose slope sticks out from both
//               neighbours is bisected towards the anomaly, which pins down a jump of any direction)
//               and across rays (all ray pairs at the same radius index)
//   upper bound f(p) <= |p-c| for p outside, c a point of the closed shape: implied by "zero on the
//               surface" + 1-Lipschitz (the segment [p,c] meets the surface)
//   lower bound f(p) >= |p-c| - Rbound (shape ⊂ Ball(c,Rbound)): implied only where the statement
//               demands the exact distance; for the rounded kinds it is a reported-only scope.

import (
	"fmt"
	"math"

	"github.com/EliCDavis/polyform/math/sample"
	"github.com/EliCDavis/vector/vector3"

	"verif/harness/core"
)

const clUpper = "zero on the surface and never changes faster than distance (hence f(p) <= |p-c| for p outside the shape and c inside it)"

var (
	ladderDirs = makeLadderDirs()
	ladderRel  = makeLadderRel()
)

// 26 lattice directions, 6 of (1,2,3) type, 14 on a golden-angle spiral; all normalised, fixed.
func makeLadderDirs() []P3 {
	var out []P3
	unit := func(d P3) P3 { return mul(d, 1/norm(d)) }
	for _, d := range grid3([]float64{-1, 0, 1}) {
		if dot(d, d) > 0 {
			out = append(out, unit(d))
		}
	}
	for _, d := range []P3{{1, 2, 3}, {-2, 3, 1}, {3, -1, 2}, {-1, -3, 2}, {2, 1, -3}, {-3, -2, -1}} {
		out = append(out, unit(d))
	}
	const n = 14
	ga := math.Pi * (3 - math.Sqrt(5))
	for i := 0; i < n; i++ {
		y := 1 - (2*float64(i)+1)/n
		r := math.Sqrt(1 - y*y)
		out = append(out, unit(P3{r * math.Cos(ga*float64(i)), y, r * math.Sin(ga*float64(i))}))
	}
	return out
}

// 352 radii multipliers 0.25 … 256, constant ratio 1024^(1/351) = 1.01994…
func makeLadderRel() []float64 {
	const n = 352
	out := make([]float64, n)
	for k := range out {
		out[k] = 0.25 * math.Exp(float64(k)*math.Log(1024)/float64(n-1))
	}
	return out
}

// frame: a point c of the closed shape, the shape's size (ladder unit) and, for bounded shapes, the
// radius of a ball around c that contains the whole shape.
func (s Shape) frame() (c P3, size float64, bounded bool) {
	switch s.K {
	case kSphere:
		return s.p3(0), s.P[3], true
	case kBox:
		return s.p3(0), norm(mul(s.p3(3), 0.5)), true
	case kRBox:
		return s.p3(0), norm(mul(s.p3(3), 0.5)) + s.P[6], true
	case kLine:
		a, b := s.p3(0), s.p3(3)
		return mul(add(a, b), 0.5), norm(sub(b, a))/2 + s.P[6], true
	case kCone:
		a, b := s.p3(0), s.p3(3)
		return mul(add(a, b), 0.5), norm(sub(b, a))/2 + math.Max(s.P[6], s.P[7]), true
	case kCyl:
		return s.p3(0), math.Hypot(2*s.P[3]-s.P[4], s.P[5]) + s.P[4], true
	case kPlane:
		return sub(s.p3(0), mul(s.planeNormal(), s.P[6])), 1, false
	}
	panic("c19: unknown shape kind " + s.K)
}

func exactKind(k string) bool { return k == kSphere || k == kBox || k == kLine || k == kPlane }

// ladderSelection: which shapes get the ladder — every admissible shape of the tier's grid (the
// ladder costs ~8 ms per shape, so the quick tier needs no subset).
func ladderSelection(shapes []Shape, thorough bool) ([]bool, int) {
	sel := make([]bool, len(shapes))
	n := 0
	for i, s := range shapes {
		if rep, _ := s.reportedOnly(); rep {
			continue
		}
		sel[i] = true
		n++
	}
	return sel, n
}

// farPoints: ladder points (unit 2, i.e. radii 0.5 … 512) of six rays from the origin, for the
// combinators and Translate.
func farPoints() *lattice {
	l := &lattice{far: true}
	for _, d := range []int{0, 13, 25, 26, 33, 42} {
		for _, rel := range ladderRel {
			rho := 2 * rel
			p := mul(ladderDirs[d], rho)
			l.X, l.Y, l.Z, l.R = append(l.X, p[0]), append(l.Y, p[1]), append(l.Z, p[2]), append(l.R, rho)
			l.max = math.Max(l.max, rho)
		}
	}
	l.n = len(l.X)
	return l
}

// ladder runs the radial ladder of one shape.
func (k checker) ladder(s Shape) {
	nd, nk := len(ladderDirs), len(ladderRel)
	c, size, bounded := s.frame()
	r := s.reference()
	var slow *ref // the cone's ternary-search reference, cross-checked on every 64th sample
	if s.K == kCone {
		sl := r
		slow = &sl
		r = refRoundedConeClosedForm(s.p3(0), s.p3(3), s.P[6], s.P[7])
	}
	exact := exactKind(s.K)
	class := "ladder/" + s.class()
	scope := "ladder/" + scopeOf(s)
	describe := fmt.Sprintf("%s%v", s.K, s.P)
	id := shapeID(s)
	pmax := 0.0
	for _, x := range s.P {
		pmax = math.Max(pmax, math.Abs(x))
	}
	scaleAt := func(rho float64) float64 { return 1 + pmax + rho }
	viol := func(clause, cl, detail string, ray, ridx int) {
		k.c.Violate(core.Violation{Site: site(s.K), Clause: clause, Class: cl, Detail: describe + ": " + detail,
			Case: Case{Kind: "ladder", Shape: &s, Ray: ray, RIdx: ridx, Class: cl}})
	}

	var f sample.Vec3ToFloat
	P := make([]P3, nd*nk)
	V := make([]float64, nd*nk)
	o := core.Guard(func() {
		f = s.build()
		for i, d := range ladderDirs {
			for j, rel := range ladderRel {
				p := add(c, mul(d, size*rel))
				P[i*nk+j] = p
				V[i*nk+j] = f(vector3.New(p[0], p[1], p[2]))
			}
		}
	})
	if o.Panicked {
		k.c.Eval(scope+"/sign", "panic")
		viol(clSign, class+"/panic", "constructor or field panicked: "+o.Msg, 0, 0)
		return
	}

	// ---- per sample ----
	var nOK, nOKSurf, nSign, nSurf, nNaN, nDistOK, nDistBad, nUpOK, nUpBad, nLoOK, nLoBad int64
	type at struct{ i, j int }
	none := at{-1, -1}
	firstSign, firstNaN, worstDistAt, firstUp, firstLo := none, none, none, none, none
	worstDist := 0.0
	M := make([]float64, nd*nk)
	for i := 0; i < nd; i++ {
		in, out := false, false
		for j := 0; j < nk; j++ {
			q := i*nk + j
			p, v := P[q], V[q]
			rho := size * ladderRel[j]
			sc := scaleAt(rho)
			band, ztol, dtol := 1e-9*sc, 2e-9*sc, 1e-9*sc
			m := r.margin(p)
			M[q] = m
			if slow != nil && q%64 == 0 {
				if m2 := slow.margin(p); !(math.Abs(m-m2) <= 1e-10*sc) {
					k.c.HarnessError("rounded-cone references disagree for %s at p=%v: closed form %.17g, ternary %.17g", describe, p, m, m2)
				}
			}
			if m < -band {
				in = true
			}
			if m > band {
				out = true
			}
			switch {
			case !fin(v):
				nNaN++
				if firstNaN == none {
					firstNaN = at{i, j}
				}
				continue
			case m < -band && !(v < 0), m > band && !(v > 0):
				nSign++
				if firstSign == none {
					firstSign = at{i, j}
				}
			case math.Abs(m) <= band && !(math.Abs(v) <= ztol):
				nSurf++
				if firstSign == none {
					firstSign = at{i, j}
				}
			case math.Abs(m) <= band:
				nOKSurf++
			default:
				nOK++
			}
			if exact {
				if d := math.Abs(v - m); d > dtol {
					nDistBad++
					if d > worstDist {
						worstDist, worstDistAt = d, at{i, j}
					}
				} else {
					nDistOK++
				}
			}
			dc := norm(sub(p, c))
			if m > band { // outside: the segment [p,c] meets the surface
				if v <= dc+dtol {
					nUpOK++
				} else {
					nUpBad++
					if firstUp == none {
						firstUp = at{i, j}
					}
				}
			}
			if bounded {
				if v >= dc-size-dtol {
					nLoOK++
				} else {
					nLoBad++
					if firstLo == none {
						firstLo = at{i, j}
					}
				}
			}
		}
		if in && out {
			k.c.NontrivialHash(core.Hash(id, "ray", i))
		}
	}
	show := func(a at) string {
		q := a.i*nk + a.j
		return fmt.Sprintf("ray %d dir=%v radius=%.6g (%.4g× size) p=%v f=%.17g reference=%.17g", a.i, ladderDirs[a.i], size*ladderRel[a.j], ladderRel[a.j], P[q], V[q], M[q])
	}
	k.evalN(scope+"/sign", "ok", nOK)
	k.evalN(scope+"/sign", "ok-zero-on-surface", nOKSurf)
	k.evalN(scope+"/sign", "wrong-sign", nSign)
	k.evalN(scope+"/sign", "nonzero-on-surface", nSurf)
	k.evalN(scope+"/sign", "non-finite", nNaN)
	if nNaN > 0 {
		viol(clSign, class+"/non-finite", fmt.Sprintf("%d ladder samples give a non-finite value; first %s", nNaN, show(firstNaN)), firstNaN.i, firstNaN.j)
	}
	if nSign+nSurf > 0 {
		viol(clSign, class, fmt.Sprintf("%d wrong-sign and %d nonzero-on-surface ladder samples; first %s", nSign, nSurf, show(firstSign)), firstSign.i, firstSign.j)
	}
	if exact {
		k.evalN(scope+"/distance", "ok", nDistOK)
		k.evalN(scope+"/distance", "off", nDistBad)
		if nDistBad > 0 {
			viol(clDist, class, fmt.Sprintf("%d ladder samples off by more than 1e-9·scale; worst (off by %.6g) %s", nDistBad, worstDist, show(worstDistAt)), worstDistAt.i, worstDistAt.j)
		}
	}
	k.evalN(scope+"/upper-bound", "ok", nUpOK)
	k.evalN(scope+"/upper-bound", "above-distance-to-inner-point", nUpBad)
	if nUpBad > 0 {
		viol(clUpper, class, fmt.Sprintf("%d outside ladder samples exceed |p-c| (c=%v belongs to the shape); first %s", nUpBad, c, show(firstUp)), firstUp.i, firstUp.j)
	}
	if bounded {
		lo := scope + "/lower-bound"
		k.evalN(lo, "ok", nLoOK)
		k.evalN(lo, "below-distance-to-bounding-sphere", nLoBad)
		if !exact {
			k.c.ReportedOnly(lo, "f(p) >= |p-c| - Rbound follows from exactness, which the statement demands only for sphere/box/capsule/plane; reported, never alarmed, for the rounded kinds")
		} else if nLoBad > 0 {
			viol(clDist, class, fmt.Sprintf("%d ladder samples are below the distance to the bounding sphere Ball(%v, %.6g); first %s", nLoBad, c, size, show(firstLo)), firstLo.i, firstLo.j)
		}
	}
	k.c.Sample(scope, map[string]any{"case": Case{Kind: "ladder", Shape: &s, Ray: 30, RIdx: nk / 2}, "centre": c, "size": size,
		"p": P[30*nk+nk/2], "f": V[30*nk+nk/2], "reference": M[30*nk+nk/2]})

	// ---- Lipschitz ----
	lipBad := func(fa, fb float64, a, b P3, eps float64) bool { // true also for NaN
		df := math.Abs(fa - fb)
		return !(df <= norm(sub(a, b))+eps)
	}
	// along rays: consecutive samples, with bisection towards a slope anomaly
	var nAlong, nAlongBad, nRef, nRefBad int64
	worstAlong := 0.0
	var wa, wb P3
	var wfa, wfb float64
	wRay, wIdx := -1, -1
	note := func(fa, fb float64, a, b P3, ray, idx int) {
		e := math.Abs(fa-fb) - norm(sub(a, b))
		if wRay < 0 || e > worstAlong || (math.IsNaN(e) && !math.IsNaN(worstAlong)) {
			worstAlong, wa, wb, wfa, wfb, wRay, wIdx = e, a, b, fa, fb, ray, idx
		}
	}
	slopes := make([]float64, nk-1)
	for i := 0; i < nd; i++ {
		d := ladderDirs[i]
		for j := 0; j+1 < nk; j++ {
			a, b := P[i*nk+j], P[i*nk+j+1]
			fa, fb := V[i*nk+j], V[i*nk+j+1]
			eps := 1e-12 * scaleAt(size*ladderRel[j+1])
			nAlong++
			if lipBad(fa, fb, a, b, eps) {
				nAlongBad++
				note(fa, fb, a, b, i, j)
			}
			slopes[j] = (fb - fa) / norm(sub(b, a))
		}
		for j := 1; j+2 < nk; j++ {
			// anomaly: the slope of interval j sticks out from both neighbours (a smooth bend or a kink
			// of a correct field stays between them; a jump J adds J/|p-q| to this interval only)
			bg := 0.5 * (slopes[j-1] + slopes[j+1])
			if !(math.Abs(slopes[j]-bg) > 1e-6 && math.Abs(slopes[j]-bg) > 2*math.Abs(slopes[j+1]-slopes[j-1])) {
				continue
			}
			// bisect [ra,rb] towards the half whose slope deviates more from the background; a jump
			// doubles the deviation at every step until the pair itself breaks the bound, anything
			// continuous stops growing (a slope is confined to [-1,1])
			ra, rb := size*ladderRel[j], size*ladderRel[j+1]
			fa, fb := V[i*nk+j], V[i*nk+j+1]
			dev := math.Abs(slopes[j] - bg)
			eps := 1e-12 * scaleAt(rb)
			for depth := 0; depth < 60 && rb-ra > 1e-9*scaleAt(rb); depth++ {
				rm := 0.5 * (ra + rb)
				pm := add(c, mul(d, rm))
				var fm float64
				if g := core.Guard(func() { fm = f(vector3.New(pm[0], pm[1], pm[2])) }); g.Panicked || !fin(fm) {
					break
				}
				pa, pb := add(c, mul(d, ra)), add(c, mul(d, rb))
				nRef += 2
				bad := false
				if lipBad(fa, fm, pa, pm, eps) {
					nRefBad++
					note(fa, fm, pa, pm, i, j)
					bad = true
				}
				if lipBad(fm, fb, pm, pb, eps) {
					nRefBad++
					note(fm, fb, pm, pb, i, j)
					bad = true
				}
				if bad {
					break
				}
				d1 := math.Abs((fm-fa)/norm(sub(pm, pa)) - bg)
				d2 := math.Abs((fb-fm)/norm(sub(pb, pm)) - bg)
				if math.Max(d1, d2) < 1.5*dev {
					break
				}
				if d1 >= d2 {
					rb, fb, dev = rm, fm, d1
				} else {
					ra, fa, dev = rm, fm, d2
				}
			}
		}
		if k.c.Expired() {
			k.c.Cap("deadline inside the ladder of %s", describe)
			return
		}
	}
	k.evalN(scope+"/lipschitz-along-ray", "ok", nAlong-nAlongBad)
	k.evalN(scope+"/lipschitz-along-ray", "exceeds", nAlongBad)
	k.evalN(scope+"/lipschitz-along-ray-bisection", "ok", nRef-nRefBad)
	k.evalN(scope+"/lipschitz-along-ray-bisection", "exceeds", nRefBad)
	if nAlongBad+nRefBad > 0 {
		cl := class
		if math.IsNaN(worstAlong) {
			cl += "/non-finite"
		}
		viol(clLip, cl, fmt.Sprintf("along ray %d (dir=%v): %d consecutive ladder pairs and %d bisection pairs exceed |p-q|+1e-12·scale; worst excess %.6g at p=%v (f=%.17g) q=%v (f=%.17g), |p-c|=%.6g = %.4g× size",
			wRay, ladderDirs[wRay], nAlongBad, nRefBad, worstAlong, wa, wfa, wb, wfb, norm(sub(wa, c)), norm(sub(wa, c))/size), wRay, wIdx)
	}
	// across rays: all ray pairs at the same radius index
	var nAcross, nAcrossBad int64
	worst := 0.0
	xi, xj, xk := -1, -1, -1
	for j := 0; j < nk; j++ {
		eps := 1e-12 * scaleAt(size*ladderRel[j])
		for i := 0; i < nd; i++ {
			a, fa := P[i*nk+j], V[i*nk+j]
			for i2 := i + 1; i2 < nd; i2++ {
				b, fb := P[i2*nk+j], V[i2*nk+j]
				nAcross++
				df := math.Abs(fa - fb)
				ex := df - eps
				if ex <= 0 {
					continue
				}
				dx, dy, dz := a[0]-b[0], a[1]-b[1], a[2]-b[2]
				d2 := dx*dx + dy*dy + dz*dz
				if ex*ex <= d2 {
					continue
				}
				nAcrossBad++
				e := df - math.Sqrt(d2)
				if xi < 0 || e > worst || (math.IsNaN(e) && !math.IsNaN(worst)) {
					worst, xi, xj, xk = e, i, i2, j
				}
			}
		}
	}
	k.evalN(scope+"/lipschitz-across-rays", "ok", nAcross-nAcrossBad)
	k.evalN(scope+"/lipschitz-across-rays", "exceeds", nAcrossBad)
	if nAcrossBad > 0 {
		cl := class
		if math.IsNaN(worst) {
			cl += "/non-finite"
		}
		viol(clLip, cl, fmt.Sprintf("across rays: %d of %d same-radius pairs exceed |p-q|+1e-12·scale; worst excess %.6g between rays %d and %d at radius %.6g: p=%v (f=%.17g) q=%v (f=%.17g)",
			nAcrossBad, nAcross, worst, xi, xj, size*ladderRel[xk], P[xi*nk+xk], V[xi*nk+xk], P[xj*nk+xk], V[xj*nk+xk]), xi, xk)
	}
}
