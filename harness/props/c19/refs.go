package c19

// Independent reference models, plain float64 arithmetic on [3]float64 (no polyform, no vector
// library).  Every reference is a "margin": a number whose sign is the membership test of the
// shape (negative = strictly inside, positive = strictly outside) and which equals the true
// signed Euclidean distance at least in a neighbourhood of the surface (so it can also decide
// "within 1e-9 of the boundary").  exact = the margin is the true signed distance everywhere.

import "math"

type P3 = [3]float64

func sub(a, b P3) P3         { return P3{a[0] - b[0], a[1] - b[1], a[2] - b[2]} }
func add(a, b P3) P3         { return P3{a[0] + b[0], a[1] + b[1], a[2] + b[2]} }
func mul(a P3, s float64) P3 { return P3{a[0] * s, a[1] * s, a[2] * s} }
func dot(a, b P3) float64    { return a[0]*b[0] + a[1]*b[1] + a[2]*b[2] }
func norm(a P3) float64      { return math.Sqrt(dot(a, a)) }
func cross(a, b P3) P3 {
	return P3{a[1]*b[2] - a[2]*b[1], a[2]*b[0] - a[0]*b[2], a[0]*b[1] - a[1]*b[0]}
}

type ref struct {
	margin func(p P3) float64
	exact  bool
}

// sphere: |p-c| - r
func refSphere(c P3, r float64) ref {
	return ref{exact: true, margin: func(p P3) float64 { return norm(sub(p, c)) - r }}
}

// distance from p to the solid axis-aligned box [lo,hi] (0 inside), by clamping.
func distSolidBox(p, lo, hi P3) float64 {
	var d P3
	for i := 0; i < 3; i++ {
		q := math.Max(lo[i], math.Min(hi[i], p[i]))
		d[i] = p[i] - q
	}
	return norm(d)
}

// box with FULL extents `full` centred at c (the code halves its second argument; sdf.TestBox pins it):
// outside: distance to the clamped point; inside: minus the distance to the nearest face.
func refBox(c, full P3) ref {
	lo, hi := sub(c, mul(full, 0.5)), add(c, mul(full, 0.5))
	return ref{exact: true, margin: func(p P3) float64 {
		if d := distSolidBox(p, lo, hi); d > 0 {
			return d
		}
		m := math.Inf(1)
		for i := 0; i < 3; i++ {
			m = math.Min(m, math.Min(p[i]-lo[i], hi[i]-p[i]))
		}
		return -m
	}}
}

// rounded box, Minkowski definition: box(full extents) ⊕ ball(r) = { p : dist(p, solid box) <= r }.
func refRoundedBox(c, full P3, r float64) ref {
	lo, hi := sub(c, mul(full, 0.5)), add(c, mul(full, 0.5))
	return ref{margin: func(p P3) float64 { return distSolidBox(p, lo, hi) - r }}
}

// distance from p to the segment [a,b] by region analysis (cross-product form in the slab).
func distSegment(p, a, b P3) float64 {
	d := sub(b, a)
	if dot(d, d) == 0 {
		return norm(sub(p, a))
	}
	if dot(sub(p, a), d) <= 0 {
		return norm(sub(p, a))
	}
	if dot(sub(p, b), d) >= 0 {
		return norm(sub(p, b))
	}
	return norm(cross(sub(p, a), d)) / norm(d)
}

// capsule: segment ⊕ ball(r)
func refCapsule(a, b P3, r float64) ref {
	return ref{exact: true, margin: func(p P3) float64 { return distSegment(p, a, b) - r }}
}

// rounded cone, union-of-balls sweep: ⋃_{t∈[0,1]} Ball(a+t(b-a), r1+t(r2-r1)).
// g(t) = |p-c(t)| - r(t) is convex in t (norm of an affine map minus a linear term), so its minimum
// over [0,1] is found by ternary search; min g is the signed distance to the union outside and the
// (negated) largest inscribed radius inside.
func refRoundedCone(a, b P3, r1, r2 float64) ref {
	d := sub(b, a)
	g := func(p P3, t float64) float64 {
		return norm(sub(p, add(a, mul(d, t)))) - (r1 + t*(r2-r1))
	}
	return ref{margin: func(p P3) float64 {
		lo, hi := 0.0, 1.0
		for i := 0; i < 100; i++ {
			m1 := lo + (hi-lo)/3
			m2 := hi - (hi-lo)/3
			if g(p, m1) < g(p, m2) {
				hi = m2
			} else {
				lo = m1
			}
		}
		m := math.Min(g(p, 0), g(p, 1))
		m = math.Min(m, g(p, lo))
		m = math.Min(m, g(p, hi))
		m = math.Min(m, g(p, 0.5*(lo+hi)))
		return m
	}}
}

// rounded cylinder, Minkowski definition in the code's parameter reading (Quilez' sdRoundedCylinder,
// which the implementation cites): core = solid cylinder of radius R = 2·radius − top and half
// height `body` around the Y axis through c; shape = core ⊕ ball(top).  (Outer radius 2·radius,
// outer half height body+top.)  Requires R >= 0.
func refRoundedCylinder(c P3, radius, top, body float64) ref {
	R := 2*radius - top
	return ref{margin: func(p P3) float64 {
		q := sub(p, c)
		rho := math.Hypot(q[0], q[2])
		dr := math.Max(rho-R, 0)
		dy := math.Max(math.Abs(q[1])-body, 0)
		return math.Hypot(dr, dy) - top
	}}
}

// plane in the code's reading: the surface is { x : (x-pos)·n + h = 0 } = the plane through
// pos − h·n with unit normal n; negative side = opposite the normal.
func refPlane(pos, n P3, h float64) ref {
	q0 := sub(pos, mul(n, h))
	return ref{exact: true, margin: func(p P3) float64 { return dot(sub(p, q0), n) }}
}

// rounded cone, same union-of-balls definition, minimised in closed form (used on the far-field
// ladder, where the ternary search is too slow; the two are cross-checked against each other there):
// with s = axial and x = radial coordinate of p relative to a, g(t) = sqrt((s-tL)²+x²) - r1 - t(r2-r1);
// g'(t) = L·(k - (s-tL)/D) with k = (r1-r2)/L, so for |k| >= 1 g is monotone (minimum at an end) and
// otherwise g'(t*) = 0 at s - t*L = k·x/sqrt(1-k²); g is convex, so the minimum over [0,1] is at clamp(t*).
func refRoundedConeClosedForm(a, b P3, r1, r2 float64) ref {
	d := sub(b, a)
	L := norm(d)
	g := func(p P3, t float64) float64 {
		return norm(sub(p, add(a, mul(d, t)))) - (r1 + t*(r2-r1))
	}
	return ref{margin: func(p P3) float64 {
		m := math.Min(g(p, 0), g(p, 1))
		if L == 0 {
			return m
		}
		k := (r1 - r2) / L
		if k >= 1 || k <= -1 {
			return m
		}
		pa := sub(p, a)
		s := dot(pa, d) / L
		x := norm(cross(pa, d)) / L
		t := (s - k*x/math.Sqrt(1-k*k)) / L
		if t > 0 && t < 1 {
			m = math.Min(m, g(p, t))
		}
		return m
	}}
}
