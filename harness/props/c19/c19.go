// Package c19: signed distance functions are signed, 1-Lipschitz and compose as set operations
// (DESIGN §4 C19).  Bounded-exhaustive: every shape of an explicit parameter grid × every point of a
// lattice (sign / surface / exact distance against independent references) × every PAIR of lattice
// points (Lipschitz bound); operators against set logic on the operands' negative sets;
// Translate(f,t)(p) against f(p−t).
package c19

import (
	"encoding/json"
	"fmt"
	"math"

	"github.com/EliCDavis/polyform/math/sample"
	"github.com/EliCDavis/polyform/math/sdf"
	"github.com/EliCDavis/vector/vector3"

	"verif/harness/core"
)

func init() { core.Register(core.Check{ID: "C19", Run: run, Replay: replay}) }

type V3 = vector3.Float64

func v3(p P3) V3 { return vector3.New(p[0], p[1], p[2]) }

// ---------------------------------------------------------------------------------------------
// shapes
// ---------------------------------------------------------------------------------------------

// Shape is one primitive with its constructor arguments (layout per kind, see build).
type Shape struct {
	K string    `json:"k"`
	P []float64 `json:"p"`
}

const (
	kSphere = "sphere"           // c(3) r
	kBox    = "box"              // c(3) bounds(3)            (full extents)
	kRBox   = "rounded-box"      // c(3) bounds(3) roundness
	kLine   = "line"             // a(3) b(3) r
	kCone   = "rounded-cone"     // a(3) b(3) r1 r2
	kCyl    = "rounded-cylinder" // c(3) radius topHeight bodyHeight
	kPlane  = "plane"            // pos(3) dir(3) height nscale  (normal handed to the library = nscale · dir/|dir|)
)

func (s Shape) p3(i int) P3 { return P3{s.P[i], s.P[i+1], s.P[i+2]} }

func (s Shape) planeNormal() P3 {
	d := s.p3(3)
	return mul(d, s.P[7]/norm(d))
}

func site(k string) string {
	switch k {
	case kSphere:
		return "sdf.Sphere"
	case kBox:
		return "sdf.Box"
	case kRBox:
		return "sdf.RoundedBox"
	case kLine:
		return "sdf.Line"
	case kCone:
		return "sdf.RoundedCone"
	case kCyl:
		return "sdf.RoundedCylinder"
	case kPlane:
		return "sdf.Plane"
	}
	return "sdf." + k
}

// build constructs the library field.
func (s Shape) build() sample.Vec3ToFloat {
	switch s.K {
	case kSphere:
		return sdf.Sphere(v3(s.p3(0)), s.P[3])
	case kBox:
		return sdf.Box(v3(s.p3(0)), v3(s.p3(3)))
	case kRBox:
		return sdf.RoundedBox(v3(s.p3(0)), v3(s.p3(3)), s.P[6])
	case kLine:
		return sdf.Line(v3(s.p3(0)), v3(s.p3(3)), s.P[6])
	case kCone:
		return sdf.RoundedCone(v3(s.p3(0)), v3(s.p3(3)), s.P[6], s.P[7])
	case kCyl:
		return sdf.RoundedCylinder(v3(s.p3(0)), s.P[3], s.P[4], s.P[5])
	case kPlane:
		return sdf.Plane(v3(s.p3(0)), v3(s.planeNormal()), s.P[6])
	}
	panic("c19: unknown shape kind " + s.K)
}

// reference returns the independent model of the same shape.
func (s Shape) reference() ref {
	switch s.K {
	case kSphere:
		return refSphere(s.p3(0), s.P[3])
	case kBox:
		return refBox(s.p3(0), s.p3(3))
	case kRBox:
		return refRoundedBox(s.p3(0), s.p3(3), s.P[6])
	case kLine:
		return refCapsule(s.p3(0), s.p3(3), s.P[6])
	case kCone:
		return refRoundedCone(s.p3(0), s.p3(3), s.P[6], s.P[7])
	case kCyl:
		return refRoundedCylinder(s.p3(0), s.P[3], s.P[4], s.P[5])
	case kPlane:
		return refPlane(s.p3(0), s.planeNormal(), s.P[6])
	}
	panic("c19: unknown shape kind " + s.K)
}

// class is the deterministic input class of a shape (part of the violation identity).
func (s Shape) class() string {
	switch s.K {
	case kLine, kCone:
		d := sub(s.p3(3), s.p3(0))
		l2 := dot(d, d)
		if l2 == 0 {
			return "degenerate-segment(a==b)"
		}
		if s.K == kCone {
			rr := s.P[6] - s.P[7]
			switch {
			case rr*rr > l2:
				return "one-end-sphere-contains-the-other"
			case rr*rr == l2:
				return "end-spheres-internally-tangent"
			}
		}
	case kCyl:
		if 2*s.P[3] == s.P[4] {
			return "core-radius-zero(2r==top)"
		}
	}
	return "generic"
}

// reportedOnly: parameter combinations outside the property's stated preconditions / outside the
// admissible range of the formula's own definition. They are run and counted, never alarmed.
func (s Shape) reportedOnly() (bool, string) {
	switch s.K {
	case kCyl:
		if 2*s.P[3] < s.P[4] {
			return true, "rounding radius exceeds the cylinder radius (2·radius < topHeight): the Minkowski core has negative radius, the shape is undefined; outside the admissible parameters"
		}
	case kPlane:
		if s.P[7] != 1 {
			return true, "non-unit normal: the cited formula requires a normalized n; the value is then a scaled distance by construction; outside the admissible parameters"
		}
	}
	return false, ""
}

func (s Shape) scale(latMax float64) float64 {
	m := 0.0
	for _, x := range s.P {
		m = math.Max(m, math.Abs(x))
	}
	return 1 + latMax + m
}

// ---------------------------------------------------------------------------------------------
// lattice
// ---------------------------------------------------------------------------------------------

type lattice struct {
	vals    []float64
	far     bool      // not a lattice: the far-field ladder points used for combinators / Translate
	R       []float64 // far only: distance of each point from the origin (per-point tolerance scale)
	n       int       // points
	X, Y, Z []float64
	max     float64
}

func newLattice(vals []float64) *lattice {
	l := &lattice{vals: vals}
	for _, x := range vals {
		l.max = math.Max(l.max, math.Abs(x))
		for _, y := range vals {
			for _, z := range vals {
				l.X = append(l.X, x)
				l.Y = append(l.Y, y)
				l.Z = append(l.Z, z)
			}
		}
	}
	l.n = len(l.X)
	return l
}

func (l *lattice) at(i int) P3 { return P3{l.X[i], l.Y[i], l.Z[i]} }

// mag is the magnitude tolerances at point i are scaled with (lattice: its extent; far points: their radius).
func (l *lattice) mag(i int) float64 {
	if l.far {
		return l.R[i]
	}
	return l.max
}

// pre prefixes evidence scopes and violation classes of the far-field sub-scope.
func (l *lattice) pre() string {
	if l.far {
		return "ladder/"
	}
	return ""
}

var (
	latQuick    = []float64{-3, -2, -1, -0.5, 0, 0.5, 1, 2, 3}                       // 9³ = 729 points, 265 356 pairs
	latThorough = []float64{-3, -2.5, -2, -1.5, -1, -0.5, 0, 0.5, 1, 1.5, 2, 2.5, 3} // 13³ = 2197 points, 2 412 306 pairs
)

func tierLattice(c *core.Ctx) []float64 {
	if c.Thorough() {
		return latThorough
	}
	return latQuick
}

// ---------------------------------------------------------------------------------------------
// enumeration of the shape grid (deterministic, identical in every shard)
// ---------------------------------------------------------------------------------------------

func grid3(vals []float64) (out []P3) {
	for _, x := range vals {
		for _, y := range vals {
			for _, z := range vals {
				out = append(out, P3{x, y, z})
			}
		}
	}
	return
}

func cat(parts ...[]float64) []float64 {
	var o []float64
	for _, p := range parts {
		o = append(o, p...)
	}
	return o
}

func enumerate(thorough bool) []Shape {
	var out []Shape
	pick := func(q, t []P3) []P3 {
		if thorough {
			return t
		}
		return q
	}
	pickf := func(q, t []float64) []float64 {
		if thorough {
			return t
		}
		return q
	}
	centres27 := grid3([]float64{-0.5, 0, 0.25})
	centres5 := []P3{{0, 0, 0}, {0.5, 0, 0}, {0, -0.5, 0.25}, {0.25, 0.25, 0.25}, {-0.5, 0.5, 1}}
	centres8 := grid3([]float64{-0.5, 0.25})

	// sphere
	for _, c := range centres27 {
		for _, r := range pickf([]float64{0.5, 1, 2}, []float64{0.25, 0.5, 1, 1.5, 2, 3}) {
			out = append(out, Shape{kSphere, cat(c[:], []float64{r})})
		}
	}
	// box (full extents)
	for _, c := range pick(centres5, centres27) {
		for _, b := range grid3(pickf([]float64{0.5, 1, 2}, []float64{0.5, 1, 2, 3})) {
			out = append(out, Shape{kBox, cat(c[:], b[:])})
		}
	}
	// rounded box
	for _, c := range pick(centres5[:3], centres8) {
		for _, b := range grid3([]float64{0.5, 1, 2}) {
			for _, r := range []float64{0.25, 0.5, 1} {
				out = append(out, Shape{kRBox, cat(c[:], b[:], []float64{r})})
			}
		}
	}
	// segments: anchor a, b = a + d for every d of a lattice (d = 0 included: degenerate segment)
	anchors := pick([]P3{{0, 0, 0}, {-0.5, 0.25, 0.5}}, []P3{{0, 0, 0}, {-0.5, 0.25, 0.5}, {0.25, 0.25, -0.75}, {1, -0.5, 0}})
	dirs := grid3([]float64{-1, -0.5, 0, 0.5, 1.5})
	radii := pickf([]float64{0.5, 1, 2}, []float64{0.25, 0.5, 1, 2})
	for _, a := range anchors {
		for _, d := range dirs {
			b := add(a, d)
			for _, r := range radii {
				out = append(out, Shape{kLine, cat(a[:], b[:], []float64{r})})
			}
		}
	}
	// rounded cone: the radii grid × segment grid contains containment (|r1-r2| > |b-a|), internal
	// tangency (|r1-r2| == |b-a|: d=(0,0,±0.5)·{1,2,3}, radii differing by 0.5/1/1.5), equal radii and a==b
	for _, a := range anchors {
		for _, d := range dirs {
			b := add(a, d)
			for _, r1 := range radii {
				for _, r2 := range radii {
					out = append(out, Shape{kCone, cat(a[:], b[:], []float64{r1, r2})})
				}
			}
		}
	}
	// rounded cone a hair on either side of internal tangency (|r1-r2| = |b-a|·(1 ± 2^-20)), both orders
	for _, a := range anchors[:2] {
		for _, d := range []P3{{0, 0, 1}, {0, -0.5, 0}, {1, 1, 0.5}, {-1, 0.5, -1}} {
			for _, e := range []float64{1 - 1.0/(1<<20), 1 + 1.0/(1<<20)} {
				L := norm(d) // 1, 0.5, 1.5, 1.5: exact
				b := add(a, mul(d, e))
				for _, r2 := range []float64{0.5, 1} {
					out = append(out, Shape{kCone, cat(a[:], b[:], []float64{r2 + L, r2})})
					out = append(out, Shape{kCone, cat(a[:], b[:], []float64{r2, r2 + L})})
				}
			}
		}
	}
	// rounded cylinder
	for _, c := range pick(centres5[:2], centres5) {
		for _, radius := range []float64{0.25, 0.5, 1} {
			for _, top := range []float64{0.25, 0.5, 1} {
				for _, body := range []float64{0.5, 1, 2} {
					out = append(out, Shape{kCyl, cat(c[:], []float64{radius, top, body})})
				}
			}
		}
	}
	// plane: unit normals = normalised lattice directions
	var ndirs []P3
	for _, d := range grid3([]float64{-1, 0, 1}) {
		if dot(d, d) > 0 {
			ndirs = append(ndirs, d)
		}
	}
	for _, pos := range pick(centres5[:2], centres5[:4]) {
		for _, d := range ndirs {
			for _, h := range []float64{-0.5, 0, 1} {
				out = append(out, Shape{kPlane, cat(pos[:], d[:], []float64{h, 1})})
			}
		}
	}
	// plane with a non-unit normal (reported only)
	for _, d := range ndirs {
		out = append(out, Shape{kPlane, cat([]float64{0, 0, 0}, d[:], []float64{0.5, 2})})
	}
	return out
}

// ---------------------------------------------------------------------------------------------
// the checks
// ---------------------------------------------------------------------------------------------

const (
	clSign  = "negative exactly inside its shape, zero on the surface"
	clLip   = "never changes faster than distance (|f(p)-f(q)| <= |p-q|)"
	clDist  = "equals the true Euclidean distance to the surface"
	clSetOp = "negative exactly on the union / intersection / difference of the operands' interiors"
	clMove  = "translation moves the shape by the given offset"
)

// Case is the replay record.
type Case struct {
	Kind  string    `json:"kind"` // "shape" | "ladder" | "op" | "translate"
	Shape *Shape    `json:"shape,omitempty"`
	T     []float64 `json:"t,omitempty"`
	Op    string    `json:"op,omitempty"`
	Args  []int     `json:"args,omitempty"`
	Lat   []float64 `json:"lat,omitempty"`
	Far   bool      `json:"far,omitempty"` // combinator / Translate case on the far-field ladder points
	Ray   int       `json:"ray,omitempty"` // ladder: direction index and radius index of the reported sample
	RIdx  int       `json:"ridx,omitempty"`
	Class string    `json:"class,omitempty"`
}

type checker struct{ c *core.Ctx }

// evalN counts n executed cases of one scope/outcome (per-pair calls to c.Eval would dominate the run).
func (k checker) evalN(scope, outcome string, n int64) {
	if n <= 0 {
		return
	}
	k.c.Eval(scope, outcome)
	if n > 1 {
		k.c.R.Evaluations += n - 1
		s := k.c.R.Scopes[scope]
		s.Evaluations += n - 1
		s.Outcomes[outcome] += n - 1
	}
}

func fin(x float64) bool { return !math.IsNaN(x) && !math.IsInf(x, 0) }

// evalField evaluates a library field on every lattice point.
func evalField(f sample.Vec3ToFloat, L *lattice) ([]float64, core.Outcome) {
	vals := make([]float64, L.n)
	o := core.Guard(func() {
		for i := 0; i < L.n; i++ {
			vals[i] = f(vector3.New(L.X[i], L.Y[i], L.Z[i]))
		}
	})
	return vals, o
}

// checkField runs the per-point oracles (sign / surface / exact distance) and, if pairs is set,
// the Lipschitz bound on all pairs, for one library field against one reference.
//
//	siteName/class: violation identity; scopeBase: evidence scope prefix; reported: never alarm.
func (k checker) checkField(siteName, class, scopeBase string, reported bool, signClause string,
	mk func() sample.Vec3ToFloat, r ref, scale float64, L *lattice, pairs bool, cs Case, id uint64, describe string) {

	var f sample.Vec3ToFloat
	var vals []float64
	o := core.Guard(func() { f = mk() })
	if !o.Panicked {
		vals, o = evalField(f, L)
	}
	viol := func(clause, cl, detail string) {
		if reported {
			return
		}
		c2 := cs
		c2.Class = cl
		k.c.Violate(core.Violation{Site: siteName, Clause: clause, Class: cl, Detail: describe + ": " + detail, Case: c2})
	}
	if o.Panicked {
		k.c.Eval(scopeBase+"/sign", "panic")
		viol(signClause, class+"/panic", "constructor or field panicked: "+o.Msg)
		return
	}

	band := 1e-9 * scale // "within 1e-9 of the boundary"
	ztol := 2e-9 * scale // |f| allowed there (band + rounding)
	dtol := 1e-9 * scale // exact-distance tolerance
	eps := 1e-12 * scale // Lipschitz slack (probe: correct code exceeds by < 1e-15)

	// ---- per point: sign / surface, exact distance ----
	margins := make([]float64, L.n)
	var nOK, nOKSurf, nSign, nSurf, nNaN int64
	var nDistOK, nDistBad int64
	firstSign, firstNaN, worstDistI := -1, -1, -1
	worstDist := 0.0
	inside, outside := 0, 0
	for i := 0; i < L.n; i++ {
		p := L.at(i)
		m := r.margin(p)
		margins[i] = m
		v := vals[i]
		switch {
		case m < -band:
			inside++
		case m > band:
			outside++
		}
		switch {
		case !fin(v):
			nNaN++
			if firstNaN < 0 {
				firstNaN = i
			}
		case m < -band && !(v < 0), m > band && !(v > 0):
			nSign++
			if firstSign < 0 {
				firstSign = i
			}
		case math.Abs(m) <= band && !(math.Abs(v) <= ztol):
			nSurf++
			if firstSign < 0 {
				firstSign = i
			}
		case math.Abs(m) <= band:
			nOKSurf++
		default:
			nOK++
		}
		if r.exact && fin(v) {
			if d := math.Abs(v - m); d > dtol {
				nDistBad++
				if d > worstDist {
					worstDist, worstDistI = d, i
				}
			} else {
				nDistOK++
			}
		}
	}
	k.evalN(scopeBase+"/sign", "ok", nOK)
	k.evalN(scopeBase+"/sign", "ok-zero-on-surface", nOKSurf)
	k.evalN(scopeBase+"/sign", "wrong-sign", nSign)
	k.evalN(scopeBase+"/sign", "nonzero-on-surface", nSurf)
	k.evalN(scopeBase+"/sign", "non-finite", nNaN)
	if nNaN > 0 {
		i := firstNaN
		viol(signClause, class+"/non-finite", fmt.Sprintf("%d of %d lattice points give a non-finite value; first p=%v f=%v reference=%.17g", nNaN, L.n, L.at(i), vals[i], margins[i]))
	}
	if nSign+nSurf > 0 {
		i := firstSign
		viol(signClause, class, fmt.Sprintf("%d wrong-sign and %d nonzero-on-surface of %d lattice points; first p=%v f=%.17g reference margin=%.17g (band %.3g)", nSign, nSurf, L.n, L.at(i), vals[i], margins[i], band))
	}
	if r.exact {
		k.evalN(scopeBase+"/distance", "ok", nDistOK)
		k.evalN(scopeBase+"/distance", "off", nDistBad)
		if nDistBad > 0 {
			i := worstDistI
			viol(clDist, class, fmt.Sprintf("%d of %d lattice points off by more than %.3g; worst p=%v f=%.17g true=%.17g", nDistBad, L.n, dtol, L.at(i), vals[i], margins[i]))
		}
	}

	// ---- distinct non-trivial cases: lattice points next to the surface (an axis neighbour lies on the
	//      other side, or the point is on the surface) of a shape the lattice straddles ----
	if inside > 0 && outside > 0 {
		n1 := len(L.vals)
		side := func(i int) int {
			switch {
			case margins[i] < -band:
				return -1
			case margins[i] > band:
				return 1
			}
			return 0
		}
		for i := 0; i < L.n; i++ {
			s := side(i)
			near := s == 0
			coords := [3]int{i / (n1 * n1), (i / n1) % n1, i % n1}
			strides := [3]int{n1 * n1, n1, 1}
			for a := 0; a < 3 && !near; a++ {
				if coords[a] > 0 && side(i-strides[a]) != s {
					near = true
				}
				if coords[a] < n1-1 && side(i+strides[a]) != s {
					near = true
				}
			}
			if near {
				k.c.NontrivialHash(core.Hash(id, i))
			}
		}
	}
	k.c.Sample(scopeBase, map[string]any{"case": cs, "p": L.at(L.n / 3), "f": vals[L.n/3], "reference": margins[L.n/3], "inside": inside, "outside": outside})

	if !pairs {
		return
	}
	// ---- all pairs: |f(p)-f(q)| <= |p-q| + eps  (written so that NaN counts as a failure) ----
	var nBad int64
	worst, wi, wj := 0.0, -1, -1
	X, Y, Z := L.X, L.Y, L.Z
	n := L.n
	for i := 0; i < n; i++ {
		fi, xi, yi, zi := vals[i], X[i], Y[i], Z[i]
		for j := i + 1; j < n; j++ {
			df := fi - vals[j]
			if df < 0 {
				df = -df
			}
			ex := df - eps
			if ex <= 0 {
				continue
			}
			dx, dy, dz := xi-X[j], yi-Y[j], zi-Z[j]
			d2 := dx*dx + dy*dy + dz*dz
			if ex*ex <= d2 {
				continue
			}
			nBad++
			e := df - math.Sqrt(d2)
			if wi < 0 || e > worst || (math.IsNaN(e) && !math.IsNaN(worst)) {
				worst, wi, wj = e, i, j
			}
		}
		if i&63 == 0 && k.c.Expired() {
			k.c.Cap("deadline inside the pair loop of %s", describe)
			return
		}
	}
	total := int64(n) * int64(n-1) / 2
	k.evalN(scopeBase+"/lipschitz-pairs", "ok", total-nBad)
	k.evalN(scopeBase+"/lipschitz-pairs", "exceeds", nBad)
	if nBad > 0 {
		cl := class
		if math.IsNaN(worst) {
			cl += "/non-finite"
		}
		viol(clLip, cl, fmt.Sprintf("%d of %d point pairs exceed |p-q|+%.3g; worst excess %.6g at p=%v (f=%.17g) q=%v (f=%.17g)", nBad, total, eps, worst, L.at(wi), vals[wi], L.at(wj), vals[wj]))
	}
}

func shapeID(s Shape) uint64 {
	parts := []any{s.K}
	for _, x := range s.P {
		parts = append(parts, math.Float64bits(x))
	}
	return core.Hash(parts...)
}

func scopeOf(s Shape) string {
	cl := s.class()
	if cl == "generic" {
		return s.K
	}
	return s.K + "[" + cl + "]"
}

// shape: one primitive, all clauses.
func (k checker) shape(s Shape, L *lattice) {
	rep, note := s.reportedOnly()
	scope := scopeOf(s)
	if rep {
		scope = s.K + "[inadmissible]"
	}
	cs := Case{Kind: "shape", Shape: &s, Lat: L.vals}
	k.checkField(site(s.K), s.class(), scope, rep, clSign, s.build, s.reference(), s.scale(L.max), L, true, cs, shapeID(s),
		fmt.Sprintf("%s%v", s.K, s.P))
	if rep {
		for _, suffix := range []string{"/sign", "/distance", "/lipschitz-pairs"} {
			if _, ok := k.c.R.Scopes[scope+suffix]; ok {
				k.c.ReportedOnly(scope+suffix, note)
			}
		}
	}
}

// ---- operand pool for the combinators: harness closures (independent of the library primitives)
//      plus library primitives; the oracle only uses the operands' own observed negative sets ----

type operand struct {
	name string
	f    sample.Vec3ToFloat
}

func fromRef(r ref) sample.Vec3ToFloat {
	return func(v V3) float64 { return r.margin(P3{v.X(), v.Y(), v.Z()}) }
}

func pool() []operand {
	return []operand{
		{"h.sphere(0,0,0;1)", fromRef(refSphere(P3{0, 0, 0}, 1))},
		{"h.sphere(.5,0,0;1.5)", fromRef(refSphere(P3{0.5, 0, 0}, 1.5))},
		{"h.box(0,.5,0;1,2,3)", fromRef(refBox(P3{0, 0.5, 0}, P3{1, 2, 3}))},
		{"h.capsule(-1,0,0;1,1,0;.5)", fromRef(refCapsule(P3{-1, 0, 0}, P3{1, 1, 0}, 0.5))},
		{"h.plane(0,0,0;0,1,0;.5)", fromRef(refPlane(P3{0, 0, 0}, P3{0, 1, 0}, 0.5))},
		{"h.sphere(0,0,0;.5)", fromRef(refSphere(P3{0, 0, 0}, 0.5))},
		{"h.sphere(2.5,2.5,2.5;.75)", fromRef(refSphere(P3{2.5, 2.5, 2.5}, 0.75))},
		{"sdf.Sphere(-.5,.5,0;2)", sdf.Sphere(vector3.New(-0.5, 0.5, 0.), 2)},
		{"sdf.Box(.5,0,-.5;2,1,2)", sdf.Box(vector3.New(0.5, 0., -0.5), vector3.New(2., 1., 2.))},
		{"sdf.RoundedCylinder(0,0,.5;.5,.25,1)", sdf.RoundedCylinder(vector3.New(0., 0., 0.5), 0.5, 0.25, 1)},
	}
}

// op: one combinator applied to the operands with the given pool indices, on every lattice point.
func (k checker) op(name string, args []int, L *lattice) {
	ps := pool()
	fs := make([]sample.Vec3ToFloat, len(args))
	names := ""
	for i, a := range args {
		fs[i] = ps[a].f
		if i > 0 {
			names += ", "
		}
		names += ps[a].name
	}
	cs := Case{Kind: "op", Op: name, Args: args, Lat: L.vals, Far: L.far}
	siteName := map[string]string{"union": "sdf.Union", "intersect": "sdf.Intersect", "subtract": "sdf.Subtract"}[name]
	class := L.pre() + fmt.Sprintf("arity-%d", len(args))
	scope := L.pre() + "op/" + name + fmt.Sprintf("/arity-%d", len(args))
	var g sample.Vec3ToFloat
	o := core.Guard(func() {
		switch name {
		case "union":
			g = sdf.Union(fs...)
		case "intersect":
			g = sdf.Intersect(fs...)
		case "subtract":
			g = sdf.Subtract(fs[0], fs[1])
		}
	})
	var vals []float64
	if !o.Panicked {
		vals, o = evalField(g, L)
	}
	if o.Panicked {
		k.c.Eval(scope, "panic")
		cs.Class = class + "/panic"
		k.c.Violate(core.Violation{Site: siteName, Clause: clSetOp, Class: cs.Class, Detail: name + "(" + names + ") panicked: " + o.Msg, Case: cs})
		return
	}
	var nOK, nBad, nBoundary int64
	first := -1
	var firstOps []float64
	inN, outN := 0, 0
	for i := 0; i < L.n; i++ {
		p := vector3.New(L.X[i], L.Y[i], L.Z[i])
		band := 1e-9 * (1 + L.mag(i))
		ov := make([]float64, len(fs))
		neg := make([]bool, len(fs))
		onSurface := false
		for a, f := range fs {
			ov[a] = f(p)
			neg[a] = ov[a] < 0
			if math.Abs(ov[a]) <= band {
				onSurface = true
			}
		}
		var want bool
		switch name {
		case "union":
			want = false
			for _, b := range neg {
				want = want || b
			}
		case "intersect":
			want = true
			for _, b := range neg {
				want = want && b
			}
		case "subtract":
			want = neg[0] && !neg[1]
		}
		if want {
			inN++
		} else {
			outN++
		}
		got := vals[i] < 0
		switch {
		case fin(vals[i]) && got == want:
			nOK++
		case fin(vals[i]) && onSurface && math.Abs(vals[i]) <= 2*band:
			// a lattice point on the surface of an operand: the result may sit on its own surface
			// (max(a,-b) is 0, not negative, where b is 0) — accepted, counted separately
			nBoundary++
		default:
			nBad++
			if first < 0 {
				first, firstOps = i, ov
			}
		}
		if want != neg[0] { // the combinator changes the membership of this point relative to its first operand
			k.c.NontrivialHash(core.Hash(L.pre()+"op", name, fmt.Sprint(args), i))
		}
	}
	k.evalN(scope, "ok", nOK)
	k.evalN(scope, "on-operand-surface", nBoundary)
	k.evalN(scope, "mismatch", nBad)
	k.c.Sample(scope, map[string]any{"case": cs, "operands": names, "points_in_set": inN, "points_outside": outN})
	if nBad > 0 {
		cs.Class = class
		k.c.Violate(core.Violation{Site: siteName, Clause: clSetOp, Class: class,
			Detail: fmt.Sprintf("%s(%s): %d of %d lattice points disagree with the set operation; first p=%v operands=%v result=%.17g", name, names, nBad, L.n, L.at(first), firstOps, vals[first]), Case: cs})
	}
}

// translands: the fields Translate is applied to — one generic library primitive per kind, then harness closures.
func translands() []operand {
	var out []operand
	for _, s := range []Shape{
		{kSphere, []float64{0.25, 0, -0.5, 1}},
		{kBox, []float64{0, 0.5, 0, 1, 2, 3}},
		{kRBox, []float64{0.5, 0, 0, 1, 0.5, 2, 0.25}},
		{kLine, []float64{0, 0, 0, 1, 1, 0, 0.5}},
		{kCone, []float64{0, -0.5, 0, 1, 1, 1, 1, 0.5}},
		{kCyl, []float64{0, 0, 0.5, 0.5, 0.25, 1}},
		{kPlane, []float64{0, 0.5, 0, 1, 1, 0, 0.5, 1}},
	} {
		out = append(out, operand{fmt.Sprintf("sdf:%s%v", s.K, s.P), s.build()})
	}
	return append(out, pool()[:5]...)
}

// translate: Translate(g,t)(p) = g(p−t) — the field g itself, evaluated by the harness at the
// displaced point, is the reference (so a defect of a primitive is never attributed to Translate).
func (k checker) translate(arg int, t P3, L *lattice) {
	g := translands()[arg]
	cs := Case{Kind: "translate", Args: []int{arg}, T: t[:], Lat: L.vals, Far: L.far}
	scope := L.pre() + "translate"
	var vals []float64
	var f sample.Vec3ToFloat
	o := core.Guard(func() { f = sdf.Translate(g.f, v3(t)) })
	if !o.Panicked {
		vals, o = evalField(f, L)
	}
	if o.Panicked {
		k.c.Eval(scope, "panic")
		k.c.Violate(core.Violation{Site: "sdf.Translate", Clause: clMove, Class: L.pre() + "panic", Detail: o.Msg, Case: cs})
		return
	}
	var nOK, nBad int64
	first := -1
	moved := 0
	for i := 0; i < L.n; i++ {
		want := g.f(vector3.New(L.X[i]-t[0], L.Y[i]-t[1], L.Z[i]-t[2]))
		tol := 1e-12 * (1 + L.mag(i) + norm(t))
		if fin(vals[i]) && math.Abs(vals[i]-want) <= tol {
			nOK++
		} else {
			nBad++
			if first < 0 {
				first = i
			}
		}
		if here := g.f(vector3.New(L.X[i], L.Y[i], L.Z[i])); (here < 0) != (want < 0) {
			moved++ // the translation changes the membership of this lattice point
		}
	}
	k.evalN(scope, "ok", nOK)
	k.evalN(scope, "mismatch", nBad)
	if moved > 0 {
		k.c.Nontrivial(L.pre()+"tr", arg, fmt.Sprint(t))
	}
	k.c.Sample(scope, map[string]any{"case": cs, "field": g.name, "points_changing_membership": moved})
	if nBad > 0 {
		i := first
		k.c.Violate(core.Violation{Site: "sdf.Translate", Clause: clMove, Class: L.pre() + "lattice-offset",
			Detail: fmt.Sprintf("Translate(%s, %v): %d of %d points differ from f(p−t); first p=%v got=%.17g want=%.17g", g.name, t, nBad, L.n, L.at(i), vals[i],
				g.f(vector3.New(L.X[i]-t[0], L.Y[i]-t[1], L.Z[i]-t[2]))), Case: cs})
	}
}

// ---------------------------------------------------------------------------------------------
// run / replay
// ---------------------------------------------------------------------------------------------

func run(c *core.Ctx) {
	k := checker{c}
	L := newLattice(tierLattice(c))
	shapes := enumerate(c.Thorough())
	c.Bound("lattice_points", L.n)
	c.Bound("lattice_values", L.vals)
	c.Bound("point_pairs_per_shape", L.n*(L.n-1)/2)
	c.Bound("shapes", len(shapes))
	perKind := map[string]int{}
	for _, s := range shapes {
		perKind[s.K]++
	}
	c.Bound("shapes_per_kind", perKind)
	c.Bound("scaling_factors", sigmaLadder)
	c.Bound("far_offsets", fmt.Sprintf("2^k * d for k in %v, d in %v (quarter-step shapes and lattices only: every moved input exactly representable)", farPowers, farOffsets))

	ladderSel, nLadder := ladderSelection(shapes, c.Thorough())
	c.Bound("ladder_shapes", nLadder)
	c.Bound("ladder_directions", len(ladderDirs))
	c.Bound("ladder_samples_per_ray", len(ladderRel))
	c.Bound("ladder_radii_relative_to_shape_size", []float64{ladderRel[0], ladderRel[len(ladderRel)-1]})
	c.Bound("ladder_ratio", ladderRel[1]/ladderRel[0])

	idx := 0
	for _, s := range shapes {
		mine := c.Mine(idx)
		idx++
		if !mine {
			continue
		}
		if c.Expired() {
			return
		}
		k.shape(s, L)
		k.scaling(s, L)
		k.farAway(s, L)
		if ladderSel[idx-1] {
			k.ladder(s)
		}
	}

	// combinators: every ordered pair for the three operators, arity 1, every ordered triple and a
	// ring of quadruples for the variadic ones
	np := len(pool())
	c.Bound("operand_pool", np)
	nops := 0
	do := func(name string, args ...int) {
		mine := c.Mine(idx)
		idx++
		nops++
		if !mine || c.Expired() {
			return
		}
		k.op(name, args, L)
	}
	for a := 0; a < np; a++ {
		do("union", a)
		do("intersect", a)
		for b := 0; b < np; b++ {
			do("union", a, b)
			do("intersect", a, b)
			do("subtract", a, b)
		}
	}
	for a := 0; a < np; a++ {
		for b := 0; b < np; b++ {
			for d := 0; d < np; d++ {
				do("union", a, b, d)
				do("intersect", a, b, d)
			}
		}
	}
	for a := 0; a < np; a++ {
		do("union", a, (a+3)%np, (a+4)%np, (a+7)%np)
		do("intersect", a, (a+3)%np, (a+4)%np, (a+7)%np)
	}
	c.Bound("operator_applications", nops)

	// translation
	offs := grid3([]float64{-1, 0, 0.5})
	if c.Thorough() {
		offs = grid3([]float64{-1, -0.5, 0, 0.5, 1.5})
	}
	c.Bound("translate_offsets", len(offs))
	nt := len(translands())
	c.Bound("translated_fields", nt)
	for a := 0; a < nt; a++ {
		for _, t := range offs {
			mine := c.Mine(idx)
			idx++
			if !mine || c.Expired() {
				continue
			}
			k.translate(a, t, L)
		}
	}

	// varying-thickness lines: every line of the menu followed by every other
	nvl := len(vlMenu())
	c.Bound("varying_lines", nvl)
	for a := 0; a < 18; a++ {
		for b := 0; b < nvl; b++ {
			mine := c.Mine(idx)
			idx++
			if !mine || c.Expired() {
				continue
			}
			k.varyingLine(a, b, L)
		}
	}

	// far field: combinators (all ordered pairs, rings of arity 3 and 4) and Translate on the ladder
	// points of a handful of rays from the origin
	F := farPoints()
	c.Bound("ladder_far_points_for_combinators", F.n)
	doFar := func(name string, args ...int) {
		mine := c.Mine(idx)
		idx++
		if !mine || c.Expired() {
			return
		}
		k.op(name, args, F)
	}
	for a := 0; a < np; a++ {
		for b := 0; b < np; b++ {
			doFar("union", a, b)
			doFar("intersect", a, b)
			doFar("subtract", a, b)
		}
		doFar("union", a, (a+1)%np, (a+4)%np)
		doFar("intersect", a, (a+1)%np, (a+4)%np)
		doFar("union", a, (a+3)%np, (a+4)%np, (a+7)%np)
		doFar("intersect", a, (a+3)%np, (a+4)%np, (a+7)%np)
	}
	for a := 0; a < nt; a++ {
		for _, t := range grid3([]float64{-1, 0, 0.5}) {
			mine := c.Mine(idx)
			idx++
			if !mine || c.Expired() {
				continue
			}
			k.translate(a, t, F)
		}
	}
}

func replay(c *core.Ctx) {
	var cs Case
	if err := json.Unmarshal(c.Replay, &cs); err != nil {
		c.HarnessError("bad case: %v", err)
		return
	}
	if len(cs.Lat) == 0 {
		cs.Lat = tierLattice(c)
	}
	k := checker{c}
	L := newLattice(cs.Lat)
	if cs.Far {
		L = farPoints()
	}
	var t P3
	copy(t[:], cs.T)
	switch cs.Kind {
	case "shape":
		k.shape(*cs.Shape, L)
	case "ladder":
		k.ladder(*cs.Shape)
	case "scaling":
		k.scaling(*cs.Shape, L)
	case "far":
		k.farAway(*cs.Shape, L)
	case "op":
		k.op(cs.Op, cs.Args, L)
	case "translate":
		k.translate(cs.Args[0], t, L)
	case "vline":
		k.varyingLine(cs.Args[0], cs.Args[1], L)
	default:
		c.HarnessError("unknown case kind %q", cs.Kind)
	}
}
