package c19

// Magnitude dimension.  Every listed primitive is positively homogeneous of degree one in its length
// parameters: scaling centre, extents, radii and heights by σ and the sample point by σ scales the
// value by σ.  The parameter grid of the main scope lives at unit scale (sizes 0.25 … 3, tolerance
// 1e-9·scale), where an absolute epsilon, clamp or threshold inside a formula is invisible; this scope
// re-evaluates every admissible shape of the grid at σ = 2^-30 … 2^30 and 1e-6 … 1e6 on the scaled
// lattice and compares with σ times the unit-scale value — which the main scope has just judged
// against the independent reference.  For powers of two floating-point arithmetic commutes with the
// scaling (no under- or overflow at these magnitudes), so the comparison is to 1e-12 relative; for
// decimal scales to 1e-9.

import (
	"fmt"
	"math"

	"github.com/EliCDavis/vector/vector3"

	"verif/harness/core"
)

var sigmaLadder = []float64{0x1p-30, 0x1p-20, 0x1p-10, 0x1p-4, 0x1p4, 0x1p10, 0x1p20, 0x1p30, 1e-6, 1e-3, 1e3, 1e6}

const clScale = "the value is a distance: scaling the shape and the sample point by a factor scales it by that factor (floating-point tolerance proportional to magnitude)"

// scaled multiplies every length parameter by sigma (a plane's direction and normal scale stay).
func (s Shape) scaled(sigma float64) Shape {
	p := append([]float64{}, s.P...)
	for i := range p {
		if s.K == kPlane && (i == 3 || i == 4 || i == 5 || i == 7) {
			continue
		}
		p[i] *= sigma
	}
	return Shape{K: s.K, P: p}
}

func (k checker) scaling(s Shape, L *lattice) {
	if rep, _ := s.reportedOnly(); rep {
		return
	}
	base, o := evalField(s.build(), L)
	if o.Panicked {
		return // judged by the main scope
	}
	scale := s.scale(L.max)
	for _, sg := range sigmaLadder {
		tol := 1e-9
		if _, frac := math.Frexp(sg); sg == math.Ldexp(0.5, frac) {
			tol = 1e-12
		}
		sc := s.scaled(sg)
		scope := fmt.Sprintf("%s/scaling", s.K)
		cs := Case{Kind: "scaling", Shape: &s, Lat: L.vals, T: []float64{sg}}
		var f func(vector3.Float64) float64
		if o := core.Guard(func() { f = sc.build() }); o.Panicked {
			k.evalN(scope, "constructor-failed", 1)
			k.c.Violate(core.Violation{Site: site(s.K), Clause: clScale, Class: s.class() + "/" + sigmaClass(sg), Detail: fmt.Sprintf("%s%v scaled by %g: constructor panicked: %s", s.K, s.P, sg, o.Msg), Case: cs})
			continue
		}
		bad := -1
		var got float64
		o := core.Guard(func() {
			for i := 0; i < L.n; i++ {
				g := f(vector3.New(L.X[i]*sg, L.Y[i]*sg, L.Z[i]*sg))
				if !(math.Abs(g-sg*base[i]) <= tol*sg*scale) {
					bad, got = i, g
					return
				}
			}
		})
		switch {
		case o.Panicked:
			k.evalN(scope, "crash", 1)
			k.c.Violate(core.Violation{Site: site(s.K), Clause: clScale, Class: s.class() + "/" + sigmaClass(sg) + "/crash", Detail: fmt.Sprintf("%s%v scaled by %g: %s", s.K, s.P, sg, o.Msg), Case: cs})
		case bad >= 0:
			k.evalN(scope, "mismatch", int64(L.n))
			k.c.Violate(core.Violation{Site: site(s.K), Clause: clScale, Class: s.class() + "/" + sigmaClass(sg),
				Detail: fmt.Sprintf("%s%v: f(p)=%v at p=%v, but the shape scaled by %g gives %v at %g·p (expected %v)", s.K, s.P, base[bad], L.at(bad), sg, got, sg, sg*base[bad]), Case: cs})
		default:
			k.evalN(scope, "ok", int64(L.n))
		}
	}
	k.c.NontrivialHash(core.Hash("scaling", shapeID(s)))
}

func sigmaClass(s float64) string {
	switch {
	case s < 1e-5:
		return "sigma<1e-5"
	case s < 1:
		return "sigma<1"
	case s <= 1e5:
		return "sigma<=1e5"
	}
	return "sigma>1e5"
}

// ---- positions far from the origin ----------------------------------------------------------
//
// "for every shape parameter (positions, …)": a shape moved by t and sampled at p + t has the value
// of the unmoved shape at p.  With t = 2^k · d (d a small integer vector) every moved centre and
// every moved lattice point is exactly representable (quarter-step coordinates, k ≤ 40), so nothing
// is lost in handing the inputs over; a formula that subtracts the position from the sample first —
// is then exact, whereas one that goes through absolute quantities loses some ulp(|t|).  The pinned
// capsule does (its closest point is formed in absolute coordinates: 0.4 ulp(|t|) off), and the
// statement grants floating-point tolerance, so the bound is the unit-scale tolerance plus four ulps
// of the largest offset component: it catches formulas that lose more than rounding (squared
// absolute coordinates, a far-field shortcut keyed on |p|, a clamp), not a reordering that stays
// within a few ulps of the coordinates.

var farOffsets = []P3{{1, 1, 1}, {-1, 2, -3}, {0, 0, 1}, {2, -1, 0}}
var farPowers = []int{20, 30, 40}

const clFar = "moving the shape and the sample point by the same offset does not change the value (positions are shape parameters: for every position)"

// moved adds t to every position parameter of the shape.
func (s Shape) moved(t P3) Shape {
	p := append([]float64{}, s.P...)
	add := func(i int) {
		p[i] += t[0]
		p[i+1] += t[1]
		p[i+2] += t[2]
	}
	switch s.K {
	case kLine, kCone:
		add(0)
		add(3)
	default:
		add(0)
	}
	return Shape{K: s.K, P: p}
}

func exactQuarter(x float64) bool { return x*4 == math.Trunc(x*4) }

func (k checker) farAway(s Shape, L *lattice) {
	if rep, _ := s.reportedOnly(); rep {
		return
	}
	// only shapes and lattices on the quarter-step grid stay exactly representable after the move
	for _, i := range positionIndices(s) {
		if !exactQuarter(s.P[i]) {
			return
		}
	}
	for _, v := range L.vals {
		if !exactQuarter(v) {
			return
		}
	}
	base, o := evalField(s.build(), L)
	if o.Panicked {
		return
	}
	tol0 := 1e-9 * s.scale(L.max)
	scope := s.K + "/far-from-origin"
	for _, kp := range farPowers {
		for di, d := range farOffsets {
			if (kp/10+di)%2 == 1 && s.K != kPlane {
				continue // half of the (power, direction) pairs per shape; all of them for the plane
			}
			t := mul(d, math.Ldexp(1, kp))
			tmax := math.Max(math.Abs(t[0]), math.Max(math.Abs(t[1]), math.Abs(t[2])))
			tol := tol0 + 4*(math.Nextafter(tmax, math.Inf(1))-tmax)
			mv := s.moved(t)
			cs := Case{Kind: "far", Shape: &s, Lat: L.vals, T: []float64{t[0], t[1], t[2]}}
			f := mv.build()
			bad := -1
			var got float64
			o := core.Guard(func() {
				for i := 0; i < L.n; i++ {
					g := f(vector3.New(L.X[i]+t[0], L.Y[i]+t[1], L.Z[i]+t[2]))
					if !(math.Abs(g-base[i]) <= tol) {
						bad, got = i, g
						return
					}
				}
			})
			class := fmt.Sprintf("%s/offset=2^%d", s.class(), kp)
			switch {
			case o.Panicked:
				k.evalN(scope, "crash", 1)
				k.c.Violate(core.Violation{Site: site(s.K), Clause: clFar, Class: class + "/crash", Detail: fmt.Sprintf("%s%v moved by %v: %s", s.K, s.P, t, o.Msg), Case: cs})
			case bad >= 0:
				k.evalN(scope, "mismatch", int64(L.n))
				k.c.Violate(core.Violation{Site: site(s.K), Clause: clFar, Class: class,
					Detail: fmt.Sprintf("%s%v: f(p)=%v at p=%v, but the shape moved by %v gives %v at p+t", s.K, s.P, base[bad], L.at(bad), t, got), Case: cs})
			default:
				k.evalN(scope, "ok", int64(L.n))
			}
		}
	}
}

func positionIndices(s Shape) []int {
	switch s.K {
	case kLine, kCone:
		return []int{0, 1, 2, 3, 4, 5}
	}
	return []int{0, 1, 2}
}
