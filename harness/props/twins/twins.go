// Package twins: concurrent-twin scenarios (harness/ctwin) for the properties whose statements
// quantify over inputs or parameters and whose entry points are called from several goroutines in
// ordinary use: mesh values shared between goroutines (C01), codecs (C04–C07, C15), spatial indices queried in parallel (C16), signed distance functions (C19), triangulation
// (C20).  C18's families are in props/c18t.  All run in the one instrumented `sched-twin` binary.
package twins

import (
	"bytes"
	"encoding/binary"
	"fmt"
	"hash/fnv"
	"io"
	"log"
	"math"
	"strings"

	"github.com/EliCDavis/polyform/formats/gltf"
	"github.com/EliCDavis/polyform/formats/obj"
	"github.com/EliCDavis/polyform/formats/ply"
	"github.com/EliCDavis/polyform/formats/splat"
	"github.com/EliCDavis/polyform/formats/spz"
	"github.com/EliCDavis/polyform/formats/stl"
	"github.com/EliCDavis/polyform/math/geometry"
	"github.com/EliCDavis/polyform/math/mat"
	"github.com/EliCDavis/polyform/math/quaternion"
	"github.com/EliCDavis/polyform/math/sample"
	"github.com/EliCDavis/polyform/math/sdf"
	"github.com/EliCDavis/polyform/math/trs"
	"github.com/EliCDavis/polyform/modeling"
	"github.com/EliCDavis/polyform/modeling/marching"
	"github.com/EliCDavis/polyform/modeling/primitives"
	"github.com/EliCDavis/polyform/modeling/triangulation"
	"github.com/EliCDavis/polyform/rendering"
	"github.com/EliCDavis/vector/vector2"
	"github.com/EliCDavis/vector/vector3"
	"github.com/EliCDavis/vector/vector4"

	"verif/harness/core"
	"verif/harness/ctwin"
	"verif/harness/meshlib"
	"verif/harness/props/c01"
	"verif/harness/props/c15"
	ml "verif/harness/props/meshopslib"
)

func reg(id string, fams func() []ctwin.Family) {
	core.Register(core.Check{ID: id,
		Run:    func(c *core.Ctx) { log.SetOutput(io.Discard); ctwin.Run(c, fams()) },
		Replay: func(c *core.Ctx) { log.SetOutput(io.Discard); ctwin.Replay(c, fams()) }})
}

func init() {
	reg("C01T", c01Families)
	reg("C04T", func() []ctwin.Family { return []ctwin.Family{plyFamily()} })
	reg("C05T", func() []ctwin.Family { return []ctwin.Family{objFamily()} })
	reg("C06T", func() []ctwin.Family { return []ctwin.Family{gltfFamily()} })
	reg("C07T", func() []ctwin.Family { return []ctwin.Family{stlFamily()} })
	reg("C15T", func() []ctwin.Family { return []ctwin.Family{splatFamily(), spzFamily()} })
	reg("C09T", func() []ctwin.Family { return []ctwin.Family{marchFamily()} })
	reg("C02T", meshopsFamilies)
	reg("C03T", meshopsFamilies)
	reg("C08T", func() []ctwin.Family { return []ctwin.Family{foreignPlyFamily()} })
	reg("C17T", func() []ctwin.Family { return []ctwin.Family{transformFamily()} })
	reg("C16T", c16Families)
	reg("C19T", func() []ctwin.Family { return []ctwin.Family{sdfFamily()} })
	reg("C20T", func() []ctwin.Family { return []ctwin.Family{triangulationFamily()} })
}

type hasher struct{ h uint64 }

func newHasher() *hasher        { return &hasher{1469598103934665603} }
func (h *hasher) u64(x uint64)  { h.h = (h.h ^ x) * 1099511628211 }
func (h *hasher) f64(x float64) { h.u64(math.Float64bits(x)) }
func (h *hasher) v3(v vector3.Float64) {
	h.f64(v.X())
	h.f64(v.Y())
	h.f64(v.Z())
}
func (h *hasher) ints(a []int) {
	h.u64(uint64(len(a)))
	for _, x := range a {
		h.u64(uint64(x))
	}
}
func (h *hasher) bytes(b []byte) {
	f := fnv.New64a()
	f.Write(b)
	h.u64(uint64(len(b)))
	h.u64(f.Sum64())
}
func (h *hasher) err(e error) {
	if e != nil {
		h.bytes([]byte(e.Error()))
	}
}

func v3(x, y, z float64) vector3.Float64 { return vector3.New(x, y, z) }

// ---- C01: one mesh value used by two goroutines at once --------------------------------------

// Every operation of the alphabet against a fixed set of partners that between them read every
// array of the shared value, extend it, re-index it and write it out.
func c01Families() []ctwin.Family {
	ops := c01.TwinOps()
	partners := []string{"Append", "Translate", "WeldByFloat3Attribute", "SetFloat3Attribute", "obj.WriteMesh", "RemoveUnusedIndices"}
	var fams []ctwin.Family
	for _, pn := range partners {
		var partner *c01.TwinOp
		for i := range ops {
			if strings.HasPrefix(ops[i].Name, pn) {
				partner = &ops[i]
				break
			}
		}
		if partner == nil {
			continue
		}
		f := ctwin.Family{Name: "shared-mesh/beside-" + partner.Name, Site: partner.Site, Pairs: [][2]int{}}
		f.Thunks = append(f.Thunks, ctwin.Thunk{Name: partner.Name, Run: partner.Run})
		for _, o := range ops {
			if o.Name == partner.Name {
				continue
			}
			f.Thunks = append(f.Thunks, ctwin.Thunk{Name: o.Name, Run: o.Run})
			f.Pairs = append(f.Pairs, [2]int{0, len(f.Thunks) - 1})
		}
		fams = append(fams, f)
	}
	// the same operation on two different values at once (state private to one operation)
	same := ctwin.Family{Name: "same-operation/two-values", Site: "modeling.Mesh", Pairs: [][2]int{}}
	for _, o := range ops {
		if o.Swapped == nil {
			continue
		}
		same.Thunks = append(same.Thunks, ctwin.Thunk{Name: o.Name + "(G,B)", Run: o.Run}, ctwin.Thunk{Name: o.Name + "(B,G)", Run: o.Swapped})
		same.Pairs = append(same.Pairs, [2]int{len(same.Thunks) - 2, len(same.Thunks) - 1})
	}
	return append(fams, same)
}

// ---- codecs ---------------------------------------------------------------------------------

func texturedMesh(k float64, tris int) modeling.Mesh {
	n := tris + 2
	pos, nrm := make([]vector3.Float64, n), make([]vector3.Float64, n)
	uv := make([]vector2.Float64, n)
	var idx []int
	for i := 0; i < n; i++ {
		f := float64(i)
		pos[i] = v3(k+f, k*0.5-f*f, 0.25*f+k)
		nrm[i] = v3(0.6, 0, 0.8)
		uv[i] = vector2.New(0.1*f+k*0.01, 1-0.05*f)
	}
	for t := 0; t < tris; t++ {
		idx = append(idx, t+2, t, t+1)
	}
	m := modeling.NewTriangleMesh(idx).SetFloat3Attribute(modeling.PositionAttribute, pos).
		SetFloat3Attribute(modeling.NormalAttribute, nrm).SetFloat2Attribute(modeling.TexCoordAttribute, uv)
	mat := modeling.Material{Name: fmt.Sprintf("mat%v", k)}
	return m.SetMaterial(mat)
}

func codecFamily(name, site string, enc func(modeling.Mesh, io.Writer) error, dec func(io.Reader) (uint64, error)) ctwin.Family {
	f := ctwin.Family{Name: name, Site: site}
	for _, p := range []struct {
		k    float64
		tris int
	}{{1, 9}, {7.5, 3}, {-2, 5}} {
		m := texturedMesh(p.k, p.tris)
		f.Thunks = append(f.Thunks, ctwin.Thunk{Name: fmt.Sprintf("%s write+read(%d triangles, k=%v)", name, p.tris, p.k), Run: func() uint64 {
			h := newHasher()
			var buf bytes.Buffer
			h.err(enc(m, &buf))
			h.bytes(buf.Bytes())
			if dec != nil {
				d, err := dec(bytes.NewReader(buf.Bytes()))
				h.u64(d)
				h.err(err)
			}
			return h.h
		}})
	}
	return f
}

func meshDigest(m *modeling.Mesh, err error) (uint64, error) {
	if err != nil || m == nil {
		return 0, err
	}
	return meshlib.QuickHash(*m), nil
}

func plyFamily() ctwin.Family {
	f := codecFamily("ply(ascii)", "ply.Write/ply.ReadMesh",
		func(m modeling.Mesh, w io.Writer) error { return ply.Write(w, m, ply.ASCII) },
		func(r io.Reader) (uint64, error) { return meshDigest(ply.ReadMesh(r)) })
	g := codecFamily("ply(binary)", "ply.Write/ply.ReadMesh",
		func(m modeling.Mesh, w io.Writer) error { return ply.Write(w, m, ply.BinaryLittleEndian) },
		func(r io.Reader) (uint64, error) { return meshDigest(ply.ReadMesh(r)) })
	f.Name = "ply"
	f.Thunks = append(f.Thunks, g.Thunks...)
	return f
}

func objFamily() ctwin.Family {
	return codecFamily("obj", "obj.WriteMesh/obj.ReadMesh",
		func(m modeling.Mesh, w io.Writer) error { return obj.WriteMesh(m, "", w) },
		func(r io.Reader) (uint64, error) {
			ms, _, err := obj.ReadMesh(r)
			h := newHasher()
			for _, x := range ms {
				h.bytes([]byte(x.Name))
				h.u64(meshlib.QuickHash(x.Mesh))
			}
			return h.h, err
		})
}

func gltfFamily() ctwin.Family {
	f := codecFamily("gltf(binary)", "gltf.WriteBinary",
		func(m modeling.Mesh, w io.Writer) error {
			return gltf.WriteBinary(gltf.PolyformScene{Models: []gltf.PolyformModel{{Name: "m", Mesh: &m}}}, w)
		}, nil)
	g := codecFamily("gltf(text)", "gltf.WriteText",
		func(m modeling.Mesh, w io.Writer) error {
			return gltf.WriteText(gltf.PolyformScene{Models: []gltf.PolyformModel{{Name: "m", Mesh: &m}}}, w)
		}, nil)
	f.Name = "gltf"
	f.Thunks = append(f.Thunks, g.Thunks...)
	return f
}

func stlFamily() ctwin.Family {
	return codecFamily("stl", "stl.WriteMesh/stl.ReadMesh",
		func(m modeling.Mesh, w io.Writer) error { return stl.WriteMesh(w, m) },
		func(r io.Reader) (uint64, error) { return meshDigest(stl.ReadMesh(r)) })
}

func splatCloud(k float64, n int) modeling.Mesh {
	pos, sc, fdc := make([]vector3.Float64, n), make([]vector3.Float64, n), make([]vector3.Float64, n)
	op := make([]float64, n)
	rot := make([]vector4.Float64, n)
	for i := 0; i < n; i++ {
		f := float64(i)
		pos[i] = v3(k+f, -f, 0.5*f)
		sc[i] = v3(-1+0.1*f, 0.2, 0.3*k)
		fdc[i] = v3(0.1*f, 0.2*k, -0.3)
		op[i] = k - f
		rot[i] = vector4.New(0.5, -0.5, 0.5, -0.5)
	}
	return modeling.NewPointCloud(map[string][]vector4.Float64{modeling.RotationAttribute: rot},
		map[string][]vector3.Float64{modeling.PositionAttribute: pos, modeling.ScaleAttribute: sc, modeling.FDCAttribute: fdc},
		nil, map[string][]float64{modeling.OpacityAttribute: op}, nil)
}

func splatFamily() ctwin.Family {
	f := ctwin.Family{Name: "splat", Site: "splat.Write/splat.Read"}
	for _, p := range []struct {
		k float64
		n int
	}{{1, 9}, {2.5, 3}, {-2, 5}} {
		m := splatCloud(p.k, p.n)
		f.Thunks = append(f.Thunks, ctwin.Thunk{Name: fmt.Sprintf("write+read(%d splats, k=%v)", p.n, p.k), Run: func() uint64 {
			h := newHasher()
			var buf bytes.Buffer
			h.err(splat.Write(&buf, m))
			h.bytes(buf.Bytes())
			back, err := splat.Read(bytes.NewReader(buf.Bytes()))
			h.err(err)
			if err == nil {
				h.u64(meshlib.QuickHash(back))
			}
			return h.h
		}})
	}
	return f
}

func spzFamily() ctwin.Family {
	f := ctwin.Family{Name: "spz.Read", Site: "spz.Read"}
	for i, data := range c15.TwinSpzStreams() {
		data := data
		f.Thunks = append(f.Thunks, ctwin.Thunk{Name: fmt.Sprintf("stream %d (%d bytes)", i, len(data)), Run: func() uint64 {
			h := newHasher()
			cloud, err := spz.Read(bytes.NewReader(data))
			h.err(err)
			if err == nil {
				h.u64(meshlib.QuickHash(cloud.Mesh))
			}
			return h.h
		}})
	}
	return f
}

// ---- C08: files written by other tools, read by two goroutines ---------------------------------

func foreignPlyFamily() ctwin.Family {
	ascii := func(n int, k float64) []byte {
		var b bytes.Buffer
		fmt.Fprintf(&b, "ply\nformat ascii 1.0\ncomment twin %v\nelement vertex %d\nproperty double x\nproperty double y\nproperty double z\nproperty uchar red\nproperty uchar green\nproperty uchar blue\nproperty float quality\nelement face %d\nproperty list uchar int vertex_indices\nend_header\n", k, n, n-2)
		for i := 0; i < n; i++ {
			fmt.Fprintf(&b, "%v %v %v %d %d %d %v\n", k+float64(i)*1.25, k*0.5-float64(i*i), 0.1*float64(i), (i*40)%256, (i*70+3)%256, (i*90+7)%256, 0.5+float64(i))
		}
		for f := 0; f < n-2; f++ {
			fmt.Fprintf(&b, "3 %d %d %d\n", f, f+1, f+2)
		}
		return b.Bytes()
	}
	binaryLE := func(n int, k float64) []byte {
		var b bytes.Buffer
		fmt.Fprintf(&b, "ply\nformat binary_little_endian 1.0\nelement vertex %d\nproperty float x\nproperty float y\nproperty float z\nproperty float nx\nproperty float ny\nproperty float nz\nelement face %d\nproperty list uchar uint vertex_indices\nend_header\n", n, n-2)
		for i := 0; i < n; i++ {
			for _, v := range []float32{float32(k) + float32(i), float32(i * i), -float32(i), 0, 1, 0} {
				binary.Write(&b, binary.LittleEndian, v)
			}
		}
		for f := 0; f < n-2; f++ {
			b.WriteByte(3)
			for _, v := range []uint32{uint32(f + 2), uint32(f), uint32(f + 1)} {
				binary.Write(&b, binary.LittleEndian, v)
			}
		}
		return b.Bytes()
	}
	f := ctwin.Family{Name: "ply.ReadMesh(files of other tools)", Site: "ply.ReadMesh"}
	for i, data := range [][]byte{ascii(9, 1), ascii(4, -7.5), binaryLE(8, 2), binaryLE(5, 30)} {
		data := data
		f.Thunks = append(f.Thunks, ctwin.Thunk{Name: fmt.Sprintf("file %d (%d bytes)", i, len(data)), Run: func() uint64 {
			h := newHasher()
			d, err := meshDigest(ply.ReadMesh(bytes.NewReader(data)))
			h.u64(d)
			h.err(err)
			return h.h
		}})
	}
	return f
}

// ---- C17: the transform types in two goroutines -------------------------------------------------

func transformFamily() ctwin.Family {
	f := ctwin.Family{Name: "transforms", Site: "math/trs, math/mat, math/quaternion, math/geometry"}
	for k, n := range []int{40, 7, 19} {
		k, n := k, n
		pts := make([]vector3.Float64, n)
		for i := range pts {
			pts[i] = v3(float64(i)+0.5*float64(k), float64(i*i)-3, 0.25*float64(i))
		}
		f.Thunks = append(f.Thunks, ctwin.Thunk{Name: fmt.Sprintf("TRS %d: constructors, TransformArray/InPlace/Mesh.ApplyTRS on %d points, matrix inverse, boxes", k, n), Run: func() uint64 {
			h := newHasher()
			// the constructors run inside the call too (FromTheta, trs.New, the single-component forms)
			T := trs.New(v3(1+float64(k), -2, 3), quaternion.FromTheta(0.7+float64(k), v3(1, 2, -3)), v3(2, 0.5+float64(k), 1.5))
			h.v3(trs.Position(v3(float64(k), 1, 2)).Transform(pts[0]))
			h.v3(trs.Scale(v3(2, float64(k)+1, 0.5)).Transform(pts[0]))
			h.v3(trs.Rotation(quaternion.FromTheta(-1.3*float64(k+1), v3(0, 1, float64(k)))).Transform(pts[0]))
			h.v3(quaternion.FromTheta(2.5-float64(k), v3(1, -2, 3)).Multiply(quaternion.FromTheta(0.4*float64(k+1), v3(0, 0, 1))).Rotate(pts[1]))
			for _, p := range T.TransformArray(pts) {
				h.v3(p)
			}
			cp := append([]vector3.Float64{}, pts...)
			T.TransformInPlace(cp)
			for _, p := range cp {
				h.v3(p)
			}
			idx := make([]int, n)
			for i := range idx {
				idx[i] = i
			}
			m := modeling.NewMesh(modeling.PointTopology, idx).SetFloat3Attribute(modeling.PositionAttribute, append([]vector3.Float64{}, pts...))
			h.u64(meshlib.QuickHash(m.ApplyTRS(T).Rotate(T.Rotation()).Translate(T.Position()).Scale(T.Scale())))
			M := mat.Matrix4x4{X00: 2 + float64(k), X11: 0.5, X22: 1.5, X33: 1, X03: 1, X13: -2, X23: 3, X01: 0.25}
			inv := M.Inverse().Multiply(M).Add(M)
			for _, x := range []float64{inv.X00, inv.X01, inv.X03, inv.X11, inv.X22, inv.X33, M.Determinant()} {
				h.f64(x)
			}
			h.v3(M.MulPosition(pts[0]))
			box := geometry.NewAABBFromPoints(pts...)
			box.EncapsulatePoint(v3(-5, float64(k), 9))
			h.v3(box.Min())
			h.v3(box.Max())
			h.v3(box.ClosestPoint(v3(100, -100, 0.5)))
			q := quaternion.RotationTo(v3(1, 0, 0), v3(0, 1, float64(k)).Normalized())
			h.v3(q.Rotate(pts[n-1]))
			return h.h
		}})
	}
	return f
}

// ---- C09: marching cubes on unrelated canvases (this binary stores 6^3 blocks: build-sched.sh) ----

func marchFamily() ctwin.Family {
	f := ctwin.Family{Name: "marching(own canvas per call)", Site: "marching.MarchingCanvas.March", Bounds: []int{0}}
	fields := []struct {
		name string
		f    marching.Field
		cpu  float64
	}{
		{"sphere r=1.6 at 1 cube/unit", marching.Sphere(v3(2.5, 2.5, 2.5), 1.6, 1), 1},
		{"sphere r=1.1 at 2 cubes/unit, across a block boundary", marching.Sphere(v3(3.1, 1.2, 1.4), 1.1, 1), 2},
		{"box + line at 1 cube/unit", marching.Box(v3(2, 2, 2), v3(2.2, 1.6, 1.8), 1).Combine(marching.Line(v3(0.5, 2, 2), v3(4.5, 3, 2), 0.7, 1)), 1},
	}
	for _, fd := range fields {
		fd := fd
		f.Thunks = append(f.Thunks,
			ctwin.Thunk{Name: "March: " + fd.name, Run: func() uint64 {
				cv := marching.NewMarchingCanvas(fd.cpu)
				cv.AddField(fd.f)
				return triangleMultiset(cv.March(0))
			}},
			ctwin.Thunk{Name: "Field.March: " + fd.name, Run: func() uint64 {
				return triangleMultiset(fd.f.March(modeling.PositionAttribute, fd.cpu, 0))
			}})
	}
	return f
}

// triangleMultiset: an order-insensitive digest of a triangle mesh (the canvas emits vertices and
// triangles in map order): the commutative sum of per-triangle digests over the corner positions,
// each triangle rotated to start at its smallest corner.
func triangleMultiset(m modeling.Mesh) uint64 {
	idx := m.Indices()
	if !m.HasFloat3Attribute(modeling.PositionAttribute) {
		return uint64(idx.Len())
	}
	pos := m.Float3Attribute(modeling.PositionAttribute)
	less := func(a, b vector3.Float64) bool {
		if a.X() != b.X() {
			return a.X() < b.X()
		}
		if a.Y() != b.Y() {
			return a.Y() < b.Y()
		}
		return a.Z() < b.Z()
	}
	sum := uint64(idx.Len())
	for t := 0; t+2 < idx.Len(); t += 3 {
		a, b, c := pos.At(idx.At(t)), pos.At(idx.At(t+1)), pos.At(idx.At(t+2))
		for less(b, a) || less(c, a) {
			a, b, c = b, c, a
		}
		h := newHasher()
		h.v3(a)
		h.v3(b)
		h.v3(c)
		sum += h.h
	}
	return sum
}

// ---- C02 / C03: one mesh operation on two unrelated meshes at once ---------------------------

// Every operation of the shared alphabet (default parameters) applied, in two goroutines, to two
// different meshes: state private to one operation (a scratch table, a pooled buffer) is shared by
// exactly these two calls.
func meshopsFamilies() []ctwin.Family {
	specs := []meshlib.Spec{
		{Topo: "tri", V: 6, Idx: []int{4, 2, 0, 4, 3, 2, 1, 5, 0}, Mix: "all", Mats: []int{2, 1}},
		{Topo: "tri", V: 4, Idx: []int{1, 0, 2, 2, 3, 1}, Mix: "all", Mats: []int{1, 1}},
	}
	f := ctwin.Family{Name: "meshops(same operation, two meshes)", Site: "modeling/meshops", Pairs: [][2]int{}}
	for _, op := range ml.Alphabet {
		op := op
		if strings.Contains(op.Name, "Laplacian") {
			continue // sums neighbours in map order: last-bit differences between two runs are legitimate
		}
		if strings.Contains(op.Name, "Parallel") {
			continue // spawns workers of its own: C10's subject
		}
		var ths []ctwin.Thunk
		for si, sp := range specs {
			sp := sp
			sh := ml.ShapeOfSpec(sp)
			vs := op.Variants(sh, false)
			if len(vs) == 0 {
				continue
			}
			p := vs[0]
			if op.Outside != nil && op.Outside(sh, p) != "" {
				continue
			}
			// operations that reject this input have no result to compare
			ok := true
			func() {
				defer func() {
					if recover() != nil {
						ok = false
					}
				}()
				if _, err := op.Apply(sp.Build(), p); err != nil {
					ok = false
				}
			}()
			if !ok {
				continue
			}
			run := func() uint64 {
				h := newHasher()
				res, err := op.Apply(sp.Build(), p)
				h.err(err)
				for _, r := range res {
					h.u64(meshlib.QuickHash(r))
				}
				return h.h
			}
			if run() != run() {
				continue // sums in map order (LaplacianSmooth): no single result to compare with
			}
			ths = append(ths, ctwin.Thunk{Name: fmt.Sprintf("%s on mesh %d", op.Name, si), Run: run})
		}
		if len(ths) == 2 {
			f.Thunks = append(f.Thunks, ths...)
			f.Pairs = append(f.Pairs, [2]int{len(f.Thunks) - 2, len(f.Thunks) - 1})
		}
	}
	return []ctwin.Family{f}
}

// ---- C16: one index queried from two goroutines -----------------------------------------------

func c16Families() []ctwin.Family {
	mesh := primitives.UVSphere(1, 6, 8)
	tree := mesh.OctTree()
	pts := []vector3.Float64{v3(0.9, 0.1, 0), v3(-2, 0.5, 0.3), v3(0, 0, 0), v3(0.2, -0.95, 0.1)}
	oct := ctwin.Family{Name: "octree-queries(shared tree)", Site: "trees.OctTree"}
	for i, p := range pts {
		p := p
		oct.Thunks = append(oct.Thunks,
			ctwin.Thunk{Name: fmt.Sprintf("ClosestPoint(p%d)", i), Run: func() uint64 {
				h := newHasher()
				id, q := tree.ClosestPoint(p)
				h.u64(uint64(id))
				h.v3(q)
				return h.h
			}})
	}
	oct.Thunks = append(oct.Thunks,
		ctwin.Thunk{Name: "ElementsWithinRange(p0, 0.5)", Run: func() uint64 {
			h := newHasher()
			h.ints(tree.ElementsWithinRange(pts[0], 0.5))
			return h.h
		}},
		ctwin.Thunk{Name: "ElementsWithinRange(p2, 1.1)", Run: func() uint64 {
			h := newHasher()
			h.ints(tree.ElementsWithinRange(pts[2], 1.1))
			return h.h
		}},
		// (ElementsIntersectingRay has a pointer receiver and fills a buffer kept in the tree: by its
		// signature not a read-only query; it runs on trees of its own below.)
		ctwin.Thunk{Name: "TraverseIntersectingRay(+x)", Run: func() uint64 {
			h := newHasher()
			tree.TraverseIntersectingRay(geometry.NewRay(v3(-3, 0.1, 0.2), v3(1, 0, 0)), 0, math.Inf(1), func(i int, min, max *float64) { h.u64(uint64(i)) })
			return h.h
		}},
		ctwin.Thunk{Name: "TraverseIntersectingRay(oblique, [0.5,4])", Run: func() uint64 {
			h := newHasher()
			tree.TraverseIntersectingRay(geometry.NewRay(v3(2, 2, 2), v3(-1, -1, -0.9)), 0.5, 4, func(i int, min, max *float64) { h.u64(uint64(i)) })
			return h.h
		}},
		ctwin.Thunk{Name: "ElementsContainingPoint(p0)", Run: func() uint64 {
			h := newHasher()
			h.ints(tree.ElementsContainingPoint(pts[0]))
			return h.h
		}})
	build := ctwin.Family{Name: "octree-build", Site: "modeling.Mesh.OctTree"}
	for _, rc := range [][2]int{{6, 8}, {3, 4}, {4, 9}} {
		rc := rc
		build.Thunks = append(build.Thunks, ctwin.Thunk{Name: fmt.Sprintf("OctTree(UVSphere %dx%d)+ClosestPoint", rc[0], rc[1]), Run: func() uint64 {
			h := newHasher()
			t := primitives.UVSphere(1, rc[0], rc[1]).OctTree()
			id, q := t.ClosestPoint(pts[1])
			h.u64(uint64(id))
			h.v3(q)
			return h.h
		}})
	}
	for i, od := range [][2]vector3.Float64{{v3(-3, 0.1, 0.2), v3(1, 0, 0)}, {v3(2, 2, 2), v3(-1, -1, -0.9)}} {
		od := od
		build.Thunks = append(build.Thunks, ctwin.Thunk{Name: fmt.Sprintf("OctTree(UVSphere 5x6)+ElementsIntersectingRay(ray %d)", i), Run: func() uint64 {
			h := newHasher()
			t := primitives.UVSphere(1, 5, 6).OctTree()
			h.ints(t.ElementsIntersectingRay(geometry.NewRay(od[0], od[1]), 0, math.Inf(1)))
			return h.h
		}})
	}
	bvh := rendering.NewBVHFromMesh(mesh, nil)
	hit := ctwin.Family{Name: "bvh-hit(shared hierarchy)", Site: "rendering.BVHNode.Hit"}
	for i, od := range [][2]vector3.Float64{{v3(-3, 0.1, 0.2), v3(1, 0, 0)}, {v3(2, 2, 2), v3(-1, -1, -0.9)}, {v3(0, 3, 0), v3(0, -1, 0)}, {v3(0, 0, 0), v3(0.3, 0.4, 0.5)}} {
		od := od
		hit.Thunks = append(hit.Thunks, ctwin.Thunk{Name: fmt.Sprintf("Hit(ray %d)", i), Run: func() uint64 {
			h := newHasher()
			rec := rendering.NewHitRecord()
			tr := rendering.NewTemporalRay(od[0], od[1], 0)
			if bvh.Hit(&tr, 0, math.Inf(1), rec) {
				h.u64(1)
				h.f64(rec.Distance)
			}
			return h.h
		}})
	}
	return []ctwin.Family{oct, build, hit}
}

// ---- C19: one distance function evaluated from two goroutines ---------------------------------

func sdfFamily() ctwin.Family {
	fields := map[string]sample.Vec3ToFloat{
		"sphere":       sdf.Sphere(v3(0.1, 0.2, -0.3), 1.2),
		"box":          sdf.Box(v3(0, 0, 0), v3(1, 2, 0.5)),
		"rounded-box":  sdf.RoundedBox(v3(0, 0, 0), v3(1, 2, 0.5), 0.2),
		"line":         sdf.Line(v3(-1, 0, 0), v3(1, 1, 0), 0.3),
		"rounded-cone": sdf.RoundedCone(v3(0, 0, 0), v3(0, 2, 0), 0.8, 0.3),
		"rounded-cyl":  sdf.RoundedCylinder(v3(0, 0, 0), 1, 0.2, 1.5),
		"union3":       sdf.Union(sdf.Sphere(v3(-1, 0, 0), 1), sdf.Box(v3(1, 0, 0), v3(1, 1, 1)), sdf.Line(v3(0, -2, 0), v3(0, 2, 0), 0.2)),
		"intersect":    sdf.Intersect(sdf.Sphere(v3(0, 0, 0), 1), sdf.Box(v3(0.5, 0, 0), v3(1, 1, 1))),
		"translate":    sdf.Translate(sdf.Sphere(v3(0, 0, 0), 1), v3(1, 2, 3)),
	}
	names := []string{"sphere", "box", "rounded-box", "line", "rounded-cone", "rounded-cyl", "union3", "intersect", "translate"}
	grid := func(o float64) []vector3.Float64 {
		var ps []vector3.Float64
		for x := -2.0; x <= 2; x += 1 {
			for y := -2.0; y <= 2; y += 1 {
				ps = append(ps, v3(x+o, y-o, 0.5*x*y+o))
			}
		}
		return ps
	}
	f := ctwin.Family{Name: "sdf(one function, two goroutines)", Site: "math/sdf", Pairs: [][2]int{}}
	// two thunks per function: the same closure evaluated on two different point sets
	for _, n := range names {
		fn := fields[n]
		for k, o := range []float64{0, 0.37} {
			ps := grid(o)
			f.Thunks = append(f.Thunks, ctwin.Thunk{Name: fmt.Sprintf("%s on grid %d", n, k), Run: func() uint64 {
				h := newHasher()
				for _, p := range ps {
					h.f64(fn(p))
				}
				return h.h
			}})
		}
		f.Pairs = append(f.Pairs, [2]int{len(f.Thunks) - 2, len(f.Thunks) - 1})
	}
	// and two different functions side by side (constructors may share tables)
	for i := 0; i+2 < len(f.Thunks); i += 2 {
		f.Pairs = append(f.Pairs, [2]int{i, i + 2})
	}
	return f
}

// ---- C20: triangulation ------------------------------------------------------------------------

func triangulationFamily() ctwin.Family {
	f := ctwin.Family{Name: "BowyerWatson", Site: "triangulation.BowyerWatson"}
	sets := [][]vector2.Float64{}
	for _, n := range []int{12, 7, 9} {
		var ps []vector2.Float64
		for i := 1; i <= n; i++ {
			x := float64(i)
			ps = append(ps, vector2.New(x+0.25*float64(n), x*x*0.5-float64(i%3)))
		}
		sets = append(sets, ps)
	}
	for si, ps := range sets {
		ps := ps
		f.Thunks = append(f.Thunks, ctwin.Thunk{Name: fmt.Sprintf("point set %d (%d points)", si, len(ps)), Run: func() uint64 {
			in := append([]vector2.Float64{}, ps...)
			m := triangulation.BowyerWatson(in)
			// triangles are emitted in map order: digest the sorted canonical triangle list and the positions
			h := newHasher()
			idx := m.Indices()
			var keys []uint64
			for t := 0; t+2 < idx.Len(); t += 3 {
				a, b, c := idx.At(t), idx.At(t+1), idx.At(t+2)
				for a > b || a > c {
					a, b, c = b, c, a
				}
				keys = append(keys, uint64(a)<<40|uint64(b)<<20|uint64(c))
			}
			for i := 1; i < len(keys); i++ {
				for j := i; j > 0 && keys[j] < keys[j-1]; j-- {
					keys[j], keys[j-1] = keys[j-1], keys[j]
				}
			}
			for _, k := range keys {
				h.u64(k)
			}
			pos := m.Float3Attribute(modeling.PositionAttribute)
			for i := 0; i < pos.Len(); i++ {
				h.v3(pos.At(i))
			}
			return h.h
		}})
	}
	return f
}
