package c18

import "github.com/EliCDavis/polyform/modeling"

// Build and Site for the concurrent-twin scenarios (props/c18t).
func Build(cs Case) modeling.Mesh { return build(cs) }
func Site(kind string) string     { return site(kind) }
