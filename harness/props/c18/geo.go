package c18

import (
	"fmt"
	"math"
	"sort"

	"github.com/EliCDavis/polyform/modeling"
	"github.com/EliCDavis/vector/vector3"
)

type V3 = vector3.Float64

func v3(x, y, z float64) V3 { return vector3.New(x, y, z) }

// soup is a triangle list over a vertex table, read through the public accessors only.
// Quad topology is triangulated (0,1,2),(0,2,3).
type soup struct {
	P    []V3
	N    []V3 // supplied normals (nil when the mesh has none)
	Tri  [][3]int
	Topo string
}

func readMesh(m modeling.Mesh) (soup, error) {
	var s soup
	if !m.HasFloat3Attribute(modeling.PositionAttribute) {
		return s, fmt.Errorf("mesh has no position attribute")
	}
	it := m.Float3Attribute(modeling.PositionAttribute)
	s.P = make([]V3, it.Len())
	for i := range s.P {
		s.P[i] = it.At(i)
	}
	if m.HasFloat3Attribute(modeling.NormalAttribute) {
		nt := m.Float3Attribute(modeling.NormalAttribute)
		if nt.Len() != len(s.P) {
			return s, fmt.Errorf("normal count %d differs from position count %d", nt.Len(), len(s.P))
		}
		s.N = make([]V3, nt.Len())
		for i := range s.N {
			s.N[i] = nt.At(i)
		}
	}
	idx := m.Indices()
	ok := func(vs ...int) error {
		for _, v := range vs {
			if v < 0 || v >= len(s.P) {
				return fmt.Errorf("index %d out of range (%d vertices)", v, len(s.P))
			}
		}
		return nil
	}
	switch m.Topology() {
	case modeling.TriangleTopology:
		s.Topo = "triangle"
		if idx.Len()%3 != 0 {
			return s, fmt.Errorf("index count %d is not a multiple of 3", idx.Len())
		}
		for i := 0; i+2 < idx.Len(); i += 3 {
			a, b, c := idx.At(i), idx.At(i+1), idx.At(i+2)
			if err := ok(a, b, c); err != nil {
				return s, err
			}
			s.Tri = append(s.Tri, [3]int{a, b, c})
		}
	case modeling.QuadTopology:
		s.Topo = "quad"
		if idx.Len()%4 != 0 {
			return s, fmt.Errorf("index count %d is not a multiple of 4", idx.Len())
		}
		for i := 0; i+3 < idx.Len(); i += 4 {
			a, b, c, d := idx.At(i), idx.At(i+1), idx.At(i+2), idx.At(i+3)
			if err := ok(a, b, c, d); err != nil {
				return s, err
			}
			s.Tri = append(s.Tri, [3]int{a, b, c}, [3]int{a, c, d})
		}
	default:
		return s, fmt.Errorf("topology %v is neither triangle nor quad", m.Topology())
	}
	return s, nil
}

// mergeCoincident labels vertices so that positions closer than eps (per axis) share one id.
// Tolerance based (grid hash + union-find over the 27 neighbouring cells), so two copies of a
// vertex that differ in the last bits can never be separated by a rounding boundary of the oracle.
func mergeCoincident(p []V3, eps float64) (rep []int, classes int) {
	parent := make([]int, len(p))
	for i := range parent {
		parent[i] = i
	}
	var find func(int) int
	find = func(i int) int {
		for parent[i] != i {
			parent[i] = parent[parent[i]]
			i = parent[i]
		}
		return i
	}
	type key [3]int64
	cell := func(v V3) key {
		return key{int64(math.Floor(v.X() / eps)), int64(math.Floor(v.Y() / eps)), int64(math.Floor(v.Z() / eps))}
	}
	grid := map[key][]int{}
	for i, v := range p {
		k := cell(v)
		for dx := int64(-1); dx <= 1; dx++ {
			for dy := int64(-1); dy <= 1; dy++ {
				for dz := int64(-1); dz <= 1; dz++ {
					for _, j := range grid[key{k[0] + dx, k[1] + dy, k[2] + dz}] {
						d := v.Sub(p[j])
						if math.Abs(d.X()) <= eps && math.Abs(d.Y()) <= eps && math.Abs(d.Z()) <= eps {
							a, b := find(i), find(j)
							if a != b {
								if a < b {
									parent[b] = a
								} else {
									parent[a] = b
								}
							}
						}
					}
				}
			}
		}
		grid[k] = append(grid[k], i)
	}
	rep = make([]int, len(p))
	ids := map[int]int{}
	for i := range p {
		r := find(i)
		id, ok := ids[r]
		if !ok {
			id = len(ids)
			ids[r] = id
		}
		rep[i] = id
	}
	return rep, len(ids)
}

type dedge struct{ a, b int }

// edgeReport pairs directed edges of the relabelled triangles. A triangle that repeats a
// (merged) vertex is counted and left out of the pairing.
type edgeReport struct {
	repeated int
	open     []dedge // directed edge whose opposite does not exist
	multi    []dedge // directed edge used by more than one triangle
	faceOf   map[dedge]int
}

func pairEdges(tri [][3]int, rep []int) edgeReport {
	r := edgeReport{faceOf: map[dedge]int{}}
	cnt := map[dedge]int{}
	for fi, t := range tri {
		a, b, c := rep[t[0]], rep[t[1]], rep[t[2]]
		if a == b || b == c || a == c {
			r.repeated++
			continue
		}
		for _, e := range []dedge{{a, b}, {b, c}, {c, a}} {
			cnt[e]++
			if _, ok := r.faceOf[e]; !ok {
				r.faceOf[e] = fi
			}
		}
	}
	for e, n := range cnt {
		if n > 1 {
			r.multi = append(r.multi, e)
		}
		if cnt[dedge{e.b, e.a}] == 0 {
			r.open = append(r.open, e)
		}
	}
	less := func(s []dedge) func(i, j int) bool {
		return func(i, j int) bool {
			if s[i].a != s[j].a {
				return s[i].a < s[j].a
			}
			return s[i].b < s[j].b
		}
	}
	sort.Slice(r.open, less(r.open))
	sort.Slice(r.multi, less(r.multi))
	return r
}

func (s soup) faceNormal(i int) V3 {
	t := s.Tri[i]
	a, b, c := s.P[t[0]], s.P[t[1]], s.P[t[2]]
	return b.Sub(a).Cross(c.Sub(a))
}

func (s soup) centroid(i int) V3 {
	t := s.Tri[i]
	return s.P[t[0]].Add(s.P[t[1]]).Add(s.P[t[2]]).Scale(1. / 3)
}

// signedVolume: sum of signed tetrahedra against the origin (positive = outward, counter-clockwise).
func (s soup) signedVolume() float64 {
	v := 0.
	for _, t := range s.Tri {
		a, b, c := s.P[t[0]], s.P[t[1]], s.P[t[2]]
		v += a.Dot(b.Cross(c)) / 6
	}
	return v
}

// ---- closed forms of the inscribed polyhedra (derived here, not read from the library) ----

// area of a regular n-gon with circumradius rho
func ngonArea(n int, rho float64) float64 {
	return float64(n) / 2 * rho * rho * math.Sin(2*math.Pi/float64(n))
}

// frustum between two parallel, aligned, similar regular polygons (areas a0,a1, distance h).
// The lateral faces are planar trapezoids, so the diagonal chosen by the triangulation is irrelevant.
func frustum(h, a0, a1 float64) float64 { return h / 3 * (a0 + a1 + math.Sqrt(a0*a1)) }

// bands of a solid of revolution: rings at polar angles alpha[i] (from +y) on a sphere of radius r.
func bandVolume(r float64, cols int, alpha []float64) float64 {
	v := 0.
	for i := 0; i+1 < len(alpha); i++ {
		y0, y1 := r*math.Cos(alpha[i]), r*math.Cos(alpha[i+1])
		a0, a1 := ngonArea(cols, r*math.Sin(alpha[i])), ngonArea(cols, r*math.Sin(alpha[i+1]))
		v += frustum(math.Abs(y0-y1), a0, a1)
	}
	return v
}

// UV sphere: poles plus rows-1 rings at equal polar steps pi/rows.
func sphereVolume(r float64, rows, cols int) float64 {
	alpha := make([]float64, rows+1)
	for i := range alpha {
		alpha[i] = math.Pi * float64(i) / float64(rows)
	}
	alpha[0], alpha[rows] = 0, math.Pi
	v := 0.
	for i := 0; i < rows; i++ {
		// pole rings have radius exactly 0 (sin(pi) is not 0 in floating point)
		rho0, rho1 := r*math.Sin(alpha[i]), r*math.Sin(alpha[i+1])
		if i == 0 {
			rho0 = 0
		}
		if i == rows-1 {
			rho1 = 0
		}
		h := r*math.Cos(alpha[i]) - r*math.Cos(alpha[i+1])
		v += frustum(h, ngonArea(cols, rho0), ngonArea(cols, rho1))
	}
	return v
}

// Hemisphere (dome over a flat base at y=0). Two ring conventions are accepted, because the
// statement only fixes "the polyhedron inscribed for those parameters":
//   - "uniform":   rows bands, rings at polar angles (pi/2)(1 - i/rows), i = 0..rows-1, then the apex
//   - "as-built":  rings i = 0..rows-2 only, then the apex (the last band spans two steps)
func hemisphereVolumes(r float64, rows, cols int) (uniform, asBuilt float64) {
	ring := func(i int) float64 { return math.Pi / 2 * (1 - float64(i)/float64(rows)) }
	var au, ab []float64
	for i := 0; i <= rows-1; i++ {
		au = append(au, ring(i))
	}
	for i := 0; i <= rows-2; i++ {
		ab = append(ab, ring(i))
	}
	vol := func(alpha []float64) float64 {
		v := bandVolume(r, cols, alpha)
		last := alpha[len(alpha)-1]
		// cone from the last ring to the apex (0,r,0)
		v += frustum(r-r*math.Cos(last), ngonArea(cols, r*math.Sin(last)), 0)
		return v
	}
	return vol(au), vol(ab)
}

func prismVolume(r, h float64, sides int) float64 { return ngonArea(sides, r) * h }
