// Package c18: solid primitives are closed, outward-facing and of the right volume (DESIGN §4 C18).
//
// Bounded-exhaustive enumeration of the constructors' parameter grids. Every returned mesh is read
// through the public accessors and judged by an oracle written here: tolerance-based merging of
// coincident positions, directed-edge pairing, per-face outward test against an interior point
// (all these solids are convex), signed volume against closed forms of the inscribed polyhedra,
// "inscribed" (every vertex on the analytic surface), and the supplied vertex normals.
package c18

import (
	"github.com/EliCDavis/polyform/nodes"
	"runtime"
	"encoding/json"
	"fmt"
	"io"
	"log"
	"math"
	"sort"
	"strings"

	"github.com/EliCDavis/polyform/modeling"
	"github.com/EliCDavis/polyform/modeling/primitives"
	"github.com/EliCDavis/vector/vector2"

	"verif/harness/core"
)

func init() { core.Register(core.Check{ID: "C18", Run: run, Replay: replay}) }

// Case is one constructor call (replayable).
type Case struct {
	Kind   string  `json:"kind"` // uvsphere | uvsphere-unwelded | hemisphere | cylinder | cube-welded | cube-quads | ladder-*
	Rows   int     `json:"rows,omitempty"`
	Cols   int     `json:"cols,omitempty"`
	Sides  int     `json:"sides,omitempty"`
	R      float64 `json:"r,omitempty"`
	H      float64 `json:"h,omitempty"`
	W      float64 `json:"w,omitempty"`
	D      float64 `json:"d,omitempty"`
	UV     string  `json:"uv,omitempty"`
	Capped bool    `json:"capped,omitempty"`
	// Rungs of a ladder case: {rows, cols} or {sides, 0}.
	Rungs [][2]int `json:"rungs,omitempty"`
	// Via "node": the solid is requested through the constructor's node-graph wrapper
	// (primitives.CubeNodeData, CylinderNodeData, HemisphereNodeData, UvSphereNodeData) with every
	// input connected; the wrapper must build the solid the parameters describe.
	Via string `json:"via,omitempty"`
	// Procs > 0: the constructor runs with the process limited to that many processors.
	Procs int `json:"procs,omitempty"`
	// Pre: constructor calls made right before this one (built, not judged): a constructor is a
	// function of its parameters, whatever was built before.
	Pre []Case `json:"pre,omitempty"`
}

const (
	clMesh     = "every admissible parameter choice yields a mesh (no crash)"
	clClosed   = "closed, consistently oriented surface once coincident positions are merged (every directed edge matched by exactly one opposite edge)"
	clOutward  = "faces point outward"
	clVolume   = "enclosed volume equals that of the inscribed polyhedron"
	clInscribe = "polyhedron is inscribed (every vertex on the analytic surface)"
	clNormals  = "supplied vertex normals point to the outer side of every incident face"
	clLadder   = "volume approaches the analytic volume as resolution grows"
)

func site(kind string) string {
	switch kind {
	case "uvsphere", "ladder-uvsphere":
		return "primitives.UVSphere"
	case "uvsphere-unwelded", "ladder-uvsphere-unwelded":
		return "primitives.UVSphereUnwelded"
	case "hemisphere", "ladder-hemisphere":
		return "primitives.Hemisphere.UV"
	case "cylinder", "ladder-cylinder":
		return "primitives.Cylinder.ToMesh"
	case "cube-welded":
		return "primitives.Cube.Welded"
	case "cube-quads":
		return "primitives.Cube.UnweldedQuads"
	}
	return "primitives." + kind
}

func strip(start, end [2]float64, w float64) *primitives.StripUVs {
	return &primitives.StripUVs{Start: vector2.New(start[0], start[1]), End: vector2.New(end[0], end[1]), Width: w}
}

func cylinderUVs(opt string) *primitives.CylinderUVs {
	top := &primitives.CircleUVs{Center: vector2.New(0.25, 0.75), Radius: 0.25}
	bot := &primitives.CircleUVs{Center: vector2.New(0.75, 0.75), Radius: 0.25}
	side := strip([2]float64{0, 0.25}, [2]float64{1, 0.25}, 0.5)
	switch opt {
	case "all":
		return &primitives.CylinderUVs{Top: top, Bottom: bot, Side: side}
	case "side":
		return &primitives.CylinderUVs{Side: side}
	case "caps":
		return &primitives.CylinderUVs{Top: top, Bottom: bot}
	case "top":
		return &primitives.CylinderUVs{Top: top}
	case "empty":
		return &primitives.CylinderUVs{}
	}
	return nil
}

var cubeFaces = []string{"top", "bottom", "left", "right", "front", "back"}

func cubeUVs(opt string) *primitives.CubeUVs {
	if opt == "" || opt == "none" {
		return nil
	}
	if opt == "default" {
		return primitives.DefaultCubeUVs()
	}
	if opt == "empty" {
		return &primitives.CubeUVs{}
	}
	d := primitives.DefaultCubeUVs()
	u := &primitives.CubeUVs{}
	switch strings.TrimPrefix(opt, "only-") {
	case "top":
		u.Top = d.Top
	case "bottom":
		u.Bottom = d.Bottom
	case "left":
		u.Left = d.Left
	case "right":
		u.Right = d.Right
	case "front":
		u.Front = d.Front
	case "back":
		u.Back = d.Back
	}
	return u
}

func nodeResult(m modeling.Mesh, err error) modeling.Mesh {
	if err != nil {
		panic(err)
	}
	return m
}

func build(cs Case) modeling.Mesh {
	for _, p := range cs.Pre {
		core.Guard(func() { _ = build(p) })
	}
	if cs.Procs > 0 {
		defer runtime.GOMAXPROCS(runtime.GOMAXPROCS(cs.Procs))
	}
	if cs.Via == "node" {
		f, n, b := func(v float64) nodes.NodeOutput[float64] { return nodes.Value(v).Out() }, func(v int) nodes.NodeOutput[int] { return nodes.Value(v).Out() }, func(v bool) nodes.NodeOutput[bool] { return nodes.Value(v).Out() }
		switch cs.Kind {
		case "uvsphere", "uvsphere-unwelded":
			return nodeResult(primitives.UvSphereNodeData{Radius: f(cs.R), Rows: n(cs.Rows), Columns: n(cs.Cols), Weld: b(cs.Kind == "uvsphere")}.Process())
		case "hemisphere":
			return nodeResult(primitives.HemisphereNodeData{Radius: f(cs.R), Rows: n(cs.Rows), Columns: n(cs.Cols), Capped: b(cs.Capped)}.Process())
		case "cylinder":
			return nodeResult(primitives.CylinderNodeData{Radius: f(cs.R), Height: f(cs.H), Sides: n(cs.Sides), Top: b(true), Bottom: b(true)}.Process())
		case "cube-quads":
			return nodeResult(primitives.CubeNodeData{Width: f(cs.W), Height: f(cs.H), Depth: f(cs.D)}.Process())
		}
		panic("c18: no node wrapper for " + cs.Kind)
	}
	switch cs.Kind {
	case "uvsphere":
		return primitives.UVSphere(cs.R, cs.Rows, cs.Cols)
	case "uvsphere-unwelded":
		return primitives.UVSphereUnwelded(cs.R, cs.Rows, cs.Cols)
	case "hemisphere":
		return primitives.Hemisphere{Radius: cs.R, Capped: cs.Capped}.UV(cs.Rows, cs.Cols)
	case "cylinder":
		return primitives.Cylinder{Sides: cs.Sides, Height: cs.H, Radius: cs.R, UVs: cylinderUVs(cs.UV)}.ToMesh()
	case "cube-welded":
		return primitives.Cube{Height: cs.H, Width: cs.W, Depth: cs.D, UVs: cubeUVs(cs.UV)}.Welded()
	case "cube-quads":
		return primitives.Cube{Height: cs.H, Width: cs.W, Depth: cs.D, UVs: cubeUVs(cs.UV)}.UnweldedQuads()
	}
	panic("c18: unknown kind " + cs.Kind)
}

// ---- analytic description of each solid (reference side) ----

func (cs Case) scale() float64 {
	return math.Max(math.Max(cs.R, cs.H), math.Max(cs.W, cs.D))
}

// interior is a point strictly inside the solid (all solids here are convex).
func (cs Case) interior() V3 {
	if cs.Kind == "hemisphere" {
		return v3(0, cs.R/4, 0)
	}
	return v3(0, 0, 0)
}

// onSurface: distance-like residual of p from the analytic solid's boundary (0 = on it).
func (cs Case) onSurface(p V3) float64 {
	rho := math.Hypot(p.X(), p.Z())
	switch cs.Kind {
	case "uvsphere", "uvsphere-unwelded":
		return math.Abs(p.Length() - cs.R)
	case "hemisphere":
		dome := math.Abs(p.Length()-cs.R) + math.Max(0, -p.Y())
		base := math.Abs(p.Y()) + math.Max(0, rho-cs.R)
		return math.Min(dome, base)
	case "cylinder":
		side := math.Abs(rho-cs.R) + math.Max(0, math.Abs(p.Y())-cs.H/2)
		caps := math.Abs(math.Abs(p.Y())-cs.H/2) + math.Max(0, rho-cs.R)
		return math.Min(side, caps)
	case "cube-welded", "cube-quads":
		qx, qy, qz := math.Abs(p.X())-cs.W/2, math.Abs(p.Y())-cs.H/2, math.Abs(p.Z())-cs.D/2
		return math.Abs(math.Max(qx, math.Max(qy, qz)))
	}
	return math.NaN()
}

// wantVolumes lists the accepted closed-form volumes with the name of the convention.
func (cs Case) wantVolumes() (vals []float64, names []string) {
	switch cs.Kind {
	case "uvsphere", "uvsphere-unwelded":
		return []float64{sphereVolume(cs.R, cs.Rows, cs.Cols)}, []string{"bands"}
	case "hemisphere":
		u, a := hemisphereVolumes(cs.R, cs.Rows, cs.Cols)
		return []float64{a, u}, []string{"as-built", "uniform"}
	case "cylinder":
		return []float64{prismVolume(cs.R, cs.H, cs.Sides)}, []string{"prism"}
	case "cube-welded", "cube-quads":
		return []float64{cs.W * cs.H * cs.D}, []string{"box"}
	}
	return nil, nil
}

func (cs Case) analyticVolume() float64 {
	switch cs.Kind {
	case "uvsphere", "uvsphere-unwelded":
		return 4. / 3 * math.Pi * cs.R * cs.R * cs.R
	case "hemisphere":
		return 2. / 3 * math.Pi * cs.R * cs.R * cs.R
	case "cylinder":
		return math.Pi * cs.R * cs.R * cs.H
	}
	return cs.W * cs.H * cs.D
}

// normalsClaimed: the statement names sphere, box and cylinder.
func (cs Case) normalsClaimed() bool { return cs.Kind != "hemisphere" }

// ---- deterministic location labels (part of the violation class) ----

func (cs Case) vlabel(p V3) string {
	eps := 1e-7 * cs.scale()
	rho := math.Hypot(p.X(), p.Z())
	switch cs.Kind {
	case "uvsphere", "uvsphere-unwelded":
		if rho <= eps {
			return "pole"
		}
	case "hemisphere":
		if rho <= eps && p.Y() > eps {
			return "pole"
		}
		if math.Abs(p.Y()) <= eps {
			if rho <= eps {
				return "base-centre"
			}
			return "base-rim"
		}
	case "cylinder":
		if math.Abs(p.Y()-cs.H/2) <= eps {
			return "top"
		}
		if math.Abs(p.Y()+cs.H/2) <= eps {
			return "bottom"
		}
	case "cube-welded", "cube-quads":
		return "corner"
	}
	if math.Abs(p.Z()) <= eps && p.X() > 0 {
		return "seam"
	}
	return "body"
}

func (cs Case) groupLabel(ps ...V3) string {
	ls := map[string]int{}
	for _, p := range ps {
		ls[cs.vlabel(p)]++
	}
	n := len(ps)
	switch {
	case ls["pole"] > 0:
		return "pole-fan"
	case ls["base-centre"] > 0 || ls["base-rim"] == n:
		return "base-cap"
	case ls["top"] == n:
		return "top-cap"
	case ls["bottom"] == n:
		return "bottom-cap"
	case ls["corner"] == n:
		return "face"
	case ls["seam"] > 0:
		return "at-seam"
	}
	return "strip"
}

func joinLabels(m map[string]bool) string {
	var s []string
	for k := range m {
		s = append(s, k)
	}
	sort.Strings(s)
	return strings.Join(s, "+")
}

func (cs Case) paramClass() string {
	switch cs.Kind {
	case "uvsphere", "uvsphere-unwelded", "hemisphere":
		if cs.Rows == 2 {
			return "rows=2"
		}
		return "rows>=3"
	case "cylinder", "cube-welded", "cube-quads":
		uv := cs.UV
		if uv == "" {
			uv = "none"
		}
		if strings.HasPrefix(uv, "only-") || uv == "side" || uv == "caps" || uv == "top" {
			uv = "partial"
		}
		return "uv=" + uv
	}
	return cs.Kind
}

// ---- the oracle ----

type finding struct {
	clause, class, detail string
	reportedOnly          bool
}

type verdict struct {
	findings []finding
	volume   float64
	tris     int
	verts    int
	merged   int
}

func judge(cs Case, m modeling.Mesh) verdict {
	var vd verdict
	// the UV option does not enter the geometry: it is part of the class for crashes only
	pc := cs.paramClass()
	if strings.HasPrefix(pc, "uv=") {
		pc = "any-uv"
	}
	add := func(clause, where, detail string) {
		vd.findings = append(vd.findings, finding{clause: clause, class: pc + "/" + where, detail: detail})
	}
	s, err := readMesh(m)
	if err != nil {
		add(clMesh, "malformed", err.Error())
		return vd
	}
	vd.tris, vd.verts = len(s.Tri), len(s.P)
	if len(s.Tri) == 0 {
		add(clClosed, "empty", "no faces")
		return vd
	}
	for i, p := range s.P {
		if math.IsNaN(p.X()+p.Y()+p.Z()) || math.IsInf(p.X()+p.Y()+p.Z(), 0) {
			add(clMesh, "non-finite", fmt.Sprintf("vertex %d = %v", i, p))
			return vd
		}
	}
	scale := cs.scale()
	rep, classes := mergeCoincident(s.P, 1e-9*scale)
	vd.merged = classes
	posOf := make([]V3, classes)
	seen := make([]bool, classes)
	for i, r := range rep {
		if !seen[r] {
			seen[r], posOf[r] = true, s.P[i]
		}
	}

	// closed + consistently oriented
	er := pairEdges(s.Tri, rep)
	if len(er.open) > 0 || len(er.multi) > 0 {
		where := map[string]bool{}
		for _, e := range er.open {
			where[cs.groupLabel(posOf[e.a], posOf[e.b])] = true
		}
		for _, e := range er.multi {
			where[cs.groupLabel(posOf[e.a], posOf[e.b])] = true
		}
		var ex []string
		for i, e := range er.open {
			if i < 3 {
				ex = append(ex, fmt.Sprintf("open %v->%v", posOf[e.a], posOf[e.b]))
			}
		}
		for i, e := range er.multi {
			if i < 3 {
				ex = append(ex, fmt.Sprintf("used-twice %v->%v", posOf[e.a], posOf[e.b]))
			}
		}
		add(clClosed, joinLabels(where), fmt.Sprintf("%d directed edges without opposite, %d directed edges used more than once (of %d faces, %d merged vertices): %s",
			len(er.open), len(er.multi), len(s.Tri), classes, strings.Join(ex, "; ")))
	}

	// faces point outward (convex solid: every face plane has the interior point strictly behind it)
	p0 := cs.interior()
	flipped := map[string]bool{}
	nflip := 0
	first := ""
	for fi := range s.Tri {
		t := s.Tri[fi]
		if rep[t[0]] == rep[t[1]] || rep[t[1]] == rep[t[2]] || rep[t[0]] == rep[t[2]] {
			continue
		}
		n := s.faceNormal(fi)
		if !(n.Dot(s.centroid(fi).Sub(p0)) > 0) {
			nflip++
			flipped[cs.groupLabel(s.P[t[0]], s.P[t[1]], s.P[t[2]])] = true
			if first == "" {
				first = fmt.Sprintf("face %d (%v %v %v)", fi, s.P[t[0]], s.P[t[1]], s.P[t[2]])
			}
		}
	}
	if nflip > 0 {
		add(clOutward, joinLabels(flipped), fmt.Sprintf("%d of %d faces do not face away from the interior point %v; first: %s", nflip, len(s.Tri), p0, first))
	}

	// inscribed
	worst, wi := 0., -1
	for i, p := range s.P {
		if d := cs.onSurface(p); !(d <= worst) {
			worst, wi = d, i
		}
	}
	if !(worst <= 1e-9*scale) {
		add(clInscribe, cs.vlabel(s.P[wi]), fmt.Sprintf("vertex %d = %v is %.3g off the analytic surface", wi, s.P[wi], worst))
	}

	// volume
	vd.volume = s.signedVolume()
	wants, names := cs.wantVolumes()
	okVol := false
	for _, w := range wants {
		if math.Abs(vd.volume-w) <= 1e-9*math.Abs(w) {
			okVol = true
		}
	}
	if !okVol {
		cl := "volume-differs"
		if !(vd.volume > 0) {
			cl = "volume-not-positive"
		}
		add(clVolume, cl, fmt.Sprintf("signed volume %.12g, closed form %v %v (analytic %.12g)", vd.volume, wants, names, cs.analyticVolume()))
	}

	// supplied normals
	if s.N != nil {
		bad := map[string]bool{}
		nbad := 0
		first := ""
		for fi, t := range s.Tri {
			if rep[t[0]] == rep[t[1]] || rep[t[1]] == rep[t[2]] || rep[t[0]] == rep[t[2]] {
				continue
			}
			fn := s.faceNormal(fi)
			for _, vi := range t {
				if !(s.N[vi].Dot(fn) > 0) {
					nbad++
					bad[cs.groupLabel(s.P[t[0]], s.P[t[1]], s.P[t[2]])] = true
					if first == "" {
						first = fmt.Sprintf("vertex %d at %v normal %v against face normal %v", vi, s.P[vi], s.N[vi], fn)
					}
				}
			}
		}
		if nbad > 0 {
			f := finding{clause: clNormals, class: pc + "/" + joinLabels(bad), detail: fmt.Sprintf("%d corner(s) whose normal does not point to the outer side of the face; first: %s", nbad, first)}
			f.reportedOnly = !cs.normalsClaimed()
			vd.findings = append(vd.findings, f)
		}
	}
	return vd
}

// ---- enumeration ----

type scope struct {
	rowsMax, colsMax, sidesMax int
	radii, heights, dims       []float64
	ladder                     [][2]int
	ladderSides                []int
}

func scopeOf(c *core.Ctx) scope {
	if c.Thorough() {
		return scope{rowsMax: 24, colsMax: 32, sidesMax: 64,
			radii: []float64{0.5, 1, 3, 0.37, 10}, heights: []float64{0.5, 1, 3, 0.37}, dims: []float64{0.5, 1, 3, 0.37},
			ladder:      [][2]int{{2, 4}, {4, 8}, {8, 16}, {16, 32}, {32, 64}, {64, 128}, {128, 256}},
			ladderSides: []int{4, 8, 16, 32, 64, 128, 256, 512}}
	}
	return scope{rowsMax: 12, colsMax: 16, sidesMax: 24,
		radii: []float64{0.5, 1, 3}, heights: []float64{0.5, 1, 3}, dims: []float64{0.5, 1, 3},
		ladder:      [][2]int{{4, 8}, {8, 16}, {16, 32}, {32, 64}, {64, 128}},
		ladderSides: []int{8, 16, 32, 64, 128}}
}

func run(c *core.Ctx) {
	log.SetOutput(io.Discard)
	sc := scopeOf(c)
	c.Bound("rows", fmt.Sprintf("2..%d", sc.rowsMax))
	c.Bound("cols", fmt.Sprintf("3..%d", sc.colsMax))
	c.Bound("sides", fmt.Sprintf("3..%d", sc.sidesMax))
	c.Bound("radii", sc.radii)
	c.Bound("heights", sc.heights)
	c.Bound("cube_dims", sc.dims)
	c.Bound("ladder_rows_cols", sc.ladder)
	c.Bound("ladder_sides", sc.ladderSides)
	c.Bound("cylinder_uv_options", []string{"none", "all", "side", "caps", "top", "empty"})
	c.Bound("cube_uv_options", append([]string{"none", "default", "empty"}, onlyFaces()...))
	c.ReportedOnly("hemisphere.capped=false", "Capped:false asks for an open dome, outside 'solid primitives'; run and reported (the flag is ignored by the constructor on the pinned tree: the base is always generated)")
	c.ReportedOnly("hemisphere.normals", "the statement claims normals for sphere, box and cylinder only; hemisphere normals are run and reported")

	// simplest first: cubes, cylinders, spheres, hemispheres, ladders
	for _, w := range sc.dims {
		for _, h := range sc.dims {
			for _, d := range sc.dims {
				for _, kind := range []string{"cube-welded", "cube-quads"} {
					for _, uv := range append([]string{"none", "default", "empty"}, onlyFaces()...) {
						if c.Next() {
							one(c, Case{Kind: kind, W: w, H: h, D: d, UV: uv})
						}
					}
				}
			}
		}
	}
	for sides := 3; sides <= sc.sidesMax; sides++ {
		for _, r := range sc.radii {
			for _, h := range sc.heights {
				for _, uv := range []string{"none", "all", "side", "caps", "top", "empty"} {
					if c.Next() {
						one(c, Case{Kind: "cylinder", Sides: sides, R: r, H: h, UV: uv})
					}
				}
			}
		}
		if c.Expired() {
			return
		}
	}
	for rows := 2; rows <= sc.rowsMax; rows++ {
		for cols := 3; cols <= sc.colsMax; cols++ {
			for _, r := range sc.radii {
				for _, kind := range []string{"uvsphere", "uvsphere-unwelded"} {
					if c.Next() {
						one(c, Case{Kind: kind, Rows: rows, Cols: cols, R: r})
					}
				}
				for _, capped := range []bool{true, false} {
					if c.Next() {
						one(c, Case{Kind: "hemisphere", Rows: rows, Cols: cols, R: r, Capped: capped})
					}
				}
			}
		}
		if c.Expired() {
			return
		}
	}
	// count ladder: side / row / column counts around every power of two (a table filled in blocks, a
	// chunked loop, a 16-bit vertex id lie far above the exhaustive grids)
	kc, ks := 13, 11
	if c.Thorough() {
		kc, ks = 15, 12
	}
	c.Bound("count_ladder", fmt.Sprintf("cylinder sides 2^k-1, 2^k, 2^k+1 for k=5..%d (with and without UVs); UV sphere, unwelded sphere and hemisphere with 3 rows x n columns and n rows x 4 columns for n = 2^k-1, 2^k, 2^k+1, k=5..%d", kc, ks))
	for k := 5; k <= kc; k++ {
		for _, n := range []int{1<<k - 1, 1 << k, 1<<k + 1} {
			for _, uv := range []string{"none", "all"} {
				if c.Next() {
					one(c, Case{Kind: "cylinder", Sides: n, R: 1, H: 0.5, UV: uv})
				}
			}
			if k > ks {
				continue
			}
			for _, kind := range []string{"uvsphere", "uvsphere-unwelded", "hemisphere"} {
				if c.Next() {
					one(c, Case{Kind: kind, Rows: 3, Cols: n, R: 1, Capped: true})
				}
				if c.Next() {
					one(c, Case{Kind: kind, Rows: n, Cols: 4, R: 1, Capped: true})
				}
			}
		}
		if c.Expired() {
			return
		}
	}
	// magnitude: a cross-section of the grids at sizes from 2^-20 to 2^20 and 1e-6 to 1e6 (every tolerance
	// of the oracle is relative to the solid's size; an absolute epsilon, rounding or clamp inside a
	// constructor shows only here)
	sig := []float64{0x1p-20, 0x1p-10, 0x1p10, 0x1p20, 1e-6, 1e-3, 1e3, 1e6}
	c.Bound("magnitudes", sig)
	for _, sg := range sig {
		for _, b := range [][3]float64{{1, 1, 1}, {0.5, 3, 1}, {3, 0.37, 1}} {
			for _, kind := range []string{"cube-welded", "cube-quads"} {
				for _, uv := range []string{"none", "default"} {
					if c.Next() {
						one(c, Case{Kind: kind, W: b[0] * sg, H: b[1] * sg, D: b[2] * sg, UV: uv})
					}
				}
			}
			for _, sides := range []int{3, 4, 7, 16} {
				for _, uv := range []string{"none", "all"} {
					if c.Next() {
						one(c, Case{Kind: "cylinder", Sides: sides, R: b[0] * sg, H: b[1] * sg, UV: uv})
					}
				}
			}
			for _, rc := range [][2]int{{2, 3}, {3, 4}, {5, 8}, {9, 7}} {
				for _, kind := range []string{"uvsphere", "uvsphere-unwelded"} {
					if c.Next() {
						one(c, Case{Kind: kind, Rows: rc[0], Cols: rc[1], R: b[0] * sg})
					}
				}
				if c.Next() {
					one(c, Case{Kind: "hemisphere", Rows: rc[0], Cols: rc[1], R: b[0] * sg, Capped: true})
				}
			}
		}
	}
	// node-graph wrappers: the same oracle on the solid each wrapper builds, every input connected
	// and pairwise different
	c.Bound("node_wrappers", "CubeNode, CylinderNode, HemisphereNode, UvSphereNode (welded and unwelded) over a cross-section of the grids")
	for _, w := range sc.dims {
		for _, h := range sc.dims {
			for _, d := range sc.dims {
				if c.Next() {
					one(c, Case{Kind: "cube-quads", W: w, H: h, D: d, Via: "node"})
				}
			}
		}
	}
	for _, b := range [][3]float64{{0.5, 3, 1}, {3, 0.37, 1}, {1.25, 2.5, 0.75}} {
		if c.Next() {
			one(c, Case{Kind: "cube-quads", W: b[0], H: b[1], D: b[2], Via: "node"})
		}
	}
	for _, sides := range []int{3, 4, 5, 8, 17} {
		for _, r := range sc.radii {
			for _, h := range sc.heights {
				if c.Next() {
					one(c, Case{Kind: "cylinder", Sides: sides, R: r, H: h, Via: "node"})
				}
			}
		}
	}
	for _, rc := range [][2]int{{2, 3}, {3, 4}, {4, 3}, {5, 8}, {9, 7}, {12, 5}} {
		for _, r := range sc.radii {
			for _, kind := range []string{"uvsphere", "uvsphere-unwelded"} {
				if c.Next() {
					one(c, Case{Kind: kind, Rows: rc[0], Cols: rc[1], R: r, Via: "node"})
				}
			}
			if c.Next() {
				one(c, Case{Kind: "hemisphere", Rows: rc[0], Cols: rc[1], R: r, Capped: true, Via: "node"})
			}
		}
	}
	// large in both directions, on 1, 3, 4 and 5 processors (a constructor that splits its work by
	// the processor count shows only above its own size threshold and for counts the split does not divide)
	large := [][2]int{{200, 200}, {256, 300}, {257, 256}, {3, 20000}, {1025, 33}, {182, 181}}
	procs := []int{1, 3, 4, 5}
	c.Bound("large_on_limited_processors", fmt.Sprintf("rows x columns %v (spheres, hemisphere), cylinder sides 40000 and 65539, on %v processors", large, procs))
	for _, pr := range procs {
		for _, rc := range large {
			for _, kind := range []string{"uvsphere", "uvsphere-unwelded", "hemisphere"} {
				if c.Next() {
					one(c, Case{Kind: kind, Rows: rc[0], Cols: rc[1], R: 2, Capped: true, Procs: pr})
				}
			}
		}
		for _, sides := range []int{40000, 65539} {
			for _, uv := range []string{"none", "all"} {
				if c.Next() {
					one(c, Case{Kind: "cylinder", Sides: sides, R: 1, H: 0.5, UV: uv, Procs: pr})
				}
			}
		}
	}
	nearTwins(c)
	for _, kind := range []string{"ladder-uvsphere", "ladder-uvsphere-unwelded", "ladder-hemisphere", "ladder-cylinder"} {
		for _, r := range sc.radii {
			if c.Next() {
				lc := Case{Kind: kind, R: r, H: sc.heights[len(sc.heights)-1], Capped: true, Rungs: sc.ladder}
				if kind == "ladder-cylinder" {
					lc.Rungs = nil
					for _, s := range sc.ladderSides {
						lc.Rungs = append(lc.Rungs, [2]int{s, 0})
					}
				}
				ladder(c, lc)
			}
		}
	}
}

func onlyFaces() (out []string) {
	for _, f := range cubeFaces {
		out = append(out, "only-"+f)
	}
	return
}

func scopeName(cs Case) string {
	if cs.Kind == "hemisphere" && !cs.Capped {
		return "hemisphere.capped=false"
	}
	return cs.Kind
}

// one executes one constructor call and applies the oracle. Returns the measured volume.
func one(c *core.Ctx, cs Case) (vol float64, ok bool) {
	var m modeling.Mesh
	o := core.Guard(func() { m = build(cs) })
	sn := scopeName(cs)
	if cs.Via != "" {
		sn += "/via-" + cs.Via
	}
	if cs.Procs > 0 {
		sn += "/processors-limited"
	}
	if len(cs.Pre) > 0 {
		sn += "/after-another-solid"
	}
	alarmed := !(cs.Kind == "hemisphere" && !cs.Capped)
	c.Sample(sn, cs)
	if o.Panicked {
		label := "reported-failure"
		st := site(cs.Kind)
		if o.Crash() {
			label = "crash"
			if tf := core.TopFrame(o.Stack); tf != "" {
				st = tf
			}
		}
		c.Eval(sn, label)
		if alarmed {
			c.Violate(core.Violation{Site: st, Clause: clMesh, Class: cs.paramClass() + "/" + label,
				Detail: fmt.Sprintf("%+v: panic: %s", cs, o.Msg), Case: cs})
		}
		return 0, false
	}
	vd := judge(cs, m)
	out := "ok"
	hn := "ok"
	for _, f := range vd.findings {
		if f.reportedOnly {
			hn = "normal-not-outward"
			continue
		}
		if out == "ok" {
			out = shortClause(f.clause)
		}
		if alarmed {
			c.Violate(core.Violation{Site: site(cs.Kind), Clause: f.clause, Class: f.class,
				Detail: fmt.Sprintf("%+v: %s", cs, f.detail), Case: cs})
		}
	}
	c.Eval(sn, out)
	if cs.Kind == "hemisphere" {
		c.Eval("hemisphere.normals", hn)
	}
	if vd.tris > 0 {
		c.Nontrivial(cs.Kind, cs.Rows, cs.Cols, cs.Sides, cs.R, cs.H, cs.W, cs.D, cs.UV, fmt.Sprint(cs.Capped), cs.Via, cs.Procs, fmt.Sprint(cs.Pre))
	}
	return vd.volume, out == "ok"
}

func shortClause(cl string) string {
	switch cl {
	case clMesh:
		return "malformed"
	case clClosed:
		return "not-closed"
	case clOutward:
		return "inward-face"
	case clVolume:
		return "volume-mismatch"
	case clInscribe:
		return "not-inscribed"
	case clNormals:
		return "normal-not-outward"
	}
	return "fail"
}

// ladder: the fixed sequence of growing counts; every rung gets the full oracle, and the volumes
// must increase strictly towards (and stay below) the analytic volume. The rungs double the
// counts, so the vertex sets are nested and the convex inscribed polyhedra grow.
func ladder(c *core.Ctx, lc Case) {
	base := strings.TrimPrefix(lc.Kind, "ladder-")
	var vols []float64
	var rungs []Case
	for _, rc := range lc.Rungs {
		if base == "cylinder" {
			rungs = append(rungs, Case{Kind: base, Sides: rc[0], R: lc.R, H: lc.H})
		} else {
			rungs = append(rungs, Case{Kind: base, Rows: rc[0], Cols: rc[1], R: lc.R, Capped: true})
		}
	}
	if len(rungs) == 0 {
		c.HarnessError("ladder case without rungs: %+v", lc)
		return
	}
	allOK := true
	for _, r := range rungs {
		v, ok := one(c, r)
		allOK = allOK && ok
		vols = append(vols, v)
	}
	if !allOK {
		c.Eval(lc.Kind, "rung-failed")
		return
	}
	an := rungs[0].analyticVolume()
	out := "ok"
	for i := range vols {
		bad := ""
		if !(vols[i] < an) {
			bad = fmt.Sprintf("rung %d volume %.12g is not below the analytic volume %.12g", i, vols[i], an)
		} else if i > 0 && !(vols[i] > vols[i-1]) {
			bad = fmt.Sprintf("rung %d volume %.12g does not exceed rung %d volume %.12g", i, vols[i], i-1, vols[i-1])
		}
		if bad != "" {
			out = "not-monotone"
			c.Violate(core.Violation{Site: site(lc.Kind), Clause: clLadder, Class: "ladder", Detail: fmt.Sprintf("%+v: %s (volumes %v)", lc, bad, vols), Case: lc})
			break
		}
	}
	// the last rung must be close: relative defect bounded by the coarse estimate (pi/n)^2 * 4
	if out == "ok" {
		last := rungs[len(rungs)-1]
		n := float64(last.Sides)
		if base != "cylinder" {
			n = float64(last.Rows)
		}
		bound := 8 * (math.Pi / n) * (math.Pi / n)
		if rel := (an - vols[len(vols)-1]) / an; !(rel < bound) {
			out = "not-converging"
			c.Violate(core.Violation{Site: site(lc.Kind), Clause: clLadder, Class: "ladder-defect", Detail: fmt.Sprintf("%+v: relative defect %.3g at the last rung exceeds %.3g", lc, rel, bound), Case: lc})
		}
	}
	c.Eval(lc.Kind, out)
	c.Sample(lc.Kind, lc)
}

func replay(c *core.Ctx) {
	log.SetOutput(io.Discard)
	var cs Case
	if err := json.Unmarshal(c.Replay, &cs); err != nil {
		c.HarnessError("replay: %v", err)
		return
	}
	if strings.HasPrefix(cs.Kind, "ladder-") {
		ladder(c, cs)
		return
	}
	one(c, cs)
}

// nearTwins: every solid right after a solid of the same kind and counts whose sizes differ from its
// own by a relative 2^-25, 2^-40 (the same number in single precision), by a factor 2, and — for
// sizes beyond the single-precision range — by a factor 3; in both orders.  A table or memo keyed by
// rounded, truncated or partial parameters hands the second call the first call's solid; the
// oracle's tolerances (1e-9 relative) are far below 2^-25.
func nearTwins(c *core.Ctx) {
	type rel struct{ a, b float64 }
	rels := []rel{{1, 1 + 0x1p-25}, {1 + 0x1p-25, 1}, {1, 1 - 0x1p-26}, {1, 1 + 0x1p-40}, {1, 2}, {2, 1}, {1e39, 3e39}, {3e39, 1e39}, {1e-46, 3e-46}, {3e-46, 1e-46}}
	bases := []Case{
		{Kind: "cylinder", Sides: 7, R: 1, H: 2},
		{Kind: "cylinder", Sides: 12, R: 0.75, H: 0.5, UV: "all"},
		{Kind: "uvsphere", Rows: 5, Cols: 8, R: 1},
		{Kind: "uvsphere-unwelded", Rows: 4, Cols: 6, R: 2},
		{Kind: "hemisphere", Rows: 4, Cols: 7, R: 1.5, Capped: true},
		{Kind: "cube-welded", W: 1, H: 2, D: 3},
		{Kind: "cube-quads", W: 0.5, H: 1, D: 1.25},
	}
	scaled := func(b Case, f float64, which int) Case {
		// which: 0 all sizes, 1 the first size only, 2 the second size only
		if which == 0 || which == 1 {
			b.R, b.W = b.R*f, b.W*f
		}
		if which == 0 || which == 2 {
			b.H, b.D = b.H*f, b.D*f
		}
		return b
	}
	n := 0
	for _, b := range bases {
		for _, r := range rels {
			for which := 0; which < 3; which++ {
				if which == 2 && b.H == 0 {
					continue
				}
				if which != 0 && (r.a > 4 || r.a < 0.25) {
					continue // sizes beyond the single-precision range: uniformly only (the oracle's merge tolerance is relative to the solid's largest size)
				}
				if !c.Next() {
					continue
				}
				cs := scaled(b, r.b, which)
				cs.Pre = []Case{scaled(b, r.a, which)}
				one(c, cs)
				n++
			}
		}
	}
	c.Bound("near_twins", fmt.Sprintf("%d kinds x %d size relations x {all sizes, first size, second size}: the second of two consecutive calls is judged", len(bases), len(rels)))
}
