// Package c18t: concurrent twins of the solid primitives (C18): two goroutines generating solids
// with different parameters at the same time each get the solid they would get alone.
package c18t

import (
	"fmt"

	"verif/harness/core"
	"verif/harness/ctwin"
	"verif/harness/meshlib"
	"verif/harness/props/c18"
)

func init() { core.Register(core.Check{ID: "C18T", Run: run, Replay: replay}) }

func thunk(cs c18.Case) ctwin.Thunk {
	return ctwin.Thunk{Name: fmt.Sprintf("%+v", cs), Run: func() uint64 { return meshlib.QuickHash(c18.Build(cs)) }}
}

// families: per constructor, a larger solid first and smaller ones after it (a buffer grown by the
// first call is re-used by the later ones), with and without UV options.
func families() []ctwin.Family {
	mk := func(name string, cs ...c18.Case) ctwin.Family {
		f := ctwin.Family{Name: name, Site: c18.Site(cs[0].Kind)}
		for _, x := range cs {
			f.Thunks = append(f.Thunks, thunk(x))
		}
		return f
	}
	return []ctwin.Family{
		mk("uvsphere", c18.Case{Kind: "uvsphere", R: 3, Rows: 6, Cols: 7}, c18.Case{Kind: "uvsphere", R: 0.5, Rows: 4, Cols: 5}, c18.Case{Kind: "uvsphere", R: 1, Rows: 3, Cols: 3}),
		mk("uvsphere-unwelded", c18.Case{Kind: "uvsphere-unwelded", R: 3, Rows: 6, Cols: 7}, c18.Case{Kind: "uvsphere-unwelded", R: 0.5, Rows: 4, Cols: 5}, c18.Case{Kind: "uvsphere-unwelded", R: 1, Rows: 3, Cols: 3}),
		mk("hemisphere", c18.Case{Kind: "hemisphere", R: 2, Rows: 5, Cols: 6, Capped: true}, c18.Case{Kind: "hemisphere", R: 0.5, Rows: 3, Cols: 4, Capped: true}, c18.Case{Kind: "hemisphere", R: 1, Rows: 4, Cols: 3}),
		mk("cylinder", c18.Case{Kind: "cylinder", Sides: 9, H: 2, R: 1.5}, c18.Case{Kind: "cylinder", Sides: 4, H: 0.5, R: 0.25, UV: "all"}, c18.Case{Kind: "cylinder", Sides: 3, H: 1, R: 1, UV: "caps"}),
		mk("cube-welded", c18.Case{Kind: "cube-welded", H: 2, W: 3, D: 4}, c18.Case{Kind: "cube-welded", H: 0.5, W: 1, D: 0.25, UV: "all"}, c18.Case{Kind: "cube-welded", H: 1, W: 1, D: 1}),
		mk("cube-quads", c18.Case{Kind: "cube-quads", H: 2, W: 3, D: 4}, c18.Case{Kind: "cube-quads", H: 0.5, W: 1, D: 0.25, UV: "all"}, c18.Case{Kind: "cube-quads", H: 1, W: 1, D: 1}),
		mk("across-constructors", c18.Case{Kind: "uvsphere", R: 1, Rows: 4, Cols: 4}, c18.Case{Kind: "uvsphere-unwelded", R: 2, Rows: 4, Cols: 4}, c18.Case{Kind: "hemisphere", R: 1, Rows: 4, Cols: 4, Capped: true},
			c18.Case{Kind: "cylinder", Sides: 4, H: 1, R: 1}, c18.Case{Kind: "cube-welded", H: 1, W: 2, D: 3}),
	}
}

func run(c *core.Ctx)    { ctwin.Run(c, families()) }
func replay(c *core.Ctx) { ctwin.Replay(c, families()) }
