// Package c14: truncated model files are rejected; no hang, no fabricated geometry
// (DESIGN §4 C14, engine `cut`).
//
// Every strict prefix (every length for headers and binary data, every token boundary for text
// bodies) of every file of a small family of valid PLY / STL / SPZ / PTS / .splat files is decoded
// by the real readers, fed through three io.Reader behaviours. The oracle accepts an error, or a
// result bit-identical to the decode of the complete file (only trailing framing was lost), or —
// .splat only — exactly the records wholly contained in the prefix. A runtime panic is a crash;
// exceeding the loop-iteration budget 64·(len(file)+64) (vbudget ticks injected into every loop of
// the reader packages by tools/looptick through a build overlay) is non-termination. No wall-clock
// enters a verdict: the watchdog below only turns a hang outside the instrumented loops into a
// harness error.
package c14

import (
	"bufio"
	"bytes"
	"encoding/base64"
	"encoding/json"
	"fmt"
	"io"
	"math"
	"os"
	"runtime/debug"
	"strings"
	"sync/atomic"
	"testing/iotest"
	"time"

	"github.com/EliCDavis/polyform/formats/ply"
	"github.com/EliCDavis/polyform/formats/pts"
	"github.com/EliCDavis/polyform/formats/splat"
	"github.com/EliCDavis/polyform/formats/spz"
	"github.com/EliCDavis/polyform/formats/stl"
	"github.com/EliCDavis/polyform/modeling"
	"github.com/EliCDavis/polyform/verifrt/vbudget"
	"github.com/EliCDavis/vector/vector3"
	"github.com/EliCDavis/vector/vector4"

	"verif/harness/core"
	"verif/harness/meshlib"
)

func init() { core.Register(core.Check{ID: "C14", Run: run, Replay: replay}) }

const (
	clauseCrash = "never crashes on a strict prefix of a valid file (runtime panic)"
	clauseHang  = "terminates in time proportional to the input (loop-iteration budget 64·(len+64) exceeded)"
	clauseData  = "reports an error or returns only data wholly present in the prefix (complete mesh / complete .splat records); no placeholder or missing elements"
)

// Reader behaviours the truncated stream is delivered with. All are legal io.Readers.
// "bufio": a *bufio.Reader (what ply.Load / stl.Load hand to the decoders; concrete-type fast paths
// such as Peek/ReadString are only reachable this way); "bufio16": the same with a 16-byte buffer.
var modes = []string{"bytes", "onebyte", "dataerr", "bufio", "bufio16", "behind7"}

func reader(mode string, data []byte) io.Reader {
	switch mode {
	case "bufio":
		return bufio.NewReader(bytes.NewReader(data))
	case "bufio16":
		return bufio.NewReaderSize(bytes.NewReader(data), 16)
	case "onebyte": // every Read returns at most one byte
		return iotest.OneByteReader(bytes.NewReader(data))
	case "behind7": // a seekable reader already read up to where the file starts
		return core.Positioned(data, 7)
	case "dataerr": // the last bytes arrive together with io.EOF
		return iotest.DataErrReader(bytes.NewReader(data))
	}
	return bytes.NewReader(data)
}

// decode calls the library entry point of the format.
func decode(dec string, r io.Reader) (*modeling.Mesh, error) {
	switch dec {
	case "ply":
		return ply.ReadMesh(r)
	case "stl":
		return stl.ReadMesh(r)
	case "spz":
		c, err := spz.Read(r)
		if err != nil {
			return nil, err
		}
		if c == nil {
			return nil, nil
		}
		return &c.Mesh, nil
	case "pts":
		return pts.ReadPointCloud(r)
	case "splat":
		m, err := splat.Read(r)
		return &m, err
	}
	panic("unknown decoder " + dec)
}

var entry = map[string]string{"ply": "formats/ply.ReadMesh", "stl": "formats/stl.ReadMesh", "spz": "formats/spz.Read",
	"pts": "formats/pts.ReadPointCloud", "splat": "formats/splat.Read"}

type result struct {
	kind  string // error, value, crash, budget, reported-panic, nil-result
	snap  meshlib.Snap
	msg   string
	stack string
	ticks int64
}

// polyformFrames keeps the polyform frames of a stack, innermost first, without the tick package.
func polyformFrames(stack string) string {
	var keep []string
	for _, fr := range strings.Split(core.TrimStack(stack), " <- ") {
		if fr != "" && !strings.Contains(fr, "verifrt/") {
			keep = append(keep, fr)
		}
	}
	return strings.Join(keep, " <- ")
}

// execute runs one decode in the calling goroutine under the tick budget.
func execute(dec, mode string, data []byte, budget int64) (res result) {
	var m *modeling.Mesh
	var err error
	func() {
		defer func() {
			if r := recover(); r != nil {
				res.ticks = vbudget.Stop()
				res.msg = fmt.Sprint(r)
				switch v := r.(type) {
				case vbudget.Exceeded:
					res.kind = "budget"
					res.stack = polyformFrames(string(debug.Stack()))
				case interface{ RuntimeError() }:
					_ = v
					res.kind = "crash"
					res.stack = polyformFrames(string(debug.Stack()))
				default:
					res.kind = "reported-panic"
				}
			}
		}()
		vbudget.Start(budget)
		m, err = decode(dec, reader(mode, data))
		res.ticks = vbudget.Stop()
	}()
	if res.kind != "" {
		return
	}
	if err != nil {
		res.kind, res.msg = "error", err.Error()
		return
	}
	if m == nil {
		res.kind = "nil-result"
		return
	}
	o := core.Guard(func() { res.snap = meshlib.Snapshot(*m) })
	if o.Panicked {
		res.kind, res.msg = "nil-result", "returned mesh cannot be read: "+o.Msg
		return
	}
	res.kind = "value"
	return
}

// prefixSnap is the first k points of a point-cloud snapshot (the .splat "records fully contained").
func prefixSnap(s meshlib.Snap, k int) meshlib.Snap {
	out := s
	out.Idx = append([]int{}, s.Idx[:k]...)
	out.F1 = map[string][]float64{}
	for a, d := range s.F1 {
		out.F1[a] = d[:k]
	}
	out.F2 = nil
	out.F3 = map[string][]vector3.Float64{}
	for a, d := range s.F3 {
		out.F3[a] = d[:k]
	}
	out.F4 = map[string][]vector4.Float64{}
	for a, d := range s.F4 {
		out.F4[a] = d[:k]
	}
	out.Prims, out.ALen = k, k
	return out
}

// checkTruth establishes the precondition "valid file": the complete file decodes, without error,
// to the element counts and positions that were put into it.
func checkTruth(f *File, r result) string {
	if r.kind != "value" {
		return fmt.Sprintf("complete file does not decode: %s %s", r.kind, r.msg)
	}
	s := r.snap
	if f.AltNVerts > 0 && s.ALen == f.AltNVerts && s.Prims == f.AltNVerts {
		// a file of several blocks read as all of its blocks
	} else if s.ALen != f.NVerts || s.Prims != f.NPrims {
		return fmt.Sprintf("complete file decodes to %d vertices / %d primitives, %d / %d were written", s.ALen, s.Prims, f.NVerts, f.NPrims)
	}
	if f.NVerts == 0 {
		return ""
	}
	pos, ok := s.F3[modeling.PositionAttribute]
	if !ok || len(pos) != s.ALen {
		return "complete file decodes without positions"
	}
	for i, p := range pos {
		w := f.Pos[i]
		if !(math.Abs(p.X()-w[0]) <= f.PosTol && math.Abs(p.Y()-w[1]) <= f.PosTol && math.Abs(p.Z()-w[2]) <= f.PosTol) {
			return fmt.Sprintf("complete file decodes position %d as %v, %v was written", i, p, w)
		}
	}
	return ""
}

type Case struct {
	File  string `json:"file"`
	Cut   int    `json:"cut"`
	Len   int    `json:"len"`
	Mode  string `json:"reader"`
	Class string `json:"class"`
	// for the reader of the replay file; the replayer regenerates the file from its id
	PrefixB64 string `json:"prefix_base64,omitempty"`
	Tail      string `json:"prefix_tail,omitempty"`
}

func printable(b []byte) string {
	if len(b) > 48 {
		b = b[len(b)-48:]
	}
	return fmt.Sprintf("%q", b)
}

// ---------------------------------------------------------------------------------------------
// watchdog: harness self-protection only (a hang outside the instrumented loops)
// ---------------------------------------------------------------------------------------------

var (
	progress atomic.Int64
	current  atomic.Value
)

func watchdog() {
	go func() {
		last, idle := int64(-1), 0
		for {
			time.Sleep(time.Second)
			p := progress.Load()
			if p != last {
				last, idle = p, 0
				continue
			}
			idle++
			if idle >= 20 {
				fmt.Fprintf(os.Stderr, "HARNESS-TIMEOUT: no decode finished for 20s (stuck outside the instrumented loops) at %v\n", current.Load())
				os.Exit(3)
			}
		}
	}()
}

// ---------------------------------------------------------------------------------------------

type fileCtx struct {
	f     *File
	full  meshlib.Snap
	modes []string // reader behaviours under which the complete file decodes to the same value
}

// ticks the complete decode of each file needs vs. the budget its prefixes get (reported as a bound)
var fullTicks = map[string]string{}

func budgetOf(f *File) int64 { return 64 * (int64(len(f.Data)) + 64) }

// prepare decodes the complete file under every reader behaviour.
func prepare(c *core.Ctx, f *File) (fc fileCtx, ok bool) {
	fc.f = f
	base := execute(f.Decoder, "bytes", f.Data, 0)
	if why := checkTruth(f, base); why != "" {
		c.HarnessError("%s: valid-file precondition not established (%s); its cuts were not explored", f.ID, why)
		return fc, false
	}
	fc.full = base.snap
	fullTicks[f.ID] = fmt.Sprintf("%d of %d", base.ticks, budgetOf(f))
	for _, m := range modes {
		r := execute(f.Decoder, m, f.Data, 0)
		// every legal stream behaviour is used for the prefixes, whatever the complete file did under
		// it: a proper prefix that yields a value without an error has to be the complete data (taken
		// from the plain in-memory decode) under any of them
		fc.modes = append(fc.modes, m)
		if !(r.kind == "value" && fc.full.Diff(r.snap) == "") {
			// the complete file itself is outside C14's quantifier: reported, not alarmed
			c.ReportedOnly("complete-file/"+m, "complete file decoded through a reader behaviour; a failure here is not a truncation")
			c.Eval("complete-file/"+m, f.ID+": "+r.kind)
		}
	}
	return fc, true
}

// judge applies the oracle to one (file, cut, reader behaviour).
func judge(c *core.Ctx, fc *fileCtx, cut int, mode string, alarmed bool, scope string) {
	f := fc.f
	current.Store(fmt.Sprintf("%s cut=%d reader=%s", f.ID, cut, mode))
	r := execute(f.Decoder, mode, f.Data[:cut], budgetOf(f))
	progress.Add(1)
	cs := Case{File: f.ID, Cut: cut, Len: len(f.Data), Mode: mode, Class: f.class(cut)}
	label := ""
	var v *core.Violation
	switch r.kind {
	case "error", "reported-panic":
		label = r.kind
	case "crash":
		label = "crash"
		v = &core.Violation{Site: core.TopFrame(r.stack), Clause: clauseCrash, Detail: r.msg + " @ " + r.stack}
	case "budget":
		label = "budget-exceeded"
		v = &core.Violation{Site: core.TopFrame(r.stack), Clause: clauseHang,
			Detail: fmt.Sprintf("more than %d loop iterations for a %d-byte prefix of a %d-byte file @ %s", budgetOf(f), cut, len(f.Data), r.stack)}
	case "nil-result":
		label = "nil-result"
		v = &core.Violation{Site: entry[f.Decoder], Clause: clauseData, Detail: "neither an error nor a readable mesh: " + r.msg}
	case "value":
		d := diff(fc.full, r.snap)
		switch {
		case d == "":
			label = "complete"
		case f.Decoder == "splat" && cut/32 == 0 && r.snap.ALen == 0 && len(r.snap.Idx) == 0:
			label = "complete-records" // no record is complete: an empty cloud, whatever attribute names it lists
		case f.Decoder == "splat" && cut/32 > 0 && prefixSnap(fc.full, cut/32).Diff(r.snap) == "":
			label = "complete-records"
		default:
			label = "wrong-data"
			want := "the complete decode"
			if f.Decoder == "splat" {
				want = fmt.Sprintf("the %d complete records", cut/32)
				d = diff(prefixSnap(fc.full, cut/32), r.snap)
			}
			v = &core.Violation{Site: entry[f.Decoder], Clause: clauseData,
				Detail: fmt.Sprintf("no error, %d vertices / %d primitives returned; differs from %s: %s", r.snap.ALen, r.snap.Prims, want, d)}
		}
	}
	c.Eval(scope, label)
	if cut > 0 {
		c.Nontrivial(f.ID, cut, mode)
	}
	c.Sample(scope, map[string]any{"file": f.ID, "len": len(f.Data), "cut": cut, "reader": mode, "class": cs.Class,
		"prefix_tail": printable(f.Data[:cut]), "outcome": label, "ticks": r.ticks})
	if v != nil && alarmed {
		if v.Site == "" {
			v.Site = entry[f.Decoder]
		}
		v.Class = cs.Class
		if !f.Medium { // medium files replay from the compact case (file id + cut + reader behaviour)
			cs.PrefixB64 = base64.StdEncoding.EncodeToString(f.Data[:cut])
		}
		cs.Tail = printable(f.Data[:cut])
		v.Case = cs
		c.Violate(*v)
	}
}

func run(c *core.Ctx) {
	watchdog()
	files, errs := family(c.Thorough())
	for _, e := range errs {
		c.HarnessError("file family: %s", e)
	}
	idx := 0
	totalCuts, totalBytes, mediumCuts := 0, 0, 0
	var names []string
files:
	for i := range files {
		f := &files[i]
		names = append(names, fmt.Sprintf("%s(%dB)", f.ID, len(f.Data)))
		cuts, mid := f.cuts()
		totalCuts += len(cuts)
		totalBytes += len(f.Data)
		if f.Medium {
			mediumCuts += len(cuts)
		}
		var fc fileCtx
		prepared, ok := false, false
		get := func() bool {
			if !prepared {
				fc, ok = prepare(c, f)
				prepared = true
			}
			return ok
		}
		for _, cut := range cuts {
			for _, m := range modes {
				idx++
				if !c.Mine(idx) {
					continue
				}
				if c.Expired() {
					break files
				}
				if !get() {
					continue
				}
				if !has(fc.modes, m) || !f.useMode(cut, m) {
					continue
				}
				judge(c, &fc, cut, m, true, f.Family)
			}
		}
		if c.Thorough() || f.Medium {
			// inside a number: the prefix is itself a well-formed shorter token, outside the quantifier
			sc := "ascii-mid-token"
			c.ReportedOnly(sc, "cuts inside a token of a text body: indistinguishable from a shorter number, outside the property's quantifier; run and counted, never alarmed")
			for _, cut := range mid {
				idx++
				if !c.Mine(idx) || !get() {
					continue
				}
				judge(c, &fc, cut, "bytes", false, sc)
			}
		}
	}
	c.Bound("files", names)
	c.Bound("file_count", len(files))
	c.Bound("cut_positions", totalCuts)
	c.Bound("total_file_bytes", totalBytes)
	c.Bound("medium_file_cut_positions", mediumCuts)
	c.Bound("medium_file_cut_rule", "within 3 bytes of every multiple of 4096 (incl. 65536) | every element/record/line/section boundary +-1 | last 64 bytes | stride 97")
	c.Bound("reader_behaviours", modes)
	c.Bound("complete_decode_ticks_of_budget", fullTicks)
	c.Bound("tick_budget", "64*(len(file)+64) loop iterations per decode")
}

func has(s []string, x string) bool {
	for _, y := range s {
		if x == y {
			return true
		}
	}
	return false
}

func replay(c *core.Ctx) {
	watchdog()
	var cs Case
	if err := json.Unmarshal(c.Replay, &cs); err != nil {
		c.HarnessError("replay: %v", err)
		return
	}
	for _, th := range []bool{false, true} {
		files, _ := family(th)
		for i := range files {
			f := &files[i]
			if f.ID != cs.File {
				continue
			}
			if cs.Cut < 0 || cs.Cut >= len(f.Data) {
				c.HarnessError("replay: cut %d outside the regenerated file (%d bytes)", cs.Cut, len(f.Data))
				return
			}
			fc, ok := prepare(c, f)
			if !ok {
				return
			}
			judge(c, &fc, cs.Cut, cs.Mode, true, f.Family)
			return
		}
	}
	c.HarnessError("replay: unknown file %q", cs.File)
}
