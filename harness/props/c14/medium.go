package c14

// Medium-file sub-scope: files of 10 KB … 800 KB, so that cuts land next to the internal buffer
// boundaries the small family can never reach (bufio's 4096-byte reader buffer, the growth steps
// of bufio.Scanner, deflate windows, record-chunk sizes of block-wise decoders). Content is
// non-periodic (a splitmix hash of the element index), non-zero and float32-exact, so a stale,
// shifted or zeroed element can never equal the real one.
//
// The cut positions of a medium file are not "every length" but the union of
//   (a) every position within ±3 bytes of every multiple of 4096 (65536 is one of them),
//   (b) every element / record / line boundary ±1 byte (and every section start ±1),
//   (c) every position of the last 64 bytes,
//   (d) a stride-97 sweep over the whole file.
// Text bodies: a position strictly inside a token is alarmed like any other as long as further
// lines are missing behind it (the declared elements cannot all be there); inside the LAST line
// a shortened last number makes a different valid file, so those positions are reported only.

import (
	"bytes"
	"compress/gzip"
	"encoding/binary"
	"fmt"
	"math"
	"sort"
	"strings"

	"github.com/EliCDavis/polyform/formats/ply"
	"github.com/EliCDavis/polyform/modeling"
	"github.com/EliCDavis/vector/vector3"
)

func mix(x uint64) uint64 { // splitmix64 finaliser
	x += 0x9e3779b97f4a7c15
	x = (x ^ (x >> 30)) * 0xbf58476d1ce4e5b9
	x = (x ^ (x >> 27)) * 0x94d049bb133111eb
	return x ^ (x >> 31)
}

// mval: odd multiple of 1/32 with |v| < 512 — never zero, exact in float32 and in 24-bit fixed
// point with 12 fractional bits.
func mval(i, k int) float64 {
	n := int(mix(uint64(i)*16+uint64(k))%32768) - 16384
	return float64(2*n+1) / 32
}

// hval: odd multiple of 1/16 with |v| < 64 — exact as an IEEE half (11 significant bits).
func hval(i, k int) float64 {
	n := int(mix(uint64(i)*16+uint64(k))%1024) - 512
	return float64(2*n+1) / 16
}

func mbyte(i, k int) byte { return byte(1 + mix(uint64(i)*16+uint64(k)+7)%254) } // 1..254

func mpos(i int) [3]float64 { return [3]float64{mval(i, 0), mval(i, 1), mval(i, 2)} }
func mnrm(i int) [3]float64 { return [3]float64{mval(i, 3), mval(i, 4), mval(i, 5)} }
func mcol(i int) [3]float64 {
	return [3]float64{float64(mbyte(i, 0)) / 255, float64(mbyte(i, 1)) / 255, float64(mbyte(i, 2)) / 255}
}

func mtruth(n int, f func(int) [3]float64) [][3]float64 {
	out := make([][3]float64, n)
	for i := range out {
		out[i] = f(i)
	}
	return out
}

func sizeName(family string, n int) string {
	if n > 100_000 {
		return "large/" + family
	}
	return "medium/" + family
}

// plyMedium: written by the library's own writer (kind "mesh": positions + normals + nf random
// triangles; kind "cloud": positions + normals + colours).
func plyMedium(kind string, fi, nv, nf int) (f File, err error) {
	defer func() {
		if r := recover(); r != nil {
			err = fmt.Errorf("the PLY writer panicked: %v", r)
		}
	}()
	f.ID = fmt.Sprintf("ply-%s/%s-%dv-%df", plyFormats[fi].name, kind, nv, nf)
	var m modeling.Mesh
	np := nf
	switch kind {
	case "mesh":
		idx := make([]int, 3*nf)
		for j := range idx {
			idx[j] = int(mix(uint64(j)+1_000_003) % uint64(nv))
		}
		m = modeling.NewTriangleMesh(idx).
			SetFloat3Attribute(modeling.PositionAttribute, v3s(nv, mpos)).
			SetFloat3Attribute(modeling.NormalAttribute, v3s(nv, mnrm))
	case "cloud":
		m = modeling.NewPointCloud(nil, map[string][]vector3.Float64{
			modeling.PositionAttribute: v3s(nv, mpos),
			modeling.NormalAttribute:   v3s(nv, mnrm),
			modeling.ColorAttribute:    v3s(nv, mcol),
		}, nil, nil, nil)
		np = nv
	default:
		return f, fmt.Errorf("kind %s", kind)
	}
	buf := &bytes.Buffer{}
	if err := ply.Write(buf, m, plyFormats[fi].f); err != nil {
		return f, err
	}
	f.Decoder, f.Data, f.Medium = "ply", buf.Bytes(), true
	f.NVerts, f.NPrims, f.Pos, f.PosTol = nv, np, mtruth(nv, mpos), 1e-4
	fam := "ply-binary"
	if fi == 0 {
		fam = "ply-ascii"
	}
	f.Family = sizeName(fam, len(f.Data))
	return f, layoutPLY(&f)
}

func stlMedium(tris int) File {
	var b bytes.Buffer
	b.Grow(84 + 50*tris)
	hdr := make([]byte, 80)
	copy(hdr, "verif c14 hand encoded binary stl, medium family")
	b.Write(hdr)
	le := binary.LittleEndian
	var w [4]byte
	put := func(x float64) {
		le.PutUint32(w[:], math.Float32bits(float32(x)))
		b.Write(w[:])
	}
	le.PutUint32(w[:], uint32(tris))
	b.Write(w[:])
	f := File{ID: fmt.Sprintf("stl/%d-triangles", tris), Decoder: "stl", Medium: true,
		NVerts: 3 * tris, NPrims: tris, PosTol: 1e-12}
	f.Sections = []Section{{"header", 0}, {"triangle-count", 80}, {"triangles", 84}}
	f.Pos = make([][3]float64, 0, 3*tris)
	for t := 0; t < tris; t++ {
		f.Marks = append(f.Marks, b.Len())
		for _, x := range mnrm(t) {
			put(x)
		}
		for k := 0; k < 3; k++ {
			p := mpos(3*t + k)
			f.Pos = append(f.Pos, p)
			for _, x := range p {
				put(x)
			}
		}
		b.Write([]byte{mbyte(t, 3), mbyte(t, 4)})
	}
	f.Data = b.Bytes()
	f.BodyStart = len(f.Data)
	f.Family = sizeName("stl", len(f.Data))
	return f
}

func spzMedium(version, shDegree, n int) (File, error) {
	const fracBits = 12
	raw := &bytes.Buffer{}
	le := binary.LittleEndian
	binary.Write(raw, le, uint32(0x5053474e))
	binary.Write(raw, le, uint32(version))
	binary.Write(raw, le, uint32(n))
	raw.Write([]byte{byte(shDegree), fracBits, 0, 0})
	val := mval
	if version == 1 {
		val = hval
	}
	f := File{ID: fmt.Sprintf("spz/v%d-sh%d-%dpts", version, shDegree, n), Decoder: "spz", Medium: true,
		NVerts: n, NPrims: n, PosTol: 1e-12}
	for i := 0; i < n; i++ {
		p := [3]float64{val(i, 0), val(i, 1), val(i, 2)}
		f.Pos = append(f.Pos, p)
		for _, x := range p {
			if version == 1 {
				binary.Write(raw, le, halfBits(x))
			} else {
				v := int32(math.Round(x * (1 << fracBits)))
				raw.Write([]byte{byte(v), byte(v >> 8), byte(v >> 16)})
			}
		}
	}
	for i := 0; i < n*(1+3+3+3+3*shDims[shDegree]); i++ { // alphas, colours, scales, rotations, SH
		raw.WriteByte(mbyte(i, 9))
	}
	gz := &bytes.Buffer{}
	w, err := gzip.NewWriterLevel(gz, gzip.DefaultCompression)
	if err != nil {
		return f, err
	}
	if _, err := w.Write(raw.Bytes()); err != nil {
		return f, err
	}
	if err := w.Close(); err != nil {
		return f, err
	}
	f.Data = gz.Bytes()
	f.BodyStart = len(f.Data)
	f.Sections = []Section{{"gzip-header", 0}, {"deflate-stream", 10}, {"gzip-trailer", len(f.Data) - 8}}
	f.Family = sizeName("spz", len(f.Data))
	return f, nil
}

func ptsMedium(cols, n int) File {
	var b strings.Builder
	fmt.Fprintf(&b, "%d\n", n)
	f := File{ID: fmt.Sprintf("pts/%d-columns-%d-points", cols, n), Decoder: "pts", Ascii: true, Medium: true,
		NVerts: n, NPrims: n, Pos: mtruth(n, mpos), PosTol: 1e-12}
	f.BodyStart = b.Len()
	f.Sections = []Section{{"count-line", 0}, {"points", b.Len()}}
	for i := 0; i < n; i++ {
		f.Marks = append(f.Marks, b.Len())
		p := mpos(i)
		fmt.Fprintf(&b, "%g %g %g", p[0], p[1], p[2])
		if cols >= 4 {
			fmt.Fprintf(&b, " %d", mbyte(i, 3))
		}
		if cols >= 7 {
			fmt.Fprintf(&b, " %d %d %d", mbyte(i, 0), mbyte(i, 1), mbyte(i, 2))
		}
		b.WriteString("\n")
	}
	f.Data = []byte(b.String())
	f.Family = sizeName("pts", len(f.Data))
	return f
}

func splatMedium(n int) File {
	b := make([]byte, 0, 32*n)
	le := binary.LittleEndian
	var w [4]byte
	put := func(x float64) {
		le.PutUint32(w[:], math.Float32bits(float32(x)))
		b = append(b, w[:]...)
	}
	f := File{ID: fmt.Sprintf("splat/%d-records", n), Decoder: "splat", Medium: true,
		NVerts: n, NPrims: n, Pos: mtruth(n, mpos), PosTol: 1e-12}
	f.Sections = []Section{{"records", 0}}
	for i := 0; i < n; i++ {
		f.Marks = append(f.Marks, len(b))
		for _, x := range mpos(i) {
			put(x)
		}
		for k := 0; k < 3; k++ {
			put(0.25 + float64(mbyte(i, 3+k))/64) // scales > 0
		}
		b = append(b, mbyte(i, 0), mbyte(i, 1), mbyte(i, 2), mbyte(i, 6))
		b = append(b, mbyte(i, 7), mbyte(i, 8), mbyte(i, 9), mbyte(i, 10))
	}
	f.Data = b
	f.BodyStart = len(b)
	f.Family = sizeName("splat", len(b))
	return f
}

// mediumFamily: the files of the sub-scope, fixed order. The two > 500 KB files (one more record
// than a 1<<14 chunk, plus 3) and the > 64 KB text files are thorough only.
func mediumFamily(thorough bool, add func(File, error)) {
	for fi := range plyFormats {
		add(plyMedium("mesh", fi, 300, 500))
	}
	add(stlMedium(400), nil)
	add(spzMedium(2, 1, 2000))
	add(ptsMedium(7, 600), nil)
	add(splatMedium(600), nil)
	// binary point clouds of 2.7 MB: cuts around every power-of-two offset up to 2 MiB
	for _, fi := range []int{1, 2} {
		lf, lerr := plyMedium("cloud", fi, 100003, 0)
		lf.Large = true
		lf.ID += "/large"
		add(lf, lerr)
	}
	// one record more than 2^12 (plus 3): batch / chunk sizes are powers of two
	add(stlMedium(4096+3), nil)
	add(splatMedium(4096+3), nil)
	if thorough {
		add(plyMedium("cloud", 0, 2500, 0)) // ascii body beyond 64 KB
		add(plyMedium("cloud", 1, 2500, 0))
		add(spzMedium(1, 0, 2000))
		add(ptsMedium(3, 2500), nil) // beyond 64 KB
		add(stlMedium(16385+3), nil)
		add(splatMedium(16385+3), nil)
	}
}

// mediumCuts: (a) ∪ (b) ∪ (c) ∪ (d), ascending. reported = positions strictly inside a token of the
// last line of a text body.
// largeCuts: for files of megabytes — the record boundaries next to every offset that is a multiple of
// 2^k bytes (k = 12..21; the first three multiples and the last one) counted from the start of the
// file and from the start of the body, each with its neighbouring bytes; the last 32 bytes; 64
// positions spread over the file.  A reader that takes the body in blocks has its block boundaries
// at such offsets rounded to whole records.
func (f *File) largeCuts() (cuts, reported []int) {
	n := len(f.Data)
	set := map[int]struct{}{}
	put := func(i int) {
		if i >= 0 && i < n {
			set[i] = struct{}{}
		}
	}
	near := func(pos int) {
		j := sort.SearchInts(f.Marks, pos)
		for d := -2; d <= 1; d++ {
			if j+d >= 0 && j+d < len(f.Marks) {
				m := f.Marks[j+d]
				put(m - 1)
				put(m)
				put(m + 1)
			}
		}
		put(pos - 1)
		put(pos)
		put(pos + 1)
	}
	for k := 12; k <= 21; k++ {
		step := 1 << k
		for _, origin := range []int{0, f.BodyStartOfRecords()} {
			for mult := 1; mult <= 3; mult++ {
				near(origin + mult*step)
			}
			near(origin + (n-origin)/step*step)
		}
	}
	for i := n - 32; i < n; i++ {
		put(i)
	}
	for i := 0; i < 64; i++ {
		put(i * (n / 64))
	}
	for i := range set {
		cuts = append(cuts, i)
	}
	sort.Ints(cuts)
	return cuts, nil
}

// BodyStartOfRecords: the offset of the first record (first mark), or the length when there is none.
func (f *File) BodyStartOfRecords() int {
	if len(f.Marks) > 0 {
		return f.Marks[0]
	}
	return len(f.Data)
}

func (f *File) mediumCuts() (cuts, reported []int) {
	if f.Large {
		return f.largeCuts()
	}
	n := len(f.Data)
	set := map[int]struct{}{}
	put := func(i int) {
		if i >= 0 && i < n {
			set[i] = struct{}{}
		}
	}
	for m := 4096; m <= n+3; m += 4096 { // (a)
		for d := -3; d <= 3; d++ {
			put(m + d)
		}
	}
	for _, m := range f.Marks { // (b)
		put(m - 1)
		put(m)
		put(m + 1)
	}
	for _, s := range f.Sections {
		put(s.Start - 1)
		put(s.Start)
		put(s.Start + 1)
	}
	for i := n - 64; i < n; i++ { // (c)
		put(i)
	}
	for i := 0; i < n; i += 97 { // (d)
		put(i)
	}
	lastLine := n
	if f.Ascii {
		lastLine = bytes.LastIndexByte(f.Data[:n-1], '\n') + 1
	}
	for i := range set {
		if f.Ascii && i > lastLine && !isWS(f.Data[i]) && !isWS(f.Data[i-1]) {
			reported = append(reported, i)
		} else {
			cuts = append(cuts, i)
		}
	}
	sort.Ints(cuts)
	sort.Ints(reported)
	return
}

// nearBufferBoundary names the buffer-size multiple a cut lies within ±3 bytes of ("" if none).
func nearBufferBoundary(cut int) string {
	for _, m := range []int{65536, 4096} {
		if cut+3 >= m {
			if r := (cut + 3) % m; r <= 6 {
				return fmt.Sprintf("/within-3-of-a-multiple-of-%d", m)
			}
		}
	}
	return ""
}

// useMode: the files above 100 KB are delivered one byte per Read (≈ 1 M Read calls per decode)
// only at the cuts of sets (a), (c), (d); their 16 388 × 3 record-boundary cuts (b) run under the
// other two reader behaviours. Every other file runs every cut under all three.
func (f *File) useMode(cut int, mode string) bool {
	if mode != "onebyte" || len(f.Data) <= 100_000 {
		return true
	}
	return nearBufferBoundary(cut) != "" || cut >= len(f.Data)-64 || cut%97 == 0
}
