package c14

// The family of small valid files whose every prefix is decoded (DESIGN §4 C14), with, for each
// file, what the harness itself knows about it: where its sections and elements start (computed
// by an independent little parser / by the reference encoders, used to choose the cut positions
// and to classify violations) and the ground truth of its content (used to establish that the
// complete file really decodes to the data that was put in — the "valid file" precondition).

import (
	"bytes"
	"compress/gzip"
	"encoding/binary"
	"fmt"
	"math"
	"sort"
	"strconv"
	"strings"

	"github.com/EliCDavis/polyform/formats/ply"
	"github.com/EliCDavis/polyform/modeling"
	"github.com/EliCDavis/vector/vector2"
	"github.com/EliCDavis/vector/vector3"
)

type Section struct {
	Name  string
	Start int
}

type File struct {
	ID      string // e.g. "ply-ascii/mesh-uv"
	Family  string // evidence scope: ply-ascii, ply-binary, ply-foreign, stl, spz, pts, splat
	Decoder string // ply, stl, spz, pts, splat
	Data    []byte

	Large     bool // a medium file of megabytes: cuts only around power-of-two offsets (largeCuts)
	Medium    bool // member of the medium-file sub-scope (medium.go): selected cut positions, compact replay case
	Ascii     bool // the body (from BodyStart) is text: cuts there are token boundaries
	BodyStart int  // every length below BodyStart is a cut (headers and binary files: BodyStart = len)

	Sections []Section // ascending starts, first at 0
	Marks    []int     // offsets at which an element (vertex/face record or line, point, splat) starts

	// ground truth put into the file
	NVerts, NPrims int
	AltNVerts      int // > 0: the complete file may also decode to this many vertices (= primitives): a file of several blocks
	Pos            [][3]float64
	PosTol         float64
}

func (f *File) section(off int) string {
	name := f.Sections[0].Name
	for _, s := range f.Sections {
		if s.Start <= off {
			name = s.Name
		}
	}
	return name
}

func (f *File) isMark(off int) bool {
	i := sort.SearchInts(f.Marks, off)
	return i < len(f.Marks) && f.Marks[i] == off
}

// class is the deterministic input class of the cut: file, section the first missing byte
// belongs to, and whether the cut falls on an element boundary.
func (f *File) class(cut int) string {
	b := "inside-element"
	if f.isMark(cut) {
		b = "element-boundary"
	} else if f.Ascii && cut >= f.BodyStart && (f.Data[cut] == '\n' || (f.Data[cut] == '\r' && cut+1 < len(f.Data) && f.Data[cut+1] == '\n')) {
		b = "line-complete-newline-cut"
	}
	if f.Medium {
		b += nearBufferBoundary(cut)
	}
	return f.ID + "/" + f.section(cut) + "/" + b
}

func isWS(b byte) bool { return b == ' ' || b == '\n' || b == '\r' || b == '\t' }

// cuts lists the prefix lengths explored: every length for headers and binary data, every token
// boundary (every position that is not strictly inside a token, so also between CR and LF) for text bodies. midToken lists the remaining lengths
// of a text body (inside a number), which are outside the property's quantifier.
func (f *File) cuts() (cuts, midToken []int) {
	if f.Medium {
		return f.mediumCuts()
	}
	n := len(f.Data)
	for i := 0; i < n; i++ {
		if i < f.BodyStart || !f.Ascii {
			cuts = append(cuts, i)
			continue
		}
		if i == f.BodyStart || isWS(f.Data[i]) || isWS(f.Data[i-1]) { // not strictly inside a token
			cuts = append(cuts, i)
		} else {
			midToken = append(midToken, i)
		}
	}
	return
}

// ---------------------------------------------------------------------------------------------
// data put into the files: float32-exact, non-zero, pairwise distinct (so that a zero or a stale
// value standing in for a missing one can never equal the real one)
// ---------------------------------------------------------------------------------------------

func posOf(i int) [3]float64 {
	return [3]float64{1.5 + float64(i), -2.25 - 0.5*float64(i), 0.125 * float64(i+1)}
}
func nrmOf(i int) [3]float64 {
	return [3]float64{0.5 + 0.25*float64(i), -0.75, 0.25 * float64(i+1)}
}
func colOf(i int) [3]float64 {
	return [3]float64{float64(51+i) / 255, float64(102+i) / 255, float64(204+i) / 255}
}
func uvOf(i int) [2]float64 { return [2]float64{0.125 * float64(i+1), 1 - 0.0625*float64(i+1)} }

func v3s(n int, f func(int) [3]float64) []vector3.Float64 {
	out := make([]vector3.Float64, n)
	for i := range out {
		p := f(i)
		out[i] = vector3.New(p[0], p[1], p[2])
	}
	return out
}

func truthPos(n int) [][3]float64 {
	out := make([][3]float64, n)
	for i := range out {
		out[i] = posOf(i)
	}
	return out
}

// ---------------------------------------------------------------------------------------------
// PLY
// ---------------------------------------------------------------------------------------------

var plySizes = map[string]int{"char": 1, "int8": 1, "uchar": 1, "uint8": 1, "short": 2, "int16": 2, "ushort": 2, "uint16": 2,
	"int": 4, "int32": 4, "uint": 4, "uint32": 4, "float": 4, "float32": 4, "double": 8, "float64": 8}

type plyProp struct {
	list      bool
	size      int // scalar size, or list item size
	countSize int
}
type plyElem struct {
	name  string
	count int
	props []plyProp
}

// layoutPLY is an independent, minimal reading of a *valid* PLY file's structure: header end,
// element starts. It is only used to place section names and element marks.
func layoutPLY(f *File) error {
	d := f.Data
	h := bytes.Index(d, []byte("end_header"))
	if h < 0 {
		return fmt.Errorf("no end_header")
	}
	nl := bytes.IndexByte(d[h:], '\n')
	if nl < 0 {
		return fmt.Errorf("no newline after end_header")
	}
	h += nl + 1
	var elems []plyElem
	format := ""
	for _, line := range strings.Split(string(d[:h]), "\n") {
		t := strings.Fields(line)
		if len(t) == 0 {
			continue
		}
		switch t[0] {
		case "format":
			format = t[1]
		case "element":
			n, err := strconv.Atoi(t[2])
			if err != nil {
				return err
			}
			elems = append(elems, plyElem{name: t[1], count: n})
		case "property":
			e := &elems[len(elems)-1]
			if t[1] == "list" {
				e.props = append(e.props, plyProp{list: true, countSize: plySizes[t[2]], size: plySizes[t[3]]})
			} else {
				e.props = append(e.props, plyProp{size: plySizes[t[1]]})
			}
		}
	}
	f.Ascii = format == "ascii"
	f.Sections = []Section{{"header", 0}}
	if f.Ascii {
		f.BodyStart = h
	} else {
		f.BodyStart = len(d)
	}
	off := h
	for _, e := range elems {
		f.Sections = append(f.Sections, Section{e.name + "-list", off})
		for i := 0; i < e.count; i++ {
			f.Marks = append(f.Marks, off)
			if f.Ascii {
				j := bytes.IndexByte(d[off:], '\n')
				if j < 0 {
					return fmt.Errorf("element %s line %d: no newline", e.name, i)
				}
				off += j + 1
				continue
			}
			for _, p := range e.props {
				if !p.list {
					off += p.size
					continue
				}
				if off+p.countSize > len(d) {
					return fmt.Errorf("list count beyond the file")
				}
				var n int
				switch p.countSize {
				case 1:
					n = int(d[off])
				case 4:
					if format == "binary_big_endian" {
						n = int(binary.BigEndian.Uint32(d[off:]))
					} else {
						n = int(binary.LittleEndian.Uint32(d[off:]))
					}
				default:
					return fmt.Errorf("list count size %d", p.countSize)
				}
				off += p.countSize + n*p.size
			}
		}
	}
	if off != len(d) {
		return fmt.Errorf("layout ends at %d, file has %d bytes", off, len(d))
	}
	return nil
}

var plyFormats = []struct {
	name string
	f    ply.Format
}{{"ascii", ply.ASCII}, {"le", ply.BinaryLittleEndian}, {"be", ply.BinaryBigEndian}}

// plyByPolyform writes one of the three model kinds with the library's own writer.
func plyByPolyform(kind string, fi int, big bool) (f File, err error) {
	defer func() {
		if r := recover(); r != nil {
			err = fmt.Errorf("the PLY writer panicked: %v", r)
		}
	}()
	var m modeling.Mesh
	nv, np := 4, 2
	if big {
		nv, np = 7, 5
	}
	switch kind {
	case "cloud":
		m = modeling.NewPointCloud(nil, map[string][]vector3.Float64{
			modeling.PositionAttribute: v3s(nv, posOf),
			modeling.NormalAttribute:   v3s(nv, nrmOf),
			modeling.ColorAttribute:    v3s(nv, colOf),
		}, nil, nil, nil)
		np = nv
	case "mesh":
		idx := []int{0, 1, 2, 2, 1, 3}
		if big {
			idx = []int{0, 1, 2, 2, 1, 3, 3, 4, 5, 5, 4, 6, 6, 0, 3}
		}
		m = modeling.NewTriangleMesh(idx).
			SetFloat3Attribute(modeling.PositionAttribute, v3s(nv, posOf)).
			SetFloat3Attribute(modeling.NormalAttribute, v3s(nv, nrmOf))
	case "mesh-uv":
		// corner-indexed (unwelded), the shape the reader produces for per-face texture coordinates
		nv = 3 * np
		idx := make([]int, nv)
		uv := make([]vector2.Float64, nv)
		for i := range idx {
			idx[i] = i
			t := uvOf(i)
			uv[i] = vector2.New(t[0], t[1])
		}
		m = modeling.NewTriangleMesh(idx).
			SetFloat3Attribute(modeling.PositionAttribute, v3s(nv, posOf)).
			SetFloat2Attribute(modeling.TexCoordAttribute, uv)
	default:
		return f, fmt.Errorf("kind %s", kind)
	}
	buf := &bytes.Buffer{}
	if err := ply.Write(buf, m, plyFormats[fi].f); err != nil {
		return f, err
	}
	f = File{ID: "ply-" + plyFormats[fi].name + "/" + kind, Decoder: "ply", Data: buf.Bytes(),
		NVerts: nv, NPrims: np, Pos: truthPos(nv), PosTol: 1e-6}
	if big {
		f.ID += "-big"
	}
	f.Family = "ply-binary"
	if fi == 0 {
		f.Family = "ply-ascii"
	}
	return f, layoutPLY(&f)
}

// plyForeignAscii: a layout other tools write — comments, uchar colours, an unclaimed scalar
// property, a quad and a triangle in one `vertex_indices` list, CRLF-free text.
func plyForeignAscii(crlf bool) (File, error) {
	var b strings.Builder
	b.WriteString("ply\nformat ascii 1.0\ncomment hand encoded, foreign layout A\nelement vertex 5\n")
	b.WriteString("property float x\nproperty float y\nproperty float z\n")
	b.WriteString("property uchar red\nproperty uchar green\nproperty uchar blue\nproperty float quality\n")
	b.WriteString("element face 2\nproperty list uchar int vertex_indices\nend_header\n")
	for i := 0; i < 5; i++ {
		p := posOf(i)
		fmt.Fprintf(&b, "%g %g %g %d %d %d %g\n", p[0], p[1], p[2], 51+i, 102+i, 204+i, 0.5+float64(i))
	}
	b.WriteString("4 0 1 2 3\n3 2 3 4\n")
	f := File{ID: "ply-foreign/ascii-quad-colour", Family: "ply-foreign", Decoder: "ply", Data: []byte(b.String()),
		NVerts: 5, NPrims: 3, Pos: truthPos(5), PosTol: 1e-6}
	if crlf { // the same file as a Windows tool writes it
		f.ID += "-crlf"
		f.Data = []byte(strings.ReplaceAll(b.String(), "\n", "\r\n"))
	}
	return f, layoutPLY(&f)
}

// plyForeignBinary: big-endian, double coordinates, an unclaimed float property, a `vertex_index`
// list of uint followed by a per-face `texcoord` list (the wedge layout of MeshLab exports).
func plyForeignBinary() (File, error) {
	var b bytes.Buffer
	b.WriteString("ply\nformat binary_big_endian 1.0\ncomment hand encoded, foreign layout B\nelement vertex 4\n")
	b.WriteString("property double x\nproperty double y\nproperty double z\nproperty float confidence\n")
	b.WriteString("element face 2\nproperty list uchar uint vertex_index\nproperty list uchar float texcoord\nend_header\n")
	be := binary.BigEndian
	for i := 0; i < 4; i++ {
		p := posOf(i)
		for _, x := range p {
			binary.Write(&b, be, x)
		}
		binary.Write(&b, be, float32(0.5+float64(i)))
	}
	for t, tri := range [][3]uint32{{0, 1, 2}, {2, 1, 3}} {
		b.WriteByte(3)
		for _, i := range tri {
			binary.Write(&b, be, i)
		}
		b.WriteByte(6)
		for k := 0; k < 3; k++ {
			uv := uvOf(3*t + k)
			binary.Write(&b, be, float32(uv[0]))
			binary.Write(&b, be, float32(uv[1]))
		}
	}
	// the reader unwelds a mesh that carries per-face texture coordinates: 6 corners
	pos := [][3]float64{posOf(0), posOf(1), posOf(2), posOf(2), posOf(1), posOf(3)}
	f := File{ID: "ply-foreign/be-double-wedge-uv", Family: "ply-foreign", Decoder: "ply", Data: b.Bytes(),
		NVerts: 6, NPrims: 2, Pos: pos, PosTol: 1e-12}
	return f, layoutPLY(&f)
}

// plyForeignBinaryLE: little-endian, 4-byte list counts (`list uint int`), RGBA uchar colours, an
// unclaimed int property, a quad and a triangle.
func plyForeignBinaryLE() (File, error) {
	var b bytes.Buffer
	b.WriteString("ply\nformat binary_little_endian 1.0\ncomment hand encoded, foreign layout C\nelement vertex 5\n")
	b.WriteString("property float x\nproperty float y\nproperty float z\n")
	b.WriteString("property uchar red\nproperty uchar green\nproperty uchar blue\nproperty uchar alpha\nproperty int label\n")
	b.WriteString("element face 2\nproperty list uint int vertex_indices\nend_header\n")
	le := binary.LittleEndian
	for i := 0; i < 5; i++ {
		for _, x := range posOf(i) {
			binary.Write(&b, le, float32(x))
		}
		b.Write([]byte{byte(51 + i), byte(102 + i), byte(204 + i), byte(230 + i)})
		binary.Write(&b, le, int32(7+i))
	}
	binary.Write(&b, le, uint32(4))
	for _, i := range []int32{1, 2, 3, 4} {
		binary.Write(&b, le, i)
	}
	binary.Write(&b, le, uint32(3))
	for _, i := range []int32{4, 3, 1} {
		binary.Write(&b, le, i)
	}
	f := File{ID: "ply-foreign/le-uintcount-rgba-quad", Family: "ply-foreign", Decoder: "ply", Data: b.Bytes(),
		NVerts: 5, NPrims: 3, Pos: truthPos(5), PosTol: 1e-12}
	return f, layoutPLY(&f)
}

// plyForeignAsciiAligned: the fixed-width / right-aligned layout of table-oriented exporters — every
// body line starts with blanks, columns are padded with runs of blanks (tabs in the "tabs" variant),
// lines end in a trailing blank.  A point cloud (faces == false) or a mesh whose last face is a quad.
func plyForeignAsciiAligned(faces, tabs bool) (File, error) {
	var b strings.Builder
	b.WriteString("ply\nformat ascii 1.0\ncomment hand encoded, foreign layout D (aligned columns)\nelement vertex 5\n")
	b.WriteString("property float x\nproperty float y\nproperty float z\n")
	if faces {
		b.WriteString("element face 2\nproperty list uchar int vertex_indices\n")
	}
	b.WriteString("end_header\n")
	sep := " "
	if tabs {
		sep = "\t"
	}
	for i := 0; i < 5; i++ {
		p := posOf(i)
		fmt.Fprintf(&b, "  %s%12g%s%s%12g%s%12g \n", sep, p[0], sep, sep, p[1], sep, p[2])
	}
	id, prims := "ply-foreign/ascii-aligned-cloud", 5
	if faces {
		fmt.Fprintf(&b, "   3%s  0 %s 1   2 \n", sep, sep)
		fmt.Fprintf(&b, " %s 4   2   1%s  3   4\n", sep, sep)
		id, prims = "ply-foreign/ascii-aligned-quad-last", 3
	}
	if tabs {
		id += "-tabs"
	}
	f := File{ID: id, Family: "ply-foreign", Decoder: "ply", Data: []byte(b.String()), NVerts: 5, NPrims: prims, Pos: truthPos(5), PosTol: 1e-6}
	return f, layoutPLY(&f)
}

// plyForeignBinaryQuadLast: the most common layout of all (`list uchar int vertex_indices`, float
// coordinates) with a triangle followed by two quads — the file ends inside a quad.
func plyForeignBinaryQuadLast(bigEndian bool) (File, error) {
	var b bytes.Buffer
	var bo binary.ByteOrder = binary.LittleEndian
	name := "binary_little_endian"
	if bigEndian {
		bo, name = binary.BigEndian, "binary_big_endian"
	}
	b.WriteString("ply\nformat " + name + " 1.0\ncomment hand encoded, foreign layout E\nelement vertex 6\n")
	b.WriteString("property float x\nproperty float y\nproperty float z\n")
	b.WriteString("element face 3\nproperty list uchar int vertex_indices\nend_header\n")
	for i := 0; i < 6; i++ {
		for _, x := range posOf(i) {
			binary.Write(&b, bo, float32(x))
		}
	}
	for _, face := range [][]int32{{0, 1, 2}, {2, 1, 3, 4}, {4, 3, 5, 0}} {
		b.WriteByte(byte(len(face)))
		for _, i := range face {
			binary.Write(&b, bo, i)
		}
	}
	id := "ply-foreign/le-quad-last"
	if bigEndian {
		id = "ply-foreign/be-quad-last"
	}
	f := File{ID: id, Family: "ply-foreign", Decoder: "ply", Data: b.Bytes(), NVerts: 6, NPrims: 5, Pos: truthPos(6), PosTol: 1e-6}
	return f, layoutPLY(&f)
}

// ---------------------------------------------------------------------------------------------
// binary STL (80-byte header, uint32 count, 50 bytes per triangle)
// ---------------------------------------------------------------------------------------------

func stlFile(tris int) File { return stlFileHeader(tris, "") }

// stlFileHeader: header "" = the default text; "solid…" = what CAD exporters write (a binary file
// whose 80 header bytes are text that begins like an ascii STL), padded with blanks or NULs.
func stlFileHeader(tris int, header string) File {
	var b bytes.Buffer
	hdr := make([]byte, 80)
	copy(hdr, "verif c14 hand encoded binary stl; not the word that starts an ascii stl")
	if header != "" {
		hdr = make([]byte, 80)
		if header[len(header)-1] == ' ' {
			for i := range hdr {
				hdr[i] = ' '
			}
		}
		copy(hdr, header)
	}
	b.Write(hdr)
	le := binary.LittleEndian
	binary.Write(&b, le, uint32(tris))
	f := File{ID: fmt.Sprintf("stl/%d-triangles", tris), Family: "stl", Decoder: "stl",
		NVerts: 3 * tris, NPrims: tris, PosTol: 1e-12}
	if header != "" {
		f.ID += fmt.Sprintf("/header-%q", header)
	}
	f.Sections = []Section{{"header", 0}, {"triangle-count", 80}}
	if tris > 0 {
		f.Sections = append(f.Sections, Section{"triangles", 84})
	}
	for t := 0; t < tris; t++ {
		f.Marks = append(f.Marks, b.Len())
		n := nrmOf(t)
		for _, x := range n {
			binary.Write(&b, le, float32(x))
		}
		for k := 0; k < 3; k++ {
			p := posOf(3*t + k)
			f.Pos = append(f.Pos, p)
			for _, x := range p {
				binary.Write(&b, le, float32(x))
			}
		}
		binary.Write(&b, le, uint16(0x0101*(t+1)))
	}
	f.Data = b.Bytes()
	f.BodyStart = len(f.Data)
	return f
}

// ---------------------------------------------------------------------------------------------
// SPZ reference encoder (Niantic packed gaussians, gzip'd): 16-byte header, positions
// (v1: 3 halfs, v2: 3×24-bit fixed point), alphas, colours, scales, rotations (3 bytes), SH.
// ---------------------------------------------------------------------------------------------

func halfBits(x float64) uint16 {
	// exact conversion of a normal, half-representable value
	if x == 0 {
		return 0
	}
	var s uint16
	if x < 0 {
		s, x = 0x8000, -x
	}
	fr, e := math.Frexp(x) // x = fr·2^e, fr in [0.5,1)
	m := fr * 2048         // 11 significant bits
	if m != math.Trunc(m) || e-1 < -14 || e-1 > 15 {
		panic(fmt.Sprintf("halfBits: %v is not an exact normal half", x))
	}
	return s | uint16(e-1+15)<<10 | (uint16(m) & 0x3ff)
}

var shDims = []int{0, 3, 8, 15}

func spzFile(version, shDegree, n int) (File, error) { return spzFileMembers(version, shDegree, n, false) }

// spzFileMembers: perBlock writes every block of the scene (header, positions, alphas, colours,
// scales, rotations, harmonics) as a gzip member of its own - a gzip file is a series of members
// (RFC 1952) and compress/gzip reads the series as one stream, so the file decodes like the
// single-member one, but a cut at a member boundary leaves a *complete* gzip stream whose data
// simply ends early.
func spzFileMembers(version, shDegree, n int, perBlock bool) (File, error) {
	const fracBits = 12
	raw := &bytes.Buffer{}
	var blocks []int
	mark := func() { blocks = append(blocks, raw.Len()) }
	le := binary.LittleEndian
	binary.Write(raw, le, uint32(0x5053474e))
	binary.Write(raw, le, uint32(version))
	binary.Write(raw, le, uint32(n))
	raw.Write([]byte{byte(shDegree), fracBits, 0, 0})
	f := File{ID: fmt.Sprintf("spz/v%d-sh%d-%dpts", version, shDegree, n), Family: "spz", Decoder: "spz",
		NVerts: n, NPrims: n, Pos: truthPos(n), PosTol: 1e-12}
	if perBlock {
		f.ID += "-member-per-block"
	}
	mark()
	for i := 0; i < n; i++ {
		for _, x := range posOf(i) {
			if version == 1 {
				binary.Write(raw, le, halfBits(x))
			} else {
				v := int32(math.Round(x * (1 << fracBits)))
				raw.Write([]byte{byte(v), byte(v >> 8), byte(v >> 16)})
			}
		}
	}
	mark()
	for i := 0; i < n; i++ { // alphas
		raw.WriteByte(byte(200 + i))
	}
	mark()
	for i := 0; i < 3*n; i++ { // colours
		raw.WriteByte(byte(10 + 7*i))
	}
	mark()
	for i := 0; i < 3*n; i++ { // scales
		raw.WriteByte(byte(100 + 3*i))
	}
	mark()
	for i := 0; i < 3*n; i++ { // rotations
		raw.WriteByte(byte(120 + 5*i))
	}
	mark()
	for i := 0; i < 3*n*shDims[shDegree]; i++ {
		raw.WriteByte(byte(1 + 11*i))
	}
	gz := &bytes.Buffer{}
	member := func(data []byte) error {
		w, err := gzip.NewWriterLevel(gz, gzip.DefaultCompression)
		if err != nil {
			return err
		}
		if _, err := w.Write(data); err != nil {
			return err
		}
		return w.Close()
	}
	if !perBlock {
		if err := member(raw.Bytes()); err != nil {
			return f, err
		}
		f.Data = gz.Bytes()
		f.BodyStart = len(f.Data)
		f.Sections = []Section{{"gzip-header", 0}, {"deflate-stream", 10}, {"gzip-trailer", len(f.Data) - 8}}
		return f, nil
	}
	names := []string{"member:header", "member:positions", "member:alphas", "member:colours", "member:scales", "member:rotations", "member:harmonics"}
	blocks = append(blocks, raw.Len())
	from := 0
	for i, to := range blocks {
		if to == from && i > 0 {
			continue // no harmonics at degree 0
		}
		f.Sections = append(f.Sections, Section{names[i], gz.Len()})
		f.Marks = append(f.Marks, gz.Len())
		if err := member(raw.Bytes()[from:to]); err != nil {
			return f, err
		}
		from = to
	}
	f.Data = gz.Bytes()
	f.BodyStart = len(f.Data)
	return f, nil
}

// ---------------------------------------------------------------------------------------------
// PTS (count line, then "x y z [intensity [r g b]]" lines)
// ---------------------------------------------------------------------------------------------

func ptsFile(cols, n int) File {
	var b strings.Builder
	fmt.Fprintf(&b, "%d\n", n)
	f := File{ID: fmt.Sprintf("pts/%d-columns-%d-points", cols, n), Family: "pts", Decoder: "pts", Ascii: true,
		NVerts: n, NPrims: n, Pos: truthPos(n), PosTol: 1e-12}
	f.BodyStart = b.Len()
	f.Sections = []Section{{"count-line", 0}, {"points", b.Len()}}
	for i := 0; i < n; i++ {
		f.Marks = append(f.Marks, b.Len())
		p := posOf(i)
		fmt.Fprintf(&b, "%g %g %g", p[0], p[1], p[2])
		if cols >= 4 {
			fmt.Fprintf(&b, " %d", 100+i)
		}
		if cols >= 7 {
			fmt.Fprintf(&b, " %d %d %d", 51+i, 102+i, 204+i)
		}
		b.WriteString("\n")
	}
	f.Data = []byte(b.String())
	return f
}

// ptsMultiFile: a PTS file that holds several scans, each with a count line of its own (scanner
// software writes one block per set-up).  Readers differ in what they make of the later blocks
// (the first block only, or all of them); either way a proper prefix that loads without an error
// must be the data the complete file loads to.  NVerts is the first block; AltNVerts the total.
func ptsMultiFile(cols int, ns ...int) File {
	var b strings.Builder
	total := 0
	for _, n := range ns {
		total += n
	}
	f := File{ID: fmt.Sprintf("pts/%d-columns-scans-%v", cols, ns), Family: "pts", Decoder: "pts", Ascii: true,
		NVerts: ns[0], NPrims: ns[0], AltNVerts: total, Pos: truthPos(total), PosTol: 1e-12}
	i := 0
	for bi, n := range ns {
		fmt.Fprintf(&b, "%d\n", n)
		if bi == 0 {
			f.BodyStart = b.Len()
			f.Sections = []Section{{"count-line", 0}, {"points", b.Len()}}
		}
		for j := 0; j < n; j++ {
			f.Marks = append(f.Marks, b.Len())
			p := posOf(i)
			fmt.Fprintf(&b, "%g %g %g", p[0], p[1], p[2])
			if cols >= 4 {
				fmt.Fprintf(&b, " %d", 100+i)
			}
			if cols >= 7 {
				fmt.Fprintf(&b, " %d %d %d", 51+i, 102+i, 204+i)
			}
			b.WriteString("\n")
			i++
		}
	}
	f.Data = []byte(b.String())
	return f
}

// ---------------------------------------------------------------------------------------------
// .splat (32-byte records: position 3×f32, scale 3×f32, rgba, rotation 4 bytes)
// ---------------------------------------------------------------------------------------------

func splatFile(n int) File {
	var b bytes.Buffer
	le := binary.LittleEndian
	f := File{ID: fmt.Sprintf("splat/%d-records", n), Family: "splat", Decoder: "splat",
		NVerts: n, NPrims: n, Pos: truthPos(n), PosTol: 1e-12}
	f.Sections = []Section{{"records", 0}}
	for i := 0; i < n; i++ {
		f.Marks = append(f.Marks, b.Len())
		for _, x := range posOf(i) {
			binary.Write(&b, le, float32(x))
		}
		for k := 0; k < 3; k++ {
			binary.Write(&b, le, float32(0.5+0.25*float64(i+k)))
		}
		b.Write([]byte{byte(51 + i), byte(102 + i), byte(204 + i), byte(180 + i)})
		b.Write([]byte{byte(200 + i), byte(140 + i), byte(100 + i), byte(90 + i)})
	}
	f.Data = b.Bytes()
	f.BodyStart = len(f.Data)
	return f
}

// ---------------------------------------------------------------------------------------------

// family builds the files of a tier in a fixed order. Files that could not be produced (a writer
// of the tree under test failing) are returned as errors: harness trouble, never a verdict.
func family(thorough bool) (files []File, errs []string) {
	add := func(f File, err error) {
		if err != nil {
			errs = append(errs, fmt.Sprintf("%s: %v", f.ID, err))
			return
		}
		files = append(files, f)
	}
	for _, kind := range []string{"cloud", "mesh", "mesh-uv"} {
		for fi := range plyFormats {
			add(plyByPolyform(kind, fi, false))
		}
	}
	add(plyForeignAscii(false))
	add(plyForeignBinary())
	add(plyForeignBinaryLE())
	add(plyForeignAsciiAligned(false, false))
	add(plyForeignAsciiAligned(true, false))
	add(plyForeignAsciiAligned(false, true))
	add(plyForeignBinaryQuadLast(false))
	add(plyForeignBinaryQuadLast(true))
	for t := 0; t <= 2; t++ {
		add(stlFile(t), nil)
	}
	add(stlFileHeader(2, "solid exported by some cad tool"), nil) // NUL padded
	add(stlFileHeader(1, "solid part 7 "), nil)                   // blank padded
	for _, v := range []int{1, 2} {
		for _, sh := range []int{0, 1} {
			add(spzFile(v, sh, 3))
			if v == 2 && (sh == 0 || sh == 1) {
				add(spzFileMembers(v, sh, 3, true))
			}
		}
	}
	add(ptsFile(3, 3), nil)
	add(ptsFile(4, 3), nil)
	add(ptsFile(7, 3), nil)
	add(ptsFile(3, 12), nil)
	add(ptsMultiFile(3, 3, 4), nil)
	add(ptsMultiFile(7, 2, 3, 2), nil)
	add(ptsMultiFile(4, 5, 1), nil)
	add(splatFile(3), nil)
	if thorough {
		for _, kind := range []string{"cloud", "mesh", "mesh-uv"} {
			for fi := range plyFormats {
				add(plyByPolyform(kind, fi, true))
			}
		}
		add(plyForeignAscii(true))
		add(stlFile(4), nil)
		for _, v := range []int{1, 2} {
			for _, sh := range []int{2, 3} {
				add(spzFile(v, sh, 5))
			}
		}
		add(ptsFile(7, 12), nil)
		add(splatFile(6), nil)
	}
	mediumFamily(thorough, add)
	return
}
