package c14

import (
	"fmt"
	"math"

	"verif/harness/meshlib"
)

// diff names the first difference between two snapshots in a fixed order ("" if bit-identical):
// topology, indices, attribute names, then the attributes in sorted name order. (meshlib's Diff
// walks Go maps, so the difference it names can vary between runs; the verdict is the same.)
func diff(s, o meshlib.Snap) string {
	if s.Diff(o) == "" {
		return ""
	}
	if s.Topo != o.Topo {
		return fmt.Sprintf("topology %v -> %v", s.Topo, o.Topo)
	}
	if fmt.Sprint(s.Idx) != fmt.Sprint(o.Idx) {
		return fmt.Sprintf("indices %v -> %v", s.Idx, o.Idx)
	}
	for w := 0; w < 4; w++ {
		if fmt.Sprint(s.Names[w]) != fmt.Sprint(o.Names[w]) {
			return fmt.Sprintf("float%d attribute names %v -> %v", w+1, s.Names[w], o.Names[w])
		}
	}
	ne := func(a, b float64) bool { return math.Float64bits(a) != math.Float64bits(b) }
	for w := 0; w < 4; w++ {
		for _, a := range s.Names[w] {
			var x, y [][4]float64
			switch w {
			case 0:
				for _, v := range s.F1[a] {
					x = append(x, [4]float64{v})
				}
				for _, v := range o.F1[a] {
					y = append(y, [4]float64{v})
				}
			case 1:
				for _, v := range s.F2[a] {
					x = append(x, [4]float64{v.X(), v.Y()})
				}
				for _, v := range o.F2[a] {
					y = append(y, [4]float64{v.X(), v.Y()})
				}
			case 2:
				for _, v := range s.F3[a] {
					x = append(x, [4]float64{v.X(), v.Y(), v.Z()})
				}
				for _, v := range o.F3[a] {
					y = append(y, [4]float64{v.X(), v.Y(), v.Z()})
				}
			case 3:
				for _, v := range s.F4[a] {
					x = append(x, [4]float64{v.X(), v.Y(), v.Z(), v.W()})
				}
				for _, v := range o.F4[a] {
					y = append(y, [4]float64{v.X(), v.Y(), v.Z(), v.W()})
				}
			}
			if len(x) != len(y) {
				return fmt.Sprintf("%s length %d -> %d", a, len(x), len(y))
			}
			for i := range x {
				for k := 0; k <= w; k++ {
					if ne(x[i][k], y[i][k]) {
						return fmt.Sprintf("%s[%d] %v -> %v", a, i, x[i][:w+1], y[i][:w+1])
					}
				}
			}
		}
	}
	return "snapshots differ: " + fmt.Sprintf("primitive count %d -> %d, attribute length %d -> %d", s.Prims, o.Prims, s.ALen, o.ALen)
}
