package plyref

import (
	"github.com/EliCDavis/polyform/modeling"

	"verif/harness/meshlib"
)

// CornersOf renders a library mesh (read through its public accessors only) as a per-corner table.
func CornersOf(m modeling.Mesh) *Corners {
	s := meshlib.Snapshot(m)
	c := &Corners{Attrs: map[string]*CAttr{}, N: len(s.Idx)}
	switch s.Topo {
	case modeling.TriangleTopology:
		c.Topo = "tri"
		c.Prims = len(s.Idx) / 3
	case modeling.PointTopology:
		c.Topo = "point"
		c.Prims = len(s.Idx)
	default:
		c.Topo = s.Topo.String()
		c.Prims = s.Prims
	}
	ok := func(n int) bool {
		for _, i := range s.Idx {
			if i < 0 || i >= n {
				return false
			}
		}
		return true
	}
	for a, d := range s.F1 {
		if !ok(len(d)) {
			continue
		}
		ca := &CAttr{Width: 1, Vals: make([][4]float64, len(s.Idx))}
		for k, i := range s.Idx {
			ca.Vals[k] = [4]float64{d[i]}
		}
		c.Attrs[a] = ca
	}
	for a, d := range s.F2 {
		if !ok(len(d)) {
			continue
		}
		ca := &CAttr{Width: 2, Vals: make([][4]float64, len(s.Idx))}
		for k, i := range s.Idx {
			ca.Vals[k] = [4]float64{d[i].X(), d[i].Y()}
		}
		c.Attrs[a] = ca
	}
	for a, d := range s.F3 {
		if !ok(len(d)) {
			continue
		}
		ca := &CAttr{Width: 3, Vals: make([][4]float64, len(s.Idx))}
		for k, i := range s.Idx {
			ca.Vals[k] = [4]float64{d[i].X(), d[i].Y(), d[i].Z()}
		}
		c.Attrs[a] = ca
	}
	for a, d := range s.F4 {
		if !ok(len(d)) {
			continue
		}
		ca := &CAttr{Width: 4, Vals: make([][4]float64, len(s.Idx))}
		for k, i := range s.Idx {
			ca.Vals[k] = [4]float64{d[i].X(), d[i].Y(), d[i].Z(), d[i].W()}
		}
		c.Attrs[a] = ca
	}
	return c
}
