// Package plyref is an independent implementation of the PLY file format (Greg Turk's
// specification: header grammar, ascii / binary_little_endian / binary_big_endian bodies, scalar and
// list properties, both spellings of every scalar type), written from the format description and
// NOT from polyform's formats/ply package. It is the trusted base of C04 (header-describes-body,
// writer/reader attribution) and C08 (reference encoder + the mesh a file describes).
//
// It never imports github.com/EliCDavis/polyform/formats/ply.
package plyref

import (
	"bytes"
	"encoding/binary"
	"fmt"
	"math"
	"strconv"
	"strings"
)

// ---------------------------------------------------------------------------------------------
// scalar types
// ---------------------------------------------------------------------------------------------

type Type int

const (
	Char Type = iota
	UChar
	Short
	UShort
	Int
	UInt
	Float
	Double
)

// Spellings[t] = {classic name, sized name}
var Spellings = [8][2]string{
	{"char", "int8"}, {"uchar", "uint8"}, {"short", "int16"}, {"ushort", "uint16"},
	{"int", "int32"}, {"uint", "uint32"}, {"float", "float32"}, {"double", "float64"},
}

func (t Type) String() string { return Spellings[t][0] }

func (t Type) Size() int {
	switch t {
	case Char, UChar:
		return 1
	case Short, UShort:
		return 2
	case Int, UInt, Float:
		return 4
	}
	return 8
}

func (t Type) Integer() bool { return t <= UInt }

// Range of an integer type.
func (t Type) Range() (lo, hi float64) {
	switch t {
	case Char:
		return -128, 127
	case UChar:
		return 0, 255
	case Short:
		return -32768, 32767
	case UShort:
		return 0, 65535
	case Int:
		return -2147483648, 2147483647
	case UInt:
		return 0, 4294967295
	}
	return math.Inf(-1), math.Inf(1)
}

func ParseType(s string) (Type, bool) {
	for t, sp := range Spellings {
		if s == sp[0] || s == sp[1] {
			return Type(t), true
		}
	}
	return 0, false
}

func TypeByName(s string) Type {
	t, ok := ParseType(s)
	if !ok {
		panic("plyref: unknown type " + s)
	}
	return t
}

// ---------------------------------------------------------------------------------------------
// file model
// ---------------------------------------------------------------------------------------------

type Prop struct {
	Name      string
	List      bool
	CountType Type
	Type      Type
	// encoder only: which spelling of the type names to emit (0 classic, 1 sized)
	Spell, CountSpell int
}

type Element struct {
	Name  string
	Count int
	Props []Prop
	// Rows[r][p] = the values of property p in record r (exactly one for a scalar property).
	Rows [][][]float64
}

const (
	ASCII = "ascii"
	LE    = "binary_little_endian"
	BE    = "binary_big_endian"
)

var Formats = []string{ASCII, LE, BE}

type File struct {
	Format   string
	Elements []Element
	Comments []string
	ObjInfo  []string
	// BodyOffset is where the body starts in the parsed bytes; HeaderLines the number of header lines.
	BodyOffset  int
	HeaderLines int
}

func (f *File) Element(name string) *Element {
	for i := range f.Elements {
		if f.Elements[i].Name == name {
			return &f.Elements[i]
		}
	}
	return nil
}

// Error kinds of the parser — the C04 classifier uses them.
type Error struct {
	Kind string // header | body-short | body-long | line-count | token-count | token | range
	Msg  string
}

func (e *Error) Error() string { return e.Kind + ": " + e.Msg }

func perr(kind, format string, a ...any) *Error { return &Error{kind, fmt.Sprintf(format, a...)} }

// ---------------------------------------------------------------------------------------------
// parser: header first, then the body is decoded *only* from what the header says
// ---------------------------------------------------------------------------------------------

// ParseHeader reads the header. Lines end in LF; one CR before the LF is tolerated.
func ParseHeader(data []byte) (*File, error) {
	f := &File{}
	pos := 0
	line := func() (string, bool) {
		i := bytes.IndexByte(data[pos:], '\n')
		if i < 0 {
			return "", false
		}
		s := string(data[pos : pos+i])
		pos += i + 1
		s = strings.TrimSuffix(s, "\r")
		f.HeaderLines++
		return s, true
	}
	l, ok := line()
	if !ok || l != "ply" {
		return nil, perr("header", "magic line is %q", l)
	}
	l, ok = line()
	fs := strings.Fields(l)
	if !ok || len(fs) != 3 || fs[0] != "format" || fs[2] != "1.0" {
		return nil, perr("header", "format line is %q", l)
	}
	switch fs[1] {
	case ASCII, LE, BE:
		f.Format = fs[1]
	default:
		return nil, perr("header", "unknown format %q", fs[1])
	}
	for {
		l, ok = line()
		if !ok {
			return nil, perr("header", "no end_header")
		}
		fs = strings.Fields(l)
		if len(fs) == 0 {
			return nil, perr("header", "empty header line")
		}
		switch fs[0] {
		case "end_header":
			if len(fs) != 1 {
				return nil, perr("header", "garbage after end_header")
			}
			f.BodyOffset = pos
			return f, nil
		case "comment":
			f.Comments = append(f.Comments, strings.TrimSpace(strings.TrimPrefix(strings.TrimSpace(l), "comment")))
		case "obj_info":
			f.ObjInfo = append(f.ObjInfo, strings.TrimSpace(strings.TrimPrefix(strings.TrimSpace(l), "obj_info")))
		case "element":
			if len(fs) != 3 {
				return nil, perr("header", "element line %q", l)
			}
			n, err := strconv.Atoi(fs[2])
			if err != nil || n < 0 {
				return nil, perr("header", "element count %q", fs[2])
			}
			f.Elements = append(f.Elements, Element{Name: fs[1], Count: n})
		case "property":
			if len(f.Elements) == 0 {
				return nil, perr("header", "property before any element")
			}
			e := &f.Elements[len(f.Elements)-1]
			var p Prop
			if len(fs) == 5 && fs[1] == "list" {
				ct, ok1 := ParseType(fs[2])
				lt, ok2 := ParseType(fs[3])
				if !ok1 || !ok2 || !ct.Integer() {
					return nil, perr("header", "list property %q", l)
				}
				p = Prop{Name: fs[4], List: true, CountType: ct, Type: lt}
			} else if len(fs) == 3 {
				t, ok1 := ParseType(fs[1])
				if !ok1 {
					return nil, perr("header", "property type %q", fs[1])
				}
				p = Prop{Name: fs[2], Type: t}
			} else {
				return nil, perr("header", "property line %q", l)
			}
			for _, q := range e.Props {
				if q.Name == p.Name {
					return nil, perr("header", "duplicate property %q in element %q", p.Name, e.Name)
				}
			}
			e.Props = append(e.Props, p)
		default:
			return nil, perr("header", "unknown header keyword %q", fs[0])
		}
	}
}

// Parse reads a complete file and demands that the body is exactly what the header announces:
// binary bodies must have exactly the computed length; ascii bodies must have exactly one line per
// element record with exactly the announced number of tokens, each a literal of the announced type.
func Parse(data []byte) (*File, error) {
	f, err := ParseHeader(data)
	if err != nil {
		return nil, err
	}
	body := data[f.BodyOffset:]
	if f.Format == ASCII {
		return f, parseASCII(f, body)
	}
	return f, parseBinary(f, body)
}

func parseBinary(f *File, body []byte) error {
	var bo binary.ByteOrder = binary.LittleEndian
	if f.Format == BE {
		bo = binary.BigEndian
	}
	pos := 0
	read := func(t Type) (float64, bool) {
		n := t.Size()
		if pos+n > len(body) {
			return 0, false
		}
		b := body[pos : pos+n]
		pos += n
		switch t {
		case Char:
			return float64(int8(b[0])), true
		case UChar:
			return float64(b[0]), true
		case Short:
			return float64(int16(bo.Uint16(b))), true
		case UShort:
			return float64(bo.Uint16(b)), true
		case Int:
			return float64(int32(bo.Uint32(b))), true
		case UInt:
			return float64(bo.Uint32(b)), true
		case Float:
			return float64(math.Float32frombits(bo.Uint32(b))), true
		}
		return math.Float64frombits(bo.Uint64(b)), true
	}
	for ei := range f.Elements {
		e := &f.Elements[ei]
		e.Rows = make([][][]float64, e.Count)
		for r := 0; r < e.Count; r++ {
			row := make([][]float64, len(e.Props))
			for pi, p := range e.Props {
				if !p.List {
					v, ok := read(p.Type)
					if !ok {
						return perr("body-short", "body ends inside element %q record %d property %q (body has %d bytes)", e.Name, r, p.Name, len(body))
					}
					row[pi] = []float64{v}
					continue
				}
				n, ok := read(p.CountType)
				if !ok {
					return perr("body-short", "body ends inside element %q record %d list %q count (body has %d bytes)", e.Name, r, p.Name, len(body))
				}
				if n < 0 || n > 1<<20 {
					return perr("body-short", "element %q record %d list %q announces %v entries", e.Name, r, p.Name, n)
				}
				vals := make([]float64, int(n))
				for k := range vals {
					v, ok := read(p.Type)
					if !ok {
						return perr("body-short", "body ends inside element %q record %d list %q entry %d of %d (body has %d bytes)", e.Name, r, p.Name, k, int(n), len(body))
					}
					vals[k] = v
				}
				row[pi] = vals
			}
			e.Rows[r] = row
		}
	}
	if pos != len(body) {
		return perr("body-long", "header describes %d body bytes, %d follow", pos, len(body))
	}
	return nil
}

func parseToken(tok string, t Type) (float64, *Error) {
	if t.Integer() {
		v, err := strconv.ParseInt(tok, 10, 64)
		if err != nil {
			return 0, perr("token", "%q is not an integer literal for type %s", tok, t)
		}
		lo, hi := t.Range()
		if float64(v) < lo || float64(v) > hi {
			return float64(v), perr("range", "%d does not fit type %s", v, t)
		}
		return float64(v), nil
	}
	v, err := strconv.ParseFloat(tok, 64)
	if err != nil || math.IsNaN(v) || math.IsInf(v, 0) {
		return 0, perr("token", "%q is not a finite number for type %s", tok, t)
	}
	return v, nil
}

func parseASCII(f *File, body []byte) error {
	var lines []string
	if len(body) > 0 {
		s := string(body)
		if !strings.HasSuffix(s, "\n") {
			return perr("line-count", "last body line is not terminated")
		}
		lines = strings.Split(s[:len(s)-1], "\n")
	}
	want := 0
	for _, e := range f.Elements {
		want += e.Count
	}
	if len(lines) != want {
		return perr("line-count", "header announces %d element records, body has %d lines", want, len(lines))
	}
	li := 0
	var rangeErr *Error
	for ei := range f.Elements {
		e := &f.Elements[ei]
		e.Rows = make([][][]float64, e.Count)
		for r := 0; r < e.Count; r++ {
			toks := strings.Fields(strings.TrimSuffix(lines[li], "\r"))
			li++
			row := make([][]float64, len(e.Props))
			ti := 0
			next := func(t Type) (float64, *Error) {
				if ti >= len(toks) {
					return 0, perr("token-count", "element %q record %d has %d tokens, the header needs more", e.Name, r, len(toks))
				}
				v, err := parseToken(toks[ti], t)
				ti++
				if err != nil && err.Kind == "range" {
					if rangeErr == nil {
						rangeErr = perr("range", "element %q record %d: %s", e.Name, r, err.Msg)
					}
					err = nil
				}
				return v, err
			}
			for pi, p := range e.Props {
				if !p.List {
					v, err := next(p.Type)
					if err != nil {
						return err
					}
					row[pi] = []float64{v}
					continue
				}
				n, err := next(p.CountType)
				if err != nil {
					return err
				}
				if n < 0 || n > 1<<20 {
					return perr("token-count", "element %q record %d list %q announces %v entries", e.Name, r, p.Name, n)
				}
				vals := make([]float64, int(n))
				for k := range vals {
					if vals[k], err = next(p.Type); err != nil {
						return err
					}
				}
				row[pi] = vals
			}
			if ti != len(toks) {
				return perr("token-count", "element %q record %d has %d tokens, the header describes %d", e.Name, r, len(toks), ti)
			}
			e.Rows[r] = row
		}
	}
	if rangeErr != nil {
		return rangeErr
	}
	return nil
}

// ---------------------------------------------------------------------------------------------
// reference encoder
// ---------------------------------------------------------------------------------------------

// Layout holds the purely textual freedoms of a header.
type Layout struct {
	CRLF bool
	// Style selects how ascii float/double tokens are spelled (all spellings denote the same number):
	// 0 shortest decimal ('g'), 1 17 (float: 9) significant digits, 2 scientific with 17 (9) digits,
	// 3 plain decimal without exponent, 4 explicit '+' sign on non-negative numbers, 5 upper-case exponent
	Style int
	// Extra[k] lines are inserted after header line k (k = 1 is the format line; the last admissible
	// k is the line before end_header). Each entry is a complete line such as "comment hello".
	Extra map[int][]string
}

// HeaderLines renders the structural header lines (without extras), "ply" first, "end_header" last.
func (f *File) headerLines() []string {
	ls := []string{"ply", "format " + f.Format + " 1.0"}
	for _, e := range f.Elements {
		ls = append(ls, fmt.Sprintf("element %s %d", e.Name, e.Count))
		for _, p := range e.Props {
			if p.List {
				ls = append(ls, fmt.Sprintf("property list %s %s %s", Spellings[p.CountType][p.CountSpell], Spellings[p.Type][p.Spell], p.Name))
			} else {
				ls = append(ls, fmt.Sprintf("property %s %s", Spellings[p.Type][p.Spell], p.Name))
			}
		}
	}
	return append(ls, "end_header")
}

// NumHeaderLines is the number of structural header lines (positions for Layout.Extra are 1..n-2).
func (f *File) NumHeaderLines() int { return len(f.headerLines()) }

// Token renders a value of type t as ascii: integers as decimal literals, float as the shortest
// decimal that identifies the float32, double as the shortest decimal that identifies the float64.
func Token(v float64, t Type) string { return TokenStyled(v, t, 0) }

// NumStyles is the number of ascii number spellings TokenStyled knows.
const NumStyles = 6

// TokenStyled renders v in one of the spellings other tools emit; every spelling identifies the
// same float32 / float64 (at least 9 / 17 significant digits, or the shortest identifying decimal).
func TokenStyled(v float64, t Type, style int) string {
	if t.Integer() || style == 0 {
		return token0(v, t)
	}
	bits, digits := 64, 17
	if t == Float {
		v, bits, digits = float64(float32(v)), 32, 9
	}
	switch style {
	case 1:
		return strconv.FormatFloat(v, 'g', digits, bits)
	case 2:
		return strconv.FormatFloat(v, 'e', digits-1, bits)
	case 3:
		return strconv.FormatFloat(v, 'f', -1, bits)
	case 4:
		if v >= 0 && !math.Signbit(v) {
			return "+" + token0(v, t)
		}
		return token0(v, t)
	case 5:
		return strings.ToUpper(strconv.FormatFloat(v, 'e', -1, bits))
	}
	return token0(v, t)
}

func token0(v float64, t Type) string {
	switch {
	case t.Integer():
		return strconv.FormatInt(int64(v), 10)
	case t == Float:
		return strconv.FormatFloat(float64(float32(v)), 'g', -1, 32)
	}
	return strconv.FormatFloat(v, 'g', -1, 64)
}

// Encode writes the file: header per layout, body per format.
func Encode(f *File, lay Layout) []byte {
	nl := "\n"
	if lay.CRLF {
		nl = "\r\n"
	}
	var b bytes.Buffer
	for k, l := range f.headerLines() {
		b.WriteString(l + nl)
		for _, x := range lay.Extra[k] {
			b.WriteString(x + nl)
		}
	}
	var bo binary.ByteOrder = binary.LittleEndian
	if f.Format == BE {
		bo = binary.BigEndian
	}
	var scratch [8]byte
	wr := func(v float64, t Type) {
		switch t {
		case Char:
			b.WriteByte(byte(int8(v)))
		case UChar:
			b.WriteByte(byte(v))
		case Short:
			bo.PutUint16(scratch[:], uint16(int16(v)))
			b.Write(scratch[:2])
		case UShort:
			bo.PutUint16(scratch[:], uint16(v))
			b.Write(scratch[:2])
		case Int:
			bo.PutUint32(scratch[:], uint32(int32(v)))
			b.Write(scratch[:4])
		case UInt:
			bo.PutUint32(scratch[:], uint32(v))
			b.Write(scratch[:4])
		case Float:
			bo.PutUint32(scratch[:], math.Float32bits(float32(v)))
			b.Write(scratch[:4])
		case Double:
			bo.PutUint64(scratch[:], math.Float64bits(v))
			b.Write(scratch[:8])
		}
	}
	for _, e := range f.Elements {
		for _, row := range e.Rows {
			if f.Format == ASCII {
				var toks []string
				for pi, p := range e.Props {
					if p.List {
						toks = append(toks, Token(float64(len(row[pi])), p.CountType))
					}
					for _, v := range row[pi] {
						toks = append(toks, TokenStyled(v, p.Type, lay.Style))
					}
				}
				b.WriteString(strings.Join(toks, " ") + "\n")
				continue
			}
			for pi, p := range e.Props {
				if p.List {
					wr(float64(len(row[pi])), p.CountType)
				}
				for _, v := range row[pi] {
					wr(v, p.Type)
				}
			}
		}
	}
	return b.Bytes()
}

// Stored returns the value a reader obtains for v stored with type t in the given format
// (float32 image for float, exact for double and integers; ascii goes through Token).
func Stored(v float64, t Type, format string) float64 {
	if t.Integer() {
		return float64(int64(v))
	}
	if t == Float {
		return float64(float32(v))
	}
	if format == ASCII {
		x, _ := strconv.ParseFloat(Token(v, t), 64)
		return x
	}
	return v
}
