package plyref

import (
	"fmt"
	"sort"
)

// Group is one conventional property group: PLY property names → a mesh attribute.
type Group struct {
	Attr  string
	Names []string
	// Optional trailing members (alpha).
	Optional int
}

// Groups is the conventional vocabulary the properties C04/C08 name: position, normal, colour,
// texture coordinate and the gaussian-splat attributes. Attribute names are polyform's constants
// spelled out so that this package does not import the library.
var Groups = []Group{
	{Attr: "Position", Names: []string{"x", "y", "z"}},
	{Attr: "Normal", Names: []string{"nx", "ny", "nz"}},
	{Attr: "Color", Names: []string{"red", "green", "blue", "alpha"}, Optional: 1},
	{Attr: "TexCoord", Names: []string{"s", "t"}},
	{Attr: "FDC", Names: []string{"f_dc_0", "f_dc_1", "f_dc_2"}},
	{Attr: "Opacity", Names: []string{"opacity"}},
	{Attr: "Scale", Names: []string{"scale_0", "scale_1", "scale_2"}},
	{Attr: "Rotation", Names: []string{"rot_0", "rot_1", "rot_2", "rot_3"}},
}

// Attr is a per-vertex attribute described by a file.
type Attr struct {
	Name  string
	Width int
	Type  Type         // the (common) stored type of the group
	Vals  [][4]float64 // per vertex, already converted (uchar → k/255)
	// Raw holds the stored numbers before conversion.
	Raw [][4]float64
}

// Mesh is what a PLY file describes, by the specification plus the conventional vocabulary.
type Mesh struct {
	Topo   string // "point" (no face element) | "tri"
	NVerts int
	Attrs  []Attr // sorted by name
	// Tris are the fan triangles of the face element in order; Idx is their flattening
	// (identity over all vertices for a point cloud).
	Tris [][3]int
	Idx  []int
	// HasUV: the face element carries a texcoord list; UV[t][c] is corner c of triangle t.
	HasUV bool
	UV    [][3][2]float64
	// Outside the supported grammar (each a reason): mixed types inside a group, partial groups,
	// unsupported vertex types, list property on the vertex element, face problems.
	Unsupported []string
}

func (m *Mesh) Attr(name string) *Attr {
	for i := range m.Attrs {
		if m.Attrs[i].Name == name {
			return &m.Attrs[i]
		}
	}
	return nil
}

// Convert maps a stored number to the attribute value: 8-bit unsigned values are fractions of 255.
func Convert(v float64, t Type) float64 {
	if t == UChar {
		return v / 255
	}
	return v
}

// Describe interprets a parsed (or to-be-encoded) file.
func Describe(f *File) *Mesh {
	m := &Mesh{Topo: "point"}
	ve := f.Element("vertex")
	if ve == nil {
		m.Unsupported = append(m.Unsupported, "no vertex element")
		return m
	}
	m.NVerts = ve.Count
	col := map[string]int{}
	for i, p := range ve.Props {
		if p.List {
			m.Unsupported = append(m.Unsupported, "list property on the vertex element")
			return m
		}
		switch p.Type {
		case UChar, Int, Float, Double:
		default:
			m.Unsupported = append(m.Unsupported, "vertex property type "+p.Type.String())
		}
		col[p.Name] = i
	}
	claimed := map[string]bool{}
	mk := func(name string, cols []int, t Type) Attr {
		a := Attr{Name: name, Width: len(cols), Type: t, Vals: make([][4]float64, ve.Count), Raw: make([][4]float64, ve.Count)}
		for r := 0; r < ve.Count && r < len(ve.Rows); r++ {
			for k, c := range cols {
				a.Raw[r][k] = ve.Rows[r][c][0]
				a.Vals[r][k] = Convert(ve.Rows[r][c][0], t)
			}
		}
		return a
	}
	for _, g := range Groups {
		var cols []int
		present := 0
		for _, n := range g.Names {
			if c, ok := col[n]; ok {
				present++
				cols = append(cols, c)
			}
		}
		if present == 0 {
			continue
		}
		need := len(g.Names) - g.Optional
		complete := true
		for k := 0; k < need; k++ {
			if _, ok := col[g.Names[k]]; !ok {
				complete = false
			}
		}
		if !complete {
			m.Unsupported = append(m.Unsupported, "partial group "+g.Attr)
			continue
		}
		t := ve.Props[cols[0]].Type
		mixed := false
		for _, c := range cols {
			if ve.Props[c].Type != t {
				mixed = true
			}
		}
		if mixed {
			m.Unsupported = append(m.Unsupported, "mixed types inside group "+g.Attr)
			continue
		}
		for _, c := range cols {
			claimed[ve.Props[c].Name] = true
		}
		m.Attrs = append(m.Attrs, mk(g.Attr, cols, t))
	}
	for i, p := range ve.Props {
		if !claimed[p.Name] {
			m.Attrs = append(m.Attrs, mk(p.Name, []int{i}, p.Type))
		}
	}
	sort.Slice(m.Attrs, func(i, j int) bool { return m.Attrs[i].Name < m.Attrs[j].Name })

	fe := f.Element("face")
	if fe == nil {
		m.Idx = make([]int, ve.Count)
		for i := range m.Idx {
			m.Idx[i] = i
		}
		return m
	}
	m.Topo = "tri"
	ip, tp := -1, -1
	for i, p := range fe.Props {
		if !p.List {
			m.Unsupported = append(m.Unsupported, "scalar property on the face element")
			return m
		}
		if p.Name == "vertex_indices" || p.Name == "vertex_index" {
			ip = i
		}
		if p.Name == "texcoord" {
			tp = i
		}
	}
	if ip < 0 {
		m.Unsupported = append(m.Unsupported, "face element without an index list")
		return m
	}
	m.HasUV = tp >= 0
	for r, row := range fe.Rows {
		ix := row[ip]
		if len(ix) != 3 && len(ix) != 4 {
			m.Unsupported = append(m.Unsupported, fmt.Sprintf("face %d has %d vertices", r, len(ix)))
			return m
		}
		for _, v := range ix {
			if v < 0 || int(v) >= ve.Count {
				m.Unsupported = append(m.Unsupported, fmt.Sprintf("face %d refers to vertex %v of %d", r, v, ve.Count))
				return m
			}
		}
		var uv [][2]float64
		if tp >= 0 {
			if len(row[tp]) != 2*len(ix) {
				m.Unsupported = append(m.Unsupported, fmt.Sprintf("face %d has %d texcoord numbers for %d vertices", r, len(row[tp]), len(ix)))
				return m
			}
			for k := 0; k < len(ix); k++ {
				uv = append(uv, [2]float64{row[tp][2*k], row[tp][2*k+1]})
			}
		}
		// fan over the listed vertices: (0,1,2) then (0,2,3)
		for k := 1; k+1 < len(ix); k++ {
			m.Tris = append(m.Tris, [3]int{int(ix[0]), int(ix[k]), int(ix[k+1])})
			m.Idx = append(m.Idx, int(ix[0]), int(ix[k]), int(ix[k+1]))
			if tp >= 0 {
				m.UV = append(m.UV, [3][2]float64{uv[0], uv[k], uv[k+1]})
			}
		}
	}
	return m
}

// ---------------------------------------------------------------------------------------------
// per-corner tables (what C04's statement compares)
// ---------------------------------------------------------------------------------------------

// CAttr is one attribute as a per-corner table.
type CAttr struct {
	Width int
	Vals  [][4]float64
}

// Corners is a mesh seen as "topology, primitive count, attribute tuple of every primitive corner".
type Corners struct {
	Topo  string
	Prims int
	N     int // corners
	Attrs map[string]*CAttr
}

// Corners of the mesh a file describes: per-vertex attributes through the indices, TexCoord from
// the face list where present (it overrides vertex s,t — per-corner data is the more specific).
func (m *Mesh) Corners() *Corners {
	c := &Corners{Topo: m.Topo, N: len(m.Idx), Attrs: map[string]*CAttr{}}
	if m.Topo == "tri" {
		c.Prims = len(m.Idx) / 3
	} else {
		c.Prims = len(m.Idx)
	}
	for _, a := range m.Attrs {
		ca := &CAttr{Width: a.Width, Vals: make([][4]float64, len(m.Idx))}
		for k, v := range m.Idx {
			ca.Vals[k] = a.Vals[v]
		}
		c.Attrs[a.Name] = ca
	}
	if m.HasUV {
		ca := &CAttr{Width: 2, Vals: make([][4]float64, len(m.Idx))}
		for t := range m.UV {
			for k := 0; k < 3; k++ {
				ca.Vals[3*t+k] = [4]float64{m.UV[t][k][0], m.UV[t][k][1]}
			}
		}
		c.Attrs["TexCoord"] = ca
	}
	return c
}

func (c *Corners) Names() []string {
	var s []string
	for n := range c.Attrs {
		s = append(s, n)
	}
	sort.Strings(s)
	return s
}
