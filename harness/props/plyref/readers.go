package plyref

import (
	"bufio"
	"bytes"
	"io"
	"os"

	"verif/harness/core"
)

// The kind and behaviour of the io.Reader that delivers a file is part of a reader's input space:
// type switches (fast paths for *bufio.Reader, io.ByteReader, io.Seeker …), short reads and data
// returned together with io.EOF are all legal. ReaderVariants lists the in-memory deliveries every
// file is fed through; the result must be identical to the *bytes.Reader delivery.

type ReaderVariant struct {
	Name string
	New  func(data []byte) io.Reader
}

// onlyRead exposes nothing but Read (hides ReadByte / ReadString / Seek / WriteTo / ReadAt).
type onlyRead struct{ r io.Reader }

func (o onlyRead) Read(p []byte) (int, error) { return o.r.Read(p) }

// oneByte delivers at most one byte per call.
type oneByte struct {
	data []byte
	pos  int
}

func (o *oneByte) Read(p []byte) (int, error) {
	if len(p) == 0 {
		return 0, nil
	}
	if o.pos >= len(o.data) {
		return 0, io.EOF
	}
	p[0] = o.data[o.pos]
	o.pos++
	return 1, nil
}

// eofWithData returns the final chunk together with io.EOF (allowed by the io.Reader contract).
type eofWithData struct {
	data []byte
	pos  int
}

func (e *eofWithData) Read(p []byte) (int, error) {
	if e.pos >= len(e.data) {
		return 0, io.EOF
	}
	n := copy(p, e.data[e.pos:])
	e.pos += n
	if e.pos >= len(e.data) {
		return n, io.EOF
	}
	return n, nil
}

// BaseReader is the reference delivery.
const BaseReader = "bytes.Reader"

// ReaderVariants: every delivery other than the reference one.
var ReaderVariants = []ReaderVariant{
	{"bufio.Reader", func(d []byte) io.Reader { return bufio.NewReader(bytes.NewReader(d)) }},
	{"bufio.Reader(16)", func(d []byte) io.Reader { return bufio.NewReaderSize(bytes.NewReader(d), 16) }},
	{"read-only-wrapper", func(d []byte) io.Reader { return onlyRead{bytes.NewReader(d)} }},
	{"one-byte-per-read", func(d []byte) io.Reader { return &oneByte{data: d} }},
	{"final-chunk-with-EOF", func(d []byte) io.Reader { return &eofWithData{data: d} }},
	{"bytes.Reader-behind-7-consumed-bytes", func(d []byte) io.Reader { return core.Positioned(d, 7) }},
}

// ShmDir is where temp files for the *os.File delivery go ("" when /dev/shm is absent).
func ShmDir() string {
	if st, err := os.Stat("/dev/shm"); err == nil && st.IsDir() {
		return "/dev/shm"
	}
	return ""
}

// TempFile writes data to a fresh temp file under ShmDir and returns its path ("" if impossible).
func TempFile(data []byte) string {
	dir := ShmDir()
	if dir == "" {
		return ""
	}
	f, err := os.CreateTemp(dir, "verif-ply-*.ply")
	if err != nil {
		return ""
	}
	_, werr := f.Write(data)
	cerr := f.Close()
	if werr != nil || cerr != nil {
		os.Remove(f.Name())
		return ""
	}
	return f.Name()
}
