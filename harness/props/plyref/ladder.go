package plyref

import "sort"

// Ladder returns the size ladder: around every power of two 2^k (kmin ≤ k ≤ kmax) the counts
// 2^k-1, 2^k, 2^k+1 and one count in between two rungs (3·2^(k-1)+1, never a multiple of a power
// of two > 1), ascending, without duplicates. A threshold or block size a change introduces
// (chunks of 1<<12, 1<<14 …) is straddled by some rung.
func Ladder(kmin, kmax int) []int {
	seen := map[int]bool{}
	var out []int
	add := func(n int) {
		if n > 0 && !seen[n] {
			seen[n] = true
			out = append(out, n)
		}
	}
	for k := kmin; k <= kmax; k++ {
		p := 1 << k
		add(p - 1)
		add(p)
		add(p + 1)
		add(p + p/2 + 1)
	}
	sort.Ints(out)
	return out
}
