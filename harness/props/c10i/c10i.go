// Package c10i: C10 layer (i) — partition arithmetic of the parallel mesh entry points, exhaustive
// over every element count × every pool size (plain build, free-running goroutines; the oracle is
// schedule-independent: a mutex-guarded visit table). Built inside the instrumented -race binary so
// that a panic inside a worker goroutine is captured (vsched.CaptureFreePanics) instead of killing
// the explorer, and so that the same bodies double as the supplementary free-running race pass.
package c10i

import (
	"encoding/json"
	"fmt"
	"math"
	"strings"
	"sync"

	"github.com/EliCDavis/polyform/modeling"
	"github.com/EliCDavis/polyform/verifrt/vsched"
	"github.com/EliCDavis/vector/vector2"
	"github.com/EliCDavis/vector/vector3"

	"verif/harness/core"
	"verif/harness/schedlib"
)

var raceLog *schedlib.RaceLog

var mu sync.Mutex // guards the visit tables of the callbacks

func init() { core.Register(core.Check{ID: "C10i", Run: run, Replay: replay}) }

type Case struct {
	Entry string `json:"entry"`
	N     int    `json:"n"`
	Pool  int    `json:"pool"`
}

var entries = []string{
	"ScanPrimitivesParallel/point", "ScanPrimitivesParallel/triangle", "ScanPrimitivesParallel/linestrip",
	"ScanFloat3AttributeParallel", "ScanFloat2AttributeParallel", "ScanFloat1AttributeParallel",
	"ModifyFloat3AttributeParallel", "ModifyFloat2AttributeParallel", "ModifyFloat1AttributeParallel",
}

func run(c *core.Ctx) {
	maxN, maxPool := 40, 17
	if c.Thorough() {
		maxN, maxPool = 130, 33
	}
	raceLog = schedlib.NewRaceLog()
	c.Bound("free_running_race_detector", raceLog.On)
	c.Bound("element_count_max", maxN)
	c.Bound("pool_size_max", maxPool)
	for _, e := range entries {
		for n := 0; n <= maxN; n++ {
			if !c.Next() {
				continue
			}
			for pool := 1; pool <= maxPool; pool++ {
				one(c, Case{e, n, pool})
			}
		}
	}
	for _, e := range reindexed {
		for n := 1; n <= maxN; n++ {
			if !c.Next() {
				continue
			}
			for pool := 1; pool <= maxPool; pool++ {
				oneReindexed(c, Case{e, n, pool})
			}
		}
	}
	workers := []int{2, 3, 4}
	if c.Thorough() {
		workers = []int{1, 2, 3, 4, 5, 8}
	}
	c.Bound("canvas_placements", fmt.Sprintf("box 2.6x2.2x1.8 at %d centres (x 2.5..8.5 step 0.3, y in %v, z in %v; block edge 6: block boundary at 6, last sample plane 5) x workers %v x %v", numPlacements(), sweepY, sweepZ, workers, canvasEntries))
	for _, e := range canvasEntries {
		for k := 0; k < numPlacements(); k++ {
			if !c.Next() {
				continue
			}
			for _, w := range workers {
				oneCanvas(c, Case{e, k, w})
				oneCanvas(c, Case{e, k, -w}) // the same box clipped by a smaller domain
			}
		}
	}
	var ln []string
	for _, b := range longBoxes {
		ln = append(ln, b.name)
	}
	c.Bound("canvas_many_blocks", fmt.Sprintf("boxes spanning %v storage blocks (block edge 6) x workers %v (processors limited to the worker count) x %v, whole and clipped by the domain", ln, workers, canvasEntries))
	for _, e := range canvasEntries {
		for k := range longBoxes {
			for _, w := range workers {
				if !c.Next() {
					continue
				}
				oneCanvas(c, Case{e, longBase + k, w})
				oneCanvas(c, Case{e, longBase + k, -w})
			}
		}
	}
}

func data(n int) ([]vector3.Float64, []vector2.Float64, []float64) {
	v3 := make([]vector3.Float64, n)
	v2 := make([]vector2.Float64, n)
	v1 := make([]float64, n)
	for i := range v3 {
		v3[i] = vector3.New(float64(i)+0.25, 1, 2)
		v2[i] = vector2.New(float64(i)+0.25, 1)
		v1[i] = float64(i) + 0.25
	}
	return v3, v2, v1
}

// one executes one (entry, n, pool) configuration: n is the number of *elements* the entry scans
// (primitives for the primitive scans, vertices for attribute scans).
func one(c *core.Ctx, cs Case) {
	n, pool := cs.N, cs.Pool
	visits := make([]int, n)
	outOfRange, wrongValue := -1, -1
	visit := func(i int, ok bool) {
		mu.Lock()
		defer mu.Unlock()
		if i < 0 || i >= n {
			outOfRange = i
			return
		}
		visits[i]++
		if !ok {
			wrongValue = i
		}
	}
	var resultBad string
	vsched.CaptureFreePanics(true)
	g := core.Guard(func() {
		switch cs.Entry {
		case "ScanPrimitivesParallel/point":
			v3, v2, v1 := data(n)
			if n == 0 {
				m := modeling.EmptyPointcloud()
				m.ScanPrimitivesParallelWithPoolSize(pool, func(i int, p modeling.Primitive) { visit(i, true) })
				return
			}
			m := modeling.NewPointCloud(nil, map[string][]vector3.Float64{"Position": v3}, map[string][]vector2.Float64{"uv": v2}, map[string][]float64{"w": v1}, nil)
			m.ScanPrimitivesParallelWithPoolSize(pool, func(i int, p modeling.Primitive) {
				visit(i, p.BoundingBox("Position").Center().X() == float64(i)+0.25)
			})
		case "ScanPrimitivesParallel/triangle":
			v3, _, _ := data(3*n + 1)
			idx := make([]int, 3*n)
			for i := range idx {
				idx[i] = i
			}
			m := modeling.NewTriangleMesh(idx).SetFloat3Attribute("Position", v3)
			m.ScanPrimitivesParallelWithPoolSize(pool, func(i int, p modeling.Primitive) {
				// triangle i spans x in [3i+.25, 3i+2.25]
				visit(i, p.BoundingBox("Position").Center().X() == float64(3*i)+1.25)
			})
		case "ScanPrimitivesParallel/linestrip":
			if n == 0 {
				return // a line strip needs two points; PrimitiveCount of a shorter strip is not defined
			}
			v3, _, _ := data(n + 1)
			m := modeling.NewLineStripMesh(map[string][]vector3.Float64{"Position": v3}, nil, nil, nil)
			m.ScanPrimitivesParallelWithPoolSize(pool, func(i int, p modeling.Primitive) {
				visit(i, p.BoundingBox("Position").Center().X() == float64(i)+0.75)
			})
		default:
			if n == 0 {
				return // empty attributes are stripped by the constructors: nothing to scan
			}
			v3, v2, v1 := data(n)
			m := modeling.NewPointCloud(nil, map[string][]vector3.Float64{"Position": v3}, map[string][]vector2.Float64{"uv": v2}, map[string][]float64{"w": v1}, nil)
			switch cs.Entry {
			case "ScanFloat3AttributeParallel":
				m.ScanFloat3AttributeParallelWithPoolSize("Position", pool, func(i int, v vector3.Float64) { visit(i, v == v3[i]) })
			case "ScanFloat2AttributeParallel":
				m.ScanFloat2AttributeParallelWithPoolSize("uv", pool, func(i int, v vector2.Float64) { visit(i, v == v2[i]) })
			case "ScanFloat1AttributeParallel":
				m.ScanFloat1AttributeParallelWithPoolSize("w", pool, func(i int, v float64) { visit(i, v == v1[i]) })
			case "ModifyFloat3AttributeParallel":
				f := func(i int, v vector3.Float64) vector3.Float64 { return v.Scale(2).Add(vector3.New(0., float64(i), 0.)) }
				par := m.ModifyFloat3AttributeParallelWithPoolSize("Position", pool, func(i int, v vector3.Float64) vector3.Float64 { visit(i, v == v3[i]); return f(i, v) })
				seq := m.ModifyFloat3Attribute("Position", f)
				a, b := par.Float3Attribute("Position"), seq.Float3Attribute("Position")
				for i := 0; i < n; i++ {
					if a.Len() != b.Len() || a.At(i) != b.At(i) {
						resultBad = fmt.Sprintf("element %d: parallel %v sequential %v", i, a.At(i), b.At(i))
						break
					}
				}
			case "ModifyFloat2AttributeParallel":
				f := func(i int, v vector2.Float64) vector2.Float64 { return v.Scale(2).Add(vector2.New(0., float64(i))) }
				par := m.ModifyFloat2AttributeParallelWithPoolSize("uv", pool, func(i int, v vector2.Float64) vector2.Float64 { visit(i, v == v2[i]); return f(i, v) })
				seq := m.ModifyFloat2Attribute("uv", f)
				a, b := par.Float2Attribute("uv"), seq.Float2Attribute("uv")
				for i := 0; i < n; i++ {
					if a.Len() != b.Len() || a.At(i) != b.At(i) {
						resultBad = fmt.Sprintf("element %d: parallel %v sequential %v", i, a.At(i), b.At(i))
						break
					}
				}
			case "ModifyFloat1AttributeParallel":
				f := func(i int, v float64) float64 { return v*2 + float64(i) }
				par := m.ModifyFloat1AttributeParallelWithPoolSize("w", pool, func(i int, v float64) float64 { visit(i, v == v1[i]); return f(i, v) })
				seq := m.ModifyFloat1Attribute("w", f)
				a, b := par.Float1Attribute("w"), seq.Float1Attribute("w")
				for i := 0; i < n; i++ {
					if a.Len() != b.Len() || math.Float64bits(a.At(i)) != math.Float64bits(b.At(i)) {
						resultBad = fmt.Sprintf("element %d: parallel %v sequential %v", i, a.At(i), b.At(i))
						break
					}
				}
			}
		}
	})
	site := "modeling.Mesh." + cs.Entry
	if i := len(cs.Entry); i > 0 {
		for k, ch := range cs.Entry {
			if ch == '/' {
				site = "modeling.Mesh." + cs.Entry[:k]
			}
		}
	}
	site += "WithPoolSize"
	class := classify(cs)
	outcome := "ok"
	fail := func(clause, detail string) {
		outcome = "mismatch"
		c.Violate(core.Violation{Site: site, Clause: clause, Class: class, Detail: fmt.Sprintf("%s n=%d pool=%d: %s", cs.Entry, n, pool, detail), Case: cs})
	}
	workerPanics := vsched.TakeFreePanics()
	switch {
	case len(workerPanics) > 0:
		fail("the parallel entry point produces the result of its sequential counterpart", fmt.Sprintf("worker goroutine panicked: %v", workerPanics))
	case g.Panicked:
		fail("the parallel entry point produces the result of its sequential counterpart", "panicked: "+g.Msg)
	case outOfRange >= 0 || outOfRange < -1:
		fail("every element is visited exactly once with its own index", fmt.Sprintf("callback received index %d outside [0,%d)", outOfRange, n))
	default:
		for i, v := range visits {
			if v != 1 {
				fail("every element is visited exactly once with its own index", fmt.Sprintf("element %d visited %d times (visits=%v)", i, v, trunc(visits)))
				break
			}
		}
		if outcome == "ok" && wrongValue >= 0 {
			fail("every element is visited exactly once with its own index", fmt.Sprintf("callback for index %d received another element's value", wrongValue))
		}
		if outcome == "ok" && resultBad != "" {
			fail("the output values are identical to the sequential counterpart's", resultBad)
		}
	}
	if raceLog != nil {
		if rep := raceLog.New(); rep != "" {
			rsite, sum := schedlib.RaceSite(rep)
			outcome += "+race"
			c.Violate(core.Violation{Site: rsite, Clause: "free of data races whenever the user callback is", Class: "race/free-running", Detail: sum, Case: cs})
		}
	}
	c.Eval(cs.Entry, outcome)
	if n > 0 && pool > 1 {
		c.Nontrivial(cs.Entry, n, pool)
	}
	c.Sample(cs.Entry, cs)
}

func trunc(v []int) []int {
	if len(v) > 24 {
		return v[:24]
	}
	return v
}

// classify names the partition shape of a configuration.
func classify(cs Case) string {
	switch {
	case cs.Pool == 1:
		return "pool=1"
	case cs.N < cs.Pool:
		return "fewer-elements-than-workers"
	case cs.N%cs.Pool == 0:
		return "count-divisible-by-pool"
	}
	return "count-not-divisible-by-pool"
}

func replay(c *core.Ctx) {
	var cs Case
	if err := json.Unmarshal(c.Replay, &cs); err != nil {
		c.HarnessError("bad case: %v", err)
		return
	}
	raceLog = schedlib.NewRaceLog()
	switch {
	case strings.HasPrefix(cs.Entry, "canvas/"):
		oneCanvas(c, cs)
	case strings.HasSuffix(cs.Entry, "-reindexed"):
		oneReindexed(c, cs)
	default:
		one(c, cs)
	}
}
