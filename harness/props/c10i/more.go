package c10i

// Further configuration dimensions of layer (i), all schedule-independent (free-running goroutines,
// the oracle is the sequential counterpart):
//
//   re-indexed scans — the primitive scans on meshes whose index buffer is not the identity (a
//     selection / reordering): the primitive handed to the callback for index i must be the one the
//     sequential ScanPrimitives hands out for i, not "vertex i";
//   canvas placements — AddField / AddFieldParallel / AddFieldParallel2 followed by MarchParallel
//     against AddField + March for a box swept across the block boundaries (block edge 6 in this
//     binary): every position of its low and high faces relative to the last sample plane of one
//     block and the first of the next, in one, two and three axes.

import (
	"runtime"
	"fmt"
	"math"
	"sort"
	"strings"

	"github.com/EliCDavis/polyform/math/geometry"
	"github.com/EliCDavis/polyform/math/sample"
	"github.com/EliCDavis/polyform/math/sdf"
	"github.com/EliCDavis/polyform/modeling"
	"github.com/EliCDavis/polyform/modeling/marching"
	"github.com/EliCDavis/polyform/verifrt/vchoice"
	"github.com/EliCDavis/polyform/verifrt/vsched"
	"github.com/EliCDavis/vector/vector3"

	"verif/harness/core"
	"verif/harness/schedlib"
)

var reindexed = []string{"ScanPrimitivesParallel/point-reindexed", "ScanPrimitivesParallel/triangle-reindexed", "ScanPrimitivesParallel/linestrip-reindexed"}

// reindexedMesh: n primitives over a vertex table in an order that is not the identity (reversed,
// with every third element swapped with its neighbour), plus unreferenced vertices.
func reindexedMesh(entry string, n int) (modeling.Mesh, bool) {
	perm := func(k int) []int {
		p := make([]int, k)
		for i := range p {
			p[i] = k - 1 - i
		}
		for i := 0; i+1 < k; i += 3 {
			p[i], p[i+1] = p[i+1], p[i]
		}
		return p
	}
	switch entry {
	case "ScanPrimitivesParallel/point-reindexed":
		if n == 0 {
			return modeling.Mesh{}, false
		}
		v3, _, _ := data(n + 2)
		return modeling.NewMesh(modeling.PointTopology, perm(n)).SetFloat3Attribute("Position", v3), true
	case "ScanPrimitivesParallel/triangle-reindexed":
		if n == 0 {
			return modeling.Mesh{}, false
		}
		v3, _, _ := data(3*n + 2)
		var idx []int
		for _, t := range perm(n) {
			idx = append(idx, 3*t+2, 3*t, 3*t+1)
		}
		return modeling.NewTriangleMesh(idx).SetFloat3Attribute("Position", v3), true
	case "ScanPrimitivesParallel/linestrip-reindexed":
		if n == 0 {
			return modeling.Mesh{}, false
		}
		v3, _, _ := data(n + 3)
		return modeling.NewMesh(modeling.LineStripTopology, perm(n+1)).SetFloat3Attribute("Position", v3), true
	}
	return modeling.Mesh{}, false
}

func primKey(p modeling.Primitive) string {
	b := p.BoundingBox("Position")
	return fmt.Sprint(b.Min(), b.Max())
}

func oneReindexed(c *core.Ctx, cs Case) {
	m, ok := reindexedMesh(cs.Entry, cs.N)
	if !ok {
		return
	}
	n := m.PrimitiveCount()
	want := make([]string, n)
	m.ScanPrimitives(func(i int, p modeling.Primitive) { want[i] = primKey(p) })
	got := make([]string, n)
	kept := make([]modeling.Primitive, n) // ScanPrimitives lets the callback keep what it is handed
	visits := make([]int, n)
	bad := -1
	vsched.CaptureFreePanics(true)
	g := core.Guard(func() {
		m.ScanPrimitivesParallelWithPoolSize(cs.Pool, func(i int, p modeling.Primitive) {
			k := primKey(p)
			mu.Lock()
			defer mu.Unlock()
			if i < 0 || i >= n {
				bad = i
				return
			}
			visits[i]++
			got[i] = k
			kept[i] = p
		})
	})
	keptBad := ""
	if !g.Panicked {
		core.Guard(func() {
			for i, p := range kept {
				if p != nil && visits[i] == 1 && primKey(p) != want[i] {
					keptBad = fmt.Sprintf("the primitive kept for index %d spans %s after the scan, ScanPrimitives' primitive %s", i, primKey(p), want[i])
					return
				}
			}
		})
	}
	site := "modeling.Mesh.ScanPrimitivesParallelWithPoolSize"
	class := classify(cs) + "/non-identity-indices"
	outcome := "ok"
	fail := func(clause, detail string) {
		outcome = "mismatch"
		c.Violate(core.Violation{Site: site, Clause: clause, Class: class, Detail: fmt.Sprintf("%s n=%d pool=%d: %s", cs.Entry, cs.N, cs.Pool, detail), Case: cs})
	}
	workerPanics := vsched.TakeFreePanics()
	switch {
	case len(workerPanics) > 0:
		fail("the parallel entry point produces the result of its sequential counterpart", fmt.Sprintf("worker goroutine panicked: %v", workerPanics))
	case g.Panicked:
		fail("the parallel entry point produces the result of its sequential counterpart", "panicked: "+g.Msg)
	case bad != -1:
		fail("every element is visited exactly once with its own index", fmt.Sprintf("callback received index %d outside [0,%d)", bad, n))
	default:
		for i := range want {
			if visits[i] != 1 {
				fail("every element is visited exactly once with its own index", fmt.Sprintf("element %d visited %d times", i, visits[i]))
				break
			}
			if got[i] != want[i] {
				fail("every element is visited exactly once with its own index", fmt.Sprintf("the primitive handed out for index %d spans %s, ScanPrimitives hands out %s", i, got[i], want[i]))
				break
			}
		}
		if outcome == "ok" && keptBad != "" {
			fail("every element is visited exactly once with its own index", keptBad)
		}
	}
	raceAndCount(c, cs, outcome, n > 0 && cs.Pool > 1)
}

func raceAndCount(c *core.Ctx, cs Case, outcome string, nontrivial bool) {
	if raceLog != nil {
		if rep := raceLog.New(); rep != "" {
			rsite, sum := schedlib.RaceSite(rep)
			outcome += "+race"
			c.Violate(core.Violation{Site: rsite, Clause: "free of data races whenever the user callback is", Class: "race/free-running", Detail: sum, Case: cs})
		}
	}
	c.Eval(cs.Entry, outcome)
	if nontrivial {
		c.Nontrivial(cs.Entry, cs.N, cs.Pool)
	}
	c.Sample(cs.Entry, cs)
}

// ---- canvas placements ------------------------------------------------------------------------

var canvasEntries = []string{"canvas/AddField+MarchParallel", "canvas/AddFieldParallel+MarchParallel", "canvas/AddFieldParallel2+MarchParallel"}

var (
	sweepX = func() (o []float64) {
		for k := 0; k <= 20; k++ {
			o = append(o, 2.5+0.3*float64(k))
		}
		return
	}()
	sweepY = []float64{2.5, 5.4, 6.7}
	sweepZ = []float64{2.5, 6.7}
)

func numPlacements() int { return len(sweepX) * len(sweepY) * len(sweepZ) }

func placement(k int) vector3.Float64 {
	x := sweepX[k%len(sweepX)]
	k /= len(sweepX)
	y := sweepY[k%len(sweepY)]
	k /= len(sweepY)
	return vector3.New(x, y, sweepZ[k%len(sweepZ)])
}

// boxField: the box with a domain that holds it (pool >= 0) or — "clipped", encoded as a negative
// worker count in the case — with a domain smaller than the box, so that the field is still inside
// on the last sampled plane of its domain.
func boxField(pos vector3.Float64, clipped bool) marching.Field {
	dom := vector3.New(3., 3., 3.)
	if clipped {
		dom = vector3.New(2., 1.6, 1.2)
	}
	return marching.Field{
		Domain:          geometry.NewAABB(pos, dom),
		Float1Functions: map[string]sample.Vec3ToFloat{modeling.PositionAttribute: sdf.Box(pos, vector3.New(2.6, 2.2, 1.8))},
	}
}

func triMultiset(m modeling.Mesh) (string, int) {
	if m.Topology() != modeling.TriangleTopology || !m.HasFloat3Attribute(modeling.PositionAttribute) {
		return fmt.Sprintf("topology=%v prims=%d", m.Topology(), m.Indices().Len()/3), 0
	}
	pos := m.Float3Attribute(modeling.PositionAttribute)
	idx := m.Indices()
	var tris []string
	for i := 0; i+2 < idx.Len(); i += 3 {
		var v [3][3]int64
		for k := 0; k < 3; k++ {
			p := pos.At(idx.At(i + k))
			v[k] = [3]int64{int64(math.Round(p.X() * 1e6)), int64(math.Round(p.Y() * 1e6)), int64(math.Round(p.Z() * 1e6))}
		}
		best := 0
		for k := 1; k < 3; k++ {
			for a := 0; a < 3; a++ {
				if v[k][a] != v[best][a] {
					if v[k][a] < v[best][a] {
						best = k
					}
					break
				}
			}
		}
		tris = append(tris, fmt.Sprint(v[best], v[(best+1)%3], v[(best+2)%3]))
	}
	sort.Strings(tris)
	return strings.Join(tris, ";"), len(tris)
}

func oneCanvas(c *core.Ctx, cs Case) {
	clipped := cs.Pool < 0 // the case keeps the sign (replay), the code below uses `workers`
	workers := cs.Pool
	if workers < 0 {
		workers = -workers
	}
	pos := placement(cs.N)
	f := boxField(pos, clipped)
	long := cs.N >= longBase
	if long {
		// more storage blocks than workers: the number of OS-level processors is set to the worker
		// count as well (a CPU-limited machine), whichever of the two the pool is sized from
		f, pos = longField(cs.N-longBase, clipped)
		defer runtime.GOMAXPROCS(runtime.GOMAXPROCS(workers))
	}
	seq := marching.NewMarchingCanvas(1)
	seq.AddField(f)
	var wantKey string
	var wantN int
	if g := core.Guard(func() { wantKey, wantN = triMultiset(seq.March(0)) }); g.Panicked {
		c.HarnessError("sequential march of the box at %v failed: %s", pos, g.Msg)
		return
	}
	vchoice.SetNumCPU(workers)
	defer vchoice.SetNumCPU(0)
	var gotKey string
	var gotN int
	vsched.CaptureFreePanics(true)
	g := core.Guard(func() {
		cv := marching.NewMarchingCanvas(1)
		switch cs.Entry {
		case "canvas/AddField+MarchParallel":
			cv.AddField(f)
		case "canvas/AddFieldParallel+MarchParallel":
			cv.AddFieldParallel(f)
		case "canvas/AddFieldParallel2+MarchParallel":
			cv.AddFieldParallel2(f)
		}
		gotKey, gotN = triMultiset(cv.MarchParallel(0))
	})
	outcome := "ok"
	site := "marching.MarchingCanvas." + strings.ReplaceAll(strings.TrimPrefix(cs.Entry, "canvas/"), "+", "/")
	class := "canvas-placement/" + boundaryClass(pos)
	if long {
		class = "canvas-many-blocks/" + longBoxes[cs.N-longBase].name
	}
	if clipped {
		class += "/field-clipped-by-its-domain"
	}
	fail := func(detail string) {
		outcome = "mismatch"
		c.Violate(core.Violation{Site: site, Clause: "the parallel variant produces the same triangle multiset as its sequential counterpart", Class: class,
			Detail: fmt.Sprintf("%s, box centre %v, %d workers, clipped=%v: %s", cs.Entry, pos, workers, clipped, detail), Case: cs})
	}
	workerPanics := vsched.TakeFreePanics()
	switch {
	case len(workerPanics) > 0:
		fail(fmt.Sprintf("worker goroutine panicked: %v", workerPanics))
	case g.Panicked:
		fail("panicked: " + g.Msg)
	case gotKey != wantKey:
		fail(fmt.Sprintf("parallel pipeline yields %d triangles, AddField + March %d (or differing vertices)", gotN, wantN))
	}
	raceAndCount(c, cs, outcome, wantN > 0 && workers > 1)
}

// ---- boxes that span many storage blocks (block edge 6) ------------------------------------------

const longBase = 1000

var longBoxes = []struct {
	name   string
	lo, hi [3]float64
}{
	{"3-blocks-in-x", [3]float64{2.3, 2.3, 2.3}, [3]float64{15.7, 4.1, 3.9}},
	{"5-blocks-in-x", [3]float64{2.3, 2.3, 2.3}, [3]float64{27.7, 4.1, 3.9}},
	{"7-blocks-in-x", [3]float64{2.3, 2.3, 2.3}, [3]float64{39.7, 4.1, 3.9}},
	{"5-blocks-in-x-across-zero", [3]float64{-8.7, 2.3, 2.3}, [3]float64{15.7, 4.1, 3.9}},
	{"3x2-blocks", [3]float64{2.3, 2.3, 2.3}, [3]float64{15.7, 9.1, 3.9}},
	{"3x3-blocks", [3]float64{2.3, 2.3, 2.3}, [3]float64{15.7, 15.1, 3.9}},
	{"3x3x2-blocks", [3]float64{2.3, 2.3, 2.3}, [3]float64{15.7, 15.1, 8.9}},
	{"3x3x3-blocks", [3]float64{2.3, 2.3, 2.3}, [3]float64{15.7, 15.1, 14.9}},
	{"5-blocks-in-z", [3]float64{2.3, 2.3, 2.3}, [3]float64{4.1, 3.9, 27.7}},
}

func longField(k int, clipped bool) (marching.Field, vector3.Float64) {
	b := longBoxes[k]
	lo, hi := vector3.New(b.lo[0], b.lo[1], b.lo[2]), vector3.New(b.hi[0], b.hi[1], b.hi[2])
	pos, size := lo.Add(hi).Scale(0.5), hi.Sub(lo)
	dom := size.Add(vector3.Fill(0.8))
	if clipped {
		dom = size.Sub(vector3.Fill(0.6))
	}
	return marching.Field{
		Domain:          geometry.NewAABB(pos, dom),
		Float1Functions: map[string]sample.Vec3ToFloat{modeling.PositionAttribute: sdf.Box(pos, size)},
	}, pos
}

// boundaryClass: in how many axes the box (half extents 1.3, 1.1, 0.9) straddles the plane 6 between
// the first two blocks, or has a face strictly between the sample planes 5 and 6.
func boundaryClass(pos vector3.Float64) string {
	half := [3]float64{1.3, 1.1, 0.9}
	p := [3]float64{pos.X(), pos.Y(), pos.Z()}
	straddle, between := 0, 0
	for a := 0; a < 3; a++ {
		lo, hi := p[a]-half[a], p[a]+half[a]
		if lo < 6 && hi > 6 {
			straddle++
		}
		if (lo > 5 && lo < 6) || (hi > 5 && hi < 6) {
			between++
		}
	}
	return fmt.Sprintf("straddles-%d-axes/face-between-sample-planes-in-%d-axes", straddle, between)
}
