package c02gen

import (
	"encoding/json"
	"fmt"
	"io"
	"log"
	"math"
	"os"
	"reflect"
	"sort"
	"strings"
	"testing"
	"time"

	"github.com/EliCDavis/polyform/modeling"

	"verif/harness/core"
	"verif/harness/meshlib"
)

type outcome struct {
	kind     string // "wf", "ill-formed", "reported-failure", "crash"
	detail   string // clause / panic text
	meshes   []modeling.Mesh
	dur      time.Duration
	nonempty bool // some returned mesh has at least one primitive
}

// execute runs one case under core.Guard (the classification the consumer uses) and judges WF.
func execute(c Case) (o outcome) {
	start := time.Now()
	g := core.Guard(func() { o.meshes = Run(c) })
	o.dur = time.Since(start)
	if g.Panicked {
		o.meshes = nil
		if g.Runtime {
			o.kind, o.detail = "crash", g.Msg+" @ "+core.TopFrame(g.Stack)+"   ["+g.Stack+"]"
		} else {
			o.kind, o.detail = "reported-failure", g.Msg
		}
		return o
	}
	o.kind = "wf"
	if len(o.meshes) == 0 {
		o.kind, o.detail = "ill-formed", "no mesh returned"
	}
	for k, m := range o.meshes {
		s := meshlib.Snapshot(m)
		if s.Prims > 0 {
			o.nonempty = true
		}
		if s.PErr != "" {
			o.kind, o.detail = "ill-formed", fmt.Sprintf("mesh %d: PrimitiveCount panics: %s", k, s.PErr)
			break
		}
		if clause, detail := s.WF(); clause != "" {
			o.kind, o.detail = "ill-formed", fmt.Sprintf("mesh %d: %s (%s)", k, clause, detail)
			break
		}
	}
	return o
}

// replayHash is bit-exact for ordered generators; for the generators whose primitive order depends
// on Go map iteration inside the library it is an order-insensitive digest.
func replayHash(c Case, ms []modeling.Mesh) string {
	var parts []string
	for _, m := range ms {
		s := meshlib.Snapshot(m)
		switch {
		case !Unordered(c.Gen):
			parts = append(parts, fmt.Sprintf("%x", s.Hash()))
		case strings.HasPrefix(c.Gen, "marching."):
			parts = append(parts, fmt.Sprintf("prims=%d", s.Prims))
		default:
			pos := s.F3[modeling.PositionAttribute]
			var tris []string
			for i := 0; i+2 < len(s.Idx); i += 3 {
				tris = append(tris, fmt.Sprint(pos[s.Idx[i]], pos[s.Idx[i+1]], pos[s.Idx[i+2]]))
			}
			sort.Strings(tris)
			parts = append(parts, fmt.Sprintf("n=%d %s", len(pos), strings.Join(tris, ";")))
		}
	}
	return strings.Join(parts, "|")
}

func caseJSON(c Case) string {
	b, err := json.Marshal(c)
	if err != nil {
		return "marshal error: " + err.Error()
	}
	return string(b)
}

func TestLatticeGeneralPosition(t *testing.T) {
	type pt struct{ x, y float64 }
	var p [9]pt
	for i := range p {
		p[i].x, p[i].y = LatticePoint(0, i)
	}
	minOrient, minCirc := math.Inf(1), math.Inf(1)
	for a := 0; a < 9; a++ {
		for b := a + 1; b < 9; b++ {
			for c := b + 1; c < 9; c++ {
				o := (p[b].x-p[a].x)*(p[c].y-p[a].y) - (p[c].x-p[a].x)*(p[b].y-p[a].y)
				minOrient = math.Min(minOrient, math.Abs(o))
				for d := 0; d < 9; d++ {
					if d == a || d == b || d == c {
						continue
					}
					ax, ay := p[a].x-p[d].x, p[a].y-p[d].y
					bx, by := p[b].x-p[d].x, p[b].y-p[d].y
					cx, cy := p[c].x-p[d].x, p[c].y-p[d].y
					det := (ax*ax+ay*ay)*(bx*cy-cx*by) - (bx*bx+by*by)*(ax*cy-cx*ay) + (cx*cx+cy*cy)*(ax*by-bx*ay)
					minCirc = math.Min(minCirc, math.Abs(det))
				}
			}
		}
	}
	t.Logf("perturbed lattice: min |orient| = %.4g, min |incircle| = %.4g", minOrient, minCirc)
	if minOrient < 1e-3 || minCirc < 1e-3 {
		t.Fatalf("perturbed lattice is not in general position (orient %.3g, incircle %.3g)", minOrient, minCirc)
	}
}

func TestSurvey(t *testing.T) {
	prevLog := log.Writer()
	log.SetOutput(io.Discard) // triangulation logs from inside the library
	defer log.SetOutput(prevLog)

	quick, thorough := Cases(false), Cases(true)
	stride := 7 // C02GEN_REPLAY_ALL=1 replays every case instead of every 7th
	if os.Getenv("C02GEN_REPLAY_ALL") != "" {
		stride = 1
	}

	// ---- determinism of the enumeration
	if !reflect.DeepEqual(quick, Cases(false)) || !reflect.DeepEqual(thorough, Cases(true)) {
		t.Fatal("Cases is not deterministic")
	}
	inThorough := map[string]bool{}
	for _, c := range thorough {
		k := caseJSON(c)
		if inThorough[k] {
			t.Errorf("duplicate thorough case %s", k)
		}
		inThorough[k] = true
	}
	seenQ := map[string]bool{}
	for _, c := range quick {
		k := caseJSON(c)
		if seenQ[k] {
			t.Errorf("duplicate quick case %s", k)
		}
		seenQ[k] = true
		if !inThorough[k] {
			t.Errorf("quick case missing from thorough: %s", k)
		}
	}
	// Gen <-> Site is a function; inadmissible cases carry a reason, admissible ones none
	siteOf := map[string]string{}
	for _, c := range thorough {
		if s, ok := siteOf[c.Gen]; ok && s != c.Site {
			t.Errorf("gen %s has two sites: %s and %s", c.Gen, s, c.Site)
		}
		siteOf[c.Gen] = c.Site
		if c.Admissible != (c.Why == "") {
			t.Errorf("admissible/why mismatch: %s", caseJSON(c))
		}
	}

	for _, tier := range []struct {
		name  string
		cases []Case
	}{{"quick", quick}, {"thorough", thorough}} {
		type row struct {
			n         int
			nonempty  int
			kinds     map[string]int
			clauses   map[string]int
			fails     []string
			failCount int
		}
		rows := map[string]*row{}
		var order []string
		famTime := map[string]time.Duration{}
		famCount := map[string][2]int{}
		var famOrder []string
		var slowLines []string
		replayed := 0
		total := time.Duration(0)

		for idx, c := range tier.cases {
			o := execute(c)
			total += o.dur
			fam := Family(c.Gen)
			if _, ok := famTime[fam]; !ok {
				famOrder = append(famOrder, fam)
			}
			famTime[fam] += o.dur
			fc := famCount[fam]
			if c.Admissible {
				fc[0]++
			} else {
				fc[1]++
			}
			famCount[fam] = fc

			key := fmt.Sprintf("%-48s %-5v", c.Gen, c.Admissible)
			r := rows[key]
			if r == nil {
				r = &row{kinds: map[string]int{}, clauses: map[string]int{}}
				rows[key] = r
				order = append(order, key)
			}
			r.n++
			if o.nonempty {
				r.nonempty++
			}
			r.kinds[o.kind]++
			if o.kind == "ill-formed" {
				cl := o.detail
				if k := strings.Index(cl, " ("); k >= 0 {
					cl = cl[:k]
				}
				r.clauses[cl]++
			}
			if c.Admissible && o.kind != "wf" {
				r.failCount++
				if len(r.fails) < 3 {
					r.fails = append(r.fails, fmt.Sprintf("      %s\n        -> %s: %s", caseJSON(c), o.kind, o.detail))
				}
			}
			if fam == "marching" || o.dur > 200*time.Millisecond {
				slowLines = append(slowLines, fmt.Sprintf("    %-50s %-40s slow=%-5v %8.1f ms  %s", c.Gen, fmt.Sprint(c.I, c.F, c.B), c.Slow, float64(o.dur.Microseconds())/1000, o.kind+" "+o.detail))
				if (o.dur > 200*time.Millisecond) != c.Slow && (o.dur > 400*time.Millisecond || o.dur < 80*time.Millisecond) {
					t.Logf("note: Slow flag of %s disagrees with measured %v", caseJSON(c), o.dur)
				}
			}

			// ---- replayability: JSON round trip, stride 1/7
			if idx%stride == 0 {
				replayed++
				var back Case
				raw, err := json.Marshal(c)
				if err != nil {
					t.Fatalf("marshal %v: %v", c, err)
				}
				if err := json.Unmarshal(raw, &back); err != nil {
					t.Fatalf("unmarshal %s: %v", raw, err)
				}
				if !reflect.DeepEqual(c, back) {
					t.Errorf("case does not survive the JSON round trip: %s -> %+v", raw, back)
				}
				o2 := execute(back)
				if o.kind != o2.kind || (o.kind != "wf" && o.detail != o2.detail) {
					t.Errorf("replay of %s: outcome %s/%s -> %s/%s", raw, o.kind, o.detail, o2.kind, o2.detail)
				} else if o.kind == "wf" || o.kind == "ill-formed" {
					if h1, h2 := replayHash(c, o.meshes), replayHash(back, o2.meshes); h1 != h2 {
						t.Errorf("replay of %s gives a different mesh: %s vs %s", raw, h1, h2)
					}
				}
			}
		}

		var sb strings.Builder
		fmt.Fprintf(&sb, "\n==== tier %s: %d cases, %.2f s executing (sum of case times), %d replayed through JSON ====\n", tier.name, len(tier.cases), total.Seconds(), replayed)
		fmt.Fprintf(&sb, "%-48s %-5s %6s %6s %6s %6s %6s %6s  %s\n", "gen", "adm", "n", "wf", "ill", "report", "crash", "prims>0", "ill-formed clauses")
		for _, key := range order {
			r := rows[key]
			var cl []string
			for k, v := range r.clauses {
				cl = append(cl, fmt.Sprintf("%s x%d", k, v))
			}
			sort.Strings(cl)
			fmt.Fprintf(&sb, "%s %6d %6d %6d %6d %6d %6d  %s\n", key, r.n, r.kinds["wf"], r.kinds["ill-formed"], r.kinds["reported-failure"], r.kinds["crash"], r.nonempty, strings.Join(cl, "; "))
		}
		fmt.Fprintf(&sb, "  per family (admissible/inadmissible, wall time):\n")
		for _, f := range famOrder {
			fmt.Fprintf(&sb, "    %-14s %5d / %-5d %8.3f s\n", f, famCount[f][0], famCount[f][1], famTime[f].Seconds())
		}
		fmt.Fprintf(&sb, "  marching / slow cases:\n%s\n", strings.Join(slowLines, "\n"))
		fmt.Fprintf(&sb, "  admissible cases that are not well-formed (first 3 per gen):\n")
		any := false
		for _, key := range order {
			r := rows[key]
			if r.failCount > 0 {
				any = true
				fmt.Fprintf(&sb, "    %s: %d failing\n%s\n", strings.TrimSpace(key), r.failCount, strings.Join(r.fails, "\n"))
			}
		}
		if !any {
			fmt.Fprintf(&sb, "    none\n")
		}
		t.Log(sb.String())
	}
}
