// Package c02gen is the generator enumeration of property C02 ("every mesh returned by a geometry
// generator, for every parameterisation the generator accepts, is well-formed").
//
// It is a pure table: Cases lists replayable generator calls (full parameter grids, no sampling, no
// randomness), Run executes one of them on the real library. The explorer that consumes the table
// wraps Run in a guard, classifies panics and judges well-formedness.
//
// Notes for the consumer:
//   - triangulation.* and the marching case that straddles two blocks build their index/vertex
//     order by iterating a Go map inside the library, so the ORDER of primitives (and, for
//     ConstrainedBowyerWatson, of the appended vertices) differs between two executions of the same
//     Case. Well-formedness is unaffected. Unordered(gen) names those generators.
//   - triangulation.fillHole and ConstrainedBowyerWatson call log.Print; silence the standard
//     logger (log.SetOutput(io.Discard)) before running many cases.
//   - The material of the "quad" repeat base is one package-level *modeling.Material so that the
//     %p-based meshlib.Snap.Hash is stable inside one process.
package c02gen

import (
	"fmt"
	"image/color"
	"math"
	"strings"

	"github.com/EliCDavis/polyform/math/curves"
	"github.com/EliCDavis/polyform/math/quaternion"
	"github.com/EliCDavis/polyform/math/sample"
	"github.com/EliCDavis/polyform/math/trs"
	"github.com/EliCDavis/polyform/modeling"
	"github.com/EliCDavis/polyform/modeling/extrude"
	"github.com/EliCDavis/polyform/modeling/marching"
	"github.com/EliCDavis/polyform/modeling/primitives"
	"github.com/EliCDavis/polyform/modeling/repeat"
	"github.com/EliCDavis/polyform/modeling/triangulation"
	"github.com/EliCDavis/polyform/nodes"
	"github.com/EliCDavis/vector/vector2"
	"github.com/EliCDavis/vector/vector3"
	"github.com/EliCDavis/vector/vector4"
)

// Case is a replayable (JSON round-trippable) description of one generator call.
type Case struct {
	Gen        string    `json:"gen"`            // stable generator id, e.g. "primitives.UVSphere", "extrude.Polygon", "repeat.Mesh/Circle"
	I          []int     `json:"i,omitempty"`    // integer parameters (meaning fixed per Gen; see the tables below)
	F          []float64 `json:"f,omitempty"`    // float parameters
	B          []bool    `json:"b,omitempty"`    // flags
	Admissible bool      `json:"admissible"`     // true = inside the domain the generator documents / obviously accepts
	Why        string    `json:"why,omitempty"`  // for Admissible=false: short reason
	Site       string    `json:"site"`           // library function under test, stable name without line numbers
	Slow       bool      `json:"slow,omitempty"` // true for cases costing > ~0.2 s
}

// Family returns the family of a generator id ("primitives", "repeat", "extrude", "triangulation", "marching").
func Family(gen string) string {
	if k := strings.IndexByte(gen, '.'); k >= 0 {
		return gen[:k]
	}
	return gen
}

// Unordered reports whether the library builds the output of this generator by iterating a Go map,
// i.e. whether the order of primitives/vertices may differ between two runs of the same Case.
func Unordered(gen string) bool {
	return strings.HasPrefix(gen, "triangulation.") || gen == "marching.Canvas.March/Straddle"
}

// ---------------------------------------------------------------------------------------------
// enumeration
// ---------------------------------------------------------------------------------------------

type builder struct {
	out      []Case
	thorough bool
}

func (b *builder) add(gen, site string, why string, i []int, f []float64, fl []bool) *Case {
	b.out = append(b.out, Case{
		Gen: gen, Site: site, Admissible: why == "", Why: why,
		I: append([]int(nil), i...), F: append([]float64(nil), f...), B: append([]bool(nil), fl...),
	})
	return &b.out[len(b.out)-1]
}

// first non-empty reason
func why(rs ...string) string {
	for _, r := range rs {
		if r != "" {
			return r
		}
	}
	return ""
}

func iff(c bool, s string) string {
	if c {
		return s
	}
	return ""
}

func rng(lo, hi int) []int {
	var r []int
	for i := lo; i <= hi; i++ {
		r = append(r, i)
	}
	return r
}

func pick(thorough bool, quick, deep int) int {
	if thorough {
		return deep
	}
	return quick
}

// Cases returns the complete deterministic list for the tier, simplest/cheapest families first.
// Same order on every call. thorough ⊇ quick.
func Cases(thorough bool) []Case {
	b := &builder{thorough: thorough}
	b.primitives()
	b.packedKeys()
	b.repeat()
	b.extrude()
	b.triangulation()
	b.marching()
	return b.out
}

// ---------------------------------------------------------------------------------------------
// primitives
// ---------------------------------------------------------------------------------------------
//
//	Gen                             I                      F                     B
//	primitives.UVSphere             rows, columns          radius                -
//	primitives.UVSphereUnwelded     rows, columns          radius                -
//	primitives.Hemisphere.UV        rows, columns          radius                Capped
//	primitives.Cube.Welded          uvMode                 width, height, depth  -
//	primitives.Cube.UnweldedQuads   uvMode                 width, height, depth  -
//	    uvMode: 0 UVs=nil, 1 DefaultCubeUVs(), 2 &CubeUVs{} (all faces nil), 3 only Top, 4 only Left,
//	            5 every face but Bottom
//	primitives.UnitCube             -                      -                     -
//	primitives.Cylinder.ToMesh      sides, uvMode          height, radius        NoTop, NoBottom
//	    uvMode: 0 UVs=nil, 1+mask: &CylinderUVs with Top (mask&1), Bottom (mask&2), Side (mask&4) set
//	primitives.Circle.ToMesh        sides, uvMode          radius                -
//	    uvMode: 0 UVs=nil, 1 &CircleUVs{Center .5,.5 Radius .5}
//	primitives.Quad.ToMesh          uvMode                 width, depth          -
//	    uvMode: 0 UVs=nil, 1 horizontal strip (node default), 2 vertical narrow strip
//	primitives.Cone.ToMesh          sides                  height, radius        -
//
// Admissible: rows>=2, columns>=3 (the functions panic with an error below that; node clamps to
// 2/3), sides>=3 (Cone panics below; CircleNode default 12, ConeNode clamps to 3), sizes/radii > 0.
func (b *builder) primitives() {
	rows := append([]int{0, 1}, rng(2, pick(b.thorough, 8, 10))...)
	cols := append([]int{0, 1, 2}, rng(3, pick(b.thorough, 10, 12))...)
	if b.thorough {
		rows = append([]int{-1}, rows...)
		cols = append([]int{-1}, cols...)
	}
	sphereWhy := func(r, c int, rad float64) string {
		return why(iff(r < 2, "rows<2"), iff(c < 3, "columns<3"), iff(rad <= 0, "radius<=0"))
	}
	extraRadii := []float64{1, 2.5, 0.001, 0, -1}

	for _, gen := range []string{"primitives.UVSphere", "primitives.UVSphereUnwelded"} {
		for _, r := range rows {
			for _, c := range cols {
				b.add(gen, gen, sphereWhy(r, c, 0.5), []int{r, c}, []float64{0.5}, nil)
			}
		}
		for _, rad := range extraRadii {
			b.add(gen, gen, sphereWhy(3, 4, rad), []int{3, 4}, []float64{rad}, nil)
		}
	}
	for _, capped := range []bool{false, true} {
		gen := "primitives.Hemisphere.UV"
		for _, r := range rows {
			for _, c := range cols {
				b.add(gen, gen, sphereWhy(r, c, 0.5), []int{r, c}, []float64{0.5}, []bool{capped})
			}
		}
		for _, rad := range extraRadii {
			b.add(gen, gen, sphereWhy(3, 4, rad), []int{3, 4}, []float64{rad}, []bool{capped})
		}
	}

	// cubes
	b.add("primitives.UnitCube", "primitives.UnitCube", "", nil, nil, nil)
	cubeSizes := [][3]float64{{1, 1, 1}, {2, 0.5, 3}, {0.25, 4, 1}, {0, 1, 1}, {1, 1, 0}, {-1, 1, 1}}
	for _, gen := range []string{"primitives.Cube.Welded", "primitives.Cube.UnweldedQuads"} {
		for uv := 0; uv <= 5; uv++ {
			for _, s := range cubeSizes {
				w := why(iff(s[0] == 0 || s[1] == 0 || s[2] == 0, "zero size"), iff(s[0] < 0 || s[1] < 0 || s[2] < 0, "negative size"))
				b.add(gen, gen, w, []int{uv}, s[:], nil)
			}
		}
	}

	// quad
	quadSizes := [][2]float64{{1, 1}, {2, 0.5}, {0.1, 3}, {0, 1}, {1, 0}, {-1, 1}}
	for uv := 0; uv <= 2; uv++ {
		for _, s := range quadSizes {
			w := why(iff(s[0] == 0 || s[1] == 0, "zero size"), iff(s[0] < 0 || s[1] < 0, "negative size"))
			b.add("primitives.Quad.ToMesh", "primitives.Quad.ToMesh", w, []int{uv}, s[:], nil)
		}
	}

	sides := append([]int{0, 1, 2}, rng(3, pick(b.thorough, 12, 20))...)
	if b.thorough {
		sides = append([]int{-1}, sides...)
	}
	sidesWhy := func(s int) string { return iff(s < 3, "sides<3") }

	// circle
	for _, s := range sides {
		for uv := 0; uv <= 1; uv++ {
			b.add("primitives.Circle.ToMesh", "primitives.Circle.ToMesh", sidesWhy(s), []int{s, uv}, []float64{0.5}, nil)
		}
	}
	for _, rad := range extraRadii {
		b.add("primitives.Circle.ToMesh", "primitives.Circle.ToMesh", iff(rad <= 0, "radius<=0"), []int{5, 1}, []float64{rad}, nil)
	}

	// cone
	for _, s := range sides {
		b.add("primitives.Cone.ToMesh", "primitives.Cone.ToMesh", sidesWhy(s), []int{s}, []float64{1, 0.5}, nil)
	}
	for _, hr := range [][2]float64{{2, 0.25}, {0.001, 3}, {0, 0.5}, {1, 0}, {-1, 0.5}} {
		b.add("primitives.Cone.ToMesh", "primitives.Cone.ToMesh",
			why(iff(hr[0] == 0 || hr[1] == 0, "zero size"), iff(hr[0] < 0 || hr[1] < 0, "negative size")),
			[]int{5}, hr[:], nil)
	}

	// cylinder
	for _, s := range sides {
		for uv := 0; uv <= 8; uv++ {
			for _, noTop := range []bool{false, true} {
				for _, noBottom := range []bool{false, true} {
					b.add("primitives.Cylinder.ToMesh", "primitives.Cylinder.ToMesh", sidesWhy(s),
						[]int{s, uv}, []float64{1, 0.5}, []bool{noTop, noBottom})
				}
			}
		}
	}
	for _, hr := range [][2]float64{{2, 0.25}, {0.001, 3}, {0, 0.5}, {1, 0}, {-1, 0.5}} {
		for _, uv := range []int{0, 8} {
			b.add("primitives.Cylinder.ToMesh", "primitives.Cylinder.ToMesh",
				why(iff(hr[0] == 0 || hr[1] == 0, "zero size"), iff(hr[0] < 0 || hr[1] < 0, "negative size")),
				[]int{5, uv}, hr[:], []bool{false, false})
		}
	}

	// count ladder: counts around every power of two (a threshold, a packed key, a 16-bit id or a table
	// filled in blocks lies far above the small grids)
	kmax := pick(b.thorough, 11, 14)
	var lad []int
	for k := 5; k <= kmax; k++ {
		lad = append(lad, 1<<k-1, 1<<k, 1<<k+1, 3<<(k-1)+1)
	}
	for _, n := range lad {
		for _, gen := range []string{"primitives.UVSphere", "primitives.UVSphereUnwelded"} {
			for _, r := range []int{2, 3, 8, 9} {
				if r*n <= 40000 {
					b.add(gen, gen, "", []int{r, n}, []float64{0.5}, nil)
				}
			}
			for _, c := range []int{3, 4} {
				b.add(gen, gen, "", []int{n, c}, []float64{0.5}, nil)
			}
		}
		for _, rc := range [][2]int{{3, n}, {8, n}, {9, n}, {n, 4}} {
			if rc[0]*rc[1] <= 40000 {
				b.add("primitives.Hemisphere.UV", "primitives.Hemisphere.UV", "", []int{rc[0], rc[1]}, []float64{0.5}, []bool{true})
			}
		}
		b.add("primitives.Circle.ToMesh", "primitives.Circle.ToMesh", "", []int{n, 1}, []float64{0.5}, nil)
		b.add("primitives.Cone.ToMesh", "primitives.Cone.ToMesh", "", []int{n}, []float64{1, 0.5}, nil)
		for _, uv := range []int{0, 8} {
			b.add("primitives.Cylinder.ToMesh", "primitives.Cylinder.ToMesh", "", []int{n, uv}, []float64{1, 0.5}, []bool{false, false})
		}
	}
}

// packedKeys: neighbouring calls whose two counts are equal once they are packed into one word of
// 8, 10, 12 or 16 bits per count without masking: (r, 2^w+c) next to (r+1, c), and (2^w+r, c) next to
// (r, c+1) — what a table of index lists keyed by rows<<w|columns (or columns<<w|rows) mixes up.
// The partners are listed one after the other so that one process serves both, in both orders
// (ascending and descending passes).
func (b *builder) packedKeys() {
	for _, w := range []int{8, 10, 12, 16} {
		for _, gen := range []string{"primitives.UVSphere", "primitives.UVSphereUnwelded"} {
			for _, rc := range [][2]int{{2, 3}, {3, 4}} {
				b.add(gen, gen, "", []int{rc[0], 1<<w + rc[1]}, []float64{0.5}, nil)
				b.add(gen, gen, "", []int{rc[0] + 1, rc[1]}, []float64{0.5}, nil)
				b.add(gen, gen, "", []int{1<<w + rc[0], rc[1]}, []float64{0.5}, nil)
				b.add(gen, gen, "", []int{rc[0], rc[1] + 1}, []float64{0.5}, nil)
			}
		}
		b.add("primitives.Hemisphere.UV", "primitives.Hemisphere.UV", "", []int{3, 1<<w + 4}, []float64{0.5}, []bool{true})
		b.add("primitives.Hemisphere.UV", "primitives.Hemisphere.UV", "", []int{4, 4}, []float64{0.5}, []bool{true})
		b.add("primitives.Hemisphere.UV", "primitives.Hemisphere.UV", "", []int{1<<w + 3, 4}, []float64{0.5}, []bool{true})
		b.add("primitives.Hemisphere.UV", "primitives.Hemisphere.UV", "", []int{3, 5}, []float64{0.5}, []bool{true})
	}
}

func stripUVs(mode int) *primitives.StripUVs {
	switch mode {
	case 1:
		return &primitives.StripUVs{Start: vector2.New(0, 0.5), End: vector2.New(1, 0.5), Width: 1}
	case 2:
		return &primitives.StripUVs{Start: vector2.New(0.25, 0.1), End: vector2.New(0.25, 0.9), Width: 0.125}
	}
	return nil
}

func cubeUVs(mode int) *primitives.CubeUVs {
	switch mode {
	case 1:
		return primitives.DefaultCubeUVs()
	case 2:
		return &primitives.CubeUVs{}
	case 3:
		return &primitives.CubeUVs{Top: stripUVs(1)}
	case 4:
		return &primitives.CubeUVs{Left: stripUVs(1)}
	case 5:
		d := primitives.DefaultCubeUVs()
		d.Bottom = nil
		return d
	}
	return nil
}

func circleUVs(on bool) *primitives.CircleUVs {
	if !on {
		return nil
	}
	return &primitives.CircleUVs{Center: vector2.New(0.5, 0.5), Radius: 0.5}
}

func cylinderUVs(mode int) *primitives.CylinderUVs {
	if mode <= 0 {
		return nil
	}
	mask := mode - 1
	u := &primitives.CylinderUVs{}
	if mask&1 != 0 {
		u.Top = circleUVs(true)
	}
	if mask&2 != 0 {
		u.Bottom = &primitives.CircleUVs{Center: vector2.New(0.25, 0.75), Radius: 0.25}
	}
	if mask&4 != 0 {
		u.Side = stripUVs(1)
	}
	return u
}

// ---------------------------------------------------------------------------------------------
// repeat
// ---------------------------------------------------------------------------------------------
//
//	Gen                          I            F                                      B
//	repeat.Mesh/Explicit         base, n      -                                      -   first n of a fixed list of 3 TRS (translation; translation+rotation; translation+rotation+non-uniform scale)
//	repeat.Mesh/Line             base, n      sx,sy,sz, ex,ey,ez                     -   repeat.Line(start,end,n)  (n inbetween + both ends)
//	repeat.Mesh/LineExlusive     base, n      sx,sy,sz, ex,ey,ez                     -   repeat.LineExlusive(start,end,n)
//	repeat.Mesh/Circle           base, times  radius                                 -   repeat.Circle(times, radius)
//	repeat.Mesh/FibonacciSphere  base, n      radius                                 -   repeat.FibonacciSphere(n, radius)
//
//	base: 0 one triangle, Position only
//	      1 welded quad (2 triangles, 4 vertices) Position+Normal+TexCoord and one material
//	      2 point cloud of 3 points, Position+Color
//	      3 primitives.UnitCube()
//	      4 (thorough) triangle with Float1+Float3+Float4 attributes next to Position
//	      5 (thorough) line-topology mesh, 2 segments, Position only
//	      6 (thorough) triangle mesh without any attribute (no Position): inadmissible, ApplyTRS requires Position
//
// All admissible (zero transforms give the empty mesh) except FibonacciSphere n<2 (n=1 divides by
// zero) and base 6.
func (b *builder) repeat() {
	site := "repeat.Mesh"
	bases := rng(0, pick(b.thorough, 3, 6))
	baseWhy := func(base int) string { return iff(base == 6, "base mesh has no Position attribute") }
	line := []float64{0, 0, 0, 3, 1.5, -2}
	for _, base := range bases {
		for n := 0; n <= 3; n++ {
			b.add("repeat.Mesh/Explicit", site, baseWhy(base), []int{base, n}, nil, nil)
		}
		for n := 0; n <= pick(b.thorough, 3, 6); n++ {
			b.add("repeat.Mesh/Line", site, baseWhy(base), []int{base, n}, line, nil)
		}
		for n := 0; n <= pick(b.thorough, 3, 6); n++ {
			b.add("repeat.Mesh/LineExlusive", site, baseWhy(base), []int{base, n}, line, nil)
		}
		for n := 0; n <= pick(b.thorough, 5, 9); n++ {
			b.add("repeat.Mesh/Circle", site, baseWhy(base), []int{base, n}, []float64{2}, nil)
		}
		for n := 0; n <= pick(b.thorough, 4, 8); n++ {
			b.add("repeat.Mesh/FibonacciSphere", site, why(baseWhy(base), iff(n < 2, "samples<2")), []int{base, n}, []float64{2}, nil)
		}
	}
}

// one package-level material so pointer identity (and meshlib's %p hash) is stable per process
var quadMaterial = &modeling.Material{Name: "c02gen-quad", DiffuseColor: color.RGBA{R: 200, G: 30, B: 30, A: 255}}

func repeatBase(id int) modeling.Mesh {
	switch id {
	case 0:
		return modeling.NewTriangleMesh([]int{0, 1, 2}).
			SetFloat3Attribute(modeling.PositionAttribute, []vector3.Float64{
				vector3.New(0., 0., 0.), vector3.New(1., 0., 0.), vector3.New(0., 1., 0.),
			})
	case 1:
		up := vector3.New(0., 1., 0.)
		return modeling.NewTriangleMesh([]int{0, 1, 2, 2, 3, 0}).
			SetFloat3Attribute(modeling.PositionAttribute, []vector3.Float64{
				vector3.New(-0.5, 0., -0.5), vector3.New(-0.5, 0., 0.5), vector3.New(0.5, 0., 0.5), vector3.New(0.5, 0., -0.5),
			}).
			SetFloat3Attribute(modeling.NormalAttribute, []vector3.Float64{up, up, up, up}).
			SetFloat2Attribute(modeling.TexCoordAttribute, []vector2.Float64{
				vector2.New(0., 0.), vector2.New(0., 1.), vector2.New(1., 1.), vector2.New(1., 0.),
			}).
			SetMaterials([]modeling.MeshMaterial{{PrimitiveCount: 2, Material: quadMaterial}})
	case 2:
		return modeling.NewPointCloud(
			nil,
			map[string][]vector3.Float64{
				modeling.PositionAttribute: {vector3.New(0., 0., 0.), vector3.New(0.25, 0.5, 0.), vector3.New(0., 0.5, 0.75)},
				modeling.ColorAttribute:    {vector3.New(1., 0., 0.), vector3.New(0., 1., 0.), vector3.New(0., 0., 1.)},
			},
			nil, nil, nil,
		)
	case 3:
		return primitives.UnitCube()
	case 4:
		return modeling.NewTriangleMesh([]int{2, 1, 0}).
			SetFloat3Attribute(modeling.PositionAttribute, []vector3.Float64{
				vector3.New(0., 0., 0.), vector3.New(1., 0., 0.), vector3.New(0., 0., 1.),
			}).
			SetFloat1Attribute("weight", []float64{0.25, 0.5, 1}).
			SetFloat4Attribute("tangent", []vector4.Float64{
				vector4.New(1., 0., 0., 1.), vector4.New(0., 1., 0., 1.), vector4.New(0., 0., 1., -1.),
			})
	case 5:
		return modeling.NewMesh(modeling.LineTopology, []int{0, 1, 1, 2}).
			SetFloat3Attribute(modeling.PositionAttribute, []vector3.Float64{
				vector3.New(0., 0., 0.), vector3.New(1., 0., 0.), vector3.New(1., 1., 0.),
			})
	case 6:
		return modeling.NewTriangleMesh([]int{})
	}
	panic(fmt.Errorf("c02gen: unknown repeat base %d", id))
}

func explicitTRS(n int) []trs.TRS {
	all := []trs.TRS{
		trs.Position(vector3.New(2., 0., 0.)),
		trs.New(vector3.New(0., 3., 0.), quaternion.FromTheta(math.Pi/3, vector3.New(0., 1., 0.)), vector3.New(1., 1., 1.)),
		trs.New(vector3.New(-1., 0.5, 4.), quaternion.FromTheta(1.1, vector3.New(1., 0., 0.)), vector3.New(2., 0.5, 3.)),
	}
	return all[:n:n]
}

// ---------------------------------------------------------------------------------------------
// extrude
// ---------------------------------------------------------------------------------------------
//
//	Gen                               I                                              F        B
//	extrude.Polygon                   sides, path, uvMode, thickMode, dirMode        -        -
//	    uvMode:    0 no point has UV, 1 every point has UV, 2 only the first point has UV
//	    thickMode: 0 uniform 1, 1 non-uniform (1, .5, 2, .25), 2 last point has thickness 0 (the
//	               spike of the repository's own test), 3 negative thickness (inadmissible)
//	    dirMode:   0 derived directions, 1 explicit ExtrusionPointDirection on every point
//	extrude.Circle.Extrude            resolution, path, radiiMode                    radius   ClosePath
//	    radiiMode: 0 Radii=nil, 1 Radii of the path's length, 2 Radii one short (falls back to Radius)
//	extrude.CircleAlongSpline.Extrude circleResolution, splineResolution, spline, radiiMode   radius   -
//	    spline: number of Catmull-Rom control points (2, 4, 5), alpha 0
//	extrude.Line                      path, widthMode, uvMode                        -        -
//	    widthMode: 0 uniform width .5 height 0, 1 varying width/height, 2 zero width (explicitly handled)
//	    uvMode:    0 all Uv zero, 1 advancing Uv with UvWidth
//	extrude.Shape                     shape, path                                    -        -
//	extrude.ClosedShape               shape, path                                    -        -
//	    shape: n = regular n-gon for n in 0..6 (n<3 degenerate), 7 = concave arrow (6 points)
//	extrude.ScrewNode                 segments, linePoints, uvMode                   revolutions, distance   -
//	    uvMode: 0 UVs unset, 1 custom strip. ScrewNodeData.Process documents that <2 line points or
//	    <2 segments yield the empty mesh, so those are admissible.
//
//	path ids (pathPoints):
//	    0 empty*            1 single point*      2 straight up (2)      3 oblique (2)
//	    4 collinear (3)     5 L-bend (3)         6 3D zig-zag (4)       7 along +X (2)
//	    8 straight down (2) 9 planar square path (4)   10 repeated point* (4)   11 reversal* (3)
//	    (* inadmissible)
//
// Admissible: sides/resolution >= 3 (polygon panics below; nodes clamp to 3), >= 2 path points
// (panics below), shape of >= 3 points.
func (b *builder) extrude() {
	paths := rng(0, 11)
	pathWhy := func(p int) string {
		switch p {
		case 0:
			return "empty path"
		case 1:
			return "single path point"
		case 10:
			return "repeated path point"
		case 11:
			return "path reverses onto itself"
		}
		return ""
	}
	sides := append([]int{0, 1, 2}, rng(3, pick(b.thorough, 6, 8))...)
	if b.thorough {
		sides = append([]int{-1}, sides...)
	}
	sidesWhy := func(s int) string { return iff(s < 3, "sides<3") }

	for _, s := range sides {
		for _, p := range paths {
			for uv := 0; uv <= 2; uv++ {
				for th := 0; th <= 3; th++ {
					for dir := 0; dir <= 1; dir++ {
						b.add("extrude.Polygon", "extrude.polygon",
							why(sidesWhy(s), pathWhy(p), iff(th == 3, "negative thickness")),
							[]int{s, p, uv, th, dir}, nil, nil)
					}
				}
			}
		}
	}

	for _, s := range sides {
		for _, p := range paths {
			for rm := 0; rm <= 2; rm++ {
				for _, closed := range []bool{false, true} {
					b.add("extrude.Circle.Extrude", "extrude.Circle.Extrude", why(sidesWhy(s), pathWhy(p)),
						[]int{s, p, rm}, []float64{0.5}, []bool{closed})
				}
			}
		}
	}
	for _, rad := range []float64{2, 0, -1} {
		b.add("extrude.Circle.Extrude", "extrude.Circle.Extrude", why(iff(rad == 0, "zero radius"), iff(rad < 0, "negative radius")),
			[]int{4, 5, 0}, []float64{rad}, []bool{false})
	}

	for _, s := range sides {
		for sr := 0; sr <= pick(b.thorough, 5, 7); sr++ {
			for _, sp := range []int{2, 4, 5} {
				for rm := 0; rm <= 1; rm++ {
					b.add("extrude.CircleAlongSpline.Extrude", "extrude.CircleAlongSpline.Extrude",
						why(sidesWhy(s), iff(sr < 2, "spline resolution<2")),
						[]int{s, sr, sp, rm}, []float64{0.25}, nil)
				}
			}
		}
	}

	for _, p := range paths {
		for wm := 0; wm <= 2; wm++ {
			for uv := 0; uv <= 1; uv++ {
				b.add("extrude.Line", "extrude.Line", pathWhy(p), []int{p, wm, uv}, nil, nil)
			}
		}
	}

	for _, gen := range []string{"extrude.Shape", "extrude.ClosedShape"} {
		for sh := 0; sh <= 7; sh++ {
			for _, p := range paths {
				b.add(gen, "extrude.makeShape", why(iff(sh < 3, "shape<3 points"), pathWhy(p)), []int{sh, p}, nil, nil)
			}
		}
	}

	for seg := 0; seg <= pick(b.thorough, 5, 8); seg++ {
		for lp := 0; lp <= 4; lp++ {
			for uv := 0; uv <= 1; uv++ {
				for _, rd := range [][2]float64{{1, 0}, {2.5, 3}} {
					b.add("extrude.ScrewNode", "extrude.ScrewNodeData.Process", "", []int{seg, lp, uv}, rd[:], nil)
				}
			}
		}
	}
}

func pathPoints(id int) []vector3.Float64 {
	v := func(x, y, z float64) vector3.Float64 { return vector3.New(x, y, z) }
	switch id {
	case 0:
		return []vector3.Float64{}
	case 1:
		return []vector3.Float64{v(0, 0, 0)}
	case 2:
		return []vector3.Float64{v(0, 0, 0), v(0, 1, 0)}
	case 3:
		return []vector3.Float64{v(0, 0, 0), v(1, 2, 3)}
	case 4:
		return []vector3.Float64{v(0, 0, 0), v(0, 1, 0), v(0, 2, 0)}
	case 5:
		return []vector3.Float64{v(0, 0, 0), v(0, 1, 0), v(1, 1, 0)}
	case 6:
		return []vector3.Float64{v(0, 0, 0), v(1, 1, 0), v(0, 2, 1), v(1, 3, 1)}
	case 7:
		return []vector3.Float64{v(0, 0, 0), v(2, 0, 0)}
	case 8:
		return []vector3.Float64{v(0, 0, 0), v(0, -1, 0)}
	case 9:
		return []vector3.Float64{v(0, 0, 0), v(1, 0, 0), v(1, 0, 1), v(0, 0, 1)}
	case 10:
		return []vector3.Float64{v(0, 0, 0), v(0, 1, 0), v(0, 1, 0), v(1, 1, 0)}
	case 11:
		return []vector3.Float64{v(0, 0, 0), v(0, 1, 0), v(0, 0, 0)}
	}
	panic(fmt.Errorf("c02gen: unknown path %d", id))
}

var thickTable = []float64{1, 0.5, 2, 0.25}

func extrusionPoints(path, uvMode, thickMode, dirMode int) []extrude.ExtrusionPoint {
	pts := pathPoints(path)
	out := make([]extrude.ExtrusionPoint, len(pts))
	for i, p := range pts {
		e := extrude.ExtrusionPoint{Point: p, Thickness: 1}
		switch thickMode {
		case 1:
			e.Thickness = thickTable[i%len(thickTable)]
		case 2:
			if i == len(pts)-1 {
				e.Thickness = 0
			}
		case 3:
			e.Thickness = -0.5
		}
		if uvMode == 1 || (uvMode == 2 && i == 0) {
			e.UV = &extrude.ExtrusionPointUV{
				Point:     vector2.New(0.5, float64(i)/float64(len(pts))),
				Thickness: 1 - 0.125*float64(i),
			}
		}
		if dirMode == 1 {
			e.Direction = &extrude.ExtrusionPointDirection{Direction: vector3.New(0.6, 0.8, 0.)}
		}
		out[i] = e
	}
	return out
}

func linePoints(path, widthMode, uvMode int) []extrude.LinePoint {
	pts := pathPoints(path)
	out := make([]extrude.LinePoint, len(pts))
	for i, p := range pts {
		lp := extrude.LinePoint{Point: p, Up: vector3.New(0., 0., 1.), Width: 0.5}
		switch widthMode {
		case 1:
			lp.Width = thickTable[i%len(thickTable)]
			lp.Height = 0.125 * float64(i+1)
		case 2:
			lp.Width = 0
		}
		if uvMode == 1 {
			lp.Uv = vector2.New(0.5, float64(i)/float64(len(pts)))
			lp.UvWidth = 0.5
		}
		out[i] = lp
	}
	return out
}

func shapePoints(id int) []vector2.Float64 {
	if id == 7 {
		return []vector2.Float64{
			vector2.New(0., 1.), vector2.New(1., -1.), vector2.New(0.25, -0.25),
			vector2.New(0., -0.5), vector2.New(-0.25, -0.25), vector2.New(-1., -1.),
		}
	}
	out := make([]vector2.Float64, id)
	for i := range out {
		a := 2 * math.Pi * float64(i) / float64(id)
		out[i] = vector2.New(math.Cos(a)*0.5, math.Sin(a)*0.5)
	}
	return out
}

func splineOf(n int) curves.Spline {
	all := []vector3.Float64{
		vector3.New(0., 0., 0.), vector3.New(1., 1., 0.), vector3.New(2., 0.5, 1.),
		vector3.New(3., 2., 1.), vector3.New(3.5, 3., -1.),
	}
	pts := make([]vector3.Float64, n)
	copy(pts, all[:n])
	s := curves.CatmullRomSplineParameters{Points: pts, Alpha: 0}.Spline()
	return &s
}

func radii(n int) []float64 {
	out := make([]float64, n)
	for i := range out {
		out[i] = thickTable[i%len(thickTable)]
	}
	return out
}

// ---------------------------------------------------------------------------------------------
// triangulation
// ---------------------------------------------------------------------------------------------
//
//	Gen                                     I                              F                           B
//	triangulation.BowyerWatson              table, p0, p1, ... (indices)   -                           reversed (feed the points in reverse order)
//	triangulation.ConstrainedBowyerWatson   table, p0, p1, ...             constraint polygon x0,y0,x1,y1,... (empty = no constraint)   -
//
//	table 0: the 3x3 lattice in general position: point i (0..8) = (i%3, i/3) + latticeOffsets[i]
//	         (no three collinear, no four cocircular — asserted by the package test)
//	table 1: the exact integer lattice (i%3, i/3) — collinear triples, cocircular squares
//
// Admissible: >= 3 distinct points of table 0. Inadmissible: 0..2 points, duplicated points,
// collinear triples / cocircular subsets / the complete exact lattice of table 1.
func (b *builder) triangulation() {
	site := "triangulation.BowyerWatson"
	maxK := pick(b.thorough, 5, 6)

	// inadmissible small / degenerate inputs first (cheap)
	for _, idx := range [][]int{{}, {0}, {0, 4}} {
		b.add("triangulation.BowyerWatson", site, "fewer than 3 points", append([]int{0}, idx...), nil, []bool{false})
	}
	for _, idx := range [][]int{{0, 0, 0}, {0, 0, 1}, {0, 1, 1, 5}, {0, 4, 8, 4}, {3, 1, 7, 5, 3}} {
		b.add("triangulation.BowyerWatson", site, "duplicate points", append([]int{0}, idx...), nil, []bool{false})
	}
	for _, idx := range [][]int{{0, 1, 2}, {3, 4, 5}, {0, 3, 6}, {0, 4, 8}, {2, 4, 6}} {
		b.add("triangulation.BowyerWatson", site, "collinear points", append([]int{1}, idx...), nil, []bool{false})
	}
	for _, idx := range [][]int{{0, 1, 3, 4}, {1, 3, 5, 7}, {0, 2, 6, 8}, {0, 1, 2, 3, 4, 5}, {0, 1, 2, 3, 4, 5, 6, 7, 8}} {
		b.add("triangulation.BowyerWatson", site, "cocircular/collinear exact lattice", append([]int{1}, idx...), nil, []bool{false})
	}

	revs := []bool{false}
	if b.thorough {
		revs = []bool{false, true}
	}
	for _, rev := range revs {
		for k := 3; k <= maxK; k++ {
			for _, sub := range subsets(9, k) {
				b.add("triangulation.BowyerWatson", site, "", append([]int{0}, sub...), nil, []bool{rev})
			}
		}
		b.add("triangulation.BowyerWatson", site, "", append([]int{0}, rng(0, 8)...), nil, []bool{rev})
	}

	// thorough: insertion order matters to the incremental algorithm — every ordering of every
	// 3- and 4-subset (the sorted and the reversed one are already listed above)
	if b.thorough {
		for k := 3; k <= 4; k++ {
			for _, sub := range subsets(9, k) {
				for _, perm := range permutations(k) {
					if isSorted(perm) || isReverse(perm) {
						continue
					}
					idx := []int{0}
					for _, j := range perm {
						idx = append(idx, sub[j])
					}
					b.add("triangulation.BowyerWatson", site, "", idx, nil, []bool{false})
				}
			}
		}
	}

	// constrained: one square constraint around the centre of the lattice, every subset of size
	// 4..5 (thorough ..6) plus the complete lattice; also the unconstrained call (no constraints).
	csite := "triangulation.ConstrainedBowyerWatson"
	square := []float64{0.55, 0.45, 1.85, 0.5, 1.9, 1.75, 0.5, 1.8}
	tri := []float64{-0.5, -0.4, 3.1, 0.9, 0.8, 3.2}
	for k := 4; k <= maxK; k++ {
		for _, sub := range subsets(9, k) {
			b.add("triangulation.ConstrainedBowyerWatson", csite, "", append([]int{0}, sub...), square, nil)
		}
	}
	for _, cons := range [][]float64{nil, square, tri} {
		b.add("triangulation.ConstrainedBowyerWatson", csite, "", append([]int{0}, rng(0, 8)...), cons, nil)
	}
	b.add("triangulation.ConstrainedBowyerWatson", csite, "fewer than 3 points", []int{0, 0, 4}, square, nil)
	b.add("triangulation.ConstrainedBowyerWatson", csite, "cocircular/collinear exact lattice", append([]int{1}, rng(0, 8)...), square, nil)
}

// permutations returns all permutations of 0..k-1 in lexicographic order.
func permutations(k int) [][]int {
	var out [][]int
	cur := make([]int, 0, k)
	used := make([]bool, k)
	var rec func()
	rec = func() {
		if len(cur) == k {
			out = append(out, append([]int(nil), cur...))
			return
		}
		for i := 0; i < k; i++ {
			if !used[i] {
				used[i] = true
				cur = append(cur, i)
				rec()
				cur = cur[:len(cur)-1]
				used[i] = false
			}
		}
	}
	rec()
	return out
}

func isSorted(p []int) bool {
	for i := range p {
		if p[i] != i {
			return false
		}
	}
	return true
}

func isReverse(p []int) bool {
	for i := range p {
		if p[i] != len(p)-1-i {
			return false
		}
	}
	return true
}

// subsets returns all k-subsets of {0..n-1} in lexicographic order.
func subsets(n, k int) [][]int {
	var out [][]int
	cur := make([]int, 0, k)
	var rec func(start int)
	rec = func(start int) {
		if len(cur) == k {
			out = append(out, append([]int(nil), cur...))
			return
		}
		for i := start; i < n; i++ {
			cur = append(cur, i)
			rec(i + 1)
			cur = cur[:len(cur)-1]
		}
	}
	rec(0)
	return out
}

// latticeOffsets is the fixed perturbation that puts the 3x3 lattice into general position: over all
// triples |orient| >= 0.39 and over all (triple, fourth point) |incircle determinant| >= 0.39
// (asserted by TestLatticeGeneralPosition).
var latticeOffsets = [9][2]float64{
	{0.06, -0.1}, {-0.12, 0.14}, {0.05, -0.05},
	{-0.17, -0.16}, {0.1, 0.18}, {-0.12, -0.05},
	{-0.03, 0.05}, {-0.08, 0.14}, {0.13, -0.2},
}

// LatticePoint is point i of the triangulation table (exported for the package test's
// general-position assertion).
func LatticePoint(table, i int) (x, y float64) {
	if i < 0 || i > 8 {
		panic(fmt.Errorf("c02gen: lattice point %d out of range", i))
	}
	x, y = float64(i%3), float64(i/3)
	if table == 0 {
		x += latticeOffsets[i][0]
		y += latticeOffsets[i][1]
	}
	return x, y
}

func triPoints(I []int, reversed bool) []vector2.Float64 {
	if len(I) < 1 {
		panic(fmt.Errorf("c02gen: malformed triangulation case"))
	}
	table := I[0]
	out := make([]vector2.Float64, 0, len(I)-1)
	for _, i := range I[1:] {
		x, y := LatticePoint(table, i)
		out = append(out, vector2.New(x, y))
	}
	if reversed {
		for l, r := 0, len(out)-1; l < r; l, r = l+1, r-1 {
			out[l], out[r] = out[r], out[l]
		}
	}
	// exact capacity: the library appends its super triangle to the slice it is handed
	return out[:len(out):len(out)]
}

// ---------------------------------------------------------------------------------------------
// marching
// ---------------------------------------------------------------------------------------------
//
//	Gen                              I        F                                              B
//	marching.Field.March/<Shape>     -        cubesPerUnit, cutoff, cx, cy, cz, size         -
//	marching.Canvas.March/<Shape>    addMode  cubesPerUnit, cutoff, cx, cy, cz, size         marchParallel
//	marching.Canvas.MarchParallel/<Shape>                  (same; addMode 1, marchParallel true)
//	marching.Canvas.March+AddFieldParallel2/<Shape>        (same; addMode 2, marchParallel false)
//	    addMode: 0 AddField, 1 AddFieldParallel, 2 AddFieldParallel2
//	    marchParallel: false March, true MarchParallel
//	    (Run obeys I/B; the three Gen spellings only keep the ids unique per variant)
//
//	<Shape>: Sphere   marching.Sphere(c, size, 1)
//	         Box      marching.Box(c, (size, 1.5 size, 0.75 size), 1)
//	         Line     marching.Line(c-(size,0,0), c+(size, size/2, 0), size/3, 1)
//	         Combined sphere(c,size) ∪ box(c+(size,0,0), size) — CombineFields for Field.March, two AddField calls on a canvas
//	         Colored  sphere.WithColor (a Float3 attribute next to the marched Float1; Field.March only)
//	         Subtract marching.Subtract(box, sphere)
//	         Attributed sphere with an extra Float1 ("density"), a Float2 (TexCoord) and a Float3 (Color) function (Field.March only)
//	         Mirror   marching.MirrorAxis(sphere at (1,.5,.5), XAxis) (Field.March only; the domain spans negative coordinates)
//	         Straddle sphere centred on the boundary between canvas blocks (0,0,0) and (1,0,0)
//	         Empty    sphere marched with a cutoff below every field value (no surface): inadmissible
//
// A canvas block is 100^3 cells, cell = floor(coordinate*cubesPerUnit), block = floor(cell/100); a
// field touches cells floor(min*cpu)-1 .. ceil(max*cpu)+1. All shapes but Straddle are centred on
// cell (50,50,50) with a half-extent of at most ~12 cells, so exactly one block is allocated.
func (b *builder) marching() {
	fs := "marching.Field.March"
	cs := "marching.MarchingCanvas.March"
	cps := "marching.MarchingCanvas.MarchParallel"
	at := func(cpu, cutoff, size float64) []float64 {
		c := 50 / cpu
		return []float64{cpu, cutoff, c, c, c, size}
	}

	// quick: exactly one Field.March and one canvas march (+ the cheap inadmissible empty surface)
	b.add("marching.Field.March/Sphere", fs, "", nil, at(10, 0, 0.5), nil)
	b.add("marching.Field.March/Empty", fs, "empty surface", nil, at(10, -100, 0.5), nil)
	b.add("marching.Canvas.March/Sphere", cs, "", []int{0}, at(10, 0, 0.5), []bool{false}).Slow = true
	if !b.thorough {
		return
	}
	b.add("marching.Field.March/Box", fs, "", nil, at(8, 0, 0.5), nil)
	b.add("marching.Field.March/Line", fs, "", nil, at(6, 0, 0.6), nil)
	b.add("marching.Field.March/Combined", fs, "", nil, at(10, 0, 0.4), nil)
	b.add("marching.Field.March/Colored", fs, "", nil, at(4, 0, 0.6), nil)
	b.add("marching.Field.March/Subtract", fs, "", nil, at(10, 0, 0.5), nil)
	b.add("marching.Field.March/Attributed", fs, "", nil, at(8, 0, 0.5), nil)
	b.add("marching.Field.March/Mirror", fs, "", nil, []float64{6, 0, 1, 0.5, 0.5, 0.4}, nil)

	b.add("marching.Canvas.March/Box", cs, "", []int{0}, at(8, 0, 0.5), []bool{false}).Slow = true
	b.add("marching.Canvas.March/Line", cs, "", []int{0}, at(6, 0, 0.6), []bool{false}).Slow = true
	b.add("marching.Canvas.March/Combined", cs, "", []int{0}, at(10, 0, 0.4), []bool{false}).Slow = true
	b.add("marching.Canvas.MarchParallel/Sphere", cps, "", []int{1}, at(10, 0, 0.5), []bool{true}).Slow = true
	b.add("marching.Canvas.March+AddFieldParallel2/Sphere", cs, "", []int{2}, at(10, 0, 0.5), []bool{false}).Slow = true
	b.add("marching.Canvas.March/Straddle", cs, "", []int{0}, []float64{10, 0, 10, 5, 5, 0.5}, []bool{false}).Slow = true
	b.add("marching.Canvas.March/Empty", cs, "empty surface", []int{0}, at(10, -100, 0.5), []bool{false}).Slow = true
	b.add("marching.Canvas.MarchParallel/Empty", cps, "empty surface", []int{1}, at(10, -100, 0.5), []bool{true}).Slow = true
}

func marchFields(shape string, c vector3.Float64, size float64) []marching.Field {
	switch shape {
	case "Sphere", "Straddle", "Empty":
		return []marching.Field{marching.Sphere(c, size, 1)}
	case "Box":
		return []marching.Field{marching.Box(c, vector3.New(size, 1.5*size, 0.75*size), 1)}
	case "Line":
		return []marching.Field{marching.Line(c.Sub(vector3.New(size, 0, 0)), c.Add(vector3.New(size, size/2, 0)), size/3, 1)}
	case "Combined":
		return []marching.Field{
			marching.Sphere(c, size, 1),
			marching.Box(c.Add(vector3.New(size, 0, 0)), vector3.New(size, size, size), 1),
		}
	case "Colored":
		return []marching.Field{marching.Sphere(c, size, 1).WithColor(color.RGBA{R: 255, G: 128, B: 0, A: 255})}
	case "Attributed":
		f := marching.Sphere(c, size, 1)
		f.Float1Functions["density"] = func(v vector3.Float64) float64 { return v.X() * 0.5 }
		f.Float2Functions = map[string]sample.Vec3ToVec2{
			modeling.TexCoordAttribute: func(v vector3.Float64) vector2.Float64 { return vector2.New(v.X(), v.Z()) },
		}
		f.Float3Functions = map[string]sample.Vec3ToVec3{
			modeling.ColorAttribute: func(v vector3.Float64) vector3.Float64 { return v.Scale(0.1) },
		}
		return []marching.Field{f}
	case "Mirror":
		return []marching.Field{marching.MirrorAxis(marching.Sphere(c, size, 1), marching.XAxis)}
	case "Subtract":
		return []marching.Field{marching.Subtract(
			marching.Box(c, vector3.New(size*1.5, size*1.5, size*1.5), 1),
			marching.Sphere(c.Add(vector3.New(size*0.75, size*0.75, 0)), size*0.6, 1),
		)}
	}
	panic(fmt.Errorf("c02gen: unknown marching shape %q", shape))
}

// ---------------------------------------------------------------------------------------------
// execution
// ---------------------------------------------------------------------------------------------

func need(c Case, ni, nf, nb int) {
	if len(c.I) < ni || len(c.F) < nf || len(c.B) < nb {
		panic(fmt.Errorf("c02gen: malformed case %s: need %d ints, %d floats, %d flags", c.Gen, ni, nf, nb))
	}
}

// Run executes the generator call on the real library and returns the produced mesh(es).
// It does not recover panics, builds every input freshly and depends only on the Case fields.
func Run(c Case) []modeling.Mesh {
	one := func(m modeling.Mesh) []modeling.Mesh { return []modeling.Mesh{m} }

	switch c.Gen {
	// ---- primitives
	case "primitives.UVSphere":
		need(c, 2, 1, 0)
		return one(primitives.UVSphere(c.F[0], c.I[0], c.I[1]))
	case "primitives.UVSphereUnwelded":
		need(c, 2, 1, 0)
		return one(primitives.UVSphereUnwelded(c.F[0], c.I[0], c.I[1]))
	case "primitives.Hemisphere.UV":
		need(c, 2, 1, 1)
		return one(primitives.Hemisphere{Radius: c.F[0], Capped: c.B[0]}.UV(c.I[0], c.I[1]))
	case "primitives.UnitCube":
		return one(primitives.UnitCube())
	case "primitives.Cube.Welded":
		need(c, 1, 3, 0)
		return one(primitives.Cube{Width: c.F[0], Height: c.F[1], Depth: c.F[2], UVs: cubeUVs(c.I[0])}.Welded())
	case "primitives.Cube.UnweldedQuads":
		need(c, 1, 3, 0)
		return one(primitives.Cube{Width: c.F[0], Height: c.F[1], Depth: c.F[2], UVs: cubeUVs(c.I[0])}.UnweldedQuads())
	case "primitives.Quad.ToMesh":
		need(c, 1, 2, 0)
		return one(primitives.Quad{Width: c.F[0], Depth: c.F[1], UVs: stripUVs(c.I[0])}.ToMesh())
	case "primitives.Circle.ToMesh":
		need(c, 2, 1, 0)
		return one(primitives.Circle{Sides: c.I[0], Radius: c.F[0], UVs: circleUVs(c.I[1] == 1)}.ToMesh())
	case "primitives.Cone.ToMesh":
		need(c, 1, 2, 0)
		return one(primitives.Cone{Sides: c.I[0], Height: c.F[0], Radius: c.F[1]}.ToMesh())
	case "primitives.Cylinder.ToMesh":
		need(c, 2, 2, 2)
		return one(primitives.Cylinder{
			Sides: c.I[0], Height: c.F[0], Radius: c.F[1],
			NoTop: c.B[0], NoBottom: c.B[1], UVs: cylinderUVs(c.I[1]),
		}.ToMesh())

	// ---- repeat
	case "repeat.Mesh/Explicit":
		need(c, 2, 0, 0)
		return one(repeat.Mesh(repeatBase(c.I[0]), explicitTRS(c.I[1])))
	case "repeat.Mesh/Line":
		need(c, 2, 6, 0)
		return one(repeat.Mesh(repeatBase(c.I[0]),
			repeat.Line(vector3.New(c.F[0], c.F[1], c.F[2]), vector3.New(c.F[3], c.F[4], c.F[5]), c.I[1])))
	case "repeat.Mesh/LineExlusive":
		need(c, 2, 6, 0)
		return one(repeat.Mesh(repeatBase(c.I[0]),
			repeat.LineExlusive(vector3.New(c.F[0], c.F[1], c.F[2]), vector3.New(c.F[3], c.F[4], c.F[5]), c.I[1])))
	case "repeat.Mesh/Circle":
		need(c, 2, 1, 0)
		return one(repeat.Mesh(repeatBase(c.I[0]), repeat.Circle(c.I[1], c.F[0])))
	case "repeat.Mesh/FibonacciSphere":
		need(c, 2, 1, 0)
		return one(repeat.Mesh(repeatBase(c.I[0]), repeat.FibonacciSphere(c.I[1], c.F[0])))

	// ---- extrude
	case "extrude.Polygon":
		need(c, 5, 0, 0)
		return one(extrude.Polygon(c.I[0], extrusionPoints(c.I[1], c.I[2], c.I[3], c.I[4])))
	case "extrude.Circle.Extrude":
		need(c, 3, 1, 1)
		path := pathPoints(c.I[1])
		var rr []float64
		switch c.I[2] {
		case 1:
			rr = radii(len(path))
		case 2:
			if len(path) > 0 {
				rr = radii(len(path) - 1)
			} else {
				rr = radii(1)
			}
		}
		return one(extrude.Circle{Resolution: c.I[0], Radius: c.F[0], Radii: rr, ClosePath: c.B[0], Path: path}.Extrude())
	case "extrude.CircleAlongSpline.Extrude":
		need(c, 4, 1, 0)
		var rr []float64
		if c.I[3] == 1 && c.I[1] > 0 {
			rr = radii(c.I[1])
		}
		return one(extrude.CircleAlongSpline{
			CircleResolution: c.I[0], SplineResolution: c.I[1], Spline: splineOf(c.I[2]),
			Radius: c.F[0], Radii: rr,
		}.Extrude())
	case "extrude.Line":
		need(c, 3, 0, 0)
		return one(extrude.Line(linePoints(c.I[0], c.I[1], c.I[2])))
	case "extrude.Shape":
		need(c, 2, 0, 0)
		return one(extrude.Shape(shapePoints(c.I[0]), pathPoints(c.I[1])))
	case "extrude.ClosedShape":
		need(c, 2, 0, 0)
		return one(extrude.ClosedShape(shapePoints(c.I[0]), pathPoints(c.I[1])))
	case "extrude.ScrewNode":
		need(c, 3, 2, 0)
		all := []vector3.Float64{vector3.New(1., 0., 0.), vector3.New(1.5, 0.5, 0.), vector3.New(1., 1., 0.), vector3.New(2., 1.5, 0.25)}
		line := make([]vector3.Float64, c.I[1])
		copy(line, all)
		data := extrude.ScrewNodeData{
			Line:        nodes.Value(line).Out(),
			Segments:    nodes.Value(c.I[0]).Out(),
			Revolutions: nodes.Value(c.F[0]).Out(),
			Distance:    nodes.Value(c.F[1]).Out(),
		}
		if c.I[2] == 1 {
			data.UVs = nodes.Value(*stripUVs(2)).Out()
		}
		m, err := data.Process()
		if err != nil {
			panic(err)
		}
		return one(m)

	// ---- triangulation
	case "triangulation.BowyerWatson":
		need(c, 1, 0, 1)
		return one(triangulation.BowyerWatson(triPoints(c.I, c.B[0])))
	case "triangulation.ConstrainedBowyerWatson":
		need(c, 1, 0, 0)
		var cons []triangulation.Constraint
		if len(c.F) > 0 {
			shape := make([]vector2.Float64, len(c.F)/2)
			for i := range shape {
				shape[i] = vector2.New(c.F[2*i], c.F[2*i+1])
			}
			cons = []triangulation.Constraint{triangulation.NewConstraint(shape)}
		}
		return one(triangulation.ConstrainedBowyerWatson(triPoints(c.I, false), cons))
	}

	// ---- marching
	if shape, ok := strings.CutPrefix(c.Gen, "marching.Field.March/"); ok {
		need(c, 0, 6, 0)
		fields := marchFields(shape, vector3.New(c.F[2], c.F[3], c.F[4]), c.F[5])
		return one(marching.CombineFields(fields...).March(modeling.PositionAttribute, c.F[0], c.F[1]))
	}
	if strings.HasPrefix(c.Gen, "marching.Canvas.") {
		need(c, 1, 6, 1)
		shape := c.Gen[strings.LastIndexByte(c.Gen, '/')+1:]
		canvas := marching.NewMarchingCanvas(c.F[0])
		for _, f := range marchFields(shape, vector3.New(c.F[2], c.F[3], c.F[4]), c.F[5]) {
			switch c.I[0] {
			case 0:
				canvas.AddField(f)
			case 1:
				canvas.AddFieldParallel(f)
			case 2:
				canvas.AddFieldParallel2(f)
			default:
				panic(fmt.Errorf("c02gen: unknown addMode %d", c.I[0]))
			}
		}
		if c.B[0] {
			return one(canvas.MarchParallel(c.F[1]))
		}
		return one(canvas.March(c.F[1]))
	}

	panic(fmt.Errorf("c02gen: unknown generator %q", c.Gen))
}
