package c04

import (
	"bytes"
	"fmt"
	"math"

	"github.com/EliCDavis/polyform/formats/ply"
	"github.com/EliCDavis/polyform/modeling"
	"github.com/EliCDavis/vector/vector3"

	"verif/harness/core"
)

// One name in two dimensions.  A mesh keeps one attribute table per dimension, so a vector "wind"
// (direction) and a scalar "wind" (speed) are two attributes.  Whatever a configured writer does with
// the vector, the scalar is "a scalar attribute stored as a float property of the same name" and must
// come back, in every encoding — and the other way round for a claimed scalar and an unclaimed
// TexCoord-less vector nothing is promised, so only the scalars are compared.

const clDup = "a scalar attribute comes back under its own name within float32 precision, also when another dimension carries an attribute of the same name"

func (k checker) dupNames(topo string, wi, fi int) {
	formats := []ply.Format{ply.ASCII, ply.BinaryLittleEndian, ply.BinaryBigEndian}
	fnames := []string{"ascii", "binary_little_endian", "binary_big_endian"}
	wnames := []string{"ply.Write", "MeshWriter{vector 'wind' claimed as wx wy wz, unspecified on}", "MeshWriter{Position only, unspecified on}"}
	cs := Case{Scope: "dup-names", DupTopo: topo, DupWriter: wi + 1, SaveFormat: 0, DupFormat: fi + 1}
	n := 4
	pos, wind := make([]vector3.Float64, n), make([]vector3.Float64, n)
	speed, other := make([]float64, n), make([]float64, n)
	for i := 0; i < n; i++ {
		f := float64(i)
		pos[i] = vector3.New(f+0.25, f*f-1, 0.5*f)
		wind[i] = vector3.New(0.1+f, -0.2*f, 1.5)
		speed[i] = 2.5 + 1.25*f
		other[i] = -7 + f
	}
	var m modeling.Mesh
	if topo == "tri" {
		m = modeling.NewTriangleMesh([]int{0, 1, 2, 2, 1, 3})
	} else {
		m = modeling.NewMesh(modeling.PointTopology, []int{0, 1, 2, 3})
	}
	m = m.SetFloat3Attribute(modeling.PositionAttribute, pos).SetFloat3Attribute("wind", wind).
		SetFloat1Attribute("wind", speed).SetFloat1Attribute("other", other)
	write := func(out *bytes.Buffer) error {
		posW := ply.Vector3PropertyWriter{ModelAttribute: modeling.PositionAttribute, Type: ply.Float, PlyPropertyX: "x", PlyPropertyY: "y", PlyPropertyZ: "z"}
		switch wi {
		case 1:
			return ply.MeshWriter{Format: formats[fi], WriteUnspecifiedProperties: true, Properties: []ply.PropertyWriter{posW,
				ply.Vector3PropertyWriter{ModelAttribute: "wind", Type: ply.Float, PlyPropertyX: "wx", PlyPropertyY: "wy", PlyPropertyZ: "wz"}}}.Write(m, out)
		case 2:
			return ply.MeshWriter{Format: formats[fi], WriteUnspecifiedProperties: true, Properties: []ply.PropertyWriter{posW}}.Write(m, out)
		}
		return ply.Write(out, m, formats[fi])
	}
	scope := "dup-names/" + fnames[fi]
	class := fmt.Sprintf("same-name-in-two-dimensions/%s/%s", topo, fnames[fi])
	k.c.Nontrivial("dup-names", topo, wi, fi)
	fail := func(detail string) {
		k.c.Violate(core.Violation{Site: "ply.MeshWriter.Write", Clause: clDup, Class: class, Detail: wnames[wi] + ", " + topo + " mesh with a vector 'wind' and a scalar 'wind': " + detail, Case: cs})
	}
	var buf bytes.Buffer
	var err error
	if o := core.Guard(func() { err = write(&buf) }); o.Panicked || err != nil {
		k.c.Eval(scope, "write-failure")
		fail(fmt.Sprint("writing failed: ", o.Msg, err))
		return
	}
	var back *modeling.Mesh
	if o := core.Guard(func() { back, err = ply.ReadMesh(bytes.NewReader(buf.Bytes())) }); o.Panicked || err != nil || back == nil {
		k.c.Eval(scope, "read-failure")
		fail(fmt.Sprint("reading the written file failed: ", o.Msg, err))
		return
	}
	outcome := "ok"
	for name, want := range map[string][]float64{"wind": speed, "other": other} {
		if !back.HasFloat1Attribute(name) {
			outcome = "mismatch"
			fail(fmt.Sprintf("scalar attribute %q did not come back (scalar attributes read: %v)", name, back.Float1Attributes()))
			continue
		}
		got := back.Float1Attribute(name)
		// per corner: a triangle mesh without texture coordinates keeps its vertex table; point clouds too
		if got.Len() != n {
			outcome = "mismatch"
			fail(fmt.Sprintf("scalar attribute %q came back with %d values, the mesh has %d vertices", name, got.Len(), n))
			continue
		}
		for i := 0; i < n; i++ {
			if math.Abs(got.At(i)-want[i]) > math.Abs(want[i])*0x1p-23 {
				outcome = "mismatch"
				fail(fmt.Sprintf("scalar attribute %q vertex %d: wrote %v, read %v", name, i, want[i], got.At(i)))
				break
			}
		}
	}
	k.c.Eval(scope, outcome)
}

func (k checker) dupNameCases(next func() bool) {
	for _, topo := range []string{"point", "tri"} {
		for wi := 0; wi < 3; wi++ {
			for fi := 0; fi < 3; fi++ {
				if next() {
					k.dupNames(topo, wi, fi)
				}
			}
		}
	}
	k.c.Bound("G.same_name_in_two_dimensions", "a point cloud and a welded triangle mesh carrying a vector 'wind' and a scalar 'wind' (plus a scalar 'other'), under ply.Write, a writer claiming the vector, and a writer claiming neither, in each encoding: the scalars must come back under their names")
}
